import N2k.Lemmas.HandlersOps
import N2k.Spec.HandlersRx
/-! C14 end to end: every history of client operations, arrivals and polls causes exactly the expected calls. -/
namespace N2k.Handlers

theorem dispatchAll_ok {w : World} (hi : Inv w) : ∀ (ms : List (BusId × Rx.Msg)),
    ∃ cs, dispatchAll w ms = some cs ∧ Agree CallOk cs (ms.map fun bm => ⟨bm.1, bm.2, view w⟩)
  | [] => ⟨[], rfl, trivial⟩
  | bm :: rest => by
    obtain ⟨l, hd, hn, hm, ho⟩ := dispatch_ok hi bm.1 bm.2.pgn
    obtain ⟨cs, hcs, ha⟩ := dispatchAll_ok hi rest
    refine ⟨⟨bm.1, bm.2, if w.cb bm.1 then 1 else 0, l⟩ :: cs, by simp [dispatchAll, hd, hcs], ?_⟩
    exact ⟨⟨rfl, rfl, rfl, hn, hm, ho⟩, ha⟩

theorem nodeRun_ok (c : BusId → Rx.Cfg) : ∀ (evs : List Ev) (n : Node), Inv n.w →
    ∃ n' calls, nodeRun c n evs = some (n', calls) ∧ Inv n'.w ∧
      CallsAgree calls (expected c (view n.w) n.r evs)
  | [], n, hi => ⟨n, [], rfl, hi, trivial⟩
  | e :: evs, n, hi => by
    have recv : ∀ e : Ev, (∀ o, e ≠ .op o) →
        (nodeStep c n e = match dispatchAll n.w (rxTrack c n.r e).2 with
          | none => none
          | some cs => some (⟨n.w, (rxTrack c n.r e).1⟩, cs)) ∧
        expected c (view n.w) n.r (e :: evs) =
          ((rxTrack c n.r e).2.map fun bm => ⟨bm.1, bm.2, view n.w⟩) :: expected c (view n.w) (rxTrack c n.r e).1 evs := by
      intro e he
      cases e with
      | op o => exact absurd rfl (he o)
      | setMode b k v => exact ⟨rfl, rfl⟩
      | arrive b f tp => exact ⟨rfl, rfl⟩
      | poll b now k => exact ⟨rfl, rfl⟩
    have fin : (∀ o, e ≠ .op o) → ∃ n' calls, nodeRun c n (e :: evs) = some (n', calls) ∧ Inv n'.w ∧
        CallsAgree calls (expected c (view n.w) n.r (e :: evs)) := by
      intro he
      obtain ⟨hs, hx⟩ := recv e he
      rw [hx]
      obtain ⟨cs, hcs, ha⟩ := dispatchAll_ok hi (rxTrack c n.r e).2
      simp only [hcs] at hs
      obtain ⟨n', calls, hr, hi', hc⟩ := nodeRun_ok c evs ⟨n.w, (rxTrack c n.r e).1⟩ hi
      refine ⟨n', cs :: calls, ?_, hi', ?_⟩
      · simp [nodeRun, hs, hr]
      · exact ⟨ha, hc⟩
    cases e with
    | op o =>
      obtain ⟨w', hst, hi', hv⟩ := step_ok hi o
      obtain ⟨n', calls, hr, hi'', hc⟩ := nodeRun_ok c evs ⟨w', n.r⟩ hi'
      refine ⟨n', [] :: calls, ?_, hi'', ?_⟩
      · simp [nodeRun, nodeStep, hst, hr]
      · show Agree CallOk [] [] ∧ CallsAgree calls (expected c (specStep (view n.w) o) n.r evs)
        rw [← hv]; exact ⟨trivial, hc⟩
    | setMode b k v => exact fin (fun o h => by cases h)
    | arrive b f tp => exact fin (fun o h => by cases h)
    | poll b now k => exact fin (fun o h => by cases h)

end N2k.Handlers
