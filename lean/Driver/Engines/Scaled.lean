import N2k.Model.Scaled
import Driver.Util
-- engine: scaled
/-! Engine `scaled` (C06): runs `addInt` / `getDouble` / `addFloat` / `getFloat` / `frontQ` of the model.

ops (kind = `1s 1u 2s 2u 3s 3u 4s 4u 8s`, or `f` for the float field where noted):
* `put kind vd [undef]`      vd, undef ∈ integer | `nan` | `+inf` | `-inf`  → appended bytes (hex) | `fault`
* `get kind hex`             payload = hex, index 0                          → integer | `def`
* `msg hex`                  sets the whole `Data` array (case start)        → `ok`
* `getat kind idx len`       (kind may be `f`) getter on the current array with DataLen = len → `value|def idx'`
* `putf p [undef]`           float bit patterns as decimal integers          → appended bytes (hex)
* `getf hex`                                                                 → pattern (decimal) | `def`
* `qz kind mv ev mp ep`      v = mv·2^ev, precision = mp·2^ep (exact)        → `near` | bytes of the exact code
-/
namespace Driver.Scaled
open N2k.Scaled Driver

def kind? : String → Option (Nat × Bool)
  | "1s" => some (1, true) | "1u" => some (1, false)
  | "2s" => some (2, true) | "2u" => some (2, false)
  | "3s" => some (3, true) | "3u" => some (3, false)
  | "4s" => some (4, true) | "4u" => some (4, false)
  | "8s" => some (8, true)
  | _ => none

def vd? : String → Option Vd
  | "nan" => some .nan
  | "+inf" => some .posInf
  | "-inf" => some .negInf
  | s => s.toInt?.map .int

def bytesOut : Except Fault (List Nat) → String
  | .ok bs => hexOfBytes bs
  | .error _ => "fault"

def valOut : Option Int → String
  | some v => toString (dblOfInt v)   -- the getter returns `vl * 1.0`
  | none => "def"

/-- `m · 2^e` as an exact rational quotient `v / p` -/
def quot (mv ev mp ep : Int) : Rat :=
  let s := ev - ep
  if 0 ≤ s then mkRat (mv * 2 ^ s.toNat) mp.toNat else mkRat mv (mp.toNat * 2 ^ (-s).toNat)

def absQ (q : Rat) : Rat := if 0 ≤ q then q else -q

/-- is the exact quotient so close to a rounding boundary (a tie `m+1/2`; an integer for the truncating
8-byte field) — but not on it — that the double quotient may fall on the other side?
Criterion: distance ≤ 2^-40 · |q|. -/
def nearBoundary (w : Nat) (q : Rat) : Bool :=
  let a := absQ q
  let m : Rat := (a.floor : Int)
  let d := if w = 8 then (if a - m ≤ m + 1 - a then a - m else m + 1 - a) else absQ (a - (m + 1 / 2))
  decide (0 < d) && decide (d * 1099511627776 ≤ a)

def step (data : List Nat) (w : List String) : List Nat × String :=
  let bad := (data, "bad-op")
  match w with
  | ["put", k, v] => match kind? k, vd? v with
    | some (w, s), some v => (data, bytesOut (addInt w s v (.int (-1000000000))))
    | _, _ => bad
  | ["put", k, v, u] => match kind? k, vd? v, vd? u with
    | some (w, s), some v, some u => (data, bytesOut (addInt w s v u))
    | _, _, _ => bad
  | ["get", k, h] => match kind? k, hexBytes? h with
    | some (w, s), some bs => match getDouble w s bs bs.length 0 with
      | .ok (v, _) => (data, valOut v)
      | .error _ => (data, "fault")
    | _, _ => bad
  | ["msg", h] => match hexBytes? h with
    | some bs => (bs, "ok")
    | none => bad
  | ["getat", "f", i, n] => match nat? i, nat? n with
    | some i, some n => match getFloat data n i with
      | .ok (v, i') => (data, s!"{match v with | some p => toString p | none => "def"} {i'}")
      | .error _ => (data, "fault")
    | _, _ => bad
  | ["getat", k, i, n] => match kind? k, nat? i, nat? n with
    | some (w, s), some i, some n => match getDouble w s data n i with
      | .ok (v, i') => (data, s!"{valOut v} {i'}")
      | .error _ => (data, "fault")
    | _, _, _ => bad
  | ["putf", p] => match nat? p with
    | some p => (data, hexOfBytes (addFloat p f32NA))
    | none => bad
  | ["putf", p, u] => match nat? p, nat? u with
    | some p, some u => (data, hexOfBytes (addFloat p u))
    | _, _ => bad
  | ["getf", h] => match hexBytes? h with
    | some bs => match getFloat bs bs.length 0 with
      | .ok (some p, _) => (data, toString p)
      | .ok (none, _) => (data, "def")
      | .error _ => (data, "fault")
    | none => bad
  | ["qz", k, mv, ev, mp, ep] => match kind? k, mv.toInt?, ev.toInt?, mp.toInt?, ep.toInt? with
    | some (w, s), some mv, some ev, some mp, some ep =>
      if mp ≤ 0 then bad else
      let q := quot mv ev mp ep
      if nearBoundary w q then (data, "near")
      else (data, bytesOut (addDouble w s false false (.int (frontQ w q))))
    | _, _, _, _, _ => bad
  | _ => bad

def main : IO Unit := loop step ([] : List Nat)

end Driver.Scaled
