// C16 harness: text fields of tN2kMsg (AddStr/AddAISStr/AddVarStr, GetStr x2, GetVarStr and the UTF-8 helpers
// they call) executed on the REAL code.
//
// Observation technique
//  * source strings: every add is run (a) with the string placed so that its terminating NUL is the LAST byte
//    before a PROT_NONE page (a read of even one byte beyond the terminator raises SIGSEGV, which is caught and
//    reported as an oracle failure without ending the run), then (b) twice with the string in an exact-size
//    malloc block (ASan red zone right behind the NUL) and two different contents of the stale payload bytes;
//  * destinations: exact-size malloc blocks (ASan sees a one-byte overrun; that aborts the run and check.py
//    reports the crashing op); a destination of size 0 is a malloc(0) block;
//  * payload: tN2kMsg::Data is followed by other members, so an overrun of Data stays inside the object and is
//    invisible to ASan: the whole object is compared with a snapshot outside Data/DataLen;
//  * reads at index >= DataLen: every get is run twice with different stale bytes behind DataLen; any difference
//    in the result means stale bytes were read.
// The oracle below is written from the property statement only (it does not know the Lean model).
#include "common.h"
#include "N2kMsg.h"
#include <sys/mman.h>
#include <signal.h>
#include <setjmp.h>
#include <unistd.h>
#include <cstddef>

using namespace vh;
static Ctx C;
typedef std::vector<unsigned char> Bytes;

// ---------------------------------------------------------------------------------------------- guard page
static sigjmp_buf g_jb;
static volatile sig_atomic_t g_armed = 0;
static unsigned char *g_map = nullptr;      // GPAGES accessible pages followed by one PROT_NONE page (source strings)
static unsigned char *g_dmap = nullptr;     // the same for destinations: a destination of n bytes ENDS at the guard page,
                                            // so a write at index >= n faults - also for n == 0 (malloc(0) is a 1-byte block for ASan)
static const size_t PAGE = 4096, GPAGES = 2;
static struct sigaction g_old;
static void onSegv(int sig, siginfo_t *si, void *uc) {
  unsigned char *a = (unsigned char *)si->si_addr;
  if (g_armed && ((a >= g_map + GPAGES * PAGE && a < g_map + (GPAGES + 1) * PAGE) || (a >= g_dmap + GPAGES * PAGE && a < g_dmap + (GPAGES + 1) * PAGE))) { g_armed = 0; siglongjmp(g_jb, 1); }
  if (g_old.sa_flags & SA_SIGINFO) { if (g_old.sa_sigaction) g_old.sa_sigaction(sig, si, uc); }
  else if (g_old.sa_handler != SIG_DFL && g_old.sa_handler != SIG_IGN) g_old.sa_handler(sig);
  signal(SIGSEGV, SIG_DFL); raise(SIGSEGV);
}
static void guardInit() {
  g_map = (unsigned char *)mmap(nullptr, (GPAGES + 1) * PAGE, PROT_READ | PROT_WRITE, MAP_PRIVATE | MAP_ANONYMOUS, -1, 0);
  if (g_map == MAP_FAILED || mprotect(g_map + GPAGES * PAGE, PAGE, PROT_NONE)) { perror("mmap"); exit(2); }
  g_dmap = (unsigned char *)mmap(nullptr, (GPAGES + 1) * PAGE, PROT_READ | PROT_WRITE, MAP_PRIVATE | MAP_ANONYMOUS, -1, 0);
  if (g_dmap == MAP_FAILED || mprotect(g_dmap + GPAGES * PAGE, PAGE, PROT_NONE)) { perror("mmap"); exit(2); }
  struct sigaction sa; memset(&sa, 0, sizeof sa); sa.sa_sigaction = onSegv; sa.sa_flags = SA_SIGINFO | SA_NODEFER;
  sigemptyset(&sa.sa_mask); sigaction(SIGSEGV, &sa, &g_old);
}
// C string whose NUL is the last accessible byte
static const char *guardStr(const Bytes &s) {
  memset(g_map, 0xA5, GPAGES * PAGE);
  unsigned char *p = g_map + GPAGES * PAGE - s.size() - 1;
  if (!s.empty()) memcpy(p, s.data(), s.size());
  p[s.size()] = 0; return (const char *)p;
}
// raw byte arrays (AddBuf): no terminator, the LAST byte is the last accessible one / exact-size block
static bool g_rawSrc = false;
static const char *guardBuf(const Bytes &s) {
  memset(g_map, 0xA5, GPAGES * PAGE);
  unsigned char *p = g_map + GPAGES * PAGE - s.size();
  if (!s.empty()) memcpy(p, s.data(), s.size());
  return (const char *)p;
}
static char *mallocBuf(const Bytes &s) { char *p = (char *)malloc(s.size()); if (!s.empty()) memcpy(p, s.data(), s.size()); return p; }
static char *mallocStr(const Bytes &s) {
  char *p = (char *)malloc(s.size() + 1); if (!s.empty()) memcpy(p, s.data(), s.size()); p[s.size()] = 0; return p;
}

// ---------------------------------------------------------------------------------------------- running adds
static inline unsigned char junkAt(int junk, int i) { return (unsigned char)((junk + 31 * i) & 255); }
struct AddRes { bool fault = false; int len = 0; unsigned char data[223]; bool objIntact = true; };
typedef std::function<void(tN2kMsg &, const char *)> AddFn;

static tN2kMsg *mkMsg(int fill, int junk) {
  tN2kMsg *m = new tN2kMsg();
  for (int i = 0; i < 223; i++) m->Data[i] = junkAt(junk, i);
  m->DataLen = fill; return m;
}
static bool intact(const tN2kMsg *m, const unsigned char *snap) {
  const unsigned char *o = (const unsigned char *)m;
  size_t d0 = offsetof(tN2kMsg, Data), l0 = offsetof(tN2kMsg, DataLen);
  for (size_t i = 0; i < sizeof(tN2kMsg); i++) {
    if ((i >= d0 && i < d0 + 223) || (i >= l0 && i < l0 + sizeof(int))) continue;
    if (o[i] != snap[i]) return false;
  }
  return true;
}
static AddRes runAdd(int fill, int junk, const Bytes &s, bool guard, const AddFn &f, tN2kMsg **keep = nullptr) {
  AddRes r; tN2kMsg *m = mkMsg(fill, junk);
  std::vector<unsigned char> snap((unsigned char *)m, (unsigned char *)m + sizeof(tN2kMsg));
  if (guard) {
    const char *p = g_rawSrc ? guardBuf(s) : guardStr(s);
    if (sigsetjmp(g_jb, 1) == 0) { g_armed = 1; f(*m, p); g_armed = 0; }
    else r.fault = true;
  } else {
    char *p = g_rawSrc ? mallocBuf(s) : mallocStr(s); f(*m, p); free(p);
  }
  r.len = m->DataLen; memcpy(r.data, m->Data, 223); r.objIntact = intact(m, snap.data());
  if (keep) *keep = m; else delete m;
  return r;
}

// ---------------------------------------------------------------------------------------------- UTF-8 reference
// independent classification of the input text (for expectations and for finding keys)
struct Utf8Info {
  bool pureAscii = true, valid = true;      // valid: well-formed (non-overlong) 1..4 byte sequences only
  bool cutByNul = false;                    // a lead byte whose nominal length reaches over the terminator
  bool invalidLead = false;                 // 0x80..0xBF in lead position, 0xFE, 0xFF
  bool badCont = false;                     // lead byte followed by a non-continuation byte
  std::vector<uint32_t> cps;                // code points when valid
};
static Utf8Info classify(const Bytes &s) {
  Utf8Info u; size_t i = 0, n = s.size();
  while (i < n) {
    unsigned c = s[i]; size_t num;
    if (c < 0x80) { u.cps.push_back(c); i++; continue; }
    u.pureAscii = false;
    if ((c & 0xE0) == 0xC0) num = 2; else if ((c & 0xF0) == 0xE0) num = 3; else if ((c & 0xF8) == 0xF0) num = 4;
    else if ((c & 0xFC) == 0xF8) num = 5; else if ((c & 0xFE) == 0xFC) num = 6; else { u.invalidLead = true; u.valid = false; i++; continue; }
    if (i + num > n) u.cutByNul = true;
    size_t k = 1; while (k < num && i + k < n && (s[i + k] & 0xC0) == 0x80) k++;
    if (k < num) { u.valid = false; if (i + k < n) u.badCont = true; i += k; continue; }
    uint32_t cp = 0;
    if (num == 2) { cp = (c & 0x1F) << 6 | (s[i + 1] & 0x3F); if (cp < 0x80) u.valid = false; }
    else if (num == 3) { cp = (c & 0x0F) << 12 | (s[i + 1] & 0x3F) << 6 | (s[i + 2] & 0x3F); if (cp < 0x800) u.valid = false; }
    else if (num == 4) { cp = (c & 0x07) << 18 | (s[i + 1] & 0x3F) << 12 | (s[i + 2] & 0x3F) << 6 | (s[i + 3] & 0x3F); if (cp < 0x10000 || cp > 0x10FFFF) u.valid = false; }
    else u.valid = false;
    u.cps.push_back(cp); i += num;
  }
  return u;
}
static void putUtf8(Bytes &o, uint32_t cp) {
  if (cp < 0x80) o.push_back(cp);
  else if (cp < 0x800) { o.push_back(0xC0 | (cp >> 6)); o.push_back(0x80 | (cp & 0x3F)); }
  else { o.push_back(0xE0 | (cp >> 12)); o.push_back(0x80 | ((cp >> 6) & 0x3F)); o.push_back(0x80 | (cp & 0x3F)); }
}
static std::string classKey(const Utf8Info &u) {
  if (u.cutByNul) return "utf8-cut-by-nul";
  if (u.invalidLead) return "utf8-invalid-lead";
  if (u.badCont) return "utf8-bad-continuation";
  return "other";
}

// text of a destination: bytes before the first NUL; ok=false if there is no NUL inside the buffer
static Bytes textOf(const Bytes &dst, bool &ok) {
  Bytes t; ok = false; for (unsigned char c : dst) { if (c == 0) { ok = true; break; } t.push_back(c); } return t;
}
static bool has(const Bytes &s, unsigned char c) { for (unsigned char x : s) if (x == c) return true; return false; }
static Bytes take(const Bytes &s, size_t n) { return Bytes(s.begin(), s.begin() + std::min(n, s.size())); }
static bool isPrefix(const Bytes &a, const Bytes &b) { return a.size() <= b.size() && std::equal(a.begin(), a.end(), b.begin()); }
// What the property states for AIS text: "upper-cased with characters outside the AIS alphabet replaced". It does not say by
// WHICH character, so a character inside the alphabet (after upper-casing) must come out exactly, one outside must come out as
// some character of the alphabet other than the padding '@' (which would cut the text).
static bool aisMatches(unsigned char in, unsigned char out) {
  if (in >= 'a' && in <= 'z') in = (unsigned char)(in - 'a' + 'A');
  if (in >= 0x20 && in <= 0x5F) return out == in;
  return out >= 0x20 && out <= 0x5F && out != '@';
}
static bool aisTextMatches(const Bytes &in, const Bytes &out) {
  if (in.size() != out.size()) return false;
  for (size_t i = 0; i < in.size(); i++) if (!aisMatches(in[i], out[i])) return false;
  return true;
}
// replacements the node uses where the property only says "replaced": learned from the node itself at start-up (learnReplacements)
static Bytes g_repU4 = {'?'};                 // UTF-8 text read back for a character beyond the BMP stored in a UCS-2 field
static Bytes g_repA[5] = {{'?'}, {'?'}, {'?'}, {'?'}, {'?'}};   // bytes stored in an ASCII-only field for a 2-/3-/4-byte character

// ---------------------------------------------------------------------------------------------- add ops
// shared part of every add: guard run, two malloc runs with different stale bytes, safety oracle.
// returns false if the op faulted (impl line already written)
static bool doAdd(const char *what, int fill, int junk, const Bytes &s, const AddFn &f, AddRes &r, tN2kMsg **keep = nullptr) {
  Utf8Info u = classify(s);
  AddRes g = runAdd(fill, junk, s, true, f);
  if (g.fault) {
    std::string cls = classKey(u);
    C.fail(std::string("C16:") + what + ":source-overread", "%s read beyond the terminator of the source string (%zu bytes, input class %s)", what, s.size(), cls.c_str());
    C.out("fault readPastNul"); C.count("fault_readPastNul"); return false;
  }
  r = runAdd(fill, junk, s, false, f, keep);
  AddRes r2 = runAdd(fill, (junk + 97) & 255, s, false, f);
  if (r.len != g.len || memcmp(r.data, g.data, 223)) C.fail(std::string("C16:") + what + ":nondeterministic", "guard-page run and malloc run differ");
  if (r.len > 223 || r.len < 0 || !r.objIntact || !r2.objIntact || !g.objIntact)
    C.fail(std::string("C16:") + what + ":payload-overrun", "DataLen=%d after the add or members behind Data changed", r.len);
  for (int i = 0; i < fill && i < 223; i++) if (r.data[i] != junkAt(junk, i)) { C.fail(std::string("C16:") + what + ":prefix-changed", "Data[%d] below the fill level changed", i); break; }
  if (r.len < fill) C.fail(std::string("C16:") + what + ":datalen-decreased", "DataLen %d -> %d", fill, r.len);
  // "length ... consistent with the bytes written": the field may not contain stale bytes
  bool stale = r.len != r2.len;
  for (int i = fill; !stale && i < r.len && i < 223; i++) if (r.data[i] != r2.data[i]) stale = true;
  if (stale) {
    std::string cls = classKey(u);
    C.fail(cls == "other" ? std::string("C16:") + what + ":stale-bytes" : "C16:" + cls,
           "%s: field bytes depend on the previous content of the payload (counted but never written)", what);
  }
  return true;
}
static void outAdd(const AddRes &r) { C.out("%d %s", r.len, hex(r.data, 223).c_str()); }

static void opAddStr(int fill, int max, int fc, int junk, const Bytes &s) {
  AddRes r; AddFn f = [&](tN2kMsg &m, const char *p) { m.AddStr(p, max, false, (unsigned char)fc); };
  if (!doAdd("addstr", fill, junk, s, f, r)) return;
  outAdd(r);
  if (r.len != fill + max) C.fail("C16:addstr:length", "DataLen %d != %d+%d", r.len, fill, max);
  size_t z = 0; while (z < s.size() && s[z]) z++;
  for (int i = 0; i < max && fill + i < 223; i++) {
    unsigned char e = (size_t)i < z ? s[i] : (unsigned char)fc;
    if (r.data[fill + i] != e) { C.fail("C16:addstr:content", "byte %d of the field is %02x, expected %02x", i, r.data[fill + i], e); break; }
  }
  C.nontrivial("addstr " + std::to_string(fill) + " " + std::to_string(max) + " " + std::to_string(std::min<size_t>(s.size(), 300)));
}
static void opAddAis(int fill, int max, int junk, const Bytes &s) {
  AddRes r; AddFn f = [&](tN2kMsg &m, const char *p) { m.AddAISStr(p, max); };
  if (!doAdd("addais", fill, junk, s, f, r)) return;
  outAdd(r);
  int k = std::min(max, 223 - fill);
  if (r.len != fill + k) C.fail("C16:addais:length", "DataLen %d != %d+min(%d,free)", r.len, fill, max);
  for (int i = 0; i < k; i++) {
    bool okc = (size_t)i < s.size() ? aisMatches(s[i], r.data[fill + i]) : r.data[fill + i] == '@';
    if (!okc) { C.fail("C16:addais:content", "byte %d of the field is %02x for input %02x", i, r.data[fill + i], (size_t)i < s.size() ? s[i] : 0); break; }
  }
  C.nontrivial("addais " + std::to_string(fill) + " " + std::to_string(max) + " " + std::to_string(s.size()));
}
// well-formedness of a variable length field written at `fill`
static void checkVarField(const AddRes &r, int fill, int max, int uni, const Bytes &s, const Utf8Info &u) {
  int free_ = 223 - fill, n = r.len - fill;
  if (n > 0 && r.data[fill] != n) C.fail("C16:addvar:length-byte", "length byte %d but %d bytes were added", r.data[fill], n);
  if (free_ >= 2 && n < 2) C.fail("C16:addvar:header-missing", "%d free bytes but only %d written", free_, n);
  if (n >= 2) {
    int type = r.data[fill + 1];
    if (type > 1) C.fail("C16:addvar:type-byte", "type byte %d", type);
    if (type == 0 && !uni) C.fail("C16:addvar:type-byte", "UCS-2 field although ASCII was forced");
    if (type == 0 && (n & 1)) C.fail("C16:addvar:type-byte", "UCS-2 field with odd length %d", n);
    if (type == 0 && u.pureAscii) C.fail("C16:addvar:type-byte", "UCS-2 field for pure ASCII text");
    if (type == 1 && uni && u.valid && !u.pureAscii && n > 2) C.fail("C16:addvar:type-byte", "ASCII field for text that needs unicode");
    if (u.pureAscii) {
      int k = std::min<int>(std::min<int>((int)s.size(), max), free_ - 2);
      if (n != 2 + std::max(k, 0) || (k > 0 && memcmp(r.data + fill + 2, s.data(), k)))
        C.fail("C16:addvar:ascii-content", "pure ASCII text not stored verbatim (n=%d k=%d)", n, k);
    }
  }
}
static void opAddVar(int fill, int max, int uni, int chars, int junk, const Bytes &s) {
  AddRes r; AddFn f = [&](tN2kMsg &m, const char *p) {
    m.AddVarStr(p, max, uni ? tN2kMsg::vss_SupportUnicode : tN2kMsg::vss_ForceASCII, chars ? tN2kMsg::vsl_UseCharacters : tN2kMsg::vsl_UseBytes, false); };
  if (!doAdd("addvar", fill, junk, s, f, r)) return;
  outAdd(r);
  Utf8Info u = classify(s);
  checkVarField(r, fill, max, uni, s, u);
  C.count(std::string("addvar_") + (u.pureAscii ? "ascii" : u.valid ? "utf8" : classKey(u)));
  C.nontrivial("addvar " + std::to_string(fill) + " " + std::to_string(max) + " " + std::to_string(uni * 2 + chars) + " " + hex(s.data(), std::min<size_t>(s.size(), 12)));
}

// ---------------------------------------------------------------------------------------------- get ops
struct GetRes { bool ret = false; long size = 0; int idx = 0; Bytes dst; bool fault = false; };
// destination of n bytes whose end is the guard page
static char *guardDst(size_t n, int dj) { char *p = (char *)(g_dmap + GPAGES * PAGE - n); if (n) memset(p, dj, n); return p; }
typedef std::function<bool(const tN2kMsg &, char *, size_t &, int &)> GetFn;   // (msg, buf, size inout, idx inout)
static GetRes runGetOn(const tN2kMsg &m, size_t n, int dj, int idx, const GetFn &f, bool guard) {
  GetRes g; size_t sz = n; g.idx = idx;
  if (guard || n == 0) {     // a zero-size destination is always the (non-null) guard address itself
    char *buf = guardDst(n, dj);
    if (sigsetjmp(g_jb, 1) == 0) { g_armed = 1; g.ret = f(m, buf, sz, g.idx); g_armed = 0; g.size = (long)sz; g.dst.assign((unsigned char *)buf, (unsigned char *)buf + n); }
    else { g.fault = true; g.dst.assign(n, 0); }
    return g;
  }
  char *buf = (char *)malloc(n); memset(buf, dj, n);
  g.ret = f(m, buf, sz, g.idx); g.size = (long)sz;
  g.dst.assign((unsigned char *)buf, (unsigned char *)buf + n); free(buf); return g;
}
static tN2kMsg *msgOf(const Bytes &data, int junk) {
  tN2kMsg *m = mkMsg((int)data.size(), junk);
  if (!data.empty()) memcpy(m->Data, data.data(), data.size());
  return m;
}
// run a get twice (different stale bytes behind DataLen), safety oracle; result of the first run
static GetRes doGet(const char *what, const Bytes &data, int junk, size_t n, int dj, int idx, const GetFn &f, bool text = true) {
  tN2kMsg *m1 = msgOf(data, junk), *m2 = msgOf(data, (junk + 97) & 255);
  std::vector<unsigned char> snap((unsigned char *)m1, (unsigned char *)m1 + sizeof(tN2kMsg));
  GetRes gd = runGetOn(*m1, n, dj, idx, f, true);   // destination in front of the guard page: a write at index >= n is caught
  if (gd.fault) {
    C.fail(std::string("C16:") + what + (n == 0 ? ":dest-overrun:size0" : ":dest-overrun"), "wrote behind a destination of %zu bytes (Index %d, DataLen %zu)", n, idx, data.size());
    C.count("fault_destWrite"); delete m1; delete m2; return gd;
  }
  GetRes a = runGetOn(*m1, n, dj, idx, f, false), b = runGetOn(*m2, n, dj, idx, f, false);   // exact-size heap block (ASan)
  if (a.ret != gd.ret || a.size != gd.size || a.idx != gd.idx || a.dst != gd.dst) C.fail(std::string("C16:") + what + ":nondeterministic", "guard-page run and malloc run differ");
  if (memcmp(m1, snap.data(), sizeof(tN2kMsg))) C.fail(std::string("C16:") + what + ":message-modified", "const get changed the message");
  if (a.ret != b.ret || a.size != b.size || a.idx != b.idx || a.dst != b.dst)
    C.fail(std::string("C16:") + what + ":stale-read", "result depends on payload bytes at index >= DataLen=%zu", data.size());
  bool ok; textOf(a.dst, ok);
  if (text && n > 0 && !ok) C.fail(std::string("C16:") + what + ":unterminated", "destination of %zu bytes holds no NUL", n);
  delete m1; delete m2; return a;
}
static void outGet(const GetRes &g, bool withSize) {
  if (g.fault) { C.out("fault destWrite"); return; }
  if (withSize) C.out("%d %ld %d %s", g.ret ? 1 : 0, g.size, g.idx, hex(g.dst.data(), g.dst.size()).c_str());
  else C.out("%d %d %s", g.ret ? 1 : 0, g.idx, hex(g.dst.data(), g.dst.size()).c_str());
}
static GetFn fnGetStr1(size_t length) { return [=](const tN2kMsg &m, char *b, size_t &, int &i) { return m.GetStr(b, length, i); }; }
static GetFn fnGetStr2(size_t length, int nul) { return [=](const tN2kMsg &m, char *b, size_t &sz, int &i) { return m.GetStr(sz, b, length, (unsigned char)nul, i); }; }
static GetFn fnGetVar(int nul) { return [=](const tN2kMsg &m, char *b, size_t &sz, int &i) { return m.GetVarStr(sz, b, (unsigned char)nul, i); }; }

// ---------------------------------------------------------------------------------------------- round trips
static void checkText(const char *key, const GetRes &g, size_t n, const Bytes &expFull) {
  if (n == 0) return;
  bool ok; Bytes t = textOf(g.dst, ok); if (!ok) return;   // reported by doGet
  Bytes e = take(expFull, n - 1);
  if (t != e) C.fail(key, "text read back is %s, expected %s", hex(t.data(), t.size()).c_str(), hex(e.data(), e.size()).c_str());
}
static void opRtStr(int fill, int max, size_t n, int dj, int junk, const Bytes &s) {
  AddRes r; tN2kMsg *m = nullptr; AddFn f = [&](tN2kMsg &mm, const char *p) { mm.AddStr(p, max); };
  if (!doAdd("addstr", fill, junk, s, f, r, &m)) return;
  Bytes pl(r.data, r.data + std::min(std::max(r.len, 0), 223)); delete m;
  GetRes g = doGet("getstr", pl, junk, n, dj, fill, fnGetStr2(max, 0xff)); outGet(g, false); if (g.fault) return;
  if (!has(s, 0xff)) { checkText("C16:rtstr:text", g, n, take(s, max)); C.count("rt_checked"); }
  C.nontrivial("rtstr " + std::to_string(max) + " " + std::to_string(n) + " " + std::to_string(s.size()));
}
static void opRtAis(int fill, int max, size_t n, int dj, int junk, const Bytes &s) {
  AddRes r; tN2kMsg *m = nullptr; AddFn f = [&](tN2kMsg &mm, const char *p) { mm.AddAISStr(p, max); };
  if (!doAdd("addais", fill, junk, s, f, r, &m)) return;
  Bytes pl(r.data, r.data + std::min(std::max(r.len, 0), 223)); delete m;
  int flen = std::max(r.len - fill, 0);
  GetRes g = doGet("getstr", pl, junk, n, dj, fill, fnGetStr2(flen, '@')); outGet(g, false); if (g.fault) return;
  if (!has(s, '@')) {
    bool ok; Bytes t = textOf(g.dst, ok);
    Bytes in = take(take(s, std::min(max, 223 - fill)), n ? n - 1 : 0);
    if (ok && n > 0 && !aisTextMatches(in, t))
      C.fail("C16:rtais:text", "text read back is %s for input %s", hex(t.data(), t.size()).c_str(), hex(in.data(), in.size()).c_str());
    C.count("rt_checked");
  }
  C.nontrivial("rtais " + std::to_string(max) + " " + std::to_string(n) + " " + std::to_string(s.size()));
}
static void opRtVar(int fill, int max, int uni, int chars, size_t n, int dj, int junk, const Bytes &s) {
  AddRes r; tN2kMsg *m = nullptr; AddFn f = [&](tN2kMsg &mm, const char *p) {
    mm.AddVarStr(p, max, uni ? tN2kMsg::vss_SupportUnicode : tN2kMsg::vss_ForceASCII, chars ? tN2kMsg::vsl_UseCharacters : tN2kMsg::vsl_UseBytes, false); };
  if (!doAdd("addvar", fill, junk, s, f, r, &m)) return;
  Bytes pl(r.data, r.data + std::min(std::max(r.len, 0), 223)); delete m;
  Utf8Info u = classify(s);
  checkVarField(r, fill, max, uni, s, u);
  GetRes g = doGet("getvar", pl, junk, n, dj, fill, fnGetVar(0xff)); outGet(g, true); if (g.fault) return;
  if (u.valid && n > 0) {   // expectation for well-formed text
    int room = std::max(223 - fill - 2, 0);
    Bytes e; bool exact = true;
    if (u.pureAscii) e = take(s, std::min(max, room));
    else if (!uni) {      // ASCII-only field: ASCII characters as they are, every other character as the node's replacement
      size_t lim = std::min(max, room);
      for (uint32_t cp : u.cps) {
        Bytes one; if (cp < 0x80) one.push_back((unsigned char)cp); else one = g_repA[cp < 0x800 ? 2 : cp < 0x10000 ? 3 : 4];
        if (e.size() + one.size() > lim) break;
        e.insert(e.end(), one.begin(), one.end());
      }
    }
    else {                // UCS-2 field: whole characters at 2 bytes per unit; beyond the BMP -> the node's replacement
      size_t B = std::min(room, chars ? 2 * max : max), units = 0;
      size_t repUnits = classify(g_repU4).cps.size();
      for (uint32_t cp : u.cps) {       // a character that does not fit the field or the destination ends the text
        Bytes one; size_t un = 1;
        if (cp > 0xFFFF) { one = g_repU4; un = repUnits; } else putUtf8(one, cp);
        if (2 * (units + un) > B) break;
        if (e.size() + one.size() > n - 1) break;
        units += un; e.insert(e.end(), one.begin(), one.end());
      }
      exact = false;
    }
    bool ok; Bytes t = textOf(g.dst, ok);
    if (ok) {
      if (exact) checkText("C16:rtvar:text", g, n, e);
      else if (t != e) C.fail(isPrefix(t, e) ? "C16:ucs2-field-one-char-short" : "C16:rtvar:text", "text read back is %s, expected %s",
                              hex(t.data(), t.size()).c_str(), hex(e.data(), e.size()).c_str());
    }
    C.count("rt_checked");
  }
  C.nontrivial("rtvar " + std::to_string(fill) + " " + std::to_string(max) + " " + std::to_string(uni * 2 + chars) + " " + std::to_string(n) + " " + hex(s.data(), std::min<size_t>(s.size(), 12)));
}

// ---------------------------------------------------------------------------------------------- AddVarStr(str), AddBuf, GetBuf
static void opAddVar2(int fill, int junk, const Bytes &s) {
  AddRes r; AddFn f = [&](tN2kMsg &m, const char *p) { m.AddVarStr(p); };
  if (!doAdd("addvar2", fill, junk, s, f, r)) return;
  outAdd(r);
  Utf8Info u = classify(s);
  checkVarField(r, fill, 5000, 1, s, u);
  C.nontrivial("addvar2 " + std::to_string(fill) + " " + std::to_string(s.size()) + " " + hex(s.data(), std::min<size_t>(s.size(), 10)));
}
static void opRtVar2(int fill, size_t n, int dj, int junk, const Bytes &s) {
  AddRes r; tN2kMsg *m = nullptr; AddFn f = [&](tN2kMsg &mm, const char *p) { mm.AddVarStr(p); };
  if (!doAdd("addvar2", fill, junk, s, f, r, &m)) return;
  Bytes pl(r.data, r.data + std::min(std::max(r.len, 0), 223)); delete m;
  Utf8Info u = classify(s);
  checkVarField(r, fill, 5000, 1, s, u);
  GetFn g3 = [](const tN2kMsg &mm, char *b, size_t &sz, int &i) { return mm.GetVarStr(sz, b, i); };
  GetRes g = doGet("getvar", pl, junk, n, dj, fill, g3); outGet(g, true); if (g.fault) return;
  // "GetVarStr(AddVarStr s) = s when it fit": well-formed text without 4-byte characters, field and destination large enough
  if (u.valid && n > 0) {
    bool bmp = true; for (uint32_t cp : u.cps) if (cp > 0xFFFF) bmp = false;
    size_t need = u.pureAscii ? s.size() : 2 * u.cps.size();
    if (bmp && (int)need + 2 <= 223 - fill && s.size() + 1 <= n) {
      bool ok; Bytes t = textOf(g.dst, ok);
      if (ok && t != s) C.fail("C16:rtvar2:text", "text that fits read back as %s, expected %s", hex(t.data(), t.size()).c_str(), hex(s.data(), s.size()).c_str());
      if (!g.ret && !s.empty()) C.fail("C16:rtvar2:ret", "GetVarStr refused the field AddVarStr wrote");
      if (g.idx != r.len) C.fail("C16:rtvar2:index", "Index %d after the field, DataLen %d", g.idx, r.len);
      C.count("rt_checked");
    }
  }
  C.nontrivial("rtvar2 " + std::to_string(fill) + " " + std::to_string(n) + " " + std::to_string(s.size()) + " " + hex(s.data(), std::min<size_t>(s.size(), 10)));
}
static void opAddBuf(int fill, int junk, const Bytes &b) {
  AddRes r; AddFn f = [&](tN2kMsg &m, const char *p) { m.AddBuf(p, b.size()); };
  g_rawSrc = true; bool ok = doAdd("addbuf", fill, junk, b, f, r); g_rawSrc = false;
  if (!ok) return;
  outAdd(r);
  int k = std::min<int>((int)b.size(), 223 - fill);
  if (r.len != fill + k) C.fail("C16:addbuf:length", "DataLen %d, expected %d+min(%zu,free)", r.len, fill, b.size());
  if (k > 0 && memcmp(r.data + fill, b.data(), k)) C.fail("C16:addbuf:content", "bytes added differ from the source");
  for (int i = fill + k; i < 223; i++) if (r.data[i] != junkAt(junk, i)) { C.fail("C16:addbuf:beyond", "Data[%d] behind the bytes added changed", i); break; }
  C.nontrivial("addbuf " + std::to_string(fill) + " " + std::to_string(b.size()));
}
static void opGetBuf(size_t length, size_t extra, int idx, int dj, int junk, const Bytes &d) {
  size_t n = length + extra;
  GetFn f = [=](const tN2kMsg &m, char *b, size_t &, int &i) { return m.GetBuf(b, length, i); };
  GetRes g = doGet("getbuf", d, junk, n, dj, idx, f, false); outGet(g, false); if (g.fault) return;
  bool fit = (size_t)idx + length <= d.size();
  if (g.ret != fit) C.fail("C16:getbuf:ret", "returned %d for Index %d Length %zu DataLen %zu", g.ret, idx, length, d.size());
  if (fit) {
    if (length && memcmp(g.dst.data(), d.data() + idx, length)) C.fail("C16:getbuf:content", "bytes extracted differ from the payload");
    if (g.idx != idx + (int)length) C.fail("C16:getbuf:index-not-advanced", "Index %d after extracting %zu bytes from %d", g.idx, length, idx);
  } else {
    if (g.idx != (int)d.size()) C.fail("C16:getbuf:index", "Index %d after a refused GetBuf, DataLen %zu", g.idx, d.size());
    for (size_t i = 0; i < length; i++) if (g.dst[i] != (unsigned char)dj) { C.fail("C16:getbuf:refused-write", "refused GetBuf wrote to the buffer"); break; }
  }
  for (size_t i = length; i < n; i++) if (g.dst[i] != (unsigned char)dj) { C.fail("C16:getbuf:overrun", "byte %zu behind the %zu requested changed", i, length); break; }
  C.nontrivial("getbuf " + std::to_string(length) + " " + std::to_string(idx) + " " + std::to_string(d.size()));
}
static void opGetBuf0(size_t length, int idx, int junk, const Bytes &d) {
  tN2kMsg *m = msgOf(d, junk); int i = idx; bool r = m->GetBuf(nullptr, length, i); delete m;
  C.out("%d %d", r ? 1 : 0, i);
  bool fit = (size_t)idx + length <= d.size();
  if (r != fit || i != (fit ? idx + (int)length : (int)d.size())) C.fail("C16:getbuf0:result", "ret %d Index %d", r, i);
  C.nontrivial("getbuf0 " + std::to_string(length) + " " + std::to_string(idx) + " " + std::to_string(d.size()));
}
static void opRtBuf(int fill, int dj, int junk, const Bytes &a, const Bytes &b) {
  tN2kMsg *m = mkMsg(fill, junk);
  { char *p = mallocBuf(a); m->AddBuf(p, a.size()); free(p); }
  { char *p = mallocBuf(b); m->AddBuf(p, b.size()); free(p); }
  int len = m->DataLen, idx = fill;
  char *x = a.size() ? (char *)malloc(a.size()) : guardDst(0, dj), *y = b.size() ? (char *)malloc(b.size()) : guardDst(0, dj);
  if (a.size()) memset(x, dj, a.size()); if (b.size()) memset(y, dj, b.size());
  bool r1 = m->GetBuf(x, a.size(), idx); bool r2 = m->GetBuf(y, b.size(), idx);
  C.out("%d %d %d %d %s %s", len, r1, r2, idx, hex((unsigned char *)x, a.size()).c_str(), hex((unsigned char *)y, b.size()).c_str());
  if (fill + (int)a.size() + (int)b.size() <= 223) {   // both arrays fit: they must come back, in order
    if (!r1 || !r2 || (a.size() && memcmp(x, a.data(), a.size())) || (b.size() && memcmp(y, b.data(), b.size())))
      C.fail(idx == fill && !a.empty() ? "C16:getbuf:index-not-advanced" : "C16:rtbuf:content", "two byte arrays added and read back in sequence differ (Index %d)", idx);
    C.count("rt_checked");
  }
  if (a.size()) free(x); if (b.size()) free(y); delete m;
  C.nontrivial("rtbuf " + std::to_string(fill) + " " + std::to_string(a.size()) + " " + std::to_string(b.size()));
}

// ---------------------------------------------------------------------------------------------- exec
static long num(const std::string &s) { return strtol(s.c_str(), nullptr, 10); }
static void exec(const std::string &line) {
  C.op("%s", line.c_str()); C.cases++;
  std::vector<std::string> w = split(line);
  const std::string &k = w[0]; C.count("op_" + k);
  if (k == "addstr" && w.size() == 6) opAddStr(num(w[1]), num(w[2]), num(w[3]), num(w[4]), unhex(w[5]));
  else if (k == "addais" && w.size() == 5) opAddAis(num(w[1]), num(w[2]), num(w[3]), unhex(w[4]));
  else if (k == "addvar" && w.size() == 7) opAddVar(num(w[1]), num(w[2]), num(w[3]), num(w[4]), num(w[5]), unhex(w[6]));
  else if (k == "getstr1" && w.size() == 6) {
    size_t length = num(w[1]); Bytes d = unhex(w[5]);
    GetRes g = doGet("getstr1", d, num(w[4]), length + 1, num(w[3]), num(w[2]), fnGetStr1(length)); outGet(g, false); if (g.fault) return;
    C.nontrivial(line.substr(0, 60));
  } else if (k == "getstr" && w.size() == 8) {
    Bytes d = unhex(w[7]);
    GetRes g = doGet("getstr", d, num(w[6]), num(w[1]), num(w[5]), num(w[4]), fnGetStr2(num(w[2]), num(w[3]))); outGet(g, false); if (g.fault) return;
    C.nontrivial(line.substr(0, 60));
  } else if (k == "getvar" && w.size() == 7) {
    Bytes d = unhex(w[6]);
    GetRes g = doGet("getvar", d, num(w[5]), num(w[1]), num(w[4]), num(w[3]), fnGetVar(num(w[2]))); outGet(g, true); if (g.fault) return;
    C.nontrivial(line.substr(0, 60));
  } else if (k == "rtstr" && w.size() == 7) opRtStr(num(w[1]), num(w[2]), num(w[3]), num(w[4]), num(w[5]), unhex(w[6]));
  else if (k == "rtais" && w.size() == 7) opRtAis(num(w[1]), num(w[2]), num(w[3]), num(w[4]), num(w[5]), unhex(w[6]));
  else if (k == "rtvar" && w.size() == 9) opRtVar(num(w[1]), num(w[2]), num(w[3]), num(w[4]), num(w[5]), num(w[6]), num(w[7]), unhex(w[8]));
  else if (k == "addvar2" && w.size() == 4) opAddVar2(num(w[1]), num(w[2]), unhex(w[3]));
  else if (k == "rtvar2" && w.size() == 6) opRtVar2(num(w[1]), num(w[2]), num(w[3]), num(w[4]), unhex(w[5]));
  else if (k == "addbuf" && w.size() == 4) opAddBuf(num(w[1]), num(w[2]), unhex(w[3]));
  else if (k == "getbuf" && w.size() == 7) opGetBuf(num(w[1]), num(w[2]), num(w[3]), num(w[4]), num(w[5]), unhex(w[6]));
  else if (k == "getbuf0" && w.size() == 5) opGetBuf0(num(w[1]), num(w[2]), num(w[3]), unhex(w[4]));
  else if (k == "rtbuf" && w.size() == 6) opRtBuf(num(w[1]), num(w[2]), num(w[3]), unhex(w[4]), unhex(w[5]));
  else C.out("bad-op");
}

// ---------------------------------------------------------------------------------------------- generators
static void gAscii(Rng &R, Bytes &s) { s.push_back(R.chance(1, 8) ? (unsigned char)R.range(1, 31) : (unsigned char)R.range(32, 127)); }
static void gCp(Rng &R, Bytes &s, int bytes) {
  uint32_t cp = bytes == 2 ? (uint32_t)R.range(0x80, 0x7FF) : bytes == 3 ? (uint32_t)R.range(0x800, 0xFFFF) : (uint32_t)R.range(0x10000, 0x10FFFF);
  if (bytes == 3 && cp >= 0xD800 && cp <= 0xDFFF) cp = 0x20AC;
  if (R.chance(1, 6)) cp = bytes == 2 ? (R.chance(1, 2) ? 0x80 : 0x7FF) : bytes == 3 ? (R.chance(1, 2) ? 0x800 : 0xFFFF) : (R.chance(1, 2) ? 0x10000 : 0x10FFFF);
  if (bytes == 4) { s.push_back(0xF0 | (cp >> 18)); s.push_back(0x80 | ((cp >> 12) & 0x3F)); s.push_back(0x80 | ((cp >> 6) & 0x3F)); s.push_back(0x80 | (cp & 0x3F)); }
  else putUtf8(s, cp);
}
static void gInvalid(Rng &R, Bytes &s) {
  switch (R.below(7)) {
    case 0: s.push_back((unsigned char)R.range(0x80, 0xBF)); break;                    // stray continuation
    case 1: s.push_back(R.chance(1, 2) ? 0xFE : 0xFF); break;
    case 2: s.push_back((unsigned char)R.range(0xF8, 0xFD)); for (int i = (int)R.below(6); i > 0; i--) s.push_back((unsigned char)R.range(0x80, 0xBF)); break;
    case 3: s.push_back((unsigned char)R.range(0xC0, 0xF7)); s.push_back((unsigned char)R.range(0x20, 0x7F)); break;  // lead + ASCII
    case 4: s.push_back((unsigned char)R.range(0xE0, 0xEF)); s.push_back((unsigned char)R.range(0x80, 0xBF)); break;  // 3-byte lead, one continuation
    case 5: s.push_back(0xC0); s.push_back((unsigned char)R.range(0x80, 0xBF)); break;   // overlong
    default: s.push_back((unsigned char)R.range(0x80, 0xFF)); break;
  }
}
static int pickLen(Rng &R) {
  switch (R.below(10)) {
    case 0: return (int)R.range(0, 3);
    case 1: case 2: case 3: return (int)R.range(0, 24);
    case 4: case 5: return (int)R.range(0, 120);
    case 6: return (int)R.range(100, 230);
    case 7: return (int)R.pick(std::vector<int>{110, 111, 219, 220, 221, 222, 223, 224, 254, 255, 256, 299, 300});
    default: return (int)R.range(0, 300);
  }
}
// kind: 0 ASCII, 1 valid UTF-8 mix, 2 mostly valid + invalid bytes, 3 valid prefix + sequence cut by the terminator,
//       4 random bytes, 5 AIS-like text
static Bytes genStr(Rng &R, int kind, int target) {
  Bytes s;
  auto mix = [&](bool inv) {
    while ((int)s.size() < target) {
      unsigned r = (unsigned)R.below(100);
      if (inv && r < 12) gInvalid(R, s); else if (r < 50) gAscii(R, s); else if (r < 70) gCp(R, s, 2); else if (r < 90) gCp(R, s, 3); else gCp(R, s, 4);
    }
  };
  switch (kind) {
    case 0: while ((int)s.size() < target) gAscii(R, s); break;
    case 1: mix(false); break;
    case 2: mix(true); break;
    case 3: {
      mix(false);
      if (R.chance(3, 4)) { Bytes h; gCp(R, h, (int)R.range(2, 3)); s.insert(s.begin(), h.begin(), h.end()); }  // make N2kRequireUnicode say yes
      if (R.chance(1, 5)) gInvalid(R, s);
      int num = (int)R.range(2, 6);
      static const unsigned char lead[] = {0, 0, 0xC3, 0xE2, 0xF0, 0xF8, 0xFC};
      s.push_back(lead[num]); for (int i = (int)R.below(num - 1); i > 0; i--) s.push_back((unsigned char)R.range(0x80, 0xBF));
      break;
    }
    case 4: while ((int)s.size() < target) s.push_back((unsigned char)R.range(1, 255)); break;
    default:
      while ((int)s.size() < target) {
        unsigned r = (unsigned)R.below(100);
        s.push_back(r < 45 ? (unsigned char)R.range('A', 'Z') : r < 70 ? (unsigned char)R.range('a', 'z') : r < 85 ? (unsigned char)R.range('0', '9') : r < 92 ? ' '
                    : r < 94 ? '@' : (unsigned char)R.range(1, 255));
      }
  }
  if (s.size() > 300) s.resize(300);
  for (auto &c : s) if (c == 0) c = 1;
  return s;
}
static int pickKind(Rng &R) { static const int k[] = {0, 0, 1, 1, 1, 2, 2, 3, 3, 4, 5}; return k[R.below(11)]; }
static int pickMax(Rng &R) { return R.chance(1, 4) ? (int)R.range(0, 8) : R.chance(1, 6) ? (int)R.pick(std::vector<int>{0, 1, 2, 110, 111, 221, 222, 223, 254, 255}) : (int)R.range(0, 255); }
static int pickFill(Rng &R) { return R.chance(1, 4) ? (int)R.range(210, 223) : (int)R.range(0, 223); }
static int pickBuf(Rng &R) { return R.chance(1, 4) ? (int)R.range(0, 6) : (int)R.range(0, 80); }
static std::string hx(const Bytes &b) { return hex(b.data(), b.size()); }
static std::string fmt(const char *f, ...) { char b[4096]; va_list ap; va_start(ap, f); vsnprintf(b, sizeof b, f, ap); va_end(ap); return b; }

static void genAdd(Rng &R, int fill, const Bytes &s) {
  int junk = (int)R.below(256), max = pickMax(R);
  switch (R.below(6)) {
    case 0: { int room = 223 - fill; int mx = R.chance(1, 5) ? room : (int)R.range(0, room); exec(fmt("addstr %d %d %d %d %s", fill, mx, (int)(R.chance(1, 2) ? 0xff : R.below(256)), junk, hx(s).c_str())); break; }
    case 1: exec(fmt("addais %d %d %d %s", fill, max, junk, hx(s).c_str())); break;
    case 2: exec(fmt("addvar %d %d %d %d %d %s", fill, max, (int)R.below(2), (int)R.below(2), junk, hx(s).c_str())); break;
    case 3: { int room = 223 - fill; exec(fmt("rtstr %d %d %d %d %d %s", fill, (int)R.range(0, room), pickBuf(R), (int)R.below(256), junk, hx(s).c_str())); break; }
    case 4: exec(fmt("rtais %d %d %d %d %d %s", fill, max, pickBuf(R), (int)R.below(256), junk, hx(s).c_str())); break;
    default: exec(fmt("rtvar %d %d %d %d %d %d %d %s", fill, R.chance(1, 3) ? 255 : max, R.chance(3, 4) ? 1 : 0, (int)R.below(2), pickBuf(R), (int)R.below(256), junk, hx(s).c_str())); break;
  }
}
// arbitrary payloads on the read side
static void genGet(Rng &R) {
  int dl = R.chance(1, 5) ? (int)R.range(0, 6) : R.chance(1, 5) ? (int)R.range(215, 223) : (int)R.range(0, 223);
  Bytes d(dl); for (auto &c : d) c = R.chance(1, 3) ? (unsigned char)R.pick(std::vector<int>{0, 0x40, 0xff, 0x41, 0x7f, 0x80, 0xd8, 0x07}) : (unsigned char)R.below(256);
  int idx = R.chance(1, 6) ? (int)R.range(dl > 3 ? dl - 3 : 0, dl + 3) : (int)R.range(0, dl > 0 ? dl : 0);
  int n = pickBuf(R), dj = (int)R.below(256), junk = (int)R.below(256);
  int nul = (int)R.pick(std::vector<int>{0xff, 0xff, 0x40, 0x00, 0x41, (int)R.below(256)});
  switch (R.below(4)) {
    case 0: exec(fmt("getstr1 %d %d %d %d %s", (int)(R.chance(1, 3) ? R.range(0, 4) : R.range(0, 80)), idx, dj, junk, hx(d).c_str())); break;
    case 1: exec(fmt("getstr %d %d %d %d %d %d %s", n, (int)(R.chance(1, 3) ? R.range(0, 4) : R.chance(1, 2) ? R.range(0, 80) : R.range(0, 255)), nul, idx, dj, junk, hx(d).c_str())); break;
    default: {
      // shape a variable length header at idx most of the time
      if (dl - idx >= 2 && R.chance(4, 5)) {
        int body = dl - idx - 2;
        d[idx] = R.chance(1, 2) ? (unsigned char)(2 + R.range(0, body)) : R.chance(1, 2) ? (unsigned char)R.below(256) : (unsigned char)R.pick(std::vector<int>{0, 1, 2, 3, 4, 254, 255});
        d[idx + 1] = R.chance(4, 5) ? (unsigned char)R.below(2) : (unsigned char)R.below(256);
      }
      exec(fmt("getvar %d %d %d %d %d %s", n, nul, idx, dj, junk, hx(d).c_str()));
    }
  }
}

// The property says characters the field cannot hold are "replaced" but not by what: ask the node.
static Bytes probeVar(const Bytes &text, bool uni) {
  tN2kMsg m; char *p = mallocStr(text);
  m.AddVarStr(p, 255, uni ? tN2kMsg::vss_SupportUnicode : tN2kMsg::vss_ForceASCII, tN2kMsg::vsl_UseBytes, false); free(p);
  char buf[64]; memset(buf, 0, sizeof buf); size_t sz = sizeof buf; int idx = 0; m.GetVarStr(sz, buf, idx);
  return Bytes((unsigned char *)buf, (unsigned char *)buf + strlen(buf));
}
static void learnReplacements() {
  static const Bytes mb[5] = {{}, {}, {0xC3, 0xA9}, {0xE2, 0x82, 0xAC}, {0xF0, 0x9F, 0x98, 0x80}};
  auto middle = [](const Bytes &t, const Bytes &pre, unsigned char last, Bytes &out) {
    if (t.size() < pre.size() + 2 || !std::equal(pre.begin(), pre.end(), t.begin()) || t.back() != last) return false;
    out.assign(t.begin() + pre.size(), t.end() - 1); return true; };
  Bytes in = mb[2]; in.insert(in.end(), mb[4].begin(), mb[4].end()); in.push_back('A');
  Bytes r; Utf8Info ri;
  if (middle(probeVar(in, true), mb[2], 'A', r) && (ri = classify(r)).valid) {
    bool bmp = true; for (uint32_t cp : ri.cps) if (cp > 0xFFFF) bmp = false;
    if (bmp) g_repU4 = r;
  }
  for (int k = 2; k <= 4; k++) {
    Bytes a = {'A'}; a.insert(a.end(), mb[k].begin(), mb[k].end()); a.push_back('B');
    if (middle(probeVar(a, false), Bytes{'A'}, 'B', r) && !has(r, 0xff)) g_repA[k] = r;
  }
  C.sample("replacements learned from the node: beyond-BMP in UCS-2 field -> " + hex(g_repU4.data(), g_repU4.size()) + "; 2/3/4-byte char in ASCII-only field -> " +
           hex(g_repA[2].data(), g_repA[2].size()) + "/" + hex(g_repA[3].data(), g_repA[3].size()) + "/" + hex(g_repA[4].data(), g_repA[4].size()));
}

int main(int argc, char **argv) {
  C.init(argc, argv);
  guardInit();
  learnReplacements();
  C.rule = "case = one op (an add, a get on an arbitrary payload, or an add followed by the matching get); non-trivial = the op ran to "
           "completion; distinct = hash of (kind, fill, maximum, policy, destination size, string prefix)";
  if (!C.replay.empty()) { for (auto &l : readLines(C.replay)) exec(l); C.finish(); return 0; }
  Rng R(C.seed);
  // 0. fixed corner cases (each once observed to fail on some tree)
  for (const char *l : {"addvar 0 255 1 0 0 c3a9e2", "addvar 0 255 0 0 0 c3a9e2", "addvar 0 255 1 0 7 c3a9f04142c3a9", "addvar 0 255 1 0 7 c3a980",
                        "addvar 0 255 1 0 0 e282ac80", "rtvar 0 2 1 1 20 205 0 c3a9c3a9c3a9", "rtvar 219 255 1 0 20 205 0 c3a9c3a9c3a9",
                        "rtvar 0 255 1 0 3 205 0 e282ac", "rtvar 0 255 1 0 4 205 0 e282ac", "getvar 1 255 0 205 0 0401c3a9", "getvar 0 255 0 205 0 0400c300", "getvar 0 255 0 205 0 0501414243", "getvar 0 255 0 205 0 0700c300e90041",
                        "getstr 1 3 255 0 205 0 414243", "rtbuf 0 205 0 0102 0304", "getbuf 2 1 1 205 0 0a0b0c0d", "getbuf 2 0 3 205 0 0a0b0c0d", "getbuf0 2 1 0 0a0b0c0d", "addbuf 221 0 0102030405", "rtvar2 0 8 205 0 c3a941", "addvar2 222 0 4142", "getstr1 0 0 205 0 -", "addais 223 5 0 4142", "addstr 223 0 255 0 4142"})
    exec(l);
  // 0b. never read behind the terminator, every add function: strings ending in a truncated 2-/3-/4-/5-/6-byte lead, a lead followed
  //     by a non-continuation byte, the lead at every position near the end, after prefixes with and without a complete multi-byte
  //     character (directed early: the generic memcheck replay runs a prefix of the op stream)
  {
    const std::vector<Bytes> pre = {{}, {'a'}, {'a', 'b'}, {0xC3, 0xA9}, {0xC3, 0xA9, 'a', 'b'}, {0xE2, 0x82, 0xAC}};
    const std::vector<Bytes> cut = {{0xC3}, {0xE2}, {0xE2, 0x82}, {0xF0}, {0xF0, 0x9F}, {0xF0, 0x9F, 0x98}, {0xF8}, {0xF8, 0x88, 0x80}, {0xFC}, {0xFC, 0x84, 0x80, 0x80, 0x80},
                                    {0xC3, 'x'}, {0xE2, 'x'}, {0xE2, 0x82, 'x'}, {0xF0, 0x9F, 'x'}, {0xF0, 'x', 'y'}};
    const std::vector<Bytes> post = {{}, {'z'}, {'z', 'y'}};
    for (auto &a : pre) for (auto &c : cut) for (auto &z : post) {
      Bytes t = a; t.insert(t.end(), c.begin(), c.end()); t.insert(t.end(), z.begin(), z.end());
      int junk = (int)R.below(256), fill = R.chance(1, 3) ? (int)R.range(200, 223) : 0;
      std::string h = hx(t);
      exec(fmt("addvar %d 255 1 0 %d %s", fill, junk, h.c_str()));
      exec(fmt("addvar %d 255 0 %d %d %s", fill, (int)R.below(2), junk, h.c_str()));
      exec(fmt("addvar2 %d %d %s", fill, junk, h.c_str()));
      exec(fmt("addais %d %d %d %s", fill, (int)R.range(0, 12), junk, h.c_str()));
      exec(fmt("addstr %d %d 255 %d %s", fill, (int)R.range(0, std::min(12, 223 - fill)), junk, h.c_str()));
      if (z.empty()) exec(fmt("rtvar %d %d 1 1 %d 205 %d %s", fill, (int)R.range(0, 9), (int)R.range(0, 12), junk, h.c_str()));
    }
    C.sample("directed: every add function on strings ending in a truncated 2..6-byte lead / lead + non-continuation byte, lead at the last 1..3 positions, source in front of a PROT_NONE page");
  }
  // 1. small scope, exhaustive: short strings over a small alphabet x small maxima x both policies x both units at tight fill levels
  {
    const std::vector<Bytes> atoms = {{0x41}, {0xC3, 0xA9}, {0xE2, 0x82, 0xAC}, {0xF0, 0x9F, 0x98, 0x80}, {0x80}, {0xE2}, {0xC3}, {0xFF}, {0xF0, 0x9F}};
    size_t A = atoms.size(); int L = C.thorough ? 3 : 2;
    std::vector<int> ix(L, 0);
    for (int len = 0; len <= L; len++) {
      std::fill(ix.begin(), ix.end(), 0);
      while (true) {
        Bytes s; for (int i = 0; i < len; i++) s.insert(s.end(), atoms[ix[i]].begin(), atoms[ix[i]].end());
        for (int fill : {0, 214, 217, 218, 219, 220, 221, 222, 223})
          for (int mode = 0; mode < 4; mode++) {
            if (fill != 0 && !C.thorough && mode != 2 && (fill & 1)) continue;
            exec(fmt("rtvar %d %d %d %d %d 205 %d %s", fill, (int)(fill == 0 ? R.range(0, 9) : 255), mode >> 1, mode & 1, (int)R.range(0, 12), (int)R.below(256), hx(s).c_str()));
          }
        int k = len - 1; while (k >= 0 && ++ix[k] == (int)A) { ix[k] = 0; k--; }
        if (k < 0) break;
      }
    }
    C.sample("exhaustive: all strings of up to " + std::to_string(L) + " atoms from {A, 2-,3-,4-byte char, stray continuation, cut 2-/3-/4-byte lead, 0xFF} x 9 fill levels x 4 modes (rtvar)");
  }
  // 2. every fill level 0..223 with every add kind and a string of every kind (exhaustive over fill)
  for (int fill = 0; fill <= 223; fill++) {
    for (int kind = 0; kind <= 5; kind++) {
      Bytes s = genStr(R, kind, R.chance(1, 3) ? (int)R.range(0, 6) : pickLen(R));
      int junk = (int)R.below(256);
      exec(fmt("addais %d %d %d %s", fill, pickMax(R), junk, hx(s).c_str()));
      exec(fmt("addvar %d %d %d %d %d %s", fill, R.chance(1, 2) ? 255 : pickMax(R), (int)R.below(2), (int)R.below(2), junk, hx(s).c_str()));
      exec(fmt("addstr %d %d 255 %d %s", fill, (int)R.range(0, 223 - fill), junk, hx(s).c_str()));
      if (C.thorough || kind == (fill % 6)) exec(fmt("rtvar %d %d 1 %d %d %d %d %s", fill, 255, (int)R.below(2), pickBuf(R), (int)R.below(256), junk, hx(s).c_str()));
    }
  }
  C.sample("exhaustive over the fill level 0..223: addais/addvar/addstr(+rtvar) with one string of each of 6 kinds");
  // 3. maxima x destination sizes, round trips of well-formed text
  for (int i = 0, nI = C.thorough ? 100000 : 2500; i < nI; i++) {
    int kind = R.chance(2, 3) ? (int)R.pick(std::vector<int>{0, 1, 1, 5}) : pickKind(R);
    Bytes s = genStr(R, kind, R.chance(1, 2) ? (int)R.range(0, 40) : pickLen(R));
    genAdd(R, pickFill(R), s);
  }
  // 4. malformed stream
  for (int i = 0, nI = C.thorough ? 100000 : 2500; i < nI; i++) {
    Bytes s = genStr(R, (int)R.range(2, 4), R.chance(1, 2) ? (int)R.range(0, 12) : pickLen(R));
    genAdd(R, pickFill(R), s);
  }
  C.sample("random: strings 0..300 (ASCII / valid UTF-8 / invalid bytes / cut sequences / random bytes / AIS text) x fill 0..223 x maxima 0..255 x destination 0..80");
  // 5. read side: arbitrary payloads
  for (int i = 0, nI = C.thorough ? 200000 : 6000; i < nI; i++) genGet(R);
  // every (length byte, type) pair at a tight payload end, destination sizes 0..3
  for (int lb = 0; lb < 256; lb++)
    for (int ty : {0, 1, 2, 255})
      for (int n : {0, 1, 2, 5}) {
        if (!C.thorough && n == 2) continue;
        Bytes d((size_t)R.range(2, 12)); for (auto &c : d) c = (unsigned char)R.below(256);
        d[0] = (unsigned char)lb; d[1] = (unsigned char)ty;
        exec(fmt("getvar %d 255 0 %d %d %s", n, (int)R.below(256), (int)R.below(256), hx(d).c_str()));
      }
  // 6. AddVarStr(str) / GetVarStr(size,buf,Index): every fill level x lengths 0, 1, around the free space, 253, 254, > 254
  for (int fill = 0; fill <= 223; fill++) {
    int room = 223 - fill - 2;
    std::vector<int> lens = {0, 1, room - 1, room, room + 1, 253, 254, 255, 300, (int)R.range(0, 300)};
    for (int L : lens) {
      if (L < 0) continue;
      if (!C.thorough && (L == 254 || L == 300) && (fill % 8)) continue;
      int kind = R.chance(1, 2) ? 0 : (int)R.pick(std::vector<int>{1, 1, 2, 3, 4});
      Bytes s = genStr(R, kind, L);
      if (R.chance(1, 2)) exec(fmt("rtvar2 %d %d %d %d %s", fill, R.chance(1, 2) ? (int)s.size() + 1 + (int)R.below(3) : pickBuf(R), (int)R.below(256), (int)R.below(256), hx(s).c_str()));
      else exec(fmt("addvar2 %d %d %s", fill, (int)R.below(256), hx(s).c_str()));
    }
  }
  // 7. AddBuf / GetBuf: every fill level x lengths around the free space; all offsets/lengths on small payloads
  auto rndBytes = [&](int n) { Bytes b(n); for (auto &c : b) c = (unsigned char)R.below(256); return b; };
  for (int fill = 0; fill <= 223; fill++) {
    int room = 223 - fill;
    for (int L : {0, 1, room - 1, room, room + 1, room + 40, (int)R.range(0, 300)}) {
      if (L < 0) continue;
      exec(fmt("addbuf %d %d %s", fill, (int)R.below(256), hx(rndBytes(L)).c_str()));
    }
    int la = (int)R.range(0, room), lb = R.chance(1, 4) ? (int)R.range(0, 60) : (int)R.range(0, room - la);
    exec(fmt("rtbuf %d %d %d %s %s", fill, (int)R.below(256), (int)R.below(256), hx(rndBytes(la)).c_str(), hx(rndBytes(lb)).c_str()));
  }
  for (int dl = 0; dl <= (C.thorough ? 12 : 6); dl++)      // exhaustive: DataLen x Index x Length (Index at/after the end, reads past DataLen)
    for (int idx = 0; idx <= dl + 2; idx++)
      for (int L = 0; L <= dl + 2; L++) {
        Bytes d = rndBytes(dl);
        exec(fmt("getbuf %d %d %d %d %d %s", L, (int)R.below(3), idx, (int)R.below(256), (int)R.below(256), hx(d).c_str()));
        if ((idx + L) % 3 == 0) exec(fmt("getbuf0 %d %d %d %s", L, idx, (int)R.below(256), hx(d).c_str()));
      }
  for (int i = 0, nI = C.thorough ? 40000 : 3000; i < nI; i++) {
    int dl = R.chance(1, 4) ? (int)R.range(215, 223) : (int)R.range(0, 223);
    Bytes d = rndBytes(dl);
    int idx = R.chance(1, 5) ? (int)R.range(dl > 3 ? dl - 3 : 0, dl + 3) : (int)R.range(0, dl);
    int L = R.chance(1, 3) ? (int)R.range(0, 4) : R.chance(1, 2) ? (int)R.range(0, dl - std::min(idx, dl)) : (int)R.range(0, 230);
    if (R.chance(1, 8)) exec(fmt("getbuf0 %d %d %d %s", L, idx, (int)R.below(256), hx(d).c_str()));
    else exec(fmt("getbuf %d %d %d %d %d %s", L, (int)R.below(4), idx, (int)R.below(256), (int)R.below(256), hx(d).c_str()));
  }
  C.sample("AddVarStr(str)+GetVarStr at every fill level (lengths 0,1,free-1..free+1,253,254,255,300); AddBuf/GetBuf at every fill level, exhaustive DataLen x Index x Length on small payloads, random large ones");
  // destination sizes 0 and 1 on every exit of GetVarStr / GetStr: message too short for the header (DataLen 0..2), header at the
  // very end, empty and invalid length bytes, invalid types, and real text
  for (int dl = 0; dl <= 6; dl++)
    for (int lb : {0, 1, 2, 3, 4, 5, 254, 255})
      for (int ty : {0, 1, 2, 255})
        for (int n : {0, 1}) {
          Bytes d(dl); for (auto &c : d) c = (unsigned char)R.range(1, 255);
          if (dl > 0) d[0] = (unsigned char)lb; if (dl > 1) d[1] = (unsigned char)ty;
          for (int idx = 0; idx <= (dl == 6 && n == 0 ? 5 : 0); idx++)
            exec(fmt("getvar %d %d %d %d %d %s", n, (int)R.pick(std::vector<int>{0xff, 0x40}), idx, (int)R.below(256), (int)R.below(256), hx(d).c_str()));
          if (lb < 6 && ty < 2) exec(fmt("getstr %d %d %d 0 %d %d %s", n, lb, ty ? 0xff : 0x40, (int)R.below(256), (int)R.below(256), hx(d).c_str()));
        }
  C.sample("read side: getstr1/getstr/getvar on arbitrary payloads (every length byte 0..255 x type {0,1,2,255}), destination sizes 0..80");
  C.finish();
  return 0;
}
