import N2k.Model.HandlersRx
import Driver.Util
-- engine: handlers
/-! Engine `handlers` (C14): executes the composed node model `N2k.Handlers.nodeStep` / `nodeRun` (receive path of C02 +
handler list) on the harness op lines; frames are rebuilt byte for byte as the harness injects them. -/
namespace Driver.Handlers
open N2k.Handlers Driver

def maxH : Nat := 8
def nBus : Nat := 2

def hid? (s : String) : Option Nat := do let n ← nat? s; if n < maxH then some n else none
def bid? (s : String) : Option Nat := do let n ← nat? s; if n < nBus then some n else none

/-- PGNs a CAN identifier can carry to this library: 17 bit, PDU1 has a zero low byte -/
def pgn? (s : String) : Option Nat := do
  let p ← nat? s
  if p < 2 ^ 17 ∧ ¬ ((p / 256) % 256 < 240 ∧ p % 256 ≠ 0) then some p else none

def isTp (p : Nat) : Bool := p = 60416 ∨ p = 60160

/-- the fast-packet PGNs the harness injects multi-frame -/
def isFp (p : Nat) : Bool :=
  p = 129029 ∨ p = 126996 ∨ p = 126208 ∨ p = 129540 ∨ p = 126720 ∨ (130816 ≤ p ∧ p ≤ 131071)

def byte? (s : String) : Option Nat := do
  let n ← nat? s
  if s.length ≤ 3 ∧ n ≤ 255 then some n else none

def showCalls : Option (Nat × List Id) → String
  | none => "fault"
  | some (c, l) =>
    let ids := if l.isEmpty then "-" else ",".intercalate (l.map toString)
    s!"cb={c} h={ids}"

def parseOp : List String → Option Op
  | ["new", h, p] => do some (.new (← hid? h) (← nat? p) none)
  | ["new", h, p, b] => do some (.new (← hid? h) (← nat? p) (some (← bid? b)))
  | ["attach", h, b] => do some (.attach (← hid? h) (← bid? b))
  | ["detach", h] => do some (.detach (← hid? h))
  | ["detach", h, via] => do let _ ← bid? via; some (.detach (← hid? h))
  | ["destroy", h] => do some (.destroy (← hid? h))
  | ["cb", b, "0"] => do some (.cb (← bid? b) false)
  | ["cb", b, "1"] => do some (.cb (← bid? b) true)
  | _ => none

/-- Same world with the three maps stored as tables instead of ever longer chains of function updates
    (extensionally equal for the addresses `< maxH` and buses `< nBus` the protocol can name). -/
def compact (w : World) : World :=
  let objs := ((List.range maxH).map w.obj).toArray
  let heads := ((List.range nBus).map w.head).toArray
  let cbs := ((List.range nBus).map w.cb).toArray
  { obj := fun i => objs.getD i none, head := fun b => heads.getD b none, cb := fun b => cbs.getD b false, bound := w.bound }

/-- `reset` = delete every live handler, clear both callbacks -/
def reset (w : World) : Option World :=
  let ops := (List.range maxH).map Op.destroy ++ (List.range nBus).map (fun b => Op.cb b false)
  (run w ops).map compact

def allSome : List (Option Nat) → Option (List Nat)
  | [] => some []
  | none :: _ => none
  | some a :: t => (allSome t).map (a :: ·)

/-! ### the frames the harness injects (same bytes as `inject` / `injectTp` / the `fp` op of harness/handlers.cpp) -/

def canId (prio pgn src dst : Nat) : Nat :=
  prio * 2 ^ 26 + pgn * 256 + src + (if (pgn / 256) % 256 < 240 then dst * 256 else 0)

def mkFrame (prio pgn src : Nat) (bytes : List Nat) : N2k.Rx.Frame :=
  N2k.Rx.decode (canId prio pgn src 255) bytes.length bytes

/-- one complete single-frame message (or a lone TP frame) of the given PGN -/
def injectFrame (p : Nat) : N2k.Rx.Frame :=
  if p = 59904 then mkFrame 6 p 0x23 [0x00, 0xEE, 0x00]
  else if p = 60928 then mkFrame 6 p 0x42 [0x11, 0x22, 0x33, 0x44, 0x00, 0x82, 0x32, 0xC0]
  else if p = 60416 then mkFrame 6 p 0x23 [255, 0xff, 0xff, 0xff, 0xff, 0x00, 0xF2, 0x01]
  else if p = 60160 then mkFrame 6 p 0x23 [1, 0xff, 0xff, 0xff, 0xff, 0xff, 0xff, 0xff]
  else if isFp p then mkFrame 6 p 0x23 [0x40, 4, 1, 2, 3, 4, 0xff, 0xff]
  else mkFrame 6 p 0x23 [1, 2, 3, 4, 5, 6, 7, 8]

def fpFrame (p src len : Nat) (k b0 : Nat) : N2k.Rx.Frame :=
  if b0 % 32 = 0 then mkFrame 6 p src ([b0, len % 256] ++ (List.range 6).map fun j => (j + 2 + k) % 256)
  else mkFrame 6 p src (b0 :: (List.range 7).map fun j => (16 * k + j + 1) % 256)

/-- announce + every data packet of a `len` byte payload; the last packet carries the TP-receiver input of the model -/
def tpFrames (p len dst : Nat) : List QFrame :=
  let src := 0x31
  let npk := (len + 6) / 7
  let payload := (List.range len).map fun i => (i * 3 + 1) % 256
  let cm : N2k.Rx.Frame := N2k.Rx.decode (canId 7 60416 src dst) 8
    [if dst = 255 then 32 else 16, len % 256, len / 256, npk % 256, 0xff, p % 256, (p / 256) % 256, (p / 65536) % 256]
  (cm, none) :: (List.range npk).map fun k =>
    let bytes := (k + 1) % 256 :: (List.range 7).map fun j => if k * 7 + j < len then ((k * 7 + j) * 3 + 1) % 256 else 0xff
    (N2k.Rx.decode (canId 7 60160 src dst) 8 bytes,
     if k + 1 = npk then some (⟨7, p, src, dst, len, payload⟩ : N2k.Rx.Msg) else none)

/-- both announces, then the data packets alternately (harness `injectTp2`) -/
def interleave : List QFrame → List QFrame → List QFrame
  | [], l => l
  | l, [] => l
  | a :: as, b :: bs => a :: b :: interleave as bs

/-- engine state: the composed node model, the harness's virtual clock and its hold switches -/
structure ES where
  n : Node
  now : Nat
  hold : BusId → Bool
  batch : Nat := 20          -- frames one `ParseMessages` takes from the driver, as measured by the harness (`batch n`)

def cfg : BusId → N2k.Rx.Cfg := fun _ => {}

/-- same receive side with the maps stored as tables (see `compact`) -/
def compactRx (r : RxSide) : RxSide :=
  let sts := ((List.range nBus).map fun b =>
    let st := r.st b
    let slots := ((List.range st.N).map st.slot).toArray
    ({ N := st.N, slot := fun j => slots.getD j N2k.Rx.emptySlot } : N2k.Rx.St)).toArray
  let modes := ((List.range nBus).map fun b => ((List.range 8).map (r.mode b)).toArray).toArray
  let drvs := ((List.range nBus).map r.drv).toArray
  { st := fun b => sts.getD b (N2k.Rx.init 5), mode := fun b k => (modes.getD b #[]).getD k false, drv := fun b => drvs.getD b [] }

/-- harness `reset`: `FreeMessage()` on every receive slot, driver queues emptied, every mode bit cleared -/
def resetRx (r : RxSide) : RxSide :=
  { st := fun b => { r.st b with slot := fun j => N2k.Rx.freeSlot ((r.st b).slot j) }, mode := fun _ _ => false, drv := fun _ => [] }

def sumCalls (calls : List (List Call)) : Nat × List Id :=
  let cs := calls.flatten
  ((cs.map (·.cb)).foldl (· + ·) 0, cs.flatMap (·.hs))

/-- run events of the composed model; total callback runs and handlers called -/
def runEvs (es : ES) (evs : List Ev) : Option (ES × Nat × List Id) :=
  match nodeRun cfg es.n evs with
  | none => none
  | some (n', calls) => some ({ es with n := n' }, sumCalls calls)

def arriveAll (es : ES) (b : BusId) (fs : List QFrame) : Option ES :=
  (runEvs es (fs.map fun q => Ev.arrive b q.1 q.2)).map (·.1)

/-- one `ParseMessages` at the next millisecond -/
def pollOnce (es : ES) (b : BusId) : Option (ES × Nat × List Id) :=
  let es1 := { es with now := es.now + 1 }
  runEvs es1 [Ev.poll b es1.now es1.batch]

/-- poll until the driver queue of `b` is empty (at least once) -/
def drain (es : ES) (b : BusId) (c : Nat) (l : List Id) : Nat → Option (ES × Nat × List Id)
  | 0 => some (es, c, l)
  | fuel + 1 =>
    match pollOnce es b with
    | none => none
    | some (es', c', l') =>
      if (es'.n.r.drv b).isEmpty then some (es', c + c', l ++ l') else drain es' b (c + c') (l ++ l') fuel

/-- frames arrive, then (unless the bus is on hold) one poll, or polls until the driver is empty -/
def after (es : ES) (b : BusId) (fs : List QFrame) (drainAll : Bool) : Option (ES × String) :=
  match arriveAll es b fs with
  | none => none
  | some es1 =>
    if es1.hold b then some (es1, "queued") else
    match (if drainAll then drain es1 b 0 [] 1000 else pollOnce es1 b) with
    | none => none
    | some (es2, c, l) => some (es2, showCalls (some (c, l)))

def step (s : Option ES) (w : List String) : Option ES × String :=
  match s with
  | none => (none, "fault")
  | some es =>
    let wd := es.n.w
    match w with
    | "reset" :: ps => match allSome (ps.map nat?) with
      | some l => if l.length > maxH then (s, "bad-op") else
        -- destroy everything, then `new 0 p0`, `new 1 p1`, ...
        match (reset wd).bind fun w0 => run w0 ((List.range l.length).zip l |>.map fun (h, p) => Op.new h p none) with
        | some w' => (some { es with n := ⟨w', compactRx (resetRx es.n.r)⟩, hold := fun _ => false, batch := 20 }, "ok")
        | none => (none, "fault")
      | none => (s, "bad-op")
    | ["msg", b, p] => match bid? b, pgn? p with
      | some b, some p => match after es b [(injectFrame p, none)] false with
        | some (es', out) => (some es', out)
        | none => (none, "fault")
      | _, _ => (s, "bad-op")
    | "tp" :: b :: p :: rest => match bid? b, pgn? p, allSome (rest.map nat?) with
      | some b, some p, some r =>
        let len := r.getD 0 9
        let dst := r.getD 1 255
        if isTp p ∨ r.length > 2 ∨ len < 9 ∨ len > 223 ∨ dst > 255 then (s, "bad-op") else
        match after es b (tpFrames p len dst) true with
        | some (es', out) => (some es', out)
        | none => (none, "fault")
      | _, _, _ => (s, "bad-op")
    | ["tp2", b, pa, la, da, pb, lb, db] => match bid? b, pgn? pa, nat? la, nat? da, pgn? pb, nat? lb, nat? db with
      | some b, some pa, some la, some da, some pb, some lb, some db =>
        if isTp pa ∨ isTp pb ∨ la < 9 ∨ la > 223 ∨ lb < 9 ∨ lb > 223 ∨ da > 255 ∨ db > 255 ∨ da = db then (s, "bad-op") else
        match after es b (interleave (tpFrames pa la da) (tpFrames pb lb db)) true with
        | some (es', out) => (some es', out)
        | none => (none, "fault")
      | _, _, _, _, _, _, _ => (s, "bad-op")
    | ["clock", ts] => match nat? ts with
      | some t => if ts.length > 15 ∨ t < es.now then (s, "bad-op") else (some { es with now := t }, "ok")
      | none => (s, "bad-op")
    | ["fp", b, p, src, len, frames] =>
      match bid? b, pgn? p, nat? src, nat? len, allSome ((frames.splitOn ",").map byte?) with
      | some b, some p, some src, some len, some fr =>
        if ¬ isFp p ∨ src > 251 ∨ len > 223 ∨ fr.length > 40 then (s, "bad-op") else
        let qs : List QFrame := ((List.range fr.length).zip fr).map fun kb => (fpFrame p src len kb.1 kb.2, none)
        if es.hold b then
          match arriveAll es b qs with
          | some es' => (some es', "queued")
          | none => (none, "fault")
        else
        let r := qs.foldl (fun (acc : Option (ES × Nat × List Id)) (q : QFrame) =>
          match acc with
          | none => none
          | some (e, c, l) => match (arriveAll e b [q]).bind fun e1 => pollOnce e1 b with
            | none => none
            | some (e', c', l') => some (e', c + c', l ++ l')) (some (es, 0, []))
        match r with
        | some (es', c, l) => (some es', showCalls (some (c, l)))
        | none => (none, "fault")
      | _, _, _, _, _ => (s, "bad-op")
    | "probe" :: ps => match allSome (ps.map pgn?) with
      | some l => if l.isEmpty ∨ l.any isTp then (s, "bad-op") else
        let r := (l.flatMap fun p => (List.range nBus).map fun b => (p, b)).foldl
          (fun (acc : Option (ES × List String)) (pb : Nat × Nat) =>
            match acc with
            | none => none
            | some (e, out) => match after e pb.2 [(injectFrame pb.1, none)] false with
              | none => none
              | some (e', o) => some (e', out ++ [o])) (some (es, []))
        match r with
        | some (es', out) => (some es', " | ".intercalate out)
        | none => (none, "fault")
      | none => (s, "bad-op")
    | ["hold", b, v] => match bid? b, nat? v with
      | some b, some v => if v > 1 then (s, "bad-op") else
        (some { es with hold := fun x => if x = b then v == 1 else es.hold x }, "ok")
      | _, _ => (s, "bad-op")
    | ["batch", n] => match nat? n with
      | some n => (some { es with batch := n }, "ok")
      | none => (s, "bad-op")
    | ["drain", b] => match bid? b with
      | some b => match drain es b 0 [] 400 with
        | some (es', c, l) => (some es', showCalls (some (c, l)))
        | none => (none, "fault")
      | none => (s, "bad-op")
    | ["poll", b] => match bid? b with
      | some b => match pollOnce es b with
        | some (es', c, l) => (some es', showCalls (some (c, l)))
        | none => (none, "fault")
      | none => (s, "bad-op")
    | ["mode", b, bit, v] => match bid? b, nat? bit, nat? v with
      | some b, some bit, some v => if bit < 1 ∨ bit > 4 ∨ v > 1 then (s, "bad-op") else
        match runEvs es [Ev.setMode b bit (v == 1)] with
        | some (es', _) => (some es', "ok")
        | none => (none, "fault")
      | _, _, _ => (s, "bad-op")
    | _ => match parseOp w with
      | none => (s, "bad-op")
      | some op =>
        if op.usable wd then
          match nodeStep cfg es.n (.op op) with
          | some (n', _) => (some { es with n := n' }, "ok")
          | none => (none, "fault")
        else (s, "bad-op")

/-- both bus objects were polled for 700 ms each before the first op: the virtual clock stands at 1400 -/
def main : IO Unit :=
  loop step (some ⟨⟨World.init, ⟨fun _ _ => false, fun _ => N2k.Rx.init 5, fun _ => []⟩⟩, 1400, fun _ => false, 20⟩)

end Driver.Handlers
