import N2k.Spec.Seasmart
/-!
# C19 helper lemmas, export side

`exportM_eq`: the memory-level model `exportM` (sequence of checked stores + the checksum loop reading the
buffer back) writes exactly `sentence m ts ++ [0]` at the start of the buffer, leaves the rest untouched
and never faults when the size test passes; it returns the buffer unchanged otherwise.
-/
namespace N2k.Seasmart
theorem ok_bind {α β : Type} (a : α) (f : α → M β) : (Except.ok a >>= f) = f a := rfl
theorem pure_eq_ok {α : Type} (a : α) : (pure a : M α) = Except.ok a := rfl

theorem wr_app (w r : List Nat) (x c : Nat) : wr (w ++ x :: r) w.length c = .ok (w ++ c :: r) := by
  simp [wr, pure_eq_ok]

theorem wrs_app (l : List Nat) : ∀ (w r : List Nat), l.length ≤ r.length →
    wrs (w ++ r) w.length l = .ok (w ++ l ++ r.drop l.length) := by
  induction l with
  | nil => intro w r _; simp [wrs, pure_eq_ok]
  | cons c t ih =>
    intro w r h
    cases r with
    | nil => simp at h
    | cons x r' =>
      simp only [List.length_cons, Nat.add_le_add_iff_right] at h
      simp only [wrs, wr_app, ok_bind]
      have := ih (w ++ [c]) r' h
      simp only [List.length_append, List.length_singleton, List.append_assoc, List.singleton_append] at this
      rw [this]; simp

/-- `b` is the buffer `buf` after exactly the bytes `w` were stored at its start -/
def Wr (buf b w : List Nat) : Prop := b = w ++ buf.drop w.length

theorem Wr.wrs {buf b w : List Nat} (W : Wr buf b w) (l : List Nat) (pos : Nat) (hp : pos = w.length)
    (h : w.length + l.length ≤ buf.length) : ∃ b', wrs b pos l = .ok b' ∧ Wr buf b' (w ++ l) := by
  subst hp
  refine ⟨_, ?_, rfl⟩
  rw [W, wrs_app l w _ (by simp only [List.length_drop]; omega)]
  simp [List.drop_drop]

theorem wrs_two (b : List Nat) (pos x y : Nat) :
    wrs b pos [x, y] = (wr b pos x >>= fun b => wr b (pos + 1) y) := by
  simp only [wrs]
  cases wr b pos x with
  | error e => rfl
  | ok b1 =>
    simp only [ok_bind]
    cases wr b1 (pos + 1) y <;> rfl

theorem wrs_one (b : List Nat) (pos x : Nat) : wrs b pos [x] = wr b pos x := by
  simp only [wrs]
  cases wr b pos x <;> rfl

theorem wrs_append (a : List Nat) : ∀ (b : List Nat) (pos : Nat) (c : List Nat),
    wrs b pos (a ++ c) = (wrs b pos a >>= fun b' => wrs b' (pos + a.length) c) := by
  induction a with
  | nil => intro b pos c; rfl
  | cons x t ih =>
    intro b pos c
    simp only [List.cons_append, wrs]
    cases wr b pos x with
    | error e => rfl
    | ok b1 =>
      simp only [ok_bind, ih, List.length_cons]
      rw [show pos + (t.length + 1) = pos + 1 + t.length by omega]

theorem appendByte_eq (b : List Nat) (pos x : Nat) : appendByte b pos x = wrs b pos (hexByte x) := by
  simp only [appendByte, hexByte, wrs_two]

theorem append2Bytes_eq (b : List Nat) (pos i : Nat) :
    append2Bytes b pos i = wrs b pos (hexByte (i / 256 % 256) ++ hexByte (i % 256)) := by
  simp only [append2Bytes, appendByte_eq, wrs_append]; rfl

theorem appendWord_eq (b : List Nat) (pos i : Nat) :
    appendWord b pos i = wrs b pos ((hexByte (i / 65536 % 65536 / 256 % 256) ++ hexByte (i / 65536 % 65536 % 256)) ++
      (hexByte (i % 65536 / 256 % 256) ++ hexByte (i % 65536 % 256))) := by
  simp only [appendWord, append2Bytes_eq, wrs_append (_ ++ _)]; rfl

theorem hexData_cons (x : Nat) (t : List Nat) : hexData (x :: t) = hexByte (x % 256) ++ hexData t := by
  simp [hexData]

theorem hexData_length (d : List Nat) : (hexData d).length = 2 * d.length := by
  induction d with
  | nil => rfl
  | cons b t ih =>
    rw [hexData_cons, List.length_append, ih]
    simp only [hexByte, List.length_cons, List.length_nil]; omega

theorem exportData_eq (d : List Nat) : ∀ (b : List Nat) (pos : Nat),
    exportData b pos d = (wrs b pos (hexData d) >>= fun b' => pure (b', pos + 2 * d.length)) := by
  induction d with
  | nil => intro b pos; rfl
  | cons x t ih =>
    intro b pos
    simp only [exportData, appendByte_eq, ih]
    rw [hexData_cons, wrs_append]
    cases wrs b pos (hexByte (x % 256)) with
    | error e => rfl
    | ok b1 =>
      simp only [ok_bind, hexByte, List.length_cons, List.length_nil]
      rw [show pos + 2 + 2 * t.length = pos + 2 * (t.length + 1) by omega]

/-! ## the checksum loop -/

theorem cksLoop_spec (l : List Nat) : ∀ (acc : Nat) (t : List Nat), (∀ c ∈ l, c ≠ 42) →
    cksLoop (l ++ 42 :: t) acc = .ok (l.foldl (· ^^^ ·) acc % 256) := by
  induction l with
  | nil => intro acc t _; simp [cksLoop, pure_eq_ok]
  | cons c r ih =>
    intro acc t h
    have hc : c ≠ 42 := h c (by simp)
    simp only [List.cons_append, cksLoop, if_neg hc, List.foldl_cons]
    exact ih _ _ (fun c hc => h c (by simp [hc]))

theorem hexChar_ne_42 (n : Nat) : hexChar n ≠ 42 := by
  unfold hexChar hexTab
  by_cases h : n < 16
  · revert n; decide
  · simp only [List.getD_eq_getElem?_getD]; rw [List.getElem?_eq_none (by simpa using h)]; decide

theorem hexChar_ne_0 (n : Nat) (h : n < 16) : hexChar n ≠ 0 := by
  revert n; decide

theorem hexData_ne_42 (d : List Nat) : ∀ c ∈ hexData d, c ≠ 42 := by
  induction d with
  | nil => intro c h; simp [hexData] at h
  | cons x t ih =>
    intro c h
    rw [hexData_cons] at h
    simp only [hexByte, List.cons_append, List.nil_append, List.mem_cons] at h
    rcases h with h | h | h
    · rw [h]; exact hexChar_ne_42 _
    · rw [h]; exact hexChar_ne_42 _
    · exact ih c h

theorem body_ne_42 (m : Msg) (ts : Nat) : ∀ c ∈ (body m ts), c ≠ 42 := by
  intro c h
  simp only [body, pre7, hexByte, List.cons_append, List.nil_append, List.mem_cons] at h
  rcases h with h | h | h | h | h | h | h | h | h | h | h | h | h | h | h | h | h | h | h | h | h | h | h | h | h | h | h
  all_goals first | (rw [h]; first | exact hexChar_ne_42 _ | decide) | exact hexData_ne_42 _ c h


theorem exportM_eq (m : Msg) (ts : Nat) (buf : List Nat) :
    exportM m ts buf = if buf.length < 30 + 2 * m.data.length then .ok (0, buf)
      else .ok (29 + 2 * m.data.length, sentence m ts ++ 0 :: buf.drop (30 + 2 * m.data.length)) := by
  unfold exportM
  by_cases hs : buf.length < 30 + 2 * m.data.length
  · rw [if_pos hs]; simp only []; rw [if_pos (by omega)]; rfl
  · rw [if_neg hs]; simp only []; rw [if_neg (by omega)]
    have h0 : wrs buf 0 (pre7 ++ [0]) = .ok (pre7 ++ 0 :: buf.drop 8) := by
      have := wrs_app (pre7 ++ [0]) [] buf (by simp [pre7]; omega)
      simpa [pre7] using this
    rw [h0, ok_bind, appendByte_eq]
    have hlen := hexData_length m.data
    -- first field overwrites the NUL of the strcpy
    have W1 : ∃ b1, wrs (pre7 ++ 0 :: List.drop 8 buf) 7 (hexByte (m.pgn / 65536 % 256)) = .ok b1 ∧
        Wr buf b1 (pre7 ++ hexByte (m.pgn / 65536 % 256)) := by
      refine ⟨_, wrs_app _ pre7 _ (by simp [hexByte]; omega), ?_⟩
      simp [Wr, hexByte, pre7, List.drop_drop]
    obtain ⟨b1, e1, W1⟩ := W1
    rw [e1, ok_bind, append2Bytes_eq]
    obtain ⟨b2, e2, W2⟩ := W1.wrs (hexByte (m.pgn % 65536 / 256 % 256) ++ hexByte (m.pgn % 65536 % 256)) (7 + 2)
      (by simp [pre7, hexByte]) (by simp [pre7, hexByte]; omega)
    rw [e2, ok_bind, ← wrs_one]
    obtain ⟨b3, e3, W3⟩ := W2.wrs [44] (7 + 2 + 4) (by simp [pre7, hexByte]) (by simp [pre7, hexByte]; omega)
    rw [e3, ok_bind, appendWord_eq]
    obtain ⟨b4, e4, W4⟩ := W3.wrs ((hexByte (ts % 4294967296 / 65536 % 65536 / 256 % 256) ++ hexByte (ts % 4294967296 / 65536 % 65536 % 256)) ++
      (hexByte (ts % 4294967296 % 65536 / 256 % 256) ++ hexByte (ts % 4294967296 % 65536 % 256))) (7 + 2 + 4 + 1) (by simp [pre7, hexByte]) (by simp [pre7, hexByte]; omega)
    rw [e4, ok_bind, ← wrs_one]
    obtain ⟨b5, e5, W5⟩ := W4.wrs [44] (7 + 2 + 4 + 1 + 8) (by simp [pre7, hexByte]) (by simp [pre7, hexByte]; omega)
    rw [e5, ok_bind, appendByte_eq]
    obtain ⟨b6, e6, W6⟩ := W5.wrs (hexByte (m.src % 256)) (7 + 2 + 4 + 1 + 8 + 1) (by simp [pre7, hexByte]) (by simp [pre7, hexByte]; omega)
    rw [e6, ok_bind, ← wrs_one]
    obtain ⟨b7, e7, W7⟩ := W6.wrs [44] (7 + 2 + 4 + 1 + 8 + 1 + 2) (by simp [pre7, hexByte]) (by simp [pre7, hexByte]; omega)
    rw [e7, ok_bind, exportData_eq]
    obtain ⟨b8, e8, W8⟩ := W7.wrs (hexData m.data) (7 + 2 + 4 + 1 + 8 + 1 + 2 + 1) (by simp [pre7, hexByte])
      (by simp [pre7, hexByte]; omega)
    rw [e8, ok_bind, pure_eq_ok, ok_bind]
    simp only []
    rw [← wrs_one]
    obtain ⟨b9, e9, W9⟩ := W8.wrs [42] (7 + 2 + 4 + 1 + 8 + 1 + 2 + 1 + 2 * m.data.length) (by simp [pre7, hexByte]; omega)
      (by simp [pre7, hexByte]; omega)
    rw [e9, ok_bind]
    have hb : (pre7 ++ hexByte (m.pgn / 65536 % 256) ++ (hexByte (m.pgn % 65536 / 256 % 256) ++ hexByte (m.pgn % 65536 % 256)) ++
                  [44] ++
                (hexByte (ts % 4294967296 / 65536 % 65536 / 256 % 256) ++
                    hexByte (ts % 4294967296 / 65536 % 65536 % 256) ++
                  (hexByte (ts % 4294967296 % 65536 / 256 % 256) ++ hexByte (ts % 4294967296 % 65536 % 256))) ++
              [44] ++ hexByte (m.src % 256) ++ [44] ++ hexData m.data ++ [42]) = body m ts ++ [42] := by
      simp [body]
    rw [hb] at W9
    have hbl : (body m ts).length = 26 + 2 * m.data.length := by
      simp [body, pre7, hexByte, hlen]; omega
    have hck : nmeaChecksum b9 = .ok (xorAll ((body m ts).drop 1) % 256) := by
      rw [W9, nmeaChecksum]
      have : (body m ts ++ [42] ++ List.drop (body m ts ++ [42]).length buf).drop 1
          = (body m ts).drop 1 ++ 42 :: List.drop (body m ts ++ [42]).length buf := by
        simp [body, pre7]
      rw [this, cksLoop_spec _ _ _ (fun c hc => body_ne_42 m ts c (List.mem_of_mem_drop hc))]
      rfl
    rw [hck, ok_bind, appendByte_eq]
    obtain ⟨b10, e10, W10⟩ := W9.wrs (hexByte (xorAll ((body m ts).drop 1) % 256))
      (7 + 2 + 4 + 1 + 8 + 1 + 2 + 1 + 2 * m.data.length + 1) (by simp [hbl]) (by simp [hbl, hexByte]; omega)
    rw [e10, ok_bind, ← wrs_one]
    obtain ⟨b11, e11, W11⟩ := W10.wrs [0]
      (7 + 2 + 4 + 1 + 8 + 1 + 2 + 1 + 2 * m.data.length + 1 + 2) (by simp [hbl, hexByte]) (by simp [hbl, hexByte]; omega)
    rw [e11, ok_bind, pure_eq_ok, W11]
    simp only [sentence]
    congr 1
    simp [hbl, hexByte]
    constructor
    · omega
    · congr 1; omega

theorem body_length (m : Msg) (ts : Nat) : (body m ts).length = 26 + 2 * m.data.length := by
  simp [body, pre7, hexByte, hexData_length]; omega

theorem sentence_length (m : Msg) (ts : Nat) : (sentence m ts).length = 29 + 2 * m.data.length := by
  simp [sentence, body_length, hexByte]; omega

end N2k.Seasmart
