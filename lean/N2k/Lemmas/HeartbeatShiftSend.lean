import N2k.Model.Send
import N2k.Lemmas.Time32
/-!
# Clock-origin shift of the send-path machines (C13)

`St.shift k s` is the state of the same node when the whole scenario is run with the clock `k` ms ahead: the clock
and every stored deadline are moved by `k` (modulo 2^32 on the 32-bit build), "disabled" stays "disabled".
Every machine of `Model/Send.lean` commutes with the shift, provided no deadline lands on the all-ones
"disabled" value in either run (`St.ShiftOk` for the stored ones, `ClockOk` for the ones armed in this step: that is
the scheduler's documented 1 ms slack, characterised in `Time32.lean: isTime_fromNow32`).
-/
namespace N2k.Send
open N2k.Time

macro "triv" : tactic => `(tactic| first | rfl | trivial)

def Dev.shift (f : Flavor) (k : Nat) (d : Dev) : Dev := { d with claimTimer := d.claimTimer.shift f k }

def St.shift (k : Nat) (s : St) : St :=
  { s with now := s.now + k, openSched := s.openSched.shift s.flavor k,
           devs := s.devs.map (Dev.shift s.flavor k) }

/-- no stored deadline collides with the "disabled" value when shifted -/
def St.ShiftOk (k : Nat) (s : St) : Prop :=
  s.openSched.ShiftOk s.flavor k ∧ ∀ d ∈ s.devs, d.claimTimer.ShiftOk s.flavor k

theorem clock64 {f : Flavor} {k now : Nat} (hc : ClockOk f k now) : f = .t64 → now + k < M64 := by
  intro h; subst h; have := hc.lt64; omega

/-- `isAddressClaimStarted` as a function of the two tests it makes -/
def acsOf (en tm : Bool) (f : Flavor) (d : Dev) : Dev × Bool :=
  if en then
    if tm then
      ({ d with claimTimer := Sched.disabled f,
                endSource := if d.source > 0 then d.source - 1 else Gen.maxCanBusAddress }, false)
    else (d, true)
  else (d, false)

theorem isAddressClaimStarted_eq (f : Flavor) (now : Nat) (d : Dev) :
    isAddressClaimStarted f now d = acsOf (d.claimTimer.isEnabled f) (d.claimTimer.isTime f now) f d := rfl

theorem isAddressClaimStarted_shift {f : Flavor} {k now : Nat} {d : Dev} (hc : ClockOk f k now)
    (hd : d.claimTimer.ShiftOk f k) :
    isAddressClaimStarted f (now + k) (d.shift f k) =
      ((isAddressClaimStarted f now d).1.shift f k, (isAddressClaimStarted f now d).2) ∧
    (isAddressClaimStarted f now d).1.claimTimer.ShiftOk f k := by
  have e1 : (d.shift f k).claimTimer = d.claimTimer.shift f k := rfl
  rw [isAddressClaimStarted_eq, isAddressClaimStarted_eq, e1, Sched.isEnabled_shift hd,
    Sched.isTime_shift hd (clock64 hc)]
  cases d.claimTimer.isEnabled f <;> cases d.claimTimer.isTime f now
  · exact ⟨rfl, hd⟩
  · exact ⟨rfl, hd⟩
  · exact ⟨rfl, hd⟩
  · exact ⟨by simp only [acsOf, Dev.shift, Sched.shift_disabled, ↓reduceIte]; rfl, Sched.shiftOk_disabled f k⟩

theorem getSequenceCounter_shift (ls : Lists) (f : Flavor) (k : Nat) (d : Dev) (pgn : Nat) :
    getSequenceCounter ls (d.shift f k) pgn =
      ((getSequenceCounter ls d pgn).1.shift f k, (getSequenceCounter ls d pgn).2) := rfl

theorem getSequenceCounter_timer (ls : Lists) (d : Dev) (pgn : Nat) :
    (getSequenceCounter ls d pgn).1.claimTimer = d.claimTimer := rfl

theorem map_updDev (f : Flavor) (k : Nat) (l : List Dev) (i : Nat) (d : Dev) :
    updDev (l.map (Dev.shift f k)) i (d.shift f k) = (updDev l i d).map (Dev.shift f k) := by
  unfold updDev; rw [List.map_set]

theorem shiftOk_updDev {f : Flavor} {k : Nat} {l : List Dev} {i : Nat} {d : Dev}
    (hl : ∀ x ∈ l, x.claimTimer.ShiftOk f k) (hd : d.claimTimer.ShiftOk f k) :
    ∀ x ∈ updDev l i d, x.claimTimer.ShiftOk f k := by
  intro x hx; unfold updDev at hx
  rcases List.mem_or_eq_of_mem_set hx with h | h
  · exact hl x h
  · subst h; exact hd

theorem srcOf_shift (dev : Option Nat) (f : Flavor) (k : Nat) (d : Dev) (m : Msg) :
    srcOf dev (d.shift f k) m = srcOf dev d m := by cases dev <;> rfl

def Gate.shift (k : Nat) : Gate → Gate
  | .refuse s => .refuse (s.shift k)
  | .pass s1 d1 c => .pass (s1.shift k) (d1.shift s1.flavor k) c

def Gate.ShiftOk (k : Nat) : Gate → Prop
  | .refuse s => s.ShiftOk k
  | .pass s1 d1 _ => s1.ShiftOk k ∧ d1.claimTimer.ShiftOk s1.flavor k

/-- frame facts of the gate: clock, flavour and number of devices are not touched -/
def Gate.Same (s : St) : Gate → Prop
  | .refuse s' => s'.now = s.now ∧ s'.flavor = s.flavor ∧ s'.devs.length = s.devs.length
  | .pass s' _ _ => s'.now = s.now ∧ s'.flavor = s.flavor ∧ s'.devs.length = s.devs.length

theorem gate_shift {k : Nat} {s : St} (m : Msg) (dev : Option Nat)
    (hc : ClockOk s.flavor k s.now) (ho : s.ShiftOk k) :
    gate (s.shift k) m dev = (gate s m dev).shift k ∧ (gate s m dev).ShiftOk k ∧ (gate s m dev).Same s := by
  unfold gate
  have el : (s.shift k).devs.length = s.devs.length := by simp [St.shift]
  have eg : (s.shift k).devs[dev.getD 0]? = (s.devs[dev.getD 0]?).map (Dev.shift s.flavor k) := by
    simp [St.shift]
  simp only [el, eg]
  by_cases h0 : dev.getD 0 ≥ s.devs.length
  · simp only [if_pos h0]; exact ⟨rfl, ho, rfl, rfl, rfl⟩
  · simp only [if_neg h0]
    cases hg : s.devs[dev.getD 0]? with
    | none => exact ⟨rfl, ho, rfl, rfl, rfl⟩
    | some d0 =>
      have hd0 : d0.claimTimer.ShiftOk s.flavor k := ho.2 d0 (List.mem_of_getElem? hg)
      simp only [Option.map_some, srcOf_shift]
      by_cases h1 : srcOf dev d0 m > Gen.maxCanBusAddress ∧ m.pgn ≠ 60928
      · simp only [if_pos h1]; exact ⟨rfl, ho, rfl, rfl, rfl⟩
      · simp only [if_neg h1]
        by_cases h2 : n2kToCanId m.prio m.pgn (srcOf dev d0 m) (if m.pgn &&& 0xff ≠ 0 then 0xff else m.dst) = 0
        · simp only [if_pos h2]; exact ⟨rfl, ho, rfl, rfl, rfl⟩
        · simp only [if_neg h2]
          have e3 : (s.shift k).listenOnly = s.listenOnly := rfl
          rw [e3]
          by_cases h3 : s.listenOnly = true
          · simp only [if_pos h3]; exact ⟨rfl, ho, rfl, rfl, rfl⟩
          · simp only [if_neg h3]
            by_cases h4 : m.pgn = 0
            · simp only [if_pos h4]; exact ⟨rfl, ho, rfl, rfl, rfl⟩
            · simp only [if_neg h4]
              have e5 : (s.shift k).flavor = s.flavor := rfl
              have e6 : (s.shift k).now = s.now + k := rfl
              have e7 : (s.shift k).devs = s.devs.map (Dev.shift s.flavor k) := rfl
              obtain ⟨ea, eo⟩ := isAddressClaimStarted_shift (now := s.now) hc hd0
              rw [e5, e6, e7, ea]
              have hs1 : St.ShiftOk k { s with devs := updDev s.devs (dev.getD 0) (isAddressClaimStarted s.flavor s.now d0).1 } :=
                ⟨ho.1, shiftOk_updDev ho.2 eo⟩
              have hlen : (updDev s.devs (dev.getD 0) (isAddressClaimStarted s.flavor s.now d0).1).length = s.devs.length := by
                simp [updDev]
              simp only [map_updDev]
              by_cases h5 : (isAddressClaimStarted s.flavor s.now d0).2 = true ∧ m.pgn ≠ 60928
              · simp only [if_pos h5]; exact ⟨rfl, hs1, rfl, rfl, hlen⟩
              · simp only [if_neg h5]; exact ⟨rfl, ⟨hs1, eo⟩, rfl, rfl, hlen⟩

/-- same clock, flavour, number of devices and open state -/
def St.Same (s s' : St) : Prop :=
  s'.now = s.now ∧ s'.flavor = s.flavor ∧ s'.devs.length = s.devs.length ∧ s'.openState = s.openState ∧
  s'.openSched = s.openSched

theorem St.Same.rfl' (s : St) : St.Same s s := ⟨rfl, rfl, rfl, rfl, rfl⟩

theorem produce_shift {k : Nat} {s1 : St} (idx : Nat) {d1 : Dev} (canId : Nat) (m : Msg)
    (ho : s1.ShiftOk k) (hd : d1.claimTimer.ShiftOk s1.flavor k) :
    produce (s1.shift k) idx (d1.shift s1.flavor k) canId m =
      ((produce s1 idx d1 canId m).1.shift k, (produce s1 idx d1 canId m).2) ∧
    (produce s1 idx d1 canId m).1.ShiftOk k ∧ St.Same s1 (produce s1 idx d1 canId m).1 := by
  unfold produce
  have e1 : (s1.shift k).lists = s1.lists := rfl
  have e2 : (s1.shift k).ring = s1.ring := rfl
  have e3 : (s1.shift k).drv = s1.drv := rfl
  have e4 : (s1.shift k).devs = s1.devs.map (Dev.shift s1.flavor k) := rfl
  simp only [e1, e2, e3, e4, getSequenceCounter_shift, map_updDev]
  by_cases h1 : m.len ≤ 8 ∧ ¬(m.prio < 0x80 ∧ isFastPacketPGN s1.lists m.pgn = true)
  · simp only [if_pos h1]; exact ⟨by triv, ho, St.Same.rfl' _⟩
  · simp only [if_neg h1]
    by_cases h2 : m.tp = true
    · simp only [if_pos h2]; exact ⟨by triv, ho, St.Same.rfl' _⟩
    · simp only [if_neg h2]
      refine ⟨by triv, ⟨ho.1, shiftOk_updDev ho.2 ?_⟩, rfl, rfl, ?_, rfl, rfl⟩
      · rw [getSequenceCounter_timer]; exact hd
      · simp [updDev]

theorem sendMsg_shift {k : Nat} {s : St} (m : Msg) (dev : Option Nat)
    (hc : ClockOk s.flavor k s.now) (ho : s.ShiftOk k) :
    sendMsg (s.shift k) m dev = ((sendMsg s m dev).1.shift k, (sendMsg s m dev).2) ∧
    (sendMsg s m dev).1.ShiftOk k ∧
    (sendMsg s m dev).1.now = s.now ∧ (sendMsg s m dev).1.flavor = s.flavor ∧
    (sendMsg s m dev).1.devs.length = s.devs.length := by
  obtain ⟨eg, og, sg⟩ := gate_shift m dev hc ho
  unfold sendMsg
  rw [eg]
  cases hgt : gate s m dev with
  | refuse s' =>
    rw [hgt] at og sg
    exact ⟨rfl, og, sg.1, sg.2.1, sg.2.2⟩
  | pass s1 d1 canId =>
    rw [hgt] at og sg
    obtain ⟨ep, op, sp⟩ := produce_shift (dev.getD 0) canId m og.1 og.2
    simp only [Gate.shift]
    rw [ep]
    exact ⟨rfl, op, sp.1.trans sg.1, sp.2.1.trans sg.2.1, sp.2.2.1.trans sg.2.2⟩

theorem canClaim_shift (k : Nat) (s : St) : (s.shift k).canClaim = s.canClaim := rfl

def Dev.setTimer (d : Dev) (t : Sched) : Dev := { d with claimTimer := t }
def St.withDev (s : St) (idx : Nat) (d : Dev) : St := { s with devs := updDev s.devs idx d }

theorem Dev.setTimer_shift (f : Flavor) (k : Nat) (d : Dev) (t : Sched) :
    (d.setTimer t).shift f k = (d.shift f k).setTimer (t.shift f k) := rfl

theorem St.withDev_shift (k : Nat) (s : St) (idx : Nat) (d : Dev) :
    (s.withDev idx d).shift k = (s.shift k).withDev idx (d.shift s.flavor k) := by
  show ({ s.shift k with devs := (updDev s.devs idx d).map (Dev.shift s.flavor k) } : St) = _
  rw [← map_updDev]; rfl

theorem St.withDev_ok {k : Nat} {s : St} {idx : Nat} {d : Dev} (ho : s.ShiftOk k)
    (hd : d.claimTimer.ShiftOk s.flavor k) : (s.withDev idx d).ShiftOk k :=
  ⟨ho.1, shiftOk_updDev ho.2 hd⟩

theorem St.withDev_len (s : St) (idx : Nat) (d : Dev) : (s.withDev idx d).devs.length = s.devs.length := by
  simp [St.withDev, updDev]

theorem startAddressClaim_eq (s : St) (idx : Nat) :
    startAddressClaim s idx =
      if ¬ s.canClaim then s else
      match s.devs[idx]? with
      | none => s
      | some d =>
        match (sendMsg (s.withDev idx (d.setTimer (Sched.disabled s.flavor)))
                (claimMsg (d.setTimer (Sched.disabled s.flavor))) (some idx)).1.devs[idx]? with
        | none => (sendMsg (s.withDev idx (d.setTimer (Sched.disabled s.flavor)))
                (claimMsg (d.setTimer (Sched.disabled s.flavor))) (some idx)).1
        | some d2 => (sendMsg (s.withDev idx (d.setTimer (Sched.disabled s.flavor)))
                (claimMsg (d.setTimer (Sched.disabled s.flavor))) (some idx)).1.withDev idx
                  (d2.setTimer (Sched.fromNow s.flavor s.now 250)) := rfl

theorem startAddressClaim_shift {k : Nat} {s : St} (idx : Nat)
    (hc : ClockOk s.flavor k s.now) (ho : s.ShiftOk k) :
    startAddressClaim (s.shift k) idx = (startAddressClaim s idx).shift k ∧
    (startAddressClaim s idx).ShiftOk k ∧
    (startAddressClaim s idx).now = s.now ∧ (startAddressClaim s idx).flavor = s.flavor ∧
    (startAddressClaim s idx).devs.length = s.devs.length := by
  rw [startAddressClaim_eq, startAddressClaim_eq, canClaim_shift]
  by_cases h0 : ¬ s.canClaim = true
  · simp only [if_pos h0]; exact ⟨by triv, ho, by triv, by triv, by triv⟩
  · simp only [if_neg h0]
    have eg : (s.shift k).devs[idx]? = (s.devs[idx]?).map (Dev.shift s.flavor k) := by simp [St.shift]
    rw [eg]
    cases hg : s.devs[idx]? with
    | none => exact ⟨by triv, ho, rfl, rfl, rfl⟩
    | some d =>
      simp only [Option.map_some]
      have e5 : (s.shift k).flavor = s.flavor := rfl
      have e6 : (s.shift k).now = s.now + k := rfl
      have ed : (d.shift s.flavor k).setTimer (Sched.disabled s.flavor) =
                (d.setTimer (Sched.disabled s.flavor)).shift s.flavor k := by
        rw [Dev.setTimer_shift, Sched.shift_disabled]
      have ec : claimMsg ((d.setTimer (Sched.disabled s.flavor)).shift s.flavor k) =
                claimMsg (d.setTimer (Sched.disabled s.flavor)) := rfl
      rw [e5, e6, ed, ec, ← St.withDev_shift]
      have hs1 : (s.withDev idx (d.setTimer (Sched.disabled s.flavor))).ShiftOk k :=
        St.withDev_ok ho (Sched.shiftOk_disabled _ _)
      obtain ⟨es, os, n1, f1, l1⟩ := sendMsg_shift (claimMsg (d.setTimer (Sched.disabled s.flavor))) (some idx)
        (s := s.withDev idx (d.setTimer (Sched.disabled s.flavor))) hc hs1
      rw [es]
      generalize (sendMsg (s.withDev idx (d.setTimer (Sched.disabled s.flavor)))
          (claimMsg (d.setTimer (Sched.disabled s.flavor))) (some idx)).1 = s2 at *
      simp only
      rw [St.withDev_len] at l1
      have n1' : s2.now = s.now := n1
      have f1' : s2.flavor = s.flavor := f1
      have eg2 : (s2.shift k).devs[idx]? = (s2.devs[idx]?).map (Dev.shift s2.flavor k) := by simp [St.shift]
      rw [eg2]
      cases hg2 : s2.devs[idx]? with
      | none => exact ⟨by triv, os, n1', f1', l1⟩
      | some d2 =>
        simp only [Option.map_some]
        obtain ⟨ef, of⟩ := Sched.fromNow_shift (hc.2.1 : ArmOk s.flavor k s.now 250)
        rw [ef, f1', ← Dev.setTimer_shift, ← f1', ← St.withDev_shift]
        refine ⟨rfl, St.withDev_ok os (by rw [f1']; exact of), n1', rfl, ?_⟩
        rw [St.withDev_len]; exact l1

/-- what the shift lemmas say about a state transformer `g` at state `s` -/
def Commutes (k : Nat) (g : St → St) (s : St) : Prop :=
  g (s.shift k) = (g s).shift k ∧ (g s).ShiftOk k ∧ (g s).now = s.now ∧ (g s).flavor = s.flavor ∧
  (g s).devs.length = s.devs.length

theorem foldl_startAddressClaim_shift {k : Nat} (l : List Nat) :
    ∀ {s : St}, ClockOk s.flavor k s.now → s.ShiftOk k → Commutes k (fun s => l.foldl startAddressClaim s) s := by
  induction l with
  | nil => intro s _ ho; exact ⟨rfl, ho, rfl, rfl, rfl⟩
  | cons i t ih =>
    intro s hc ho
    obtain ⟨e1, o1, n1, f1, l1⟩ := startAddressClaim_shift i hc ho
    have hc1 : ClockOk (startAddressClaim s i).flavor k (startAddressClaim s i).now := by rw [n1, f1]; exact hc
    have ih' := ih hc1 o1
    unfold Commutes at ih'
    dsimp only at ih'
    obtain ⟨e2, o2, n2, f2, l2⟩ := ih'
    unfold Commutes at *
    dsimp only at *
    simp only [List.foldl_cons]
    refine ⟨by rw [e1, e2], o2, n2.trans n1, f2.trans f1, l2.trans l1⟩

theorem startAddressClaimAll_shift {k : Nat} {s : St} (hc : ClockOk s.flavor k s.now) (ho : s.ShiftOk k) :
    Commutes k startAddressClaimAll s := by
  unfold startAddressClaimAll
  have el : (s.shift k).devs.length = s.devs.length := by simp [St.shift]
  have := foldl_startAddressClaim_shift (List.range s.devs.length) hc ho
  unfold Commutes at *
  dsimp only at *
  rw [el]; exact this

theorem poll_shift {k : Nat} {s : St} (hc : ClockOk s.flavor k s.now) (ho : s.ShiftOk k) :
    Commutes k poll s := by
  have hmap : (s.devs.map (Dev.shift s.flavor k)).map (fun d => (isAddressClaimStarted s.flavor (s.now + k) d).1) =
      (s.devs.map (fun d => (isAddressClaimStarted s.flavor s.now d).1)).map (Dev.shift s.flavor k) := by
    rw [List.map_map, List.map_map]
    apply List.map_congr_left
    intro d hd
    simp only [Function.comp]
    rw [(isAddressClaimStarted_shift hc (ho.2 d hd)).1]
  have hok : ∀ d ∈ s.devs.map (fun d => (isAddressClaimStarted s.flavor s.now d).1), d.claimTimer.ShiftOk s.flavor k := by
    intro d hd
    obtain ⟨d0, hd0, rfl⟩ := List.mem_map.mp hd
    exact (isAddressClaimStarted_shift hc (ho.2 d0 hd0)).2
  unfold Commutes poll
  have e1 : (s.shift k).ring = s.ring := rfl
  have e2 : (s.shift k).drv = s.drv := rfl
  have e3 : (s.shift k).claimMode = s.claimMode := rfl
  have e4 : (s.shift k).devs = s.devs.map (Dev.shift s.flavor k) := rfl
  have e5 : (s.shift k).flavor = s.flavor := rfl
  have e6 : (s.shift k).now = s.now + k := rfl
  simp only [e1, e2, e3, e4, e5, e6]
  by_cases hm : s.claimMode = true
  · simp only [if_pos hm, hmap]
    exact ⟨by triv, ⟨ho.1, hok⟩, by triv, by triv, by simp⟩
  · simp only [if_neg hm]
    exact ⟨by triv, ho, by triv, by triv, by triv⟩

def openPre (s : St) : St := if s.openState = 0 then { s with openState := 1 } else s

def openRest (s : St) : St :=
  if s.openState = 1 then
    if ¬ s.openSched.isTime s.flavor s.now then s
    else if s.canOpenOk then { s with openState := 2, openSched := Sched.fromNow s.flavor s.now 200 }
    else { s with openSched := Sched.fromNow s.flavor s.now 1000 }
  else if s.openState = 2 ∧ s.openSched.isTime s.flavor s.now then
    startAddressClaimAll { s with openState := 3 }
  else s

theorem openStep_eq (s : St) : openStep s = openRest (openPre s) := rfl

theorem openPre_shift {k : Nat} {s : St} (ho : s.ShiftOk k) : Commutes k openPre s := by
  unfold Commutes openPre
  have e : (s.shift k).openState = s.openState := rfl
  rw [e]
  by_cases h : s.openState = 0
  · simp only [if_pos h]; exact ⟨by triv, ho, by triv, by triv, by triv⟩
  · simp only [if_neg h]; exact ⟨by triv, ho, by triv, by triv, by triv⟩

theorem openRest_shift {k : Nat} {s : St} (hc : ClockOk s.flavor k s.now) (ho : s.ShiftOk k) :
    Commutes k openRest s := by
  unfold Commutes openRest
  have e1 : (s.shift k).openState = s.openState := rfl
  have e2 : (s.shift k).openSched = s.openSched.shift s.flavor k := rfl
  have e3 : (s.shift k).flavor = s.flavor := rfl
  have e4 : (s.shift k).now = s.now + k := rfl
  have e5 : (s.shift k).canOpenOk = s.canOpenOk := rfl
  simp only [e1, e2, e3, e4, e5, Sched.isTime_shift ho.1 (clock64 hc)]
  obtain ⟨ef2, of2⟩ := Sched.fromNow_shift (hc.1 : ArmOk s.flavor k s.now 200)
  obtain ⟨ef1, of1⟩ := Sched.fromNow_shift (hc.2.2 : ArmOk s.flavor k s.now 1000)
  by_cases h1 : s.openState = 1
  · simp only [if_pos h1]
    by_cases h2 : ¬ s.openSched.isTime s.flavor s.now = true
    · simp only [if_pos h2]; exact ⟨by triv, ho, by triv, by triv, by triv⟩
    · simp only [if_neg h2]
      by_cases h3 : s.canOpenOk = true
      · simp only [if_pos h3, ef2]; exact ⟨by triv, ⟨of2, ho.2⟩, by triv, by triv, by triv⟩
      · simp only [if_neg h3, ef1]; exact ⟨by triv, ⟨of1, ho.2⟩, by triv, by triv, by triv⟩
  · simp only [if_neg h1]
    by_cases h2 : s.openState = 2 ∧ s.openSched.isTime s.flavor s.now = true
    · simp only [if_pos h2]
      have := startAddressClaimAll_shift (s := { s with openState := 3 }) hc ho
      exact this
    · simp only [if_neg h2]; exact ⟨by triv, ho, by triv, by triv, by triv⟩

theorem Commutes.clock {k : Nat} {g : St → St} {s : St} (h : Commutes k g s) (hc : ClockOk s.flavor k s.now) :
    ClockOk (g s).flavor k (g s).now := by rw [h.2.2.1, h.2.2.2.1]; exact hc

theorem Commutes.comp {k : Nat} {g1 g2 : St → St} {s : St} (hc : ClockOk s.flavor k s.now) (h1 : Commutes k g1 s)
    (h2 : ClockOk (g1 s).flavor k (g1 s).now → (g1 s).ShiftOk k → Commutes k g2 (g1 s)) :
    Commutes k (fun s => g2 (g1 s)) s := by
  obtain ⟨e2, o2, n2, f2, l2⟩ := h2 (h1.clock hc) h1.2.1
  obtain ⟨e1, o1, n1, f1, l1⟩ := h1
  unfold Commutes
  dsimp only
  exact ⟨by rw [e1, e2], o2, n2.trans n1, f2.trans f1, l2.trans l1⟩

theorem openStep_shift {k : Nat} {s : St} (hc : ClockOk s.flavor k s.now) (ho : s.ShiftOk k) :
    Commutes k openStep s := by
  have : openStep = fun s => openRest (openPre s) := funext openStep_eq
  rw [this]
  exact Commutes.comp hc (openPre_shift ho) (fun hc' ho' => openRest_shift hc' ho')

/-- `pollTop` -/
theorem pollTop_shift {k : Nat} {s : St} (hc : ClockOk s.flavor k s.now) (ho : s.ShiftOk k) :
    Commutes k pollTop s := by
  obtain ⟨e1, o1, n1, f1, l1⟩ := openStep_shift hc ho
  have hp := poll_shift hc ho
  have hp' := poll_shift (s := openStep s) (by rw [n1, f1]; exact hc) o1
  unfold Commutes pollTop at *
  have e0 : (s.shift k).openState = s.openState := rfl
  have e0' : ((openStep s).shift k).openState = (openStep s).openState := rfl
  rw [e0, e1]
  by_cases h : s.openState = 3
  · simp only [if_pos h]; exact hp
  · simp only [if_neg h, e0']
    by_cases h2 : (openStep s).openState = 3
    · simp only [if_pos h2]
      exact ⟨hp'.1, hp'.2.1, hp'.2.2.1.trans n1, hp'.2.2.2.1.trans f1, hp'.2.2.2.2.trans l1⟩
    · simp only [if_neg h2]; exact ⟨by triv, o1, n1, f1, l1⟩

/-- `sendMsgTop` -/
theorem sendMsgTop_shift {k : Nat} {s : St} (m : Msg) (dev : Option Nat)
    (hc : ClockOk s.flavor k s.now) (ho : s.ShiftOk k) :
    sendMsgTop (s.shift k) m dev = ((sendMsgTop s m dev).1.shift k, (sendMsgTop s m dev).2) ∧
    (sendMsgTop s m dev).1.ShiftOk k ∧
    (sendMsgTop s m dev).1.now = s.now ∧ (sendMsgTop s m dev).1.flavor = s.flavor ∧
    (sendMsgTop s m dev).1.devs.length = s.devs.length := by
  obtain ⟨e1, o1, n1, f1, l1⟩ := openStep_shift hc ho
  have hs := sendMsg_shift m dev hc ho
  have hs' := sendMsg_shift (s := openStep s) m dev (by rw [n1, f1]; exact hc) o1
  unfold sendMsgTop
  have e0 : (s.shift k).openState = s.openState := rfl
  have e0' : ((openStep s).shift k).openState = (openStep s).openState := rfl
  rw [e0, e1]
  by_cases h : s.openState = 3
  · simp only [if_pos h]; exact hs
  · simp only [if_neg h, e0']
    by_cases h2 : (openStep s).openState = 3
    · simp only [if_pos h2]
      exact ⟨hs'.1, hs'.2.1, hs'.2.2.1.trans n1, hs'.2.2.2.1.trans f1, hs'.2.2.2.2.trans l1⟩
    · simp only [if_neg h2]; exact ⟨by triv, o1, n1, f1, l1⟩
/-! ## frame facts (unconditional): clock, flavour, device count, open state are not touched by sending -/

theorem St.Same.trans {a b c : St} (h1 : St.Same a b) (h2 : St.Same b c) : St.Same a c :=
  ⟨h2.1.trans h1.1, h2.2.1.trans h1.2.1, h2.2.2.1.trans h1.2.2.1, h2.2.2.2.1.trans h1.2.2.2.1,
   h2.2.2.2.2.trans h1.2.2.2.2⟩

def Gate.st : Gate → St
  | .refuse s => s
  | .pass s _ _ => s

theorem St.withDev_same (s : St) (idx : Nat) (d : Dev) : St.Same s (s.withDev idx d) :=
  ⟨rfl, rfl, St.withDev_len s idx d, rfl, rfl⟩

theorem gate_same (s : St) (m : Msg) (dev : Option Nat) : St.Same s (gate s m dev).st := by
  unfold gate
  by_cases h0 : dev.getD 0 ≥ s.devs.length
  · simp only [if_pos h0]; exact St.Same.rfl' s
  · simp only [if_neg h0]
    cases hg : s.devs[dev.getD 0]? with
    | none => exact St.Same.rfl' s
    | some d0 =>
      simp only
      by_cases h1 : srcOf dev d0 m > Gen.maxCanBusAddress ∧ m.pgn ≠ 60928
      · simp only [if_pos h1]; exact St.Same.rfl' s
      · simp only [if_neg h1]
        by_cases h2 : n2kToCanId m.prio m.pgn (srcOf dev d0 m) (if m.pgn &&& 0xff ≠ 0 then 0xff else m.dst) = 0
        · simp only [if_pos h2]; exact St.Same.rfl' s
        · simp only [if_neg h2]
          by_cases h3 : s.listenOnly = true
          · simp only [if_pos h3]; exact St.Same.rfl' s
          · simp only [if_neg h3]
            by_cases h4 : m.pgn = 0
            · simp only [if_pos h4]; exact St.Same.rfl' s
            · simp only [if_neg h4]
              by_cases h5 : (isAddressClaimStarted s.flavor s.now d0).2 = true ∧ m.pgn ≠ 60928
              · simp only [if_pos h5]; exact St.withDev_same s _ _
              · simp only [if_neg h5]; exact St.withDev_same s _ _

theorem produce_same (s1 : St) (idx : Nat) (d1 : Dev) (canId : Nat) (m : Msg) :
    St.Same s1 (produce s1 idx d1 canId m).1 := by
  unfold produce
  by_cases h1 : m.len ≤ 8 ∧ ¬(m.prio < 0x80 ∧ isFastPacketPGN s1.lists m.pgn = true)
  · simp only [if_pos h1]; exact St.Same.rfl' _
  · simp only [if_neg h1]
    by_cases h2 : m.tp = true
    · simp only [if_pos h2]; exact St.Same.rfl' _
    · simp only [if_neg h2]
      exact ⟨rfl, rfl, by simp [updDev], rfl, rfl⟩

theorem sendMsg_same (s : St) (m : Msg) (dev : Option Nat) : St.Same s (sendMsg s m dev).1 := by
  have hg := gate_same s m dev
  unfold sendMsg
  cases hgt : gate s m dev with
  | refuse s' => rw [hgt] at hg; exact hg
  | pass s1 d1 canId => rw [hgt] at hg; exact hg.trans (produce_same s1 _ d1 canId m)

theorem startAddressClaim_same (s : St) (idx : Nat) : St.Same s (startAddressClaim s idx) := by
  rw [startAddressClaim_eq]
  by_cases h0 : ¬ s.canClaim = true
  · simp only [if_pos h0]; exact St.Same.rfl' s
  · simp only [if_neg h0]
    cases hg : s.devs[idx]? with
    | none => exact St.Same.rfl' s
    | some d =>
      simp only
      have h1 := (St.withDev_same s idx (d.setTimer (Sched.disabled s.flavor))).trans
        (sendMsg_same (s.withDev idx (d.setTimer (Sched.disabled s.flavor)))
          (claimMsg (d.setTimer (Sched.disabled s.flavor))) (some idx))
      generalize (sendMsg (s.withDev idx (d.setTimer (Sched.disabled s.flavor)))
          (claimMsg (d.setTimer (Sched.disabled s.flavor))) (some idx)).1 = s2 at *
      cases hg2 : s2.devs[idx]? with
      | none => exact h1
      | some d2 => exact h1.trans (St.withDev_same s2 idx _)

theorem foldl_startAddressClaim_same (l : List Nat) : ∀ s : St, St.Same s (l.foldl startAddressClaim s) := by
  induction l with
  | nil => intro s; exact St.Same.rfl' s
  | cons i t ih => intro s; exact (startAddressClaim_same s i).trans (ih _)

/-- `Open()`: clock, flavour, device count untouched; an open node is left alone -/
theorem openStep_frame (s : St) :
    (openStep s).now = s.now ∧ (openStep s).flavor = s.flavor ∧ (openStep s).devs.length = s.devs.length ∧
    (s.openState = 3 → openStep s = s) := by
  rw [openStep_eq]
  unfold openPre openRest
  by_cases h0 : s.openState = 0
  · simp only [if_pos h0, ↓reduceIte]
    refine ⟨?_, ?_, ?_, fun h => by omega⟩ <;>
    · split
      · rfl
      · split <;> rfl
  · simp only [if_neg h0]
    by_cases h1 : s.openState = 1
    · simp only [if_pos h1]
      refine ⟨?_, ?_, ?_, fun h => by omega⟩ <;>
      · split
        · rfl
        · split <;> rfl
    · simp only [if_neg h1]
      by_cases h2 : s.openState = 2 ∧ s.openSched.isTime s.flavor s.now = true
      · simp only [if_pos h2]
        have := foldl_startAddressClaim_same (List.range s.devs.length) { s with openState := 3 }
        unfold startAddressClaimAll
        exact ⟨this.1, this.2.1, this.2.2.1, fun h => by omega⟩
      · simp only [if_neg h2]; exact ⟨by triv, by triv, by triv, fun _ => by triv⟩

/-- the state `os_Open` is entered only from `os_WaitOpen`, and only through `StartAddressClaim()` -/
theorem openStep_open_same (s : St) (h : (openStep s).openState = 3) (_h0 : s.openState ≠ 3) :
    (openStep s).openSched = s.openSched := by
  rw [openStep_eq] at *
  unfold openPre openRest at *
  by_cases ha : s.openState = 0
  · simp only [if_pos ha, ↓reduceIte] at h ⊢
    split at h
    · simp at h
    · split at h <;> simp at h
  · simp only [if_neg ha] at h ⊢
    by_cases h1 : s.openState = 1
    · simp only [if_pos h1] at h ⊢
      split at h
      · omega
      · split at h
        · simp at h
        · simp at h; omega
    · simp only [if_neg h1] at h ⊢
      by_cases h2 : s.openState = 2 ∧ s.openSched.isTime s.flavor s.now = true
      · simp only [if_pos h2]
        have := foldl_startAddressClaim_same (List.range s.devs.length) { s with openState := 3 }
        unfold startAddressClaimAll
        exact this.2.2.2.2
      · simp only [if_neg h2]

end N2k.Send
