#!/usr/bin/env python3
"""mutant_eval.py <diff> <Cxx> [<Cxx>...] [--tier quick|thorough]
Apply a source diff to a scratch copy of /repo (never to /repo itself), run the given checks against it and print
their VIOLATION / summary lines. Used to measure which checks catch which seeded change."""
import os, sys, subprocess, tempfile, shutil
VERIF = os.path.dirname(os.path.dirname(os.path.abspath(__file__)))
args = sys.argv[1:]
tier = 'quick'
if '--tier' in args:
    i = args.index('--tier'); tier = args[i + 1]; del args[i:i + 2]
diff, props = os.path.abspath(args[0]), args[1:]
tmp = tempfile.mkdtemp(prefix='mt_')
try:
    shutil.copytree('/repo/src', os.path.join(tmp, 'src'))
    r = subprocess.run(['patch', '-p1', '-s', '-i', diff], cwd=tmp, stdout=subprocess.PIPE, stderr=subprocess.STDOUT, text=True)
    if r.returncode != 0:
        print('PATCH FAILED', r.stdout); sys.exit(2)
    for p in props:
        env = dict(os.environ, N2K_REPO=tmp)
        r = subprocess.run([sys.executable, os.path.join(VERIF, 'tools', 'check.py'), p, '--tier', tier], cwd=VERIF, env=env,
                           stdout=subprocess.PIPE, stderr=subprocess.STDOUT, text=True)
        lines = [l for l in r.stdout.split('\n') if l.startswith('VIOLATION') or l.startswith(p + ' ') or l.startswith('KNOWN')]
        print('%s exit=%d' % (p, r.returncode)); print('\n'.join('   ' + l for l in lines[:8]))
finally:
    shutil.rmtree(tmp, ignore_errors=True)
    # restore generated files to the real tree's content
    subprocess.run([sys.executable, '-c', 'import sys; sys.path.insert(0, "%s/tools"); from translators import pgn_tables; pgn_tables.run("/repo/src", "%s/lean/N2k/Gen")' % (VERIF, VERIF)])
