import N2k.Lemmas.TextUcs
/-! `AddBuf` / `GetBuf` and the two-argument `AddVarStr` of `N2k.Model.Text` (C16). Core Lean only. -/
namespace N2k.Text

theorem wrList_eq (l : List Nat) (i : Nat) (d : D) (h : i + l.length ≤ MaxDataLen) :
    wrList l i d = .ok (blit d i l) := by
  induction l generalizing i d with
  | nil => simp [wrList]
  | cons b t ih =>
    have hw : i < MaxDataLen := by simp at h; omega
    simp only [wrList, wr_ok hw, bind_ok]
    rw [ih (i + 1) _ (by simp at h; omega), blit_cons]

/-- `AddBuf`, for ANY fill level and ANY array: the array clipped to the free payload is appended -/
theorem addBuf_eq (buf : List Nat) (fill : Nat) (d : D) :
    addBuf ⟨d, fill⟩ buf
      = .ok ⟨blit d fill (buf.take (MaxDataLen - fill)), fill + min buf.length (MaxDataLen - fill)⟩ := by
  by_cases hlt : fill < MaxDataLen
  · have hb : (if fill + buf.length > MaxDataLen then MaxDataLen - fill else buf.length)
        = min buf.length (MaxDataLen - fill) := by split <;> omega
    simp only [addBuf, if_pos hlt, hb]
    generalize hk : min buf.length (MaxDataLen - fill) = k
    have htake : buf.take k = buf.take (MaxDataLen - fill) := by
      rw [← hk, Nat.min_comm, take_min_length]
    by_cases hk0 : k > 0
    · rw [if_pos hk0, wrList_eq _ _ _ (by rw [List.length_take]; omega), htake]; rfl
    · rw [if_neg hk0]
      have hk' : k = 0 := by omega
      have : buf.take (MaxDataLen - fill) = [] := by rw [← htake, hk']; rfl
      rw [this, hk']; simp
  · have h0 : MaxDataLen - fill = 0 := by omega
    simp [addBuf, if_neg hlt, h0]

theorem copyOut_eq (m : Msg) (n k idx j : Nat) (dst : D) (hr : idx + j + k ≤ m.len) (hw : j + k ≤ n) :
    copyOut m n k idx j dst = .ok (blit dst j (slice m.data (idx + j) k)) := by
  induction k generalizing j dst with
  | zero => simp [copyOut, slice]
  | succ k ih =>
    have r1 : rd m (idx + j) = .ok (m.data (idx + j)) := by simp [rd]; omega
    simp only [copyOut, r1, bind_ok, wd_ok (by omega : j < n), slice]
    rw [ih (j + 1) _ (by omega) (by omega), blit_cons]
    rfl

/-- `GetBuf` into a buffer of at least `Length` bytes: exact result, for any payload / index / length -/
theorem getBuf_eq (m : Msg) (n : Nat) (dst : D) (length idx : Nat) (hn : length ≤ n) :
    getBuf m n dst length idx =
      if idx + length ≤ m.len then .ok (true, idx + length, blit dst 0 (slice m.data idx length))
      else .ok (false, m.len, dst) := by
  simp only [getBuf]
  split
  · rename_i hfit
    rw [copyOut_eq m n length idx 0 dst (by omega) (by omega)]; rfl
  · rfl

theorem slice_getD (d : D) (i n k : Nat) (h : k < n) : (slice d i n).getD k 0 = d (i + k) := by
  induction n generalizing i k with
  | zero => omega
  | succ n ih =>
    cases k with
    | zero => simp [slice]
    | succ k =>
      simp only [slice, List.getD_cons_succ]
      rw [ih (i + 1) k (by omega)]
      congr 1; omega

/-- what was added comes back -/
theorem rt_buf (buf : List Nat) (fill n : Nat) (d dst : D) (hfit : fill + buf.length ≤ MaxDataLen)
    (hn : buf.length ≤ n) :
    ∃ m', addBuf ⟨d, fill⟩ buf = .ok m' ∧ m'.len = fill + buf.length ∧
      getBuf m' n dst buf.length fill = .ok (true, fill + buf.length, blit dst 0 buf) := by
  have hmin : min buf.length (MaxDataLen - fill) = buf.length := by omega
  have htake : buf.take (MaxDataLen - fill) = buf := List.take_of_length_le (by omega)
  refine ⟨_, addBuf_eq buf fill d, by simp [hmin], ?_⟩
  rw [getBuf_eq _ _ _ _ _ hn, htake, hmin]
  simp only [Nat.le_refl, if_true, slice_blit0]

/-- two arrays added one after the other come back one after the other (`Index` advances) -/
theorem rt_buf_seq (a b : List Nat) (fill : Nat) (d x y : D)
    (hfit : fill + a.length + b.length ≤ MaxDataLen) :
    ∃ m1 m2, addBuf ⟨d, fill⟩ a = .ok m1 ∧ addBuf m1 b = .ok m2 ∧
      m2.len = fill + a.length + b.length ∧ (∀ j, j < fill → m2.data j = d j) ∧
      getBuf m2 a.length x a.length fill = .ok (true, fill + a.length, blit x 0 a) ∧
      getBuf m2 b.length y b.length (fill + a.length) = .ok (true, fill + a.length + b.length, blit y 0 b) := by
  have ha : min a.length (MaxDataLen - fill) = a.length := by omega
  have hta : a.take (MaxDataLen - fill) = a := List.take_of_length_le (by omega)
  have hb : min b.length (MaxDataLen - (fill + a.length)) = b.length := by omega
  have htb : b.take (MaxDataLen - (fill + a.length)) = b := List.take_of_length_le (by omega)
  have e1 := addBuf_eq a fill d
  rw [ha, hta] at e1
  have e2 := addBuf_eq b (fill + a.length) (blit d fill a)
  rw [hb, htb, blit_append] at e2
  refine ⟨_, _, e1, e2, rfl, fun j hj => blit_lt _ _ _ _ hj, ?_, ?_⟩
  · rw [getBuf_eq _ _ _ _ _ (Nat.le_refl _)]
    have hs : slice (blit d fill (a ++ b)) fill a.length = a := by
      have := slice_blit d fill (a ++ b) 0 a.length (by simp)
      simpa using this
    have hfit' : fill + a.length ≤ fill + a.length + b.length := by omega
    simp only [hfit', if_true, hs]
  · rw [getBuf_eq _ _ _ _ _ (Nat.le_refl _)]
    have hs : slice (blit d fill (a ++ b)) (fill + a.length) b.length = b := by
      have := slice_blit d fill (a ++ b) a.length b.length (by simp)
      simpa using this
    simp only [Nat.le_refl, if_true, hs]

/-! ### `AddVarStr(str)`: text that fits comes back unchanged -/

theorem fitPrefix_all (room : Nat) (cs : List Chr) (h : (cs.flatMap Chr.back).length ≤ room) :
    fitPrefix room cs = cs := by
  induction cs generalizing room with
  | nil => rfl
  | cons c t ih =>
    simp only [List.flatMap_cons, List.length_append] at h
    have hc : c.back.length ≤ room := by omega
    simp only [fitPrefix, if_pos hc]
    rw [ih (room - c.back.length) (by omega)]

end N2k.Text
