import N2k.Lemmas.TextAdd
/-! `AddVarStr` and the UTF-8 → UCS-2/ASCII conversions of `N2k.Model.Text` (C16) never fault: for ANY
source bytes each conversion is a `blit` of a payload-independent list. Core Lean only. -/
namespace N2k.Text

theorem cont_ne_zero {b : Nat} (h : b &&& 0xC0 = 0x80) : b ≠ 0 := by
  intro h0; subst h0; simp at h

theorem seqBytesLoop_ok (k : Nat) (t : List Nat) (n : Nat) :
    ∃ j, j ≤ k ∧ j ≤ t.length ∧ (∀ b ∈ t.take j, b &&& 0xC0 = 0x80) ∧
      seqBytesLoop k (.at t) n = .ok (n + j) := by
  induction k generalizing t n with
  | zero => exact ⟨0, by simp [seqBytesLoop]⟩
  | succ k ih =>
    cases t with
    | nil => exact ⟨0, by simp [seqBytesLoop]⟩
    | cons c t2 =>
      by_cases hc : c &&& 0xC0 = 0x80
      · obtain ⟨j, h1, h2, h3, h4⟩ := ih t2 (n + 1)
        refine ⟨j + 1, by omega, by simp; omega, ?_, ?_⟩
        · intro b hb
          simp only [List.take_succ_cons, List.mem_cons] at hb
          rcases hb with hb | hb
          · subst hb; exact hc
          · exact h3 b hb
        · simp only [seqBytesLoop, Ptr.deref_at, List.headD_cons, bind_ok, if_pos hc]
          rw [Ptr.add_cons t2 0 (cont_ne_zero hc), Ptr.add_zero, h4]
          congr 1; omega
      · exact ⟨0, by simp [seqBytesLoop, hc]⟩

/-- `N2kUTF8SeqBytes` at a non-zero lead byte: stays inside the string -/
theorem utf8SeqBytes_ok (c : Nat) (t : List Nat) (num : Nat) (hc : c ≠ 0) :
    ∃ j, j ≤ num - 1 ∧ j ≤ t.length ∧ (∀ b ∈ t.take j, b &&& 0xC0 = 0x80) ∧
      utf8SeqBytes (.at (c :: t)) num = .ok (1 + j) ∧
      (Ptr.at (c :: t)).add (1 + j) = .at (t.drop j) := by
  obtain ⟨j, h1, h2, h3, h4⟩ := seqBytesLoop_ok (num - 1) t 1
  refine ⟨j, h1, h2, h3, ?_, ?_⟩
  · simp only [utf8SeqBytes]
    rw [Ptr.add_cons t 0 hc, Ptr.add_zero, h4]
  · have : 1 + j = j + 1 := by omega
    rw [this, Ptr.add_cons t j hc]
    exact Ptr.add_at t j h2 (fun b hb => cont_ne_zero (h3 b hb))

theorem add_one_at (c : Nat) (t : List Nat) (hc : c ≠ 0) : (Ptr.at (c :: t)).add 1 = .at t := by
  rw [Ptr.add_cons t 0 hc, Ptr.add_zero]

/-- one conversion step never faults and consumes at least one byte, staying inside the string -/
theorem ucs2Step_ok (c : Nat) (t : List Nat) (hc : c ≠ 0) :
    ∃ used u t', ucs2Step (.at (c :: t)) c = .ok (used, u) ∧
      (Ptr.at (c :: t)).add used = .at t' ∧ t'.length ≤ t.length := by
  unfold ucs2Step
  generalize seqLen c = sl
  match sl with
  | 0 => exact ⟨1, 0x3F, t, rfl, add_one_at c t hc, Nat.le_refl _⟩
  | 1 => exact ⟨1, c, t, rfl, add_one_at c t hc, Nat.le_refl _⟩
  | 2 =>
    obtain ⟨j, h1, h2, h3, h4, h5⟩ := utf8SeqBytes_ok c t 2 hc
    simp only [h4, bind_ok, add_one_at c t hc, Ptr.deref_at]
    by_cases hu : 1 + j = 2
    · exact ⟨1 + j, _, t.drop j, by rw [if_pos hu]; rfl, h5, by simp⟩
    · exact ⟨1 + j, _, t.drop j, by rw [if_neg hu]; rfl, h5, by simp⟩
  | 3 =>
    obtain ⟨j, h1, h2, h3, h4, h5⟩ := utf8SeqBytes_ok c t 3 hc
    simp only [h4, bind_ok, add_one_at c t hc, Ptr.deref_at]
    by_cases hu : 1 + j = 3
    · have hj : j = 2 := by omega
      subst hj
      have h6 : (Ptr.at (c :: t)).add 2 = .at (t.drop 1) := by
        rw [Ptr.add_cons t 1 hc]
        refine Ptr.add_at t 1 (by omega) (fun b hb => cont_ne_zero (h3 b ?_))
        exact List.mem_of_mem_take (List.take_take ▸ (by simpa using hb) : b ∈ (t.take 2).take 1)
      exact ⟨1 + 2, _, t.drop 2, by rw [if_pos hu, h6]; simp only [Ptr.deref_at, bind_ok]; rfl, h5, by simp⟩
    · exact ⟨1 + j, _, t.drop j, by rw [if_neg hu]; rfl, h5, by simp⟩
  | n + 4 =>
    obtain ⟨j, h1, h2, h3, h4, h5⟩ := utf8SeqBytes_ok c t (n + 4) hc
    exact ⟨1 + j, 0x3F, t.drop j, by simp only [h4, bind_ok]; rfl, h5, by simp⟩

theorem asciiStep_ok (c : Nat) (t : List Nat) (hc : c ≠ 0) :
    ∃ used a t', asciiStep (.at (c :: t)) c = .ok (used, a) ∧
      (Ptr.at (c :: t)).add used = .at t' ∧ t'.length ≤ t.length := by
  unfold asciiStep
  generalize seqLen c = sl
  match sl with
  | 0 => exact ⟨1, 0x3F, t, rfl, add_one_at c t hc, Nat.le_refl _⟩
  | 1 => exact ⟨1, c, t, rfl, add_one_at c t hc, Nat.le_refl _⟩
  | n + 2 =>
    obtain ⟨j, h1, h2, h3, h4, h5⟩ := utf8SeqBytes_ok c t (n + 2) hc
    exact ⟨1 + j, 0x3F, t.drop j, by simp only [h4, bind_ok]; rfl, h5, by simp⟩

/-- `N2kUTF8ToUCS2` on ANY bytes: no fault, an even number of bytes within the budget, all written -/
theorem u2uLoop_ok (f : Nat) (rest : List Nat) (bi len bufLen : Nat) (hf : rest.length < f)
    (hb : bi + bufLen ≤ MaxDataLen + len) :
    ∃ L : List Nat, (L = [] ∨ len + L.length ≤ bufLen) ∧ L.length % 2 = 0 ∧
      ∀ d, u2uLoop f (.at rest) bi len bufLen d = .ok (blit d bi L, len + L.length) := by
  induction f generalizing rest bi len with
  | zero => omega
  | succ f ih =>
    cases rest with
    | nil => exact ⟨[], by simp [u2uLoop]⟩
    | cons c t =>
      by_cases hc : c ≠ 0 ∧ len + 2 ≤ bufLen
      · obtain ⟨used, u, t', h1, h2, h3⟩ := ucs2Step_ok c t hc.1
        obtain ⟨L, hL1, hL2, hL3⟩ := ih t' (bi + 2) (len + 2) (by simp at hf; omega) (by omega)
        refine ⟨u % 256 :: (u >>> 8) % 256 :: L, ?_, by simp; omega, ?_⟩
        · right; rcases hL1 with h | h
          · subst h; simp; omega
          · simp; omega
        · intro d
          have hw1 : bi < MaxDataLen := by omega
          have hw2 : bi + 1 < MaxDataLen := by omega
          simp only [u2uLoop, Ptr.deref_at, List.headD_cons, bind_ok, if_pos hc, h1, wr_ok hw1, wr_ok hw2, h2]
          rw [hL3, ← blit_cons, ← blit_cons]
          simp only [List.length_cons, Except.ok.injEq, Prod.mk.injEq]
          exact ⟨trivial, by omega⟩
      · exact ⟨[], by simp [u2uLoop, if_neg hc]⟩

theorem u2aLoop_ok (f : Nat) (rest : List Nat) (bi len bufLen : Nat) (hf : rest.length < f)
    (hb : bi + bufLen ≤ MaxDataLen + len) :
    ∃ L : List Nat, (L = [] ∨ len + L.length ≤ bufLen) ∧
      ∀ d, u2aLoop f (.at rest) bi len bufLen d = .ok (blit d bi L, len + L.length) := by
  induction f generalizing rest bi len with
  | zero => omega
  | succ f ih =>
    cases rest with
    | nil => exact ⟨[], by simp [u2aLoop]⟩
    | cons c t =>
      by_cases hc : c ≠ 0 ∧ len < bufLen
      · obtain ⟨used, a, t', h1, h2, h3⟩ := asciiStep_ok c t hc.1
        obtain ⟨L, hL1, hL3⟩ := ih t' (bi + 1) (len + 1) (by simp at hf; omega) (by omega)
        refine ⟨a :: L, ?_, ?_⟩
        · right; rcases hL1 with h | h
          · subst h; simp; omega
          · simp; omega
        · intro d
          have hw1 : bi < MaxDataLen := by omega
          simp only [u2aLoop, Ptr.deref_at, List.headD_cons, bind_ok, if_pos hc, h1, wr_ok hw1, h2]
          rw [hL3, ← blit_cons]
          simp only [List.length_cons, Except.ok.injEq, Prod.mk.injEq]
          exact ⟨trivial, by omega⟩
      · exact ⟨[], by simp [u2aLoop, if_neg hc]⟩

/-! ### `N2kRequireUnicode` never faults -/

theorem ruCont_ok (k : Nat) (t : List Nat) :
    (ruCont k (.at t) (t.headD 0) = .ok none) ∨
      ∃ t', ruCont k (.at t) (t.headD 0) = .ok (some (.at t', t'.headD 0)) ∧ t'.length ≤ t.length := by
  induction k generalizing t with
  | zero => exact Or.inr ⟨t, rfl, Nat.le_refl _⟩
  | succ k ih =>
    by_cases hc : t.headD 0 &&& 0xC0 = 0x80
    · cases t with
      | nil => simp at hc
      | cons c t2 =>
        simp only [List.headD_cons] at hc
        have hne : ¬ (c &&& 0xC0 ≠ 0x80) := by simpa using hc
        simp only [ruCont, List.headD_cons, if_neg hne, add_one_at c t2 (cont_ne_zero hc), Ptr.deref_at, bind_ok]
        rcases ih t2 with h | ⟨t', h, hl⟩
        · exact Or.inl h
        · exact Or.inr ⟨t', h, by simp; omega⟩
    · left
      have hne : t.headD 0 &&& 0xC0 ≠ 0x80 := hc
      simp only [ruCont, if_pos hne, pure_eq]

theorem ruLoop_ok (f : Nat) (rest : List Nat) (hf : rest.length < f) :
    ∃ b, ruLoop f (.at rest) (rest.headD 0) = .ok b := by
  induction f generalizing rest with
  | zero => omega
  | succ f ih =>
    cases rest with
    | nil => exact ⟨false, by simp [ruLoop]⟩
    | cons c t =>
      show ∃ b, ruLoop (f + 1) (.at (c :: t)) c = .ok b
      by_cases hc : c = 0
      · exact ⟨false, by simp [ruLoop, hc]⟩
      · by_cases hs : seqLen c = 0
        · exact ⟨false, by simp [ruLoop, hc, hs]⟩
        · simp only [ruLoop, if_neg hc, if_neg hs, add_one_at c t hc, Ptr.deref_at, bind_ok]
          rcases ruCont_ok (seqLen c - 1) t with h | ⟨t', h, hl⟩
          · exact ⟨false, by rw [h]; rfl⟩
          · rw [h]
            simp only [bind_ok]
            split
            · exact ⟨true, rfl⟩
            · exact ih t' (by simp at hf; omega)

theorem requireUnicode_ok (s : List Nat) : ∃ b, requireUnicode (.at s) = .ok b := by
  simp only [requireUnicode, Ptr.deref_at, bind_ok]
  exact ruLoop_ok _ s (by simp [Ptr.fuel])

end N2k.Text

namespace N2k.Text

theorem upd_blit0 (d : D) (i : Nat) (l : List Nat) (v : Nat) (h : 0 < l.length) :
    upd (blit d i l) i v = blit d i (l.set 0 v) := by
  have := upd_blit d i l 0 v h
  simpa using this

/-- what `AddVarStr` appends when `free` payload bytes are left (for any source bytes `s`) -/
def VarShape (s : List Nat) (maxLen : Nat) (uni chars : Bool) (free : Nat) (L : List Nat) : Prop :=
  (free = 0 ∧ L = []) ∨ (free = 1 ∧ L = [1]) ∨
  (2 ≤ free ∧ ∃ type body, L = (body.length + 2) :: type :: body ∧ body.length + 2 ≤ free ∧
    (type = 0 ↔ (uni = true ∧ requireUnicode (.at s) = .ok true ∧ 2 < free)) ∧ (type = 0 ∨ type = 1) ∧
    (type = 0 → body.length % 2 = 0 ∧ body.length ≤ (if chars then maxLen * 2 else maxLen)) ∧
    (type = 1 → body.length ≤ maxLen) ∧
    (requireUnicode (.at s) = .ok false → body = s.take (min (min (nz s) maxLen) (free - 2))))

theorem var_data (d : D) (fill : Nat) (body : List Nat) (type : Nat)
    (h : fill + 2 + body.length ≤ MaxDataLen) :
    upd (upd (blit (upd (upd d fill 2) (fill + 1) 1) (fill + 1 + 1) body) fill ((body.length + 2) % 256))
        (fill + 1) type
      = blit d fill ((body.length + 2) :: type :: body) := by
  have hm : (body.length + 2) % 256 = body.length + 2 := by
    have : MaxDataLen = 223 := rfl
    omega
  have e1 : blit (upd (upd d fill 2) (fill + 1) 1) (fill + 1 + 1) body = blit d fill (2 :: 1 :: body) := by
    rw [← blit_cons, ← blit_cons]
  rw [e1, hm, upd_blit0 _ _ _ _ (by simp), upd_blit _ _ _ 1 _ (by simp)]
  simp only [List.set_cons_zero, List.set_cons_succ]

theorem addVarStr_spec (s : List Nat) (fill maxLen : Nat) (uni chars : Bool) (hfill : fill ≤ MaxDataLen) :
    ∃ L : List Nat, L.length ≤ MaxDataLen - fill ∧ VarShape s maxLen uni chars (MaxDataLen - fill) L ∧
      ∀ d, addVarStr ⟨d, fill⟩ (.at s) maxLen uni chars = .ok ⟨blit d fill L, fill + L.length⟩ := by
  have hM : MaxDataLen = 223 := rfl
  by_cases hf0 : fill = MaxDataLen
  · -- no room at all
    refine ⟨[], by simp, Or.inl ⟨by omega, rfl⟩, fun d => ?_⟩
    have : ¬ fill < MaxDataLen := by omega
    simp [addVarStr, this]
  have hlt : fill < MaxDataLen := by omega
  by_cases hf1 : MaxDataLen - fill = 1
  · refine ⟨[1], by simp; omega, Or.inr (Or.inl ⟨hf1, rfl⟩), fun d => ?_⟩
    simp only [addVarStr, if_pos hlt, hf1]
    simp [addByte, wr_ok hlt, ← blit_cons]
  by_cases hf2 : MaxDataLen - fill = 2
  · refine ⟨[2, 1], by simp; omega, Or.inr (Or.inr ⟨by omega, 1, [], by simp, by simp; omega, ?_, by simp, by simp, by simp, ?_⟩), fun d => ?_⟩
    · simp; omega
    · intro _
      have : MaxDataLen - fill - 2 = 0 := by omega
      simp [this]
    · have h1 : fill + 1 < MaxDataLen := by omega
      simp only [addVarStr, if_pos hlt, hf2]
      simp [addByte, wr_ok hlt, wr_ok h1, ← blit_cons]
  have hfree : 2 < MaxDataLen - fill := by omega
  have hn2 : ¬ (MaxDataLen - fill ≤ 2) := by omega
  have hge : MaxDataLen - fill ≥ 2 := by omega
  have h1 : fill + 1 < MaxDataLen := by omega
  obtain ⟨ru, hru⟩ := requireUnicode_ok s
  by_cases hc0 : s.headD 0 = 0
  · -- empty string
    have hnz : nz s = 0 := by
      cases s with
      | nil => rfl
      | cons b t => simp at hc0; subst hc0; exact nz_cons_zero t
    have hru' : ru = false := by
      cases s with
      | nil => simp [requireUnicode, ruLoop, Ptr.fuel] at hru; first | exact hru | exact hru.symm
      | cons b t =>
        simp at hc0; subst hc0
        simp [requireUnicode, ruLoop, Ptr.fuel] at hru; first | exact hru | exact hru.symm
    subst hru'
    refine ⟨[2, 1], by simp; omega, Or.inr (Or.inr ⟨by omega, 1, [], by simp, by simp; omega, ?_, by simp, by simp, by simp, ?_⟩), fun d => ?_⟩
    · simp [hru]
    · intro _; simp [hnz]
    · simp only [addVarStr, if_pos hlt, if_neg hn2, Ptr.deref_at, hc0, bind_ok]
      simp [addByte, wr_ok hlt, wr_ok h1, ← blit_cons, hge]
  -- general case
  have hb : (s.headD 0 == 0) = false := by simpa using hc0
  cases ru with
  | true =>
    cases uni with
    | true =>
      generalize hB : (if MaxDataLen - fill - 2 > (if chars then maxLen * 2 else maxLen)
                    then (if chars then maxLen * 2 else maxLen) else MaxDataLen - fill - 2) = B
      have hBle : B ≤ MaxDataLen - fill - 2 ∧ B ≤ (if chars then maxLen * 2 else maxLen) := by
        subst hB
        generalize (if chars = true then maxLen * 2 else maxLen) = M
        split <;> omega
      obtain ⟨L, hL1, hL2, hL3⟩ := u2uLoop_ok (Ptr.at s).fuel s (fill + 1 + 1) 0 B (by simp [Ptr.fuel]) (by omega)
      have hLlen : L.length ≤ B := by
        rcases hL1 with h | h
        · subst h; simp
        · omega
      refine ⟨(L.length + 2) :: 0 :: L, by simp; omega, Or.inr (Or.inr ⟨by omega, 0, L, rfl, by omega, ?_, by simp, ?_, by simp, ?_⟩), fun d => ?_⟩
      · simp [hru, hfree]
      · intro _; exact ⟨hL2, by omega⟩
      · intro h; rw [hru] at h; cases h
      · simp only [addVarStr, if_pos hlt, if_neg hn2, Ptr.deref_at, bind_ok, pure_eq, hb, addByte, wr_ok hlt,
          wr_ok h1, hru, if_true, utf8ToUCS2, hB, hL3, Nat.zero_add, Bool.false_eq_true, if_false]
        rw [var_data d fill L 0 (by omega)]
        simp only [List.length_cons, Except.ok.injEq, Msg.mk.injEq, true_and]
        omega
    | false =>
      generalize hB : (if MaxDataLen - fill - 2 > maxLen then maxLen else MaxDataLen - fill - 2) = B
      have hBle : B ≤ MaxDataLen - fill - 2 ∧ B ≤ maxLen := by
        subst hB; split <;> omega
      obtain ⟨L, hL1, hL3⟩ := u2aLoop_ok (Ptr.at s).fuel s (fill + 1 + 1) 0 B (by simp [Ptr.fuel]) (by omega)
      have hLlen : L.length ≤ B := by
        rcases hL1 with h | h
        · subst h; simp
        · omega
      refine ⟨(L.length + 2) :: 1 :: L, by simp; omega, Or.inr (Or.inr ⟨by omega, 1, L, rfl, by omega, ?_, by simp, by simp, ?_, ?_⟩), fun d => ?_⟩
      · simp
      · intro _; omega
      · intro h; rw [hru] at h; cases h
      · simp only [addVarStr, if_pos hlt, if_neg hn2, Ptr.deref_at, bind_ok, pure_eq, hb, addByte, wr_ok hlt,
          wr_ok h1, hru, if_true, utf8ToASCII, hB, hL3, Nat.zero_add, Bool.false_eq_true, if_false]
        rw [var_data d fill L 1 (by omega)]
        simp only [List.length_cons, Except.ok.injEq, Msg.mk.injEq, true_and]
        omega
  | false =>
    have hnzl := nz_le s
    generalize hlen : (if MaxDataLen - fill - 2 < (if nz s > maxLen then maxLen else nz s)
        then MaxDataLen - fill - 2 else (if nz s > maxLen then maxLen else nz s)) = len
    have hlen' : len = min (min (nz s) maxLen) (MaxDataLen - fill - 2) := by
      subst hlen; split <;> split <;> omega
    have hsf : strField s len 0xff = s.take len := by
      have : min len (nz s) = len := by omega
      simp [strField, this]
    have hbl : (s.take len).length = len := by simp [List.length_take]; omega
    refine ⟨(len + 2) :: 1 :: s.take len, by simp [hbl]; omega, Or.inr (Or.inr ⟨by omega, 1, s.take len, by rw [hbl], by rw [hbl]; omega, ?_, by simp, by simp, ?_, ?_⟩), fun d => ?_⟩
    · simp [hru]
    · intro _; rw [hbl]; omega
    · intro _; rw [hlen']
    · have e : (s.takeWhile (· ≠ 0)).length = nz s := rfl
      simp only [addVarStr, if_pos hlt, if_neg hn2, Ptr.deref_at, bind_ok, pure_eq, hb, addByte, wr_ok hlt,
        wr_ok h1, hru, strlen, e, hlen, Bool.false_eq_true, if_false,
        setBufStr_eq s len (fill + 1 + 1) _ 0xff (by omega), hsf]
      have := var_data d fill (s.take len) 1 (by rw [hbl]; omega)
      rw [hbl] at this
      rw [this]
      simp only [List.length_cons, hbl, Except.ok.injEq, Msg.mk.injEq, true_and]
      omega

end N2k.Text
