"""C14 - each received message reaches every matching handler exactly once (handler linked list)."""
SPEC = {
    'engine': 'handlers', 'harness': 'handlers.cpp',
    'repo_srcs': ['N2kMsg.cpp', 'N2kStream.cpp', 'N2kMessages.cpp', 'N2kTimer.cpp', 'N2kGroupFunction.cpp',
                  'N2kGroupFunctionDefaultHandlers.cpp', 'NMEA2000.cpp'],
    'lean_modules': ['N2k.Props.C14'], 'props_files': ['N2k/Props/C14.lean'],
    'case_start': ['reset'],
    'trusted_base': ["model N2k/Model/Handlers.lean transcribes tMsgHandler ctor/dtor, AttachMsgHandler, DetachMsgHandler, "
                     "RunMessageHandlers and the RunMessageHandlers call site of ParseMessages by hand over an explicit heap "
                     "(object = PGN, pNMEA2000, pNext; per-bus MsgHandlers head); pointer walks carry fuel and a dead-object "
                     "dereference is a fault, both proved impossible",
                     "the receive path is the C02 model N2k/Model/Rx.lean, imported unchanged and composed in N2k/Model/HandlersRx.lean "
                     "(per frame: Rx.rx, then RunMessageHandlers for the message it completes); the engine rebuilds every injected "
                     "frame byte for byte and the composed model decides completion (single frames, fast packets intact/damaged, "
                     "lone TP.CM/TP.DT, slot use of a BAM); only the completion of a TP payload (C10 receiver) is an input (annotation of the last TP.DT frame)",
                     "CAN driver queue, ParseMessages reading at most 20 frames per call and the ForwardMode bits (one Bool per bit) "
                     "are part of the composed model; the harness's hold/poll/mode/tp ops exercise them on the real code",
                     "C14_what_is_dispatched (no annotation) uses the C10 node model N2k.TP as receive side (raw frames, TP reassembly, "
                     "C10's receiver invariant); that model is tied to the code by C10's correspondence runs, not by this engine"],
    'assumptions': ["handlers are only used while alive and constructed where no live object is (C++ object lifetime rules)",
                    "a handler's PGN is not changed while attached; bus objects outlive their handlers",
                    "HandleMsg / the plain callback do not attach, detach or destroy handlers while a message is dispatched",
                    "single-threaded use"],
}
MANIFEST = {
    'text': "Theorems for EVERY sequence of construct (plain or attaching), attach, detach, destroy and callback set/clear on any "
            "number of handler objects and bus objects, over the pointer structure the C++ uses: no dead object is dereferenced "
            "and every pointer walk terminates; each bus's pNext chain from MsgHandlers is acyclic, contains exactly the live "
            "handlers whose pNMEA2000 is that bus, each once, sorted by PGN (PGN 0 first), detached handlers have pNext = 0; "
            "RunMessageHandlers calls exactly the handlers that an independent history specification (last attach/detach/destroy "
            "per handler) says are attached to that bus with PGN 0 or the message's PGN, each once, and the plain callback once "
            "iff set; END TO END over histories of client operations and received FRAMES (receive model of C02 composed with "
            "the handler list): event by event a call happens exactly when the receive model completes a message, with exactly "
            "that message, to exactly the matching handlers, all-PGN handlers first; TP.CM/TP.DT frames never dispatch "
            "(completion of a TP payload is the only input there); the same exactness WITHOUT any input over raw frame "
            "histories with the C10 node model as receive side (C14_what_is_dispatched), where every dispatched TP payload is a "
            "complete in-order transfer of the frame history (C10 receiver invariant, C14_tp_payload_genuine); a poll hands the <=20 oldest waiting frames to the receive path and "
            "removes no other frame (bursts are delivered by later polls); forwarding options have no influence on handling. Harness "
            "adds bursts of 21..75 waiting frames, TP payloads 9..223 bytes by BAM/RTS, handle-only-known x forwarding options. Correspondence: real tMsgHandler subclasses on two real tNMEA2000 objects (one listen-only, one active "
            "node) fed CAN frames through ParseMessages under ASan, compared call by call (ids in call order) with the model and "
            "with a multiset reference; exhaustive over all op sequences of bounded length on 2-4 handlers with equal/distinct/zero "
            "PGNs and 2 buses, random long histories on 8 handlers with every PGN class of message; multi-frame fast packets, intact "
            "and damaged, with ParseMessages after every frame: dispatches = messages completely received, each carrying the "
            "PGN and source of the completed message.",
    'design_ref': 'DESIGN.md section 4, C14',
    'note': "Trusted: Lean kernel; hand transcription validated only by the differential runs; two compositions: with the C02 receive model (executed by "
            "the engine; TP payload completion is an input, hence _partial) and with the C10 node model (no input, "
            "C14_what_is_dispatched; its handler log `out` is read as appended-to, which is how TP.deliver writes it); the "
            "agreement of the two receive models with each other is not proved, each is tied to the code by its own harness.",
}
