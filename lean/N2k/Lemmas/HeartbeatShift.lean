import N2k.Lemmas.HeartbeatRun
/-!
# Clock-origin shift of the heartbeat machine (C13)

`HSt.shift k h`: the send-path state shifted (`St.shift`), every enabled 64-bit heartbeat deadline and the
synchronisation offset moved by `k`. All operations of `HeartbeatRun.lean` commute with it.
-/
namespace N2k.Heartbeat
open N2k.Time N2k.Send

def SyncSched.shift (k : Nat) (s : SyncSched) : SyncSched :=
  if s.next = disabled64 then s else { s with next := s.next + k }

def HbDev.shift (k : Nat) (b : HbDev) : HbDev := { b with sched := b.sched.shift k }

def HSt.shift (k : Nat) (h : HSt) : HSt :=
  { h with st := h.st.shift k, hb := h.hb.map (HbDev.shift k), syncOffset := h.syncOffset + k }

/-- the shifted deadline stays below the "disabled" value; period and offset are `uint32_t` -/
def SyncSched.ShiftOk (k : Nat) (s : SyncSched) : Prop :=
  (s.next = disabled64 ∨ s.next + k < disabled64) ∧ s.period < M32 ∧ s.offset < M32

def HSt.ShiftOk (k : Nat) (h : HSt) : Prop :=
  h.st.ShiftOk k ∧ (∀ b ∈ h.hb, b.sched.ShiftOk k) ∧ h.syncOffset + k + 2 * M32 < M64

/-- the clock of this step: no 32-bit `FromNow` lands on the sentinel (`ClockOk`), and the shifted 64-bit clock stays
clear of 2^64 -/
def HClockOk (k : Nat) (h : HSt) : Prop :=
  ClockOk h.st.flavor k h.st.now ∧ h.st.now + k + 2 * M32 < M64

theorem SyncSched.shift_fields (k : Nat) (s : SyncSched) :
    (s.shift k).period = s.period ∧ (s.shift k).offset = s.offset := by
  unfold SyncSched.shift; split <;> exact ⟨rfl, rfl⟩

theorem SyncSched.isTime_shift {k now : Nat} {s : SyncSched} (hs : s.ShiftOk k) (hn : now + k < disabled64) :
    (s.shift k).isTime (now + k) = s.isTime now := by
  unfold SyncSched.isTime SyncSched.shift
  by_cases hd : s.next = disabled64
  · rw [if_pos hd, hd]; simp only [decide_eq_decide]; omega
  · rw [if_neg hd]; simp only [decide_eq_decide]; omega

theorem gridNext_shift (base p t k : Nat) : gridNext (base + k) p (t + k) = gridNext base p t + k := by
  unfold gridNext
  have e : t + k - (base + k) = t - base := by omega
  by_cases h : base > t
  · rw [if_pos (by omega), if_pos h]
  · rw [if_neg (by omega), if_neg h, e]; omega

/-- `UpdateNextTime()` ignores the old `NextTime` -/
theorem updateNextTime_of_shift (k so now : Nat) (s : SyncSched) :
    (s.shift k).updateNextTime so now = s.updateNextTime so now := by
  unfold SyncSched.shift
  by_cases hd : s.next = disabled64
  · simp only [if_pos hd]
  · simp only [if_neg hd]; rfl

theorem updateNextTime_shift {k so now : Nat} {s : SyncSched} (hp : s.period < M32) (ho : s.offset < M32)
    (hso : so + k + 2 * M32 < M64) (hn : now + k + 2 * M32 < M64) :
    (s.shift k).updateNextTime (so + k) (now + k) = (s.updateNextTime so now).shift k ∧
    (s.updateNextTime so now).ShiftOk k := by
  rw [updateNextTime_of_shift]
  by_cases hz : s.period = 0
  · rw [updateNextTime_zero hz, updateNextTime_zero hz]
    refine ⟨by simp [SyncSched.shift, SyncSched.disable], Or.inl rfl, hp, ho⟩
  · rw [updateNextTime_enabled hz, updateNextTime_enabled hz]
    have hle := gridNext_le (base := so + s.offset) (p := s.period) (t := now)
    have hlt : gridNext (so + s.offset) s.period now + k < disabled64 := by
      unfold disabled64 M64 M32 at *; omega
    have hne : gridNext (so + s.offset) s.period now ≠ disabled64 := by omega
    have e : so + k + s.offset = so + s.offset + k := by omega
    refine ⟨?_, Or.inr hlt, hp, ho⟩
    unfold SyncSched.shift
    simp only [if_neg hne]
    rw [e, gridNext_shift]

theorem SyncSched.ext' {a b : SyncSched} (h1 : a.next = b.next) (h2 : a.offset = b.offset)
    (h3 : a.period = b.period) : a = b := by
  cases a; cases b; simp_all

/-- `SetPeriodAndOffset` overwrites all three fields -/
theorem setPeriodAndOffset_eq (so now p o : Nat) (s : SyncSched) :
    s.setPeriodAndOffset so now p o = ⟨if p = 0 then disabled64 else gridNext (so + o) p now, o, p⟩ :=
  SyncSched.ext' (setPeriodAndOffset_next so now p o s) (setPeriodAndOffset_fields so now p o s).2
    (setPeriodAndOffset_fields so now p o s).1

theorem setPeriodAndOffset_shift {k so now p o : Nat} {s : SyncSched} (hp : p < M32) (ho : o < M32)
    (hso : so + k + 2 * M32 < M64) (hn : now + k + 2 * M32 < M64) :
    (s.shift k).setPeriodAndOffset (so + k) (now + k) p o = (s.setPeriodAndOffset so now p o).shift k ∧
    (s.setPeriodAndOffset so now p o).ShiftOk k := by
  rw [setPeriodAndOffset_eq, setPeriodAndOffset_eq]
  by_cases hz : p = 0
  · simp only [if_pos hz]
    exact ⟨by simp [SyncSched.shift], Or.inl rfl, by rw [hz] at hp; simpa [hz] using hp, ho⟩
  · simp only [if_neg hz]
    have hle := gridNext_le (base := so + o) (p := p) (t := now)
    have hlt : gridNext (so + o) p now + k < disabled64 := by
      unfold disabled64 M64 M32 at *; omega
    have hne : gridNext (so + o) p now ≠ disabled64 := by omega
    have e : so + k + o = so + o + k := by omega
    refine ⟨?_, Or.inr hlt, hp, ho⟩
    unfold SyncSched.shift
    simp only [if_neg hne]
    rw [e, gridNext_shift]

/-! ## SetHeartbeatIntervalAndOffset -/

theorem clipInterval_lt (e : Nat) (h : e < M32) : clipInterval e < M32 := by
  rcases clipInterval_range e with h0 | ⟨_, h2⟩
  · rw [h0]; unfold M32; omega
  · unfold M32; omega

theorem setOne_shift {k so now iv off : Nat} {b : HbDev} (hb : b.sched.ShiftOk k) (hoff : off < M32)
    (hso : so + k + 2 * M32 < M64) (hn : now + k + 2 * M32 < M64) :
    setOne (so + k) (now + k) iv off (b.shift k) =
      ((setOne so now iv off b).1.shift k, (setOne so now iv off b).2) ∧
    (setOne so now iv off b).1.sched.ShiftOk k := by
  obtain ⟨hnx, hper, hofs⟩ := hb
  have f1 : (b.shift k).sched.period = b.sched.period := (SyncSched.shift_fields k b.sched).1
  have f2 : (b.shift k).sched.offset = b.sched.offset := (SyncSched.shift_fields k b.sched).2
  have f3 : (b.shift k).sched = b.sched.shift k := rfl
  unfold setOne
  simp only [f3, (SyncSched.shift_fields k b.sched).1, (SyncSched.shift_fields k b.sched).2]
  generalize hiv : (if iv = 0xffffffff then b.sched.period else if iv = 0xfffffffe then defaultInterval else iv) = e
  generalize hof : (if off = 0xffffffff then b.sched.offset else off) = o
  have ho : o < M32 := by rw [← hof]; split <;> assumption
  by_cases h0 : e = 0
  · simp only [if_pos h0]
    obtain ⟨e1, ok1⟩ := setPeriodAndOffset_shift (k := k) (so := so) (now := now) (p := 0) (o := o) (s := b.sched)
      (by unfold M32; omega) ho hso hn
    exact ⟨by rw [e1]; rfl, ok1⟩
  · simp only [if_neg h0]
    generalize hcl : (if (if e > maxInterval then maxInterval else e) < 1000 then 1000
        else (if e > maxInterval then maxInterval else e)) = p
    have hp : p < M32 := by
      rw [← hcl]; unfold maxInterval M32
      by_cases h1 : e > 655320
      · simp only [if_pos h1]; rw [if_neg (by omega)]; omega
      · simp only [if_neg h1]; split <;> omega
    by_cases hch : b.sched.period ≠ p ∨ b.sched.offset ≠ o
    · simp only [if_pos hch]
      obtain ⟨e1, ok1⟩ := setPeriodAndOffset_shift (k := k) (so := so) (now := now) (p := p) (o := o) (s := b.sched)
        hp ho hso hn
      exact ⟨by rw [e1]; rfl, ok1⟩
    · simp only [if_neg hch]; exact ⟨by triv, hnx, hper, hofs⟩

theorem HSt.shift_hb_get (k : Nat) (h : HSt) (i : Nat) :
    (h.shift k).hb[i]? = (h.hb[i]?).map (HbDev.shift k) := by simp [HSt.shift]

theorem set_shift {k : Nat} {h : HSt} (iv off : Nat) (dev : Option Nat) (hoff : off < M32)
    (hc : HClockOk k h) (ho : h.ShiftOk k) :
    setHeartbeatIntervalAndOffset (h.shift k) iv off dev = (setHeartbeatIntervalAndOffset h iv off dev).shift k ∧
    (setHeartbeatIntervalAndOffset h iv off dev).ShiftOk k := by
  have hpt : ∀ (i : Nat) (b : HbDev), b ∈ h.hb →
      (if inLoop dev i then setOne (h.syncOffset + k) (h.st.now + k) iv off (b.shift k) else (b.shift k, false)) =
        (((if inLoop dev i then setOne h.syncOffset h.st.now iv off b else (b, false)).1.shift k),
          (if inLoop dev i then setOne h.syncOffset h.st.now iv off b else (b, false)).2) ∧
      (if inLoop dev i then setOne h.syncOffset h.st.now iv off b else (b, false)).1.sched.ShiftOk k := by
    intro i b hb
    by_cases hl : inLoop dev i = true
    · simp only [if_pos hl]; exact setOne_shift (ho.2.1 b hb) hoff ho.2.2 hc.2
    · simp only [if_neg hl]; exact ⟨by triv, ho.2.1 b hb⟩
  unfold setHeartbeatIntervalAndOffset
  by_cases h0 : iv = 0xffffffff ∧ off = 0xffff
  · simp only [if_pos h0]; exact ⟨by triv, ho⟩
  · simp only [if_neg h0]
    have e1 : (h.shift k).hb = h.hb.map (HbDev.shift k) := rfl
    have e2 : (h.shift k).syncOffset = h.syncOffset + k := rfl
    have e3 : (h.shift k).st.now = h.st.now + k := rfl
    have e4 : (h.shift k).infoChanged = h.infoChanged := rfl
    rw [e1, e2, e3, e4]
    -- the mapped list of the shifted run is the shifted mapped list
    have hlist : (h.hb.map (HbDev.shift k)).mapIdx (fun i d =>
          if inLoop dev i then setOne (h.syncOffset + k) (h.st.now + k) iv off d else (d, false)) =
        (h.hb.mapIdx (fun i d => if inLoop dev i then setOne h.syncOffset h.st.now iv off d else (d, false))).map
          (fun p => (p.1.shift k, p.2)) := by
      apply List.ext_getElem?
      intro i
      simp only [List.getElem?_mapIdx, List.getElem?_map]
      cases hb : h.hb[i]? with
      | none => rfl
      | some b =>
        simp only [Option.map_some]
        rw [(hpt i b (List.mem_of_getElem? hb)).1]
    rw [hlist]
    refine ⟨?_, ho.1, ?_, ho.2.2⟩
    · simp only [HSt.shift, List.map_map, List.any_map]
      congr 1
    · intro b' hb'
      simp only [List.mem_map] at hb'
      obtain ⟨p, hp, rfl⟩ := hb'
      obtain ⟨i, hi⟩ := List.mem_iff_getElem?.mp hp
      rw [List.getElem?_mapIdx] at hi
      cases hb : h.hb[i]? with
      | none => rw [hb] at hi; simp at hi
      | some b =>
        rw [hb] at hi
        simp only [Option.map_some, Option.some.injEq] at hi
        rw [← hi]
        exact (hpt i b (List.mem_of_getElem? hb)).2

/-! ## SendHeartbeat -/

theorem sendHeartbeatDev_eq (force : Bool) (h : HSt) (i : Nat) :
    sendHeartbeatDev force h i =
      match h.st.devs[i]?, h.hb[i]? with
      | some d, some b =>
        if (isAddressClaimStarted h.st.flavor h.st.now d).2 then
          ({ h with st := h.st.withDev i (isAddressClaimStarted h.st.flavor h.st.now d).1 }, none)
        else if force || b.sched.isTime h.st.now then
          ({ h with st := (sendMsg (h.st.withDev i (isAddressClaimStarted h.st.flavor h.st.now d).1)
                            (setN2kPGN126993 (b.sched.updateNextTime h.syncOffset h.st.now).period (if force then 0xff else b.seq))
                            (some i)).1,
                    hb := h.hb.set i { sched := b.sched.updateNextTime h.syncOffset h.st.now,
                                       seq := if force then b.seq else nextSeq b.seq } },
           some (setN2kPGN126993 (b.sched.updateNextTime h.syncOffset h.st.now).period (if force then 0xff else b.seq)))
        else ({ h with st := h.st.withDev i (isAddressClaimStarted h.st.flavor h.st.now d).1 }, none)
      | _, _ => (h, none) := rfl

def HbDev.ShiftOk (k : Nat) (b : HbDev) : Prop := b.sched.ShiftOk k

theorem hb_set_shift (k : Nat) (l : List HbDev) (i : Nat) (b : HbDev) :
    (l.map (HbDev.shift k)).set i (b.shift k) = (l.set i b).map (HbDev.shift k) := by
  rw [List.map_set]

theorem hb_set_ok {k : Nat} {l : List HbDev} {i : Nat} {b : HbDev} (hl : ∀ x ∈ l, x.sched.ShiftOk k)
    (hb : b.sched.ShiftOk k) : ∀ x ∈ l.set i b, x.sched.ShiftOk k := by
  intro x hx
  rcases List.mem_or_eq_of_mem_set hx with h | h
  · exact hl x h
  · subst h; exact hb

theorem sendHeartbeatDev_shift {k : Nat} {h : HSt} (force : Bool) (i : Nat) (hc : HClockOk k h) (ho : h.ShiftOk k) :
    sendHeartbeatDev force (h.shift k) i =
      ((sendHeartbeatDev force h i).1.shift k, (sendHeartbeatDev force h i).2) ∧
    (sendHeartbeatDev force h i).1.ShiftOk k := by
  rw [sendHeartbeatDev_eq, sendHeartbeatDev_eq]
  have eg : (h.shift k).st.devs[i]? = (h.st.devs[i]?).map (Dev.shift h.st.flavor k) := by simp [HSt.shift, St.shift]
  rw [eg, HSt.shift_hb_get]
  cases hd : h.st.devs[i]? with
  | none => exact ⟨rfl, ho⟩
  | some d =>
    cases hb : h.hb[i]? with
    | none => exact ⟨rfl, ho⟩
    | some b =>
      simp only [Option.map_some]
      have e1 : (h.shift k).st.flavor = h.st.flavor := rfl
      have e2 : (h.shift k).st.now = h.st.now + k := rfl
      have e3 : (h.shift k).syncOffset = h.syncOffset + k := rfl
      have e4 : (h.shift k).st = h.st.shift k := rfl
      have e5 : (h.shift k).hb = h.hb.map (HbDev.shift k) := rfl
      have hdok := ho.1.2 d (List.mem_of_getElem? hd)
      have hbok := ho.2.1 b (List.mem_of_getElem? hb)
      obtain ⟨ea, eo⟩ := isAddressClaimStarted_shift (now := h.st.now) hc.1 hdok
      have hlt : h.st.now + k < disabled64 := by have := hc.2; unfold disabled64 M64 M32 at *; omega
      obtain ⟨eu, uo⟩ := updateNextTime_shift (k := k) (so := h.syncOffset) (now := h.st.now) (s := b.sched)
        hbok.2.1 hbok.2.2 ho.2.2 hc.2
      have f3 : (b.shift k).sched = b.sched.shift k := rfl
      have f4 : (b.shift k).seq = b.seq := rfl
      rw [e1, e2, e3, e4, e5, ea, f3, f4, SyncSched.isTime_shift hbok hlt, eu, (SyncSched.shift_fields k _).1,
        ← St.withDev_shift]
      have hs1 : (h.st.withDev i (isAddressClaimStarted h.st.flavor h.st.now d).1).ShiftOk k := St.withDev_ok ho.1 eo
      by_cases h1 : (isAddressClaimStarted h.st.flavor h.st.now d).2 = true
      · simp only [if_pos h1]; exact ⟨rfl, hs1, ho.2.1, ho.2.2⟩
      · simp only [if_neg h1]
        by_cases h2 : (force || b.sched.isTime h.st.now) = true
        · simp only [if_pos h2]
          obtain ⟨es, os, _⟩ := sendMsg_shift
            (setN2kPGN126993 (b.sched.updateNextTime h.syncOffset h.st.now).period (if force then 0xff else b.seq)) (some i)
            (s := h.st.withDev i (isAddressClaimStarted h.st.flavor h.st.now d).1) hc.1 hs1
          rw [es]
          refine ⟨?_, os, hb_set_ok ho.2.1 uo, ho.2.2⟩
          have : ({ sched := (b.sched.updateNextTime h.syncOffset h.st.now).shift k,
                    seq := if force then b.seq else nextSeq b.seq } : HbDev) =
              HbDev.shift k { sched := b.sched.updateNextTime h.syncOffset h.st.now,
                              seq := if force then b.seq else nextSeq b.seq } := rfl
          simp only [this, hb_set_shift]
          rfl
        · simp only [if_neg h2]; exact ⟨rfl, hs1, ho.2.1, ho.2.2⟩

theorem HClockOk.of_same {k : Nat} {h h' : HSt} (hc : HClockOk k h) (hs : HSame h h') : HClockOk k h' := by
  unfold HClockOk; rw [hs.1.1, hs.1.2.1]; exact hc

theorem sendHeartbeatLoop_shift {k : Nat} (force : Bool) (n : Nat) :
    ∀ (i : Nat) (h : HSt), HClockOk k h → h.ShiftOk k →
      sendHeartbeatLoop force n i (h.shift k) =
        ((sendHeartbeatLoop force n i h).1.shift k, (sendHeartbeatLoop force n i h).2) ∧
      (sendHeartbeatLoop force n i h).1.ShiftOk k := by
  induction n with
  | zero => intro i h _ ho; exact ⟨rfl, ho⟩
  | succ n ih =>
    intro i h hc ho
    obtain ⟨e1, o1⟩ := sendHeartbeatDev_shift force i hc ho
    have hc1 := hc.of_same (sendHeartbeatDev_spec force h i).1
    obtain ⟨e2, o2⟩ := ih (i + 1) (sendHeartbeatDev force h i).1 hc1 o1
    rw [sendHeartbeatLoop_succ, sendHeartbeatLoop_succ, e1]
    simp only
    rw [e2]
    exact ⟨rfl, o2⟩

theorem sendHeartbeat_shift {k : Nat} {h : HSt} (force : Bool) (hc : HClockOk k h) (ho : h.ShiftOk k) :
    sendHeartbeat force (h.shift k) = ((sendHeartbeat force h).1.shift k, (sendHeartbeat force h).2) ∧
    (sendHeartbeat force h).1.ShiftOk k := by
  unfold sendHeartbeat
  have e1 : (h.shift k).st.claimMode = h.st.claimMode := rfl
  have e2 : (h.shift k).st.devs.length = h.st.devs.length := by simp [HSt.shift, St.shift]
  rw [e1, e2]
  by_cases hm : ¬ h.st.claimMode = true
  · simp only [if_pos hm]; exact ⟨by triv, ho⟩
  · simp only [if_neg hm]; exact sendHeartbeatLoop_shift force _ 0 h hc ho

theorem sendHeartbeatOne_shift {k : Nat} {h : HSt} (i : Nat) (hc : HClockOk k h) (ho : h.ShiftOk k) :
    sendHeartbeatOne (h.shift k) i = ((sendHeartbeatOne h i).1.shift k, (sendHeartbeatOne h i).2) ∧
    (sendHeartbeatOne h i).1.ShiftOk k := by
  unfold sendHeartbeatOne
  have e0 : (h.shift k).st.claimMode = h.st.claimMode := rfl
  rw [e0]
  by_cases hm : ¬ h.st.claimMode = true
  · simp only [if_pos hm]; exact ⟨by triv, ho⟩
  · simp only [if_neg hm]
    have eg : (h.shift k).st.devs[i]? = (h.st.devs[i]?).map (Dev.shift h.st.flavor k) := by simp [HSt.shift, St.shift]
    rw [eg, HSt.shift_hb_get]
    cases hd : h.st.devs[i]? with
    | none => exact ⟨rfl, ho⟩
    | some d =>
      cases hb : h.hb[i]? with
      | none => exact ⟨rfl, ho⟩
      | some b =>
        simp only [Option.map_some]
        have f3 : (b.shift k).sched.period = b.sched.period := (SyncSched.shift_fields k b.sched).1
        have e4 : (h.shift k).st = h.st.shift k := rfl
        obtain ⟨es, os, _⟩ := sendMsg_shift (setN2kPGN126993 b.sched.period 0xff) (some i) (s := h.st) hc.1 ho.1
        rw [f3, e4, es]
        exact ⟨rfl, os, ho.2.1, ho.2.2⟩

theorem openStepH_shift {k : Nat} {h : HSt} (hc : HClockOk k h) (ho : h.ShiftOk k) :
    openStepH (h.shift k) = (openStepH h).shift k ∧ (openStepH h).ShiftOk k ∧
    (openStepH h).st.now = h.st.now ∧ (openStepH h).st.flavor = h.st.flavor := by
  obtain ⟨e1, o1, n1, f1, _⟩ := openStep_shift hc.1 ho.1
  unfold openStepH
  dsimp only
  have e0 : (h.shift k).st = h.st.shift k := rfl
  have e0' : (h.st.shift k).openState = h.st.openState := rfl
  have e0'' : ((openStep h.st).shift k).openState = (openStep h.st).openState := rfl
  rw [e0, e1, e0', e0'']
  by_cases ht : h.st.openState ≠ 3 ∧ (openStep h.st).openState = 3
  · simp only [if_pos ht]
    have hc' : HClockOk k { h with st := openStep h.st, syncOffset := (openStep h.st).now } := by
      unfold HClockOk; simp only [n1, f1]; exact hc
    have ho' : HSt.ShiftOk k { h with st := openStep h.st, syncOffset := (openStep h.st).now } :=
      ⟨o1, ho.2.1, by simp only [n1]; exact hc.2⟩
    obtain ⟨es, os⟩ := set_shift defaultInterval 10000 none (by unfold M32; omega) hc' ho'
    obtain ⟨ss, _⟩ := set_st { h with st := openStep h.st, syncOffset := (openStep h.st).now } defaultInterval 10000 none
    refine ⟨?_, os, by rw [ss]; exact n1, by rw [ss]; exact f1⟩
    rw [← es]; rfl
  · simp only [if_neg ht]
    exact ⟨rfl, ⟨o1, ho.2.1, ho.2.2⟩, n1, f1⟩

theorem pollH_shift {k : Nat} {h : HSt} (hc : HClockOk k h) (ho : h.ShiftOk k) :
    pollH (h.shift k) = ((pollH h).1.shift k, (pollH h).2) ∧ (pollH h).1.ShiftOk k := by
  unfold pollH
  have e1 : (h.shift k).st.ring = h.st.ring := rfl
  have e2 : (h.shift k).st.drv = h.st.drv := rfl
  rw [e1, e2]
  exact sendHeartbeat_shift false
    (h := { h with st := { h.st with ring := (sendFrames h.st.ring h.st.drv).1, drv := (sendFrames h.st.ring h.st.drv).2.1 } })
    hc ho

theorem pollTopH_shift {k : Nat} {h : HSt} (hc : HClockOk k h) (ho : h.ShiftOk k) :
    pollTopH (h.shift k) = ((pollTopH h).1.shift k, (pollTopH h).2) ∧ (pollTopH h).1.ShiftOk k := by
  obtain ⟨e1, o1, n1, f1⟩ := openStepH_shift hc ho
  have hc1 : HClockOk k (openStepH h) := by unfold HClockOk; rw [n1, f1]; exact hc
  unfold pollTopH
  dsimp only
  have e0 : (h.shift k).st.openState = h.st.openState := rfl
  have e0' : ((openStepH h).shift k).st.openState = (openStepH h).st.openState := rfl
  rw [e0, e1, e0']
  by_cases h3 : h.st.openState = 3
  · simp only [if_pos h3]; exact pollH_shift hc ho
  · simp only [if_neg h3]
    by_cases h4 : (openStepH h).st.openState = 3
    · simp only [if_pos h4]; exact pollH_shift hc1 o1
    · simp only [if_neg h4]; exact ⟨by triv, o1⟩

/-! ## operations and runs -/

/-- arguments are `uint32_t` -/
def Op.Wf : Op → Prop
  | .set _ off _ => off < M32
  | _ => True

/-- the state part every operation leaves alone or moves forward: clock and flavour after an operation -/
theorem Op.apply_now (op : Op) (h : HSt) :
    (op.apply h).1.st.flavor = h.st.flavor ∧
    (op.apply h).1.st.now = (match op with | .tick ms => h.st.now + ms | _ => h.st.now) := by
  cases op with
  | tick ms => exact ⟨rfl, rfl⟩
  | poll =>
    simp only [Op.apply]
    rw [pollTopH_eq]
    have hpre : (preOpen h).st.flavor = h.st.flavor ∧ (preOpen h).st.now = h.st.now := by
      unfold preOpen
      by_cases h3 : h.st.openState = 3
      · simp only [if_pos h3]; exact ⟨trivial, trivial⟩
      · simp only [if_neg h3]
        obtain ⟨fn, ff, _, _⟩ := openStep_frame h.st
        unfold openStepH
        by_cases ht : h.st.openState ≠ 3 ∧ (openStep h.st).openState = 3
        · simp only [if_pos ht]
          obtain ⟨ss, _⟩ := set_st { h with st := openStep h.st, syncOffset := (openStep h.st).now } defaultInterval 10000 none
          rw [ss]; exact ⟨ff, fn⟩
        · simp only [if_neg ht]; exact ⟨ff, fn⟩
    by_cases h3 : (preOpen h).st.openState = 3
    · simp only [if_pos h3]
      have := (pollH_spec (preOpen h)).1
      exact ⟨this.1.2.1.trans hpre.1, this.1.1.trans hpre.2⟩
    · simp only [if_neg h3]; exact hpre
  | force =>
    simp only [Op.apply]
    by_cases h3 : h.st.openState = 3
    · simp only [if_pos h3]; have := (sendHeartbeat_spec true h).1; exact ⟨this.1.2.1, this.1.1⟩
    · simp only [if_neg h3]; exact ⟨trivial, trivial⟩
  | one i =>
    simp only [Op.apply]
    by_cases h3 : h.st.openState = 3
    · simp only [if_pos h3]
      have := (sendHeartbeatOne_spec h i).2.2.1
      exact ⟨this.2.1, this.1⟩
    · simp only [if_neg h3]; exact ⟨trivial, trivial⟩
  | set iv off dev => simp only [Op.apply]; rw [(set_st h iv off dev).1]; exact ⟨by triv, by triv⟩
  | claim i => have := startAddressClaim_same h.st i; exact ⟨this.2.1, this.1⟩
  | drv sc df => exact ⟨rfl, rfl⟩
  | canopen ok => exact ⟨rfl, rfl⟩

/-- every operation commutes with the origin shift -/
theorem Op.apply_shift {k : Nat} (op : Op) {h : HSt} (hw : op.Wf) (hc : HClockOk k h) (ho : h.ShiftOk k) :
    op.apply (h.shift k) = ((op.apply h).1.shift k, (op.apply h).2) ∧ (op.apply h).1.ShiftOk k := by
  cases op with
  | tick ms =>
    refine ⟨?_, ?_⟩
    · simp only [Op.apply, tickH, HSt.shift, St.shift]
      congr 3; omega
    · exact ⟨⟨ho.1.1, ho.1.2⟩, ho.2.1, ho.2.2⟩
  | poll =>
    obtain ⟨e, o⟩ := pollTopH_shift hc ho
    simp only [Op.apply]; rw [e]; exact ⟨rfl, o⟩
  | force =>
    simp only [Op.apply]
    have e0 : (h.shift k).st.openState = h.st.openState := rfl
    rw [e0]
    by_cases h3 : h.st.openState = 3
    · simp only [if_pos h3]
      obtain ⟨e, o⟩ := sendHeartbeat_shift true hc ho
      rw [e]; exact ⟨rfl, o⟩
    · simp only [if_neg h3]; exact ⟨by triv, ho⟩
  | one i =>
    simp only [Op.apply]
    have e0 : (h.shift k).st.openState = h.st.openState := rfl
    rw [e0]
    by_cases h3 : h.st.openState = 3
    · simp only [if_pos h3]
      obtain ⟨e, o⟩ := sendHeartbeatOne_shift i hc ho
      rw [e]; exact ⟨rfl, o⟩
    · simp only [if_neg h3]; exact ⟨by triv, ho⟩
  | set iv off dev =>
    obtain ⟨e, o⟩ := set_shift iv off dev hw hc ho
    simp only [Op.apply]; rw [e]; exact ⟨rfl, o⟩
  | claim i =>
    obtain ⟨e, o, _⟩ := startAddressClaim_shift i hc.1 ho.1
    simp only [Op.apply, claimH]
    have e0 : (h.shift k).st = h.st.shift k := rfl
    rw [e0, e]
    exact ⟨rfl, o, ho.2.1, ho.2.2⟩
  | drv sc df => exact ⟨rfl, ho⟩
  | canopen ok => exact ⟨rfl, ho⟩

/-- the clock condition holds at every step of the run -/
def ClocksOk (k : Nat) : HSt → List Op → Prop
  | _, [] => True
  | h, op :: ops => HClockOk k h ∧ op.Wf ∧ ClocksOk k (op.apply h).1 ops

/-- whole runs commute with the origin shift: same log, shifted final state -/
theorem run_shift {k : Nat} (ops : List Op) : ∀ (h : HSt), h.ShiftOk k → ClocksOk k h ops →
    run (h.shift k) ops = ((run h ops).1.shift k, (run h ops).2) ∧ (run h ops).1.ShiftOk k := by
  induction ops with
  | nil => intro h ho _; exact ⟨rfl, ho⟩
  | cons op ops ih =>
    intro h ho hc
    obtain ⟨e1, o1⟩ := op.apply_shift hc.2.1 hc.1 ho
    obtain ⟨e2, o2⟩ := ih (op.apply h).1 o1 hc.2.2
    simp only [run]
    rw [e1]; simp only; rw [e2]
    exact ⟨rfl, o2⟩

end N2k.Heartbeat
