"""C07 - no bus traffic makes the library touch memory unsafely, hang or over-deliver (partial; runtime counterpart = fuzz harness)."""
SPEC = {
    'engine': 'fuzz', 'harness': 'fuzz.cpp', 'no_model': True,
    'repo_srcs': ['N2kMsg.cpp', 'N2kStream.cpp', 'N2kMessages.cpp', 'N2kTimer.cpp', 'N2kGroupFunction.cpp',
                  'N2kGroupFunctionDefaultHandlers.cpp', 'NMEA2000.cpp', 'N2kDeviceList.cpp'],
    'variants': ['', 't32'],
    'lean_modules': ['N2k.Props.Consts.C07', 'N2k.Props.C07'], 'props_files': ['N2k/Props/Consts/C07.lean', 'N2k/Props/C07.lean'],
    'translators': ['constants', 'pgn_tables'],
    'case_start': ['reset'],
    'oracle_prefixes': ['C07:'],
    'asan_options': ':redzone=1024',   # Devices[-1] must land in a red zone (sizeof(tInternalDevice) < 1024)
    'timeout': 1500,
    # the same generator once more under valgrind memcheck (reads of uninitialised memory, which ASan/UBSan do not see)
    'memcheck_replay': 0,   # the generator itself runs under memcheck (next line), a replayed prefix would add nothing
    'memcheck': {'cases_quick': 60, 'cases_thorough': 500, 'variants': ['mc', 'mc_t32']},
    'trusted_base': ["the theorems are the index/bound/lifetime facts of the receive-path models (C02 fast packet; C10 ISO-TP, C18 device "
                     "list, C09 group function as they are integrated), each tied to the code by its own correspondence run",
                     "runtime counterpart: grammar-based frame histories against the real node under ASan+UBSan "
                     "(-fsanitize=address,undefined,float-cast-overflow,float-divide-by-zero; enum-range check included) "
                     "with a 20 s per-op watchdog, and a reduced budget of the same histories under valgrind memcheck (uninitialised reads; found "
                     "C18:lastmsgtime-uninitialised on the pinned tree); this part is exploration, not proof"],
    'assumptions': ["driver contract: CANGetFrame delivers DLC <= 8 and an 8-byte buffer", "default compile-time configuration",
                    "memory safety below the level of array indices and object lifetime is observed by the sanitizers only"],
}
MANIFEST = {
    'text': "PARTIAL by design. Proved for every frame history: every delivered message has <= 223 bytes and consistent length, the "
            "slot recycling index stays inside the slot array at every clock value, chains have <= 32 frames (totality of the "
            "model functions = no unbounded loop at model level). The rest of C07 (pointer-level memory safety, libc calls, "
            "uninitialised reads, real hangs) cannot be exhibited by a model and is covered by the runtime counterpart only: "
            "grammar-generated valid / nearly valid / random traffic (TP sessions with address loss in the middle, group functions "
            "with pair counts 0..255, NAME 0 / all-ones claims, 126996/126998/126464 of all sizes, damaged fast packets, clock jumps, "
            "1..9 devices, all modes, device list attached or not) under ASan+UBSan with a watchdog, directed histories that are part of every run, and a reduced "
            "budget of the same generator under valgrind memcheck (uninitialised reads). Also proved, by restating other properties' theorems: "
            "every payload delivered by the transport-protocol receiver has <= 223 bytes and exactly its length for every history (C10), the "
            "device list never faults (C18), an acknowledge never exceeds the payload (C09).",
    'design_ref': 'DESIGN.md section 4, C07',
    'note': "partial: theorems cover index arithmetic, delivered length and loop bounds of the modelled functions; sanitizer runs "
            "(exploration) cover the rest. A sanitizer abort or watchdog timeout is reported with the case as replay.",
    'technique': 'Lean 4 theorems over the receive-path models (partial) + grammar-based sanitizer runs as runtime counterpart',
}
