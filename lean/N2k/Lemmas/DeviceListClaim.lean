import N2k.Lemmas.DeviceListBasic
/-!
# C18 helper lemmas, part 2: the invariant and `HandleIsoAddressClaim`

`Inv s` = `Struct s` + the entry view is `Good`: at most one entry per non-zero NAME and every entry's storage
is well formed (`DevWF`: the C++ size variables agree with the sizes of the `malloc` blocks).

`handleClaim_spec`: in every state satisfying `Inv` a claim `(src,name)` is handled without a `Fault`, `Inv`
holds afterwards, the entry under `src` carries `name`, and every entry under another source with another NAME is
untouched.
-/
namespace N2k.DeviceList

/-- the C++ size variables describe the blocks -/
structure DevWF (d : Device) : Prop where
  tx : ∀ b, d.tx = some b → b.size = d.txSize + 1
  rx : ∀ b, d.rx = some b → b.size = d.rxSize + 1
  conf : ∀ b, d.confI = some b → b.size = d.confISize

theorem DevWF.new (e : Env) (n : Nat) : DevWF (Device.new e n) :=
  ⟨by intro b h; simp [Device.new] at h, by intro b h; simp [Device.new] at h, by intro b h; simp [Device.new] at h⟩

theorem DevWF.setSource {d : Device} (h : DevWF d) (x : Nat) : DevWF (d.setSource x) := ⟨h.tx, h.rx, h.conf⟩
theorem DevWF.setName {d : Device} (h : DevWF d) (x : Nat) : DevWF (d.setName x) := ⟨h.tx, h.rx, h.conf⟩
theorem DevWF.clearProdLoaded {d : Device} (h : DevWF d) : DevWF d.clearProdLoaded := ⟨h.tx, h.rx, h.conf⟩

structure Good (f : Nat → Option Device) : Prop where
  uniq : ∀ i j di dj, f i = some di → f j = some dj → di.name = dj.name → di.name ≠ 0 → i = j
  wf : ∀ i d, f i = some d → DevWF d

structure Inv (s : State) : Prop where
  st : Struct s
  good : Good (devAt s)

theorem Inv.init : Inv State.init :=
  ⟨Struct.init, ⟨by intro i j di dj h; simp [devAt, State.init] at h, by intro i d h; simp [devAt, State.init] at h⟩⟩

theorem Good.congr {f g : Nat → Option Device} (h : ∀ j, g j = f j) (hf : Good f) : Good g :=
  ⟨by intro i j di dj hi hj; rw [h] at hi hj; exact hf.uniq i j di dj hi hj,
   by intro i d hi; rw [h] at hi; exact hf.wf i d hi⟩

theorem Good.remove {f : Nat → Option Device} (hf : Good f) (a : Nat) :
    Good (fun j => if j = a then none else f j) := by
  refine ⟨?_, ?_⟩
  · intro i j di dj hi hj
    by_cases h1 : i = a
    · simp [h1] at hi
    · by_cases h2 : j = a
      · simp [h2] at hj
      · simp only [h1, h2, if_false] at hi hj
        exact hf.uniq i j di dj hi hj
  · intro i d hi
    by_cases h1 : i = a
    · simp [h1] at hi
    · simp only [h1, if_false] at hi
      exact hf.wf i d hi

/-- entry `a` is put under the free slot `b` -/
theorem Good.move {f : Nat → Option Device} (hf : Good f) {a b : Nat} {d : Device}
    (ha : f a = some d) (hb : f b = none) :
    Good (fun j => if j = b then some (d.setSource b) else if j = a then none else f j) := by
  have hab : a ≠ b := by intro h; subst h; rw [ha] at hb; cases hb
  refine ⟨?_, ?_⟩
  · intro i j di dj hi hj hn h0
    by_cases h1 : i = b
    · by_cases h2 : j = b
      · omega
      · exfalso
        simp only [h1, if_true] at hi
        cases hi
        simp only [h2, if_false] at hj
        by_cases h3 : j = a
        · simp [h3] at hj
        · simp only [h3, if_false] at hj
          exact h3 (hf.uniq a j d dj ha hj hn h0).symm
    · simp only [h1, if_false] at hi
      by_cases h3 : i = a
      · simp [h3] at hi
      · simp only [h3, if_false] at hi
        by_cases h2 : j = b
        · exfalso
          simp only [h2, if_true] at hj
          cases hj
          exact h3 (hf.uniq i a di d hi ha hn h0)
        · simp only [h2, if_false] at hj
          by_cases h4 : j = a
          · simp [h4] at hj
          · simp only [h4, if_false] at hj
            exact hf.uniq i j di dj hi hj hn h0
  · intro i dd hi
    by_cases h1 : i = b
    · simp only [h1, if_true] at hi
      cases hi
      exact (hf.wf a d ha).setSource b
    · simp only [h1, if_false] at hi
      by_cases h3 : i = a
      · simp [h3] at hi
      · simp only [h3, if_false] at hi
        exact hf.wf i dd hi

/-- the entry under `a` is (over)written by a device whose NAME is 0 or not in the list elsewhere -/
theorem Good.set {f : Nat → Option Device} (hf : Good f) {a : Nat} {d' : Device} (hw : DevWF d')
    (hn : d'.name = 0 ∨ ∀ j dj, j ≠ a → f j = some dj → dj.name ≠ d'.name) :
    Good (fun j => if j = a then some d' else f j) := by
  refine ⟨?_, ?_⟩
  · intro i j di dj hi hj hnm h0
    by_cases h1 : i = a
    · by_cases h2 : j = a
      · omega
      · exfalso
        simp only [h1, if_true] at hi
        cases hi
        simp only [h2, if_false] at hj
        rcases hn with hn | hn
        · exact h0 hn
        · exact hn j dj h2 hj hnm.symm
    · simp only [h1, if_false] at hi
      by_cases h2 : j = a
      · exfalso
        simp only [h2, if_true] at hj
        cases hj
        rcases hn with hn | hn
        · exact h0 (hnm.trans hn)
        · exact hn i di h1 hi hnm
      · simp only [h2, if_false] at hj
        exact hf.uniq i j di dj hi hj hnm h0
  · intro i dd hi
    by_cases h1 : i = a
    · simp only [h1, if_true] at hi
      cases hi; exact hw
    · simp only [h1, if_false] at hi
      exact hf.wf i dd hi

/-- the entry under `a` is rewritten keeping its NAME -/
theorem Good.touch {f : Nat → Option Device} (hf : Good f) {a : Nat} {d d' : Device} (ha : f a = some d)
    (hw : DevWF d') (hn : d'.name = d.name) :
    Good (fun j => if j = a then some d' else f j) := by
  by_cases h0 : d'.name = 0
  · exact hf.set hw (Or.inl h0)
  · refine hf.set hw (Or.inr ?_)
    intro j dj hja hj hnm
    exact hja (hf.uniq j a dj d hj ha (by omega) (by omega))

/-! ## the tail of the handler -/

theorem claimC_spec {s : State} (hi : Inv s) {src : Nat} {p : Id} {d : Device}
    (hs : s.sources src = some p) (hd : s.heap p = some d) :
    ∃ s', claimC s p = .ok s' ∧ Inv s' ∧ s'.listUpdated = true ∧
      (∀ j, devAt s' j = if j = src then some d.clearProdLoaded else devAt s j) := by
  obtain ⟨d0, hd0, hsrc, hda⟩ := devAt_some hi.st hs
  rw [hd] at hd0; cases hd0
  refine ⟨{ (s.put p d.clearProdLoaded) with hasPending := true, listUpdated := true }, ?_, ?_, rfl, ?_⟩
  · simp [claimC, State.modify, hd]
  · have := touch_sem (s' := { (s.put p d.clearProdLoaded) with hasPending := true, listUpdated := true })
      hi.st hs (d' := d.clearProdLoaded) hsrc (by intro j; rfl) (by intro x; rfl) rfl rfl
    exact ⟨this.1, (hi.good.touch hda (hi.good.wf src d hda).clearProdLoaded rfl).congr this.2⟩
  · exact (touch_sem (s' := { (s.put p d.clearProdLoaded) with hasPending := true, listUpdated := true })
      hi.st hs (d' := d.clearProdLoaded) hsrc (by intro j; rfl) (by intro x; rfl) rfl rfl).2

/-! ## `if ( pDevice==0 )`: new or changed source -/

theorem claimB_spec (e : Env) {s : State} (hi : Inv s) {src : Nat} (name : Nat)
    (hsrc : src < MaxBusDevices) (hfree : s.sources src = none) :
    ∃ s' p d, claimB e s src name = .ok (s', p) ∧ Inv s' ∧
      s'.sources src = some p ∧ s'.heap p = some d ∧ d.name = name ∧
      s'.listUpdated = s.listUpdated ∧
      (∀ x dx, x ≠ src → devAt s x = some dx → dx.name ≠ name → devAt s' x = some dx) := by
  obtain ⟨r, hr, hsome, hnone⟩ := findByName_spec hi.st name
  cases r with
  | some p =>
    obtain ⟨t, d, hst, hd, hname, hdsrc, hda⟩ := hsome p rfl
    obtain ⟨_, ht254, _, _⟩ := devAt_src hi.st hda
    have hts : t ≠ src := by intro h; subst h; rw [hst] at hfree; cases hfree
    have hsem := move_sem (s' := (s.setSrc t none).place p d src) hi.st hst hd hfree hsrc
      (by intro j; rfl)
      (by intro x; rfl) rfl rfl
    refine ⟨(s.setSrc t none).place p d src, p, d.setSource src, ?_, ?_, ?_, ?_, hname, rfl, ?_⟩
    · unfold claimB
      simp only [hr, State.deref, hd, hdsrc, State.setSrcAt, ht254, if_true]
      rw [saveDevice_eq hsrc (by simpa [State.setSrc] using hd)]
    · exact ⟨hsem.1, (hi.good.move hda (devAt_none hfree)).congr hsem.2⟩
    · simp [State.place]
    · simp [State.place]
    · intro x dx hx hdx hnx
      rw [hsem.2]
      have hxt : x ≠ t := by
        intro h; subst h; rw [hda] at hdx; cases hdx; exact hnx hname
      simp [hx, hxt, hdx]
  | none =>
    have hno := hnone rfl
    have hsem := add_sem (s' := (s.alloc (Device.new e name)).place s.nextId (Device.new e name) src)
      (d := Device.new e name) hi.st hfree hsrc
      (by intro j; simp only [State.place, State.alloc]) (by intro x; simp only [State.place, State.alloc]
                                                             by_cases h : x = s.nextId <;> simp [h])
      rfl rfl
    refine ⟨(s.alloc (Device.new e name)).place s.nextId (Device.new e name) src, s.nextId,
      (Device.new e name).setSource src, ?_, ?_, ?_, ?_, rfl, rfl, ?_⟩
    · unfold claimB
      simp only [hr]
      rw [saveDevice_eq hsrc (d := Device.new e name) (by simp [State.alloc])]
    · refine ⟨hsem.1, (hi.good.set (a := src) ((DevWF.new e name).setSource src) (Or.inr ?_)).congr hsem.2⟩
      intro j dj _ hj
      exact hno j dj hj
    · simp [State.place]
    · simp [State.place]
    · intro x dx hx hdx _
      rw [hsem.2]; simp [hx, hdx]

/-! ## everything before `if ( pDevice==0 )` -/

theorem claimPlaceholder_spec {s : State} (hi : Inv s) {src : Nat} (name : Nat) {p : Id} {d : Device}
    (hsrc : src < MaxBusDevices) (hs : s.sources src = some p) (hd : s.heap p = some d) (hd0 : d.name = 0) :
    ∃ a q dq, claimPlaceholder s src name p = .ok a ∧ Inv a.st ∧ a.done = false ∧ a.dev = some q ∧
      a.st.sources src = some q ∧ a.st.heap q = some dq ∧ dq.name = name ∧
      (∀ x dx, x ≠ src → devAt s x = some dx → dx.name ≠ name → devAt a.st x = some dx) := by
  obtain ⟨dp, hdp, hpsrc, hpa⟩ := devAt_some hi.st hs
  rw [hd] at hdp; cases hdp
  obtain ⟨r, hr, hsome, hnone⟩ := findByName_spec hi.st name
  by_cases hmove : r.isSome ∧ r ≠ some p
  · -- the NAME is known under another source: the reservation is deleted and that entry moved here
    obtain ⟨p2, hp2⟩ := Option.isSome_iff_exists.mp hmove.1
    subst hp2
    have hne : p2 ≠ p := by intro h; subst h; exact hmove.2 rfl
    obtain ⟨t, d2, hst, hd2, hname, hdsrc, hda⟩ := hsome p2 rfl
    obtain ⟨_, ht254, _, _⟩ := devAt_src hi.st hda
    have hts : t ≠ src := by intro h; subst h; rw [hst] at hs; cases hs; exact hne rfl
    -- the state with the reservation removed
    let s1 : State := { s with heap := fun j => if j = p then none else s.heap j }
    have hrm := remove_sem (s' := s1.setSrc src none) hi.st hs
      (by intro j; simp only [State.setSrc, s1]) (by intro x; rfl) rfl rfl
    have hi1 : Inv (s1.setSrc src none) := ⟨hrm.1, (hi.good.remove src).congr hrm.2⟩
    have hst1 : (s1.setSrc src none).sources t = some p2 := by simp [State.setSrc, s1, hts, hst]
    have hd21 : (s1.setSrc src none).heap p2 = some d2 := by simp [State.setSrc, s1, hne, hd2]
    have hfree1 : (s1.setSrc src none).sources src = none := by simp [State.setSrc]
    have hda1 : devAt (s1.setSrc src none) t = some d2 := by rw [hrm.2]; simp [hts, hda]
    have hsem := move_sem (s' := (s1.setSrc t none).place p2 d2 src) hi1.st hst1 hd21 hfree1 hsrc
      (by intro j; simp only [State.place, State.setSrc]
          by_cases h1 : j = src
          · simp [h1]
          · by_cases h2 : j = t <;> simp [h1, h2])
      (by intro x; rfl) rfl rfl
    refine ⟨⟨(s1.setSrc t none).place p2 d2 src, some p2, false⟩, p2, d2.setSource src, ?_, ?_, rfl, rfl, ?_, ?_, hname, ?_⟩
    · unfold claimPlaceholder
      simp only [hr]
      rw [if_pos hmove]
      simp only [Option.getD_some, State.free, hd]
      have hd2' : State.deref s1 p2 = .ok d2 := by simp [State.deref, s1, hne, hd2]
      simp only [s1] at hd2'
      simp only [hd2', hdsrc, State.setSrcAt, ht254, if_true]
      rw [saveDevice_eq hsrc (d := d2) (by simp [State.setSrc, hne, hd2])]
    · exact ⟨hsem.1, (hi1.good.move hda1 (devAt_none hfree1)).congr hsem.2⟩
    · simp [State.place]
    · simp [State.place]
    · intro x dx hx hdx hnx
      rw [hsem.2, hrm.2]
      have hxt : x ≠ t := by
        intro h; subst h; rw [hda] at hdx; cases hdx; exact hnx hname
      simp [hx, hxt, hdx]
  · -- the NAME is not in the list (or it is NAME 0 and the lookup found the reservation itself): fill it in
    have hunused : name = 0 ∨ ∀ j dj, j ≠ src → devAt s j = some dj → dj.name ≠ name := by
      cases r with
      | none => exact Or.inr (fun j dj _ hj => hnone rfl j dj hj)
      | some q =>
        have hq : q = p := by
          by_cases h : q = p
          · exact h
          · exact absurd ⟨rfl, by intro h2; cases h2; exact h rfl⟩ hmove
        subst hq
        obtain ⟨t, d2, _, hd2, hname, _⟩ := hsome q rfl
        rw [hd] at hd2; cases hd2
        exact Or.inl (by omega)
    have hsem := touch_sem (s' := { (s.put p (d.setName name)) with listUpdated := true }) hi.st hs
      (d' := d.setName name) hpsrc (by intro j; rfl) (by intro x; rfl) rfl rfl
    refine ⟨⟨{ (s.put p (d.setName name)) with listUpdated := true }, some p, false⟩, p, d.setName name,
      ?_, ?_, rfl, rfl, hs, ?_, rfl, ?_⟩
    · unfold claimPlaceholder
      simp only [hr]
      rw [if_neg hmove]
      simp only [State.modify, hd]
    · refine ⟨hsem.1, (hi.good.set (a := src) ((hi.good.wf src d hpa).setName name) ?_).congr hsem.2⟩
      rcases hunused with h | h
      · exact Or.inl h
      · exact Or.inr h
    · simp [State.put]
    · intro x dx hx hdx _
      rw [hsem.2]; simp [hx, hdx]

theorem claimEvict_spec (e : Env) {s : State} (hi : Inv s) {src : Nat} {p : Id} {d : Device}
    (hsrc : src < MaxBusDevices) (hs : s.sources src = some p) (hd : s.heap p = some d) :
    ∃ a, claimEvict e s src p = .ok a ∧ Inv a.st ∧ a.done = false ∧ a.dev = none ∧
      a.st.sources src = none ∧ a.st.listUpdated = s.listUpdated ∧
      (∀ x dx, x ≠ src → devAt s x = some dx → devAt a.st x = some dx) := by
  obtain ⟨dp, hdp, hpsrc, hpa⟩ := devAt_some hi.st hs
  rw [hd] at hdp; cases hdp
  obtain ⟨hfe1, hfe2⟩ := firstEmpty_spec s MaxBusDevices 0
  cases hfe : firstEmpty s MaxBusDevices 0 with
  | some i =>
    obtain ⟨_, hi254, hiNone⟩ := hfe1 i hfe
    have hisrc : i ≠ src := by intro h; subst h; rw [hs] at hiNone; cases hiNone
    have hsem := move_sem (s' := ((request e (s.place p d i) 0xff pgnClaim).1).setSrc src none) hi.st hs hd hiNone
      (by simpa using hi254)
      (by intro j; unfold request
          by_cases h1 : j = i
          · split <;> simp [State.setSrc, State.place, State.emit, h1, hisrc]
          · by_cases h2 : j = src <;> split <;> simp [State.setSrc, State.place, State.emit, h1, h2])
      (by intro x; unfold request; split <;> rfl)
      (by unfold request; split <;> rfl) (by unfold request; split <;> rfl)
    refine ⟨⟨((request e (s.place p d i) 0xff pgnClaim).1).setSrc src none, none, false⟩, ?_, ?_, rfl, rfl, ?_, ?_, ?_⟩
    · unfold claimEvict
      simp only [hfe]
      rw [saveDevice_eq (by simpa using hi254) hd]
    · exact ⟨hsem.1, (hi.good.move hpa (devAt_none hiNone)).congr hsem.2⟩
    · simp [State.setSrc]
    · unfold request; split <;> rfl
    · intro x dx hx hdx
      rw [hsem.2]
      have hxi : x ≠ i := by intro h; subst h; rw [devAt_none hiNone] at hdx; cases hdx
      simp [hx, hxi, hdx]
  | none =>
    let s1 : State := { s with heap := fun j => if j = p then none else s.heap j }
    have hrm := remove_sem (s' := s1.setSrc src none) hi.st hs
      (by intro j; simp only [State.setSrc, s1]) (by intro x; rfl) rfl rfl
    refine ⟨⟨s1.setSrc src none, none, false⟩, ?_, ?_, rfl, rfl, ?_, rfl, ?_⟩
    · unfold claimEvict
      simp only [hfe, State.free, hd, s1]
    · exact ⟨hrm.1, (hi.good.remove src).congr hrm.2⟩
    · simp [State.setSrc]
    · intro x dx hx hdx
      rw [hrm.2]; simp [hx, hdx]

/-- summary of the first part: either the claim repeats what the list shows (`done`), or the slot `src` is now
    empty, or it holds an entry with the claimed NAME -/
theorem claimA_spec (e : Env) {s : State} (hi : Inv s) {src : Nat} (name : Nat) (hsrc : src < MaxBusDevices) :
    ∃ a, claimA e s src name = .ok a ∧ Inv a.st ∧
      (a.done = true → a.st = s ∧ ∃ d, devAt s src = some d ∧ d.name = name ∧ name ≠ 0) ∧
      (a.done = false →
        (match a.dev with
         | some q => ∃ dq, a.st.sources src = some q ∧ a.st.heap q = some dq ∧ dq.name = name
         | none => a.st.sources src = none ∧ a.st.listUpdated = s.listUpdated) ∧
        (∀ x dx, x ≠ src → devAt s x = some dx → dx.name ≠ name → devAt a.st x = some dx)) := by
  cases hs : s.sources src with
  | none =>
    refine ⟨⟨s, none, false⟩, by simp [claimA, hsrc, hs], hi, (by intro h; cases h), ?_⟩
    intro _
    exact ⟨⟨hs, rfl⟩, fun x dx _ h _ => h⟩
  | some p =>
    obtain ⟨d, hd, hpsrc, hpa⟩ := devAt_some hi.st hs
    by_cases h0 : d.name = 0
    · obtain ⟨a, q, dq, ha, hia, hdone, hdev, hsq, hdq, hnq, hfr⟩ := claimPlaceholder_spec hi name hsrc hs hd h0
      refine ⟨a, by simp [claimA, hsrc, hs, State.deref, hd, h0, ha], hia, (by intro h; rw [hdone] at h; cases h), ?_⟩
      intro _
      rw [hdev]
      exact ⟨⟨dq, hsq, hdq, hnq⟩, hfr⟩
    · by_cases hn : d.name ≠ name
      · obtain ⟨a, ha, hia, hdone, hdev, hsq, hlu, hfr⟩ := claimEvict_spec e hi hsrc hs hd
        refine ⟨a, by simp [claimA, hsrc, hs, State.deref, hd, h0, hn, ha], hia, (by intro h; rw [hdone] at h; cases h), ?_⟩
        intro _
        rw [hdev]
        exact ⟨⟨hsq, hlu⟩, fun x dx hx hdx _ => hfr x dx hx hdx⟩
      · have hn' : d.name = name := by omega
        subst hn'
        refine ⟨⟨s, some p, true⟩, by simp [claimA, hsrc, hs, State.deref, hd, h0], hi, ?_, (by intro h; cases h)⟩
        intro _
        exact ⟨rfl, d, hpa, rfl, h0⟩

/-! ## the whole handler -/

/-- what a claim `(src, name)` does to the list -/
theorem handleClaim_spec (e : Env) {s : State} (hi : Inv s) (m : Msg) (hpgn : m.pgn = pgnClaim)
    (hsrc : m.source < MaxBusDevices) :
    ∃ s', handleClaim e s m = .ok s' ∧ Inv s' ∧
      (∃ d, devAt s' m.source = some d ∧ d.name = claimName m) ∧
      (∀ x dx, x ≠ m.source → devAt s x = some dx → dx.name ≠ claimName m → devAt s' x = some dx) ∧
      -- either the claim repeats what the list already shows (nothing changes) …
      ((s' = s ∧ ∃ d, devAt s m.source = some d ∧ d.name = claimName m ∧ claimName m ≠ 0) ∨
      -- … or list-updated is raised and product information will be taken again
       (s'.listUpdated = true ∧ ∃ d, devAt s' m.source = some d ∧ d.prodLoaded = false)) := by
  obtain ⟨a, ha, hia, hdone, hnot⟩ := claimA_spec e hi (claimName m) hsrc
  cases hd : a.done with
  | true =>
    obtain ⟨hst, d, hda, hnm, hn0⟩ := hdone hd
    refine ⟨s, by simp [handleClaim, hpgn, ha, hd, hst], hi, ⟨d, hda, hnm⟩, fun x dx _ h _ => h, Or.inl ⟨rfl, d, hda, hnm, hn0⟩⟩
  | false =>
    obtain ⟨hdev, hfr⟩ := hnot hd
    cases hq : a.dev with
    | some q =>
      rw [hq] at hdev
      obtain ⟨dq, hsq, hdq, hnq⟩ := hdev
      obtain ⟨s', hs', hi', hlu, hf⟩ := claimC_spec hia hsq hdq
      refine ⟨s', by simp [handleClaim, hpgn, ha, hd, hq, hs'], hi', ⟨dq.clearProdLoaded, by rw [hf]; simp, hnq⟩, ?_,
        Or.inr ⟨hlu, dq.clearProdLoaded, by rw [hf]; simp, rfl⟩⟩
      intro x dx hx hdx hnx
      rw [hf]; simp [hx, hfr x dx hx hdx hnx]
    | none =>
      rw [hq] at hdev
      obtain ⟨s2, p, dp, hb, hi2, hsp, hdp, hnp, _, hf2⟩ := claimB_spec e hia (claimName m) hsrc hdev.1
      obtain ⟨s', hs', hi', hlu, hf⟩ := claimC_spec hi2 hsp hdp
      refine ⟨s', by simp [handleClaim, hpgn, ha, hd, hq, hb, hs'], hi', ⟨dp.clearProdLoaded, by rw [hf]; simp, hnp⟩, ?_,
        Or.inr ⟨hlu, dp.clearProdLoaded, by rw [hf]; simp, rfl⟩⟩
      intro x dx hx hdx hnx
      rw [hf]; simp [hx, hf2 x dx hx (hfr x dx hx hdx hnx) hnx]

/-- a claim that repeats what the list shows under that source (non-zero NAME) changes nothing -/
theorem handleClaim_reclaim (e : Env) {s : State} (hi : Inv s) (m : Msg) (hpgn : m.pgn = pgnClaim)
    (hsrc : m.source < MaxBusDevices) {d : Device} (hd : devAt s m.source = some d)
    (hn : d.name = claimName m) (h0 : d.name ≠ 0) : handleClaim e s m = .ok s := by
  obtain ⟨_, _, _, id, hs, hh⟩ := devAt_src hi.st hd
  have hnn : ¬ d.name ≠ claimName m := by omega
  simp [handleClaim, hpgn, claimA, hsrc, hs, State.deref, hh, h0, hnn]

end N2k.DeviceList
