/-!
# Model of the message-handler list of `tNMEA2000` (C14)

Transcribes, over the POINTER STRUCTURE the C++ uses,

* `tNMEA2000::tMsgHandler::tMsgHandler` / `~tMsgHandler` (NMEA2000.h),
* `tNMEA2000::AttachMsgHandler`, `DetachMsgHandler`, `RunMessageHandlers`, `SetMsgHandler` (NMEA2000.cpp),
* the call site of `RunMessageHandlers` in `ParseMessages` is in `Model/HandlersRx.lean` (composition with the receive path).

The heap is `obj : Id → Option Obj` (`none` = no live object at that address); an object carries the three
members `PGN`, `pNMEA2000` (`owner`) and `pNext` (`next`).  Every bus object has its `MsgHandlers` head pointer
(`head`) and its plain callback (`cb`, only whether it is set).  All functions return `Option`: `none` is a FAULT
(a dead object was dereferenced, or a pointer walk did not terminate within `bound + 1` steps, i.e. ran in a cycle).
The theorems show that no fault can occur.
-/
namespace N2k.Handlers

abbrev Id := Nat
abbrev BusId := Nat

/-- a `tMsgHandler` object -/
structure Obj where
  pgn : Nat                 -- `PGN`
  owner : Option BusId      -- `pNMEA2000`
  next : Option Id          -- `pNext`
deriving DecidableEq, Repr

structure World where
  obj : Id → Option Obj      -- live handler objects
  head : BusId → Option Id   -- `MsgHandlers` of every bus object
  cb : BusId → Bool          -- `MsgHandler != 0` of every bus object
  bound : Nat                -- every address ever handed out is `< bound` (only used as fuel for pointer walks)

def World.init : World := ⟨fun _ => none, fun _ => none, fun _ => false, 0⟩

def setObj (w : World) (i : Id) (o : Option Obj) : World :=
  { w with obj := fun j => if j = i then o else w.obj j }

def setHead (w : World) (b : BusId) (p : Option Id) : World :=
  { w with head := fun c => if c = b then p else w.head c }

def setCb (w : World) (b : BusId) (on : Bool) : World :=
  { w with cb := fun c => if c = b then on else w.cb c }

/-- `i->pNext = n` -/
def wrNext (w : World) (i : Id) (n : Option Id) : Option World :=
  match w.obj i with
  | none => none
  | some o => some (setObj w i (some ⟨o.pgn, o.owner, n⟩))

/-- `i->pNMEA2000 = b` -/
def wrOwner (w : World) (i : Id) (b : Option BusId) : Option World :=
  match w.obj i with
  | none => none
  | some o => some (setObj w i (some ⟨o.pgn, b, o.next⟩))

/-- `for ( ; M!=0 && M->pNext!=h; M=M->pNext );` of `DetachMsgHandler`; result = final `M` -/
def findPred (w : World) (h : Id) : Nat → Option Id → Option (Option Id)
  | 0, _ => none
  | _ + 1, none => some none
  | f + 1, some m =>
    match w.obj m with
    | none => none
    | some o => if o.next = some h then some (some m) else findPred w h f o.next

/-- `for ( ; M->pNext!=0 && M->pNext->GetPGN()<p; M=M->pNext );` of `AttachMsgHandler`; result = final `M` -/
def findIns (w : World) (p : Nat) : Nat → Id → Option Id
  | 0, _ => none
  | f + 1, m =>
    match w.obj m with
    | none => none
    | some o =>
      match o.next with
      | none => some m
      | some n =>
        match w.obj n with
        | none => none
        | some on => if on.pgn < p then findIns w p f n else some m

/-- the unlinking part of `DetachMsgHandler` for a handler `h` (members `o`) attached to bus `b` -/
def unlink (w : World) (h : Id) (o : Obj) (b : BusId) : Option World :=
  if w.head b = some h then
    some (setHead w b o.next)                       -- `pNMEA2000->MsgHandlers = MsgHandler->pNext`
  else
    match findPred w h (w.bound + 1) (w.head b) with
    | none => none
    | some none => some w
    | some (some m) => wrNext w m o.next            -- `MsgHandler->pNext = _MsgHandler->pNext`

/-- `tNMEA2000::DetachMsgHandler(h)` (the bus object it is called on plays no role in the C++ either) -/
def detach (w : World) (h : Id) : Option World :=
  match w.obj h with
  | none => none
  | some o =>
    match o.owner with
    | none => some w
    | some b =>
      match unlink w h o b with
      | none => none
      | some w1 =>
        match wrNext w1 h none with
        | none => none
        | some w2 => wrOwner w2 h none

/-- the linking part of `AttachMsgHandler` for a detached handler `h` with PGN `p` -/
def link (w : World) (b : BusId) (h : Id) (p : Nat) : Option World :=
  match w.head b with
  | none => some (setHead w b (some h))
  | some m =>
    match w.obj m with
    | none => none
    | some om =>
      if om.pgn > p then                            -- add to first
        match wrNext w h (some m) with
        | none => none
        | some w1 => some (setHead w1 b (some h))
      else
        match findIns w p (w.bound + 1) m with
        | none => none
        | some k =>
          match w.obj k with
          | none => none
          | some ok =>
            match wrNext w h ok.next with           -- `_MsgHandler->pNext = MsgHandler->pNext`
            | none => none
            | some w1 => wrNext w1 k (some h)       -- `MsgHandler->pNext = _MsgHandler`

/-- `bus b`.AttachMsgHandler(h) -/
def attach (w : World) (b : BusId) (h : Id) : Option World :=
  match w.obj h with
  | none => none
  | some o =>
    if o.owner = some b then some w else            -- already attached
    match detach w h with
    | none => none
    | some w1 =>
      match link w1 b h o.pgn with
      | none => none
      | some w2 => wrOwner w2 h (some b)

/-- `new tMsgHandler(pgn, bus)` placed at address `h` (which must hold no live object) -/
def construct (w : World) (h : Id) (pgn : Nat) (b : Option BusId) : Option World :=
  let w1 : World := { setObj w h (some ⟨pgn, none, none⟩) with bound := max w.bound (h + 1) }
  match b with
  | none => some w1
  | some b => attach w1 b h

/-- `delete h` : the destructor detaches an attached handler, then the memory is gone -/
def destroy (w : World) (h : Id) : Option World :=
  match w.obj h with
  | none => none
  | some o =>
    match o.owner with
    | none => some (setObj w h none)
    | some _ =>
      match detach w h with
      | none => none
      | some w1 => some (setObj w1 h none)

/-- first loop of `RunMessageHandlers`: the handlers called and the final `MsgHandler` -/
def loop0 (w : World) : Nat → Option Id → Option (List Id × Option Id)
  | 0, _ => none
  | _ + 1, none => some ([], none)
  | f + 1, some m =>
    match w.obj m with
    | none => none
    | some o =>
      if o.pgn = 0 then
        match loop0 w f o.next with
        | none => none
        | some r => some (m :: r.1, r.2)
      else some ([], some m)

/-- second loop of `RunMessageHandlers` -/
def loopP (w : World) (pgn : Nat) : Nat → Option Id → Option (List Id)
  | 0, _ => none
  | _ + 1, none => some []
  | f + 1, some m =>
    match w.obj m with
    | none => none
    | some o =>
      if o.pgn ≤ pgn then
        match loopP w pgn f o.next with
        | none => none
        | some r => some (if o.pgn = pgn then m :: r else r)
      else some []

/-- `bus b`.RunMessageHandlers(msg) with `msg.PGN = pgn`:
    (number of times the plain callback ran, handler objects whose `HandleMsg` ran, in call order) -/
def dispatch (w : World) (b : BusId) (pgn : Nat) : Option (Nat × List Id) :=
  match loop0 w (w.bound + 1) (w.head b) with
  | none => none
  | some r =>
    match loopP w pgn (w.bound + 1) r.2 with
    | none => none
    | some l => some (if w.cb b then 1 else 0, r.1 ++ l)

/-- operations of a client on handler objects and bus objects -/
inductive Op where
  | new (h : Id) (pgn : Nat) (b : Option BusId)
  | attach (h : Id) (b : BusId)
  | detach (h : Id)
  | destroy (h : Id)
  | cb (b : BusId) (on : Bool)
deriving DecidableEq, Repr

/-- what a client may do: construct only where no live object is, use only live objects -/
def Op.usable (w : World) : Op → Bool
  | .new h _ _ => (w.obj h).isNone
  | .attach h _ => (w.obj h).isSome
  | .detach h => (w.obj h).isSome
  | .destroy h => (w.obj h).isSome
  | .cb _ _ => true

def apply (w : World) : Op → Option World
  | .new h pgn b => construct w h pgn b
  | .attach h b => attach w b h
  | .detach h => detach w h
  | .destroy h => destroy w h
  | .cb b on => some (setCb w b on)

/-- an operation a client may not do (use of a dead object) is not executed -/
def step (w : World) (op : Op) : Option World :=
  if op.usable w then apply w op else some w

def run : World → List Op → Option World
  | w, [] => some w
  | w, op :: ops =>
    match step w op with
    | none => none
    | some w' => run w' ops

end N2k.Handlers
