/-!
# Model of the text fields of `tN2kMsg` (`src/N2kMsg.cpp`, `src/N2kMsg.h`)

Everything runs in `Except Fault` over *checked* memory:

* a **C string** is the memory `bytes ++ [0]`; a `const char*` into it is a `Ptr` – the list of bytes from
  the pointer up to (not including) the terminating NUL, or `past` once the pointer has moved beyond the
  first NUL. Dereferencing `past` is `Fault.readPastNul`. (If `bytes` itself contains a 0 the *first* 0 is
  the terminator: stepping over it also gives `past`.)
* the **payload** `unsigned char Data[223]` is `Nat → Nat` with function update; every write checks
  `idx < 223` (`Fault.payloadWrite`), every read checks `idx < DataLen` (`Fault.payloadRead`). Bytes at
  index ≥ `DataLen` are stale junk (a parameter of every theorem).
* a **destination** `char StrBuf[n]` is `Nat → Nat` with checked writes `idx < n` (`Fault.destWrite`);
  its initial content is arbitrary.

So "never writes beyond the payload / the destination, never reads beyond the terminator / `DataLen`" is
the statement *the run does not return a `Fault`*.

Integer types: lengths, indices and maxima are non-negative `int`/`size_t` values far from overflow
(maxima ≤ 255 in the property, ≤ 2^30 would do); they are `Nat`. `Len<bufLen-2`-style `int` comparisons
are written without subtraction. `unsigned char` stores are `% 256` where the value may exceed a byte.

Transcription map (the C++ as FIXED in the verification worktree, see known_findings.d/C16.json)
* `N2kRequireUnicode`             → `requireUnicode` (`ruLoop`, `ruCont`)
* `N2kUTF8SeqBytes` (added by fix) → `utf8SeqBytes`
* `N2kUTF8ToUCS2` / `N2kUTF8ToASCII` → `utf8ToUCS2` (`u2uLoop`, `ucs2Step`) / `utf8ToASCII` (`u2aLoop`, `asciiStep`)
  with the three fixes: continuation bytes counted before use, `else` branch for invalid lead bytes,
  loop bound `Len+2<=bufLen`
* `N2kUCS2ToUTF8`                 → `ucs2ToUTF8` (`c2uLoop`)
* `SetBufStr` (UsePgm=false)      → `setBufStr` (`sbsCopy`, `sbsFill`);  `tN2kMsg::AddStr` → `addStr`
* `tN2kMsg::AddAISStr`            → `addAISStr` (`aisLoop`, `memsetD`)
* `tN2kMsg::AddByte`/`GetByte`    → `addByte` / `getByte`
* `tN2kMsg::AddVarStr` (5-argument form; the 2-argument form is `maxLen=5000, unicode, bytes`) → `addVarStr`
* `tN2kMsg::GetStr(char*,size_t,int&)` → `getStr1`;  `GetStr(size_t,char*,size_t,uchar,int&)` → `getStr2`
* `tN2kMsg::GetVarStr`            → `getVarStr` (4 arguments), `getVarStr3` (nulChar 0xff)
* `tN2kMsg::AddVarStr(str,UsePgm)` → `addVarStr2`; `tN2kMsg::AddBuf` → `addBuf` (`wrList`); `tN2kMsg::GetBuf` → `getBuf`
  (`copyOut`, as fixed: Index advances after the copy), `getBufNull` (null buffer)
-/
namespace N2k.Text

inductive Fault where
  | readPastNul
  | payloadWrite (idx : Nat)
  | payloadRead (idx len : Nat)
  | destWrite (idx size : Nat)
  | fuel
  deriving Repr, DecidableEq

abbrev M := Except Fault

def MaxDataLen : Nat := 223

/-! ## checked memories -/

/-- pointer into the C string `bytes ++ [0]` -/
inductive Ptr where
  | at (rest : List Nat)
  | past
  deriving Repr, DecidableEq

def Ptr.deref : Ptr → M Nat
  | .at (b :: _) => pure b
  | .at [] => pure 0
  | .past => throw .readPastNul

/-- `p + k`; stepping over the terminator leaves the string -/
def Ptr.add : Ptr → Nat → Ptr
  | p, 0 => p
  | .at (b :: t), k + 1 => if b = 0 then .past else (Ptr.at t).add k
  | .at [], _ + 1 => .past
  | .past, _ + 1 => .past

/-- an upper bound for the number of loop iterations over the string (loops consume ≥ 1 byte each) -/
def Ptr.fuel : Ptr → Nat
  | .at rest => rest.length + 1
  | .past => 1

abbrev D := Nat → Nat

def upd (d : D) (i v : Nat) : D := fun j => if j = i then v else d j

/-- `Data[i] = v` -/
def wr (d : D) (i v : Nat) : M D :=
  if i < MaxDataLen then pure (upd d i v) else throw (.payloadWrite i)

structure Msg where
  data : D
  len : Nat

/-- read of `Data[i]` (allowed below `DataLen` only) -/
def rd (m : Msg) (i : Nat) : M Nat :=
  if i < m.len then pure (m.data i) else throw (.payloadRead i m.len)

/-- `StrBuf[i] = v` for a destination of `n` bytes -/
def wd (n : Nat) (dst : D) (i v : Nat) : M D :=
  if i < n then pure (upd dst i v) else throw (.destWrite i n)

/-! ## UTF-8 helpers -/

/-- the `if … else if …` chain on the lead byte shared by all three UTF-8 functions; 0 = no branch -/
def seqLen (b : Nat) : Nat :=
  if b &&& 0x80 = 0x00 then 1
  else if b &&& 0xE0 = 0xC0 then 2
  else if b &&& 0xF0 = 0xE0 then 3
  else if b &&& 0xF8 = 0xF0 then 4
  else if b &&& 0xFC = 0xF8 then 5
  else if b &&& 0xFE = 0xFC then 6
  else 0

/-- `for (i=1; i<num; ++i) { if ((byte&0xC0)!=0x80) return false; str++; byte=*str; }`, `k = num-i` -/
def ruCont : Nat → Ptr → Nat → M (Option (Ptr × Nat))
  | 0, p, byte => pure (some (p, byte))
  | k + 1, p, byte =>
    if byte &&& 0xC0 ≠ 0x80 then pure none
    else do
      let p := p.add 1
      let byte ← p.deref
      ruCont k p byte

/-- `while ( byte != 0x00 ) { … }` of `N2kRequireUnicode` -/
def ruLoop : Nat → Ptr → Nat → M Bool
  | 0, _, _ => throw .fuel
  | f + 1, p, byte =>
    if byte = 0 then pure false
    else
      let num := seqLen byte
      if num = 0 then pure false
      else do
        let p := p.add 1
        let byte ← p.deref
        match ← ruCont (num - 1) p byte with
        | none => pure false
        | some (p, byte) => if num > 1 then pure true else ruLoop f p byte

def requireUnicode (str : Ptr) : M Bool := do
  let byte ← str.deref
  ruLoop str.fuel str byte

/-- `while ( n<num && (str[n] & 0xC0)==0x80 ) n++;`  with `p = str+n`, `k = num-n` -/
def seqBytesLoop : Nat → Ptr → Nat → M Nat
  | 0, _, n => pure n
  | k + 1, p, n => do
    let c ← p.deref
    if c &&& 0xC0 = 0x80 then seqBytesLoop k (p.add 1) (n + 1) else pure n

/-- `N2kUTF8SeqBytes(str,num)` (called with `*str != 0`, `num ≥ 2`) -/
def utf8SeqBytes (str : Ptr) (num : Nat) : M Nat := seqBytesLoop (num - 1) (str.add 1) 1

/-- one step of `N2kUTF8ToUCS2` at lead byte `c = *UTF8Chars ≠ 0`: (usedBytes, ucs2Char) -/
def ucs2Step (p : Ptr) (c : Nat) : M (Nat × Nat) :=
  match seqLen c with
  | 1 => pure (1, c)
  | 2 => do
    let used ← utf8SeqBytes p 2
    if used = 2 then do
      let c1 ← (p.add 1).deref
      pure (used, ((c &&& 0x1F) <<< 6) ||| (c1 &&& 0x3F))
    else pure (used, 0x3F)
  | 3 => do
    let used ← utf8SeqBytes p 3
    if used = 3 then do
      let c1 ← (p.add 1).deref
      let c2 ← (p.add 2).deref
      pure (used, ((c &&& 0x0F) <<< 12) ||| ((c1 &&& 0x3F) <<< 6) ||| (c2 &&& 0x3F))
    else pure (used, 0x3F)
  | 0 => pure (1, 0x3F)
  | n => do
    let used ← utf8SeqBytes p n
    pure (used, 0x3F)

/-- `for ( ; *UTF8Chars!=0 && Len+2<=bufLen; UTF8Chars+=usedBytes, Len+=2 )`; `bi` is `buf-Data` -/
def u2uLoop : Nat → Ptr → Nat → Nat → Nat → D → M (D × Nat)
  | 0, _, _, _, _, _ => throw .fuel
  | f + 1, p, bi, len, bufLen, d => do
    let c ← p.deref
    if c ≠ 0 ∧ len + 2 ≤ bufLen then do
      let (used, u) ← ucs2Step p c
      let d ← wr d bi (u % 256)
      let d ← wr d (bi + 1) ((u >>> 8) % 256)
      u2uLoop f (p.add used) (bi + 2) (len + 2) bufLen d
    else pure (d, len)

/-- `N2kUTF8ToUCS2(str, Data+bi, bufLen)` → (Data, Len) -/
def utf8ToUCS2 (str : Ptr) (d : D) (bi bufLen : Nat) : M (D × Nat) :=
  u2uLoop str.fuel str bi 0 bufLen d

/-- one step of `N2kUTF8ToASCII`: (usedBytes, output byte) -/
def asciiStep (p : Ptr) (c : Nat) : M (Nat × Nat) :=
  match seqLen c with
  | 1 => pure (1, c)
  | 0 => pure (1, 0x3F)
  | n => do
    let used ← utf8SeqBytes p n
    pure (used, 0x3F)

/-- `for ( ; *UTF8Chars!=0 && Len<bufLen; UTF8Chars+=usedBytes, Len++ )` -/
def u2aLoop : Nat → Ptr → Nat → Nat → Nat → D → M (D × Nat)
  | 0, _, _, _, _, _ => throw .fuel
  | f + 1, p, bi, len, bufLen, d => do
    let c ← p.deref
    if c ≠ 0 ∧ len < bufLen then do
      let (used, a) ← asciiStep p c
      let d ← wr d bi a
      u2aLoop f (p.add used) (bi + 1) (len + 1) bufLen d
    else pure (d, len)

def utf8ToASCII (str : Ptr) (d : D) (bi bufLen : Nat) : M (D × Nat) :=
  u2aLoop str.fuel str bi 0 bufLen d

/-! ## adding -/

/-- first loop of `SetBufStr`: `for (; i<len && str[i]!=0; i++, index++) buf[index]=str[i];`
    with `p = str+i`, `k = len-i`; returns the remaining `len-i` -/
def sbsCopy : Nat → Ptr → Nat → D → M (Nat × Nat × D)
  | 0, _, index, d => pure (0, index, d)
  | k + 1, p, index, d => do
    let c ← p.deref
    if c = 0 then pure (k + 1, index, d)
    else do
      let d ← wr d index c
      sbsCopy k (p.add 1) (index + 1) d

/-- second loop of `SetBufStr`: `for (; i<len; i++, index++) buf[index]=fillChar;`, `k = len-i` -/
def sbsFill : Nat → Nat → Nat → D → M (Nat × D)
  | 0, _, index, d => pure (index, d)
  | k + 1, fc, index, d => do
    let d ← wr d index fc
    sbsFill k fc (index + 1) d

/-- `SetBufStr(str,len,index,buf,false,fillChar)` → (index, buf) -/
def setBufStr (str : Ptr) (len index : Nat) (d : D) (fc : Nat) : M (Nat × D) := do
  let (k, index, d) ← sbsCopy len str index d
  sbsFill k fc index d

/-- `tN2kMsg::AddStr(str,len,false,fillChar)` -/
def addStr (m : Msg) (str : Ptr) (len fc : Nat) : M Msg := do
  let (index, d) ← setBufStr str len m.len m.data fc
  pure ⟨d, index⟩

/-- `toupper` in the C locale followed by the range test of Table 14; bytes ≥ 0x80 are negative `char`s -/
def aisChar (b : Nat) : Nat :=
  let c := if 0x61 ≤ b ∧ b ≤ 0x7A then b - 0x20 else b
  if 0x20 ≤ c ∧ c ≤ 0x5F then c else 0x3F

/-- `for (; len>0 && *str!=0 && DataLen<MaxDataLen; len--, DataLen++, buf++, str++)`;
    returns (len, DataLen, buf-Data, Data) -/
def aisLoop : Nat → Ptr → Nat → Nat → D → M (Nat × Nat × Nat × D)
  | 0, _, dl, bi, d => pure (0, dl, bi, d)
  | len + 1, p, dl, bi, d => do
    let c ← p.deref
    if c ≠ 0 ∧ dl < MaxDataLen then do
      let d ← wr d bi (aisChar c)
      aisLoop len (p.add 1) (dl + 1) (bi + 1) d
    else pure (len + 1, dl, bi, d)

/-- `memset(Data+bi, v, n)` -/
def memsetD : Nat → Nat → Nat → D → M D
  | 0, _, _, d => pure d
  | n + 1, v, bi, d => do
    let d ← wr d bi v
    memsetD n v (bi + 1) d

/-- `tN2kMsg::AddAISStr(str,len)` (DataLen ≤ MaxDataLen on entry) -/
def addAISStr (m : Msg) (str : Ptr) (len : Nat) : M Msg := do
  let (len, dl, bi, d) ← aisLoop len str m.len m.len m.data
  let len := if len > MaxDataLen - dl then MaxDataLen - dl else len
  let d ← if len > 0 then memsetD len 0x40 bi d else pure d
  pure ⟨d, dl + len⟩

/-- `Data[DataLen]=v; DataLen++;` -/
def addByte (m : Msg) (v : Nat) : M Msg := do
  let d ← wr m.data m.len v
  pure ⟨d, m.len + 1⟩

/-- `strlen` (libc): number of bytes before the first NUL -/
def strlen : Ptr → M Nat
  | .at rest => pure (rest.takeWhile (· ≠ 0)).length
  | .past => throw .readPastNul

/-- `tN2kMsg::AddVarStr(str,maxLen,varStrSupport,varStrMaxLen,false)`;
    `uni` = `vss_SupportUnicode`, `chars` = `vsl_UseCharacters` -/
def addVarStr (m : Msg) (str : Ptr) (maxLen : Nat) (uni chars : Bool) : M Msg := do
  let bufFree := if m.len < MaxDataLen then MaxDataLen - m.len else 0
  -- `bufFree<=2 || str==0 || *str==0` (short circuit: `*str` is read only if bufFree>2)
  let trivial ← if bufFree ≤ 2 then pure true else do
    let c ← str.deref
    pure (c == 0)
  if trivial then
    if bufFree ≥ 2 then do
      let m ← addByte m 2
      addByte m 1
    else if bufFree = 1 then addByte m 1
    else pure m
  else do
    let dataStart := m.len
    let m ← addByte m 2
    let m ← addByte m 1
    let bufFree := bufFree - 2
    let (m, len, type) ← (do
      if ← requireUnicode str then
        let destBuf := m.len
        if uni then
          let maxLen := if chars then maxLen * 2 else maxLen
          let bufFree := if bufFree > maxLen then maxLen else bufFree
          let (d, len) ← utf8ToUCS2 str m.data destBuf bufFree
          pure (⟨d, m.len + len⟩, len, 0)
        else
          let bufFree := if bufFree > maxLen then maxLen else bufFree
          let (d, len) ← utf8ToASCII str m.data destBuf bufFree
          pure (⟨d, m.len + len⟩, len, 1)
      else
        let len ← strlen str
        let len := if len > maxLen then maxLen else len
        let len := if bufFree < len then bufFree else len
        let (index, d) ← setBufStr str len m.len m.data 0xff
        pure (⟨d, index⟩, len, 1) : M (Msg × Nat × Nat))
    let d ← wr m.data dataStart ((len + 2) % 256)
    let d ← wr d (dataStart + 1) type
    pure ⟨d, m.len⟩

/-! ## reading -/

/-- `if (Index<DataLen) return Data[Index++]; else return 0xff;` → (value, Index) -/
def getByte (m : Msg) (idx : Nat) : M (Nat × Nat) :=
  if idx < m.len then do
    let v ← rd m idx
    pure (v, idx + 1)
  else pure (0xff, idx)

/-- loop of the unsized `GetStr`; `k = Length-i` -/
def gs1Loop (m : Msg) (n : Nat) : Nat → Nat → Bool → Nat → D → M (Nat × D)
  | 0, _, _, idx, dst => pure (idx, dst)
  | k + 1, i, nullReached, idx, dst => do
    let (vb, idx) ← getByte m idx
    if !nullReached then
      if vb = 0x00 ∨ vb = 0x40 then do
        let dst ← wd n dst i 0
        let dst ← wd n dst (i + 1) 0
        gs1Loop m n k (i + 1) true idx dst
      else do
        let dst ← wd n dst i vb
        let dst ← wd n dst (i + 1) 0
        gs1Loop m n k (i + 1) false idx dst
    else do
      let dst ← wd n dst i 0
      let dst ← wd n dst (i + 1) 0
      gs1Loop m n k (i + 1) true idx dst

/-- `bool GetStr(char *StrBuf, size_t Length, int &Index)`; `n` is the real size of `StrBuf`
    (the function does not know it; its contract is `n ≥ Length+1`) → (ret, Index, StrBuf) -/
def getStr1 (m : Msg) (n : Nat) (dst : D) (length idx : Nat) : M (Bool × Nat × D) := do
  let dst ← wd n dst 0 0
  if idx + length ≤ m.len then do
    let (idx, dst) ← gs1Loop m n length 0 false idx dst
    pure (true, idx, dst)
  else pure (false, idx, dst)

/-- `for (i=0; i<Length && i<StrBufSize-1; i++)`; `k` = iterations left -/
def gs2Loop (m : Msg) (n nul : Nat) : Nat → Nat → Bool → Nat → D → M (Nat × Nat × D)
  | 0, i, _, idx, dst => pure (i, idx, dst)
  | k + 1, i, nullReached, idx, dst => do
    let (vb, idx) ← getByte m idx
    if !nullReached then
      if vb = 0x00 ∨ vb = nul then do
        let dst ← wd n dst i 0
        gs2Loop m n nul k (i + 1) true idx dst
      else do
        let dst ← wd n dst i vb
        gs2Loop m n nul k (i + 1) false idx dst
    else do
      let dst ← wd n dst i 0
      gs2Loop m n nul k (i + 1) true idx dst

/-- `for (;i<Length;i++) GetByte(Index);`, `k = Length-i` -/
def skipBytes (m : Msg) : Nat → Nat → M Nat
  | 0, idx => pure idx
  | k + 1, idx => do
    let (_, idx) ← getByte m idx
    skipBytes m k idx

/-- `for (;i<StrBufSize;i++) StrBuf[i] = '\0';`, `k = StrBufSize-i` -/
def zeroFill (n : Nat) : Nat → Nat → D → M D
  | 0, _, dst => pure dst
  | k + 1, i, dst => do
    let dst ← wd n dst i 0
    zeroFill n k (i + 1) dst

/-- `bool GetStr(size_t StrBufSize, char *StrBuf, size_t Length, unsigned char nulChar, int &Index)`
    with a non-null `StrBuf` of exactly `n = StrBufSize` bytes → (ret, Index, StrBuf) -/
def getStr2 (m : Msg) (n : Nat) (dst : D) (length nul idx : Nat) : M (Bool × Nat × D) := do
  if n = 0 then pure (true, idx + length, dst)
  else do
    let dst ← wd n dst 0 0
    if idx + length ≤ m.len then do
      let cnt := if length < n - 1 then length else n - 1
      let (i, idx, dst) ← gs2Loop m n nul cnt 0 false idx dst
      let dst ← wd n dst i 0
      let idx ← skipBytes m (length - i) idx
      let i := if i < length then length else i
      let dst ← zeroFill n (n - i) i dst
      pure (true, idx, dst)
    else pure (false, idx, dst)

/-- loop of `N2kUCS2ToUTF8`; `str = Data+base`, `bufLen` already decremented; → (buf, UTF8Len) -/
def c2uLoop (m : Msg) (base strLen n bufLen nul : Nat) : Nat → Nat → Nat → D → M (D × Nat)
  | 0, _, _, _ => throw .fuel
  | f + 1, i, ulen, dst =>
    if i + 1 < strLen ∧ ulen < bufLen then do
      let lo ← rd m (base + i)
      let hi ← rd m (base + i + 1)
      let c := (lo + (hi <<< 8)) % 65536
      if c < 0x80 then do
        let dst ← wd n dst ulen c
        let ulen := if c ≠ nul then ulen + 1 else ulen
        c2uLoop m base strLen n bufLen nul f (i + 2) ulen dst
      else if c < 0x800 then
        if ulen + 1 < bufLen then do
          let dst ← wd n dst (ulen + 1) (0x80 ||| (c &&& 0x3F))
          let c := c >>> 6
          let dst ← wd n dst ulen (0xC0 ||| c)
          c2uLoop m base strLen n bufLen nul f (i + 2) (ulen + 2) dst
        else c2uLoop m base strLen n bufLen nul f (strLen + 2) ulen dst
      else
        if ulen + 2 < bufLen then do
          let dst ← wd n dst (ulen + 2) (0x80 ||| (c &&& 0x3F))
          let c := c >>> 6
          let dst ← wd n dst (ulen + 1) (0x80 ||| (c &&& 0x3F))
          let c := c >>> 6
          let dst ← wd n dst ulen (0xE0 ||| c)
          c2uLoop m base strLen n bufLen nul f (i + 2) (ulen + 3) dst
        else c2uLoop m base strLen n bufLen nul f (strLen + 2) ulen dst
    else pure (dst, ulen)

/-- `N2kUCS2ToUTF8(Data+base, strLen, buf, bufLen=n, nulChar)` with non-null `buf` of `n` bytes -/
def ucs2ToUTF8 (m : Msg) (base strLen n : Nat) (dst : D) (nul : Nat) : M (D × Nat) := do
  if n = 0 then pure (dst, 0)
  else do
    let bufLen := n - 1
    let (dst, ulen) ← c2uLoop m base strLen n bufLen nul (strLen + 1) 0 0 dst
    let dst ← wd n dst ulen 0
    pure (dst, ulen)

/-- `bool GetVarStr(size_t &StrBufSize, char *StrBuf, unsigned char nulChar, int &Index)` with a
    non-null `StrBuf` of exactly `n = StrBufSize` bytes → (ret, StrBufSize, Index, StrBuf) -/
def getVarStr (m : Msg) (n : Nat) (dst : D) (nul idx : Nat) : M (Bool × Nat × Nat × D) := do
  let (len, idx) ← getByte m idx
  let (type, idx) ← getByte m idx
  if len ≤ 2 ∨ len = 0xff ∨ type > 1 ∨ idx ≥ m.len then do
    let dst ← if n > 0 then wd n dst 0 0 else pure dst
    if len = 2 ∧ type ≤ 1 then pure (true, 0, idx, dst)
    else pure (false, 0, MaxDataLen, dst)
  else do
    let len := len - 2
    let len := if len + idx > m.len then m.len - idx else len
    if n > 0 then
      if type = 0x01 then do
        let (_, idx, dst) ← getStr2 m n dst len nul idx
        pure (true, len, idx, dst)
      else do
        let (dst, ulen) ← ucs2ToUTF8 m idx len n dst nul
        pure (true, ulen, idx + len, dst)
    -- no buffer to copy to: report the size needed (UCS-2: at most 3 UTF-8 bytes per character)
    else pure (true, if type = 0x01 then len else (len / 2) * 3, idx + len, dst)

/-! ## `AddVarStr(str, UsePgm)`, `AddBuf`, `GetBuf` -/

/-- `tN2kMsg::AddVarStr(const char *str, bool UsePgm=false)`: `AddVarStr(str,5000,vss_SupportUnicode,vsl_UseBytes,UsePgm)` -/
def addVarStr2 (m : Msg) (str : Ptr) : M Msg := addVarStr m str 5000 true false

/-- `bool GetVarStr(size_t &StrBufSize, char *StrBuf, int &Index)`: nulChar 0xff -/
def getVarStr3 (m : Msg) (n : Nat) (dst : D) (idx : Nat) : M (Bool × Nat × Nat × D) := getVarStr m n dst 0xff idx

/-- `memcpy(Data+i, src, |src|)` -/
def wrList : List Nat → Nat → D → M D
  | [], _, d => pure d
  | b :: t, i, d => do
    let d ← wr d i b
    wrList t (i + 1) d

/-- `tN2kMsg::AddBuf(buf, bufLen)`; the caller's array `buf` has exactly `bufLen` bytes -/
def addBuf (m : Msg) (buf : List Nat) : M Msg := do
  let bufLen := buf.length
  let bufLen :=
    if m.len < MaxDataLen then (if m.len + bufLen > MaxDataLen then MaxDataLen - m.len else bufLen) else 0
  if bufLen > 0 then do
    let d ← wrList (buf.take bufLen) m.len m.data
    pure ⟨d, m.len + bufLen⟩
  else pure m

/-- `memcpy(buf, Data+idx, k)` byte by byte (`j` = bytes done) into a destination of `n` bytes -/
def copyOut (m : Msg) (n : Nat) : Nat → Nat → Nat → D → M D
  | 0, _, _, dst => pure dst
  | k + 1, idx, j, dst => do
    let v ← rd m (idx + j)
    let dst ← wd n dst j v
    copyOut m n k idx (j + 1) dst

/-- `bool GetBuf(void *buf, size_t Length, int &Index)` with a non-null `buf` of `n` bytes (contract `n ≥ Length`)
    → (ret, Index, buf). As fixed: `Index` advances by `Length` after a copy as well. -/
def getBuf (m : Msg) (n : Nat) (dst : D) (length idx : Nat) : M (Bool × Nat × D) :=
  if idx + length ≤ m.len then do
    let dst ← copyOut m n length idx 0 dst
    pure (true, idx + length, dst)
  else pure (false, m.len, dst)

/-- `GetBuf(0, Length, Index)`: just pass the bytes → (ret, Index) -/
def getBufNull (m : Msg) (length idx : Nat) : Bool × Nat :=
  if idx + length ≤ m.len then (true, idx + length) else (false, m.len)

end N2k.Text
