import N2k.Model.Bus
import N2k.Model.Rx
/-!
# The library instance behind its receive slots, and the application's `SendMsg`

`Model/Claim.lean` hands a received address claim straight to `HandleISOAddressClaim`. In the real
`ParseMessages` every frame first needs a receive slot (`SetN2kCANBufMsg` / `FindFreeCANMsgIndex`, modelled for
C02 in `Model/Rx.lean`): when all `MaxN2kCANMsgs` slots hold unfinished multi-frame messages younger than
100 ms the frame is dropped, and the slot ages are compared modulo 2^32. `Node` composes the two models:

* `parseFrame`  = `ParseMessages` with one raw frame waiting in the CAN controller
* `parseCmd`    = `ParseMessages` with the three frames of a commanded address (TP.CM BAM/RTS + 2 TP.DT) waiting
* `appSend`     = the application's `SendMsg(msg, dev)` (tries `Open()` first), `msg.Source` is whatever the caller
                  left there: `SendMsg` stamps the device's address (`ForceSource`) before it tests the address range
-/
namespace N2k.ClaimRx
open N2k.Send N2k.Time N2k.Claim

structure Node where
  inst : Inst
  rx : Rx.St

/-- default message lists, `HandleOnlyKnownMessages` off -/
def cfg : Rx.Cfg := {}

/-- address of the tool that sends commanded-address messages in the harness -/
def toolAddr : Nat := 0x20

/-- does this call of `ParseMessages` read the CAN controller: the node is open or `Open()` completes in this call -/
def readsBus (x : Inst) : Bool := (if x.s.openState = 3 then x else Claim.openStep x).s.openState == 3

def rawOf (f : Frame) : Rx.Frame := Rx.decode f.id f.len (f.data.take f.len)

/-- `ParseMessages` with the raw frame `f` waiting: it is handled only if the receive path delivers it -/
def parseFrame (n : Node) (f : Frame) : Node :=
  if readsBus n.inst then
    let r := Rx.rx cfg n.rx n.inst.s.now (rawOf f)
    match r.2 with
    | some _ => ⟨parse n.inst [.frame f], r.1⟩
    | none => ⟨parse n.inst [], r.1⟩
  else ⟨parse n.inst [], n.rx⟩

/-- the TP.CM frame (BAM to everybody, RTS to one address) that announces the 9 bytes of PGN 65240 -/
def cmdOpenFrame (dst : Nat) : Rx.Frame :=
  ⟨7, 60416, toolAddr, dst, 8, [if dst = 255 then 32 else 16, 9, 0, 2, 0xff, 0xD8, 0xFE, 0x00]⟩

/-- `ParseMessages` with a complete commanded-address transfer waiting: the TP.CM frame needs a slot for the
session; the two TP.DT frames complete it; the message is handled and the slot freed -/
def parseCmd (n : Node) (dst nm a : Nat) : Node :=
  if readsBus n.inst then
    let st1 := (Rx.rx cfg n.rx n.inst.s.now (cmdOpenFrame dst)).1
    let i := Rx.findFirst st1 (Rx.tpMatchP 65240 toolAddr dst) st1.N 0
    if i < st1.N then ⟨parse n.inst [.cmd dst nm a], Rx.setSlot st1 i (Rx.freeSlot (st1.slot i))⟩
    else ⟨parse n.inst [], st1⟩
  else ⟨parse n.inst [], n.rx⟩

/-- the application's `SendMsg(msg, dev)` -/
def appSend (x : Inst) (m : Msg) (dev : Option Nat) : Inst × Bool :=
  let x0 := if x.s.openState = 3 then x else Claim.openStep x
  if x0.s.openState = 3 then
    let r := sendMsg x0.s m dev
    ({ x0 with s := r.1 }, r.2)
  else (x0, false)

/-! steps with the frames the driver accepted (as in `Bus.libParse`) -/

def clr (n : Node) : Node := ⟨Bus.clearSent n.inst, n.rx⟩

def stepFrame (n : Node) (f : Frame) : Node × List Frame :=
  let n' := parseFrame (clr n) f; (n', n'.inst.s.drv.sent)

def stepCmd (n : Node) (dst nm a : Nat) : Node × List Frame :=
  let n' := parseCmd (clr n) dst nm a; (n', n'.inst.s.drv.sent)

def stepSend (n : Node) (m : Msg) (dev : Option Nat) : Node × Bool × List Frame :=
  let r := appSend (Bus.clearSent n.inst) m dev; (⟨r.1, n.rx⟩, r.2, r.1.s.drv.sent)

end N2k.ClaimRx
