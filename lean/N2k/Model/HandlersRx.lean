import N2k.Model.Handlers
import N2k.Model.Rx
/-!
# Node-level receive step for C14: the receive path of C02 (`N2k.Rx.rx`, imported unchanged) composed with the handler list

`ParseMessages` per received frame: `MsgIndex=SetN2kCANBufMsg(...)`; if a message is complete
`HandleReceivedSystemMessage / ForwardMessage`, `RunMessageHandlers(N2kCANMsgBuf[MsgIndex].N2kMsg)`, `FreeMessage()`.
`N2k.Rx.rx` is exactly "`SetN2kCANBufMsg` + deliver + `FreeMessage`" and returns the completed message, if any; here that
message is handed to `dispatch` of `Model/Handlers.lean`.  Whether the library also consumed the message itself
(`HandleReceivedSystemMessage`) has no influence on the call of `RunMessageHandlers`.

The receive model `N2k.Rx` covers single frames, fast packets and the slot a TP.CM RTS/BAM takes; the payload reassembly of
TP.DT packets is the receiver of C10 (`N2k.TP`, a different state space).  Its result is an INPUT here: event `tpDone`
("the transport-protocol receiver has just completed message `m` on that bus"), which frees the session's slot like
`FreeMessage()` does and dispatches `m`.
-/
namespace N2k.Handlers

/-- one call of `RunMessageHandlers` as the application sees it -/
structure Call where
  bus : BusId
  msg : Rx.Msg              -- the message object passed to the callback and to every `HandleMsg`
  cb : Nat                  -- times the plain callback ran
  hs : List Id              -- handler objects whose `HandleMsg` ran, in call order
deriving DecidableEq, Repr

/-- handler objects of all bus objects + the receive slots of every bus object -/
structure Node where
  w : World
  rx : BusId → Rx.St

inductive Ev where
  | op (o : Op)                                       -- client operation on handlers
  | frame (bus : BusId) (now : Nat) (f : Rx.Frame)    -- a CAN frame read by `ParseMessages` of that bus at time `now`
  | tpDone (bus : BusId) (m : Rx.Msg)                 -- INPUT: last TP.DT packet of a transfer carrying `m` was accepted

def setRx (rx : BusId → Rx.St) (b : BusId) (st : Rx.St) : BusId → Rx.St := fun x => if x = b then st else rx x

/-- the slot of the TP session that carried `m` is freed after delivery (`FreeMessage()`) -/
def tpFree (st : Rx.St) (m : Rx.Msg) : Rx.St :=
  if Rx.findFirst st (Rx.tpMatchP m.pgn m.src m.dst) st.N 0 < st.N then
    Rx.setSlot st (Rx.findFirst st (Rx.tpMatchP m.pgn m.src m.dst) st.N 0)
      (Rx.freeSlot (st.slot (Rx.findFirst st (Rx.tpMatchP m.pgn m.src m.dst) st.N 0)))
  else st

/-- receive side only (no handlers): new slot states and the message completed by this event, if any -/
def rxTrack (c : BusId → Rx.Cfg) (rx : BusId → Rx.St) : Ev → (BusId → Rx.St) × Option (BusId × Rx.Msg)
  | .op _ => (rx, none)
  | .frame b now f =>
    (setRx rx b (Rx.rx (c b) (rx b) now f).1, ((Rx.rx (c b) (rx b) now f).2).map fun m => (b, m))
  | .tpDone b m => (setRx rx b (tpFree (rx b) m), some (b, m))

/-- one event: client operation, or receive step followed by `RunMessageHandlers` for the completed message -/
def nodeStep (c : BusId → Rx.Cfg) (n : Node) (e : Ev) : Option (Node × Option Call) :=
  match e with
  | .op o =>
    match step n.w o with
    | none => none
    | some w' => some (⟨w', n.rx⟩, none)
  | e =>
    match (rxTrack c n.rx e).2 with
    | none => some (⟨n.w, (rxTrack c n.rx e).1⟩, none)
    | some bm =>
      match dispatch n.w bm.1 bm.2.pgn with
      | none => none
      | some r => some (⟨n.w, (rxTrack c n.rx e).1⟩, some ⟨bm.1, bm.2, r.1, r.2⟩)

/-- a whole history; for every event the call of `RunMessageHandlers` it caused, if any (aligned with the history) -/
def nodeRun (c : BusId → Rx.Cfg) : Node → List Ev → Option (Node × List (Option Call))
  | n, [] => some (n, [])
  | n, e :: evs =>
    match nodeStep c n e with
    | none => none
    | some r =>
      match nodeRun c r.1 evs with
      | none => none
      | some r2 => some (r2.1, r.2 :: r2.2)

end N2k.Handlers
