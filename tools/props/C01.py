"""C01 - framing of sent messages (CAN id, single frame, fast packet, sequence ids, classification)."""
SPEC = {
    'engine': 'send', 'harness': 'send.cpp',
    'repo_srcs': ['N2kMsg.cpp', 'N2kStream.cpp', 'N2kMessages.cpp', 'N2kTimer.cpp', 'N2kGroupFunction.cpp', 'N2kGroupFunctionDefaultHandlers.cpp', 'NMEA2000.cpp'],
    'variants': ['', 't32'],
    'lean_modules': ['N2k.Props.Consts.C01', 'N2k.Props.C01'], 'props_files': ['N2k/Props/Consts/C01.lean', 'N2k/Props/C01.lean'],
    'translators': ['constants', 'pgn_tables'],
    'case_start': ['reset', 'reset0', 'tpseq'],
    'trusted_base': ["PGN classification tables are REGENERATED from src/NMEA2000.cpp on every run (tools/translators/pgn_tables.py: the "
                     "translation unit is compiled with a sweeping main and each classification function is EXECUTED on all 2^18 PGNs, the "
                     "arrays read to their terminator; a regex reading of g++ -E output is the cross-check) and the classification "
                     "theorems are re-proved against them by decide +kernel",
                     "frozen specification: lean/N2k/Spec/J1939.lean (identifier, fast-packet format, receiver reassembly) and "
                     "/verif/spec/fast_packet_pgns.txt (NMEA 2000 fast-packet PGN list)",
                     "model N2k/Model/Send.lean transcribes N2ktoCanID, SendMsg (dm_None, open node), GetSequenceCounter, "
                     "IsFastPacketPGN by hand; unsigned long = 64 bit (LP64)"],
    'assumptions': ["node is open (open/claim state machine is C04/C03)", "0 <= DataLen <= 223", "PGN < 2^24 for the sequence-counter slot encoding",
                    "ISO-TP flagged messages are outside this engine (C10)"],
}
MANIFEST = {
    'text': "Theorems for ALL inputs: identifier = J1939 arithmetic layout for every priority/PGN(18 bit)/source/destination and "
            "decodes back (2^17 PGNs); refusal of PGN 0, PDU1 with non-zero low byte, source > 251, bad device, listen-only with no "
            "state change; single frame = one frame with DLC = length and the payload; fast-packet frames for every length 0..223 "
            "equal the wire-format closed form and reassemble to the payload (bytes beyond the length have no influence); a PGN that "
            "owns a counter slot gets consecutive sequence ids modulo 8 under any interleaving of other PGNs; classification of "
            "every PGN equals the frozen NMEA 2000 list (tables regenerated from the source each run). Correspondence: real "
            "SendMsg behind a mock driver vs the model on generated sends (id sweep over the PGN space, all lengths, PGN classes, "
            "1..9 devices, declared lists) plus an independent reference encoder.",
    'design_ref': 'DESIGN.md section 4, C01',
    'note': "Trusted: Lean kernel; table translator (execution of the source's own functions over all PGNs) cross-checked by a textual "
            "reading and by the differential run; frozen spec tables; hand model validated by differential runs. Slot availability "
            "for declared PGNs is proved (pigeonhole over the slot invariant: C01_sequence_declared, C01_sequence_fresh); an "
            "undeclared PGN shares the common slot, for which only 'some id 0..7' is claimed.",
}
