// Mock CAN driver + virtual clock around the REAL tNMEA2000 (all node-level harnesses).
// Timer builds: default (Linux, 64-bit scheduler, clock_gettime interposed) and -DN2K_VERIF_T32
// (compiled with -U__linux__: 32-bit "microcontroller" scheduler, harness-defined millis()).
#pragma once
#include "common.h"
#include "NMEA2000.h"
#include "N2kMessages.h"
#include <deque>
#include <time.h>

namespace vh {

static uint64_t g_now = 0;   // virtual milliseconds
#ifdef N2K_VERIF_T32
extern "C" uint32_t millis() { return (uint32_t)g_now; }
#else
extern "C" int clock_gettime(clockid_t, struct timespec *ts) {
  ts->tv_sec = (time_t)(g_now / 1000); ts->tv_nsec = (long)(g_now % 1000) * 1000000L; return 0;
}
extern "C" uint32_t millis() { return (uint32_t)g_now; }
#endif

struct Frame { unsigned long id; unsigned char len; unsigned char buf[8]; uint64_t t; };

inline std::string frameStr(const Frame &f) {
  char b[64]; snprintf(b, sizeof b, "%lx:%u:", f.id & 0xffffffffUL, f.len);
  return std::string(b) + hex(f.buf, f.len > 8 ? 8 : f.len);
}

struct MockN2k : public tNMEA2000 {
  std::deque<bool> acceptScript; bool acceptDefault = true; bool openOk = true;
  std::vector<Frame> sent;            // frames accepted by the "driver" since last clearSent
  long sendCalls = 0, refused = 0;
  std::deque<Frame> rxq;
  bool CANSendFrame(unsigned long id, unsigned char len, const unsigned char *buf, bool) override {
    ++sendCalls;
    bool a = acceptDefault; if (!acceptScript.empty()) { a = acceptScript.front(); acceptScript.pop_front(); }
    if (!a) { ++refused; return false; }
    Frame f; f.id = id; f.len = len; memset(f.buf, 0, 8); memcpy(f.buf, buf, len > 8 ? 8 : len); f.t = g_now; sent.push_back(f);
    return true;
  }
  int64_t openedAt = -1; long openCalls = 0;     // virtual time of the first successful CANOpen()
  bool CANOpen() override { ++openCalls; if (openOk && openedAt < 0) openedAt = (int64_t)g_now; return openOk; }
  bool CANGetFrame(unsigned long &id, unsigned char &len, unsigned char *buf) override {
    if (rxq.empty()) return false;
    Frame f = rxq.front(); rxq.pop_front(); id = f.id; len = f.len; memcpy(buf, f.buf, 8); return true;
  }
  void rx(unsigned long id, unsigned char len, const unsigned char *b) { Frame f; f.id = id; f.len = len; memset(f.buf, 0xAA, 8); memcpy(f.buf, b, len > 8 ? 8 : len); f.t = g_now; rxq.push_back(f); }
  // protected internals exposed to harnesses (no source hook needed)
  bool sendFramesNow() { return SendFrames(); }
  int devCount() const { return DeviceCount; }
  uint16_t qRead() const { return CANSendFrameBufferRead; }
  uint16_t qWrite() const { return CANSendFrameBufferWrite; }
  bool isOpen() const { return OpenState == os_Open; }
  std::string takeSent() { std::string r; for (auto &f : sent) { if (!r.empty()) r += ' '; r += frameStr(f); } sent.clear(); return r; }
};

// poll until open and all address claims have settled (clock advances 1 ms per poll)
inline void openAndSettle(MockN2k &n, int ms = 600) {
  for (int i = 0; i < ms; i++) { n.ParseMessages(); g_now++; }
}

}  // namespace vh
