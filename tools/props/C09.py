"""C09 - NMEA group function PGN 126208: requests/commands/reads/writes are answered and supported commands take effect."""
SPEC = {
    'engine': 'gf', 'harness': 'gf.cpp',
    'repo_srcs': ['N2kMsg.cpp', 'N2kStream.cpp', 'N2kMessages.cpp', 'N2kTimer.cpp', 'N2kGroupFunction.cpp', 'N2kGroupFunctionDefaultHandlers.cpp', 'NMEA2000.cpp'],
    'variants': ['', 't32'],
    'lean_modules': ['N2k.Props.C09'], 'props_files': ['N2k/Props/C09.lean'],
    'translators': ['pgn_tables'],
    'case_start': ['reset'],
    'trusted_base': ["model N2k/Model/GroupFunction.lean transcribes N2kGroupFunction.cpp, N2kGroupFunctionDefaultHandlers.cpp and "
                     "HandleGroupFunction / RespondGroupFunction / AddGroupFunctionHandler / SetDeviceInformationInstances / "
                     "SetInstallationDescription1,2 / SetHeartbeatIntervalAndOffset / SendIsoAddressClaim(delayed) / the message builders "
                     "for 126464, 126996, 126998, 126993 of NMEA2000.cpp by hand, at the level of a reassembled tN2kMsg; the send path is "
                     "N2k/Model/Send.lean (C01/C04/C11)",
                     "default transmit/receive PGN lists are REGENERATED from src/NMEA2000.cpp on every run (tools/translators/pgn_tables.py)",
                     "frozen request layout: lean/N2k/Spec/GroupFunction.lean (header, parameter pairs in the field widths of PGN 60928 / "
                     "126464 / 126996 / 126998); the harness oracle has its own reader of the same layout",
                     "string codec inside the model (GetStr, GetVarStr, UCS-2 <-> UTF-8, AddVarStr) is a list-level transcription validated "
                     "by the differential run only; its memory safety is C16's subject"],
    'assumptions': ["node open and address claims settled; mode NodeOnly / ListenAndNode (other modes: correspondence only)",
                    "fast-packet carriage of the request (ISO-TP flag carried through the model, not exercised); 0 <= DataLen <= 223",
                    "configuration information set with three non-null RAM strings; every device 0 has RAM product information",
                    "stored installation descriptions are valid UTF-8 (7-bit type-1 strings and UCS-2 strings always are)",
                    "the periodic heartbeat and the first two bytes (interval encoding) of PGN 126993 are C12's subject and are not compared",
                    "retry of product/configuration information after a failed send (pending flags) is C08's subject"],
}
MANIFEST = {
    'text': "Theorems over the model of HandleGroupFunction for ALL messages, handler chains and device states: Acknowledge / ReadReply / "
            "WriteReply function codes and broadcast Command / Read / Write produce no output and no state change; nothing sent to the "
            "global address is ever acknowledged; an addressed Request / Command / Read / Write (chain with a default handler) yields "
            "either the requested PGN (only Request, only the five served PGNs) or exactly one Acknowledge whose bytes 1..3 echo the PGN, "
            "byte 5 the pair count, with ceil(pairs/2) parameter bytes (<= 134 bytes for pair counts 0..255); for well-formed requests "
            "to 60928 / 126464 / 126996 / 126998 with ANY list of selection fields the request is served iff every field equals the "
            "device's value of THAT attribute (per field: unique number ... industry group; database version, product code, model id, "
            "software code, model version, serial code, certification, LEN; installation description 1/2, manufacturer information), "
            "an unknown field number gives error code 1 for it and 2 for the rest; the 60928 command stores lower/upper/system instance "
            "masked to 3/5/4 bits and latches device-information-changed iff something changed; the 126998 command stores the "
            "descriptions, latches the flag and a following configuration-information request is served with them; the 126993 request "
            "sets interval (1000..60000 ms) and offset (<= 60000 ms) and is refused outside and for 0 with the state unchanged; the delayed "
            "address claim is armed, not lost by other answers and sent once by a poll >= 3 ms later. Run level: from any reachable state and "
            "after ANY history of messages/polls/clock advances the next message is answered as above (C09_history_answers) and the "
            "configuration state equals the in-order fold of the accepted commands over the initial state (C09_history_configuration); an armed "
            "address claim survives any history that does not re-arm it, is handed to SendMsg at the poll >= 3 ms later and never again until "
            "re-armed (C09_history_delayed_claim). "
            "Correspondence: the real node behind a mock CAN driver (both timer builds) receives generated fast-packet 126208 messages "
            "(per-field match/mismatch/other-attribute/truncated/repeated/unknown experiments for every field of every handler, all "
            "function codes x dedicated/transmit/unknown/proprietary PGNs x addressed/broadcast/foreign, pair counts 0..255, interval/"
            "offset boundaries and random 32/16-bit values, command sequences with read-back, malformed bodies of every length); emitted "
            "messages and getDevInfo/getInstDesc/getHeartbeat/readResetFlags are diffed against the model and judged by an oracle that "
            "reads the request itself.",
    'design_ref': 'DESIGN.md section 4, C09',
    'note': "Trusted: Lean kernel; hand model validated by differential runs; PGN tables translator. Model is of the repaired code "
            "(two fix commits in the worktree). Error-code DETAILS beyond the statement are transcribed, not demanded (observed: the 60928 "
            "command never reports a priority error; a Command for a transmit PGN without command support is acknowledged positively; "
            "60928 request fields 6 and 10 are accepted with any value; a string field after an earlier mismatch gets code 3 even when it "
            "matches; a malformed 126998 command string stores an empty description).",
}
