// C17 harness: drives the real tN2kMsg::SendInActisenseFormat (src/N2kMsg.cpp) and tActisenseReader
// (src/ActisenseReader.cpp) through an in-memory N2kStream.
// ops: enc prio pgn dst src time datahex      encode one message, output = bytes written
//      rnew defaultSource fill                new reader, MsgBuf filled with <fill>, empty stream
//      now t                                  set N2kMillis()
//      push hex | encpush prio pgn dst src time datahex   append bytes / the real encoder's output to the stream
//      get readOut                            one GetMessageFromStream(msg, readOut)
//      parse                                  ParseMessages() with a collecting handler
//      drop n                                 the application removes n bytes from the stream itself
#include "common.h"
#include <deque>
#include "N2kMsg.h"
#include "N2kStream.h"
#include "N2kTimer.h"
#include "ActisenseReader.h"

using namespace vh;
static Ctx C;
typedef std::vector<unsigned char> Bytes;

// ---- virtual clock (N2kTimer.cpp is not linked) -------------------------------------------------
static uint32_t g_now = 0;
uint32_t N2kMillis() { return g_now; }
uint64_t N2kMillis64() { return g_now; }

// ---- memory stream -------------------------------------------------------------------------------
struct MemStream : public N2kStream {
  std::deque<unsigned char> in;
  Bytes *seen = nullptr;    // every byte the reader consumed, in order
  Bytes outv; int writes = 0;
  int read() override { if (in.empty()) return -1; unsigned char b = in.front(); in.pop_front(); if (seen) seen->push_back(b); return b; }
  int peek() override { peeked = true; return in.empty() ? -1 : in.front(); }
  size_t write(const uint8_t *d, size_t n) override { outv.insert(outv.end(), d, d + n); writes++; return n; }
  bool peeked = false;
};
struct TestReader : public tActisenseReader {
  void fill(unsigned char v) { memset(MsgBuf, v, sizeof MsgBuf); }
};

// ---- reference frame grammar, written from the format description (model independent) ----------
//   <10><02> escaped(body) <10><03>,  body = type len prio pgn[3] dst [src time[4]] dlen data[dlen] crc
struct RefMsg { int prio = 0; unsigned long pgn = 0; int dst = 0, src = 0; bool hasTime = false; uint32_t time = 0; int len = 0; Bytes data; };
enum RefVerdict { RV_OK, RV_NOFRAME, RV_TYPE, RV_LENBYTE, RV_CHECKSUM, RV_DATALEN, RV_TOOLONG };
static const char *rvName(RefVerdict v) {
  switch (v) { case RV_OK: return "ok"; case RV_NOFRAME: return "no-frame"; case RV_TYPE: return "type"; case RV_LENBYTE: return "length-byte-mismatch";
    case RV_CHECKSUM: return "checksum-mismatch"; case RV_TOOLONG: return "data-length-over-223"; default: return "data-length-mismatch"; }
}
// s[p..e) is a candidate frame: s[p]=10 s[p+1]=02 ... s[e-2]=10 s[e-1]=03
static RefVerdict refParse(const Bytes &s, size_t p, size_t e, RefMsg &m, int defaultSource) {
  if (e < p + 4 || s[p] != 0x10 || s[p + 1] != 0x02 || s[e - 2] != 0x10 || s[e - 1] != 0x03) return RV_NOFRAME;
  Bytes body;
  for (size_t i = p + 2; i < e - 2; i++) {
    if (s[i] == 0x10) { if (i + 1 >= e - 2 || s[i + 1] != 0x10) return RV_NOFRAME; i++; }
    body.push_back(s[i]);
  }
  if (body.size() < 1 || (body[0] != 0x93 && body[0] != 0x94)) return RV_TYPE;
  if (body.size() < 3 || (size_t)body[1] + 3 != body.size()) return RV_LENBYTE;
  unsigned sum = 0; for (unsigned char b : body) sum += b;
  if (sum % 256 != 0) return RV_CHECKSUM;
  size_t hdr = body[0] == 0x93 ? 13 : 8;
  if (body.size() < hdr + 1) return RV_DATALEN;
  size_t dl = body[hdr - 1];
  if (hdr + dl + 1 != body.size()) return RV_DATALEN;
  if (dl > 223) return RV_TOOLONG;   // self-consistent, but more payload than a tN2kMsg can hold
  m.prio = body[2]; m.pgn = body[3] | (body[4] << 8) | ((unsigned long)body[5] << 16); m.dst = body[6];
  if (body[0] == 0x93) { m.src = body[7]; m.hasTime = true; m.time = body[8] | (body[9] << 8) | (body[10] << 16) | ((uint32_t)body[11] << 24); }
  else { m.src = defaultSource; m.hasTime = false; }
  m.len = (int)dl; m.data.assign(body.begin() + hdr, body.begin() + hdr + dl);
  return RV_OK;
}
static bool sameMsg(const RefMsg &r, const tN2kMsg &m) {
  return r.prio == m.Priority && r.pgn == m.PGN && r.dst == m.Destination && r.src == m.Source && r.len == m.DataLen &&
         (r.len == 0 || memcmp(r.data.data(), m.Data, r.len) == 0);
  // MsgTime is NOT compared: the property lists PGN, priority, source, destination and payload as what is recovered; the
  // decoded time stamp (embedded sender time or local receive time) is left open. It stays in the canonical output, so
  // the correspondence with the model (which decodes the embedded time) still sees it.
}
// reference encoder (generator only)
static void escPush(Bytes &o, unsigned char b) { o.push_back(b); if (b == 0x10) o.push_back(b); }
static Bytes refFrame(const Bytes &bodyNoCrc, int crcDelta = 0) {
  Bytes o = {0x10, 0x02}; unsigned sum = 0;
  for (unsigned char b : bodyNoCrc) { escPush(o, b); sum += b; }
  escPush(o, (unsigned char)((256 - sum % 256 + crcDelta) % 256)); o.push_back(0x10); o.push_back(0x03); return o;
}
static Bytes refBody(int type, int prio, unsigned long pgn, int dst, int src, uint32_t t, const Bytes &data, int lenByte = -1, int dlenByte = -1) {
  Bytes b; b.push_back(type); b.push_back(lenByte >= 0 ? lenByte : (int)data.size() + (type == 0x93 ? 11 : 6));
  b.push_back(prio); b.push_back(pgn & 255); b.push_back((pgn >> 8) & 255); b.push_back((pgn >> 16) & 255); b.push_back(dst);
  if (type == 0x93) { b.push_back(src); for (int i = 0; i < 4; i++) b.push_back((t >> (8 * i)) & 255); }
  b.push_back(dlenByte >= 0 ? dlenByte : (int)data.size());
  b.insert(b.end(), data.begin(), data.end()); return b;
}

// ---- state of the reader case --------------------------------------------------------------------
static TestReader *rd = nullptr; static MemStream *rs = nullptr;
// idlePoints: positions of the consumed stream at which Handling() was observed false with no byte peeked-but-unread
static std::vector<size_t> idlePoints;
static Bytes seen; static size_t checkedTo = 0; static int defSrc = 65; static bool oracleOn = true;
struct Report { size_t pos; tN2kMsg m; };
static std::vector<Report> reports; static size_t reportsChecked = 0;
static std::string caseDesc; static bool caseReported = false; static long caseMsgs = 0;
static MemStream *handlerStream = nullptr;
static void onMsg(const tN2kMsg &m) { Report r; r.pos = seen.size(); r.m = m; reports.push_back(r); }

static void endCase() {
  if (!caseDesc.empty()) { C.cases++; if (caseReported) C.nontrivial(caseDesc); }
  caseDesc.clear(); caseReported = false; caseMsgs = 0;
}

static std::string msgStr(const tN2kMsg &m) {
  char b[160]; int n = m.DataLen < 0 ? 0 : (m.DataLen > 223 ? 223 : m.DataLen);
  snprintf(b, sizeof b, "%u %lu %u %u %lu %d ", (unsigned)m.Priority, m.PGN, (unsigned)m.Destination, (unsigned)m.Source, (unsigned long)m.MsgTime, m.DataLen);
  return std::string(b) + hex(m.Data, n);
}

// the property oracle for the reader, evaluated on what the reader has consumed so far
static void readerOracle() {
  if (!oracleOn) { reportsChecked = reports.size(); checkedTo = seen.size(); return; }
  // (1) every reported message is a frame of the consumed stream with consistent length, checksum and data length
  for (; reportsChecked < reports.size(); reportsChecked++) {
    const Report &r = reports[reportsChecked]; size_t e = r.pos; bool explained = false; RefVerdict best = RV_NOFRAME;
    if (r.m.DataLen < 0 || r.m.DataLen > tN2kMsg::MaxDataLen) { C.fail("C17:reader-reported:DataLen-out-of-range", "at byte %zu reported DataLen %d", e, r.m.DataLen); continue; }
    for (size_t back = 4; back <= e && back <= 700 && !explained; back++) {
      size_t p = e - back; if (seen[p] != 0x10 || seen[p + 1] != 0x02) continue;
      RefMsg m; RefVerdict v = refParse(seen, p, e, m, defSrc);
      if (v == RV_OK && sameMsg(m, r.m)) explained = true;
      else if (v == RV_OK) { if (best == RV_NOFRAME) best = RV_OK; }
      else if (v != RV_NOFRAME && (best == RV_NOFRAME)) best = v;
    }
    if (!explained) {
      if (best == RV_OK) C.fail("C17:reader-reported:fields-differ", "at byte %zu reported %s", e, msgStr(r.m).c_str());
      else C.fail(std::string("C17:reader-reported:") + rvName(best), "at byte %zu reported %s", e, msgStr(r.m).c_str());
    } else C.count("reports_explained");
  }
  // (2) resynchronisation: a well-formed frame whose start sequence does not follow a 0x10 must be reported when its
  //     last byte has been consumed
  for (size_t e = (checkedTo < 4 ? 4 : checkedTo + 1); e <= seen.size(); e++) {
    if (seen[e - 1] != 0x03 || seen[e - 2] != 0x10) continue;
    for (size_t back = 4; back <= e && back <= 700; back++) {
      size_t p = e - back; if (seen[p] != 0x10 || seen[p + 1] != 0x02) continue;
      if (p > 0 && seen[p - 1] == 0x10) {
        // a start sequence behind a 0x10 must still be honoured when the reader was idle (nothing pending) at some point
        // q <= p and no start sequence occurred in between: outside a message the next start sequence starts one
        bool ok = false; size_t q = 0; bool have = false;
        for (size_t k = idlePoints.size(); k-- > 0;) if (idlePoints[k] <= p) { q = idlePoints[k]; have = true; break; }
        if (have) { ok = true; for (size_t i = q; i < p; i++) if (seen[i] == 0x10 && seen[i + 1] == 0x02) ok = false; }
        if (!ok) continue;
        C.count("frames_behind_stray_escape_required");
      }
      RefMsg m; if (refParse(seen, p, e, m, defSrc) != RV_OK) continue;
      bool found = false; for (auto &r : reports) if (r.pos == e && sameMsg(m, r.m)) found = true;
      if (!found) C.fail(p == 0 || back == e ? "C17:resync:frame-at-stream-start-missed" : "C17:resync:frame-missed", "frame at bytes %zu..%zu not reported", p, e);
      else C.count("wellformed_frames_reported");
      break;
    }
  }
  checkedTo = seen.size();
}

static bool parseMsgArgs(const std::vector<std::string> &w, tN2kMsg &m, Bytes &d) {
  if (w.size() != 7) return false;
  d = unhex(w[6]); if (d.size() > 223) return false;
  m.Priority = (unsigned char)strtoul(w[1].c_str(), 0, 10); m.PGN = strtoul(w[2].c_str(), 0, 10);
  m.Destination = (unsigned char)strtoul(w[3].c_str(), 0, 10); m.Source = (unsigned char)strtoul(w[4].c_str(), 0, 10);
  m.MsgTime = strtoul(w[5].c_str(), 0, 10); m.DataLen = (int)d.size(); if (!d.empty()) memcpy(m.Data, d.data(), d.size());
  return true;
}

// oracle of the encoder: the frame, read back by the library's reader, is the message (exactly one)
static std::vector<tN2kMsg> rtMsgs; static void rtHandler(const tN2kMsg &m) { rtMsgs.push_back(m); }
static void roundtripOracle(const tN2kMsg &m, const Bytes &d, const Bytes &frame) {
  if (m.PGN == 0 || m.PGN >= (1ul << 24) || d.empty()) return;
  unsigned sum = 0x93 + (d.size() + 11) + m.Priority + (m.PGN & 255) + ((m.PGN >> 8) & 255) + ((m.PGN >> 16) & 255) + m.Destination + m.Source + d.size();
  size_t total = 2 + 13 + d.size() + 1 + 2; unsigned char hb[13] = {0x93, (unsigned char)(d.size() + 11), m.Priority, (unsigned char)m.PGN, (unsigned char)(m.PGN >> 8), (unsigned char)(m.PGN >> 16), m.Destination, m.Source,
    (unsigned char)m.MsgTime, (unsigned char)(m.MsgTime >> 8), (unsigned char)(m.MsgTime >> 16), (unsigned char)(m.MsgTime >> 24), (unsigned char)d.size()};
  for (int i = 8; i < 12; i++) sum += hb[i];
  for (unsigned char b : hb) if (b == 0x10) total++;
  for (unsigned char b : d) { sum += b; if (b == 0x10) total++; }
  bool crcEsc = ((256 - sum % 256) % 256) == 0x10; if (crcEsc) { total++; C.count("enc_checksum_is_escape"); }
  std::string cls = total > 255 ? "frame-over-255-bytes" : "frame-up-to-255-bytes";
  if (total > 255) C.count("enc_frames_over_255_bytes");
  TestReader r; MemStream s; r.fill(0xA5); r.SetReadStream(&s); r.SetMsgHandler(rtHandler);
  s.in.insert(s.in.end(), frame.begin(), frame.end()); rtMsgs.clear(); r.ParseMessages();
  if (rtMsgs.empty()) { C.fail("C17:roundtrip:" + cls + ":not-decoded", "%zu bytes written (expected %zu), reader returned no message", frame.size(), total); return; }
  if (rtMsgs.size() != 1) { C.fail("C17:roundtrip:" + cls + ":several-messages", "reader returned %zu messages", rtMsgs.size()); return; }
  const tN2kMsg &g = rtMsgs[0];
  if (g.PGN != m.PGN || g.Priority != m.Priority || g.Source != m.Source || g.Destination != m.Destination || g.DataLen != m.DataLen ||
      memcmp(g.Data, m.Data, m.DataLen) != 0) C.fail("C17:roundtrip:" + cls + ":differs", "sent %s got %s", msgStr(m).c_str(), msgStr(g).c_str());
  else if (s.in.size() != 0 || r.Handling()) C.fail("C17:roundtrip:" + cls + ":reader-not-idle", "left %zu bytes, handling %d", s.in.size(), (int)r.Handling());
  else C.count("enc_roundtrips_ok");
  if (frame.size() != total) C.fail("C17:roundtrip:" + cls + ":frame-size", "%zu bytes written, format needs %zu", frame.size(), total);
}

// lastGetStuck: the last op was a GetMessageFromStream that returned nothing and consumed nothing although bytes were
// available: its first loop iteration processed the front byte and left it in the stream
static int lastGetResult = 0; static bool lastGetStuck = false;
static void exec(const std::string &line) {
  std::vector<std::string> w = split(line);
  C.op("%s", line.c_str());
  if (w.empty()) { C.out("bad-op"); return; }
  C.count("op_" + w[0]);
  if (w[0] == "enc" || w[0] == "rnew") endCase();
  caseDesc += line; caseDesc += ';';
  if (w[0] == "enc" || w[0] == "encpush") {
    tN2kMsg m; Bytes d;
    if (!parseMsgArgs(w, m, d) || (w[0] == "encpush" && !rd)) { C.out("bad-op"); return; }
    MemStream o; m.SendInActisenseFormat(&o);
    C.outs(hex(o.outv.data(), o.outv.size()));
    if (o.writes > 1) C.fail("C17:enc-several-writes", "%d write calls", o.writes);
    if (w[0] == "enc") { roundtripOracle(m, d, o.outv); if (m.PGN != 0 && !d.empty()) caseReported = true; }
    else rs->in.insert(rs->in.end(), o.outv.begin(), o.outv.end());
    return;
  }
  if (w[0] == "rnew" && (w.size() == 3 || w.size() == 4)) {   // 4th word: time-stamp mode for the model (not used here)
    delete rd; delete rs; rd = new TestReader(); rs = new MemStream();
    defSrc = atoi(w[1].c_str()); rd->fill((unsigned char)atoi(w[2].c_str())); rd->SetDefaultSource((unsigned char)defSrc);
    seen.clear(); rs->seen = &seen; rd->SetReadStream(rs); rd->SetMsgHandler(onMsg);
    reports.clear(); reportsChecked = 0; checkedTo = 0; oracleOn = true; idlePoints.clear(); idlePoints.push_back(0);
    C.out("ok"); return;
  }
  if (w[0] == "now" && w.size() == 2) { g_now = (uint32_t)strtoul(w[1].c_str(), 0, 10); C.out("ok"); return; }
  if (!rd) { C.out("bad-op"); return; }
  if (w[0] == "push" && w.size() == 2) {
    lastGetStuck = false; Bytes b = unhex(w[1]); rs->in.insert(rs->in.end(), b.begin(), b.end()); C.out("ok %zu", rs->in.size()); return;
  }
  if (w[0] == "drop" && w.size() == 2) {
    size_t n = strtoul(w[1].c_str(), 0, 10);
    // a dropped byte belongs to the stream the reader has processed only if the reader has peeked at it
    if (n != 1 || !lastGetStuck) { oracleOn = false; C.count("cases_with_oracle_off_after_blind_drop"); }
    for (size_t i = 0; i < n && !rs->in.empty(); i++) { seen.push_back(rs->in.front()); rs->in.pop_front(); }
    lastGetStuck = false;
    C.out("ok %zu", rs->in.size()); return;
  }
  if (w[0] == "get" && w.size() == 2) {
    bool ro = w[1] != "0"; tN2kMsg m; m.Clear();
    size_t before = rs->in.size();
    // canaries inside the message object: the padding between Data[] and MsgTime and everything behind MsgTime
    // (an overflow of Data[] inside the object is invisible to ASan)
    unsigned char *g1 = m.Data + tN2kMsg::MaxDataLen, *g1e = (unsigned char *)&m.MsgTime;
    unsigned char *g2 = (unsigned char *)(&m.MsgTime + 1), *g2e = (unsigned char *)&m + sizeof(m);
    Bytes save1(g1, g1e), save2(g2, g2e); memset(g1, 0xC5, g1e - g1); memset(g2, 0xC5, g2e - g2);
    bool r = rd->GetMessageFromStream(m, ro);
    { bool hit = false; for (unsigned char *q = g1; q < g1e; q++) hit |= *q != 0xC5; for (unsigned char *q = g2; q < g2e; q++) hit |= *q != 0xC5;
      if (hit) C.fail("C17:reader-wrote-behind-Data", "bytes of the message object behind Data[%d] changed (DataLen %d)", tN2kMsg::MaxDataLen, m.DataLen);
      else C.count("canary_checks_ok");
      if (!save1.empty()) memcpy(g1, save1.data(), save1.size()); if (!save2.empty()) memcpy(g2, save2.data(), save2.size()); }
    lastGetResult = r; lastGetStuck = !r && before == rs->in.size() && before > 0;
    if (r) { Report rp; rp.pos = seen.size(); rp.m = m; reports.push_back(rp); caseReported = true; C.count("messages_reported");
      C.out("1 %zu %d %s", rs->in.size(), (int)rd->Handling(), msgStr(m).c_str()); }
    else C.out("0 %zu %d", rs->in.size(), (int)rd->Handling());
    if (!rd->Handling() && (ro || rs->in.empty())) idlePoints.push_back(seen.size());
    readerOracle(); return;
  }
  if (w[0] == "parse") {
    size_t n0 = reports.size(); rd->ParseMessages();
    lastGetResult = 0; lastGetStuck = false;
    std::string o = std::to_string(reports.size() - n0) + " " + std::to_string(rs->in.size()) + " " + std::to_string((int)rd->Handling());
    for (size_t i = n0; i < reports.size(); i++) { o += " ; "; o += msgStr(reports[i].m); caseReported = true; C.count("messages_reported"); }
    if (!rd->Handling()) idlePoints.push_back(seen.size());
    C.outs(o); readerOracle(); return;
  }
  C.out("bad-op");
}

// ---- generators ----------------------------------------------------------------------------------
static std::string hexs(const Bytes &b) { return hex(b.data(), b.size()); }
static void encOp(const char *op, int prio, unsigned long pgn, int dst, int src, unsigned long t, const Bytes &d) {
  char b[96]; snprintf(b, sizeof b, "%s %d %lu %d %d %lu ", op, prio, pgn, dst, src, t); exec(std::string(b) + hexs(d));
}
static unsigned char nonEsc(Rng &R) { unsigned char b; do b = (unsigned char)R.below(256); while (b == 0x10); return b; }
// payload of length n with exactly k escape bytes; mode 0: at the front, 1: at the end, 2: random positions
static Bytes payload(Rng &R, int n, int k, int mode) {
  Bytes d(n); for (auto &b : d) b = nonEsc(R);
  if (mode == 0) for (int i = 0; i < k; i++) d[i] = 0x10;
  else if (mode == 1) for (int i = 0; i < k; i++) d[n - 1 - i] = 0x10;
  else { std::vector<int> idx(n); for (int i = 0; i < n; i++) idx[i] = i; for (int i = 0; i < k; i++) { int j = i + (int)R.below(n - i); std::swap(idx[i], idx[j]); d[idx[i]] = 0x10; } }
  return d;
}
struct Hdr { int prio; unsigned long pgn; int dst, src; unsigned long t; };
static Hdr randHdr(Rng &R) {
  Hdr h; int k = (int)R.below(10);
  if (k == 0) h = {0x10, 0x101010, 0x10, 0x10, 0x10101010ul};           // every header byte is an escape
  else if (k == 1) h = {255, 0xFFFFFF, 255, 255, 0xFFFFFFFFul};
  else if (k == 2) h = {0, 1, 0, 0, 0};
  else h = {(int)R.below(256), (unsigned long)R.range(1, 0xFFFFFF), (int)R.below(256), (int)R.below(256), (unsigned long)R.next() & 0xFFFFFFFFul};
  if (R.chance(1, 6)) h.pgn = (h.pgn & 0xFFFF00) | 0x10; if (h.pgn == 0) h.pgn = 0x10;
  return h;
}
static unsigned sumOf(const Hdr &h, const Bytes &d) {
  unsigned s = 0x93 + (d.size() + 11) + (h.prio & 255) + (h.pgn & 255) + ((h.pgn >> 8) & 255) + ((h.pgn >> 16) & 255) + h.dst + h.src + d.size();
  for (int i = 0; i < 4; i++) s += (h.t >> (8 * i)) & 255; for (unsigned char b : d) s += b; return s;
}
static void forceChecksum(const Hdr &h, Bytes &d, unsigned char cs) {   // change the last byte so that the CRC becomes cs
  d.back() = 0; unsigned s = sumOf(h, d); d.back() = (unsigned char)((256 - cs + 256 - s % 256) % 256);
}

static void encoderSection(Rng &R) {
  // targeted first: the frame-size boundary of an 8 bit index (2+13+n+escapes+3 = 255/256), the worst case, tiny cases
  { Hdr h = {2, 0x1F801, 255, 1, 1000};
    for (int esc : {0, 13, 14, 15, 16, 100, 222, 223}) { Bytes d = payload(R, 223, esc, 2); if (esc < 223) { d.back() = nonEsc(R); } encOp("enc", h.prio, h.pgn, h.dst, h.src, h.t, d); }
    Hdr w = {0x10, 0x101010, 0x10, 0x10, 0x10101010ul}; encOp("enc", w.prio, w.pgn, w.dst, w.src, w.t, Bytes(223, 0x10));
    encOp("enc", w.prio, w.pgn, w.dst, w.src, w.t, Bytes(5, 0x10));   // length byte 16 is itself escaped
    encOp("enc", 6, 0, 255, 1, 0, Bytes(8, 1)); encOp("enc", 6, 126992, 255, 1, 0, Bytes());   // not IsValid(): nothing written
    encOp("enc", 6, 0x1FFFFFF, 255, 1, 0x123456789ul, Bytes(8, 0x10));                         // out of the property's range: low 24/32 bits are sent
  }
  C.sample("enc: 223-byte payloads with 0,13..16,100,222,223 escape bytes; all-escape header; invalid messages");
  int step = C.thorough ? 1 : 1;
  for (int n = 1; n <= 223; n += step) {
    std::set<int> ks;
    if (C.thorough) for (int k = 0; k <= n; k++) ks.insert(k);
    else { ks = {0, 1, n / 2, n - 1 < 0 ? 0 : n - 1, n, (int)R.below(n + 1)}; for (int k = 236 - n - 3; k <= 240 - n; k++) if (k >= 0 && k <= n) ks.insert(k); }
    for (int k : ks) {
      Hdr h = randHdr(R); Bytes d = payload(R, n, k, (int)R.below(3));
      if (R.chance(1, 5)) { bool lastIsEsc = d.back() == 0x10; if (!lastIsEsc || k == n) { forceChecksum(h, d, 0x10); } }
      encOp("enc", h.prio, h.pgn, h.dst, h.src, h.t, d);
    }
  }
  // exhaustive small scope: every payload over {0x10, 0x02, 0x03, 0x93} of length 1..(4|5), checksum forced to every interesting value
  { int L = C.thorough ? 6 : 4; const unsigned char al[4] = {0x10, 0x02, 0x03, 0x93};
    for (int n = 1; n <= L; n++) { long tot = 1; for (int i = 0; i < n; i++) tot *= 4;
      for (long c = 0; c < tot; c++) { Bytes d(n); long x = c; for (int i = 0; i < n; i++) { d[i] = al[x & 3]; x >>= 2; } encOp("enc", 0x10, 0x100210, 0x03, 0x10, 0x10031002ul, d); } }
    C.sample("enc: every payload over {10,02,03,93} up to length " + std::to_string(L));
  }
  for (int i = 0; i < (C.thorough ? 3000 : 300); i++) {
    int n = (int)R.range(1, 223); Hdr h = randHdr(R); Bytes d(n); int dens = (int)R.below(4);
    for (auto &b : d) b = R.chance(dens, 4) ? 0x10 : (unsigned char)R.below(256);
    if (R.chance(1, 4)) forceChecksum(h, d, R.chance(1, 2) ? 0x10 : (unsigned char)R.below(256));
    encOp("enc", h.prio, h.pgn, h.dst, h.src, h.t, d);
  }
}

// pieces of reader streams
static Bytes garbage(Rng &R, int n) {
  Bytes g(n); for (auto &b : g) { unsigned r = (unsigned)R.below(100); b = r < 25 ? 0x10 : r < 40 ? 0x02 : r < 55 ? 0x03 : r < 62 ? 0x93 : r < 66 ? 0x94 : (unsigned char)R.below(256); } return g;
}
static Bytes randData(Rng &R, int n) { Bytes d(n); int dens = (int)R.below(4); for (auto &b : d) b = R.chance(dens, 6) ? 0x10 : (unsigned char)R.below(256); return d; }
static Bytes goodFrame(Rng &R, int n = -1) {
  if (n < 0) n = R.chance(1, 8) ? (int)R.range(200, 223) : (int)R.range(0, 40);
  Hdr h = randHdr(R); if (R.chance(1, 8)) h.pgn = 0;
  return refFrame(refBody(R.chance(1, 5) ? 0x94 : 0x93, h.prio, h.pgn, h.dst, h.src, (uint32_t)h.t, randData(R, n)));
}
// kind: 0 bad checksum, 1 length byte off, 2 embedded data length off (length byte and checksum consistent), 3 overlong,
//       4 truncated, 5 missing escape, 6 tiny, 7 unknown type, 8 start sequence inside,
//       9 self-consistent (length byte, data length, checksum) but with more payload than a tN2kMsg holds,
//       10 overlong: start sequence, J filler bytes summing to 0 (J around 2^8, the buffer size, 2^9), then a well-formed body + end
// <10><02> + J filler bytes (never 0x10; mode 0: zeros, 1: one value, 2: random with the last byte making the sum 0 mod 256)
// + body and checksum of a well-formed frame + <10><03>: not a frame (its length byte does not fit), nothing may be reported
static Bytes overlongWithTail(Rng &R, int J, int mode) {
  Bytes o = {0x10, 0x02}; unsigned sum = 0; unsigned char v = nonEsc(R);
  for (int i = 0; i < J; i++) { unsigned char b = mode == 0 ? 0 : mode == 1 ? v : nonEsc(R); if (mode == 2 && i == J - 1) { b = (unsigned char)((256 - sum % 256) % 256); if (b == 0x10) { b = 0x11; } } o.push_back(b); sum += b; }
  Bytes g = goodFrame(R, (int)R.range(1, 20)); o.insert(o.end(), g.begin() + 2, g.end()); return o;
}
static Bytes badFrame(Rng &R, int kind) {
  Hdr h = randHdr(R); int type = R.chance(1, 5) ? 0x94 : 0x93; int hl = type == 0x93 ? 11 : 6;
  switch (kind) {
    case 0: return refFrame(refBody(type, h.prio, h.pgn, h.dst, h.src, (uint32_t)h.t, randData(R, (int)R.range(0, 30))), (int)R.range(1, 255));
    case 1: { int n = (int)R.range(0, 60); int lb = n + hl + (int)R.range(-5, 5); if (lb == n + hl) lb++; if (lb < 0) lb = 0; return refFrame(refBody(type, h.prio, h.pgn, h.dst, h.src, (uint32_t)h.t, randData(R, n), lb)); }
    case 2: { int n = R.chance(1, 3) ? (int)R.range(224, 255 - hl) : (int)R.range(0, 223); int dl = (int)R.below(256); if (dl == n) dl = (dl + 1) % 256;
              return refFrame(refBody(type, h.prio, h.pgn, h.dst, h.src, (uint32_t)h.t, randData(R, n), n + hl, dl)); }
    case 3: { int n = (int)R.range(240, 420); return refFrame(refBody(type, h.prio, h.pgn, h.dst, h.src, (uint32_t)h.t, randData(R, n), (int)R.below(256), (int)R.below(256))); }
    case 4: { Bytes f = goodFrame(R); f.resize(R.below(f.size())); return f; }
    case 5: { Bytes f = refFrame(refBody(type, h.prio, h.pgn, h.dst, h.src, (uint32_t)h.t, Bytes((int)R.range(1, 20), 0x10))); for (size_t i = 4; i + 3 < f.size(); i++) if (f[i] == 0x10 && f[i + 1] == 0x10) { f.erase(f.begin() + i); break; } return f; }
    case 6: { Bytes b; int n = (int)R.below(4); int t = R.chance(1, 2) ? 0x93 : 0x94; if (n > 0) b.push_back(t); if (n > 1) b.push_back(n - 2 + (R.chance(1, 4) ? 1 : 0)); if (n > 2) b.push_back((unsigned char)R.below(256)); return refFrame(b); }
    case 9: { int n = (int)R.range(224, 255 - hl); return refFrame(refBody(type, h.prio, h.pgn, h.dst, h.src, (uint32_t)h.t, randData(R, n))); }
    case 10: return overlongWithTail(R, (int)R.pick(std::vector<int>{254, 255, 256, 257, 258, 298, 299, 300, 301, 302, 510, 511, 512, 513}), (int)R.below(3));
    case 7: return refFrame(refBody((int)R.below(256), h.prio, h.pgn, h.dst, h.src, (uint32_t)h.t, randData(R, (int)R.range(0, 20))));
    default: { Bytes f = goodFrame(R); Bytes g = goodFrame(R); f.resize(R.below(f.size())); f.insert(f.end(), g.begin(), g.end()); return f; }
  }
}
static Bytes randomStream(Rng &R, int pieces) {
  Bytes s;
  for (int i = 0; i < pieces; i++) {
    unsigned r = (unsigned)R.below(100); Bytes p;
    if (r < 45) p = goodFrame(R); else if (r < 65) p = garbage(R, (int)R.range(1, 12)); else p = badFrame(R, (int)R.below(11));
    s.insert(s.end(), p.begin(), p.end());
  }
  return s;
}
// Which time stamp a decoded data frame carries (embedded sender time / local receive time) is left open by the property:
// learnt from the code under test and handed to the model with every rnew.
static const char *g_stampMode = "emb";
static void probeStampMode() {
  TestReader r; MemStream st; r.fill(0); r.SetReadStream(&st); uint32_t keep = g_now; g_now = 9000;
  Bytes f = refFrame(refBody(0x93, 3, 0x1F801, 255, 7, 123456, Bytes(3, 0x55))); st.in.insert(st.in.end(), f.begin(), f.end());
  tN2kMsg m; if (r.GetMessageFromStream(m) && m.MsgTime == 9000) g_stampMode = "local"; g_now = keep;
}
static void rnew(Rng &R) { char b[64]; snprintf(b, sizeof b, "rnew %d %d %s", R.chance(1, 2) ? 65 : (int)R.below(256), (int)R.pick(std::vector<int>{0, 0x10, 0x93, 0xA5, 0xFF, 9}), g_stampMode); exec(b); if (R.chance(1, 3)) { snprintf(b, sizeof b, "now %lu", (unsigned long)(R.next() & 0xFFFFFFFFul)); exec(b); } }
// op lines stay well below the 8 KiB line buffer of the replay reader
static void push(const Bytes &s, size_t a, size_t b) { for (; a < b; a += 1500) { size_t e = a + 1500 < b ? a + 1500 : b; exec("push " + hex(s.data() + a, e - a)); } }
// delivery of a stream: mode 0 all at once + parse; 1 split at k; 2 byte at a time with get; 3 random chunks with get until 0;
// 4 readOut=false with the application dropping the bytes the reader leaves
static void deliver(Rng &R, const Bytes &s, int mode, size_t k = 0) {
  rnew(R);
  if (mode == 0) { push(s, 0, s.size()); exec("parse"); }
  else if (mode == 1) { push(s, 0, k); exec("parse"); push(s, k, s.size()); exec("parse"); }
  else if (mode == 2) { for (size_t i = 0; i < s.size(); i++) { push(s, i, i + 1); exec("get 1"); } }
  else if (mode == 3) { size_t i = 0; while (i < s.size()) { size_t j = i + 1 + R.below(40); if (j > s.size()) j = s.size(); push(s, i, j); i = j; if (R.chance(1, 2)) exec("parse"); else do exec("get 1"); while (lastGetResult); } }
  else { push(s, 0, s.size()); int guard = 0; while (!rs->in.empty() && guard++ < 200000) { exec("get 0"); if (lastGetStuck) exec("drop 1"); } exec("get 0"); }
}

static void readerSection(Rng &R) {
  // targeted first (a sanitizer abort ends the run): frames whose embedded data length disagrees with a consistent length
  // byte and checksum -- shorter than the header, data length larger than the frame, smaller, and the frame longer than Data[]
  { rnew(R); exec("push 100293006d1003"); exec("parse");                                        // 3-byte body 93 00 crc
    Bytes f1 = refFrame(refBody(0x93, 3, 0x1F801, 255, 7, 5, Bytes(2, 0x55), -1, 9)); push(f1, 0, f1.size()); exec("parse");
    Bytes f2 = refFrame(refBody(0x93, 3, 0x1F801, 255, 7, 5, Bytes(20, 0x55), -1, 4)); push(f2, 0, f2.size()); exec("parse");
    Bytes f3 = refFrame(refBody(0x94, 3, 0x1F801, 255, 7, 5, Bytes(20, 0x66), -1, 0)); push(f3, 0, f3.size()); exec("parse");
    Bytes ok = refFrame(refBody(0x93, 3, 0x1F801, 255, 7, 5, Bytes(8, 0x10))); push(ok, 0, ok.size()); exec("parse");
    rnew(R); Bytes f4 = refFrame(refBody(0x93, 3, 0x1F801, 255, 7, 5, Bytes(244, 0x77), 255, 1)); push(f4, 0, f4.size()); exec("parse");
    push(ok, 0, ok.size()); exec("parse");
    C.sample("reader targeted: consistent length byte + checksum with embedded data length 9/4/0/1 for 2/20/20/244 data bytes");
  }
  // boundary sweep, both frame types: every payload size 0..(largest a length byte can express)+3 with length byte and
  // checksum matching the frame and the embedded data length exact / one less / one more; each followed by a good frame;
  // alternately read with GetMessageFromStream (canaries in the message object) and ParseMessages
  { int alt = 0;
    for (int type : {0x93, 0x94}) { int hl = type == 0x93 ? 11 : 6;
      for (int n = 0; n <= 255 - hl + 3; n++) for (int d = -1; d <= 1; d++) {
        if (n + d < 0) continue; if (!C.thorough && d != 0 && n % 4 != 3 && (n < 215 || n > 232)) continue;
        Hdr h = randHdr(R); Bytes f = refFrame(refBody(type, h.prio, h.pgn, h.dst, h.src, (uint32_t)h.t, randData(R, n), (n + hl) & 255, (n + d) & 255));
        Bytes ok = goodFrame(R, (int)R.range(1, 10)); f.insert(f.end(), ok.begin(), ok.end());
        rnew(R); push(f, 0, f.size());
        if (alt++ & 1) exec("parse"); else do exec("get 1"); while (lastGetResult);
      } }
    C.sample("reader boundary sweep: types 93 and 94, payload sizes 0..252, embedded data length exact/-1/+1, read by get (canaries) and parse");
  }
  // overlong frames with a well-formed tail: filler lengths around 2^8, the buffer size and 2^9, three kinds of filler
  for (int J : {253, 254, 255, 256, 257, 258, 259, 297, 298, 299, 300, 301, 302, 303, 509, 510, 511, 512, 513, 514, 768}) for (int mode = 0; mode < 3; mode++) {
    Bytes f = overlongWithTail(R, J, mode); Bytes ok = goodFrame(R, (int)R.range(1, 10)); f.insert(f.end(), ok.begin(), ok.end());
    deliver(R, f, (J + mode) % 2 ? 0 : 3, 0);
  }
  // stray escape bytes directly in front of a frame, with the reader idle before them: fresh, after a frame, after garbage
  for (int k = 1; k <= 4; k++) for (int where = 0; where < 3; where++) {
    Bytes pre; if (where == 1) pre = goodFrame(R, (int)R.range(1, 10)); else if (where == 2) { pre = garbage(R, (int)R.range(1, 8)); pre.push_back(0x55); }
    Bytes f(k, 0x10); Bytes ok = goodFrame(R, (int)R.range(1, 10)); f.insert(f.end(), ok.begin(), ok.end());
    rnew(R); if (!pre.empty()) { push(pre, 0, pre.size()); exec("parse"); } push(f, 0, f.size()); exec(k % 2 ? "parse" : "get 1");
  }
  C.sample("reader: overlong frames (filler 253..259, 297..303, 509..514, 768 bytes) with a well-formed tail; 1..4 stray <10> in front of a frame with the reader idle");
  // checksum sweep: frames of both types whose length byte is off by -3..+2, whose embedded data length is off by one, or
  // which are well formed, each with EVERY value 0..255 as checksum byte (a weakened length or checksum test accepts one of
  // them whatever arithmetic it uses); one reader per shape, a good frame at the end
  for (int type : {0x93, 0x94}) for (int rep = 0; rep < (C.thorough ? 6 : 2); rep++) {
    const int shapes[8][2] = {{-3, 0}, {-2, 0}, {-1, 0}, {1, 0}, {2, 0}, {0, -1}, {0, 1}, {0, 0}};
    for (auto &sh : shapes) {
      int hl = type == 0x93 ? 11 : 6; int n = (int)R.range(2, 12); Hdr h = randHdr(R);
      Bytes body = refBody(type, h.prio, h.pgn, h.dst, h.src, (uint32_t)h.t, randData(R, n), n + hl + sh[0], n + sh[1]);
      Bytes st; for (int cd = 0; cd < 256; cd++) { Bytes f = refFrame(body, cd); st.insert(st.end(), f.begin(), f.end()); }
      Bytes ok = goodFrame(R, (int)R.range(1, 10)); st.insert(st.end(), ok.begin(), ok.end());
      rnew(R); push(st, 0, st.size()); exec("parse");
    }
  }
  C.sample("reader checksum sweep: length byte off by -3..+2 / data length off by one / well formed, every checksum byte 0..255, types 93 and 94");
  // exhaustive split: every byte boundary of a few composite streams, and byte-at-a-time
  for (int rep = 0; rep < (C.thorough ? 12 : 3); rep++) {
    Bytes s; Bytes a = goodFrame(R, (int)R.range(1, 12)), g = garbage(R, (int)R.range(1, 6)), b = badFrame(R, (int)R.below(11)), c = goodFrame(R, (int)R.range(1, 12));
    if (b.size() > 80) b.resize(80);
    for (const Bytes *p : {&a, &g, &b, &c, &a}) s.insert(s.end(), p->begin(), p->end());
    for (size_t k = 0; k <= s.size(); k++) deliver(R, s, 1, k);
    deliver(R, s, 2); deliver(R, s, 4);
  }
  C.sample("reader: composite streams (frame, garbage, bad frame, frame, frame) split at EVERY byte boundary, byte-at-a-time, readOut=false");
  // concatenations written by the real encoder
  for (int rep = 0; rep < (C.thorough ? 200 : 30); rep++) {
    rnew(R); int n = (int)R.range(1, 6);
    for (int i = 0; i < n; i++) { Hdr h = randHdr(R); Bytes d = randData(R, (int)R.range(1, 223)); encOp("encpush", h.prio, h.pgn, h.dst, h.src, h.t, d); if (R.chance(1, 3)) exec("parse"); }
    exec("parse");
  }
  // every kind of bad frame followed by a good one, each in a fresh reader and after another frame
  for (int rep = 0; rep < (C.thorough ? 40 : 6); rep++) for (int kind = 0; kind < 11; kind++) {
    Bytes s = badFrame(R, kind); Bytes g = goodFrame(R), g2 = goodFrame(R); s.insert(s.end(), g.begin(), g.end()); s.insert(s.end(), g2.begin(), g2.end());
    deliver(R, s, (int)R.below(5), R.below(s.size() + 1));
  }
  // random long streams
  for (int rep = 0; rep < (C.thorough ? 1500 : 150); rep++) { Bytes s = randomStream(R, (int)R.range(2, 25)); deliver(R, s, (int)R.below(5), R.below(s.size() + 1)); }
  // pure noise
  for (int rep = 0; rep < (C.thorough ? 300 : 40); rep++) { Bytes s = garbage(R, (int)R.range(1, 900)); deliver(R, s, (int)R.below(5), R.below(s.size() + 1)); }
  C.sample("reader: random concatenations of good frames (93/94), garbage, bad checksum, wrong length byte, wrong embedded length, overlong, truncated, missing escape, tiny, unknown type");
}

int main(int argc, char **argv) {
  C.init(argc, argv);
  C.rule = "case = one encoded message (enc) or one reader instance with everything fed to it (rnew..); non-trivial = a valid "
           "message was encoded and read back / the reader reported at least one message; distinct = hash of the case's op lines";
  if (!C.replay.empty()) { for (auto &l : readLines(C.replay)) exec(l); endCase(); C.finish(); return 0; }
  // vh::Rng streams of consecutive seeds are shifts of each other by one draw: scramble the seed first
  Rng R(Ctx::hash("C17/" + std::to_string(C.seed)));
  probeStampMode();
  encoderSection(R);
  readerSection(R);
  endCase();
  C.finish();
  return 0;
}
