/-!
# Scaled numeric fields of `tN2kMsg` (property C06) — executable model, core Lean only

Transcribes, from `/repo/src/N2kMsg.cpp` (+ constants of `N2kMsg.h`):

| Lean                      | C++                                                                    |
|---------------------------|------------------------------------------------------------------------|
| `leBytes`, `toUnsigned`   | `SetBuf<T>(v,len,index,buf)`: `memcpy` of the `len` low bytes (LE host) |
| `leVal`, `asT`            | `GetBuf<T>(len,index,buf)`: `T v{0}; memcpy(&v,&buf[index],len)`        |
| `setBufDouble w s`        | `SetBuf{1,2,3,4}Byte(U)Double`, `SetBuf8ByteDouble` — everything AFTER `vd` |
| `getBufDouble w s`        | `GetBuf{1,2,3,4}Byte(U)Double`, `GetBuf8ByteDouble` — everything BEFORE `*precision` |
| `addDouble`, `getDouble`  | `tN2kMsg::Add{N}Byte(U)Double`, `tN2kMsg::Get{N}Byte(U)Double`         |
| `setBufFloat`, `addFloat`, `getBufFloat`, `getFloat` | `SetBufFloat`, `tN2kMsg::AddFloat`, `GetBufFloat`, `tN2kMsg::GetFloat` |
| `roundHalfAway`, `truncQ` | exact (ℚ) counterparts of `round(v/precision)` and of the `(int64_t)(v/precision)` cast |

The split follows the C++: `vd = round(v/precision)` is IEEE double arithmetic and is **modelled, not
verified** (`roundHalfAway` over `Rat`; tied by the front-end stream of `harness/scaled.cpp`).
Everything after `vd` is exact integer logic on a classified value `Vd`.

A field kind is a width `w ∈ {1,2,3,4,8}` and a signedness `s` (`8` exists only signed).
Bytes are `Nat`s (`< 256` wherever the model produces them).

This file models the tree **with the two `fix:` commits of the C06 worktree applied**
(sign extension in `GetBuf3ByteDouble`; range test in `SetBuf8ByteDouble`). The behaviour of the pinned
tree is kept as `getBufDouble3Pinned` / `setBuf8Pinned` for the witness theorems.
-/
namespace N2k.Scaled

inductive Fault where
  /-- C++ undefined behaviour: conversion of a floating value that the target integer type cannot hold -/
  | ub
  /-- access outside `Data[MaxDataLen]` -/
  | oob (idx cap : Nat)
  deriving DecidableEq, Repr

/-- the double `vd` (already rounded / about to be truncated), classified. `int k`: a finite value whose
integer part (truncation toward zero) is `k`. For 1..4-byte fields `vd = round(…)` is an integer itself.
For the 8-byte field `vd = v/precision` may have a fraction; the range test `vd>=-2^63 && vd<2^63` and the
cast then depend on `k` only, because doubles of magnitude ≥ 2^52 have no fraction. -/
inductive Vd where
  | int (k : Int)
  | nan
  | posInf
  | negInf
  deriving DecidableEq, Repr

namespace Vd
/-- C++ `vd >= c` for a finite constant `c` (false for NaN) -/
def ge (v : Vd) (c : Int) : Bool :=
  match v with
  | int k => decide (c ≤ k)
  | posInf => true
  | _ => false
/-- C++ `vd < c` (false for NaN) -/
def lt (v : Vd) (c : Int) : Bool :=
  match v with
  | int k => decide (k < c)
  | negInf => true
  | _ => false
/-- C++ `a == b` on doubles (NaN equals nothing) -/
def ceq : Vd → Vd → Bool
  | int a, int b => a == b
  | posInf, posInf => true
  | negInf, negInf => true
  | _, _ => false
end Vd

/-! ## constants (`N2kMsg.cpp` 827-840, `N2kMsg.h` 53-67) -/

/-- lower bound of the range test: `N2kInt8Min … N2kInt32Min`, `0` for unsigned, `N2kInt64Min` (fix) -/
def loBound : Nat → Bool → Int
  | 1, true => -128
  | 2, true => -32768
  | 3, true => -8388608
  | 4, true => -2147483648
  | 8, true => -9223372036854775808
  | _, _ => 0

/-- the reserved out-of-range code `N2k(U)Int{8,16,24,32}OR`, `N2kInt64OR` (fix) -/
def orCode : Nat → Bool → Int
  | 1, true => 0x7e
  | 1, false => 0xfe
  | 2, true => 0x7ffe
  | 2, false => 0xfffe
  | 3, true => 0x7ffffe
  | 3, false => 0xfffffe
  | 4, true => 0x7ffffffe
  | 4, false => 0xfffffffe
  | 8, true => 0x7ffffffffffffffe
  | _, _ => 0

/-- the "not available" code tested by the getters (`0x7f`, `0xff`, `0x7fff`, …) -/
def naCode : Nat → Bool → Int
  | 1, true => 0x7f
  | 1, false => 0xff
  | 2, true => 0x7fff
  | 2, false => 0xffff
  | 3, true => 0x007fffff
  | 3, false => 0x00ffffff
  | 4, true => 0x7fffffff
  | 4, false => 0xffffffff
  | 8, true => 0x7fffffffffffffff
  | _, _ => 0

/-- the value the C++ comparison `vd < N2k…OR` really compares with: the constant converted to `double`.
Exact for ≤ 32 bits; `(double)0x7ffffffffffffffe` is `2^63`. -/
def orAsDouble (w : Nat) (s : Bool) : Int :=
  if w = 8 then 9223372036854775808 else orCode w s

/-- width in bits of the C++ integer type `T` the value is cast to / loaded into
(`int8_t`/`uint8_t`, `(u)int16_t`, `int32_t` for both 3-byte kinds, `(u)int32_t`, `int64_t`) -/
def tBits : Nat → Nat
  | 1 => 8
  | 2 => 16
  | 3 => 32
  | 4 => 32
  | _ => 64

/-- is `T` a signed type? (3-byte unsigned fields also go through `int32_t`) -/
def tSigned (w : Nat) (s : Bool) : Bool := s || w == 3

def tMin (w : Nat) (s : Bool) : Int := if tSigned w s then -(2 : Int) ^ (tBits w - 1) else 0
def tMax (w : Nat) (s : Bool) : Int :=
  if tSigned w s then (2 : Int) ^ (tBits w - 1) - 1 else (2 : Int) ^ tBits w - 1

/-! ## `SetBuf<T>` / `GetBuf<T>` on a little-endian host -/

/-- the `w` low bytes of the object representation `u`, lowest first -/
def leBytes : Nat → Nat → List Nat
  | 0, _ => []
  | n + 1, u => u % 256 :: leBytes n (u / 256)

/-- object representation (two's complement) of `k` in a `bits`-wide integer type -/
def toUnsigned (bits : Nat) (k : Int) : Nat := (k % (2 : Int) ^ bits).toNat

/-- little-endian value of a byte list -/
def leVal : List Nat → Nat
  | [] => 0
  | b :: t => b + 256 * leVal t

/-- value of a `bits`-wide object with representation `u`, read as signed or unsigned `T` -/
def asT (bits : Nat) (signed : Bool) (u : Nat) : Int :=
  if signed && decide (2 ^ (bits - 1) ≤ u) then (u : Int) - (2 : Int) ^ bits else (u : Int)

/-! ## store: everything after `vd` -/

/-- the C++ conversion `(T)vd`: undefined unless the truncated value fits `T` -/
def castT (w : Nat) (s : Bool) : Vd → Except Fault Int
  | .int k => if tMin w s ≤ k ∧ k ≤ tMax w s then .ok k else .error .ub
  | _ => .error .ub

/-- `T vi = (vd>=Min && vd<OR) ? (T)vd : OR;  SetBuf<T>(vi, w, index, buf);` — the bytes appended -/
def setBufDouble (w : Nat) (s : Bool) (vd : Vd) : Except Fault (List Nat) := do
  let vi ← if vd.ge (loBound w s) && vd.lt (orAsDouble w s) then castT w s vd else pure (orCode w s)
  pure (leBytes w (toUnsigned (tBits w) vi))

/-- bytes of the NA code as the `Add*` wrappers write them (`SetBuf{2,3,4}Byte(U)Int(NA)`, `AddByte(NA)`,
two 4-byte halves for the 8-byte field) -/
def naBytes (w : Nat) (s : Bool) : List Nat := leBytes w (naCode w s).toNat

/-- `tN2kMsg::Add{N}Byte(U)Double(v, precision, UndefVal)`: `isUndef` is the outcome of the C++ test
`v==UndefVal`, `isNA` of `v==N2kDoubleNA` (tested again inside `SetBuf8ByteDouble` only), `vd` the
classified `round(v/precision)` (`v/precision` for 8 bytes). Result: bytes appended at `DataLen`. -/
def addDouble (w : Nat) (s : Bool) (isUndef isNA : Bool) (vd : Vd) : Except Fault (List Nat) :=
  if isUndef then pure (naBytes w s)
  else if w = 8 ∧ isNA then pure (naBytes w s)
  else setBufDouble w s vd

/-- `Add…(v, 1.0, undef)` for a `v` that is its own `vd` (integer-valued, NaN or ±inf): the integer
stream of the correspondence. `N2kDoubleNA` is `-1e9`. -/
def addInt (w : Nat) (s : Bool) (v undef : Vd) : Except Fault (List Nat) :=
  addDouble w s (v.ceq undef) (v.ceq (.int (-1000000000))) v

/-! ## load: everything before `* precision` -/

/-- `T vl = GetBuf<T>(w, index, buf); if (vl==NA) return def; [3-byte signed: sign-extend (fix)] return vl*precision;`
— `none` = the caller's default. Reads exactly the first `w` bytes of `bs`. -/
def getBufDouble (w : Nat) (s : Bool) (bs : List Nat) : Option Int :=
  let vl := asT (tBits w) (tSigned w s) (leVal (bs.take w))
  if vl = naCode w s then none
  else if w = 3 ∧ s = true ∧ vl.toNat / 0x800000 % 2 = 1 then some (vl - 0x1000000)
  else some vl

/-- `tN2kMsg::Get{N}Byte(U)Double(precision, Index, def)`: `data` is the whole `Data` array
(its length is the capacity), `dataLen` the payload length. Returns (value or `none` = `def`, new Index). -/
def getDouble (w : Nat) (s : Bool) (data : List Nat) (dataLen idx : Nat) : Except Fault (Option Int × Nat) :=
  if idx + w ≤ dataLen then
    if idx + w ≤ data.length then pure (getBufDouble w s (data.drop idx), idx + w)
    else throw (.oob (idx + w) data.length)
  else pure (none, idx)

/-- `vl * precision` for `precision = 1.0`, i.e. the conversion `(double)vl` of the loaded integer:
round to nearest, ties to even, at 53 significant bits. The identity below 2^53 (all fields up to 4 bytes);
used by the integer stream of the correspondence to print what `Get8ByteDouble(1.0,…)` returns. -/
def dblOfInt (k : Int) : Int :=
  let a := k.natAbs
  if a < 2 ^ 53 then k else
  let e := Nat.log2 a - 52
  let q := a / 2 ^ e
  let r := a % 2 ^ e
  let half := 2 ^ (e - 1)
  let q' := if r > half ∨ (r = half ∧ q % 2 = 1) then q + 1 else q
  let m : Int := ((q' * 2 ^ e : Nat) : Int)
  if k < 0 then -m else m

/-! ## float fields as 32-bit patterns -/

def f32IsNaN (p : Nat) : Bool := p / 0x800000 % 256 == 255 && p % 0x800000 != 0
/-- C++ `a == b` on floats given their bit patterns (`-0 == +0`, NaN equals nothing) -/
def f32Eq (a b : Nat) : Bool :=
  !f32IsNaN a && !f32IsNaN b && (a == b || (a % 0x80000000 == 0 && b % 0x80000000 == 0))
/-- bit pattern of `N2kFloatNA` = `(float)-1e9` -/
def f32NA : Nat := 0xCE6E6B28
/-- `N2kInt32NA` -/
def i32NA : Nat := 0x7fffffff

/-- `SetBufFloat` -/
def setBufFloat (p : Nat) : List Nat := leBytes 4 (if f32Eq p f32NA then i32NA else p)
/-- `tN2kMsg::AddFloat(v, UndefVal)` -/
def addFloat (p undef : Nat) : List Nat := if f32Eq p undef then leBytes 4 i32NA else setBufFloat p
/-- `GetBufFloat`: `none` = caller's default -/
def getBufFloat (bs : List Nat) : Option Nat :=
  let vl := leVal (bs.take 4)
  if vl = i32NA then none else if f32IsNaN vl then none else some vl
/-- `tN2kMsg::GetFloat` -/
def getFloat (data : List Nat) (dataLen idx : Nat) : Except Fault (Option Nat × Nat) :=
  if idx + 4 ≤ dataLen then
    if idx + 4 ≤ data.length then pure (getBufFloat (data.drop idx), idx + 4)
    else throw (.oob (idx + 4) data.length)
  else pure (none, idx)

/-! ## the front end over ℚ (modelled, not verified against IEEE arithmetic) -/

/-- exact counterpart of C `round`: nearest integer, ties away from zero -/
def roundHalfAway (q : Rat) : Int := if 0 ≤ q then (q + 1 / 2).floor else -((-q + 1 / 2).floor)
/-- exact counterpart of the `double → int64_t` conversion: truncation toward zero -/
def truncQ (q : Rat) : Int := if 0 ≤ q then q.floor else -((-q).floor)
/-- `vd` for a field of width `w` -/
def frontQ (w : Nat) (q : Rat) : Int := if w = 8 then truncQ q else roundHalfAway q

/-! ## what the property demands of a stored field (the judge of the front-end correspondence)

The property fixes a *tolerance*, not a rounding policy: reading back must give the written value to within
half a resolution step — one step for the 8-byte field — and an unrepresentable value must become the
out-of-range code. Which of the admissible codes is chosen (truncation or rounding in the 8-byte field, the
direction of exact ties) is left open, so the correspondence does not compare the library's choice with
`frontQ` but judges it with `acceptsQ`; `C06_front_accepted` proves that the model's own choice passes. -/

def absQ (q : Rat) : Rat := if 0 ≤ q then q else -q

/-- the stated tolerance in resolution steps -/
def tolQ (w : Nat) : Rat := if w = 8 then 1 else 1 / 2

/-- Is the loaded field `c` (`none` = "not available") an admissible result of writing the exact quotient
`q = v/precision`? Either `c` is within the tolerance (+ `slack`, the allowance for the IEEE quotient) of `q`,
or `c` is the out-of-range code and `q` is within the tolerance of an integer outside the code range. -/
def acceptsQ (w : Nat) (s : Bool) (q slack : Rat) (c : Option Int) : Bool :=
  match c with
  | none => false
  | some c =>
    let t := tolQ w + slack
    decide (absQ ((c : Rat) - q) ≤ t) ||
      (c == orCode w s &&
        (decide ((orCode w s : Rat) - t ≤ q) || decide (q ≤ ((loBound w s - 1 : Int) : Rat) + t)))

/-- allowance for the double quotient: 2^-40 relative, at most one unit -/
def slackQ (q : Rat) : Rat :=
  let r := absQ q / 1099511627776
  if r ≤ 1 then r else 1

/-! ## the pinned tree (before the `fix:` commits) — for the witness theorems only -/

/-- pinned `GetBuf3ByteDouble`: no sign extension -/
def getBufDouble3Pinned (bs : List Nat) : Option Int :=
  let vl := asT 32 true (leVal (bs.take 3))
  if vl = 0x007fffff then none else some vl

/-- pinned `SetBuf8ByteDouble`: `vll = v/precision;` with no range or NaN test -/
def setBuf8Pinned (vd : Vd) : Except Fault (List Nat) := do
  let vi ← castT 8 true vd
  pure (leBytes 8 (toUnsigned 64 vi))

end N2k.Scaled
