import N2k.Model.Handlers
/-!
# The handler list behind ANY receive side (C14)

`ParseMessages` hands every message the receive path completes to `RunMessageHandlers`.  Here the receive path is a
parameter: a state `σ`, receive-side events `ε` (frames, polls, clock, configuration, …), messages `μ` with a PGN, and
`track : σ → ε → σ × List (BusId × μ)` = new state and the messages the event completes, in order, with their bus object.
`Model/HandlersRx.lean` is this construction for the receive model of C02 (it is what the driver engine executes);
`Lemmas/HandlersTP.lean` instantiates it with the node model of C10 (`N2k.TP`), which reassembles transport-protocol payloads.
-/
namespace N2k.Handlers

structure CallG (μ : Type) where
  bus : BusId
  msg : μ
  cb : Nat
  hs : List Id
deriving DecidableEq, Repr

structure NodeG (σ : Type) where
  w : World
  r : σ

inductive EvG (ε : Type) where
  | op (o : Op)          -- client operation on handlers
  | rx (e : ε)           -- anything that happens on the receive side

def dispatchAllG {μ : Type} (pgn : μ → Nat) (w : World) : List (BusId × μ) → Option (List (CallG μ))
  | [] => some []
  | bm :: rest =>
    match dispatch w bm.1 (pgn bm.2) with
    | none => none
    | some r =>
      match dispatchAllG pgn w rest with
      | none => none
      | some cs => some (⟨bm.1, bm.2, r.1, r.2⟩ :: cs)

def nodeStepG {σ ε μ : Type} (track : σ → ε → σ × List (BusId × μ)) (pgn : μ → Nat) (n : NodeG σ) :
    EvG ε → Option (NodeG σ × List (CallG μ))
  | .op o =>
    match step n.w o with
    | none => none
    | some w' => some (⟨w', n.r⟩, [])
  | .rx e =>
    match dispatchAllG pgn n.w (track n.r e).2 with
    | none => none
    | some cs => some (⟨n.w, (track n.r e).1⟩, cs)

def nodeRunG {σ ε μ : Type} (track : σ → ε → σ × List (BusId × μ)) (pgn : μ → Nat) :
    NodeG σ → List (EvG ε) → Option (NodeG σ × List (List (CallG μ)))
  | n, [] => some (n, [])
  | n, e :: evs =>
    match nodeStepG track pgn n e with
    | none => none
    | some r =>
      match nodeRunG track pgn r.1 evs with
      | none => none
      | some r2 => some (r2.1, r.2 :: r2.2)

end N2k.Handlers
