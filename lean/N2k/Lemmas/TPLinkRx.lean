import N2k.Lemmas.TPLink
/-! C10 helper lemmas for the end-to-end theorem: the receiving node while the packets of one transfer arrive in order. -/
namespace N2k.TP
open N2k.Send N2k.Time N2k.Spec

variable {i : Nat}

/-- bytes 0 .. 7k-1 of the padded payload: what the receiver has copied after `k` packets -/
def gotBytes (m : Msg) (k : Nat) : List Nat := (List.range (7 * k)).map (payloadByte m)

theorem gotBytes_length (m : Msg) (k : Nat) : (gotBytes m k).length = 7 * k := by simp [gotBytes]

theorem dtBytes_head (m : Msg) (k : Nat) (hk : k < 255) : (dtBytes m k).getD 0 0 = k + 1 := by
  simp [dtBytes, Nat.mod_eq_of_lt (show k + 1 < 256 by omega)]

theorem dtBytes_tail (m : Msg) (k : Nat) : ((dtBytes m k).take 8).drop 1 = (List.range 7).map fun j => payloadByte m (7 * k + j) := by
  have : (dtBytes m k).take 8 = dtBytes m k := by
    rw [← dtBytes_length m k]; exact List.take_length
  rw [this]
  simp only [dtBytes, List.cons_append, List.nil_append, List.drop_succ_cons, List.drop_zero]
  apply List.map_congr_left
  intro j _
  rw [Nat.mul_comm]

theorem gotBytes_succ (m : Msg) (k : Nat) :
    gotBytes m k ++ ((List.range 7).map fun j => payloadByte m (7 * k + j)) = gotBytes m (k + 1) := by
  unfold gotBytes
  have : 7 * (k + 1) = 7 * k + 7 := by omega
  rw [this, List.range_add, List.map_append, List.map_map]
  rfl

/-- a packet that is not the last one (and fits the buffer): all 7 bytes are appended -/
theorem copyBuf_mid (m : Msg) (k : Nat) (h : 7 * (k + 1) ≤ 223) :
    copyBuf (gotBytes m k) 1 8 (dtBytes m k) = gotBytes m (k + 1) := by
  unfold copyBuf
  rw [dtBytes_tail, gotBytes_length, List.take_of_length_le (by simp; omega), gotBytes_succ]

/-- whatever the cut at 223 bytes does, the first `len ≤ 223` bytes are the padded payload -/
theorem copyBuf_last (m : Msg) (k : Nat) (h7 : 7 * k ≤ 223) (hlen : m.len ≤ 223) (hcov : m.len ≤ 7 * (k + 1))
    (hl : m.len ≤ m.data.length) :
    (copyBuf (gotBytes m k) 1 8 (dtBytes m k)).length ≥ m.len ∧
    (copyBuf (gotBytes m k) 1 8 (dtBytes m k)).take m.len = m.data.take m.len := by
  unfold copyBuf
  rw [dtBytes_tail, gotBytes_length]
  have hcut : gotBytes m k ++ ((List.range 7).map fun j => payloadByte m (7 * k + j)).take (223 - 7 * k)
      = (gotBytes m (k + 1)).take 223 := by
    have e : (gotBytes m k).take 223 = gotBytes m k := List.take_of_length_le (by rw [gotBytes_length]; omega)
    rw [← gotBytes_succ, List.take_append, gotBytes_length, e]
  rw [hcut]
  refine ⟨?_, ?_⟩
  · rw [List.length_take, gotBytes_length]; omega
  · rw [List.take_take, Nat.min_eq_left hlen]
    unfold gotBytes
    rw [← List.map_take, List.take_range, Nat.min_eq_left hcov]
    apply List.ext_getElem
    · simp; omega
    · intro i h1 h2
      have hi : i < m.len := by simpa using h1
      simp [payloadByte, hi, List.getD_eq_getElem?_getD]
      have : i < m.data.length := by omega
      simp [this]


/-- the handler call the transfer must end in -/
def delivered (m : Msg) (src dst : Nat) : Delivery :=
  { pgn := m.pgn, src := src, dst := dst, prio := 7, len := m.len, tp := true, data := m.data.take m.len }

/-- the receive slot of the transfer after `k` packets (time does not pass during the exchange) -/
def sess (a0 : Slot) (m : Msg) (src dst now32 k : Nat) : Slot :=
  { rtsSlot a0 m.pgn src dst now32 m.len (tpPacketCount m.len) with data := gotBytes m k, lastFrame := k }

theorem sess_zero (a0 : Slot) (m : Msg) (src dst now32 : Nat) :
    sess a0 m src dst now32 0 = rtsSlot a0 m.pgn src dst now32 m.len (tpPacketCount m.len) := rfl

theorem sessOf_sess (a0 : Slot) (m : Msg) (src dst now32 k : Nat) : sessOf src dst (sess a0 m src dst now32 k) = true := by
  simp [sessOf, sess, rtsSlot, startSlot]

theorem dtSlot_sess (a0 : Slot) (m : Msg) (src dst mt now32 k : Nat) (hk : k < 255) (h : 7 * (k + 1) ≤ 223) :
    dtSlot (sess a0 m src dst mt k) (dtBytes m k) now32 = sess a0 m src dst now32 (k + 1) := by
  unfold dtSlot sess
  simp only [rtsSlot, startSlot, copyBuf_mid m k h, dtBytes_head m k hk]

theorem tpCtsPackets_pos (n : Nat) : 0 < tpCtsPackets n := by unfold tpCtsPackets; omega

section rx
variable (b : Node) (db : Dev) (m : Msg) (srcA j k mt : Nat) (S' : List Slot) (a0 : Slot)
  (out : List Delivery) (fs rxq : List Frame)

/-- **a data packet that is not the last one arrives** -/
theorem rx_mid (hd : Lead b i db) (hq : Quiet b.s i) (hsrc : srcA < 256) (hdst : m.dst = db.source)
    (hnone : findIdx (sessOf srcA db.source) S' = none) (hj : j < S'.length)
    (hk : 7 * (k + 1) < m.len) (hlen : m.len ≤ 223) :
    rxFrame (b.upd b.tp (S'.set j (sess a0 m srcA db.source mt k)) out fs rxq) (dtFrame srcA m k) =
      b.upd b.tp (S'.set j (sess a0 m srcA db.source (millis32 b.s.now) (k + 1))) out
        (fs ++ if (k + 1) % tpCtsPackets (tpPacketCount m.len) = 0
                then [cmFrame db.source srcA (ctsBytes m.pgn (tpPacketCount m.len) (k + 2))] else []) rxq := by
  have hdsrc : db.source ≤ 251 := by
    exact hd.src hq
  generalize hN : b.upd b.tp (S'.set j (sess a0 m srcA db.source mt k)) out fs rxq = N
  have hNq : Quiet N.s i := by subst hN; exact upd_quiet _ _ _ _ _ _ hq
  have hNd : N.s.devs[i]? = some db := by subst hN; exact hd.dev0
  have hfd : findDev N.s.devs db.source = some i := by subst hN; exact findDev_lead (n := b) hd (by omega)
  have hfj : findIdx (sessOf srcA db.source) N.slots = some j := by
    subst hN; exact findIdx_set_of_none _ _ _ _ hnone hj (sessOf_sess _ _ _ _ _ _)
  have hsl : N.slots[j]? = some (sess a0 m srcA db.source mt k) := by
    subst hN; exact List.getElem?_set_self hj
  have hnow : N.s.now = b.s.now := by subst hN; rfl
  have hk255 : k < 255 := by omega
  rw [dtFrame_eq, hdst, rxFrame_dt N srcA db.source _ hsrc (by omega) (dtBytes_length m k)]
  rw [handleData_mid_quiet N srcA db.source i j db _ _ hNq hNd hsrc hfd hfj hsl
        (by rw [dtBytes_head m k hk255]; rfl)
        (by show (copyBuf (gotBytes m k) 1 8 (dtBytes m k)).length < m.len
            rw [copyBuf_mid m k (by omega), gotBytes_length]; omega)]
  rw [hnow, dtSlot_sess a0 m srcA db.source mt _ k hk255 (by omega), dtBytes_head m k hk255]
  have hreq : (sess a0 m srcA db.source mt k).reqCTS = tpCtsPackets (tpPacketCount m.len) := rfl
  have hmax : (sess a0 m srcA db.source mt k).maxPackets = tpPacketCount m.len := rfl
  have hpgn : (sess a0 m srcA db.source mt k).pgn = m.pgn := rfl
  rw [hreq, hmax, hpgn]
  subst hN
  simp only [finish]
  by_cases hc : (k + 1) % tpCtsPackets (tpPacketCount m.len) = 0
  · have : tpCtsPackets (tpPacketCount m.len) > 0 ∧ (k + 1) % tpCtsPackets (tpPacketCount m.len) = 0 := ⟨tpCtsPackets_pos _, hc⟩
    rw [if_pos this, if_pos hc]
    simp only [upd_setSlot, upd_pushes, List.set_set]
  · have : ¬ (tpCtsPackets (tpPacketCount m.len) > 0 ∧ (k + 1) % tpCtsPackets (tpPacketCount m.len) = 0) := fun h => hc h.2
    rw [if_neg this, if_neg hc]
    simp only [upd_setSlot, List.set_set, List.append_nil]

/-- **the last data packet arrives**: EndOfMsgACK, one delivery of exactly the payload, the slot is free again -/
theorem rx_last (hd : Lead b i db) (hq : Quiet b.s i) (hsrc : srcA < 256) (hdst : m.dst = db.source)
    (hnone : findIdx (sessOf srcA db.source) S' = none) (hj : j < S'.length)
    (hk : m.len ≤ 7 * (k + 1)) (hk' : 7 * k < m.len) (hlen : m.len ≤ 223) (hl : m.len ≤ m.data.length) :
    ∃ S'', rxFrame (b.upd b.tp (S'.set j (sess a0 m srcA db.source mt k)) out fs rxq) (dtFrame srcA m k) =
      b.upd b.tp S'' (out ++ [delivered m srcA db.source])
        (fs ++ [cmFrame db.source srcA (endAckBytes m.pgn m.len (k + 1))]) rxq ∧
      (∀ a ∈ S'', sessOf srcA db.source a = false) ∧ S''.length = S'.length := by
  have hdsrc : db.source ≤ 251 := by
    exact hd.src hq
  generalize hN : b.upd b.tp (S'.set j (sess a0 m srcA db.source mt k)) out fs rxq = N
  have hNq : Quiet N.s i := by subst hN; exact upd_quiet _ _ _ _ _ _ hq
  have hNd : N.s.devs[i]? = some db := by subst hN; exact hd.dev0
  have hfd : findDev N.s.devs db.source = some i := by subst hN; exact findDev_lead (n := b) hd (by omega)
  have hfj : findIdx (sessOf srcA db.source) N.slots = some j := by
    subst hN; exact findIdx_set_of_none _ _ _ _ hnone hj (sessOf_sess _ _ _ _ _ _)
  have hsl : N.slots[j]? = some (sess a0 m srcA db.source mt k) := by
    subst hN; exact List.getElem?_set_self hj
  have hk255 : k < 255 := by omega
  obtain ⟨hge, htake⟩ := copyBuf_last m k (by omega) hlen hk hl
  rw [dtFrame_eq, hdst, rxFrame_dt N srcA db.source _ hsrc (by omega) (dtBytes_length m k)]
  rw [handleData_last_quiet N srcA db.source i j db _ _ hNq hNd hsrc hfd hfj hsl
        (by rw [dtBytes_head m k hk255]; rfl) hge]
  have hreq : (sess a0 m srcA db.source mt k).reqCTS > 0 := tpCtsPackets_pos _
  rw [if_pos hreq, dtBytes_head m k hk255]
  refine ⟨S'.set j (freeMessage (dtSlot (sess a0 m srcA db.source mt k) (dtBytes m k) (millis32 N.s.now))), ?_, ?_, ?_⟩
  · subst hN
    simp only [finish, upd_setSlot, upd_pushes, List.set_set]
    unfold deliver
    simp only [upd_slots, List.getElem?_set_self hj]
    rw [systemMessage_tp _ _ (by rfl)]
    simp only [upd_slots, upd_out, List.set_set, deliveryOf]
    have e1 : (dtSlot (sess a0 m srcA db.source mt k) (dtBytes m k)
        (millis32 (b.upd b.tp (S'.set j (sess a0 m srcA db.source mt k)) out fs rxq).s.now)).data.take m.len
          = m.data.take m.len := by simpa [dtSlot, sess] using htake
    simp only [Node.upd]
    congr 1
    simp only [dtSlot, sess, rtsSlot, startSlot] at e1 ⊢
    simp [e1, delivered]
  · intro a ha
    rcases List.mem_or_eq_of_mem_set ha with h | h
    · have := findIdx_get (sessOf srcA db.source) S'
      cases hs : sessOf srcA db.source a with
      | false => rfl
      | true =>
        obtain ⟨jj, hjj⟩ := findIdx_exists (sessOf srcA db.source) S' ⟨a, h, hs⟩
        rw [hnone] at hjj; cases hjj
    · subst h; simp [sessOf, freeMessage]
  · simp

end rx

end N2k.TP
