import N2k.Lemmas.SendGate
/-!
# C04 — Nothing is transmitted when the node is not entitled to transmit

Model: `N2k.Send` (`Model/Send.lean`): `openStep` (`Open()`), `sendMsgTop` (`SendMsg`), `pollTop`
(`ParseMessages` with nothing to receive), `gate`/`produce`, `startAddressClaim`, `isAddressClaimStarted`.
"Transmitted" is made precise as: the frame stream `St.stream` (frames accepted by the driver ++ frames in
the send queue) grows. Frames that were queued *before* a claim window and are flushed inside it are not
produced in the window (scope note in DESIGN.md §4 C04).
-/
namespace N2k.C04
open N2k.Send N2k.Time

/-! ## the gate of an open node -/

/-- **C04_listen_only (open node).** In listen-only mode `SendMsg` returns false and changes nothing. -/
theorem C04_listen_only_send (s : St) (m : Msg) (dev : Option Nat) (h : s.listenOnly = true) :
    (sendMsg s m dev).2 = false ∧ (sendMsg s m dev).1.stream = s.stream := by
  obtain ⟨s', hg⟩ := gate_listenOnly s m dev h
  obtain ⟨a, b, _, _⟩ := gate_refuse s m dev s' hg
  unfold sendMsg
  rw [hg]
  exact ⟨rfl, by simp [St.stream, a, b]⟩

/-- **C04_claim_gate.** While the device's address claim is pending, an application send of anything but
PGN 60928 fails visibly (returns false) and produces no frame: neither sent nor queued. -/
theorem C04_claim_gate (s : St) (m : Msg) (dev : Option Nat) (d0 : Dev)
    (hd : s.devs[dev.getD 0]? = some d0) (hc : (isAddressClaimStarted s.flavor s.now d0).2 = true)
    (hp : m.pgn ≠ 60928) :
    (sendMsg s m dev).2 = false ∧ (sendMsg s m dev).1.stream = s.stream := by
  obtain ⟨s', hg⟩ := gate_claiming s m dev d0 hd hc hp
  obtain ⟨a, b, _, _⟩ := gate_refuse s m dev s' hg
  unfold sendMsg
  rw [hg]
  exact ⟨rfl, by simp [St.stream, a, b]⟩

/-- **C04_null_address.** A device at the null address 254 (any address above 251) cannot send anything
but an address claim. -/
theorem C04_null_address (s : St) (m : Msg) (i : Nat) (d0 : Dev) (hd : s.devs[i]? = some d0)
    (hsrc : d0.source > Gen.maxCanBusAddress) (hp : m.pgn ≠ 60928) :
    (sendMsg s m (some i)).2 = false ∧ (sendMsg s m (some i)).1.stream = s.stream := by
  cases hg : gate s m (some i) with
  | refuse s' =>
    obtain ⟨a, b, _, _⟩ := gate_refuse s m (some i) s' hg
    unfold sendMsg; rw [hg]
    exact ⟨rfl, by simp [St.stream, a, b]⟩
  | pass s1 d1 canId =>
    obtain ⟨d0', p⟩ := gate_pass s m (some i) s1 d1 canId hg
    have : d0' = d0 := by
      have := p.dev0; simp only [Option.getD_some] at this; rw [hd] at this; injection this with this; exact this.symm
    subst this
    exact absurd ⟨by simpa [srcOf] using hsrc, hp⟩ p.src

/-- **C04_only_claims.** Whatever a send produces carries the identifier of the message it was asked to
send; so in a claim window (where only PGN 60928 passes the gate) every produced frame is an address claim. -/
theorem C04_only_claims (s : St) (m : Msg) (dev : Option Nat) (d0 : Dev) (hq : s.ring.WF)
    (hlen : m.len ≤ m.data.length) (hd : s.devs[dev.getD 0]? = some d0)
    (hc : (isAddressClaimStarted s.flavor s.now d0).2 = true) :
    ∃ fs, (sendMsg s m dev).1.stream = s.stream ++ fs ∧
      ∀ f ∈ fs, m.pgn = 60928 ∧ f.id = msgId m dev d0 := by
  by_cases hp : m.pgn = 60928
  · obtain ⟨_, _, _, fs, h1, h2⟩ := sendMsg_stream s m dev hq hlen
    refine ⟨fs, h1, fun f hf => ⟨hp, ?_⟩⟩
    have hne : fs ≠ [] := fun e => by rw [e] at hf; cases hf
    obtain ⟨d0', hd', h3⟩ := h2 hne
    rw [hd] at hd'; injection hd' with hd'; subst hd'
    exact h3 f hf
  · exact ⟨[], by simpa using (C04_claim_gate s m dev d0 hd hc hp).2, by simp⟩

/-! ## the claim window -/

/-- 64-bit scheduler build: the claim is pending at `now'` iff `now' ≤ start + 250` -/
theorem C04_claim_window_t64 (start now' : Nat) (h : start + 250 < M64 - 1) :
    (Sched.fromNow .t64 start 250).isEnabled .t64 = true ∧
    ((Sched.fromNow .t64 start 250).isTime .t64 now' = false ↔ now' ≤ start + 250) := by
  have e : (start + 250) % M64 = start + 250 := Nat.mod_eq_of_lt (by omega)
  simp only [Sched.fromNow, Sched.isEnabled, Sched.isTime, disabledVal, e, bne_iff_ne, ne_eq,
    decide_eq_false_iff_not, Nat.not_lt]
  unfold M64 at *
  constructor
  · omega
  · trivial

/-- 32-bit scheduler build, any clock origin (also across the 2^32 wrap): with `Δ = now' - start` below
2^31 - 252, the claim is pending iff `Δ < 250` (`< 251` in the one case where the deadline coincides with
the all-ones sentinel and is moved to 0). -/
theorem C04_claim_window_t32 (start d : Nat) (hd : d < 2147483395) :
    (Sched.fromNow .t32 start 250).isEnabled .t32 = true ∧
    ((Sched.fromNow .t32 start 250).isTime .t32 (start + d) = false ↔
      d < (if (start % 4294967296 + 250) % 4294967296 = 4294967295 then 251 else 250)) := by
  simp only [Sched.fromNow, Sched.isEnabled, Sched.isTime, disabledVal, millis32, sub32, M32, INT32_MAX,
    Nat.reduceSub]
  by_cases hs : (start % 4294967296 + 250) % 4294967296 = 4294967295
  · simp only [hs, ↓reduceIte, bne_iff_ne, ne_eq, Bool.and_eq_false_imp, decide_eq_false_iff_not, Nat.not_lt]
    refine ⟨by omega, ⟨fun hh => ?_, fun hh _ => by omega⟩⟩
    have := hh (by omega); omega
  · simp only [hs, ↓reduceIte, bne_iff_ne, ne_eq, Bool.and_eq_false_imp, decide_eq_false_iff_not, Nat.not_lt]
    refine ⟨not_false, ⟨fun hh => ?_, fun hh _ => by omega⟩⟩
    have := hh not_false; omega

/-! ## before the interface is open -/

theorem startAddressClaim_noclaim (s : St) (i : Nat) (h : s.canClaim = false) : startAddressClaim s i = s := by
  unfold startAddressClaim; simp [h]

theorem foldl_noclaim : ∀ (l : List Nat) (u : St), u.claimMode = false → l.foldl startAddressClaim u = u
  | [], _, _ => rfl
  | a :: l, u, hu => by
    simp only [List.foldl_cons]
    rw [startAddressClaim_noclaim u a (by simp [St.canClaim, hu])]
    exact foldl_noclaim l u hu

/-- `Open()` while the settle time has not expired (or the CAN is not open yet): the node does not become
open and the frame stream is untouched -/
theorem openStep_waiting (s : St) (h3 : s.openState ≠ 3)
    (hn : ¬ (s.openState = 2 ∧ s.openSched.isTime s.flavor s.now = true)) :
    (openStep s).openState ≠ 3 ∧ (openStep s).drv = s.drv ∧ (openStep s).ring = s.ring := by
  unfold openStep
  by_cases h0 : s.openState = 0
  · simp only [h0, ↓reduceIte]
    by_cases ht : s.openSched.isTime s.flavor s.now = true
    · by_cases hc : s.canOpenOk = true <;> simp [ht, hc]
    · simp [ht]
  · simp only [h0, ↓reduceIte]
    by_cases h1 : s.openState = 1
    · simp only [h1, ↓reduceIte]
      by_cases ht : s.openSched.isTime s.flavor s.now = true
      · by_cases hc : s.canOpenOk = true <;> simp [ht, hc]
      · simp [ht, h1]
    · simp only [h1, ↓reduceIte, hn]
      exact ⟨h3, trivial, trivial⟩

/-- **C04_not_open.** While the interface has not reached `os_Open` and the 200 ms settle time after the
successful `CANOpen()` has not expired (or the CAN has not opened at all), an application send returns
false, and neither a send nor a poll adds a frame to the stream. -/
theorem C04_not_open (s : St) (m : Msg) (dev : Option Nat) (h3 : s.openState ≠ 3)
    (hn : ¬ (s.openState = 2 ∧ s.openSched.isTime s.flavor s.now = true)) :
    (sendMsgTop s m dev).2 = false ∧ (sendMsgTop s m dev).1.stream = s.stream ∧
    (pollTop s).stream = s.stream := by
  obtain ⟨a, b, c⟩ := openStep_waiting s h3 hn
  unfold sendMsgTop pollTop
  simp only [h3, ↓reduceIte, a]
  exact ⟨trivial, by simp [St.stream, b, c], by simp [St.stream, b, c]⟩

/-- **C04_settle.** `os_WaitOpen` is entered only through a successful `CANOpen()` and arms the 200 ms
scheduler; from there `os_Open` is reached only when that scheduler has expired (`openStep_waiting`). -/
theorem C04_wait_armed (s : St) (h : s.openState = 0 ∨ s.openState = 1) (h' : (openStep s).openState = 2) :
    s.canOpenOk = true ∧ (openStep s).openSched = Sched.fromNow s.flavor s.now 200 := by
  by_cases ht : s.openSched.isTime s.flavor s.now = true
  · by_cases hc : s.canOpenOk = true
    · rcases h with h | h <;> simp [openStep, h, ht, hc]
    · rcases h with h | h <;> simp [openStep, h, ht, hc] at h'
  · rcases h with h | h <;> simp [openStep, h, ht] at h'

/-- **C04_listen_only (whole life).** A listen-only node (which is not a claimant) never adds a frame to the
stream: not on a send, not on a poll, not while opening — from any state with an empty send queue. -/
theorem C04_listen_only (s : St) (m : Msg) (dev : Option Nat) (hl : s.listenOnly = true) (hc : s.claimMode = false)
    (hq : s.ring.read = s.ring.write) (hw : s.ring.WF) :
    (sendMsgTop s m dev).1.stream = s.stream ∧ (sendMsgTop s m dev).2 = false ∧
    (pollTop s).drv.sent = s.drv.sent := by
  have hopen : (openStep s).drv = s.drv ∧ (openStep s).ring = s.ring ∧ (openStep s).listenOnly = s.listenOnly := by
    unfold openStep
    by_cases h0 : s.openState = 0
    · simp only [h0, ↓reduceIte]
      by_cases ht : s.openSched.isTime s.flavor s.now = true
      · by_cases hcc : s.canOpenOk = true <;> simp [ht, hcc]
      · simp [ht]
    · simp only [h0, ↓reduceIte]
      by_cases h1 : s.openState = 1
      · simp only [h1, ↓reduceIte]
        by_cases ht : s.openSched.isTime s.flavor s.now = true
        · by_cases hcc : s.canOpenOk = true <;> simp [ht, hcc]
        · simp [ht]
      · simp only [h1, ↓reduceIte]
        by_cases h2 : s.openState = 2 ∧ s.openSched.isTime s.flavor s.now = true
        · simp only [h2, and_self, ↓reduceIte]
          unfold startAddressClaimAll
          rw [foldl_noclaim _ { s with openState := 3 } hc]
          exact ⟨rfl, rfl, rfl⟩
        · simp only [h2, ↓reduceIte]; exact ⟨trivial, trivial, trivial⟩
  obtain ⟨o1, o2, o3⟩ := hopen
  have hflush : ∀ t : St, t.ring = s.ring → t.drv = s.drv → (poll t).drv.sent = s.drv.sent := by
    intro t h1 h2
    unfold poll sendFrames
    have : t.ring.cnt = 0 := by rw [h1]; exact (cnt_zero_iff' s.ring hw).mpr hq
    rw [this]
    simp [sendFramesAux, h2]
  have hl' : (openStep s).listenOnly = true := by rw [o3]; exact hl
  by_cases ho : s.openState = 3
  · simp only [sendMsgTop, pollTop, ho, ↓reduceIte]
    exact ⟨(C04_listen_only_send s m dev hl).2, (C04_listen_only_send s m dev hl).1, hflush s rfl rfl⟩
  · by_cases ho' : (openStep s).openState = 3
    · simp only [sendMsgTop, pollTop, ho, ↓reduceIte, ho']
      refine ⟨?_, (C04_listen_only_send (openStep s) m dev hl').1, hflush _ o2 o1⟩
      rw [(C04_listen_only_send (openStep s) m dev hl').2]; simp [St.stream, o1, o2]
    · simp only [sendMsgTop, pollTop, ho, ↓reduceIte, ho']
      exact ⟨by simp [St.stream, o1, o2], trivial, by rw [o1]⟩

/-! ## non-vacuity -/

def demoDev : Dev := { source := 34, name := 77, claimTimer := Sched.fromNow .t32 4294967200 250, endSource := 33 }
def demoSt : St :=
  { flavor := .t32, now := 4294967200 + 249, listenOnly := false, claimMode := true, lists := {}, devs := [demoDev],
    ring := { n := 4, buf := fun _ => ⟨0, 0, []⟩, read := 0, write := 0 },
    drv := { script := [], dflt := true, sent := [] } }
/-- a claim armed 96 ms before the 32-bit clock wraps is still pending 249 ms later and over 1 ms after that -/
example : (isAddressClaimStarted demoSt.flavor demoSt.now demoDev).2 = true := by decide
example : (isAddressClaimStarted .t32 (4294967200 + 250) demoDev).2 = false := by decide
example : (sendMsg demoSt { prio := 2, pgn := 127250, src := 0, dst := 255, len := 8, data := [1,2,3,4,5,6,7,8] } (some 0)).2 = false := by decide

end N2k.C04
