// Shared plumbing for the correspondence harnesses (see DESIGN.md §2.2).
// Usage of every harness:  <bin> <outdir> <seed> <tier:quick|thorough> [replay-ops-file]
// Files written into <outdir>:
//   ops.txt     one operation per line (the exact lines fed to the Lean driver)
//   impl.out    one line per operation: what the REAL code did
//   oracle.txt  "FAIL <key> <opline#> <text>"  lines from the model-independent property oracle
//   stats.json  counters, distinct non-trivial cases, samples
// A line is flushed to ops.txt BEFORE the real code executes it, so that a sanitizer abort
// identifies the operation (last line of ops.txt).
#pragma once
#include <cstdio>
#include <cstdlib>
#include <cstring>
#include <cstdarg>
#include <cstdint>
#include <string>
#include <vector>
#include <map>
#include <set>
#include <unordered_set>
#include <functional>

namespace vh {

struct Rng {
  uint64_t s;
  explicit Rng(uint64_t seed = 1) : s(seed * 0x9E3779B97F4A7C15ULL + 0x1234567ULL) {}
  uint64_t next() {  // splitmix64
    uint64_t z = (s += 0x9E3779B97F4A7C15ULL);
    z = (z ^ (z >> 30)) * 0xBF58476D1CE4E5B9ULL;
    z = (z ^ (z >> 27)) * 0x94D049BB133111EBULL;
    return z ^ (z >> 31);
  }
  uint64_t below(uint64_t n) { return n ? next() % n : 0; }           // [0,n)
  int64_t range(int64_t lo, int64_t hi) { return lo + (int64_t)below((uint64_t)(hi - lo + 1)); }  // [lo,hi]
  bool chance(unsigned num, unsigned den) { return below(den) < num; }
  template <class T> const T &pick(const std::vector<T> &v) { return v[below(v.size())]; }
};

struct Ctx {
  std::string outdir;
  uint64_t seed = 1;
  bool thorough = false;
  std::string replay;
  FILE *ops = nullptr, *impl = nullptr, *oracle = nullptr;
  long opline = 0;      // number of op lines written
  long implline = 0;
  long fails = 0;
  std::map<std::string, long> counters;
  std::unordered_set<uint64_t> distinct;   // hashes of distinct non-trivial cases
  std::vector<std::string> samples;
  std::string rule;
  long cases = 0;

  void init(int argc, char **argv) {
    if (argc < 4) { fprintf(stderr, "usage: %s <outdir> <seed> <quick|thorough> [replay]\n", argv[0]); exit(2); }
    outdir = argv[1]; seed = strtoull(argv[2], nullptr, 10); thorough = !strcmp(argv[3], "thorough");
    if (argc > 4) replay = argv[4];
    ops = fopen((outdir + "/ops.txt").c_str(), "w");
    impl = fopen((outdir + "/impl.out").c_str(), "w");
    oracle = fopen((outdir + "/oracle.txt").c_str(), "w");
    if (!ops || !impl || !oracle) { perror("open outdir"); exit(2); }
  }
  // write an op line (flushed immediately)
  void op(const char *fmt, ...) __attribute__((format(printf, 2, 3))) {
    va_list ap; va_start(ap, fmt); vfprintf(ops, fmt, ap); va_end(ap);
    fputc('\n', ops); fflush(ops); ++opline;
  }
  // write the implementation's output for the last op
  void out(const char *fmt, ...) __attribute__((format(printf, 2, 3))) {
    va_list ap; va_start(ap, fmt); vfprintf(impl, fmt, ap); va_end(ap);
    fputc('\n', impl); ++implline;
  }
  void outs(const std::string &s) { fputs(s.c_str(), impl); fputc('\n', impl); ++implline; }
  // oracle failure (model independent): key identifies the failing input class for known_findings.json
  void fail(const std::string &key, const char *fmt, ...) __attribute__((format(printf, 3, 4))) {
    fprintf(oracle, "FAIL %s %ld ", key.c_str(), opline);
    va_list ap; va_start(ap, fmt); vfprintf(oracle, fmt, ap); va_end(ap);
    fputc('\n', oracle); fflush(oracle); ++fails;
  }
  void count(const std::string &k, long n = 1) { counters[k] += n; }
  static uint64_t hash(const std::string &s) {
    uint64_t h = 1469598103934665603ULL; for (unsigned char c : s) { h ^= c; h *= 1099511628211ULL; } return h;
  }
  void nontrivial(const std::string &desc) { distinct.insert(hash(desc)); }
  void sample(const std::string &s) { if (samples.size() < 8) samples.push_back(s); }
  static std::string jsonEsc(const std::string &s) {
    std::string r; for (char c : s) { if (c == '"' || c == '\\') { r += '\\'; r += c; } else if (c == '\n') r += "\\n"; else if ((unsigned char)c < 32) r += '?'; else r += c; } return r;
  }
  void finish() {
    fclose(ops); fclose(impl); fclose(oracle);
    FILE *f = fopen((outdir + "/stats.json").c_str(), "w");
    fprintf(f, "{\n \"evaluations\": %ld,\n \"cases\": %ld,\n \"distinct_nontrivial\": %zu,\n \"oracle_failures\": %ld,\n",
            opline, cases, distinct.size(), fails);
    fprintf(f, " \"rule\": \"%s\",\n \"counters\": {", jsonEsc(rule).c_str());
    bool first = true;
    for (auto &kv : counters) { fprintf(f, "%s\"%s\": %ld", first ? "" : ", ", jsonEsc(kv.first).c_str(), kv.second); first = false; }
    fprintf(f, "},\n \"samples\": [");
    for (size_t i = 0; i < samples.size(); i++) fprintf(f, "%s\"%s\"", i ? ", " : "", jsonEsc(samples[i]).c_str());
    fprintf(f, "]\n}\n");
    fclose(f);
  }
};

inline std::string hex(const unsigned char *p, size_t n) {
  if (n == 0) return "-";
  static const char *d = "0123456789abcdef"; std::string r; r.reserve(2 * n);
  for (size_t i = 0; i < n; i++) { r += d[p[i] >> 4]; r += d[p[i] & 15]; } return r;
}
inline std::vector<unsigned char> unhex(const std::string &s) {
  std::vector<unsigned char> r; if (s == "-") return r;
  auto v = [](char c) { return c <= '9' ? c - '0' : (c | 32) - 'a' + 10; };
  for (size_t i = 0; i + 1 < s.size(); i += 2) r.push_back((unsigned char)(v(s[i]) * 16 + v(s[i + 1]))); return r;
}
inline std::vector<std::string> split(const std::string &s) {
  std::vector<std::string> r; size_t i = 0;
  while (i < s.size()) { while (i < s.size() && s[i] == ' ') i++; size_t j = i; while (j < s.size() && s[j] != ' ') j++; if (j > i) r.push_back(s.substr(i, j - i)); i = j; }
  return r;
}
// read replay file lines
inline std::vector<std::string> readLines(const std::string &path) {
  std::vector<std::string> r; FILE *f = fopen(path.c_str(), "r"); if (!f) return r;
  char buf[8192]; while (fgets(buf, sizeof buf, f)) { std::string s(buf); while (!s.empty() && (s.back() == '\n' || s.back() == '\r')) s.pop_back(); if (!s.empty() && s[0] != '#') r.push_back(s); }
  fclose(f); return r;
}

}  // namespace vh
