/-! # Bit-level layout language for PGN setter/parser pairs (C05, C15)

A **setter layout** is the payload as a list of bit sources (payload bit `8·byte + bit`, LSB first):
a constant, or "bit `i` of parameter `p`". A **parser layout** gives, for every field, the payload bit each
of its output bits is read from (`none` = constant 0). A scaled (`double`) field appears on both sides as a
plain `8w`-bit parameter — its integer *code* — plus a side record `(offset, w, signed, resolution)`; the
double↔code conversion itself is property C06 (`N2k/Model/Scaled.lean`).

The layouts of the real functions are GENERATED from the C++ source (`N2k/Gen/Layouts.lean`,
`tools/translators/layouts.py`); this file is the fixed language they are written in. Core Lean only. -/
namespace N2k.Layout

inductive BitSrc where
  | zero | one
  | param (p i : Nat)
  /-- a payload bit the translator could not express (a conditional or a computed value); no field can
  mirror it and the driver masks the byte -/
  | unk
  deriving DecidableEq, Repr

/-- setter: payload bit k ↦ source -/
abbrev Setter := List BitSrc

/-- run-length form of a setter layout (what the generated file contains): `n` constant bits, `n` untranslated
bits, or bits `lo .. lo+n-1` of parameter `p` -/
inductive Seg where
  | zeros (n : Nat) | ones (n : Nat) | unks (n : Nat)
  | pbits (p lo n : Nat)
  deriving DecidableEq, Repr

def Seg.len : Seg → Nat
  | .zeros n => n | .ones n => n | .unks n => n | .pbits _ _ n => n

/-- the `j`-th bit of a segment -/
def Seg.src : Seg → Nat → BitSrc
  | .zeros _, _ => .zero | .ones _, _ => .one | .unks _, _ => .unk
  | .pbits p lo _, j => .param p (lo + j)

def Seg.expand (s : Seg) : Setter := (List.range s.len).map s.src

/-- the bit list a segment list stands for -/
def expand (S : List Seg) : Setter := S.flatMap Seg.expand

/-- direct lookup of payload bit `k` in the run-length form (`= (expand S)[k]?`, lemma `srcAt_eq`) -/
def srcAt : List Seg → Nat → Option BitSrc
  | [], _ => none
  | s :: t, k => if k < s.len then some (s.src k) else srcAt t (k - s.len)
/-- one output parameter: output bit (LSB first) ↦ payload bit it reads (`none` = constant 0) -/
abbrev OutBits := List (Option Nat)
/-- parser: field number ↦ output bits (`[]` for a field the parser does not produce) -/
abbrev Parser := List OutBits

/-- side record of a scaled field: first payload bit, width in bytes, signedness and the resolution
`resNum / 10^resExp` (the exact decimal value of the literal in the source text) -/
structure ScaledRec where
  off : Nat
  w : Nat
  signed : Bool
  resNum : Nat
  resExp : Nat
  deriving DecidableEq, Repr

def ofBits : List Bool → Nat
  | [] => 0
  | b :: t => (if b then 1 else 0) + 2 * ofBits t

def srcVal (params : Nat → Nat) : BitSrc → Bool
  | .zero => false
  | .one => true
  | .param p i => (params p).testBit i
  | .unk => false

/-- the payload bits the setter produces for the parameter values (codes) `params` -/
def encode (S : Setter) (params : Nat → Nat) : List Bool := S.map (srcVal params)

def decodeOne (payload : List Bool) (bits : OutBits) : Nat :=
  ofBits (bits.map fun | none => false | some k => payload.getD k false)

/-- the value (code) of every field the parser produces -/
def decode (P : Parser) (payload : List Bool) : List Nat := P.map (decodeOne payload)

/-- output bit `i` of field `o` is wired to the setter's bit `(o,i)` when `i < W`; above the field width it
must be a constant 0 or a bit of the same parameter at or above `W` (which is 0 for every value `< 2^W`) -/
def bitOK (get : Nat → Option BitSrc) (o W i : Nat) (b : Option Nat) : Bool :=
  match b with
  | none => decide (W ≤ i)
  | some k =>
    if i < W then get k == some (.param o i)
    else match get k with
      | some .zero => true
      | some (.param p j) => p == o && decide (W ≤ j)
      | _ => false

/-- `get` is the setter layout as a lookup function (`fun k => S[k]?`, or `srcAt segs`) -/
def outOK (get : Nat → Option BitSrc) (o W : Nat) (bits : OutBits) : Bool :=
  decide (W ≤ bits.length) && (List.range bits.length).all fun i => bitOK get o W i (bits.getD i none)

/-- condition on the integer parameters under which a setter takes a path (unsigned comparison of a whole
parameter with a constant) -/
inductive Cond where
  | tt
  | eq (f c : Nat) | ne (f c : Nat) | lt (f c : Nat) | le (f c : Nat) | gt (f c : Nat) | ge (f c : Nat)
  | and (a b : Cond) | or (a b : Cond) | not (a : Cond)
  deriving Repr

def Cond.eval (v : Nat → Nat) : Cond → Bool
  | .tt => true
  | .eq f c => v f == c | .ne f c => v f != c
  | .lt f c => decide (v f < c) | .le f c => decide (v f ≤ c)
  | .gt f c => decide (v f > c) | .ge f c => decide (v f ≥ c)
  | .and a b => a.eval v && b.eval v
  | .or a b => a.eval v || b.eval v
  | .not a => !a.eval v

/-- a setter/parser pair as read off the source -/
structure Pair where
  id : String
  /-- PGN the setter puts into the message -/
  pgn : Nat
  /-- PGN the parser insists on (`none`: the parser has no PGN guard) -/
  guard : Option Nat
  /-- field names; the position in this list is the field (parameter) number -/
  names : List String
  /-- `W o`: number of bits of field `o` the interface documents (enumeration range, flag, named bits of a
  status union, `8w` for a scaled field) or, for plain integers, the number of bits the setter stores -/
  widths : List Nat
  /-- setter layout in run-length form; the bit list is `P.setterBits` -/
  setter : List Seg
  parser : Parser
  /-- fields that are both set and parsed: the round trip is claimed for these -/
  checked : List Nat
  setScaled : List (Nat × ScaledRec)
  parseScaled : List (Nat × ScaledRec)
  /-- payload bits the parser compares with constants before it accepts the message -/
  payloadGuard : List (Nat × Bool)
  /-- parser outputs the translator could not express (no obligation; direct oracle only) -/
  opaqueOut : List Nat
  /-- payload length (bytes) the parser accepts -/
  lenMin : Nat := 0
  lenMax : Nat := 223
  /-- what the translator managed: a setter layout, possibly only a prefix of the payload; a parser layout -/
  setterOK : Bool := true
  setterPrefixOnly : Bool := false
  parserOK : Bool := true
  /-- setter parameters whose C type is a signed integer (their code is the two's complement in the field) -/
  signedInts : List Nat := []
  /-- width of the C type of an integer parameter (0 for enumerations, flags, doubles, unions, text) -/
  intBits : List Nat := []
  /-- a path variant: the layouts describe the setter on the path it takes when `setCond` holds for its parameters
  (and the parser on the messages that path produces); `variantOf` is the id of the pair it is a path of -/
  variantOf : String := ""
  setCond : Cond := .tt
  /-- `(o, n, U)`: field `o` is an `n`-bit field whose all-ones pattern ("not available") the parser hands back as
  the value `U` (the enumeration's own NA, e.g. `N2khs_Undef = 0xff` for the 2-bit humidity source of PGN 130311):
  the source form `if (x == 2^n-1) x = U;` after the field has been extracted -/
  naRemap : List (Nat × Nat × Nat) := []
  /-- the setter as a public function: `name/number of parameters`; `isWrapper`: an inline overload / alias wrapper of
  the headers (its layout is read through the function it forwards to) -/
  setterKey : String := ""
  isWrapper : Bool := false
  deriving Repr

def Pair.W (P : Pair) (o : Nat) : Nat := P.widths.getD o 0

def Pair.setterBits (P : Pair) : Setter := expand P.setter

def lookupRec (l : List (Nat × ScaledRec)) (o : Nat) : Option ScaledRec :=
  match l with
  | [] => none
  | (k, r) :: t => if k = o then some r else lookupRec t o

/-- code of an INTEGER parameter value: the value itself, or - when the setter writes `value / c` (side record
with resolution `c` on an integer parameter, e.g. the heartbeat interval in 10 ms units) - the truncated quotient,
as C++ unsigned division. (The code of a `double` parameter is `round(v / resolution)`, property C06.) -/
def Pair.intCode (P : Pair) (o v : Nat) : Nat :=
  if P.intBits.getD o 0 = 0 then v else
  match lookupRec P.setScaled o with
  | some r => if r.resExp = 0 ∧ r.resNum ≠ 0 then v / r.resNum else v
  | none => v

def lookupRemap (l : List (Nat × Nat × Nat)) (o : Nat) : Option (Nat × Nat) :=
  match l with
  | [] => none
  | (k, n, u) :: t => if k = o then some (n, u) else lookupRemap t o

/-- the value the parser returns for field `o` when the bits it reads hold `raw` -/
def Pair.value (P : Pair) (o raw : Nat) : Nat :=
  match lookupRemap P.naRemap o with
  | some (n, u) => if raw = 2 ^ n - 1 then u else raw
  | none => raw

/-- the values of field `o` the round trip is claimed for: everything below `2^W`; for an `n`-bit field with an NA
remap everything the field can hold below its all-ones pattern, and the NA value itself -/
def Pair.inDomain (P : Pair) (o v : Nat) : Prop :=
  match lookupRemap P.naRemap o with
  | some (n, u) => v < 2 ^ n - 1 ∨ v = u
  | none => v < 2 ^ P.W o

/-- side conditions of an NA remap: the field is exactly `n > 0` bits on both sides and the NA value `U` is written by
the setter as the all-ones pattern (its low `n` bits are ones) -/
def remapOK (P : Pair) (o : Nat) : Bool :=
  match lookupRemap P.naRemap o with
  | none => true
  | some (n, u) => decide (0 < n) && P.W o == n && (P.parser.getD o []).length == n && u % 2 ^ n == 2 ^ n - 1

/-- per-field obligation: the parser reads field `o` from exactly the bits the setter wrote it to, both sides use the
same scaled side record (or both treat the field as an integer), and an NA remap is consistent with the setter -/
def fieldOK (P : Pair) (o : Nat) : Bool :=
  outOK (srcAt P.setter) o (P.W o) (P.parser.getD o []) &&
  decide (lookupRec P.setScaled o = lookupRec P.parseScaled o) && remapOK P o

/-- constants the parser insists on are constants the setter writes -/
def payloadGuardOK (P : Pair) : Bool :=
  P.payloadGuard.all fun kb => srcAt P.setter kb.1 == some (if kb.2 then .one else .zero)

/-- the parser's PGN guard is the PGN the setter sets -/
def guardOK (P : Pair) : Bool := P.guard == some P.pgn

def setterLen (S : List Seg) : Nat := (S.map Seg.len).sum

/-- the payload the setter produces has a length the parser accepts -/
def lenOK (P : Pair) : Bool :=
  decide (8 * P.lenMin ≤ setterLen P.setter) && decide (setterLen P.setter ≤ 8 * P.lenMax)

def guardsOK (P : Pair) : Bool := payloadGuardOK P && guardOK P && lenOK P

def pairOK (P : Pair) : Bool := P.checked.all (fieldOK P) && guardsOK P

def payloadGuardHolds (P : Pair) (payload : List Bool) : Bool :=
  P.payloadGuard.all fun kb => payload.getD kb.1 false == kb.2

/-- the parser on a message `(pgn, payload)`: refusal, or the field values -/
def pgnAccepted (P : Pair) (pgn : Nat) : Bool :=
  match P.guard with
  | some g => pgn == g
  | none => true

def lenAccepted (P : Pair) (payload : List Bool) : Bool :=
  decide (8 * P.lenMin ≤ payload.length) && decide (payload.length ≤ 8 * P.lenMax)

def parseMsg (P : Pair) (pgn : Nat) (payload : List Bool) : Option (List Nat) :=
  if pgnAccepted P pgn && lenAccepted P payload && payloadGuardHolds P payload
  then some ((List.range P.parser.length).map fun o => P.value o ((decode P.parser payload).getD o 0)) else none

/-- the setter: PGN and payload -/
def setMsg (P : Pair) (params : Nat → Nat) : Nat × List Bool := (P.pgn, encode P.setterBits params)

/-! byte view used by the driver engine -/
def byteBits (b : Nat) : List Bool := (List.range 8).map fun i => b.testBit i

def bytesToBits (bs : List Nat) : List Bool := bs.flatMap byteBits

def bitsToBytes (l : List Bool) : List Nat :=
  (List.range ((l.length + 7) / 8)).map fun j => ofBits ((l.drop (8 * j)).take 8)

end N2k.Layout
