import N2k.Lemmas.TPSender
/-! C10 helper lemmas: the receiving side (slot search, announce, data packets) on a quiet node. -/
namespace N2k.TP
open N2k.Send N2k.Time N2k.Spec

/-! ## identifier round trip for protocol frames -/

theorem tpId_decode (pgn src dst : Nat) (hp : pgn = TP_CM ∨ pgn = TP_DT) (hs : src < 256) (hd : dst < 256) :
    canIdToN2k (n2kToCanId 6 pgn src dst) = (6, pgn, src, dst) := by
  have hv : isPDU1 pgn = true → pgn % 256 = 0 := by rcases hp with h | h <;> subst h <;> decide
  have hlt : pgn < 2^18 := by rcases hp with h | h <;> subst h <;> decide
  have hlt' : pgn < 2^17 := by rcases hp with h | h <;> subst h <;> decide
  have h1 : isPDU1 pgn = true := by rcases hp with h | h <;> subst h <;> decide
  rw [id_layout 6 pgn src dst hlt hs hd hv]
  rw [id_roundtrip (6 % 8) pgn src dst (by omega) hlt' hs hd hv, h1]
  rfl

/-! ## slot search -/

theorem findIdx_lt {α : Type} (p : α → Bool) : ∀ (l : List α) (j : Nat), findIdx p l = some j → j < l.length
  | [], _, h => by simp [findIdx] at h
  | a :: t, j, h => by
    unfold findIdx at h
    by_cases hp : p a = true
    · rw [if_pos hp] at h; cases h; simp
    · rw [if_neg hp] at h
      cases hf : findIdx p t with
      | none => rw [hf] at h; simp at h
      | some k =>
        rw [hf] at h; simp at h; subst h
        have := findIdx_lt p t k hf
        simp; omega

theorem findIdx_get {α : Type} (p : α → Bool) : ∀ (l : List α) (j : Nat), findIdx p l = some j → ∃ a, l[j]? = some a ∧ p a = true
  | [], _, h => by simp [findIdx] at h
  | a :: t, j, h => by
    unfold findIdx at h
    by_cases hp : p a = true
    · rw [if_pos hp] at h; cases h; exact ⟨a, rfl, hp⟩
    · rw [if_neg hp] at h
      cases hf : findIdx p t with
      | none => rw [hf] at h; simp at h
      | some k =>
        rw [hf] at h; simp at h; subst h
        obtain ⟨b, hb, hpb⟩ := findIdx_get p t k hf
        exact ⟨b, by simpa using hb, hpb⟩

/-- replacing the found element by one that still satisfies the predicate keeps the result -/
theorem findIdx_set {α : Type} (p : α → Bool) : ∀ (l : List α) (j : Nat) (a' : α), findIdx p l = some j → p a' = true →
    findIdx p (l.set j a') = some j
  | [], _, _, h, _ => by simp [findIdx] at h
  | a :: t, j, a', h, ha' => by
    unfold findIdx at h
    by_cases hp : p a = true
    · rw [if_pos hp] at h; cases h
      simp [findIdx, ha']
    · rw [if_neg hp] at h
      cases hf : findIdx p t with
      | none => rw [hf] at h; simp at h
      | some k =>
        rw [hf] at h; simp at h; subst h
        simp only [List.set_cons_succ, findIdx, hp]
        rw [findIdx_set p t k a' hf ha']
        simp

/-- replacing the found element by one that fails the predicate: nothing is found if nothing else satisfies it -/
theorem findIdx_exists {α : Type} (p : α → Bool) : ∀ (l : List α), (∃ a ∈ l, p a = true) → ∃ j, findIdx p l = some j
  | [], h => by obtain ⟨a, ha, _⟩ := h; simp at ha
  | a :: t, h => by
    unfold findIdx
    by_cases hp : p a = true
    · exact ⟨0, by rw [if_pos hp]⟩
    · rw [if_neg hp]
      obtain ⟨b, hb, hpb⟩ := h
      have hb' : b ∈ t := by
        rcases List.mem_cons.1 hb with h | h
        · subst h; exact absurd hpb hp
        · exact h
      obtain ⟨k, hk⟩ := findIdx_exists p t ⟨b, hb', hpb⟩
      exact ⟨k + 1, by rw [hk]; rfl⟩

theorem scanFree_fst (hit : Slot → Bool) : ∀ (l : List Slot) (i : Nat) (oi : Option Nat) (ot : Nat),
    (scanFree hit l i oi ot).1 = (findIdx hit l).map (· + i)
  | [], _, _, _ => rfl
  | a :: t, i, oi, ot => by
    unfold scanFree findIdx
    by_cases hp : hit a = true
    · simp [hp]
    · simp only [hp, Bool.false_eq_true, ↓reduceIte]
      split
      · rw [scanFree_fst hit t (i + 1)]
        cases findIdx hit t <;> simp; omega
      · rw [scanFree_fst hit t (i + 1)]
        cases findIdx hit t <;> simp; omega

/-- a slot that is free or already carries this message is taken as it is -/
theorem findFree_hit (slots : List Slot) (now32 pgn src dst : Nat) (tp : Bool) (j : Nat)
    (h : findIdx (slotHit pgn src dst tp) slots = some j) : findFree slots now32 pgn src dst tp = (slots, some j) := by
  unfold findFree
  have := scanFree_fst (slotHit pgn src dst tp) slots 0 none now32
  simp only [h, Option.map_some, Nat.add_zero] at this
  simp only [this]

/-- the "oldest slot" the scan reports is a slot of the list and `ot` is its message time (or both are the initial values) -/
theorem scanFree_oldest (hit : Slot → Bool) : ∀ (l : List Slot) (s : Nat) (oi : Option Nat) (ot : Nat),
    ((scanFree hit l s oi ot).2.1 = oi ∧ (scanFree hit l s oi ot).2.2 = ot) ∨
    (∃ k a, (scanFree hit l s oi ot).2.1 = some (s + k) ∧ l[k]? = some a ∧ a.msgTime = (scanFree hit l s oi ot).2.2)
  | [], _, _, _ => Or.inl ⟨rfl, rfl⟩
  | a :: t, s, oi, ot => by
    unfold scanFree
    by_cases hp : hit a = true
    · rw [if_pos hp]; exact Or.inl ⟨rfl, rfl⟩
    · rw [if_neg hp]
      by_cases hb : isTimeBefore a.msgTime ot = true
      · rw [if_pos hb]
        rcases scanFree_oldest hit t (s + 1) (some s) a.msgTime with h | ⟨k, b, h1, h2, h3⟩
        · exact Or.inr ⟨0, a, by rw [h.1]; rfl, rfl, h.2.symm⟩
        · exact Or.inr ⟨k + 1, b, by rw [h1]; congr 1; omega, by simpa using h2, h3⟩
      · rw [if_neg hb]
        rcases scanFree_oldest hit t (s + 1) oi ot with h | ⟨k, b, h1, h2, h3⟩
        · exact Or.inl h
        · exact Or.inr ⟨k + 1, b, by rw [h1]; congr 1; omega, by simpa using h2, h3⟩

/-- a slot that `FindFreeCANMsgIndex` recycles (no free or matching slot exists) is at least 100 ms old -/
theorem findFree_recycled_old (slots : List Slot) (now32 pgn src dst : Nat) (tp : Bool) (i : Nat)
    (hnone : findIdx (slotHit pgn src dst tp) slots = none) (h : (findFree slots now32 pgn src dst tp).2 = some i) :
    ∃ a, slots[i]? = some a ∧ hasElapsed a.msgTime 100 now32 = true := by
  unfold findFree at h
  have h1 := scanFree_fst (slotHit pgn src dst tp) slots 0 none now32
  rw [hnone] at h1
  simp only [Option.map_none] at h1
  have h2 := scanFree_oldest (slotHit pgn src dst tp) slots 0 none now32
  generalize scanFree (slotHit pgn src dst tp) slots 0 none now32 = r at *
  obtain ⟨r1, r2, r3⟩ := r
  simp only at h1 h2 h
  subst h1
  simp only at h
  cases r2 with
  | none => simp at h
  | some oi =>
    simp only at h
    generalize he : hasElapsed r3 100 now32 = e at h
    cases e with
    | false => simp at h
    | true =>
      simp at h
      subst h
      rcases h2 with ⟨hh, _⟩ | ⟨k, a, hk, ha, ht⟩
      · cases hh
      · simp at hk; subst hk
        exact ⟨a, ha, by rw [ht]; exact he⟩

/-! ## protocol frames arriving -/

theorem buf8_of_len8 (id : Nat) (b : List Nat) (hb : b.length = 8) : buf8 ⟨id, 8, b⟩ = b := by
  unfold buf8
  simp only
  rw [List.take_append_of_le_length (by omega), ← hb, List.take_length]

theorem sendCTS_quiet (n : Node) (pgn dest i np next : Nat) (d : Dev) (hq : Quiet n.s i) (hd : n.s.devs[i]? = some d)
    (hdest : dest < 256) : sendCTS n pgn dest i np next = n.pushes [cmFrame d.source dest (ctsBytes pgn np next)] := by
  unfold sendCTS
  simp only [hq.active, not_true_eq_false, ↓reduceIte]
  rw [srcAddr_eq n i d hd, emit_quiet n i _ d hq hd (isTp_cm _ _ _ (by simp [ctsBytes, le3]) hdest)]
  rfl

theorem sendEndAck_quiet (n : Node) (pgn dest i nb np : Nat) (d : Dev) (hq : Quiet n.s i) (hd : n.s.devs[i]? = some d)
    (hdest : dest < 256) : sendEndAck n pgn dest i nb np = n.pushes [cmFrame d.source dest (endAckBytes pgn nb np)] := by
  unfold sendEndAck
  simp only [hq.active, not_true_eq_false, ↓reduceIte]
  rw [srcAddr_eq n i d hd, emit_quiet n i _ d hq hd (isTp_cm _ _ _ (by simp [endAckBytes, le3]) hdest)]
  rfl

theorem sendAbort_quiet (n : Node) (pgn dest i code : Nat) (d : Dev) (hq : Quiet n.s i) (hd : n.s.devs[i]? = some d)
    (hdest : dest < 256) : sendAbort n pgn dest i code = n.pushes [cmFrame d.source dest (abortBytes pgn code)] := by
  unfold sendAbort
  simp only [hq.active, not_true_eq_false, ↓reduceIte]
  rw [srcAddr_eq n i d hd, emit_quiet n i _ d hq hd (isTp_cm _ _ _ (by simp [abortBytes, le3]) hdest)]
  rfl

theorem announce_quiet (ctrl : Nat) (n : Node) (i : Nat) (d : Dev) (hq : Quiet n.s i) (hd : n.s.devs[i]? = some d) (dst : Nat)
    (hdst : dst < 256) :
    emit n (cmMsg (srcAddr n i) dst (announceBytes ctrl (n.tp i).pend)) i
      = (n.pushes [cmFrame d.source dst (announceBytes ctrl (n.tp i).pend)], true) := by
  rw [srcAddr_eq n i d hd, emit_quiet n i _ d hq hd (isTp_cm _ _ _ (by simp [announceBytes, le3]) hdst)]
  rfl

end N2k.TP
