import N2k.Lemmas.SendQueue
/-! The gate of `SendMsg` and what its frame production adds to the stream (driver-accepted ++ queued). -/
namespace N2k.Send
open N2k.Time

/-- frames in flight: accepted by the driver so far, then the queue in ring order -/
def St.stream (s : St) : List Frame := s.drv.sent ++ s.ring.abs

/-- identifier `SendMsg` computes for a message from device entry `d0` -/
def msgId (m : Msg) (dev : Option Nat) (d0 : Dev) : Nat :=
  n2kToCanId m.prio m.pgn (srcOf dev d0 m) (if m.pgn &&& 0xff ≠ 0 then 0xff else m.dst)

/-- what a passed gate tells -/
structure Passed (s : St) (m : Msg) (dev : Option Nat) (s1 : St) (d1 : Dev) (canId : Nat) (d0 : Dev) : Prop where
  idx : dev.getD 0 < s.devs.length
  dev0 : s.devs[dev.getD 0]? = some d0
  src : ¬ (srcOf dev d0 m > Gen.maxCanBusAddress ∧ m.pgn ≠ 60928)
  id : canId = msgId m dev d0
  idnz : canId ≠ 0
  listen : s.listenOnly = false
  pgn0 : m.pgn ≠ 0
  d1eq : d1 = (isAddressClaimStarted s.flavor s.now d0).1
  s1eq : s1 = { s with devs := updDev s.devs (dev.getD 0) d1 }
  claim : ¬ ((isAddressClaimStarted s.flavor s.now d0).2 = true ∧ m.pgn ≠ 60928)

theorem gate_pass (s : St) (m : Msg) (dev : Option Nat) (s1 : St) (d1 : Dev) (canId : Nat)
    (h : gate s m dev = .pass s1 d1 canId) : ∃ d0, Passed s m dev s1 d1 canId d0 := by
  unfold gate at h
  by_cases hidx : dev.getD 0 ≥ s.devs.length
  · simp [hidx] at h
  · simp only [hidx, ↓reduceIte] at h
    cases hd : s.devs[dev.getD 0]? with
    | none => simp [hd] at h
    | some d0 =>
      simp only [hd] at h
      by_cases h3 : srcOf dev d0 m > Gen.maxCanBusAddress ∧ m.pgn ≠ 60928
      · simp [h3] at h
      · rw [if_neg h3] at h
        by_cases hc : n2kToCanId m.prio m.pgn (srcOf dev d0 m) (if m.pgn &&& 0xff ≠ 0 then 0xff else m.dst) = 0
        · rw [if_pos hc] at h; cases h
        · rw [if_neg hc] at h
          by_cases hl : s.listenOnly = true
          · rw [if_pos hl] at h; cases h
          · rw [if_neg hl] at h
            by_cases hp0 : m.pgn = 0
            · rw [if_pos hp0] at h; cases h
            · rw [if_neg hp0] at h
              by_cases hcl : (isAddressClaimStarted s.flavor s.now d0).2 = true ∧ m.pgn ≠ 60928
              · rw [if_pos hcl] at h; cases h
              · rw [if_neg hcl] at h
                injection h with e1 e2 e3
                refine ⟨d0, by omega, hd, h3, e3.symm, e3 ▸ hc, by simpa using hl, hp0, e2.symm, ?_, hcl⟩
                rw [← e1, ← e2]

theorem gate_refuse (s : St) (m : Msg) (dev : Option Nat) (s' : St) (h : gate s m dev = .refuse s') :
    s'.drv = s.drv ∧ s'.ring = s.ring ∧ s'.listenOnly = s.listenOnly ∧ s'.openState = s.openState := by
  unfold gate at h
  by_cases hidx : dev.getD 0 ≥ s.devs.length
  · simp only [hidx, ↓reduceIte] at h; injection h with h; subst h; simp
  · simp only [hidx, ↓reduceIte] at h
    cases hd : s.devs[dev.getD 0]? with
    | none => simp only [hd] at h; injection h with h; subst h; simp
    | some d0 =>
      simp only [hd] at h
      by_cases h3 : srcOf dev d0 m > Gen.maxCanBusAddress ∧ m.pgn ≠ 60928
      · rw [if_pos h3] at h; injection h with h; subst h; simp
      · rw [if_neg h3] at h
        by_cases hc : n2kToCanId m.prio m.pgn (srcOf dev d0 m) (if m.pgn &&& 0xff ≠ 0 then 0xff else m.dst) = 0
        · rw [if_pos hc] at h; injection h with h; subst h; simp
        · rw [if_neg hc] at h
          by_cases hl : s.listenOnly = true
          · rw [if_pos hl] at h; injection h with h; subst h; simp
          · rw [if_neg hl] at h
            by_cases hp0 : m.pgn = 0
            · rw [if_pos hp0] at h; injection h with h; subst h; simp
            · rw [if_neg hp0] at h
              by_cases hcl : (isAddressClaimStarted s.flavor s.now d0).2 = true ∧ m.pgn ≠ 60928
              · rw [if_pos hcl] at h; injection h with h; subst h; simp
              · rw [if_neg hcl] at h; cases h

/-- the claim gate: while the device's address claim is pending, anything but PGN 60928 is refused -/
theorem gate_claiming (s : St) (m : Msg) (dev : Option Nat) (d0 : Dev)
    (hd : s.devs[dev.getD 0]? = some d0) (hc : (isAddressClaimStarted s.flavor s.now d0).2 = true)
    (hp : m.pgn ≠ 60928) : ∃ s', gate s m dev = .refuse s' := by
  cases hg : gate s m dev with
  | refuse s' => exact ⟨s', rfl⟩
  | pass s1 d1 canId =>
    obtain ⟨d0', p⟩ := gate_pass s m dev s1 d1 canId hg
    have : d0' = d0 := by have := p.dev0; rw [hd] at this; injection this with this; exact this.symm
    subst this
    exact absurd ⟨hc, hp⟩ p.claim

theorem gate_listenOnly (s : St) (m : Msg) (dev : Option Nat) (hl : s.listenOnly = true) :
    ∃ s', gate s m dev = .refuse s' := by
  cases hg : gate s m dev with
  | refuse s' => exact ⟨s', rfl⟩
  | pass s1 d1 canId =>
    obtain ⟨d0', p⟩ := gate_pass s m dev s1 d1 canId hg
    have := p.listen; rw [hl] at this; cases this

/-- every frame `produce` adds carries `canId`; the ring stays well formed -/
theorem produce_stream (s1 : St) (idx : Nat) (d1 : Dev) (canId : Nat) (m : Msg) (hq : s1.ring.WF)
    (hlen : m.len ≤ m.data.length) :
    (produce s1 idx d1 canId m).1.ring.WF ∧
    ∃ fs : List Frame, (produce s1 idx d1 canId m).1.stream = s1.stream ++ fs ∧ (∀ f ∈ fs, f.id = canId) ∧
      (produce s1 idx d1 canId m).1.listenOnly = s1.listenOnly ∧
      (produce s1 idx d1 canId m).1.openState = s1.openState := by
  unfold produce
  by_cases hsf : m.len ≤ 8 ∧ ¬ (m.prio < 0x80 ∧ isFastPacketPGN s1.lists m.pgn = true)
  · rw [if_pos hsf]
    have hf : (⟨canId, m.len, m.data.take m.len⟩ : Frame).WF :=
      ⟨hsf.1, by show (List.take m.len m.data).length = m.len; rw [List.length_take]; omega⟩
    obtain ⟨a, _, c⟩ := sendFrame_inv s1.ring s1.drv _ hq hf
    dsimp only
    refine ⟨a, (if (sendFrame s1.ring s1.drv ⟨canId, m.len, m.data.take m.len⟩).2.2 = true then
        [(⟨canId, m.len, m.data.take m.len⟩ : Frame)] else []), ?_, ?_, rfl, rfl⟩
    · simp only [St.stream]; rw [c]
    · intro f hf'
      split at hf'
      · simp only [List.mem_singleton] at hf'; rw [hf']
      · cases hf'
  · rw [if_neg hsf]
    by_cases htp : m.tp = true
    · simp only [htp, ↓reduceIte]
      exact ⟨hq, [], by simp [St.stream], by simp, trivial, trivial⟩
    · simp only [htp, Bool.false_eq_true, ↓reduceIte]
      obtain ⟨a, j, _, _, hs⟩ := sendFpLoop_prefix canId m
        ((getSequenceCounter s1.lists d1 m.pgn).2 <<< 5) (fpFrameCount m.len) 0 s1.ring s1.drv hq
      refine ⟨a, (List.range j).map (fun t => (⟨canId, 8, fpFrame m
        ((getSequenceCounter s1.lists d1 m.pgn).2 <<< 5) (0 + t)⟩ : Frame)), ?_, ?_, trivial, trivial⟩
      · simp only [St.stream]; rw [hs]
      · intro f hf'
        simp only [List.mem_map, List.mem_range] at hf'
        obtain ⟨t, _, rfl⟩ := hf'
        rfl

/-- **stream theorem for `SendMsg`**: it only ever appends frames carrying the message's identifier -/
theorem sendMsg_stream (s : St) (m : Msg) (dev : Option Nat) (hq : s.ring.WF) (hlen : m.len ≤ m.data.length) :
    (sendMsg s m dev).1.ring.WF ∧ (sendMsg s m dev).1.listenOnly = s.listenOnly ∧
    (sendMsg s m dev).1.openState = s.openState ∧
    ∃ fs : List Frame, (sendMsg s m dev).1.stream = s.stream ++ fs ∧
      (fs ≠ [] → ∃ d0, s.devs[dev.getD 0]? = some d0 ∧ ∀ f ∈ fs, f.id = msgId m dev d0) := by
  unfold sendMsg
  cases hg : gate s m dev with
  | refuse s' =>
    obtain ⟨a, b, c, d⟩ := gate_refuse s m dev s' hg
    simp only
    exact ⟨b ▸ hq, c, d, [], by simp [St.stream, a, b], fun h => absurd rfl h⟩
  | pass s1 d1 canId =>
    obtain ⟨d0, p⟩ := gate_pass s m dev s1 d1 canId hg
    simp only
    have hr : s1.ring = s.ring := by rw [p.s1eq]
    have hdv : s1.drv = s.drv := by rw [p.s1eq]
    obtain ⟨a, fs, b, c, d, e⟩ := produce_stream s1 (dev.getD 0) d1 canId m (hr ▸ hq) hlen
    refine ⟨a, by rw [d, p.s1eq], by rw [e, p.s1eq], fs, ?_, fun _ => ⟨d0, p.dev0, fun f hf => (c f hf).trans p.id⟩⟩
    rw [b]; simp [St.stream, hr, hdv]

end N2k.Send
