import N2k.Model.Claim
/-! `GetNextAddress`: termination measure, result characterisation, progress. -/
namespace N2k.Claim
open N2k.Send N2k.Time

/-- number of candidates left before the search reaches the end-of-search address `e` (cyclic distance) -/
def dist (src e : Nat) : Nat := (e + 252 - src) % 252

/-- the `k`-th address after `src` in the cyclic order 0..251 (251 wraps to 0) -/
def cand (src k : Nat) : Nat := (src + k) % 252

theorem wrapInc (src : Nat) (hs : src ≤ 251) :
    (if (src + 1) % 256 > Gen.maxCanBusAddress then 0 else (src + 1) % 256) = (src + 1) % 252 := by
  have hm : Gen.maxCanBusAddress = 251 := rfl
  by_cases h2 : (src + 1) % 256 > Gen.maxCanBusAddress
  · rw [if_pos h2]; rw [hm] at h2; omega
  · rw [if_neg h2]; rw [hm] at h2; omega

theorem searchBody_valid (r : Bool) (src e : Nat) (hs : src ≤ 251) :
    searchBody r src e = if src = e then .ret 254 e true else .cand (cand src 1) e := by
  unfold searchBody cand
  have h1 : src ≠ Gen.nullCanBusAddress := by unfold Gen.nullCanBusAddress; omega
  rw [if_neg h1]
  by_cases h : src = e
  · simp [h, Gen.nullCanBusAddress]
  · simp only [h, ne_eq, not_false_eq_true, ↓reduceIte]
    rw [wrapInc src hs]

/-- what a terminating search from a valid address returns -/
structure SearchPost (sibs : List Nat) (src e : Nat) (r : SearchRes) : Prop where
  done : r.done = true
  changed : r.changed = true
  endSame : r.endSource = e
  result : (r.source = 254 ∧ ∀ j, 1 ≤ j → j ≤ dist src e → sibs.contains (cand src j) = true) ∨
           (∃ k, 1 ≤ k ∧ k ≤ dist src e ∧ r.source = cand src k ∧ sibs.contains (cand src k) = false ∧
              ∀ j, 1 ≤ j → j < k → sibs.contains (cand src j) = true)

/-- **termination + characterisation**: `dist src e + 1` passes are enough; the loop returns the first address
after `src` (cyclically, 251 → 0) up to and including `e` that no sibling device uses, and 254 exactly when
there is none, i.e. when the search reaches the end-of-search address. -/
theorem search_post (restart : Bool) (sibs : List Nat) :
    ∀ (d fuel src e : Nat), src ≤ 251 → e ≤ 251 → dist src e = d → d + 1 ≤ fuel →
      SearchPost sibs src e (search restart sibs fuel src e) := by
  intro d
  induction d with
  | zero =>
    intro fuel src e hs he hd hf
    obtain ⟨f, rfl⟩ : ∃ f, fuel = f + 1 := ⟨fuel - 1, by omega⟩
    have hse : src = e := by unfold dist at hd; omega
    rw [search, searchBody_valid restart src e hs, if_pos hse]
    exact ⟨rfl, rfl, rfl, Or.inl ⟨rfl, fun j h1 h2 => by omega⟩⟩
  | succ d ih =>
    intro fuel src e hs he hd hf
    obtain ⟨f, rfl⟩ : ∃ f, fuel = f + 1 := ⟨fuel - 1, by omega⟩
    have hse : src ≠ e := by unfold dist at hd; omega
    rw [search, searchBody_valid restart src e hs, if_neg hse]
    simp only
    have hc : cand src 1 ≤ 251 := by unfold cand; omega
    have hd' : dist (cand src 1) e = d := by unfold dist cand at *; omega
    have hcc : ∀ j, cand (cand src 1) j = cand src (j + 1) := by intro j; unfold cand; omega
    by_cases hm : sibs.contains (cand src 1) = true
    · rw [if_pos hm]
      have p := ih f (cand src 1) e hc he hd' (by omega)
      refine ⟨p.done, p.changed, p.endSame, ?_⟩
      rcases p.result with ⟨h254, hall⟩ | ⟨k, hk1, hk2, hr, hnot, hall⟩
      · left
        refine ⟨h254, fun j h1 h2 => ?_⟩
        by_cases hj : j = 1
        · subst hj; exact hm
        · have := hall (j - 1) (by omega) (by omega)
          rw [hcc] at this
          have e1 : j - 1 + 1 = j := by omega
          rw [e1] at this; exact this
      · right
        refine ⟨k + 1, by omega, by omega, by rw [hr, hcc], by rw [← hcc]; exact hnot, fun j h1 h2 => ?_⟩
        by_cases hj : j = 1
        · subst hj; exact hm
        · have := hall (j - 1) (by omega) (by omega)
          rw [hcc] at this
          have e1 : j - 1 + 1 = j := by omega
          rw [e1] at this; exact this
    · rw [if_neg hm]
      have hm' : sibs.contains (cand src 1) = false := by simpa using hm
      exact ⟨rfl, rfl, rfl, Or.inr ⟨1, by omega, by omega, rfl, hm', fun j h1 h2 => by omega⟩⟩

/-- the result of a terminating search is 254 or a valid address no sibling uses, and never the old address -/
theorem SearchPost.valid {sibs : List Nat} {src e : Nat} {r : SearchRes} (p : SearchPost sibs src e r)
    (hs : src ≤ 251) (_he : e ≤ 251) :
    (r.source = 254 ∨ (r.source ≤ 251 ∧ sibs.contains r.source = false)) ∧ r.source ≠ src := by
  rcases p.result with ⟨h, _⟩ | ⟨k, h1, h2, hr, hn, _⟩
  · exact ⟨Or.inl h, by omega⟩
  · have hd : dist src e ≤ 251 := by unfold dist; omega
    refine ⟨Or.inr ⟨by rw [hr]; unfold cand; omega, by rw [hr]; exact hn⟩, ?_⟩
    rw [hr]; unfold cand; omega

/-- **progress**: unless it gives up, the search strictly shortens the distance to the end-of-search address -/
theorem SearchPost.progress {sibs : List Nat} {src e : Nat} {r : SearchRes} (p : SearchPost sibs src e r)
    (hs : src ≤ 251) (he : e ≤ 251) (hn : r.source ≠ 254) : dist r.source e < dist src e := by
  rcases p.result with ⟨h, _⟩ | ⟨k, h1, h2, hr, _, _⟩
  · exact absurd h hn
  · rw [hr]; unfold dist cand at *; omega

/-- from the null address: nothing without `RestartAtEnd` -/
theorem search_null_norestart (sibs : List Nat) (fuel e : Nat) :
    search false sibs (fuel + 1) 254 e = ⟨254, e, false, true⟩ := by
  rw [search]; simp [searchBody, Gen.nullCanBusAddress]

/-- from the null address with `RestartAtEnd`: 14 (end-of-search 13), then on as usual -/
theorem search_null_restart (sibs : List Nat) (fuel e : Nat) :
    search true sibs (fuel + 1) 254 e =
      if sibs.contains 14 then search true sibs fuel 14 13 else ⟨14, 13, true, true⟩ := by
  rw [search]; simp [searchBody, Gen.nullCanBusAddress, updEnd]

/-- every terminating run leaves a valid or null address, latches the change when the address changed,
and keeps "valid address ⇒ valid end-of-search address" -/
structure SearchOK (sibs : List Nat) (src : Nat) (r : SearchRes) : Prop where
  done : r.done = true
  addr : r.source = 254 ∨ (r.source ≤ 251 ∧ sibs.contains r.source = false)
  endOK : r.source ≤ 251 → r.endSource ≤ 251
  latched : r.source ≠ src → r.changed = true

theorem search_ok (restart : Bool) (sibs : List Nat) (src e : Nat)
    (hs : src ≤ 251 ∨ src = 254) (he : src ≤ 251 → e ≤ 251) :
    SearchOK sibs src (search restart sibs searchFuel src e) := by
  rcases hs with hs | hs
  · have he' := he hs
    have hd : dist src e ≤ 251 := by unfold dist; omega
    have p := search_post restart sibs (dist src e) searchFuel src e hs he' rfl (by unfold searchFuel; omega)
    have v := p.valid hs he'
    exact ⟨p.done, v.1, fun _ => by rw [p.endSame]; exact he', fun _ => p.changed⟩
  · subst hs
    cases restart with
    | false =>
      have : searchFuel = 599 + 1 := rfl
      rw [this, search_null_norestart]
      exact ⟨rfl, Or.inl rfl, fun h => by simp at h, fun h => by simp at h⟩
    | true =>
      have : searchFuel = 599 + 1 := rfl
      rw [this, search_null_restart]
      by_cases hm : sibs.contains 14 = true
      · rw [if_pos hm]
        have p := search_post true sibs (dist 14 13) 599 14 13 (by omega) (by omega) rfl (by unfold dist; omega)
        have v := p.valid (by omega) (by omega)
        exact ⟨p.done, v.1, fun _ => by rw [p.endSame]; omega, fun _ => p.changed⟩
      · rw [if_neg hm]
        have hm' : sibs.contains 14 = false := by simpa using hm
        exact ⟨rfl, Or.inr ⟨by simp, hm'⟩, fun _ => by simp, fun _ => rfl⟩

end N2k.Claim
