"""C02 - received frames are reassembled into exactly the messages that were sent (single frame / fast packet)."""
SPEC = {
    'engine': 'rx', 'harness': 'rx.cpp',
    'repo_srcs': ['N2kMsg.cpp', 'N2kStream.cpp', 'N2kMessages.cpp', 'N2kTimer.cpp', 'N2kGroupFunction.cpp', 'N2kGroupFunctionDefaultHandlers.cpp', 'NMEA2000.cpp'],
    'variants': ['', 't32'],
    'lean_modules': ['N2k.Props.Consts.C02', 'N2k.Props.C02'], 'props_files': ['N2k/Props/Consts/C02.lean', 'N2k/Props/C02.lean'],
    'translators': ['constants', 'pgn_tables'],
    'case_start': ['reset'],
    'trusted_base': [
        "model N2k/Model/Rx.lean transcribes SetN2kCANBufMsg, FindFreeCANMsgIndex (non-TP call, incl. the two fix: commits: "
        "slot of the same PGN+source first, then a free slot, then the oldest slot if older than 100 ms modulo 2^32), "
        "CopyBufToCANMsg, CheckKnownMessage (with the four application lists), the RTS/BAM branch of TestHandleTPMessage, IsFastPacketFirstFrame, tN2kCANMsg::FreeMessage and the "
        "deliver-then-free of ParseMessages by hand; CanIdToN2k is N2k.Send.canIdToN2k (C01: id_roundtrip); tied to the "
        "compiled code by the differential run (delivered messages and a dump of all slots incl. MsgTime)",
        "PGN classification tables are REGENERATED from src/NMEA2000.cpp on every run (tools/translators/pgn_tables.py)",
        "Slot.hist is ghost state (written, never read by the model); the engine executes the model with it",
        "the oracle's reference reassembler (harness/rx.cpp refStep) is written from the property statement, keyed by "
        "(PGN, source), classification from the frozen lists /verif/spec/*.txt; it shares no code with the model",
        "unsigned char / uint8_t fields (LastFrame, CopiedLen <= 223, buf[]) modelled on Nat: LastFrame+1 is computed in int",
    ],
    'assumptions': [
        "CAN driver contract: 8 byte buffer, DLC <= 8 (WFrame); bytes beyond the DLC are whatever the buffer held (harness: 0xAA)",
        "ISO-TP: only TP.CM RTS/BAM frames are modelled (rxTPOpen: they free/occupy slots as TP sessions with the tp flag; a TP slot is "
        "never a fast-packet continuation target) and generated (stale sessions, no data packets); TP.DT and the other TP.CM control "
        "bytes are C10's: the model leaves the state unchanged for them and the generators never emit them; the completeness theorems "
        "assume no TP session is opened (isTPOpen), the safety theorems do not",
        "application PGN lists (Set/ExtendSingleFrameMessages, Set/ExtendFastPacketMessages) are part of the model (Cfg.sf0/sf1/fp0/fp1, "
        "classify transcribes the test order of CheckKnownMessage) and of the harness (ops sflist/fplist); the generators do not declare "
        "one PGN in lists of both kinds (the documented API does not say which wins)",
        "node in N2km_ListenOnly, forwarding disabled: a delivered system message causes no further action",
        "oracle: the reference reassembler is the pure statement and decides what MAY be delivered; what MUST be delivered is decided per "
        "message independently of the receiver's slot policy: placed (others + 1 fit into the slots, or fewer than N others are younger "
        "than 100 ms, +-1 ms margin, no age near 2^31 ms) and not at risk (no other message needed a place, when not everything fitted, "
        "while this one was >= 99 ms old); the Lean completeness theorem does not cover recycling (Spec.Fits excludes it), the recycling "
        "path is tied to the model by the correspondence run only",
        "exact delivery (C02_refines_spec) is claimed when the unfinished messages incl. the new one belong to at most N "
        "(PGN, source) pairs at every first/single frame (Spec.Fits); beyond that only C02_no_corruption (as the property asks)",
    ],
}
MANIFEST = {
    'text': "Theorems over the executable model, for EVERY frame history (any senders, interleaving, loss, duplication, reordering, "
            "arrival times incl. the 2^32 wrap, any slot count): every delivered message is a single frame with len = DLC or a chain "
            "of received frames with one PGN, source and sequence id, counters 0..k, first frame announcing L <= 223, payload = "
            "concatenation truncated to L, prio/dst of the first frame - and the chain is a contiguous tail of the frames of that "
            "PGN+source (nothing of another message in between); L > 223 is never delivered; the slot is free right after delivery; "
            "the 100 ms recycling never indexes outside the slot array. Completeness: if the unfinished messages never exceed the "
            "slot count (a condition on the frame sequence only) the delivered list EQUALS that of an abstract per-(PGN,source) "
            "reassembler written from the property statement (first frame supersedes, out-of-sequence discards the whole message, "
            "exactly once) - by a refinement proof with a pigeonhole argument for slot availability. Correspondence: real "
            "ParseMessages behind the mock driver vs the model (deliveries + slot dumps, both timer builds) on K senders x PGN "
            "classes x lengths 0..223 (+224..255 announced) x seeded interleavings with drop/cut/duplicate/reorder, slot-exhaustion, "
            "garbage, clock jumps around 100 ms and the 2^32 wrap, exhaustive interleavings of 2-3 short messages with one drop; "
            "independent reference reassembler as oracle (no extra/corrupt delivery ever; none missing up to the slot count).",
    'design_ref': 'DESIGN.md section 4, C02',
    'note': "Two defects of the pinned tree (C02:free-before-match, C02:stale-addressed-slot) are fixed in the worktree by one commit "
            "each and the model transcribes the fixed code; on the unfixed tree the check reports exactly these two keys. Trusted: Lean "
            "kernel; hand model validated by differential runs; regex table translator; ISO-TP interplay (TP slots sharing the slot "
            "array) is not modelled here (C10).",
}
