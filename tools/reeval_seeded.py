#!/usr/bin/env python3
"""Re-run the owning property's check against every seeded change (scratch copies) and record in meta.json whether it is caught now,
and whether by a concrete failing input (oracle) or only by a broken proof/correspondence."""
import os, sys, json, glob, re, subprocess, shutil
VERIF = os.path.dirname(os.path.dirname(os.path.abspath(__file__)))
only = [a for a in sys.argv[1:] if not a.startswith('--')]
no_meta = '--no-meta' in sys.argv   # robustness runs at other seeds: print only
for d in sorted(glob.glob(os.path.join(VERIF, 'seeded', 'C*_*'))):
    name = os.path.basename(d); pid = name.split('_')[0]
    if only and pid not in only and name not in only:
        continue
    r = subprocess.run([sys.executable, os.path.join(VERIF, 'tools', 'mutant_eval.py'), os.path.join(d, 'patch.diff'), pid],
                       stdout=subprocess.PIPE, stderr=subprocess.STDOUT, text=True)
    viol = [l for l in r.stdout.split('\n') if 'VIOLATION' in l]
    concrete = [l for l in viol if 'no-failing-input-found' not in l]
    m = json.load(open(os.path.join(d, 'meta.json')))
    prev = set(m.get('caught_by_now', m.get('caught_by', [])))
    now = sorted((prev - {pid}) | ({pid} if viol else set()))
    m['caught_by_now'] = now
    m['caught_with_concrete_input'] = bool(concrete)
    if not no_meta:
        json.dump(m, open(os.path.join(d, 'meta.json'), 'w'), indent=1)
    rp = re.search(r'replay=(\S+)', concrete[0] if concrete else (viol[0] if viol else ''))
    if rp and not no_meta and os.path.exists(os.path.join(VERIF, rp.group(1))):
        shutil.copy(os.path.join(VERIF, rp.group(1)), os.path.join(d, 'example_replay.json'))
    print('%s: %s%s' % (name, 'CAUGHT' if viol else 'MISSED', '' if concrete or not viol else ' (no concrete input)'), flush=True)
    shutil.rmtree(os.path.join(VERIF, 'replays', pid), ignore_errors=True)
