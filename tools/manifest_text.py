"""Human-written texts for MANIFEST.json (levels, notes)."""
HOOK_COMMITS = []
NOTES = ("Technique family: machine-checked proof in Lean 4. Every claimed property has theorems over an executable "
         "model (lean/N2k/Props/Cxx.lean), re-checked and axiom-audited on every run, and a correspondence run that "
         "executes the model and the real /repo/src code on the same generated operation lines. See DESIGN.md.")
NOT_CLAIMED = {}
