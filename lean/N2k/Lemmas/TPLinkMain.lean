import N2k.Lemmas.TPLinkPoll
/-! C10: two library nodes joined by a loss-free in-order channel; the rounds of an RTS/CTS transfer. -/
namespace N2k.TP
open N2k.Send N2k.Time N2k.Spec

/-- the frames `x` handed to its driver arrive, in order and complete, in the receive queue of `y` -/
def wire (x y : Node) : Node × Node :=
  ({ x with s := { x.s with drv := { x.s.drv with sent := [] } } }, { y with rxq := y.rxq ++ x.s.drv.sent })

/-- one exchange: what A sent reaches B, B polls; what B sent reaches A, A polls -/
def round (ab : Node × Node) : Node × Node :=
  let w1 := wire ab.1 ab.2
  let w2 := wire (poll w1.2) w1.1
  (poll w2.2, w2.1)

def rounds : Nat → Node × Node → Node × Node
  | 0, ab => ab
  | k+1, ab => rounds k (round ab)

theorem wire_upd (x y : Node) (tp : Nat → TpDev) (sl : List Slot) (out : List Delivery) (fs rxq : List Frame)
    (tp' : Nat → TpDev) (sl' : List Slot) (out' : List Delivery) (fs' rxq' : List Frame) :
    wire (x.upd tp sl out fs rxq) (y.upd tp' sl' out' fs' rxq') = (x.upd tp sl out [] rxq, y.upd tp' sl' out' fs' (rxq' ++ fs)) := rfl

section
variable (a b : Node) (da db : Dev) (m : Msg) (j : Nat) (S' : List Slot) (a0 : Slot)

/-- the sender after the CTS for packets from `k` on was answered -/
def snd (k : Nat) : Node :=
  a.upd (txTp a m (k + min (tpCtsPackets (tpPacketCount m.len)) (tpPacketCount m.len - k)) 100) a.slots a.out
    ((List.range (min (tpCtsPackets (tpPacketCount m.len)) (tpPacketCount m.len - k))).map fun x => dtFrame da.source m (k + x)) []

/-- hypotheses of the exchange (`m` is the pending message, i.e. with the sender's address as source) -/
structure LinkHyp : Prop where
  devA : a.s.devs = [da]
  devB : b.s.devs = [db]
  qa : Quiet a.s 0
  qb : Quiet b.s 0
  h64 : a.s.now + 100 < M64
  bIdle : (b.tp 0).hasPending = false
  mdst : m.dst = db.source
  len9 : 9 ≤ m.len
  len223 : m.len ≤ 223
  hdata : m.len ≤ m.data.length
  pgn24 : m.pgn < 2^24
  pgn0 : m.pgn ≠ 0
  known : (checkKnown m.pgn).1 = true ∨ ¬ b.onlyKnown = true
  hS : S' = b.slots.map (freeSess da.source db.source)
  hj : findIdx (slotHit m.pgn da.source db.source true) S' = some j
  ha0 : S'[j]? = some a0

variable {a b da db m j S' a0}

theorem LinkHyp.srcA (h : LinkHyp a b da db m j S' a0) : da.source ≤ 251 := by
  obtain ⟨d', hd', hs, _⟩ := h.qa.dev
  rw [h.devA] at hd'; simp at hd'; subst hd'; exact hs

theorem LinkHyp.dstB (h : LinkHyp a b da db m j S' a0) : db.source ≤ 251 := by
  obtain ⟨d', hd', hs, _⟩ := h.qb.dev
  rw [h.devB] at hd'; simp at hd'; subst hd'; exact hs

theorem LinkHyp.none (h : LinkHyp a b da db m j S' a0) : findIdx (sessOf da.source db.source) S' = none := by
  rw [h.hS]
  apply findIdx_none_of_all
  intro x hx
  obtain ⟨c, _, hc⟩ := List.mem_map.1 hx
  rw [← hc]; exact sessOf_freeSess _ _ c

theorem LinkHyp.jlt (h : LinkHyp a b da db m j S' a0) : j < S'.length := findIdx_lt _ _ _ h.hj

/-- first round: RTS → CTS(1) → first window -/
theorem round_first (h : LinkHyp a b da db m j S' a0) :
    round (a.upd (txTp a m 0 50) a.slots a.out [cmFrame da.source m.dst (announceBytes 16 m)] [], b.upd b.tp b.slots [] [] []) =
      (snd a da m 0, rcv b db m da.source j S' a0 [] 0 [] []) := by
  have hsa := h.srcA
  have hsb := h.dstB
  unfold round
  simp only [wire_upd, List.nil_append]
  rw [poll_rts b db m da.source j S' a0 h.devB h.qb (by omega) h.mdst h.len223 h.pgn24 h.bIdle h.known h.hS h.hj h.ha0]
  unfold rcv
  simp only [wire_upd, List.nil_append]
  rw [poll_cts a da m db.source 0 50 (tpPacketCount m.len) a.slots a.out h.devA h.qa h.mdst (by omega) h.len223 h.pgn24
        (by omega) h.h64 (by omega)]
  simp only [snd, Nat.zero_add, Nat.sub_zero]

/-- a middle round: a full window that is not the last one → next CTS → next window -/
theorem round_mid (h : LinkHyp a b da db m j S' a0) (k : Nat) (hkc : k % tpCtsPackets (tpPacketCount m.len) = 0)
    (hmore : k + tpCtsPackets (tpPacketCount m.len) < tpPacketCount m.len) :
    round (snd a da m k, rcv b db m da.source j S' a0 [] k [] []) =
      (snd a da m (k + tpCtsPackets (tpPacketCount m.len)), rcv b db m da.source j S' a0 [] (k + tpCtsPackets (tpPacketCount m.len)) [] []) := by
  have hsa := h.srcA
  have hsb := h.dstB
  have hmin : min (tpCtsPackets (tpPacketCount m.len)) (tpPacketCount m.len - k) = tpCtsPackets (tpPacketCount m.len) := by omega
  have htight := tpPacketCount_tight m.len (by have := h.len9; omega)
  have hpc := tpPacketCount_le m.len h.len223
  unfold round snd rcv
  simp only [wire_upd, List.nil_append, hmin]
  have hw := poll_window b db m da.source j S' a0 k (tpCtsPackets (tpPacketCount m.len)) rfl h.devB h.qb (by omega) h.mdst h.none h.jlt
    h.len223 h.bIdle hkc (by omega)
  unfold rcv at hw
  rw [hw]
  simp only [wire_upd, List.nil_append]
  rw [poll_cts a da m db.source (k + tpCtsPackets (tpPacketCount m.len)) 100 (tpPacketCount m.len) a.slots a.out h.devA h.qa h.mdst
        (by omega) h.len223 h.pgn24 (by omega) h.h64 (by omega)]

/-- the last round: last window → EndOfMsgACK and delivery → the sender ends the transfer -/
theorem round_last (h : LinkHyp a b da db m j S' a0) (k : Nat) (hkc : k % tpCtsPackets (tpPacketCount m.len) = 0)
    (hk : k < tpPacketCount m.len) (hlast : tpPacketCount m.len ≤ k + tpCtsPackets (tpPacketCount m.len)) :
    ∃ S'', round (snd a da m k, rcv b db m da.source j S' a0 [] k [] []) =
      (a.upd (doneTp a m (tpPacketCount m.len)) a.slots a.out [] [],
       b.upd b.tp S'' [{ pgn := m.pgn, src := da.source, dst := db.source, prio := 7, len := m.len, tp := true,
                          data := m.data.take m.len }] [] []) := by
  have hsa := h.srcA
  have hsb := h.dstB
  have hmin : min (tpCtsPackets (tpPacketCount m.len)) (tpPacketCount m.len - k) = tpPacketCount m.len - k := by omega
  have htight := tpPacketCount_tight m.len (by have := h.len9; omega)
  have hcov := tpPacketCount_cover m.len
  have hpc := tpPacketCount_le m.len h.len223
  unfold round snd rcv
  simp only [wire_upd, List.nil_append, hmin]
  obtain ⟨S'', hw⟩ := poll_last b db m da.source j S' a0 k (tpCtsPackets (tpPacketCount m.len)) (tpPacketCount m.len - k) rfl h.devB h.qb
    (by omega) h.mdst h.none h.jlt h.len223 h.hdata h.bIdle hkc (by omega) (by omega) (by omega)
  unfold rcv at hw
  rw [hw]
  refine ⟨S'', ?_⟩
  simp only [wire_upd, List.nil_append]
  have e : k + (tpPacketCount m.len - k) = tpPacketCount m.len := by omega
  rw [e]
  rw [poll_endack a da m db.source (tpPacketCount m.len) 100 m.len (tpPacketCount m.len) a.slots a.out h.devA h.qa h.mdst (by omega)
        h.pgn24 (by omega) h.h64]

/-- from any window start the transfer completes within the remaining number of windows -/
theorem rounds_complete (h : LinkHyp a b da db m j S' a0) : ∀ (fuel k : Nat), k % tpCtsPackets (tpPacketCount m.len) = 0 →
    k < tpPacketCount m.len → tpPacketCount m.len - k ≤ fuel * tpCtsPackets (tpPacketCount m.len) →
    ∃ r S'', r ≤ fuel ∧ rounds r (snd a da m k, rcv b db m da.source j S' a0 [] k [] []) =
      (a.upd (doneTp a m (tpPacketCount m.len)) a.slots a.out [] [],
       b.upd b.tp S'' [{ pgn := m.pgn, src := da.source, dst := db.source, prio := 7, len := m.len, tp := true,
                          data := m.data.take m.len }] [] [])
  | 0, k, _, hk, hf => by omega
  | fuel+1, k, hkc, hk, hf => by
    by_cases hlast : tpPacketCount m.len ≤ k + tpCtsPackets (tpPacketCount m.len)
    · obtain ⟨S'', hr⟩ := round_last h k hkc hk hlast
      exact ⟨1, S'', by omega, by simp only [rounds]; exact hr⟩
    · have hmore : k + tpCtsPackets (tpPacketCount m.len) < tpPacketCount m.len := by omega
      have hcpos := tpCtsPackets_pos (tpPacketCount m.len)
      obtain ⟨r, S'', hr, hR⟩ := rounds_complete h fuel (k + tpCtsPackets (tpPacketCount m.len))
        (add_mod_self_of_dvd k _ hkc) hmore (by
          have : (fuel + 1) * tpCtsPackets (tpPacketCount m.len) = fuel * tpCtsPackets (tpPacketCount m.len) + tpCtsPackets (tpPacketCount m.len) := by
            rw [Nat.add_mul, Nat.one_mul]
          omega)
      refine ⟨r + 1, S'', by omega, ?_⟩
      simp only [rounds]
      rw [round_mid h k hkc hmore]
      exact hR

end

end N2k.TP
