import N2k.Model.Text
import Driver.Util
-- engine: text
/-! Engine `text` (C16): runs the model of the tN2kMsg text fields (`N2k.Text`).

ops (all numbers decimal, strings/payloads hex, `-` = empty):
* `addstr fill max fc junk hexstr` · `addais fill max junk hexstr` · `addvar fill max uni chars junk hexstr`
  → `len hex223` (the whole Data array) or `fault <kind>`
* `getstr1 length idx dj junk hexdata` (destination of exactly length+1 bytes) → `ret idx hexdst`
* `getstr bufsz length nul idx dj junk hexdata` → `ret idx hexdst`
* `getvar bufsz nul idx dj junk hexdata` → `ret size idx hexdst`
* `rtstr fill max bufsz dj junk hexstr` (AddStr fill 0xff; GetStr nul 0xff) · `rtais fill max bufsz dj junk hexstr`
  (GetStr nul '@') → `ret idx hexdst` · `rtvar fill max uni chars bufsz dj junk hexstr` → `ret size idx hexdst`
* `addvar2 fill junk hexstr` (AddVarStr(str)) → as `addvar`; `rtvar2 fill bufsz dj junk hexstr` → as `rtvar`
* `addbuf fill junk hexbuf` → `len hex223`; `getbuf length extra idx dj junk hexdata` (destination of length+extra bytes)
  → `ret idx hexdst`; `getbuf0 length idx junk hexdata` (null buffer) → `ret idx`;
  `rtbuf fill dj junk hexA hexB` (AddBuf A, AddBuf B, GetBuf |A|, GetBuf |B|) → `len r1 r2 idx hexX hexY`
`junk`: Data[i] = (junk + 31*i) % 256 before the call (hexdata overwrites [0,DataLen)); `dj`: initial
value of every destination byte. -/
namespace Driver.Text
open N2k.Text Driver

def junkData (j : Nat) : D := fun i => (j + 31 * i) % 256

def faultStr : Fault → String
  | .readPastNul => "fault readPastNul"
  | .payloadWrite _ => "fault payloadWrite"
  | .payloadRead _ _ => "fault payloadRead"
  | .destWrite _ _ => "fault destWrite"
  | .fuel => "fault fuel"

def dump (d : D) (n : Nat) : String := hexOfBytes ((List.range n).map d)

def msgOf (junk : Nat) (bytes : List Nat) : Msg :=
  ⟨fun i => if i < bytes.length then bytes.getD i 0 else junkData junk i, bytes.length⟩

def showAdd : M Msg → String
  | .ok m => s!"{m.len} {dump m.data MaxDataLen}"
  | .error f => faultStr f

def showGet (n : Nat) : M (Bool × Nat × D) → String
  | .ok (r, idx, dst) => s!"{boolStr r} {idx} {dump dst n}"
  | .error f => faultStr f

def showGetVar (n : Nat) : M (Bool × Nat × Nat × D) → String
  | .ok (r, sz, idx, dst) => s!"{boolStr r} {sz} {idx} {dump dst n}"
  | .error f => faultStr f

def nats? (l : List String) : Option (List Nat) := l.mapM nat?

def run (w : List String) : Option String :=
  match w with
  | ["addstr", fill, max, fc, junk, hs] => do
    let [fill, max, fc, junk] ← nats? [fill, max, fc, junk] | none
    let s ← hexBytes? hs
    some (showAdd (addStr ⟨junkData junk, fill⟩ (.at s) max fc))
  | ["addais", fill, max, junk, hs] => do
    let [fill, max, junk] ← nats? [fill, max, junk] | none
    let s ← hexBytes? hs
    some (showAdd (addAISStr ⟨junkData junk, fill⟩ (.at s) max))
  | ["addvar", fill, max, uni, chars, junk, hs] => do
    let [fill, max, uni, chars, junk] ← nats? [fill, max, uni, chars, junk] | none
    let s ← hexBytes? hs
    some (showAdd (addVarStr ⟨junkData junk, fill⟩ (.at s) max (uni != 0) (chars != 0)))
  | ["getstr1", length, idx, dj, junk, hd] => do
    let [length, idx, dj, junk] ← nats? [length, idx, dj, junk] | none
    let bytes ← hexBytes? hd
    some (showGet (length + 1) (getStr1 (msgOf junk bytes) (length + 1) (fun _ => dj) length idx))
  | ["getstr", n, length, nul, idx, dj, junk, hd] => do
    let [n, length, nul, idx, dj, junk] ← nats? [n, length, nul, idx, dj, junk] | none
    let bytes ← hexBytes? hd
    some (showGet n (getStr2 (msgOf junk bytes) n (fun _ => dj) length nul idx))
  | ["getvar", n, nul, idx, dj, junk, hd] => do
    let [n, nul, idx, dj, junk] ← nats? [n, nul, idx, dj, junk] | none
    let bytes ← hexBytes? hd
    some (showGetVar n (getVarStr (msgOf junk bytes) n (fun _ => dj) nul idx))
  | ["rtstr", fill, max, n, dj, junk, hs] => do
    let [fill, max, n, dj, junk] ← nats? [fill, max, n, dj, junk] | none
    let s ← hexBytes? hs
    some (showGet n (do
      let m ← addStr ⟨junkData junk, fill⟩ (.at s) max 0xff
      getStr2 m n (fun _ => dj) max 0xff fill))
  | ["rtais", fill, max, n, dj, junk, hs] => do
    let [fill, max, n, dj, junk] ← nats? [fill, max, n, dj, junk] | none
    let s ← hexBytes? hs
    some (showGet n (do
      let m ← addAISStr ⟨junkData junk, fill⟩ (.at s) max
      getStr2 m n (fun _ => dj) (m.len - fill) 0x40 fill))
  | ["rtvar", fill, max, uni, chars, n, dj, junk, hs] => do
    let [fill, max, uni, chars, n, dj, junk] ← nats? [fill, max, uni, chars, n, dj, junk] | none
    let s ← hexBytes? hs
    some (showGetVar n (do
      let m ← addVarStr ⟨junkData junk, fill⟩ (.at s) max (uni != 0) (chars != 0)
      getVarStr m n (fun _ => dj) 0xff fill))
  | ["addvar2", fill, junk, hs] => do
    let [fill, junk] ← nats? [fill, junk] | none
    let s ← hexBytes? hs
    some (showAdd (addVarStr2 ⟨junkData junk, fill⟩ (.at s)))
  | ["rtvar2", fill, n, dj, junk, hs] => do
    let [fill, n, dj, junk] ← nats? [fill, n, dj, junk] | none
    let s ← hexBytes? hs
    some (showGetVar n (do
      let m ← addVarStr2 ⟨junkData junk, fill⟩ (.at s)
      getVarStr3 m n (fun _ => dj) fill))
  | ["addbuf", fill, junk, hb] => do
    let [fill, junk] ← nats? [fill, junk] | none
    let b ← hexBytes? hb
    some (showAdd (addBuf ⟨junkData junk, fill⟩ b))
  | ["getbuf", length, extra, idx, dj, junk, hd] => do
    let [length, extra, idx, dj, junk] ← nats? [length, extra, idx, dj, junk] | none
    let bytes ← hexBytes? hd
    some (showGet (length + extra) (getBuf (msgOf junk bytes) (length + extra) (fun _ => dj) length idx))
  | ["getbuf0", length, idx, junk, hd] => do
    let [length, idx, junk] ← nats? [length, idx, junk] | none
    let bytes ← hexBytes? hd
    let (r, i) := getBufNull (msgOf junk bytes) length idx
    some s!"{boolStr r} {i}"
  | ["rtbuf", fill, dj, junk, ha, hb] => do
    let [fill, dj, junk] ← nats? [fill, dj, junk] | none
    let a ← hexBytes? ha
    let b ← hexBytes? hb
    some (match (do
        let m ← addBuf ⟨junkData junk, fill⟩ a
        let m ← addBuf m b
        let (r1, i1, x) ← getBuf m a.length (fun _ => dj) a.length fill
        let (r2, i2, y) ← getBuf m b.length (fun _ => dj) b.length i1
        pure (m.len, r1, r2, i2, x, y) : M (Nat × Bool × Bool × Nat × D × D)) with
      | .ok (len, r1, r2, i2, x, y) =>
        s!"{len} {boolStr r1} {boolStr r2} {i2} {dump x a.length} {dump y b.length}"
      | .error f => faultStr f)
  | _ => none

def step (_ : Unit) (w : List String) : Unit × String :=
  ((), (run w).getD "bad-op")

def main : IO Unit := loop step ()

end Driver.Text
