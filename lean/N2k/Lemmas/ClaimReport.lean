import N2k.Lemmas.ClaimInst
import N2k.Lemmas.ClaimRefine
/-! Every change of an own address sets the `AddressChanged` latch within the same step (`Rep`). -/
namespace N2k.Bus
open N2k.Send N2k.Time N2k.Claim

/-- `x'` reports every own-address change with respect to `x`; the latch is never cleared -/
def Rep (x x' : Inst) : Prop :=
  x'.s.devs.length = x.s.devs.length ∧ (x.addressChanged = true → x'.addressChanged = true) ∧
  ∀ (i : Nat) (d d' : Dev), x.s.devs[i]? = some d → x'.s.devs[i]? = some d' → d'.source ≠ d.source →
    x'.addressChanged = true

theorem Rep.refl (x : Inst) : Rep x x :=
  ⟨rfl, fun h => h, fun i d d' h h' hne => by rw [h] at h'; cases h'; exact absurd rfl hne⟩

theorem Rep.trans {x y z : Inst} (h1 : Rep x y) (h2 : Rep y z) : Rep x z := by
  refine ⟨by rw [h2.1, h1.1], fun h => h2.2.1 (h1.2.1 h), fun i d d' hd hd' hne => ?_⟩
  have hlt : i < y.s.devs.length := by rw [h1.1]; exact (List.getElem?_eq_some_iff.mp hd).1
  by_cases he : (y.s.devs[i]).source = d.source
  · exact h2.2.2 i _ d' (List.getElem?_eq_getElem hlt) hd' (by rw [he]; exact hne)
  · exact h2.2.1 (h1.2.2 i d _ hd (List.getElem?_eq_getElem hlt) he)

theorem rep_of_true (x x' : Inst) (hl : x'.s.devs.length = x.s.devs.length) (h : x'.addressChanged = true) : Rep x x' :=
  ⟨hl, fun _ => h, fun _ _ _ _ _ _ => h⟩

/-- only device `i` was touched and its address is the same -/
theorem rep_of_only {i : Nat} {x x1 : Inst} (h : Only i x x1)
    (hsrc : ∀ d d1, x.s.devs[i]? = some d → x1.s.devs[i]? = some d1 → d1.source = d.source)
    (hac : x.addressChanged = true → x1.addressChanged = true) : Rep x x1 := by
  refine ⟨h.len, hac, fun k d d' hd hd' hne => ?_⟩
  by_cases hk : k = i
  · subst hk; exact absurd (hsrc d d' hd hd') hne
  · rw [h.other k hk, hd] at hd'; cases hd'; exact absurd rfl hne

/-- the device list of `x'` is that of `x` with device `i` replaced by one with the same address -/
theorem rep_devs_set (x x' : Inst) (i : Nat) (d d' : Dev) (hd : x.s.devs[i]? = some d)
    (hdevs : x'.s.devs = x.s.devs.set i d') (hs : d'.source = d.source)
    (hac : x.addressChanged = true → x'.addressChanged = true) : Rep x x' := by
  have hlen := (List.getElem?_eq_some_iff.mp hd).1
  refine ⟨by rw [hdevs]; simp, hac, fun k d0 d1 h h' hne => ?_⟩
  rw [hdevs] at h'
  by_cases hk : k = i
  · subst hk
    simp only [List.getElem?_set_self hlen, Option.some.injEq] at h'
    rw [hd] at h; cases h; rw [← h', hs] at hne; exact absurd rfl hne
  · simp only [List.getElem?_set_ne (Ne.symm hk)] at h'
    rw [h] at h'; cases h'; exact absurd rfl hne

theorem rep_set_same (x : Inst) (i : Nat) (d d' : Dev) (ac dc : Bool) (hd : x.s.devs[i]? = some d)
    (hs : d'.source = d.source) (hac : x.addressChanged = true → ac = true) :
    Rep x { s := { x.s with devs := x.s.devs.set i d' }, addressChanged := ac, devInfoChanged := dc } := by
  refine rep_of_only (only_set x i d' ac dc) (fun d0 d1 h0 h1 => ?_) hac
  have hlen := (List.getElem?_eq_some_iff.mp hd).1
  simp only [List.getElem?_set_self hlen, Option.some.injEq] at h1
  rw [hd] at h0; cases h0; rw [← h1]; exact hs

theorem rep_getNext (x : Inst) (ok : LibOK x) (i : Nat) (r : Bool) : Rep x (getNextAddress x i r) := by
  unfold getNextAddress
  cases hd : x.s.devs[i]? with
  | none => exact Rep.refl x
  | some d =>
    have dok := ok.dev hd
    have so := search_ok r (siblings x.s.devs i) d.source d.endSource dok.2.1 dok.2.2
    simp only [so.done, ↓reduceIte]
    have hlen := (List.getElem?_eq_some_iff.mp hd).1
    refine ⟨by simp, fun h => by simp [h], fun k d0 d' h0 h' hne => ?_⟩
    by_cases hk : k = i
    · subst hk
      simp only [List.getElem?_set_self hlen, Option.some.injEq] at h'
      rw [hd] at h0; cases h0
      have : (search r (siblings x.s.devs k) searchFuel d.source d.endSource).source ≠ d.source := by
        rw [← h'] at hne; exact hne
      simp [so.latched this]
    · simp only [List.getElem?_set_ne (Ne.symm hk)] at h'
      rw [h0] at h'; cases h'; exact absurd rfl hne

/-- `StartAddressClaim(i)` changes no address -/
theorem rep_start (x1 : Inst) (ok1 : LibOK x1) (i : Nat) (ac dc : Bool) (hac : x1.addressChanged = true → ac = true) :
    Rep x1 { s := startAddressClaim x1.s i, addressChanged := ac, devInfoChanged := dc } := by
  by_cases hc : x1.s.canClaim = true
  · cases hd : x1.s.devs[i]? with
    | none => rw [startAddressClaim_none _ _ hd]; exact ⟨rfl, hac, fun k d d' h h' hne => by rw [h] at h'; cases h'; exact absurd rfl hne⟩
    | some d1 =>
      have ho : x1.s.openState = 3 := by simp [St.canClaim] at hc; exact hc.2
      rw [startAddressClaim_spec x1.s ok1.send ho i d1 hd (ok1.dev hd).src_lt]
      exact rep_devs_set x1 _ i d1 _ hd rfl rfl hac
  · have hc' : x1.s.canClaim = false := by simpa using hc
    rw [startAddressClaim_noclaim _ _ hc']
    exact ⟨rfl, hac, fun k d d' h h' hne => by rw [h] at h'; cases h'; exact absurd rfl hne⟩

theorem rep_send (x : Inst) (ok : LibOK x) (i : Nat) (d : Dev) (hd : x.s.devs[i]? = some d) :
    Rep x { x with s := sendClaim x.s i } := by
  rw [sendClaim_spec x.s ok.send i d hd (ok.dev hd).src_lt]
  exact rep_devs_set x _ i d _ hd rfl (isACS_source _ _ d) (fun h => h)

theorem rep_lose (x : Inst) (ok : LibOK x) (i : Nat) (d : Dev) (hd : x.s.devs[i]? = some d) (nm : Nat) :
    Rep x (loseAddress x i d nm) := by
  have dok := ok.dev hd
  have iok := isACS_devOK x.s.flavor x.s.now d dok
  have isrc := isACS_source x.s.flavor x.s.now d
  unfold loseAddress
  by_cases hn : d.name = nm
  · rw [if_pos hn]
    by_cases hc : (isAddressClaimStarted x.s.flavor x.s.now d).2 = true
    · simp only [hc, ↓reduceIte]
      exact rep_set_same x i d _ _ _ hd isrc (fun h => h)
    · simp only [hc, Bool.false_eq_true, ↓reduceIte]
      have ok' := libOK_set x ok i d (isAddressClaimStarted x.s.flavor x.s.now d).1 x.addressChanged x.devInfoChanged hd iok (Or.inl isrc)
      exact (rep_set_same x i d _ x.addressChanged x.devInfoChanged hd isrc (fun h => h)).trans (rep_getNext _ ok' i false)
  · rw [if_neg hn]; exact rep_getNext x ok i false

theorem rep_handleClaim (x : Inst) (ok : LibOK x) (src nm : Nat) : Rep x (handleClaim x src nm) := by
  unfold handleClaim
  by_cases h254 : src = Gen.nullCanBusAddress
  · rw [if_pos h254]; exact Rep.refl x
  · rw [if_neg h254]
    cases hf : findSourceDev x.s.devs src with
    | none => exact Rep.refl x
    | some i =>
      obtain ⟨d, hd, _⟩ := findSourceDev_some hf
      simp only [hd]
      by_cases hlt : d.name < nm
      · rw [if_pos hlt]; exact rep_send x ok i d hd
      · rw [if_neg hlt]
        have l := loseAddress_ok x ok i d hd nm
        exact (rep_lose x ok i d hd nm).trans (rep_start _ l.1 i _ _ (fun h => h))

theorem rep_cmdOne (x : Inst) (ok : LibOK x) (nm a i : Nat) (ha : a ≤ 251) : Rep x (cmdOne x nm a i) := by
  unfold cmdOne
  have h255 : ¬ a = 255 := by omega
  rw [if_neg h255]
  cases hd : x.s.devs[i]? with
  | none => exact Rep.refl x
  | some d =>
    simp only
    by_cases hc : d.name = nm ∧ d.source ≠ a
    · rw [if_pos hc]
      by_cases hsib : (siblings x.s.devs i).contains a = true
      · rw [if_pos hsib]; exact Rep.refl x
      · rw [if_neg hsib]
        have hsib' : (siblings x.s.devs i).contains a = false := by simpa using hsib
        have dok := ok.dev hd
        have ok1 := libOK_set x ok i d { d with source := a, endSource := updEnd a } x.addressChanged x.devInfoChanged hd
          ⟨dok.1, Or.inl ha, fun _ => updEnd_le a ha⟩ (Or.inr (Or.inr hsib'))
        have r1 := rep_start _ ok1 i true x.devInfoChanged (fun _ => rfl)
        exact rep_of_true x _ (by rw [r1.1]; simp) rfl
    · rw [if_neg hc]; exact Rep.refl x

theorem rep_foldl (f : Inst → Nat → Inst)
    (hf : ∀ x i, LibOK x → x.s.openState = 3 → (LibOK (f x i) ∧ (f x i).s.openState = 3) ∧ Rep x (f x i)) :
    ∀ (l : List Nat) (x : Inst), LibOK x → x.s.openState = 3 → Rep x (l.foldl f x)
  | [], x, _, _ => Rep.refl x
  | i :: t, x, ok, ho => by
    simp only [List.foldl_cons]
    have h1 := hf x i ok ho
    exact h1.2.trans (rep_foldl f hf t (f x i) h1.1.1 h1.1.2)

theorem ann_open {P A : Nat → Prop} {x x' : Inst} (h : Ann P A x x') (ho : x.s.openState = 3) : x'.s.openState = 3 := by
  obtain ⟨_, _, _, h3, _⟩ := h; rw [h3]; exact ho

theorem rep_handleCommanded (x : Inst) (ok : LibOK x) (ho : x.s.openState = 3) (dst nm a : Nat) :
    Rep x (handleCommandedAddress x dst nm a) := by
  unfold handleCommandedAddress
  simp only
  by_cases h1 : dst ≠ 255 ∧ (findSourceDev x.s.devs dst).isNone = true
  · rw [if_pos h1]; exact Rep.refl x
  · rw [if_neg h1]
    by_cases h2 : a ≥ 252
    · rw [if_pos h2]; exact Rep.refl x
    · rw [if_neg h2]
      have ha : a ≤ 251 := by omega
      cases findSourceDev x.s.devs dst with
      | none =>
        exact rep_foldl (fun y i => cmdOne y nm a i)
          (fun y i oky hoy => ⟨⟨(cmdOne_post y oky hoy nm a i ha).1, ann_open (cmdOne_post y oky hoy nm a i ha).2 hoy⟩,
            rep_cmdOne y oky nm a i ha⟩) _ x ok ho
      | some i => exact rep_cmdOne x ok nm a i ha

theorem rep_startOne (x : Inst) (ok : LibOK x) (i : Nat) : Rep x (startOne x i) := by
  unfold startOne
  cases hd : x.s.devs[i]? with
  | none => exact rep_start x ok i _ _ (fun h => h)
  | some d =>
    simp only
    by_cases h254 : d.source = Gen.nullCanBusAddress
    · rw [if_pos h254]
      exact (rep_getNext x ok i true).trans (rep_start _ (getNextAddress_ok x ok i true).1 i _ _ (fun h => h))
    · rw [if_neg h254]; exact rep_start x ok i _ _ (fun h => h)

theorem rep_foldl_startOne : ∀ (l : List Nat) (x : Inst), LibOK x → Rep x (l.foldl startOne x)
  | [], x, _ => Rep.refl x
  | i :: t, x, ok => by
    simp only [List.foldl_cons]
    have ok1 : LibOK (startOne x i) := by
      by_cases ho : x.s.openState = 3
      · exact (startOne_post x ok ho i).1
      · exact (startOne_closed x ok ho i).1
    exact (rep_startOne x ok i).trans (rep_foldl_startOne t _ ok1)

theorem rep_heartbeat (x : Inst) : Rep x (heartbeatPass x) := by
  unfold heartbeatPass
  split
  · refine ⟨by simp, fun h => h, fun i d d' h h' hne => ?_⟩
    simp only [List.getElem?_map, h, Option.map_some, Option.some.injEq] at h'
    rw [← h', isACS_source] at hne; exact absurd rfl hne
  · exact Rep.refl x

theorem rep_rxOne (x : Inst) (ok : LibOK x) (ho : x.s.openState = 3) (r : Rx) : Rep x (rxOne x r) := by
  cases r with
  | frame f =>
    simp only [rxOne, rxFrame_eq]
    cases libDecode f with
    | none => exact Rep.refl x
    | some c => exact rep_handleClaim x ok c.2 c.1
  | cmd dst nm a => exact rep_handleCommanded x ok ho dst nm a

theorem rep_parse_open (x : Inst) (ok : LibOK x) (ho : x.s.openState = 3) (r : Option Rx) : Rep x (parse x r.toList) := by
  rw [parse_open x ho ok.send]
  cases r with
  | none => exact rep_heartbeat x
  | some r => exact (rep_rxOne x ok ho r).trans (rep_heartbeat _)

theorem rep_openStep (x : Inst) (ok : LibOK x) (hno : x.s.openState ≠ 3) : Rep x (Claim.openStep x) := by
  unfold Claim.openStep
  by_cases h0 : x.s.openState = 0
  · have hc : ¬ ((if x.s.openState = 0 then { x.s with openState := 1 } else x.s).openState = 2 ∧
        (if x.s.openState = 0 then { x.s with openState := 1 } else x.s).openSched.isTime
          (if x.s.openState = 0 then { x.s with openState := 1 } else x.s).flavor
          (if x.s.openState = 0 then { x.s with openState := 1 } else x.s).now = true) := by
      simp [h0]
    simp only [hc, ↓reduceIte]
    obtain ⟨os, sch, he, _⟩ := sendOpenStep_wait x.s hno (by simp [h0])
    rw [he]
    exact ⟨rfl, fun h => h, fun i d d' h h' hne => by rw [h] at h'; cases h'; exact absurd rfl hne⟩
  · simp only [h0, ↓reduceIte]
    by_cases hc : x.s.openState = 2 ∧ x.s.openSched.isTime x.s.flavor x.s.now = true
    · rw [if_pos hc]
      have oko : LibOK { x with s := { x.s with openState := 3 } } := libOK_of_fields x _ ok rfl rfl rfl rfl rfl rfl rfl
      have r := rep_foldl_startOne (List.range x.s.devs.length) _ oko
      exact ⟨r.1, r.2.1, r.2.2⟩
    · rw [if_neg hc]
      obtain ⟨os, sch, he, _⟩ := sendOpenStep_wait x.s hno hc
      rw [he]
      exact ⟨rfl, fun h => h, fun i d d' h h' hne => by rw [h] at h'; cases h'; exact absurd rfl hne⟩

/-- **`ParseMessages`** (any state, one or no received item) reports every own-address change -/
theorem rep_parse (x : Inst) (ok : LibOK x) (r : Option Rx) : Rep x (parse x r.toList) := by
  by_cases ho : x.s.openState = 3
  · exact rep_parse_open x ok ho r
  · have op := openStep_post x ok ho
    rw [parse_closed x ho op.1.send]
    by_cases hc : (Claim.openStep x).s.openState = 3
    · rw [if_neg (fun h => h hc), ← parse_open _ hc op.1.send]
      exact (rep_openStep x ok ho).trans (rep_parse_open _ op.1 hc r)
    · rw [if_pos hc]; exact rep_openStep x ok ho

theorem rep_restart (x : Inst) (ok : LibOK x) : Rep x (restart x) := by
  unfold restart Claim.startAddressClaimAll
  exact rep_foldl_startOne _ x ok

end N2k.Bus
