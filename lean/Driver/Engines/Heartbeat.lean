import N2k.Model.Heartbeat
import N2k.Model.GroupFunction
import Driver.Engines.Send
-- engine: hb
/-! Engine `hb` (C12, C13): runs `pollTopH` / `setHeartbeatIntervalAndOffset` / `sendHeartbeat` /
`sendHeartbeatOne` / `claimH` of `Model/Heartbeat.lean` on a node that has just been constructed; a received group-function
request for PGN 126993 is decided by `GF.req126993` of `Model/GroupFunction.lean`. -/
namespace Driver.Heartbeat
open N2k.Send N2k.Time N2k.Heartbeat Driver Driver.Send

def takeSentH (h : HSt) : HSt × List Frame :=
  let r := takeSent h.st
  ({ h with st := r.1 }, r.2)

def devStr (so : Nat) (b : HbDev) : String :=
  let nx := if b.sched.isDisabled then "dis" else toString (b.sched.next - so)
  s!"{b.sched.period}/{b.sched.offset}/{nx}/{b.seq}"

def isHbFrame (f : Frame) : Bool := (f.id >>> 8) % 131072 == 126993

/-- What the property leaves open in a heartbeat frame (priority, payload bytes 3..7) is not the model's business: the
harness reads it from the library's encoder (`hbfmt` op) and the engine prints the model's 126993 frames with it. -/
def fixHb (fmt : Nat × List Nat) (f : Frame) : Frame :=
  if isHbFrame f then
    { f with id := (f.id % 67108864) + (fmt.1 % 8) * 67108864, len := 3 + fmt.2.length, data := f.data.take 3 ++ fmt.2 }
  else f

/-- `run n`: n times (poll, advance 1 ms); output `k:frame` for every frame accepted at step k -/
def runDense (fmt : Nat × List Nat) : Nat → Nat → HSt → List String → HSt × List String
  | 0, _, h, acc => (h, acc)
  | n+1, k, h, acc =>
    let (h1, fr) := takeSentH (pollTopH h).1
    let acc := acc ++ fr.map (fun f => s!"{k}:{frameStr (fixHb fmt f)}")
    runDense fmt n (k + 1) (tickH h1 1) acc

def le (n v : Nat) : List Nat := (List.range n).map fun i => (v >>> (8 * i)) % 256

/-- a reassembled PGN 126208 request for PGN 126993 from source 50 -/
def gfReqMsg (dst iv off pairs : Nat) : Msg :=
  { prio := 3, pgn := 126208, src := 50, dst := dst, len := 11,
    data := [0] ++ le 3 126993 ++ le 4 iv ++ le 2 off ++ [pairs % 256] }

/-- `RespondGroupFunction` for device `i`, heartbeat part: a served request sets interval/offset and sends a heartbeat
(`SendHeartbeat(iDev)`); acknowledgements are C09's subject and not produced here -/
def gfServe (m : Msg) (h : HSt) (i : Nat) : HSt :=
  match h.st.devs[i]? with
  | none => h
  | some d =>
    match N2k.GF.req126993 d m with
    | .serveHeartbeat iv off => (sendHeartbeatOne (setHeartbeatIntervalAndOffset h iv off (some i)) i).1
    | _ => h

/-- `ParseMessages()` with one group-function request in the receive queue -/
def gfPoll (h : HSt) (target : Option Nat) (iv off pairs : Nat) : HSt :=
  let fl := sendFrames h.st.ring h.st.drv
  let h1 : HSt := { h with st := { h.st with ring := fl.1, drv := fl.2.1 } }
  let h2 :=
    if ¬ h1.st.claimMode then h1 else        -- system messages are handled by active nodes only
    match target with
    | none => (List.range h1.st.devs.length).foldl (gfServe (gfReqMsg 255 iv off pairs)) h1
    | some i =>
      match h1.st.devs[i]? with
      | none => h1
      | some d => gfServe (gfReqMsg d.source iv off pairs) h1 i
  (sendHeartbeat false h2).1


def parseDevArg (s : String) : Option Nat := if s.startsWith "-" then none else nat? s

/-- engine state: the node, the roll counter of the 32-bit `N2kMillis64()` and its value at `reset0` -/
structure ES where
  h : HSt
  roll : Roll
  base : Nat
  fmt : Nat × List Nat := (7, [0xff, 0xff, 0xff, 0xff, 0xff])

def stepH (fmt : Nat × List Nat) (st : Option HSt) (w : List String) : Option HSt × String :=
  match w with
  | "reset0" :: fl :: q :: mode :: now :: devs =>
    match nat? q, nat? mode, nat? now with
    | some q, some mode, some now =>
      let f := if fl = "t32" then Flavor.t32 else Flavor.t64
      match devs.mapM (parseDev f) with
      | some ds =>
        let s : St :=
          { flavor := f, now := now, listenOnly := mode == 0, claimMode := mode == 1 || mode == 2,
            openState := 0, openSched := Sched.fromNow f now 0,
            lists := {}, devs := ds,
            ring := { n := q, buf := fun _ => emptyFrame, read := 0, write := 0 },
            drv := { script := [], dflt := true, sent := [] } }
        (some { st := s, hb := ds.map (fun _ => {}) }, "ok")
      | none => (st, "bad-op")
    | _, _, _ => (st, "bad-op")
  | _ =>
  match st with
  | none => (st, "bad-op")
  | some h =>
    match w with
    | ["acc", bits] =>
      (some { h with st := { h.st with drv := { h.st.drv with script := h.st.drv.script ++ bits.toList.map (· == '1') } } }, "ok")
    | ["accdef", b] => (some { h with st := { h.st with drv := { h.st.drv with dflt := b == "1" } } }, "ok")
    | ["canopen", b] => (some { h with st := { h.st with canOpenOk := b == "1" } }, "ok")
    | ["t", ms] => match nat? ms with
      | some k => (some (tickH h k), "ok")
      | none => (st, "bad-op")
    | ["poll"] =>
      let (h', fr) := takeSentH (pollTopH h).1
      (some h', framesStr (fr.map (fixHb fmt)))
    | ["run", n] => match nat? n with
      | some n =>
        let (h', out) := runDense fmt n 0 h []
        (some h', if out.isEmpty then "-" else " ".intercalate out)
      | none => (st, "bad-op")
    | ["claim", d] => match nat? d with
      | some d =>
        let (h', fr) := takeSentH (claimH h d)
        (some h', framesStr (fr.map (fixHb fmt)))
      | none => (st, "bad-op")
    | ["hbset", iv, off, d] => match nat? iv, nat? off with
      | some iv, some off => (some (setHeartbeatIntervalAndOffset h iv off (parseDevArg d)), "ok")
      | _, _ => (st, "bad-op")
    | ["hbforce"] =>
      if h.st.openState ≠ 3 then (st, "closed") else
      let (h', fr) := takeSentH (sendHeartbeat true h).1
      (some h', framesStr (fr.map (fixHb fmt)))
    | ["hbdev", d] =>
      if h.st.openState ≠ 3 then (st, "closed") else
      match parseDevArg d with
      | some d =>
        let (h', fr) := takeSentH (sendHeartbeatOne h d).1
        (some h', framesStr (fr.map (fixHb fmt)))
      | none => (st, "-")
    | ["gfreq", d, iv, off, pairs] =>
      if h.st.openState ≠ 3 then (st, "closed") else
      match nat? iv, nat? off, nat? pairs with
      | some iv, some off, some pairs =>
        let (h', fr) := takeSentH (gfPoll h (parseDevArg d) iv off pairs)
        (some h', framesStr ((fr.filter isHbFrame).map (fixHb fmt)))
      | _, _, _ => (st, "bad-op")
    | ["get"] =>
      let l := h.hb.map (devStr h.syncOffset)
      (some { h with infoChanged := false },
       s!"open={boolStr (h.st.openState == 3)} chg={boolStr h.infoChanged} {" ".intercalate l}")
    | _ => (st, "bad-op")

def step (es : Option ES) (w : List String) : Option ES × String :=
  match w with
  | "scenario" :: _ => (es, "ok")
  | "devlist" :: _ => (none, "ok")      -- device-list probe of the harness (not modelled here)
  | "probe" :: _ => (none, "ok")        -- TP / slot / pending-information probes of the harness (oracle only)
  | "reset0" :: _ =>
    match stepH (7, []) none w with
    | (some h, out) =>
      -- the harness samples N2kMillis64() once when the node has been constructed
      let r := ({} : Roll).read (millis32 h.st.now)
      (some { h := h, roll := r.1, base := if h.st.flavor = .t64 then h.st.now else r.2 }, out)
    | (none, out) => (es, out)
  | ["hbfmt", p, tail] =>
    match es, nat? p, hexBytes? tail with
    | some e, some p, some t => (some { e with fmt := (p, t) }, "ok")
    | _, _, _ => (es, "bad-op")
  | ["m64"] =>
    match es with
    | none => (es, "bad-op")
    | some e =>
      match e.h.st.flavor with
      | .t64 => (es, toString (e.h.st.now - e.base))
      | .t32 =>
        let r := e.roll.read (millis32 e.h.st.now)
        (some { e with roll := r.1 }, toString (r.2 - e.base))
  | _ =>
    match es with
    | none => (es, "bad-op")
    | some e =>
      match stepH e.fmt (some e.h) w with
      | (some h', out) => (some { e with h := h' }, out)
      | (none, out) => (es, out)

def main : IO Unit := loop step none

end Driver.Heartbeat
