import N2k.Lemmas.DeviceListConf
import N2k.Spec.DeviceMap
/-!
# C18 helper lemmas, part 10: the refinement to the specification maps, history plumbing
-/
namespace N2k.DeviceList
open N2k.Spec.DeviceMap

/-- the address claim a delivered message stands for (messages from sources ≥ 254 are not bus devices) -/
def claimOf (m : Msg) : Option (Nat × Nat) :=
  if m.pgn = pgnClaim ∧ m.source < MaxBusDevices then some (m.source, claimName m) else none

def claimsOf (h : List (Env × Msg)) : List (Nat × Nat) := h.filterMap fun em => claimOf em.2

/-- the list shows every binding of the specification maps -/
def Refines (s : State) (m : DMap) : Prop :=
  ∀ n src, m.byName n = some src → ∃ d, devAt s src = some d ∧ d.name = n

theorem refines_step {e : Env} {s s' : State} {msg : Msg} {m : DMap} (hc : Cons m) (hr : Refines s m)
    (hd : StepDesc e s s' msg) :
    Refines s' (match claimOf msg with | some c => m.claim c.1 c.2 | none => m) := by
  unfold claimOf
  by_cases hcl : msg.pgn = pgnClaim ∧ msg.source < MaxBusDevices
  · simp only [hcl, and_self, if_true]
    obtain ⟨h1, h2⟩ := step_names_claim hd hcl.1 hcl.2
    obtain ⟨_, _, hsub, _⟩ := hc.claim msg.source (claimName msg)
    intro n x hx
    rcases hsub n x hx with ⟨hn, hxs⟩ | ⟨hn, hxs, hm⟩
    · subst hn hxs; exact h1
    · obtain ⟨d, hd1, hd2⟩ := hr n x hm
      obtain ⟨d', hd3, hd4⟩ := h2 x d hxs hd1 (by rw [hd2]; exact hn)
      exact ⟨d', hd3, by rw [hd4, hd2]⟩
  · simp only [hcl, if_false]
    intro n x hx
    obtain ⟨d, hd1, hd2⟩ := hr n x hx
    have hnc : msg.pgn ≠ pgnClaim ∨ msg.source ≥ MaxBusDevices := by
      by_cases h : msg.pgn = pgnClaim
      · exact Or.inr (by have := fun h2 => hcl ⟨h, h2⟩; omega)
      · exact Or.inl h
    obtain ⟨d', hd3, hd4⟩ := step_names_other hd hnc hd1
    exact ⟨d', hd3, by rw [hd4, hd2]⟩

theorem refines_run : ∀ (h : List (Env × Msg)) {s : State} {m : DMap}, Inv s → Cons m → Refines s m →
    ∃ s', run s h = .ok s' ∧ Inv s' ∧ Refines s' (runClaims m (claimsOf h)) := by
  intro h
  induction h with
  | nil => intro s m hi _ hr; exact ⟨s, rfl, hi, hr⟩
  | cons em t ih =>
    intro s m hi hc hr
    obtain ⟨s1, h1, hi1, hd⟩ := handleMsg_spec em.1 hi em.2
    have hr1 := refines_step hc hr hd
    cases hcl : claimOf em.2 with
    | none =>
      rw [hcl] at hr1
      obtain ⟨s', h2, hi2, hr2⟩ := ih hi1 hc hr1
      refine ⟨s', by simp [run, h1, h2], hi2, ?_⟩
      simpa [claimsOf, List.filterMap_cons, hcl] using hr2
    | some c =>
      rw [hcl] at hr1
      obtain ⟨s', h2, hi2, hr2⟩ := ih hi1 (hc.claim c.1 c.2).1 hr1
      refine ⟨s', by simp [run, h1, h2], hi2, ?_⟩
      simpa [claimsOf, List.filterMap_cons, hcl, runClaims] using hr2

/-- a binding shown by the list is what both lookups return -/
theorem lookups_of_entry {s : State} (hi : Inv s) {n src : Nat} {d : Device} (hn : n ≠ 0)
    (hd : devAt s src = some d) (hdn : d.name = n) :
    ∃ id, findByName s n = .ok (some id) ∧ findBySource s src = some id ∧ s.heap id = some d ∧ d.source = src := by
  obtain ⟨hsrc, h254, _, id, hsi, hhd⟩ := devAt_src hi.st hd
  obtain ⟨r, hr, hsome, hnone⟩ := findByName_spec hi.st n
  cases r with
  | none => exact absurd hdn (hnone rfl src d hd)
  | some id' =>
    obtain ⟨j, d', hsj, hd', hn', _, hda'⟩ := hsome id' rfl
    have hj : j = src := hi.good.uniq j src d' d hda' hd (by rw [hn', hdn]) (by rw [hn']; exact hn)
    subst hj
    rw [hsi] at hsj; cases hsj
    refine ⟨id, hr, ?_, hhd, hsrc⟩
    have : ¬ j ≥ MaxBusDevices := by omega
    simp [findBySource, this, hsi]

theorem run_ok_append {s s1 s2 : State} {a b : List (Env × Msg)} (h1 : run s a = .ok s1) (h2 : run s1 b = .ok s2) :
    run s (a ++ b) = .ok s2 := by rw [run_append, h1]; exact h2

theorem run_ok_cons {s s1 s2 : State} {e : Env} {m : Msg} {t : List (Env × Msg)} (h1 : handleMsg e s m = .ok s1)
    (h2 : run s1 t = .ok s2) : run s ((e, m) :: t) = .ok s2 := by simp [run, h1, h2]

/-- the list shows NAME `n` under `src` after the history `pre` (by `C18_latest_claim`: whenever the latest claim
    of `n` was for `src` and is not displaced) -/
def Shows (pre : List (Env × Msg)) (src n : Nat) : Prop :=
  ∀ s0, run State.init pre = .ok s0 → ∃ id d, findBySource s0 src = some id ∧ s0.heap id = some d ∧ d.name = n

theorem shows_entry {pre : List (Env × Msg)} {src n : Nat} (h : Shows pre src n) :
    ∃ s0 d, run State.init pre = .ok s0 ∧ Inv s0 ∧ devAt s0 src = some d ∧ d.name = n := by
  obtain ⟨s0, hs0, hi0⟩ := run_spec pre Inv.init
  obtain ⟨id, d, hf, hh, hn⟩ := h s0 hs0
  refine ⟨s0, d, hs0, hi0, ?_, hn⟩
  unfold findBySource at hf
  by_cases h254 : src ≥ MaxBusDevices
  · simp [h254] at hf
  · simp only [h254, if_false] at hf
    simp [devAt, hf, hh]

theorem entry_lookup {s : State} (hi : Inv s) {src : Nat} {d : Device} (hd : devAt s src = some d) :
    ∃ id, findBySource s src = some id ∧ s.heap id = some d := by
  obtain ⟨_, h254, _, id, hsi, hhd⟩ := devAt_src hi.st hd
  have : ¬ src ≥ MaxBusDevices := by omega
  exact ⟨id, by simp [findBySource, this, hsi], hhd⟩

/-! ## the two remaining lookups -/

/-- `findLoop` over `[i, i+k)` under the invariant: a hit is an entry of that range satisfying the predicate, a miss
    means no entry of the range satisfies it -/
theorem findLoop_entries {s : State} (hi : Inv s) (p : Device → Bool) (k i : Nat) :
    ∃ r, findLoop s p k i = .ok r ∧
      (∀ id, r = some id → ∃ d, s.heap id = some d ∧ findBySource s d.source = some id ∧ p d = true ∧
        i ≤ d.source ∧ d.source < i + k) ∧
      (r = none → ∀ j id d, i ≤ j → j < i + k → findBySource s j = some id → s.heap id = some d → p d = false) := by
  obtain ⟨r, hr, h1, h2⟩ := findLoop_spec hi.st p k i
  refine ⟨r, hr, ?_, ?_⟩
  · intro id hid
    obtain ⟨j, d, a, b, hsj, hd, hp⟩ := h1 id hid
    obtain ⟨d', hd', hsrc, _⟩ := devAt_some hi.st hsj
    rw [hd] at hd'; cases hd'
    obtain ⟨h254, _, _⟩ := hi.st.src j id hsj
    have : ¬ j ≥ MaxBusDevices := by omega
    exact ⟨d, hd, by rw [hsrc]; simp [findBySource, this, hsj], hp, by omega, by omega⟩
  · intro hn j id d a b hf hd
    unfold findBySource at hf
    by_cases h254 : j ≥ MaxBusDevices
    · simp [h254] at hf
    · simp only [h254, if_false] at hf
      exact h2 hn j d a b (by simp [devAt, hf, hd])

end N2k.DeviceList
