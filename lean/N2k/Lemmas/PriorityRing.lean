import N2k.Basic.Win
import N2k.Model.RingBuffer
/-! Invariant and one-step refinement lemmas for `tPriorityRingBuffer` (helper lemmas for C20). -/
namespace N2k.Ring
open Win

/-! ### abstraction -/

def win (r : PRB) : List Nat := idxs r.n r.tail r.head

def alive (r : PRB) (j : Nat) : Bool := (r.slot j).prio.isSome

/-- the log: (value, priority) of every slot from tail to head-1; `none` priority = released -/
def log (r : PRB) : List (Nat × Option Nat) := (win r).map fun j => ((r.slot j).val, (r.slot j).prio)

def chain (r : PRB) (p : Nat) : List Nat := (win r).filter fun j => (r.slot j).prio == some p

/-- consecutive elements are linked by `next`, last has no next -/
def Linked (slot : Nat → Slot) : List Nat → Prop
  | [] => True
  | [a] => (slot a).next = none
  | a :: b :: t => (slot a).next = some b ∧ Linked slot (b :: t)

structure Inv (r : PRB) : Prop where
  n3 : 3 ≤ r.n
  P1 : 1 ≤ r.P
  hh : r.head < r.n
  ht : r.tail < r.n
  tailAlive : r.tail ≠ r.head → alive r r.tail = true
  prioLt : ∀ j ∈ win r, ∀ q, (r.slot j).prio = some q → q < r.P
  refN : ∀ p, p < r.P → r.refNext p = (chain r p).head?
  refL : ∀ p, p < r.P → r.refLast p = (chain r p).getLast?
  linked : ∀ p, p < r.P → Linked r.slot (chain r p)


/-! ### helper lemmas on `Linked` -/

theorem Linked.congr {s s' : Nat → Slot} : ∀ {l : List Nat},
    (∀ a ∈ l, (s' a).next = (s a).next) → Linked s l → Linked s' l
  | [], _, _ => trivial
  | [a], h, hl => by
      simp only [Linked] at hl ⊢; rw [h a (by simp)]; exact hl
  | a :: b :: t, h, hl => by
      simp only [Linked] at hl ⊢
      refine ⟨by rw [h a (by simp)]; exact hl.1, ?_⟩
      exact Linked.congr (fun x hx => h x (by simp [hx])) hl.2

theorem Linked.snoc {s s' : Nat → Slot} {l h : Nat} : ∀ (c : List Nat),
    Linked s (c ++ [l]) → (∀ a ∈ c, (s' a).next = (s a).next) →
    (s' l).next = some h → (s' h).next = none → Linked s' (c ++ [l] ++ [h])
  | [], _, _, hl, hh => by simp [Linked, hl, hh]
  | [a], hL, hag, hl, hh => by
      simp only [List.cons_append, List.nil_append, Linked] at hL ⊢
      exact ⟨by rw [hag a (by simp)]; exact hL.1, hl, hh⟩
  | a :: b :: t, hL, hag, hl, hh => by
      simp only [List.cons_append, Linked] at hL ⊢
      refine ⟨by rw [hag a (by simp)]; exact hL.1, ?_⟩
      have := Linked.snoc (s := s) (s' := s') (l := l) (h := h) (b :: t) hL.2
        (fun x hx => hag x (by simp at hx ⊢; right; exact hx)) hl hh
      simpa using this

theorem Linked.tail {s : Nat → Slot} {a : Nat} {t : List Nat} (h : Linked s (a :: t)) : Linked s t := by
  cases t with
  | nil => trivial
  | cons b t => exact h.2

theorem Linked.head_next {s : Nat → Slot} {a : Nat} {t : List Nat} (h : Linked s (a :: t)) :
    (s a).next = t.head? := by
  cases t with
  | nil => simpa [Linked] using h
  | cons b t => simpa using h.1


/-! ### add -/

theorem clampP_lt (r : PRB) (h1 : 1 ≤ r.P) (p : Nat) : clampP r p < r.P := by
  unfold clampP; split <;> omega

theorem mem_chain {r : PRB} {p j : Nat} : j ∈ chain r p ↔ j ∈ win r ∧ (r.slot j).prio = some p := by
  simp [chain]

theorem chain_nodup {r : PRB} (hI : Inv r) (p : Nat) : (chain r p).Nodup :=
  (idxs_nodup (by have := hI.n3; omega) hI.ht hI.hh).filter _

/-- generic push step: any new state that keeps n, tail, extends head by one, keeps val/prio on the old
window and writes (v, some p) at the old head. -/
theorem push_facts (r r' : PRB) (hI : Inv r) (v p : Nat)
    (hn : r'.n = r.n) (htl : r'.tail = r.tail) (hhd : r'.head = (r.head + 1) % r.n)
    (hne : (r.head + 1) % r.n ≠ r.tail)
    (hold : ∀ j, j ≠ r.head → (r'.slot j).val = (r.slot j).val ∧ (r'.slot j).prio = (r.slot j).prio)
    (hnew : (r'.slot r.head).val = v ∧ (r'.slot r.head).prio = some p) :
    win r' = win r ++ [r.head] ∧ r.head ∉ win r ∧
    log r' = log r ++ [(v, some p)] ∧
    (∀ q, chain r' q = chain r q ++ (if q = p then [r.head] else [])) := by
  have hn0 : 0 < r.n := by have := hI.n3; omega
  have hw : win r' = win r ++ [r.head] := by
    unfold win; rw [hn, htl, hhd]; exact idxs_push hn0 hI.ht hI.hh hne
  have hnm : r.head ∉ win r := head_not_mem hn0 hI.ht hI.hh
  have hne' : ∀ j ∈ win r, j ≠ r.head := fun j hj he => hnm (he ▸ hj)
  refine ⟨hw, hnm, ?_, ?_⟩
  · unfold log; rw [hw, List.map_append]
    congr 1
    · apply List.map_congr_left; intro j hj
      have := hold j (hne' j hj); rw [this.1, this.2]
    · simp [hnew.1, hnew.2]
  · intro q
    unfold chain; rw [hw, List.filter_append]
    congr 1
    · apply List.filter_congr; intro j hj
      rw [(hold j (hne' j hj)).2]
    · by_cases hq : q = p
      · subst hq; simp [hnew.2]
      · have : (some p == some q) = false := by simp; exact fun h => hq h.symm
        simp [hnew.2, hq, this]


theorem inv_of_push (r r' : PRB) (hI : Inv r) (v p : Nat) (hp : p < r.P)
    (hn : r'.n = r.n) (hP : r'.P = r.P) (htl : r'.tail = r.tail) (hhd : r'.head = (r.head + 1) % r.n)
    (hne : (r.head + 1) % r.n ≠ r.tail)
    (hold : ∀ j, j ≠ r.head → (r'.slot j).val = (r.slot j).val ∧ (r'.slot j).prio = (r.slot j).prio)
    (hnew : (r'.slot r.head).val = v ∧ (r'.slot r.head).prio = some p)
    (hrn : ∀ q, q < r.P → r'.refNext q = (chain r q ++ (if q = p then [r.head] else [])).head?)
    (hrl : ∀ q, q < r.P → r'.refLast q = (chain r q ++ (if q = p then [r.head] else [])).getLast?)
    (hlk : ∀ q, q < r.P → Linked r'.slot (chain r q ++ (if q = p then [r.head] else []))) :
    Inv r' ∧ log r' = log r ++ [(v, some p)] := by
  obtain ⟨hw, hnm, hlog, hch⟩ := push_facts r r' hI v p hn htl hhd hne hold hnew
  have hn0 : 0 < r.n := by have := hI.n3; omega
  refine ⟨?_, hlog⟩
  refine ⟨by rw [hn]; exact hI.n3, by rw [hP]; exact hI.P1, by rw [hhd, hn]; exact Nat.mod_lt _ hn0,
    by rw [htl, hn]; exact hI.ht, ?_, ?_, ?_, ?_, ?_⟩
  · intro _
    rw [htl]
    by_cases hte : r.tail = r.head
    · unfold alive; rw [hte, hnew.2]; rfl
    · have := hI.tailAlive hte
      unfold alive at this ⊢
      rw [(hold r.tail hte).2]; exact this
  · intro j hj q hq
    rw [hw, List.mem_append] at hj
    rcases hj with hj | hj
    · have hjne : j ≠ r.head := fun he => hnm (he ▸ hj)
      rw [(hold j hjne).2] at hq; rw [hP]; exact hI.prioLt j hj q hq
    · simp at hj; subst hj; rw [hnew.2] at hq; injection hq with hq; rw [hP, ← hq]; exact hp
  · intro q hq; rw [hP] at hq; rw [hch q]; exact hrn q hq
  · intro q hq; rw [hP] at hq; rw [hch q]; exact hrl q hq
  · intro q hq; rw [hP] at hq; rw [hch q]; exact hlk q hq


theorem add_full (r : PRB) (v p : Nat) (h : (r.head + 1) % r.n = r.tail) : add r v p = (r, false) := by
  unfold add; simp [h]

theorem add_inv (r : PRB) (hI : Inv r) (v p : Nat) (hne : (r.head + 1) % r.n ≠ r.tail) :
    (add r v p).2 = true ∧ Inv (add r v p).1 ∧
    log (add r v p).1 = log r ++ [(v, some (clampP r p))] := by
  have hp := clampP_lt r hI.P1 p
  have hn0 : 0 < r.n := by have := hI.n3; omega
  have hnm : r.head ∉ win r := head_not_mem hn0 hI.ht hI.hh
  generalize hpp : clampP r p = p' at hp
  have hcn := hI.refN p' hp
  have hcl := hI.refL p' hp
  have hlk := hI.linked p' hp
  unfold add
  simp only [hpp, hne, ↓reduceIte]
  cases hrn : r.refNext p' with
  | none =>
    simp only
    refine ⟨trivial, ?_⟩
    have hce : chain r p' = [] := by
      rw [hrn] at hcn; exact List.head?_eq_none_iff.mp hcn.symm
    refine inv_of_push r _ hI v p' hp ?_ ?_ ?_ ?_ hne ?_ ?_ ?_ ?_ ?_
    · rfl
    · rfl
    · rfl
    · rfl
    · intro j hj; simp [hj]
    · simp
    · intro q hq
      by_cases hqp : q = p'
      · subst hqp; simp [hce]
      · simp [hqp]; exact hI.refN q hq
    · intro q hq
      by_cases hqp : q = p'
      · subst hqp; simp [hce]
      · simp [hqp]; exact hI.refL q hq
    · intro q hq
      by_cases hqp : q = p'
      · subst hqp; simp [hce, Linked]
      · simp only [hqp, ↓reduceIte, List.append_nil]
        refine Linked.congr ?_ (hI.linked q hq)
        intro a ha
        have : a ≠ r.head := fun he => hnm (he ▸ (mem_chain.mp ha).1)
        simp [this]
  | some x =>
    cases hrl : r.refLast p' with
    | none =>
      exfalso
      rw [hrn] at hcn; rw [hrl] at hcl
      have := List.getLast?_eq_none_iff.mp hcl.symm
      rw [this] at hcn; simp at hcn
    | some l =>
      simp only
      refine ⟨trivial, ?_⟩
      rw [hrl] at hcl
      obtain ⟨c, hc⟩ := List.getLast?_eq_some_iff.mp hcl.symm
      have hlmem : l ∈ chain r p' := by rw [hc]; simp
      have hlne : l ≠ r.head := fun he => hnm (he ▸ (mem_chain.mp hlmem).1)
      have hnd := chain_nodup hI p'
      refine inv_of_push r _ hI v p' hp ?_ ?_ ?_ ?_ hne ?_ ?_ ?_ ?_ ?_
      · rfl
      · rfl
      · rfl
      · rfl
      · intro j hj
        by_cases hjl : j = l
        · subst hjl; simp [hlne]
        · simp [hj, hjl]
      · simp [hlne.symm]
      · intro q hq
        by_cases hqp : q = p'
        · subst hqp; show r.refNext q = _; rw [hcn, hc]; cases c <;> simp
        · simp [hqp]; exact hI.refN q hq
      · intro q hq
        by_cases hqp : q = p'
        · subst hqp; simp
        · simp [hqp]; exact hI.refL q hq
      · intro q hq
        by_cases hqp : q = p'
        · subst hqp
          simp only [↓reduceIte, hc]
          rw [hc] at hlk hnd
          apply Linked.snoc c hlk
          · intro a ha
            have hal : a ≠ l := by
              intro he; subst he
              have := List.nodup_append.mp hnd
              exact this.2.2 a ha a (by simp) rfl
            have hah : a ≠ r.head := by
              intro he
              have : a ∈ chain r q := by rw [hc]; simp [ha]
              exact hnm (he ▸ (mem_chain.mp this).1)
            simp [hal, hah]
          · simp [hlne]
          · simp [hlne.symm]
        · simp only [hqp, ↓reduceIte, List.append_nil]
          refine Linked.congr ?_ (hI.linked q hq)
          intro a ha
          have hah : a ≠ r.head := fun he => hnm (he ▸ (mem_chain.mp ha).1)
          have hal : a ≠ l := by
            intro he; subst he
            have h1 := (mem_chain.mp ha).2
            have h2 := (mem_chain.mp hlmem).2
            rw [h1] at h2; injection h2 with h2; exact hqp h2
          simp [hah, hal]


/-! ### read -/

theorem advance_spec (n head : Nat) (slot : Nat → Slot) (hn : 0 < n) (hh : head < n) :
    ∀ (fuel t : Nat), t < n → cnt n t head ≤ fuel →
      advance n head slot fuel t < n ∧
      idxs n (advance n head slot fuel t) head
        = (idxs n t head).dropWhile (fun j => (slot j).prio == none) ∧
      (advance n head slot fuel t ≠ head → (slot (advance n head slot fuel t)).prio ≠ none) := by
  intro fuel
  induction fuel with
  | zero =>
    intro t ht hc
    have : t = head := (cnt_zero_iff hn ht hh).mp (by omega)
    subst this
    simp [advance, ht, idxs_nil hn]
  | succ k ih =>
    intro t ht hc
    unfold advance
    by_cases hte : t = head
    · subst hte; simp [ht, idxs_nil hn]
    · by_cases hd : (slot t).prio = none
      · simp only [ne_eq, hte, not_false_eq_true, hd, and_self, ↓reduceIte]
        have hpop := idxs_pop hn ht hh hte
        have ht' : (t + 1) % n < n := Nat.mod_lt _ hn
        have hc' : cnt n ((t + 1) % n) head ≤ k := by
          have h1 : (idxs n t head).length = cnt n t head := by simp [idxs]
          have h2 : (idxs n ((t + 1) % n) head).length = cnt n ((t + 1) % n) head := by simp [idxs]
          rw [hpop, List.length_cons, h2] at h1; omega
        have := ih ((t + 1) % n) ht' hc'
        refine ⟨this.1, ?_, this.2.2⟩
        rw [this.2.1, hpop, List.dropWhile_cons]
        simp [hd]
      · simp only [ne_eq, hte, not_false_eq_true, hd, and_false, ↓reduceIte]
        refine ⟨ht, ?_, by intro _; first | exact hd | trivial⟩
        rw [idxs_pop hn ht hh hte, List.dropWhile_cons]
        simp [hd]

theorem filter_dropWhile {α} (f g : α → Bool) (hfg : ∀ x, g x = true → f x = false) :
    ∀ l : List α, (l.dropWhile g).filter f = l.filter f
  | [] => rfl
  | a :: t => by
    rw [List.dropWhile_cons]
    by_cases hg : g a = true
    · simp [hg, hfg a hg, filter_dropWhile f g hfg t]
    · simp [hg]


theorem dropWhile_congr_mem {α} {f g : α → Bool} : ∀ {l : List α}, (∀ x ∈ l, f x = g x) →
    l.dropWhile f = l.dropWhile g
  | [], _ => rfl
  | a :: t, h => by
    rw [List.dropWhile_cons, List.dropWhile_cons, h a (by simp),
        dropWhile_congr_mem (fun x hx => h x (by simp [hx]))]

/-- slot function after releasing `ref` -/
def release (slot : Nat → Slot) (ref : Nat) : Nat → Slot :=
  fun j => if j = ref then { slot j with next := none, prio := none } else slot j

theorem readP_none (r : PRB) (hI : Inv r) (p : Nat) (h : chain r (clampP r p) = []) :
    readP r p = (r, none) := by
  have hp := clampP_lt r hI.P1 p
  have := hI.refN _ hp
  rw [h] at this
  unfold readP; simp only [this, List.head?_nil]

/-- window of the state after a read, as a function of the old window -/
theorem read_window (r : PRB) (hI : Inv r) (ref : Nat) (hmem : ref ∈ win r)
    (halive : (r.slot ref).prio ≠ none) :
    let tail' := if ref = r.tail then advance r.n r.head r.slot r.n ((r.tail + 1) % r.n) else r.tail
    tail' < r.n ∧
    idxs r.n tail' r.head = (win r).dropWhile (fun j => (release r.slot ref j).prio == none) ∧
    (tail' ≠ r.head → (release r.slot ref tail').prio ≠ none) := by
  have hn0 : 0 < r.n := by have := hI.n3; omega
  have hne : r.tail ≠ r.head := by
    intro he; unfold win at hmem; rw [he, idxs_nil hn0] at hmem; cases hmem
  have hpop := idxs_pop hn0 hI.ht hI.hh hne
  have hnd := idxs_nodup hn0 hI.ht hI.hh
  rw [hpop] at hnd
  have hnd' := List.nodup_cons.mp hnd
  by_cases hrt : ref = r.tail
  · simp only [hrt, ↓reduceIte]
    have ht' : (r.tail + 1) % r.n < r.n := Nat.mod_lt _ hn0
    have hadv := advance_spec r.n r.head r.slot hn0 hI.hh r.n ((r.tail + 1) % r.n) ht'
      (Nat.le_of_lt (cnt_lt hn0))
    have hrest : ∀ x ∈ idxs r.n ((r.tail + 1) % r.n) r.head, x ≠ r.tail :=
      fun x hx he => hnd'.1 (he ▸ hx)
    refine ⟨hadv.1, ?_, ?_⟩
    · rw [hadv.2.1]
      unfold win; rw [hpop, List.dropWhile_cons]
      simp only [release, ↓reduceIte, beq_self_eq_true]
      apply dropWhile_congr_mem
      intro x hx
      simp [hrest x hx]
    · intro hth
      have := hadv.2.2 hth
      have hmem' : advance r.n r.head r.slot r.n ((r.tail + 1) % r.n) ∈
          idxs r.n ((r.tail + 1) % r.n) r.head := by
        have hw := hadv.2.1
        have hne2 : idxs r.n (advance r.n r.head r.slot r.n ((r.tail + 1) % r.n)) r.head ≠ [] := by
          rw [idxs_pop hn0 hadv.1 hI.hh hth]; simp
        have hin : advance r.n r.head r.slot r.n ((r.tail + 1) % r.n) ∈
            idxs r.n (advance r.n r.head r.slot r.n ((r.tail + 1) % r.n)) r.head := by
          rw [idxs_pop hn0 hadv.1 hI.hh hth]; simp
        rw [hw] at hin
        exact (List.dropWhile_sublist _).subset hin
      simp [release, hrest _ hmem', this]
  · simp only [hrt, ↓reduceIte]
    have hta := hI.tailAlive hne
    unfold alive at hta
    have hta' : (r.slot r.tail).prio ≠ none := by
      intro he; rw [he] at hta; cases hta
    have htr : r.tail ≠ ref := fun he => hrt he.symm
    refine ⟨hI.ht, ?_, ?_⟩
    · unfold win; rw [hpop, List.dropWhile_cons]
      simp [release, htr, hta']
    · intro _; simp [release, htr, hta']


theorem filter_release (r : PRB) (ref q : Nat) (l : List Nat) :
    l.filter (fun j => (release r.slot ref j).prio == some q)
      = (l.filter (fun j => (r.slot j).prio == some q)).filter (fun j => j != ref) := by
  rw [List.filter_filter]
  apply List.filter_congr
  intro j _
  by_cases hj : j = ref <;> simp [release, hj]

theorem readP_some (r : PRB) (hI : Inv r) (p ref : Nat) (c' : List Nat)
    (h : chain r (clampP r p) = ref :: c') :
    (readP r p).2 = some (r.slot ref).val ∧ Inv (readP r p).1 ∧
    log (readP r p).1 =
      ((win r).map fun j => if j = ref then ((r.slot j).val, none) else ((r.slot j).val, (r.slot j).prio)).dropWhile
        (fun e => e.2 == none) := by
  have hp := clampP_lt r hI.P1 p
  have hn0 : 0 < r.n := by have := hI.n3; omega
  generalize hpp : clampP r p = p' at hp h
  have hrn := hI.refN p' hp
  have hrl := hI.refL p' hp
  have hlk := hI.linked p' hp
  rw [h] at hrn hrl hlk
  simp only [List.head?_cons] at hrn
  have hmemc : ref ∈ chain r p' := by rw [h]; simp
  have hmem : ref ∈ win r := (mem_chain.mp hmemc).1
  have hprio : (r.slot ref).prio = some p' := (mem_chain.mp hmemc).2
  have halive : (r.slot ref).prio ≠ none := by rw [hprio]; simp
  have hnd := chain_nodup hI p'
  rw [h] at hnd
  have hrefc' : ref ∉ c' := (List.nodup_cons.mp hnd).1
  obtain ⟨ht', hw, hta⟩ := read_window r hI ref hmem halive
  -- chains after the read
  have hchain : ∀ q, (win r).filter (fun j => (release r.slot ref j).prio == some q)
      = if q = p' then c' else chain r q := by
    intro q
    rw [filter_release]
    by_cases hq : q = p'
    · subst hq
      simp only [↓reduceIte]
      show (chain r q).filter _ = c'
      rw [h, List.filter_cons]
      simp only [bne_self_eq_false, Bool.false_eq_true, ↓reduceIte]
      apply List.filter_eq_self.mpr
      intro a ha; simp; exact fun he => hrefc' (he ▸ ha)
    · simp only [hq, ↓reduceIte]
      apply List.filter_eq_self.mpr
      intro a ha
      have : (r.slot a).prio = some q := (mem_chain.mp ha).2
      simp; intro he; rw [he, hprio] at this; injection this with this; exact hq this.symm
  unfold readP
  simp only [hpp, hrn]
  refine ⟨trivial, ?_, ?_⟩
  · -- invariant
    have hwin : win (readP r p).1 = (win r).dropWhile (fun j => (release r.slot ref j).prio == none) := by
      unfold readP; simp only [hpp, hrn]; exact hw
    have hch : ∀ q, chain (readP r p).1 q = if q = p' then c' else chain r q := by
      intro q
      rw [← hchain q]
      unfold chain; rw [hwin]
      have : (readP r p).1.slot = release r.slot ref := by unfold readP; simp only [hpp, hrn]; rfl
      rw [this]
      apply filter_dropWhile
      intro x hx; simp at hx; simp [hx]
    unfold readP at hwin hch
    simp only [hpp, hrn] at hwin hch
    refine ⟨hI.n3, hI.P1, hI.hh, ht', ?_, ?_, ?_, ?_, ?_⟩
    · intro hne
      have := hta hne
      unfold alive
      cases hh : ((release r.slot ref) _).prio with
      | none => exact absurd hh this
      | some _ => simpa [release] using congrArg Option.isSome hh
    · intro j hj q hq
      rw [hwin] at hj
      have hj' : j ∈ win r := (List.dropWhile_sublist _).subset hj
      by_cases hjr : j = ref
      · simp [hjr] at hq
      · simp [hjr] at hq; exact hI.prioLt j hj' q hq
    · intro q hq
      rw [hch q]
      by_cases hqp : q = p'
      · subst hqp; simp only [↓reduceIte]
        exact Linked.head_next hlk
      · simp only [hqp, ↓reduceIte]; exact hI.refN q hq
    · intro q hq
      rw [hch q]
      by_cases hqp : q = p'
      · subst hqp; simp only [↓reduceIte]
        have hnx := Linked.head_next hlk
        cases hc : c' with
        | nil => simp [hnx, hc]
        | cons b t =>
          rw [hc] at hnx hrl
          simp [hnx]
          rw [hI.refL q hq, h, hc]; simp [List.getLast?_cons_cons]
      · simp only [hqp, ↓reduceIte]; exact hI.refL q hq
    · intro q hq
      rw [hch q]
      have hsub : ∀ a, a ∈ (if q = p' then c' else chain r q) → a ≠ ref := by
        intro a ha
        by_cases hqp : q = p'
        · simp only [hqp, ↓reduceIte] at ha; exact fun he => hrefc' (he ▸ ha)
        · simp only [hqp, ↓reduceIte] at ha
          intro he; have := (mem_chain.mp ha).2; rw [he, hprio] at this
          injection this with this; exact hqp this.symm
      refine Linked.congr (s := r.slot) (fun a ha => by simp [hsub a ha]) ?_
      by_cases hqp : q = p'
      · subst hqp; simp only [↓reduceIte]; exact Linked.tail hlk
      · simp only [hqp, ↓reduceIte]; exact hI.linked q hq
  · -- log
    have hwin : win (readP r p).1 = (win r).dropWhile (fun j => (release r.slot ref j).prio == none) := by
      unfold readP; simp only [hpp, hrn]; exact hw
    unfold readP at hwin
    simp only [hpp, hrn] at hwin
    have hfun : (fun j => if j = ref then ((r.slot j).val, none) else ((r.slot j).val, (r.slot j).prio))
        = fun j => (((release r.slot ref) j).val, ((release r.slot ref) j).prio) := by
      funext j; by_cases hj : j = ref <;> simp [release, hj]
    unfold log
    rw [hwin, hfun, List.dropWhile_map]
    rfl



end N2k.Ring
