import N2k.Lemmas.SeasmartSound
/-!
# C19 — Seasmart (`$PCDIN`) export and import are inverse and bounds-safe

Property theorems only. The model is `N2k.Seasmart.exportM` / `importM` / `importS`
(`Model/Seasmart.lean`, transcribing `Seasmart.cpp` over checked memory in `Except Fault`: every access
outside an object – for a C string: beyond its terminator – is `Fault.oob`), the list-level description
is `sentence` / `parse` (`Spec/Seasmart.lean`).

The import model transcribes `SeasmartToN2k` **with the three `fix:` commits** of the C19 worktree
(`known_findings.d/C19.json`); the `example`s at the end show the faults of the pinned code in the same
memory model.

No theorem below has a hypothesis on the string being imported: they hold for every list of bytes
(also bytes ≥ 0x80 and embedded NULs, where the C string simply ends earlier).
-/
namespace N2k.C19
open N2k.Seasmart

/-- **C19_export_size.** For every message (any PGN, source, payload, also out-of-range values – the
model wraps them like the C++ conversions), every time stamp and every buffer content:
* `size < 30 + 2n`: the result is 0 and the buffer is untouched;
* `size ≥ 30 + 2n`: no store leaves the buffer (`.ok`), the result is `29 + 2n`, the buffer holds the
  `29 + 2n` characters of the sentence, none of them NUL, followed by the terminator, and every byte after
  it is untouched. -/
theorem C19_export_size (m : Msg) (ts : Nat) (buf : List Nat) :
    (buf.length < 30 + 2 * m.data.length → exportM m ts buf = .ok (0, buf)) ∧
    (30 + 2 * m.data.length ≤ buf.length →
      exportM m ts buf = .ok (29 + 2 * m.data.length, sentence m ts ++ 0 :: buf.drop (30 + 2 * m.data.length)) ∧
      (sentence m ts).length = 29 + 2 * m.data.length ∧ (∀ c ∈ sentence m ts, c ≠ 0) ∧
      (sentence m ts ++ 0 :: buf.drop (30 + 2 * m.data.length)).length = buf.length) := by
  refine ⟨fun h => ?_, fun h => ⟨?_, sentence_length m ts, sentence_ne_0 m ts, ?_⟩⟩
  · rw [exportM_eq, if_pos h]
  · rw [exportM_eq, if_neg (by omega)]
  · simp only [List.length_append, List.length_cons, List.length_drop, sentence_length]; omega

/-- **C19_import_safe.** Importing ANY NUL-terminated string held in an object that ends at its
terminator never faults: no read beyond the terminator. (Stronger: the result is exactly `parse s`.) -/
theorem C19_import_safe (s : List Nat) : importS s = .ok (parse s) := importS_eq_parse s

/-- the same, in the "never returns a Fault" form -/
theorem C19_import_no_fault (s : List Nat) (f : Fault) : importS s ≠ .error f := by
  rw [importS_eq_parse]; intro h; cases h

/-- **C19_roundtrip.** For every PGN below 2^24, source, 32-bit time stamp and payload of 0..223 bytes,
importing the exported sentence – also when followed by arbitrary text such as `\r\n` – succeeds and
returns the same PGN, time stamp, source and payload. (`C19_export_size` says that `sentence m ts` followed
by NUL is what the export leaves in the buffer.) -/
theorem C19_roundtrip (m : Msg) (ts : Nat) (rest : List Nat) (hp : m.pgn < 2 ^ 24) (hs : m.src < 256)
    (ht : ts < 2 ^ 32) (hn : m.data.length ≤ 223) (hb : ∀ b ∈ m.data, b < 256) :
    importS (sentence m ts ++ rest) = .ok (some ⟨m.pgn, ts, m.src, m.data⟩) := by
  rw [importS_eq_parse, parse_sentence m ts rest (by simpa using hp) hs (by simpa using ht) hn hb]

/-- export into any sufficiently large buffer, then import of exactly the bytes up to and including the
terminator the export wrote -/
theorem C19_roundtrip_buffer (m : Msg) (ts : Nat) (buf : List Nat) (hp : m.pgn < 2 ^ 24) (hs : m.src < 256)
    (ht : ts < 2 ^ 32) (hn : m.data.length ≤ 223) (hb : ∀ b ∈ m.data, b < 256)
    (hsize : 30 + 2 * m.data.length ≤ buf.length) :
    ∃ buf', exportM m ts buf = .ok (29 + 2 * m.data.length, buf') ∧
      importM (buf'.take (29 + 2 * m.data.length + 1)) = .ok (some ⟨m.pgn, ts, m.src, m.data⟩) := by
  refine ⟨_, ((C19_export_size m ts buf).2 hsize).1, ?_⟩
  have h := C19_roundtrip m ts [] hp hs ht hn hb
  rw [List.append_nil] at h
  have ht : (sentence m ts ++ 0 :: buf.drop (30 + 2 * m.data.length)).take (29 + 2 * m.data.length + 1)
      = sentence m ts ++ [0] := by
    rw [show sentence m ts ++ 0 :: buf.drop (30 + 2 * m.data.length)
        = (sentence m ts ++ [0]) ++ buf.drop (30 + 2 * m.data.length) by simp]
    exact List.take_left' (by simp [sentence_length])
  rw [ht]; exact h

example : ∃ m : Msg, m.pgn < 2 ^ 24 ∧ m.src < 256 ∧ m.data.length ≤ 223 ∧ ∀ b ∈ m.data, b < 256 :=
  ⟨⟨127257, 15, [42, 175, 0, 209, 6, 116, 20, 255]⟩, by decide⟩

/-- **C19_import_sound.** Whenever the import of ANY string succeeds, the string is
`$PCDIN,` + 6 hex digits + `,` + 8 hex digits + `,` + 2 hex digits + `,` + 2k hex digits + `*` + 2 hex digits
(+ anything); the returned PGN, time stamp, source and payload are the values of those digit fields, there
are at most 223 payload bytes, and the two digits after `*` spell the XOR of all characters between `$`
and `*`. -/
theorem C19_import_sound (s : List Nat) (r : Res) (h : importS s = .ok (some r)) :
    ∃ fp ft fs fd c1 c2 rest,
      s = pre7 ++ (fp ++ 44 :: (ft ++ 44 :: (fs ++ 44 :: (fd ++ 42 :: c1 :: c2 :: rest)))) ∧
      fp.length = 6 ∧ ft.length = 8 ∧ fs.length = 2 ∧ fd.length = 2 * r.data.length ∧
      (fp ++ ft ++ fs ++ fd ++ [c1, c2]).all isxdigit = true ∧
      r.pgn = strtol16 fp ∧ r.ts = strtol16 ft ∧ r.src = strtol16 fs ∧ r.data = hexPairs fd ∧
      r.data.length ≤ 223 ∧
      strtol16 [c1, c2] =
        xorAll ((pre7 ++ (fp ++ 44 :: (ft ++ 44 :: (fs ++ 44 :: fd)))).drop 1) % 256 := by
  rw [importS_eq_parse] at h
  exact parse_sound (by injection h)

/-- the hypothesis of `C19_import_sound` is satisfiable: the sentence of the repository's unit test
(`$PCDIN,01F119,00000000,0F,2AAF00D1067414FF*59`) is accepted, lower case digits too -/
example : importS [36, 80, 67, 68, 73, 78, 44, 48, 49, 70, 49, 49, 57, 44, 48, 48, 48, 48, 48, 48, 48, 48, 44,
    48, 70, 44, 50, 65, 65, 70, 48, 48, 68, 49, 48, 54, 55, 52, 49, 52, 70, 70, 42, 53, 57]
    = .ok (some ⟨127257, 0, 15, [42, 175, 0, 209, 6, 116, 20, 255]⟩) := by rfl

example : importS [36, 80, 67, 68, 73, 78, 44, 48, 49, 102, 49, 49, 57, 44, 48, 48, 48, 48, 48, 48, 48, 48, 44,
    48, 102, 44, 50, 97, 97, 102, 48, 48, 100, 49, 48, 54, 55, 52, 49, 52, 102, 102, 42, 53, 57]
    = .ok (some ⟨127257, 0, 15, [42, 175, 0, 209, 6, 116, 20, 255]⟩) := by rfl

/-- a wrong checksum is rejected (`…*99`), and so is the empty string -/
example : importS [36, 80, 67, 68, 73, 78, 44, 48, 49, 70, 49, 49, 57, 44, 48, 48, 48, 48, 48, 48, 48, 48, 44,
    48, 70, 44, 50, 65, 65, 70, 48, 48, 68, 49, 48, 54, 55, 52, 49, 52, 70, 70, 42, 57, 57] = .ok none := by rfl
example : importS [] = .ok none := by rfl

/-! ## the memory model does observe the over-reads of the pinned code

`"$PCDIN"`: the pinned code compares 6 characters and then advances the pointer by 7; the `strlen` of the
next `readNHexByte` starts one byte beyond the terminator. -/
example : strncmpEq (pre7 ++ [0]) ([36, 80, 67, 68, 73, 78] ++ [0]) 6 = .ok true := by rfl
example : readNHexByte (([36, 80, 67, 68, 73, 78] ++ [0]).drop 7) 1 = .error .oob := by rfl
/-- `"$PCDIN,01F119"`: advancing by 5 over a 4-digit field that ends the string -/
example : readNHexByte (([48, 49, 70, 49, 49, 57] ++ [0]).drop (2 + 5)) 4 = .error .oob := by rfl
/-- a sentence without `*`: skipping "the `*`" that is really the terminator -/
example : readNHexByte (([50, 65] ++ [0]).drop (2 + 1)) 1 = .error .oob := by rfl

end N2k.C19
