import N2k.Model.Rx
import Driver.Util
-- engine: rx
/-! Engine `rx` (C02): runs `N2k.Rx.rx` of `Model/Rx.lean` on received frames.
ops: `reset <t32|t64> <slots> <mode> <origin>` (mode 0 = handle all, 1 = only known messages; the node is polled
     for 700 ms after construction at `origin`), `sflist <0|1> <pgn>…` / `fplist <0|1> <pgn>…` (0 = Set…, 1 = Extend…Messages),
     `t <ms>`, `rx <idhex> <len> <hex>` (incl. TP.CM RTS/BAM frames), `q` (slot dump). -/
namespace Driver.Rx
open N2k.Rx Driver

structure ES where
  cfg : Cfg
  st : St
  now : Nat

def hexNat? (s : String) : Option Nat :=
  s.toList.foldl (fun acc c => do let a ← acc; let d ← hexDigit c; some (a * 16 + d)) (some 0)

def msgStr (m : Msg) : String :=
  s!"{m.prio} {m.pgn} {m.src} {m.dst} {m.len} {hexOfBytes m.data}"

def slotStr (s : Slot) : String :=
  if s.free then "F"
  else s!"{s.pgn}.{s.src}.{s.dst}.{s.prio}.{s.lastFrame}.{s.data.length}.{s.dataLen}.{s.msgTime}{if s.tp then ".T" else ""}"

def step (es : Option ES) (w : List String) : Option ES × String :=
  match w with
  | ["reset", _fl, slots, mode, origin] =>
    match nat? slots, nat? mode, nat? origin with
    | some n, some mode, some origin =>
      (some { cfg := { knownOnly := mode == 1 }, st := init (if n = 0 then 5 else n), now := origin + 700 }, "ok")
    | _, _, _ => (es, "bad-op")
  | _ =>
  match es with
  | none => (es, "bad-op")
  | some s =>
    match w with
    | ["t", ms] => match nat? ms with
      | some k => (some { s with now := s.now + k }, "ok")
      | none => (es, "bad-op")
    | ["rx", idh, len, hx] =>
      match hexNat? idh, nat? len, hexBytes? hx with
      | some id, some len, some bytes =>
        if len > 8 || bytes.length != len then (es, "bad-op") else
        let r := rx s.cfg s.st s.now (decode id len bytes)
        (some { s with st := r.1 }, match r.2 with | some m => msgStr m | none => "-")
      | _, _, _ => (es, "bad-op")
    | "sflist" :: g :: pgns => match nat? g, pgns.mapM nat? with
      | some 0, some ps => (some { s with cfg := { s.cfg with sf0 := some ps } }, "ok")
      | some 1, some ps => (some { s with cfg := { s.cfg with sf1 := some ps } }, "ok")
      | _, _ => (es, "bad-op")
    | "fplist" :: g :: pgns => match nat? g, pgns.mapM nat? with
      | some 0, some ps => (some { s with cfg := { s.cfg with fp0 := some ps } }, "ok")
      | some 1, some ps => (some { s with cfg := { s.cfg with fp1 := some ps } }, "ok")
      | _, _ => (es, "bad-op")
    | ["q"] => (es, " ".intercalate ((List.range s.st.N).map fun i => slotStr (s.st.slot i)))
    | _ => (es, "bad-op")

def main : IO Unit := loop step none

end Driver.Rx
