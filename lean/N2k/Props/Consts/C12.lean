import N2k.Gen.Constants
import N2k.Spec.Constants
/-! C12 — the source constants its model copies have the values the model and the property statement assume.
`N2k.Gen.Const.*` is regenerated from /repo/src on every run (tools/translators/constants.py); a changed constant breaks
the obligation below. -/
namespace N2k.C12.Consts

theorem C12_const_heartbeatDefaultIntervalMs : N2k.Gen.Const.heartbeatDefaultIntervalMs = N2k.Spec.Const.heartbeatDefaultIntervalMs := by decide

end N2k.C12.Consts
