import N2k.Spec.Queues
/-!
# Model of `src/RingBuffer.h` / `src/RingBuffer.tpp`

Transcribes `tRingBuffer<T>` and `tPriorityRingBuffer<T>` (T = an integer payload).
C++ arrays are `Nat → α` with function update; `new T[size]` leaves slots uninitialised, so the
initial contents are a parameter. `INVALID_RING_REF` / `INVALID_PRIORITY` are `none`.

Transcription map
* `tRingBuffer::tRingBuffer`      → `RB.new`      (size < 3 ↦ 3)
* `isEmpty/clear/count/add/read/getAddRef/getReadRef/peek` → same names (`getAddRef`+store = `add`,
  `getReadRef` = `read`)
* `tPriorityRingBuffer::tPriorityRingBuffer` → `PRB.new` (size < 3 ↦ 3, priorities 0 ↦ 1, 255 ↦ 254)
* `getAddRef(p)`+store → `add`, `getReadRef(p)` → `readP`, `getReadRef(uint8_t*)` / `read` → `readAny`
-/
namespace N2k.Ring
open N2k.Spec (Op Out)

/-! ## plain ring buffer -/

structure RB where
  n : Nat
  head : Nat
  tail : Nat
  buf : Nat → Nat

def RB.new (size : Nat) (buf0 : Nat → Nat) : RB :=
  { n := if size < 3 then 3 else size, head := 0, tail := 0, buf := buf0 }

def RB.isEmpty (r : RB) : Bool := r.head == r.tail

def RB.clear (r : RB) : RB := { r with head := 0, tail := 0 }

/-- `int32_t entries = head - tail; if (entries<0) entries += size;` -/
def RB.count (r : RB) : Nat := if r.head < r.tail then r.head + r.n - r.tail else r.head - r.tail

def RB.add (r : RB) (v : Nat) : RB × Bool :=
  let nextEntry := (r.head + 1) % r.n
  if nextEntry = r.tail then (r, false)
  else ({ r with buf := fun j => if j = r.head then v else r.buf j, head := nextEntry }, true)

def RB.read (r : RB) : RB × Option Nat :=
  if r.head = r.tail then (r, none)
  else ({ r with tail := (r.tail + 1) % r.n }, some (r.buf r.tail))

def RB.peek (r : RB) : Option Nat := if r.head = r.tail then none else some (r.buf r.tail)

/-! ## priority ring buffer -/

structure Slot where
  val : Nat
  next : Option Nat      -- INVALID_RING_REF = none
  prio : Option Nat      -- INVALID_PRIORITY = none

structure PRB where
  n : Nat                 -- size (≥ 3 after constructor clamp)
  P : Nat                 -- maxPriorities (1..254)
  head : Nat
  tail : Nat
  slot : Nat → Slot       -- arbitrary initial contents: `new tValueSlot[size]` is uninitialised
  refNext : Nat → Option Nat
  refLast : Nat → Option Nat

def PRB.new (size prios : Nat) (slot0 : Nat → Slot) : PRB :=
  { n := if size < 3 then 3 else size
    P := if prios < 1 then 1 else if prios = 255 then 254 else prios
    head := 0, tail := 0, slot := slot0
    refNext := fun _ => none, refLast := fun _ => none }

def clampP (r : PRB) (p : Nat) : Nat := if p ≥ r.P then r.P - 1 else p

def PRB.isEmpty (r : PRB) (p : Nat) : Bool :=
  if p ≥ r.P then r.head == r.tail else (r.refNext p).isNone

def PRB.clear (r : PRB) : PRB :=
  { r with head := 0, tail := 0, refNext := fun _ => none, refLast := fun _ => none }

def PRB.count (r : PRB) : Nat := if r.head < r.tail then r.head + r.n - r.tail else r.head - r.tail

/-- getAddRef + store (add) -/
def add (r : PRB) (v p : Nat) : PRB × Bool :=
  let p := clampP r p
  let nextEntry := (r.head + 1) % r.n
  if nextEntry = r.tail then (r, false) else
  let s0 : Nat → Slot := fun j => if j = r.head then ⟨v, none, some p⟩ else r.slot j
  let (rn, s1) : (Nat → Option Nat) × (Nat → Slot) :=
    match r.refNext p with
    | none => (fun q => if q = p then some r.head else r.refNext q, s0)
    | some _ =>
      match r.refLast p with
      | some l => (r.refNext, fun j => if j = l then { s0 j with next := some r.head } else s0 j)
      | none => (r.refNext, s0)   -- unreachable under the invariant; C++ would index with 0xFFFF
  ({ r with slot := s1, refNext := rn,
            refLast := fun q => if q = p then some r.head else r.refLast q,
            head := nextEntry }, true)

/-- the tail-advance loop:
`for (tail=(tail+1)%size; tail!=head && buffer[tail].priority==INVALID; tail=(tail+1)%size)` -/
def advance (n head : Nat) (slot : Nat → Slot) : Nat → Nat → Nat
  | 0, t => t
  | fuel+1, t => if t ≠ head ∧ (slot t).prio = none then advance n head slot fuel ((t + 1) % n) else t

/-- getReadRef(priority) -/
def readP (r : PRB) (p : Nat) : PRB × Option Nat :=
  let p := clampP r p
  match r.refNext p with
  | none => (r, none)
  | some ref =>
    let nx := (r.slot ref).next
    let rn := fun q => if q = p then nx else r.refNext q
    let rl := fun q => if q = p then (if nx = none then none else r.refLast p) else r.refLast q
    let tail' := if ref = r.tail then advance r.n r.head r.slot r.n ((r.tail + 1) % r.n) else r.tail
    let s' := fun j => if j = ref then { r.slot j with next := none, prio := none } else r.slot j
    ({ r with refNext := rn, refLast := rl, tail := tail', slot := s' }, some (r.slot ref).val)

/-- getReadRef(uint8_t *priority): lowest non-empty priority; `k` = priorities still to scan -/
def firstNonEmpty (r : PRB) : Nat → Nat → Option Nat
  | 0, _ => none
  | k+1, p => if (r.refNext p).isSome then some p else firstNonEmpty r k (p + 1)

def readAny (r : PRB) : PRB × Option (Nat × Nat) :=
  match firstNonEmpty r r.P 0 with
  | none => (r, none)
  | some p => match readP r p with
    | (r', some v) => (r', some (v, p))
    | (r', none) => (r', none)

/-! ## step functions (what the driver executes and the theorems quantify over) -/

/-- plain ring, implementation model -/
def stepRB (r : RB) : Op → RB × Out
  | .add v _ => ((r.add v).1, .bool (r.add v).2)
  | .readP _ => (r, .unit)
  | .read => (r.read.1, .val r.read.2)
  | .peek => (r, .val r.peek)
  | .clear => (r.clear, .unit)
  | .count => (r, .num r.count)
  | .empty _ => (r, .bool r.isEmpty)

/-- priority ring, implementation model -/
def stepPRB (r : PRB) : Op → PRB × Out
  | .add v p => ((add r v p).1, .bool (add r v p).2)
  | .readP p => ((readP r p).1, .val (readP r p).2)
  | .read => ((readAny r).1, .valp (readAny r).2)
  | .peek => (r, .unit)
  | .clear => (r.clear, .unit)
  | .count => (r, .num r.count)
  | .empty p => (r, .bool (r.isEmpty p))


end N2k.Ring
