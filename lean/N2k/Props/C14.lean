import N2k.Lemmas.HandlersRx
/-!
# C14 — each received message reaches every matching handler exactly once

Model: `N2k/Model/Handlers.lean` (heap of `tMsgHandler` objects with `PGN`, `pNMEA2000`, `pNext`; per-bus `MsgHandlers`
head pointer; `AttachMsgHandler`/`DetachMsgHandler`/destructor/`RunMessageHandlers` as pointer code with faults).
Specification: `N2k/Spec/Handlers.lean` (`specRun`: per handler only "alive, PGN, bus it was last attached to").

`run` executes a client history; an operation on a dead object (which C++ does not allow) is skipped, every other
operation is executed by the pointer code.  All theorems hold for EVERY history `ops : List Op`, i.e. any number of
handler objects and bus objects, construction with or without the attaching constructor, re-attaching an attached
handler, attaching to another bus while attached, detaching twice, destroying while attached, re-using the address
of a destroyed handler.
-/
namespace N2k.C14
open N2k.Handlers

/-- After ANY history the pointer code has not faulted (no dead object dereferenced, every pointer walk terminated)
and the handler list of every bus object is well formed: following `pNext` from `MsgHandlers` reaches the null
pointer after visiting a duplicate-free list `l` of live objects (so the chain is acyclic) that consists of exactly
the live handlers whose `pNMEA2000` is that bus, in ascending PGN order (handlers for all PGNs, PGN 0, first);
a handler that is attached nowhere has `pNext = 0`. -/
theorem C14_list_invariant (ops : List Op) :
    ∃ w, run World.init ops = some w ∧
      (∀ b, ∃ l, Seg w (w.head b) l none ∧ l.Nodup ∧
        (∀ i, i ∈ l ↔ ∃ o, w.obj i = some o ∧ o.owner = some b) ∧
        l.Pairwise (fun i j => pgnOf w i ≤ pgnOf w j)) ∧
      (∀ i o, w.obj i = some o → o.owner = none → o.next = none) := by
  obtain ⟨w, hr, hi, _⟩ := run_ok ops inv_init
  refine ⟨w, hr, ?_, hi.free⟩
  intro b
  obtain ⟨l, hb⟩ := hi.bus b
  refine ⟨l, hb.chain, hb.nodup, ?_, hb.sorted⟩
  intro i
  rw [hb.mem i]
  constructor
  · exact ownerOf_some
  · rintro ⟨o, ho, hob⟩; rw [ownerOf_eq ho]; exact hob

/-- The members `PGN` and `pNMEA2000` of the live handler objects are, after any history, what the history
specification says: a handler is on the bus it was last attached to (by `AttachMsgHandler` or the attaching
constructor) unless it was detached or destroyed since; the plain callback is the one last set. -/
theorem C14_attached_where_specified (ops : List Op) :
    ∃ w, run World.init ops = some w ∧
      (∀ i, (w.obj i).map (fun o => (o.pgn, o.owner)) = (specRun SpecSt.init ops).h i) ∧
      w.cb = (specRun SpecSt.init ops).cb := by
  obtain ⟨w, hr, _, hv⟩ := run_ok ops inv_init
  rw [view_init] at hv
  refine ⟨w, hr, ?_, ?_⟩
  · intro i; rw [← hv]; rfl
  · rw [← hv]; rfl

/-- `RunMessageHandlers` after any history, for a message with PGN `pgn` on bus `bus`: no fault; the plain callback
runs exactly once iff one is set; `HandleMsg` runs for a duplicate-free list of handlers, and a handler is in that
list iff the history specification says it is alive, attached to `bus` and registered for PGN 0 or for `pgn`
(each matching handler exactly once, no other handler, no handler of the other bus objects). -/
theorem C14_dispatch_exact (ops : List Op) (bus : BusId) (pgn : Nat) :
    ∃ w l, run World.init ops = some w ∧
      dispatch w bus pgn = some (if (specRun SpecSt.init ops).cb bus then 1 else 0, l) ∧
      l.Nodup ∧ ∀ i, i ∈ l ↔ (specRun SpecSt.init ops).matching bus pgn i := by
  obtain ⟨w, hr, hi, hv⟩ := run_ok ops inv_init
  rw [view_init] at hv
  obtain ⟨l, hd, hn, hm, _⟩ := dispatch_ok hi bus pgn
  refine ⟨w, l, hr, ?_, hn, ?_⟩
  · rw [hd, ← hv]; rfl
  · intro i; rw [hm i, hv]

/-- END TO END over histories of client operations and RECEIVED FRAMES, on any number of bus objects, any receive
configuration `c` and any initial content `rx0` of the receive slots.  `nodeRun` = per frame the receive path of C02
(`N2k.Rx.rx`: `SetN2kCANBufMsg` for single frames, fast packets of any number of interleaved senders, TP.CM/TP.DT frames)
followed by `RunMessageHandlers` for the message it completes.  For EVERY history: no fault, and event by event
(`CallsAgree`): an event that completes no message (client operation, fast-packet fragment, damaged or orphan frame, TP.CM,
TP.DT, frame refused by the known-message gate) causes NO call of the callback or of any handler; an event that completes
message `m` on bus `b` causes exactly one call, with exactly `m`, the plain callback once iff set, and `HandleMsg` of a
duplicate-free list of handlers that is exactly the set the history specification says is attached to `b` and registered
for PGN 0 or `m.pgn` at that moment, the all-PGN handlers first.  Whether the library consumes `m` itself (ISO request,
address claim, group function) plays no role.
PARTIAL in exactly one respect: the reassembly of a transport-protocol payload from TP.DT packets is the receiver of C10
(`N2k.TP`, a different state space, not composed here); its completion is the INPUT event `Ev.tpDone b m`, for which the
same exactness is proved.  Everything else (which frames complete which message) is computed by the C02 model. -/
theorem C14_what_is_dispatched_partial (c : BusId → Rx.Cfg) (rx0 : BusId → Rx.St) (evs : List Ev) :
    ∃ n calls, nodeRun c ⟨World.init, rx0⟩ evs = some (n, calls) ∧
      CallsAgree calls (expected c SpecSt.init rx0 evs) := by
  obtain ⟨n, calls, hr, _, hc⟩ := nodeRun_ok c evs ⟨World.init, rx0⟩ inv_init
  exact ⟨n, calls, hr, hc⟩

/-- A transport-protocol control (60416) or data (60160) frame itself is never passed to the callback or to a handler,
in any state of the node. -/
theorem C14_transport_frames_not_dispatched (c : BusId → Rx.Cfg) (n : Node) (b : BusId) (now : Nat) (f : Rx.Frame)
    (h : f.pgn = 60416 ∨ f.pgn = 60160) :
    ∃ n', nodeStep c n (.frame b now f) = some (n', none) := by
  have hh : Rx.handled (c b) f = false := by
    rcases h with h | h <;> simp [Rx.handled, Rx.isTP, h]
  have h2 : (Rx.rx (c b) (n.rx b) now f).2 = none := by
    unfold Rx.rx; rw [hh]; simp only [Bool.false_eq_true, if_false]; split <;> rfl
  refine ⟨⟨n.w, (rxTrack c n.rx (.frame b now f)).1⟩, ?_⟩
  simp [nodeStep, rxTrack, h2]

example : ∃ f : Rx.Frame, f.pgn = 60416 ∨ f.pgn = 60160 := ⟨⟨7, 60416, 1, 255, 8, [32, 9, 0, 2, 255, 5, 248, 1]⟩, Or.inl rfl⟩

/-! Non-vacuity: the theorems have no hypotheses; the examples show the model doing what the statements talk about. -/

/-- handlers 0 (all PGNs), 1 and 2 (PGN 5), 3 (PGN 9) attached to bus 0 in an awkward order, 1 then moved to bus 1,
3 destroyed while attached, its address re-used for a PGN-5 handler constructed onto bus 0 -/
def demoOps : List Op :=
  [.new 0 0 none, .new 1 5 none, .new 2 5 none, .new 3 9 (some 0), .attach 2 0, .attach 1 0, .attach 0 0,
   .attach 0 0, .attach 1 1, .destroy 3, .new 3 5 (some 0), .cb 0 true, .detach 2, .attach 2 0]

example : (run World.init demoOps).bind (fun w => dispatch w 0 5) = some (1, [0, 2, 3]) := by decide
example : (run World.init demoOps).bind (fun w => dispatch w 1 5) = some (0, [1]) := by decide
example : (run World.init demoOps).bind (fun w => dispatch w 0 9) = some (1, [0]) := by decide
example : (specRun SpecSt.init demoOps).matching 0 5 2 := ⟨5, by decide, Or.inr rfl⟩
example : ¬ (specRun SpecSt.init demoOps).matching 0 5 1 := by
  rintro ⟨p, h, _⟩
  have : (specRun SpecSt.init demoOps).h 1 = some (5, some 1) := by decide
  rw [this] at h; cases h

/-- two fast-packet senders (sources 1 and 2, PGN 129029, 10 bytes = 2 frames each) interleaved frame by frame on bus 0;
handler 0 (all PGNs) and handler 1 (PGN 129029) are attached to bus 0, handler 2 (PGN 130306) too, handler 3 (all PGNs)
to bus 1.  The two first frames and the lone TP.DT frame cause no call; each last frame causes one call with the
reassembled message of its sender to handlers 0 and 1. -/
def demoEvs : List Ev :=
  [.op (.new 1 129029 (some 0)), .op (.new 0 0 (some 0)), .op (.new 2 130306 (some 0)), .op (.new 3 0 (some 1)),
   .frame 0 1000 ⟨6, 129029, 1, 255, 8, [0, 10, 1, 2, 3, 4, 5, 6]⟩,
   .frame 0 1001 ⟨6, 129029, 2, 255, 8, [64, 10, 21, 22, 23, 24, 25, 26]⟩,
   .frame 0 1002 ⟨7, 60160, 9, 255, 8, [1, 1, 2, 3, 4, 5, 6, 7]⟩,
   .frame 0 1003 ⟨6, 129029, 1, 255, 8, [1, 7, 8, 9, 10, 255, 255, 255]⟩,
   .frame 0 1004 ⟨6, 129029, 2, 255, 8, [65, 27, 28, 29, 30, 255, 255, 255]⟩]

example : (nodeRun (fun _ => {}) ⟨World.init, fun _ => Rx.init 5⟩ demoEvs).map (·.2) =
    some [none, none, none, none, none, none, none,
      some ⟨0, ⟨6, 129029, 1, 255, 10, [1, 2, 3, 4, 5, 6, 7, 8, 9, 10]⟩, 0, [0, 1]⟩,
      some ⟨0, ⟨6, 129029, 2, 255, 10, [21, 22, 23, 24, 25, 26, 27, 28, 29, 30]⟩, 0, [0, 1]⟩] := by decide +kernel

end N2k.C14
