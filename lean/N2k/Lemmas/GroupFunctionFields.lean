import N2k.Lemmas.GroupFunctionDispatch
import N2k.Spec.GroupFunction
/-! Per-field matching of the dedicated request handlers on well-formed requests (C09). -/
namespace N2k.GF
open N2k.Send N2k.GFSpec

/-! ## bytes at a position of a message -/

/-- the bytes `bs` are in the message at `idx`, inside its length -/
def At (m : Msg) (idx : Nat) (bs : List Nat) : Prop :=
  ∃ pre post, m.data = pre ++ bs ++ post ∧ pre.length = idx ∧ idx + bs.length ≤ m.len

theorem getD_mid (pre bs post : List Nat) (j : Nat) (h : j < bs.length) :
    (pre ++ bs ++ post).getD (pre.length + j) 0 = bs.getD j 0 := by
  rw [List.append_assoc, List.getD_eq_getElem?_getD, List.getD_eq_getElem?_getD,
    List.getElem?_append_right (by omega), List.getElem?_append_left (by omega)]
  congr 2; omega

theorem At.getD {m : Msg} {idx : Nat} {bs : List Nat} (h : At m idx bs) (j : Nat) (hj : j < bs.length) :
    m.data.getD (idx + j) 0 = bs.getD j 0 := by
  obtain ⟨pre, post, hd, hl, _⟩ := h
  rw [hd, ← hl]; exact getD_mid pre bs post j hj

theorem At.le {m : Msg} {idx : Nat} {bs : List Nat} (h : At m idx bs) : idx + bs.length ≤ m.len := by
  obtain ⟨_, _, _, _, hle⟩ := h; exact hle

theorem At.left {m : Msg} {idx : Nat} {xs ys : List Nat} (h : At m idx (xs ++ ys)) : At m idx xs := by
  obtain ⟨pre, post, hd, hl, hle⟩ := h
  refine ⟨pre, ys ++ post, by rw [hd]; simp, hl, ?_⟩
  simp at hle; omega

theorem At.right {m : Msg} {idx : Nat} {xs ys : List Nat} (h : At m idx (xs ++ ys)) : At m (idx + xs.length) ys := by
  obtain ⟨pre, post, hd, hl, hle⟩ := h
  refine ⟨pre ++ xs, post, by rw [hd]; simp, by simp [hl], ?_⟩
  simp at hle; omega

theorem At.tail {m : Msg} {idx b : Nat} {bs : List Nat} (h : At m idx (b :: bs)) : At m (idx + 1) bs :=
  At.right (xs := [b]) h

theorem At.getByte {m : Msg} {idx b : Nat} {bs : List Nat} (h : At m idx (b :: bs)) : getByte m idx = (b, idx + 1) := by
  unfold N2k.GF.getByte
  have hle := h.le; simp at hle
  rw [if_pos (by omega)]
  have := h.getD 0 (by simp)
  simp only [Nat.add_zero, List.getD_cons_zero] at this; rw [this]

theorem At.get2 {m : Msg} {idx b0 b1 : Nat} {bs : List Nat} (h : At m idx (b0 :: b1 :: bs)) :
    get2 m idx = (b0 + 256 * b1, idx + 2) := by
  unfold N2k.GF.get2
  have hle := h.le; simp at hle
  rw [if_pos (by omega)]
  have h0 := h.getD 0 (by simp)
  have h1 := h.getD 1 (by simp)
  simp only [Nat.add_zero, List.getD_cons_zero, List.getD_cons_succ] at h0 h1; rw [h0, h1]

theorem At.get3 {m : Msg} {idx b0 b1 b2 : Nat} {bs : List Nat} (h : At m idx (b0 :: b1 :: b2 :: bs)) :
    get3 m idx = (b0 + 256 * b1 + 65536 * b2, idx + 3) := by
  unfold N2k.GF.get3
  have hle := h.le; simp at hle
  rw [if_pos (by omega)]
  have h0 := h.getD 0 (by simp)
  have h1 := h.getD 1 (by simp)
  have h2 := h.getD 2 (by simp)
  simp only [Nat.add_zero, List.getD_cons_zero, List.getD_cons_succ] at h0 h1 h2; rw [h0, h1, h2]

theorem At.get4 {m : Msg} {idx b0 b1 b2 b3 : Nat} {bs : List Nat} (h : At m idx (b0 :: b1 :: b2 :: b3 :: bs)) :
    get4 m idx = (b0 + 256 * b1 + 65536 * b2 + 16777216 * b3, idx + 4) := by
  unfold N2k.GF.get4
  have hle := h.le; simp at hle
  rw [if_pos (by omega)]
  have h0 := h.getD 0 (by simp)
  have h1 := h.getD 1 (by simp)
  have h2 := h.getD 2 (by simp)
  have h3 := h.getD 3 (by simp)
  simp only [Nat.add_zero, List.getD_cons_zero, List.getD_cons_succ] at h0 h1 h2 h3; rw [h0, h1, h2, h3]

theorem At.bytesAt {m : Msg} {idx : Nat} {bs : List Nat} (h : At m idx bs) : bytesAt m idx bs.length = bs := by
  apply List.ext_getElem (by simp [N2k.GF.bytesAt])
  intro j h1 h2
  simp only [N2k.GF.bytesAt, List.getElem_map, List.getElem_range]
  rw [h.getD j h2, List.getD_eq_getElem?_getD, List.getElem?_eq_getElem h2]; rfl

/-- a message whose payload starts with `hdr ++ body` -/
theorem at_body {m : Msg} {hdr body junk : List Nat} (hd : m.data = hdr ++ body ++ junk)
    (hl : m.len = hdr.length + body.length) : At m hdr.length body :=
  ⟨hdr, junk, hd, rfl, by omega⟩

theorem at_header {m : Msg} {hdr body junk : List Nat} (hd : m.data = hdr ++ body ++ junk)
    (hl : m.len = hdr.length + body.length) : At m 0 hdr :=
  ⟨[], body ++ junk, by rw [hd]; simp, rfl, by omega⟩

/-! ## strings -/

theorem takeWhile_all {p : Nat → Bool} : ∀ {s : List Nat}, (∀ c ∈ s, p c = true) → s.takeWhile p = s
  | [], _ => rfl
  | c :: s, h => by
    rw [List.takeWhile_cons, if_pos (h c (by simp))]
    rw [takeWhile_all (fun x hx => h x (by simp [hx]))]

theorem takeWhile_fix (s : List Nat) (k : Nat) (hs : ∀ c ∈ s, c ≠ 0 ∧ c ≠ 0xff) :
    (s ++ List.replicate k 0xff).takeWhile (fun b => decide (b ≠ 0 ∧ b ≠ 0xff)) = s := by
  have h1 : s.takeWhile (fun b => decide (b ≠ 0 ∧ b ≠ 0xff)) = s :=
    takeWhile_all (fun c hc => by simpa using hs c hc)
  rw [List.takeWhile_append, h1, if_pos rfl, List.takeWhile_replicate]
  simp

/-- `GetStr` on a 0xff-padded field returns the characters -/
theorem getStrN_fix {m : Msg} {idx : Nat} {s : List Nat} {k bufSize : Nat} (h : At m idx (s ++ List.replicate k 0xff))
    (hs : ∀ c ∈ s, c ≠ 0 ∧ c ≠ 0xff) (hb : s.length + k ≤ bufSize - 1) :
    getStrN m bufSize (s.length + k) 0xff idx = (s, idx + (s.length + k), true) := by
  unfold getStrN
  have hle := h.le; simp at hle
  rw [if_pos (by omega)]
  have hb' := h.bytesAt
  simp only [List.length_append, List.length_replicate] at hb'
  rw [hb', List.take_of_length_le (by simp; omega), takeWhile_fix s k hs]

theorem fixStr_length {s : List Nat} {n : Nat} (h : s.length ≤ n) : (fixStr s n).length = n := by
  simp [fixStr]; omega

theorem cstr_of_ok {s : List Nat} (hs : ∀ c ∈ s, c ≠ 0 ∧ c ≠ 0xff) : cstr s = s :=
  takeWhile_all (fun c hc => by simpa using (hs c hc).1)

/-- `GetVarStr` on a well-formed ASCII variable string returns the characters -/
theorem getVarStr_ok {m : Msg} {idx : Nat} {s : List Nat} (h : At m idx (varStr s)) (hs : StrOK s 70) :
    getVarStr m idx = (s, idx + (2 + s.length)) := by
  unfold varStr at h
  have hl := h.getByte
  have ht := h.tail.getByte
  have hle := h.le
  unfold getVarStr
  simp only [hl, ht]
  cases s with
  | nil => simp
  | cons c r =>
    have hlen := hs.1
    have hchars := hs.2
    simp only [List.length_cons, List.length_append, List.length_nil] at hle hlen ⊢
    have hat : At m (idx + 1 + 1) ((c :: r) ++ List.replicate 0 0xff) := by simpa using h.tail.tail
    have hg := getStrN_fix (bufSize := 71) hat hchars (by simp; omega)
    simp only [Nat.add_zero, List.length_cons] at hg
    have c1 : ¬ (r.length + 1 + 2 ≤ 2 ∨ r.length + 1 + 2 = 255 ∨ 1 > 1 ∨ idx + 1 + 1 ≥ m.len) := by omega
    have c2 : ¬ (r.length + 1 + (idx + 1 + 1) > m.len) := by omega
    have e : r.length + 1 + 2 - 2 = r.length + 1 := by omega
    rw [if_neg c1]
    simp only [e, if_neg c2, hg, if_true]
    refine Prod.ext rfl ?_
    simp only []; omega

/-! ## the request loop on well-formed pairs -/

/-- starting at `idx` the message holds pairs that `step` consumes completely; the list gives, pair by pair,
the size of the pair and whether the field matches -/
inductive Pairs (step : Step) (m : Msg) : Nat → List (Nat × Bool) → Prop
  | nil (idx : Nat) : Pairs step m idx []
  | cons (idx n : Nat) (ok : Bool) (rest : List (Nat × Bool))
      (hstep : ∀ mf aux, (step m idx mf aux).idx = idx + n ∧ (step m idx mf aux).mf = (mf && ok) ∧ (step m idx mf aux).invalid = false)
      (hrest : Pairs step m (idx + n) rest) : Pairs step m idx ((n, ok) :: rest)

/-- index after the pairs -/
def endIdx (idx : Nat) (oks : List (Nat × Bool)) : Nat := idx + (oks.map (·.1)).sum

theorem reqLoop_step (step : Step) (m : Msg) (n i idx : Nat) (mf : Bool) (aux : Nat) (ack : List Nat) :
    reqLoop step m false (n + 1) i idx mf false aux ack =
      reqLoop step m false n (i + 1) (step m idx mf aux).idx (step m idx mf aux).mf (step m idx mf aux).invalid
        (step m idx mf aux).aux (addAckParam ack i (step m idx mf aux).ec) := by
  rw [reqLoop]; simp

/-- the loop over well-formed pairs followed by `n2` more: the first part ends at `endIdx` with the filter equal
to the conjunction of the matches and no invalid field seen -/
theorem reqLoop_pairs_add {step : Step} {m : Msg} {idx : Nat} {oks : List (Nat × Bool)} (hp : Pairs step m idx oks) (n2 : Nat) :
    ∀ (i : Nat) (mf : Bool) (aux : Nat) (ack : List Nat),
      reqLoop step m false (oks.length + n2) i idx mf false aux ack =
        reqLoop step m false n2 (i + oks.length) (endIdx idx oks) (mf && oks.all (·.2)) false
          (reqLoop step m false oks.length i idx mf false aux ack).2.1
          (reqLoop step m false oks.length i idx mf false aux ack).2.2 := by
  induction hp with
  | nil idx => intro i mf aux ack; simp [reqLoop, endIdx]
  | cons idx n ok rest hstep _ ih =>
    intro i mf aux ack
    obtain ⟨h1, h2, h3⟩ := hstep mf aux
    simp only [List.length_cons]
    rw [Nat.add_right_comm, reqLoop_step, reqLoop_step step m rest.length]
    simp only [h1, h2, h3]
    rw [ih]
    simp [endIdx, Bool.and_assoc, Nat.add_assoc, Nat.add_comm 1 rest.length]

theorem reqLoop_pairs {step : Step} {m : Msg} {idx : Nat} {oks : List (Nat × Bool)} (hp : Pairs step m idx oks) :
    ∀ (i : Nat) (mf : Bool) (aux : Nat) (ack : List Nat),
      (reqLoop step m false oks.length i idx mf false aux ack).1 = (mf && oks.all (·.2)) := by
  intro i mf aux ack
  have := reqLoop_pairs_add hp 0 i mf aux ack
  rw [Nat.add_zero] at this
  rw [this]; simp [reqLoop]

theorem matchNum_facts (v : Nat × Nat) (cur mask : Nat) (mf : Bool) (aux : Nat) :
    (matchNum v cur mask mf aux).idx = v.2 ∧ (matchNum v cur mask mf aux).mf = (mf && decide (v.1 &&& mask = cur))
      ∧ (matchNum v cur mask mf aux).invalid = false := by
  unfold matchNum
  by_cases h : v.1 &&& mask ≠ cur
  · rw [if_pos h]; simp [h]
  · rw [if_neg h]; simp at h; simp [h]

theorem matchStr_facts (q : List Nat) (idx : Nat) (cur : List Nat) (mf : Bool) (aux : Nat) :
    (matchStr q idx cur mf aux).idx = idx ∧ (matchStr q idx cur mf aux).mf = (mf && decide (q = cur))
      ∧ (matchStr q idx cur mf aux).invalid = false := ⟨rfl, rfl, rfl⟩

theorem and_mask21 (x : Nat) : x &&& 0x1fffff = x % 2097152 := Nat.and_two_pow_sub_one_eq_mod x 21
theorem and_mask16 (x : Nat) : x &&& 0xffff = x % 65536 := Nat.and_two_pow_sub_one_eq_mod x 16
theorem and_mask11 (x : Nat) : x &&& 0x07ff = x % 2048 := Nat.and_two_pow_sub_one_eq_mod x 11
theorem and_mask8 (x : Nat) : x &&& 0xff = x % 256 := Nat.and_two_pow_sub_one_eq_mod x 8
theorem and_mask7 (x : Nat) : x &&& 0x7f = x % 128 := Nat.and_two_pow_sub_one_eq_mod x 7
theorem and_mask5 (x : Nat) : x &&& 0x1f = x % 32 := Nat.and_two_pow_sub_one_eq_mod x 5
theorem and_mask4 (x : Nat) : x &&& 0x0f = x % 16 := Nat.and_two_pow_sub_one_eq_mod x 4
theorem and_mask3 (x : Nat) : x &&& 0x07 = x % 8 := Nat.and_two_pow_sub_one_eq_mod x 3

/-! ## PGN 60928 -/

/-- the selection field equals the device's value of that attribute (the field's bits of the transmitted value) -/
def ok60928 (a : Attr) : Sel60928 → Bool
  | .uniqueNumber b0 b1 b2 => decide ((b0 + 256 * b1 + 65536 * b2) % 2097152 = a.uniqueNumber)
  | .manufacturerCode b0 b1 => decide ((b0 + 256 * b1) % 2048 = a.manufacturerCode)
  | .instanceLower b => decide (b % 8 = a.lower)
  | .instanceUpper b => decide (b % 32 = a.upper)
  | .deviceFunction b => decide (b % 256 = a.deviceFunction)
  | .reserved _ => true
  | .deviceClass b => decide (b % 128 = a.deviceClass)
  | .systemInstance b => decide (b % 16 = a.systemInstance)
  | .industryGroup b => decide (b % 8 = a.industryGroup)
  | .selfConfigurable _ => true

theorem step60928_sel (a : Attr) (m : Msg) (idx : Nat) (s : Sel60928) (h : At m idx s.enc) (mf : Bool) (aux : Nat) :
    (step60928 a m idx mf aux).idx = idx + s.enc.length ∧ (step60928 a m idx mf aux).mf = (mf && ok60928 a s)
      ∧ (step60928 a m idx mf aux).invalid = false := by
  cases s with
  | uniqueNumber b0 b1 b2 =>
    have hf := h.getByte; have hv := h.tail.get3
    unfold step60928; simp only [hf]
    have := matchNum_facts (get3 m (idx + 1)) a.uniqueNumber 0x1fffff mf aux
    rw [hv] at this ⊢; simp only [and_mask21] at this
    simpa [Sel60928.enc, ok60928, Nat.add_assoc] using this
  | manufacturerCode b0 b1 =>
    have hf := h.getByte; have hv := h.tail.get2
    unfold step60928; simp only [hf]
    have := matchNum_facts (get2 m (idx + 1)) a.manufacturerCode 0x07ff mf aux
    rw [hv] at this ⊢; simp only [and_mask11] at this
    simpa [Sel60928.enc, ok60928, Nat.add_assoc] using this
  | instanceLower b =>
    have hf := h.getByte; have hv := h.tail.getByte
    unfold step60928; simp only [hf]
    have := matchNum_facts (getByte m (idx + 1)) a.lower 0x07 mf aux
    rw [hv] at this ⊢; simp only [and_mask3] at this
    simpa [Sel60928.enc, ok60928, Nat.add_assoc] using this
  | instanceUpper b =>
    have hf := h.getByte; have hv := h.tail.getByte
    unfold step60928; simp only [hf]
    have := matchNum_facts (getByte m (idx + 1)) a.upper 0x1f mf aux
    rw [hv] at this ⊢; simp only [and_mask5] at this
    simpa [Sel60928.enc, ok60928, Nat.add_assoc] using this
  | deviceFunction b =>
    have hf := h.getByte; have hv := h.tail.getByte
    unfold step60928; simp only [hf]
    have := matchNum_facts (getByte m (idx + 1)) a.deviceFunction 0xff mf aux
    rw [hv] at this ⊢; simp only [and_mask8] at this
    simpa [Sel60928.enc, ok60928, Nat.add_assoc] using this
  | reserved b =>
    have hf := h.getByte; have hv := h.tail.getByte
    unfold step60928; simp only [hf]
    rw [hv]; simp [Sel60928.enc, ok60928, Nat.add_assoc]
  | deviceClass b =>
    have hf := h.getByte; have hv := h.tail.getByte
    unfold step60928; simp only [hf]
    have := matchNum_facts (getByte m (idx + 1)) a.deviceClass 0x7f mf aux
    rw [hv] at this ⊢; simp only [and_mask7] at this
    simpa [Sel60928.enc, ok60928, Nat.add_assoc] using this
  | systemInstance b =>
    have hf := h.getByte; have hv := h.tail.getByte
    unfold step60928; simp only [hf]
    have := matchNum_facts (getByte m (idx + 1)) a.systemInstance 0x0f mf aux
    rw [hv] at this ⊢; simp only [and_mask4] at this
    simpa [Sel60928.enc, ok60928, Nat.add_assoc] using this
  | industryGroup b =>
    have hf := h.getByte; have hv := h.tail.getByte
    unfold step60928; simp only [hf]
    have := matchNum_facts (getByte m (idx + 1)) a.industryGroup 0x07 mf aux
    rw [hv] at this ⊢; simp only [and_mask3] at this
    simpa [Sel60928.enc, ok60928, Nat.add_assoc] using this
  | selfConfigurable b =>
    have hf := h.getByte; have hv := h.tail.getByte
    unfold step60928; simp only [hf]
    rw [hv]; simp [Sel60928.enc, ok60928, Nat.add_assoc]

/-- generic: a list of selection fields laid out one after the other is consumed pair by pair -/
theorem pairs_of_sels {σ : Type} (step : Step) (m : Msg) (enc : σ → List Nat) (ok : σ → Bool) (wf : σ → Prop)
    (hstep : ∀ idx s, wf s → At m idx (enc s) → ∀ mf aux, (step m idx mf aux).idx = idx + (enc s).length
      ∧ (step m idx mf aux).mf = (mf && ok s) ∧ (step m idx mf aux).invalid = false) :
    ∀ (sels : List σ) (idx : Nat), (∀ s ∈ sels, wf s) → At m idx (sels.flatMap enc) →
      Pairs step m idx (sels.map fun s => ((enc s).length, ok s))
  | [], idx, _, _ => Pairs.nil idx
  | s :: rest, idx, hwf, hat => by
    rw [List.flatMap_cons] at hat
    exact Pairs.cons idx (enc s).length (ok s) _ (hstep idx s (hwf s (by simp)) hat.left)
      (pairs_of_sels step m enc ok wf hstep rest _ (fun x hx => hwf x (by simp [hx])) hat.right)

theorem endIdx_sels {σ : Type} (enc : σ → List Nat) (ok : σ → Bool) (sels : List σ) (idx : Nat) :
    endIdx idx (sels.map fun s => ((enc s).length, ok s)) = idx + (sels.flatMap enc).length := by
  simp [endIdx, List.length_flatMap, Function.comp_def]

/-! ## PGN 126464 -/

def ok126464 : Sel126464 → Bool
  | .list b => decide (b = 0 ∨ b = 1)

theorem step126464_sel (m : Msg) (idx : Nat) (s : Sel126464) (h : At m idx s.enc) (mf : Bool) (aux : Nat) :
    (step126464 m idx mf aux).idx = idx + s.enc.length ∧ (step126464 m idx mf aux).mf = (mf && ok126464 s)
      ∧ (step126464 m idx mf aux).invalid = false := by
  cases s with
  | list b =>
    have hf := h.getByte; have hv := h.tail.getByte
    unfold step126464; simp only [hf, hv]
    by_cases hb : b = 0 ∨ b = 1
    · rw [if_pos hb]; simp [Sel126464.enc, ok126464, hb, Nat.add_assoc]
    · rw [if_neg hb]; simp [Sel126464.enc, ok126464, hb, Nat.add_assoc]

/-! ## PGN 126996 -/

def ok126996 (p : Prod) : Sel126996 → Bool
  | .n2kVersion b0 b1 => decide ((b0 + 256 * b1) % 65536 = p.n2kVersion % 65536)
  | .productCode b0 b1 => decide ((b0 + 256 * b1) % 65536 = p.productCode % 65536)
  | .modelId s => decide (s = (cstr p.modelId).take 32)
  | .softwareCode s => decide (s = (cstr p.swCode).take 32)
  | .modelVersion s => decide (s = (cstr p.modelVersion).take 32)
  | .serialCode s => decide (s = (cstr p.serialCode).take 32)
  | .certificationLevel b => decide (b % 256 = p.certLevel % 256)
  | .loadEquivalency b => decide (b % 256 = p.loadEquiv % 256)

theorem getStrN_field {m : Msg} {idx : Nat} {s : List Nat} (h : At m idx (fixStr s 32)) (hs : StrOK s 32) :
    getStrN m 33 32 0xff idx = (s, idx + 32, true) := by
  have := getStrN_fix (bufSize := 33) (k := 32 - s.length) h hs.2 (by have := hs.1; omega)
  have e : s.length + (32 - s.length) = 32 := by have := hs.1; omega
  rw [e] at this; exact this

theorem step126996_sel (p : Prod) (m : Msg) (idx : Nat) (s : Sel126996) (hw : s.wf) (h : At m idx s.enc) (mf : Bool) (aux : Nat) :
    (step126996 p m idx mf aux).idx = idx + s.enc.length ∧ (step126996 p m idx mf aux).mf = (mf && ok126996 p s)
      ∧ (step126996 p m idx mf aux).invalid = false := by
  cases s with
  | n2kVersion b0 b1 =>
    have hf := h.getByte; have hv := h.tail.get2
    unfold step126996; simp only [hf]
    have := matchNum_facts (get2 m (idx + 1)) (p.n2kVersion % 65536) 0xffff mf aux
    rw [hv] at this ⊢; simp only [and_mask16] at this
    simpa [Sel126996.enc, ok126996, Nat.add_assoc] using this
  | productCode b0 b1 =>
    have hf := h.getByte; have hv := h.tail.get2
    unfold step126996; simp only [hf]
    have := matchNum_facts (get2 m (idx + 1)) (p.productCode % 65536) 0xffff mf aux
    rw [hv] at this ⊢; simp only [and_mask16] at this
    simpa [Sel126996.enc, ok126996, Nat.add_assoc] using this
  | modelId s =>
    have hf := (At.left (xs := [3]) h).getByte
    have hv := getStrN_field (At.right (xs := [3]) h) hw
    unfold step126996; simp only [hf]
    simp only [List.length_cons, List.length_nil, Nat.zero_add] at hv
    rw [hv]
    simp [Sel126996.enc, ok126996, matchStr, fixStr_length hw.1, Nat.add_assoc]
  | softwareCode s =>
    have hf := (At.left (xs := [4]) h).getByte
    have hv := getStrN_field (At.right (xs := [4]) h) hw
    unfold step126996; simp only [hf]
    simp only [List.length_cons, List.length_nil, Nat.zero_add] at hv
    rw [hv]
    simp [Sel126996.enc, ok126996, matchStr, fixStr_length hw.1, Nat.add_assoc]
  | modelVersion s =>
    have hf := (At.left (xs := [5]) h).getByte
    have hv := getStrN_field (At.right (xs := [5]) h) hw
    unfold step126996; simp only [hf]
    simp only [List.length_cons, List.length_nil, Nat.zero_add] at hv
    rw [hv]
    simp [Sel126996.enc, ok126996, matchStr, fixStr_length hw.1, Nat.add_assoc]
  | serialCode s =>
    have hf := (At.left (xs := [6]) h).getByte
    have hv := getStrN_field (At.right (xs := [6]) h) hw
    unfold step126996; simp only [hf]
    simp only [List.length_cons, List.length_nil, Nat.zero_add] at hv
    rw [hv]
    simp [Sel126996.enc, ok126996, matchStr, fixStr_length hw.1, Nat.add_assoc]
  | certificationLevel b =>
    have hf := h.getByte; have hv := h.tail.getByte
    unfold step126996; simp only [hf]
    have := matchNum_facts (getByte m (idx + 1)) (p.certLevel % 256) 0xff mf aux
    rw [hv] at this ⊢; simp only [and_mask8] at this
    simpa [Sel126996.enc, ok126996, Nat.add_assoc] using this
  | loadEquivalency b =>
    have hf := h.getByte; have hv := h.tail.getByte
    unfold step126996; simp only [hf]
    have := matchNum_facts (getByte m (idx + 1)) (p.loadEquiv % 256) 0xff mf aux
    rw [hv] at this ⊢; simp only [and_mask8] at this
    simpa [Sel126996.enc, ok126996, Nat.add_assoc] using this

/-! ## PGN 126998 -/

def ok126998 (c : Conf) : Sel126998 → Bool
  | .installationDescription1 s => decide (s = (cstr c.d1).take 70)
  | .installationDescription2 s => decide (s = (cstr c.d2).take 70)
  | .manufacturerInformation s => decide (s = (cstr c.man).take 70)

theorem step126998_sel (c : Conf) (m : Msg) (idx : Nat) (s : Sel126998) (hw : s.wf) (h : At m idx s.enc) (mf : Bool) (aux : Nat) :
    (step126998 c m idx mf aux).idx = idx + s.enc.length ∧ (step126998 c m idx mf aux).mf = (mf && ok126998 c s)
      ∧ (step126998 c m idx mf aux).invalid = false := by
  cases s with
  | installationDescription1 s =>
    have hf := (At.left (xs := [1]) h).getByte
    have hv := getVarStr_ok (At.right (xs := [1]) h) hw
    unfold step126998; simp only [hf]
    simp only [List.length_cons, List.length_nil, Nat.zero_add] at hv
    rw [hv]
    simp [Sel126998.enc, ok126998, matchStr, varStr]; omega
  | installationDescription2 s =>
    have hf := (At.left (xs := [2]) h).getByte
    have hv := getVarStr_ok (At.right (xs := [2]) h) hw
    unfold step126998; simp only [hf]
    simp only [List.length_cons, List.length_nil, Nat.zero_add] at hv
    rw [hv]
    simp [Sel126998.enc, ok126998, matchStr, varStr]; omega
  | manufacturerInformation s =>
    have hf := (At.left (xs := [3]) h).getByte
    have hv := getVarStr_ok (At.right (xs := [3]) h) hw
    unfold step126998; simp only [hf]
    simp only [List.length_cons, List.length_nil, Nat.zero_add] at hv
    rw [hv]
    simp [Sel126998.enc, ok126998, matchStr, varStr]; omega

/-! ## the request header -/

theorem reqParams_header {m : Msg} {pgn iv off pairs : Nat} {body junk : List Nat}
    (hd : m.data = reqHeader pgn iv off pairs ++ body ++ junk) (hl : m.len = 11 + body.length)
    (hiv : iv < 4294967296) (hoff : off < 65536) : reqParams m = (iv, off, pairs) := by
  have hat : At m 0 (reqHeader pgn iv off pairs) := at_header hd (by simp [reqHeader, GFSpec.le3, GFSpec.le4, GFSpec.le2]; omega)
  simp only [reqHeader, GFSpec.le3, GFSpec.le4, GFSpec.le2, List.cons_append, List.nil_append] at hat
  have h4 := hat.tail.tail.tail.tail
  have e4 := h4.get4
  have e2 := h4.tail.tail.tail.tail.get2
  have e1 := h4.tail.tail.tail.tail.tail.tail.getByte
  simp only [Nat.zero_add] at e4 e2 e1
  unfold reqParams
  simp only [e4, e2, e1]
  refine Prod.ext ?_ (Prod.ext ?_ rfl) <;> simp <;> omega

theorem parsePgn_header {m : Msg} {fc pgn : Nat} {rest : List Nat} (hd : m.data = [fc] ++ GFSpec.le3 pgn ++ rest)
    (hl : 4 ≤ m.len) (hp : pgn < 16777216) : parsePgn m = pgn := by
  have hat : At m 0 ([fc] ++ GFSpec.le3 pgn) := ⟨[], rest, by rw [hd]; simp, rfl, by simp [GFSpec.le3]; omega⟩
  simp only [GFSpec.le3, List.cons_append, List.nil_append] at hat
  have := hat.tail.get3
  simp only [Nat.zero_add] at this
  unfold parsePgn; rw [this]; simp; omega

end N2k.GF
