import N2k.Lemmas.TPLinkRx
/-! C10 helper lemmas for the end-to-end theorem: whole polls of the receiving node and the sender's last poll. -/
namespace N2k.TP
open N2k.Send N2k.Time N2k.Spec

variable {i : Nat}

section
variable (b : Node) (db : Dev) (m : Msg) (srcA j : Nat) (S' : List Slot) (a0 : Slot)

/-- the receiving node in the middle of the transfer: `k` packets in (the last one at time `mt`), `fs` at the driver -/
def rcv (mt : Nat) (out : List Delivery) (k : Nat) (fs rxq : List Frame) : Node :=
  b.upd b.tp (S'.set j (sess a0 m srcA db.source mt k)) out fs rxq

/-- packets `k .. k+x-1` (0-based), none of which ends a CTS window or the message, arrive one after the other -/
theorem rx_run (out : List Delivery) (fs rxq : List Frame)
    (hd : Lead b i db) (hq : Quiet b.s i) (hsrc : srcA < 256) (hdst : m.dst = db.source)
    (hnone : findIdx (sessOf srcA db.source) S' = none) (hj : j < S'.length) (hlen : m.len ≤ 223) :
    ∀ (x k mt : Nat), (∀ y, y < x → (k + y + 1) % tpCtsPackets (tpPacketCount m.len) ≠ 0) → 7 * (k + x) < m.len →
      rxList ((List.range x).map fun y => dtFrame srcA m (k + y)) (rcv b db m srcA j S' a0 mt out k fs rxq)
        = rcv b db m srcA j S' a0 (if x = 0 then mt else millis32 b.s.now) out (k + x) fs rxq
  | 0, k, mt, _, _ => by simp [rxList]
  | x+1, k, mt, hw, hx => by
    rw [List.range_succ_eq_map, List.map_cons, List.map_map]
    simp only [rxList, List.foldl_cons, Nat.add_zero]
    have h0 := hw 0 (by omega)
    unfold rcv
    rw [rx_mid b db m srcA j k mt S' a0 out fs rxq hd hq hsrc hdst hnone hj (by omega) hlen]
    rw [if_neg (by simpa using h0), List.append_nil]
    have ih := rx_run out fs rxq hd hq hsrc hdst hnone hj hlen x (k + 1) (millis32 b.s.now) (fun y hy => by
      have := hw (y + 1) (by omega)
      rw [show k + 1 + y + 1 = k + (y + 1) + 1 by omega]; exact this) (by omega)
    unfold rcv rxList at ih
    have hmap : ((fun y => dtFrame srcA m (k + y)) ∘ Nat.succ) = fun y => dtFrame srcA m (k + 1 + y) := by
      funext y; simp only [Function.comp, Nat.succ_eq_add_one]; congr 1; omega
    rw [hmap, ih]
    have hmt : (if x = 0 then millis32 b.s.now else millis32 b.s.now) = millis32 b.s.now := by split <;> rfl
    rw [hmt, if_neg (by omega)]
    congr 3; omega

theorem add_mod_of_dvd (k z c : Nat) (hk : k % c = 0) (hz : z < c) : (k + z) % c = z := by
  rw [Nat.add_mod, hk, Nat.zero_add, Nat.mod_mod, Nat.mod_eq_of_lt hz]

theorem add_mod_self_of_dvd (k c : Nat) (hk : k % c = 0) : (k + c) % c = 0 := by
  rw [Nat.add_mod, hk, Nat.mod_self]; simp

theorem rcv_solo (mt : Nat) (out : List Delivery) (k : Nat) (fs rxq : List Frame) (hd : Lead b i db) (hq : Quiet b.s i) :
    Lead (rcv b db m srcA j S' a0 mt out k fs rxq) i db ∧ Quiet (rcv b db m srcA j S' a0 mt out k fs rxq).s i :=
  ⟨hd.same _ _ _ _, upd_quiet _ _ _ _ _ _ hq⟩

/-- **the receiver polls with a complete window that neither is the last one**: it grants the next window -/
theorem poll_window (k c mt : Nat) (hc : c = tpCtsPackets (tpPacketCount m.len))
    (hd : Lead b i db) (hq : Quiet b.s i) (hsrc : srcA < 256) (hdst : m.dst = db.source)
    (hnone : findIdx (sessOf srcA db.source) S' = none) (hj : j < S'.length) (hlen : m.len ≤ 223)
    (hnotp : (b.tp i).hasPending = false) (hib : InfoIdle b i) (hkc : k % c = 0) (hfull : 7 * (k + c) < m.len) :
    poll (rcv b db m srcA j S' a0 mt [] k [] ((List.range c).map fun y => dtFrame srcA m (k + y))) =
      rcv b db m srcA j S' a0 (millis32 b.s.now) [] (k + c) [cmFrame db.source srcA (ctsBytes m.pgn (tpPacketCount m.len) (k + c + 1))] [] := by
  have hcpos : 0 < c := by rw [hc]; exact tpCtsPackets_pos _
  have hc5 : c ≤ 5 := by rw [hc]; unfold tpCtsPackets; omega
  obtain ⟨hNd, hNq⟩ := rcv_solo b db m srcA j S' a0 mt [] k [] ((List.range c).map fun y => dtFrame srcA m (k + y)) hd hq
  rw [poll_solo _ db hNd hNq hib (fun h => by simp [rcv, hnotp] at h) (by simp [rcv]; omega)]
  have hrxq : (rcv b db m srcA j S' a0 mt [] k [] ((List.range c).map fun y => dtFrame srcA m (k + y))).rxq
      = (List.range c).map fun y => dtFrame srcA m (k + y) := rfl
  rw [hrxq]
  obtain ⟨c', hc'⟩ : ∃ c', c = c' + 1 := ⟨c - 1, by omega⟩
  rw [hc', List.range_succ, List.map_append, rxList, List.foldl_append]
  have hrun := rx_run b db m srcA j S' a0 [] [] ((List.range (c' + 1)).map fun y => dtFrame srcA m (k + y))
    hd hq hsrc hdst hnone hj hlen c' k mt
    (fun y hy => by rw [← hc, Nat.add_assoc, add_mod_of_dvd k (y + 1) c hkc (by omega)]; omega) (by omega)
  unfold rxList at hrun
  rw [List.range_succ, List.map_append] at hrun
  rw [hrun]
  simp only [List.map_cons, List.map_nil, List.foldl_cons, List.foldl_nil]
  unfold rcv
  rw [rx_mid b db m srcA j (k + c') _ S' a0 [] [] _ hd hq hsrc hdst hnone hj (by omega) hlen]
  have hz : (k + c' + 1) % tpCtsPackets (tpPacketCount m.len) = 0 := by
    rw [← hc, Nat.add_assoc, ← hc']; exact add_mod_self_of_dvd k c hkc
  rw [if_pos hz]
  have e : k + c' + 1 = k + (c' + 1) := by omega
  have e2 : k + c' + 2 = k + (c' + 1) + 1 := by omega
  rw [e, e2]
  exact claimTick_lead _ hd.claims

/-- **the receiver polls with the last window**: EndOfMsgACK and exactly one delivery -/
theorem poll_last (k c x mt : Nat) (hc : c = tpCtsPackets (tpPacketCount m.len))
    (hd : Lead b i db) (hq : Quiet b.s i) (hsrc : srcA < 256) (hdst : m.dst = db.source)
    (hnone : findIdx (sessOf srcA db.source) S' = none) (hj : j < S'.length) (hlen : m.len ≤ 223) (hl : m.len ≤ m.data.length)
    (hnotp : (b.tp i).hasPending = false) (hib : InfoIdle b i) (hkc : k % c = 0) (hx : 1 ≤ x ∧ x ≤ c)
    (hend : m.len ≤ 7 * (k + x)) (hnot : 7 * (k + x - 1) < m.len) :
    ∃ S'', poll (rcv b db m srcA j S' a0 mt [] k [] ((List.range x).map fun y => dtFrame srcA m (k + y))) =
      b.upd b.tp S'' [delivered m srcA db.source]
        [cmFrame db.source srcA (endAckBytes m.pgn m.len (k + x))] [] := by
  have hc5 : c ≤ 5 := by rw [hc]; unfold tpCtsPackets; omega
  obtain ⟨hNd, hNq⟩ := rcv_solo b db m srcA j S' a0 mt [] k [] ((List.range x).map fun y => dtFrame srcA m (k + y)) hd hq
  rw [poll_solo _ db hNd hNq hib (fun h => by simp [rcv, hnotp] at h) (by simp [rcv]; omega)]
  have hrxq : (rcv b db m srcA j S' a0 mt [] k [] ((List.range x).map fun y => dtFrame srcA m (k + y))).rxq
      = (List.range x).map fun y => dtFrame srcA m (k + y) := rfl
  rw [hrxq]
  obtain ⟨x', hx'⟩ : ∃ x', x = x' + 1 := ⟨x - 1, by omega⟩
  rw [hx', List.range_succ, List.map_append, rxList, List.foldl_append]
  have hrun := rx_run b db m srcA j S' a0 [] [] ((List.range (x' + 1)).map fun y => dtFrame srcA m (k + y))
    hd hq hsrc hdst hnone hj hlen x' k mt
    (fun y hy => by rw [← hc, Nat.add_assoc, add_mod_of_dvd k (y + 1) c hkc (by omega)]; omega) (by omega)
  unfold rxList at hrun
  rw [List.range_succ, List.map_append] at hrun
  rw [hrun]
  simp only [List.map_cons, List.map_nil, List.foldl_cons, List.foldl_nil]
  unfold rcv
  obtain ⟨S'', hS, _, _⟩ := rx_last b db m srcA j (k + x') _ S' a0 [] [] ((List.map (fun y => dtFrame srcA m (k + y)) (List.range x') ++ [dtFrame srcA m (k + x')]))
    hd hq hsrc hdst hnone hj (by omega) (by omega) hlen hl
  rw [hS]
  refine ⟨S'', ?_⟩
  have e : k + x' + 1 = k + (x' + 1) := by omega
  rw [e]
  exact claimTick_lead _ hd.claims

/-- **the receiver polls with the RTS in its queue**: first CTS, the session slot is set up -/
theorem poll_rts (hd : Lead b i db) (hq : Quiet b.s i) (hsrc : srcA < 256) (hdst : m.dst = db.source)
    (hlen : m.len ≤ 223) (hpgn : m.pgn < 2^24) (hnotp : (b.tp i).hasPending = false) (hib : InfoIdle b i)
    (hknown : (checkKnown m.pgn).1 = true ∨ ¬ b.onlyKnown = true)
    (hS : S' = b.slots.map (freeSess srcA db.source))
    (hj : findIdx (slotHit m.pgn srcA db.source true) S' = some j) (ha0 : S'[j]? = some a0) :
    poll (b.upd b.tp b.slots [] [] [cmFrame srcA m.dst (announceBytes 16 m)]) =
      rcv b db m srcA j S' a0 (millis32 b.s.now) [] 0 [cmFrame db.source srcA (ctsBytes m.pgn (tpPacketCount m.len) 1)] [] := by
  have hdsrc : db.source ≤ 251 := by
    exact hd.src hq
  generalize hN : b.upd b.tp b.slots [] [] [cmFrame srcA m.dst (announceBytes 16 m)] = N
  have hNq : Quiet N.s i := by subst hN; exact upd_quiet _ _ _ _ _ _ hq
  have hNd : Lead N i db := by subst hN; exact hd.same _ _ _ _
  rw [poll_solo N db hNd hNq (by subst hN; exact hib) (fun h => by subst hN; simp [hnotp] at h) (by subst hN; simp)]
  have hrx : N.rxq = [cmIn srcA db.source (announceBytes 16 m)] := by subst hN; rw [← hdst]; rfl
  rw [hrx]
  simp only [rxList, List.foldl_cons, List.foldl_nil]
  rw [rxFrame_cm N srcA db.source _ hsrc (by omega) (by simp [announceBytes, le3])]
  unfold handleCM
  have hfd : findDev N.s.devs db.source = some i := findDev_lead hNd (by omega)
  have hpc : packetCount m.len % 256 = tpPacketCount m.len := by
    rw [packetCount_eq]; have := tpPacketCount_le m.len hlen; omega
  have hsz : m.len % 256 + m.len / 256 % 256 * 256 = m.len := by omega
  simp only [hfd, announceBytes, le3, List.cons_append, List.nil_append, List.getD_cons_zero, List.getD_cons_succ,
    le3_sum m.pgn hpgn, hpc, hsz]
  simp only [Nat.reduceEqDiff, or_true, ↓reduceIte, BEq.rfl]
  have hNs : N.slots = b.slots := by subst hN; rfl
  have hNn : N.s.now = b.s.now := by subst hN; rfl
  have hNo : N.onlyKnown = b.onlyKnown := by subst hN; rfl
  rw [handleStart_rts_quiet N srcA db.source i m.pgn m.len (tpPacketCount m.len) j db a0 hNq hNd.dev0 hsrc hlen
        (by rw [hNo]; exact hknown) (by rw [hNs, ← hS]; exact hj) (by rw [hNs, ← hS]; exact ha0)]
  rw [hNs, ← hS, hNn]
  subst hN
  have hres : ∀ X : Node, X = rcv b db m srcA j S' a0 (millis32 b.s.now) [] 0 [cmFrame db.source srcA (ctsBytes m.pgn (tpPacketCount m.len) 1)]
        [cmFrame srcA m.dst (announceBytes 16 m)] →
      claimTick { X with rxq := [] } = rcv b db m srcA j S' a0 (millis32 b.s.now) [] 0 [cmFrame db.source srcA (ctsBytes m.pgn (tpPacketCount m.len) 1)] [] := by
    intro X hX; subst hX
    exact claimTick_lead _ hd.claims
  apply hres
  rfl

end

/-- the sender's transport state after the EndOfMsgACK -/
def doneTp (i : Nat) (a : Node) (m : Msg) (seq : Nat) : Nat → TpDev :=
  fun j => if j = i then { pend := { m with pgn := 0, len := 0 }, nextSeq := seq, timer := Sched.disabled a.s.flavor, hasPending := false }
           else a.tp j

/-- **the sender polls with the EndOfMsgACK in its queue**: the transfer is over -/
theorem poll_endack (a : Node) (d : Dev) (m : Msg) (peer seq t0 tmo nb np : Nat) (sl : List Slot) (out : List Delivery)
    (hd : Lead a i d) (hq : Quiet a.s i) (hi : InfoIdle a i) (hm : m.dst = peer) (hpeer : peer < 255)
    (hpgn : m.pgn < 2^24) (htmo : tmo ≤ 100) (ht0 : t0 ≤ a.s.now ∧ a.s.now < t0 + tmo) (h64 : a.s.now + 100 < M64) :
    poll (a.upd (txTp i a m seq t0 tmo) sl out [] [cmFrame peer d.source (endAckBytes m.pgn nb np)]) =
      a.upd (doneTp i a m seq) sl out [] [] := by
  have hsrc : d.source ≤ 251 := by
    exact hd.src hq
  generalize hN : a.upd (txTp i a m seq t0 tmo) sl out [] [cmFrame peer d.source (endAckBytes m.pgn nb np)] = N
  have hNq : Quiet N.s i := by subst hN; exact upd_quiet _ _ _ _ _ _ hq
  have hNd : Lead N i d := by subst hN; exact hd.upd _ _ _ _ _ (fun k hk => by simp [txTp, hk, hd.others k hk])
  have hNt : (N.tp i).timer.isTime N.s.flavor N.s.now = false := by
    subst hN
    simp only [upd_tp, txTp, ↓reduceIte, upd_flavor, upd_now]
    exact isTime_fromNow_early _ _ _ _ ht0.1 ht0.2 (by omega) (by omega)
  rw [poll_solo N d hNd hNq (by subst hN; exact hi) (fun _ => hNt) (by subst hN; simp)]
  have hrx : N.rxq = [cmIn peer d.source (endAckBytes m.pgn nb np)] := by subst hN; rfl
  rw [hrx]
  simp only [rxList, List.foldl_cons, List.foldl_nil]
  rw [rxFrame_cm N peer d.source _ (by omega) (by omega) (by simp [endAckBytes, le3])]
  unfold handleCM
  have hfd : findDev N.s.devs d.source = some i := findDev_lead hNd (by omega)
  simp only [hfd, endAckBytes, le3, List.cons_append, List.nil_append, List.getD_cons_zero, List.getD_cons_succ, le3_sum m.pgn hpgn]
  simp only [Nat.reduceEqDiff, or_self, true_or, ↓reduceIte]
  have hpend : (N.tp i).pend = m := by subst hN; simp [txTp]
  have h1 : ¬ (m.dst = 0xff) := by omega
  have h2 : ¬ (m.pgn ≠ m.pgn ∨ m.dst ≠ peer) := by
    intro h; rcases h with h | h
    · exact h rfl
    · exact h hm
  have hend : handleEnd N i peer m.pgn = endSendTP N i := by
    unfold handleEnd
    simp only [hpend]
    rw [if_neg h1, if_neg h2]
  rw [hend]
  subst hN
  have hres : ∀ X : Node, X = a.upd (doneTp i a m seq) sl out [] [cmFrame peer d.source (endAckBytes m.pgn nb np)] →
      claimTick { X with rxq := [] } = a.upd (doneTp i a m seq) sl out [] [] := by
    intro X hX; subst hX
    exact claimTick_lead _ hd.claims
  apply hres
  unfold endSendTP
  simp only [upd_setTp, upd_tp, upd_flavor]
  unfold Node.upd
  congr 1
  funext j
  by_cases hj : j = i <;> simp [txTp, doneTp, hj, hi.1, hi.2]

end N2k.TP
