import N2k.Lemmas.TPRecv
/-! C10 helper lemmas: one announce / one data packet at the receiving side of a quiet node, in closed form. -/
namespace N2k.TP
open N2k.Send N2k.Time N2k.Spec

theorem sessOf_freeSess (src dst : Nat) (a : Slot) : sessOf src dst (freeSess src dst a) = false := by
  unfold freeSess
  by_cases h : sessOf src dst a = true
  · rw [if_pos h]; simp [sessOf, freeMessage]
  · rw [if_neg h]; simpa using h

theorem findIdx_none_of_all {α : Type} (p : α → Bool) : ∀ (l : List α), (∀ a ∈ l, p a = false) → findIdx p l = none
  | [], _ => rfl
  | a :: t, h => by
    unfold findIdx
    rw [if_neg (by rw [h a (by simp)]; simp), findIdx_none_of_all p t (fun b hb => h b (by simp [hb]))]
    rfl

theorem findIdx_set_of_none {α : Type} (p : α → Bool) : ∀ (l : List α) (j : Nat) (a' : α), findIdx p l = none → j < l.length →
    p a' = true → findIdx p (l.set j a') = some j
  | [], _, _, _, hj, _ => by simp at hj
  | a :: t, 0, a', _, _, ha' => by simp [findIdx, ha']
  | a :: t, j+1, a', h, hj, ha' => by
    unfold findIdx at h
    by_cases hp : p a = true
    · rw [if_pos hp] at h; cases h
    · rw [if_neg hp] at h
      have ht : findIdx p t = none := by
        cases hf : findIdx p t with
        | none => rfl
        | some k => rw [hf] at h; simp at h
      simp only [List.set_cons_succ, findIdx, hp]
      rw [findIdx_set_of_none p t j a' ht (by simpa using hj) ha']
      simp

theorem freeSess_keeps_free (src dst : Nat) (a : Slot) (h : a.free = true) : (freeSess src dst a).free = true := by
  unfold freeSess; split <;> simp [freeMessage, h]

/-- after dropping the pair's old transfer, the slot search for a new announce finds a slot whenever one was free -/
theorem start_slot_exists (slots : List Slot) (pgn src dst : Nat) (hfree : ∃ a ∈ slots, a.free = true) :
    ∃ j a0, findIdx (slotHit pgn src dst true) (slots.map (freeSess src dst)) = some j ∧
            (slots.map (freeSess src dst))[j]? = some a0 := by
  obtain ⟨a, ha, hf⟩ := hfree
  have : ∃ b ∈ slots.map (freeSess src dst), slotHit pgn src dst true b = true :=
    ⟨freeSess src dst a, List.mem_map_of_mem ha, by simp [slotHit, freeSess_keeps_free src dst a hf]⟩
  obtain ⟨j, hj⟩ := findIdx_exists _ _ this
  obtain ⟨a0, ha0, _⟩ := findIdx_get _ _ _ hj
  exact ⟨j, a0, hj, ha0⟩

/-- the slot a new RTS session occupies -/
def rtsSlot (a0 : Slot) (pgn src dst now32 size npk : Nat) : Slot :=
  { startSlot a0 pgn src dst now32 size npk with reqCTS := tpCtsPackets npk }

/-- **RTS step**: an admissible RTS addressed to device `i` on a quiet node with slot `j` found: CTS(first window, packet 1)
goes out and slot `j` holds the new session -/
theorem handleStart_rts_quiet (n : Node) (src dst i pgn size npk j : Nat) (d : Dev) (a0 : Slot)
    (hq : Quiet n.s i) (hd : n.s.devs[i]? = some d) (hsrc : src < 256) (hsize : size ≤ 223)
    (hknown : (checkKnown pgn).1 = true ∨ ¬ n.onlyKnown = true)
    (hj : findIdx (slotHit pgn src dst true) (n.slots.map (freeSess src dst)) = some j)
    (ha0 : (n.slots.map (freeSess src dst))[j]? = some a0) :
    handleStart n src dst true (some i) pgn size npk =
      ({ n with slots := (n.slots.map (freeSess src dst)).set j (rtsSlot a0 pgn src dst (millis32 n.s.now) size npk) }).pushes
        [cmFrame d.source src (ctsBytes pgn npk 1)] := by
  unfold handleStart
  simp only [findFree_hit _ _ _ _ _ _ j hj, Bool.true_and, Option.isSome_some, Option.getD_some, ↓reduceIte]
  have hadm : size ≤ 223 ∧ ((checkKnown pgn).1 = true ∨ ¬ n.onlyKnown = true) := ⟨hsize, hknown⟩
  rw [if_pos hadm]
  rw [sendCTS_quiet _ pgn src i npk 1 d (by simpa [Node.setSlot] using hq) (by simpa [Node.setSlot] using hd) hsrc]
  simp only [Node.setSlot, Node.pushes, ha0, Option.getD_some, List.set_set, rtsSlot]

/-- an RTS the node cannot hold (more than 223 bytes) is aborted and no slot is taken -/
theorem handleStart_oversize_quiet (n : Node) (src dst i pgn size npk j : Nat) (d : Dev)
    (hq : Quiet n.s i) (hd : n.s.devs[i]? = some d) (hsrc : src < 256) (hsize : size > 223)
    (hj : findIdx (slotHit pgn src dst true) (n.slots.map (freeSess src dst)) = some j) :
    handleStart n src dst true (some i) pgn size npk =
      ({ n with slots := n.slots.map (freeSess src dst) }).pushes [cmFrame d.source src (abortBytes pgn 1)] := by
  unfold handleStart
  simp only [findFree_hit _ _ _ _ _ _ j hj, Bool.true_and, Option.isSome_some, Option.getD_some, ↓reduceIte]
  have hadm : ¬ (size ≤ 223 ∧ ((checkKnown pgn).1 = true ∨ ¬ n.onlyKnown = true)) := by omega
  rw [if_neg hadm]
  exact sendAbort_quiet _ pgn src i 1 d hq hd hsrc

/-- the slot after data packet `b0` with the 7 bytes `buf[1..8)` was copied -/
def dtSlot (a : Slot) (buf : List Nat) (now32 : Nat) : Slot :=
  { a with data := copyBuf a.data 1 8 buf, lastFrame := buf.getD 0 0, msgTime := now32 }

/-- **data packet, in sequence, not the last one** -/
theorem handleData_mid_quiet (n : Node) (src dst i j : Nat) (d : Dev) (a : Slot) (buf : List Nat)
    (hq : Quiet n.s i) (hd : n.s.devs[i]? = some d) (hsrc : src < 256)
    (hi : findDev n.s.devs dst = some i) (hj : findIdx (sessOf src dst) n.slots = some j) (ha : n.slots[j]? = some a)
    (hseq : a.lastFrame + 1 = buf.getD 0 0) (hmore : (copyBuf a.data 1 8 buf).length < a.dataLen) :
    handleData n src dst 8 buf =
      (if a.reqCTS > 0 ∧ buf.getD 0 0 % a.reqCTS = 0
        then (n.setSlot j (dtSlot a buf (millis32 n.s.now))).pushes [cmFrame d.source src (ctsBytes a.pgn a.maxPackets (buf.getD 0 0 + 1))]
        else n.setSlot j (dtSlot a buf (millis32 n.s.now)), none) := by
  unfold handleData
  simp only [hi, hj, ha, Option.getD_some, Option.isSome_some, and_true, true_and]
  rw [if_pos hseq]
  have hnot : ¬ ((copyBuf a.data 1 8 buf).length ≥ a.dataLen) := by omega
  simp only [hnot, ↓reduceIte]
  by_cases hc : a.reqCTS > 0 ∧ buf.getD 0 0 % a.reqCTS = 0
  · rw [if_pos hc, if_pos hc]
    rw [sendCTS_quiet _ a.pgn src i a.maxPackets _ d (by simpa [Node.setSlot] using hq) (by simpa [Node.setSlot] using hd) hsrc]
    rfl
  · rw [if_neg hc, if_neg hc]; rfl

/-- **final data packet, in sequence**: EndOfMsgACK (RTS/CTS sessions) and the slot index is reported as complete -/
theorem handleData_last_quiet (n : Node) (src dst i j : Nat) (d : Dev) (a : Slot) (buf : List Nat)
    (hq : Quiet n.s i) (hd : n.s.devs[i]? = some d) (hsrc : src < 256)
    (hi : findDev n.s.devs dst = some i) (hj : findIdx (sessOf src dst) n.slots = some j) (ha : n.slots[j]? = some a)
    (hseq : a.lastFrame + 1 = buf.getD 0 0) (hdone : (copyBuf a.data 1 8 buf).length ≥ a.dataLen) :
    handleData n src dst 8 buf =
      (if a.reqCTS > 0
        then (n.setSlot j (dtSlot a buf (millis32 n.s.now))).pushes [cmFrame d.source src (endAckBytes a.pgn a.dataLen (buf.getD 0 0))]
        else n.setSlot j (dtSlot a buf (millis32 n.s.now)), some j) := by
  unfold handleData
  simp only [hi, hj, ha, Option.getD_some, Option.isSome_some, and_true, true_and]
  rw [if_pos hseq]
  simp only [hdone, ↓reduceIte]
  by_cases hc : a.reqCTS > 0
  · rw [if_pos hc, if_pos hc]
    rw [sendEndAck_quiet _ a.pgn src i a.dataLen _ d (by simpa [Node.setSlot] using hq) (by simpa [Node.setSlot] using hd) hsrc]
    rfl
  · rw [if_neg hc, if_neg hc]; rfl

/-- **data packet out of sequence**: Abort (RTS/CTS sessions), the slot is freed, nothing is complete -/
theorem handleData_fault_quiet (n : Node) (src dst i j len : Nat) (d : Dev) (a : Slot) (buf : List Nat)
    (hq : Quiet n.s i) (hd : n.s.devs[i]? = some d) (hsrc : src < 256)
    (hi : findDev n.s.devs dst = some i) (hj : findIdx (sessOf src dst) n.slots = some j) (ha : n.slots[j]? = some a)
    (hseq : a.lastFrame + 1 ≠ buf.getD 0 0) :
    handleData n src dst len buf =
      ((if a.reqCTS > 0 then n.pushes [cmFrame d.source src (abortBytes a.pgn 3)] else n).setSlot j (freeMessage a), none) := by
  unfold handleData
  simp only [hi, hj, ha, Option.getD_some, Option.isSome_some, and_true]
  rw [if_neg hseq]
  by_cases hc : a.reqCTS > 0
  · rw [if_pos hc, if_pos hc, sendAbort_quiet n a.pgn src i 3 d hq hd hsrc]
  · rw [if_neg hc, if_neg hc]

/-- a message that came by the transport protocol is not one of the modelled system messages -/
theorem systemMessage_tp (n : Node) (a : Slot) (h : a.tp = true) : systemMessage n a = n := by
  simp [systemMessage, h]

/-- the slot a BAM (or an RTS between other nodes) occupies: nobody is answered -/
def bamSlot (a0 : Slot) (pgn src dst now32 size npk : Nat) : Slot :=
  { startSlot a0 pgn src dst now32 size npk with maxPackets := 0xff }

/-- **announce that is only listened to** (BAM, or RTS for another node): a slot is set up, nothing is sent -/
theorem handleStart_listen (n : Node) (src dst pgn size npk j : Nat) (isRts : Bool) (iDev : Option Nat) (a0 : Slot)
    (hno : (isRts && iDev.isSome) = false) (hsize : size ≤ 223)
    (hknown : (checkKnown pgn).1 = true ∨ ¬ n.onlyKnown = true)
    (hj : findIdx (slotHit pgn src dst true) (n.slots.map (freeSess src dst)) = some j)
    (ha0 : (n.slots.map (freeSess src dst))[j]? = some a0) :
    handleStart n src dst isRts iDev pgn size npk =
      { n with slots := (n.slots.map (freeSess src dst)).set j (bamSlot a0 pgn src dst (millis32 n.s.now) size npk) } := by
  unfold handleStart
  simp only [findFree_hit _ _ _ _ _ _ j hj, hno]
  have hadm : size ≤ 223 ∧ ((checkKnown pgn).1 = true ∨ ¬ n.onlyKnown = true) := ⟨hsize, hknown⟩
  rw [if_pos hadm]
  simp [Node.setSlot, ha0, bamSlot]

/-- data packets of a session nobody is answered in (`TPRequireCTS = 0`): no frame is ever sent -/
theorem handleData_silent (n : Node) (src dst j len : Nat) (a : Slot) (buf : List Nat)
    (hj : findIdx (sessOf src dst) n.slots = some j) (ha : n.slots[j]? = some a) (hreq : a.reqCTS = 0) :
    handleData n src dst len buf =
      if a.lastFrame + 1 = buf.getD 0 0 then
        (n.setSlot j { a with data := copyBuf a.data 1 len buf, lastFrame := buf.getD 0 0, msgTime := millis32 n.s.now },
         if (copyBuf a.data 1 len buf).length ≥ a.dataLen then some j else none)
      else (n.setSlot j (freeMessage a), none) := by
  unfold handleData
  simp only [hj, ha, hreq, Nat.lt_irrefl, false_and, ↓reduceIte]
  by_cases hs : a.lastFrame + 1 = buf.getD 0 0
  · rw [if_pos hs, if_pos hs]
    by_cases hdone : (copyBuf a.data 1 len buf).length ≥ a.dataLen
    · simp [hdone]
    · simp [hdone]
  · rw [if_neg hs, if_neg hs]

/-- a TP.DT frame from `src` to `dst` with the 8 bytes `buf` -/
def dtIn (src dst : Nat) (buf : List Nat) : Frame := ⟨n2kToCanId 6 60160 src dst, 8, buf⟩
/-- a TP.CM frame from `src` to `dst` -/
def cmIn (src dst : Nat) (buf : List Nat) : Frame := ⟨n2kToCanId 6 60416 src dst, 8, buf⟩

theorem rxFrame_dt (n : Node) (src dst : Nat) (buf : List Nat) (hs : src < 256) (hd : dst < 256) (hb : buf.length = 8) :
    rxFrame n (dtIn src dst buf) = finish (handleData n src dst 8 buf) := by
  unfold rxFrame dtIn
  rw [tpId_decode 60160 src dst (Or.inr rfl) hs hd, buf8_of_len8 _ _ hb]
  simp only [TP_CM, TP_DT, Nat.reduceEqDiff, ↓reduceIte]

theorem rxFrame_cm (n : Node) (src dst : Nat) (buf : List Nat) (hs : src < 256) (hd : dst < 256) (hb : buf.length = 8) :
    rxFrame n (cmIn src dst buf) = handleCM n src dst buf := by
  unfold rxFrame cmIn
  rw [tpId_decode 60416 src dst (Or.inl rfl) hs hd, buf8_of_len8 _ _ hb]
  simp [TP_CM, finish]

end N2k.TP
