// C03 harness: address claiming of the REAL tNMEA2000 on a simulated bus.
// Level 1 (one library instance, node 0, frames handed to ParseMessages directly):
//   reset <t32|t64> <mode> <now> <src:namehex>...      a freshly constructed instance (not open yet)
//   claim <src> <namehex> | rxc <idhex> <len> <hexdata> (any raw frame, e.g. an unfinished fast-packet first frame that
//   occupies a receive slot) | cmdaddr <namehex> <newaddr> <dst> | send <dev> <prio> <pgn> <presetsrc> <dst> <len> <hex>
//   (application SendMsg) | t <ms> | poll | restart
// Level 2 (whole bus: library instances + reference ISO 11783-5 nodes, atomic broadcast, inboxes):
//   bus <t32|t64> <now> <L<mode>:<src>:<namehex>[,<src>:<namehex>...] | F<selfcfg>:<pref>:<namehex>>...
//   d <i> (node i processes the head of its inbox) | p <i> (poll/start) | cmd <i> <dst> <namehex> <addr> | rs <i> | t <ms> | q
// The generators read the indication (`changed`) after EVERY step in the exhaustion ("wall") cases and in half of the other
// cases: whenever an own address differs from the one before the step, the read taken right after that step must return 1.
// Observation: get [i] -> addresses names end-of-search;  changed [i] -> ReadResetAddressChanged()
// Output of an acting op:  <claim frames sent> | <addresses of the node> | <inbox length of every node>
// (frames other than PGN 60928 - heartbeat, ISO-TP flow control - are checked by the oracle and not printed).
#include "node.h"
#include <memory>
#include <algorithm>
using namespace vh;
static Ctx C;

#ifdef N2K_VERIF_T32
static const char *FLAVOR = "t32";
#else
static const char *FLAVOR = "t64";
#endif

struct Node : public MockN2k {
  // what GetN2kSource()/the NAME report at the moment each frame is handed to the driver
  std::vector<std::vector<std::pair<uint64_t, unsigned>>> atSend;
  bool CANSendFrame(unsigned long id, unsigned char len, const unsigned char *buf, bool w) override {
    size_t before = sent.size(); bool r = MockN2k::CANSendFrame(id, len, buf, w);
    if (sent.size() > before) { std::vector<std::pair<uint64_t, unsigned>> snap; for (int i = 0; i < DeviceCount; i++) snap.push_back({Devices[i].DeviceInformation.GetName(), GetN2kSource(i)}); atSend.push_back(snap); }
    return r;
  }
  unsigned char src(int i) const { return Devices[i].N2kSource; }
  uint64_t name(int i) const { return Devices[i].DeviceInformation.GetName(); }
  unsigned char endSrc(int i) const { return Devices[i].AddressClaimEndSource; }
  bool claimTimer(int i) const { return Devices[i].AddressClaimTimer.IsEnabled(); }
  bool devInfoChanged() const { return DeviceInformationChanged; }
  void setName(int i, uint64_t n) { Devices[i].DeviceInformation.SetName(n); }
};

// ------------------------------------------------------------------ wire format (ISO 11783-5 / J1939-21, written from the standard)
static Frame mkFrame(unsigned long id, unsigned len, const unsigned char *d) { Frame f; f.id = id; f.len = (unsigned char)len; memset(f.buf, 0, 8); memcpy(f.buf, d, len > 8 ? 8 : len); f.t = g_now; return f; }
static Frame mkClaim(uint64_t name, unsigned addr) {
  unsigned char d[8]; for (int i = 0; i < 8; i++) d[i] = (unsigned char)(name >> (8 * i));
  return mkFrame(0x18EEFF00UL | addr, 8, d);
}
static bool isClaimId(unsigned long id) { return ((id >> 16) & 0xff) == 0xEE && ((id >> 24) & 1) == 0; }   // what the LIBRARY sends as claim
static bool decodeClaim(const Frame &f, uint64_t &name, unsigned &addr) {                                   // what a conforming receiver accepts
  if (((f.id >> 16) & 0xff) != 0xEE || ((f.id >> 24) & 3) != 0 || f.len != 8) return false;
  name = 0; for (int i = 7; i >= 0; i--) name = (name << 8) | f.buf[i];
  addr = (unsigned)(f.id & 0xff); return true;
}
// commanded address as ISO-TP: BAM to everybody (dst 255) or RTS/DT to one address
static std::vector<Frame> mkCommanded(uint64_t name, unsigned newAddr, unsigned dst) {
  const unsigned tool = 0x20;   // address of the commanding tool (never a claimant here)
  unsigned char pl[9]; for (int i = 0; i < 8; i++) pl[i] = (unsigned char)(name >> (8 * i)); pl[8] = (unsigned char)newAddr;
  std::vector<Frame> r;
  unsigned char cm[8] = {(unsigned char)(dst == 255 ? 32 : 16), 9, 0, 2, 0xff, 0xD8, 0xFE, 0x00};
  r.push_back(mkFrame(0x1CEC0000UL | (dst << 8) | tool, 8, cm));
  unsigned char d1[8] = {1, pl[0], pl[1], pl[2], pl[3], pl[4], pl[5], pl[6]};
  unsigned char d2[8] = {2, pl[7], pl[8], 0xff, 0xff, 0xff, 0xff, 0xff};
  r.push_back(mkFrame(0x1CEB0000UL | (dst << 8) | tool, 8, d1));
  r.push_back(mkFrame(0x1CEB0000UL | (dst << 8) | tool, 8, d2));
  return r;
}

// ------------------------------------------------------------------ reference foreign node (ISO 11783-5 arbitration rule)
struct Foreign {
  uint64_t name = 0; unsigned pref = 0; bool selfCfg = false; unsigned addr = 255; bool started = false;
  unsigned nextAddr() const { if (!selfCfg) return 254; unsigned a = addr >= 251 ? 0 : addr + 1; return a == pref ? 254 : a; }
  std::vector<Frame> start() { std::vector<Frame> r; if (started) return r; started = true; addr = pref; r.push_back(mkClaim(name, addr)); return r; }
  std::vector<Frame> onClaim(uint64_t nm, unsigned a) {
    std::vector<Frame> r;
    if (!started || a != addr || a > 251) return r;
    if (name < nm) r.push_back(mkClaim(name, addr));                 // lower NAME keeps the address and says so
    else { addr = nextAddr(); r.push_back(mkClaim(name, addr)); }     // loser takes the next address or goes to 254
    return r;
  }
  std::vector<Frame> onCommanded(uint64_t nm, unsigned a) {
    std::vector<Frame> r; if (!started || nm != name || a > 251 || a == addr) return r;
    addr = a; r.push_back(mkClaim(name, addr)); return r;
  }
};

struct BusNode {
  bool lib = false; std::unique_ptr<Node> n; Foreign f; std::deque<Frame> inbox; int mode = 1; int ndev = 0;
  bool pendingChange = false;       // an own address changed since the application last read the indication
  // one search = the lost arbitrations of a device with no successful claim (250 ms), commanded address, restart or open in between
  struct Search { std::set<unsigned> visited; int lost = 0; uint64_t lastClaim = 0; bool init = false; };
  std::vector<Search> search;
  bool onBus() const { return lib ? n->isOpen() : f.started; }
};
static std::vector<BusNode> B;
static std::vector<std::vector<bool>> everHeld(256);   // everHeld[a][16*node+dev]: that claimant was seen holding a (per case)
static std::string caseDesc; static bool caseContest = false;
static bool caseCmdSibling = false;   // C03:commanded-onto-sibling already reported in this case (its consequences are not reported again)
static long stepsThisCase = 0;

static void endCase() { if (!B.empty()) { C.cases++; if (caseContest) C.nontrivial(caseDesc); } caseDesc.clear(); caseContest = false; caseCmdSibling = false; stepsThisCase = 0; }

static std::string addrsOf(const BusNode &b) {
  if (!b.lib) return std::to_string(b.f.addr);
  std::string s; for (int i = 0; i < b.ndev; i++) { if (i) s += ','; s += std::to_string(b.n->src(i)); } return s;
}
static std::string inboxLens() {
  if (B.size() > 16) { size_t t = 0; for (auto &b : B) t += b.inbox.size(); return "total=" + std::to_string(t); }
  std::string s; for (size_t i = 0; i < B.size(); i++) { if (i) s += ','; s += std::to_string(B[i].inbox.size()); } return s;
}
static std::string framesStr(const std::vector<Frame> &v) { if (v.empty()) return "-"; std::string r; for (auto &f : v) { if (!r.empty()) r += ' '; r += frameStr(f); } return r; }

static void broadcast(size_t from, const std::vector<Frame> &fs) {
  for (size_t j = 0; j < B.size(); j++) if (j != from && B[j].onBus()) for (auto &f : fs) B[j].inbox.push_back(f);
}

// what the op did to a library instance, for the oracle
enum OpKind { OP_POLL, OP_CLAIM, OP_RAW, OP_CMD, OP_RESTART, OP_SEND };
struct Stim { OpKind k = OP_POLL; bool isClaim = false; uint64_t nm = 0; unsigned a = 0; unsigned dst = 255;
  std::string slotClass;                         // "", ":rx-slots-stale", ":rx-slots-busy" (input class of the receive path, see SlotBook)
  int sdev = 0; tN2kMsg *msg = nullptr;          // OP_SEND: the application's message
  bool ret = false; std::vector<Frame> all; };   // out: SendMsg result, every frame sent during the op in order

// Receive-slot bookkeeping of node 0 (level 1), from the documented policy only: MaxN2kCANMsgs = 5 messages can be under
// reassembly; a new message needs a slot; when none is free the oldest unfinished one is given up if it is at least
// Max_N2kMsgBuf_Time = 100 ms old. Times are the harness' 64-bit clock (no wrap). Used to name the input class of a claim:
//   ""                 a slot is free
//   ":rx-slots-stale"  all slots taken, the oldest unfinished message is >= 100 ms old: it must make room
//   ":rx-slots-busy"   all slots taken by unfinished messages younger than 100 ms: the library's documented capacity is exceeded,
//                      the frame may be dropped. Outside the property's quantifier (claimants only) and outside the hypothesis
//                      of C03_claim_not_lost: such steps are generated and compared with the model but NOT judged by the oracle.
struct SlotBook {
  struct E { unsigned long pgn; unsigned src; uint64_t t; unsigned len, got; unsigned char last; };
  std::vector<E> a;
  void clear() { a.clear(); }
  int find(unsigned long pgn, unsigned src) { for (size_t i = 0; i < a.size(); i++) if (a[i].pgn == pgn && a[i].src == src) return (int)i; return -1; }
  int oldest() { int o = 0; for (size_t i = 1; i < a.size(); i++) if (a[i].t < a[o].t) o = (int)i; return o; }
  // a single-frame / TP session needs a slot for a moment
  std::string need() {
    if (a.size() < 5) return "";
    int o = oldest(); if (g_now - a[o].t >= 100) { a.erase(a.begin() + o); return ":rx-slots-stale"; }
    return ":rx-slots-busy";
  }
  void firstFrame(unsigned long pgn, unsigned src, unsigned len, unsigned char b0) {
    E e{pgn, src, g_now, len, 6, b0};
    int i = find(pgn, src);
    if (i >= 0) { if (len > 6) a[i] = e; else a.erase(a.begin() + i); return; }
    if (a.size() >= 5) { int o = oldest(); if (g_now - a[o].t >= 100) a.erase(a.begin() + o); else return; }
    if (len > 6) a.push_back(e);
  }
  void contFrame(unsigned long pgn, unsigned src, unsigned char b0) {
    int i = find(pgn, src); if (i < 0) return;
    if ((unsigned char)(a[i].last + 1) != b0) { a.erase(a.begin() + i); return; }
    a[i].last = b0; a[i].got += 7; if (a[i].got >= a[i].len) a.erase(a.begin() + i);
  }
};
static SlotBook Slots;
static const unsigned long FP_PGNS[] = {129029UL, 129540UL, 130577UL, 127489UL, 130816UL, 126464UL};
static unsigned long rxPGN(unsigned long id) { unsigned long pf = (id >> 16) & 0xff, ps = (id >> 8) & 0xff, dp = (id >> 24) & 1; return pf < 240 ? (dp << 16) | (pf << 8) : (dp << 16) | (pf << 8) | ps; }
static bool isFpPGN(unsigned long pgn) { for (unsigned long p : FP_PGNS) if (p == pgn) return true; return false; }

// run the real library on node b; returns the claim frames it sent
static std::vector<Frame> libAct(size_t idx, const std::vector<Frame> &rx, Stim &st) {
  BusNode &b = B[idx]; Node &N = *b.n;
  int nd = b.ndev; bool claimant = b.mode == 1 || b.mode == 2;
  std::vector<unsigned> a0(nd); std::vector<uint64_t> n0(nd); std::vector<bool> tm0(nd);
  for (int i = 0; i < nd; i++) { a0[i] = N.src(i); n0[i] = N.name(i); tm0[i] = N.claimTimer(i); }
  bool wasOpen = N.isOpen();
  N.sent.clear(); N.atSend.clear();
  if (st.k == OP_RESTART) N.Restart();
  else if (st.k == OP_SEND) st.ret = N.SendMsg(*st.msg, st.sdev);
  else {
    if (N.openedAt >= 0) for (auto &f : rx) N.rx(f.id, f.len, f.buf);   // a controller that was not opened receives nothing
    N.ParseMessages();
  }
  st.all = N.sent;
  std::vector<Frame> claims, others;
  // (a) frames carry the address the library reports when it sends them
  for (size_t k = 0; k < N.sent.size(); k++) {
    const Frame &f = N.sent[k]; bool ok = false; unsigned s = (unsigned)(f.id & 0xff);
    if (isClaimId(f.id)) {
      claims.push_back(f); uint64_t nm; unsigned a;
      if (decodeClaim(f, nm, a)) for (auto &p : N.atSend[k]) if (p.first == nm && p.second == a) ok = true;
      if (!ok) C.fail("C03:claim-from-unreported-address", "node %zu sent %s, which is no (NAME, GetN2kSource) pair of it at that moment", idx, frameStr(f).c_str());
    } else {
      others.push_back(f);
      for (auto &p : N.atSend[k]) if (p.second == s) ok = true;
      if (s > 251) C.fail("C03:data-from-null-address", "node %zu sent %s: only address claims may leave from an address above 251", idx, frameStr(f).c_str());
      else if (!ok) C.fail("C03:data-from-unreported-address", "node %zu sent %s from an address GetN2kSource does not report", idx, frameStr(f).c_str());
      C.count("non_claim_frames_checked");
    }
  }
  N.sent.clear();
  // ------------------------------------------------------------ oracle (from the property statement, no model)
  std::vector<unsigned> a1(nd); std::vector<uint64_t> n1(nd);
  for (int i = 0; i < nd; i++) { a1[i] = N.src(i); n1[i] = N.name(i); }
  bool changed = false; for (int i = 0; i < nd; i++) if (a0[i] != a1[i]) changed = true;
  if (changed) { b.pendingChange = true; C.count("own_address_changes"); }
  auto sentClaim = [&](uint64_t nm, unsigned a) { for (auto &f : claims) { uint64_t n2; unsigned a2; if (decodeClaim(f, n2, a2) && n2 == nm && a2 == a) return true; } return false; };
  auto siblingHolds = [&](const std::vector<unsigned> &av, int me, unsigned a) { for (int j = 0; j < nd; j++) if (j != me && av[j] == a) return true; return false; };
  bool slotOk = st.slotClass != ":rx-slots-busy";     // hypothesis of C03_claim_not_lost: a receive slot is free or recyclable
  if (!slotOk && (st.isClaim || st.k == OP_CMD)) C.count("rx_slots_busy_not_judged");
  // (b) arbitration: a claim for an address one of our devices holds
  if (st.isClaim && wasOpen && claimant && st.a <= 251 && slotOk) {
    int holders = 0; for (int i = 0; i < nd; i++) if (a0[i] == st.a) holders++;
    for (int i = 0; i < nd && holders == 1; i++) if (a0[i] == st.a) {
      caseContest = true;
      if (n0[i] < st.nm) {
        C.count("arbitration_won");
        if (a1[i] != st.a) C.fail("C03:lower-name-lost", "device %d NAME %llx held %u against %llx and moved to %u", i, (unsigned long long)n0[i], st.a, (unsigned long long)st.nm, a1[i]);
        else if (!sentClaim(n1[i], st.a)) C.fail("C03:no-reclaim" + st.slotClass, "device %d kept %u against %llx without claiming it again", i, st.a, (unsigned long long)st.nm);
      } else if (n0[i] > st.nm) {
        C.count("arbitration_lost");
        if (a1[i] == st.a) C.fail("C03:higher-name-kept" + st.slotClass, "device %d NAME %llx kept %u against lower NAME %llx", i, (unsigned long long)n0[i], st.a, (unsigned long long)st.nm);
        else {
          if (!(a1[i] <= 251 || a1[i] == 254) || (a1[i] <= 251 && siblingHolds(a1, i, a1[i])))
            C.fail("C03:bad-next-address", "device %d moved from %u to %u (siblings %s)", i, st.a, a1[i], addrsOf(b).c_str());
          if (!sentClaim(n1[i], a1[i])) C.fail("C03:no-claim-after-move", "device %d moved to %u without claiming it", i, a1[i]);
          if (a1[i] == 254) C.count("went_to_null");
        }
      } else C.count("equal_name_claims");
    }
  }
  // (c) several devices of one instance on one address
  for (int i = 0; i < nd; i++) for (int j = i + 1; j < nd; j++)
    if (a1[i] == a1[j] && a1[i] <= 251 && !(a0[i] == a0[j])) {
      if (st.k == OP_CMD) caseCmdSibling = true;
      C.fail(st.k == OP_CMD ? "C03:commanded-onto-sibling" : "C03:sibling-duplicate", "devices %d and %d of node %zu both at %u", i, j, idx, a1[i]);
    }
  // (d) commanded address naming one of our NAMEs, free address: taken, claimed
  if (st.k == OP_CMD && wasOpen && claimant && st.a <= 251 && slotOk) {
    for (int i = 0; i < nd; i++) if (n0[i] == st.nm && (st.dst == 255 || (st.dst == a0[i] && !siblingHolds(a0, i, st.dst))) && a0[i] != st.a && !siblingHolds(a0, i, st.a)) {
      int same = 0; for (int j = 0; j < nd; j++) if (n0[j] == st.nm) same++;
      if (same != 1) continue;
      C.count("commanded_address_taken");
      if (a1[i] != st.a) C.fail("C03:commanded-not-taken" + st.slotClass, "device %d NAME %llx commanded to %u is at %u", i, (unsigned long long)st.nm, st.a, a1[i]);
      else if (!sentClaim(n1[i], st.a)) C.fail("C03:no-claim-after-move", "device %d commanded to %u did not claim it", i, st.a);
    }
  }
  // (e) a node that just opened announces every device
  if (!wasOpen && N.isOpen() && claimant) for (int i = 0; i < nd; i++) if (!sentClaim(n1[i], a1[i])) C.fail("C03:no-claim-on-open", "device %d at %u not announced", i, a1[i]);
  // (g) one search visits every address at most once and ends at 254 after at most 252 lost arbitrations
  if (claimant) {
    if ((int)b.search.size() != nd) b.search.assign(nd, BusNode::Search());
    bool fresh = st.k == OP_CMD || st.k == OP_RESTART || (!wasOpen && N.isOpen());
    for (int i = 0; i < nd; i++) {
      BusNode::Search &S = b.search[i];
      if (!S.init || fresh || g_now - S.lastClaim >= 250) { S.visited.clear(); S.visited.insert(fresh ? a1[i] : a0[i]); S.lost = 0; S.init = true; }
      if (!fresh && a1[i] != a0[i]) {
        S.lost++;
        if (a1[i] <= 251 && !S.visited.insert(a1[i]).second)
          C.fail("C03:address-claimed-twice-in-search", "device %d moved from %u to %u, which it already tried in this search (%d lost arbitrations)", i, a0[i], a1[i], S.lost);
        if (S.lost == 253 && a1[i] != 254)
          C.fail("C03:search-not-exhausted", "device %d lost 253 arbitrations in one search and is at %u, not at 254", i, a1[i]);
      }
      if (sentClaim(n1[i], a1[i])) S.lastClaim = g_now;
    }
  }
  // (f) only claimants with valid addresses
  for (int i = 0; i < nd; i++) if (a1[i] != a0[i] && !(a1[i] <= 251 || a1[i] == 254)) C.fail("C03:bad-next-address", "device %d moved from %u to %u", i, a0[i], a1[i]);
  return claims;
}

static void actOut(size_t idx, const std::vector<Frame> &out) {
  broadcast(idx, out);
  C.outs(framesStr(out) + " | " + addrsOf(B[idx]) + " | " + inboxLens());
}

// record which addresses are held by somebody (for the null-address check)
static void noteHeld() {
  for (size_t i = 0; i < B.size(); i++) {
    if (!B[i].onBus()) continue;
    if (B[i].lib) { for (int d = 0; d < B[i].ndev; d++) everHeld[B[i].n->src(d)][16 * i + d] = true; }
    else everHeld[B[i].f.addr & 0xff][16 * i] = true;
  }
}

static bool parsePair(const std::string &s, unsigned &src, uint64_t &name) {
  size_t c = s.find(':'); if (c == std::string::npos) return false;
  src = (unsigned)strtoul(s.substr(0, c).c_str(), 0, 10); name = strtoull(s.substr(c + 1).c_str(), 0, 16); return true;
}

static void makeLib(BusNode &b, int mode, const std::vector<std::pair<unsigned, uint64_t>> &devs) {
  b.lib = true; b.mode = mode; b.ndev = (int)devs.size(); b.n.reset(new Node());
  Node &N = *b.n;
  N.SetDeviceCount((uint8_t)devs.size());
  for (size_t i = 0; i < devs.size(); i++) { N.SetDeviceInformation(1 + i, 130, 25, 2000, 4, (int)i); N.setName((int)i, devs[i].second); }
  N.SetMode((tNMEA2000::tN2kMode)mode, 0);
  for (size_t i = 0; i < devs.size(); i++) N.SetN2kSource((unsigned char)devs[i].first, (int)i);
  N.EnableForward(false);
  N.ReadResetDeviceInformationChanged();   // set-up noise; from here on only the equal-NAME instance bump sets it
}

static void quiescenceOracle() {
  for (auto &b : B) if (!b.inbox.empty()) return;
  C.count("quiescent_states_checked");
  struct Cl { size_t node; int dev; uint64_t name; unsigned addr; };
  std::vector<Cl> cl;
  for (size_t i = 0; i < B.size(); i++) {
    if (!B[i].onBus()) continue;
    if (B[i].lib) { if (B[i].mode == 1 || B[i].mode == 2) for (int d = 0; d < B[i].ndev; d++) cl.push_back({i, d, B[i].n->name(d), B[i].n->src(d)}); }
    else cl.push_back({i, 0, B[i].f.name, B[i].f.addr});
  }
  for (size_t x = 0; x < cl.size(); x++) for (size_t y = x + 1; y < cl.size(); y++)
    if (cl[x].addr == cl[y].addr && cl[x].addr <= 251) {
      if (cl[x].node != cl[y].node) C.fail("C03:duplicate-address", "nodes %zu and %zu both hold %u with no claim in flight", cl[x].node, cl[y].node, cl[x].addr);
      else if (!caseCmdSibling) C.fail("C03:sibling-duplicate-at-quiescence", "devices %d and %d of node %zu both hold %u", cl[x].dev, cl[y].dev, cl[x].node, cl[x].addr);
    }
  for (auto &c : cl) if (B[c.node].lib) {
    if (!(c.addr <= 251 || c.addr == 254)) C.fail("C03:bad-final-address", "node %zu device %d at %u", c.node, c.dev, c.addr);
    if (c.addr == 254) {
      // it gave up: then every address must have been held by somebody else at some time of this case
      for (unsigned a = 0; a <= 251; a++) {
        bool held = false; size_t me = 16 * c.node + c.dev;
        for (size_t k = 0; k < everHeld[a].size(); k++) if (k != me && everHeld[a][k]) held = true;
        if (!held) { C.fail("C03:null-with-free-address", "node %zu device %d is at 254 although %u was never held by anyone", c.node, c.dev, a); break; }
      }
      C.count("final_null_address");
    }
  }
}

static void exec(const std::string &line0) {
  std::vector<std::string> w = split(line0);
  std::string line = line0;
  if (w.empty()) return;
  if (w[0] == "reset" || w[0] == "bus") {
    endCase();
    // the flavour token is a property of this binary
    w[1] = FLAVOR; line.clear(); for (size_t i = 0; i < w.size(); i++) { if (i) line += ' '; line += w[i]; }
    C.op("%s", line.c_str()); caseDesc = line; C.count("op_" + w[0]);
    B.clear();
    bool ok = true;
    if (w[0] == "reset" && w.size() >= 5) {
      int mode = atoi(w[2].c_str()); g_now = strtoull(w[3].c_str(), 0, 10);
      std::vector<std::pair<unsigned, uint64_t>> devs;
      for (size_t i = 4; i < w.size(); i++) { unsigned s; uint64_t n; if (!parsePair(w[i], s, n)) ok = false; devs.push_back({s, n}); }
      if (ok && !devs.empty() && devs.size() <= 9) { B.emplace_back(); makeLib(B.back(), mode, devs); } else ok = false;
    } else if (w[0] == "bus" && w.size() >= 4) {
      g_now = strtoull(w[2].c_str(), 0, 10);
      for (size_t i = 3; i < w.size() && ok; i++) {
        const std::string &s = w[i];
        if (s.size() > 3 && s[0] == 'L' && s[2] == ':') {
          int mode = s[1] - '0'; std::vector<std::pair<unsigned, uint64_t>> devs; std::string rest = s.substr(3); size_t p = 0;
          while (p <= rest.size()) { size_t c = rest.find(',', p); if (c == std::string::npos) c = rest.size(); unsigned a; uint64_t n; if (!parsePair(rest.substr(p, c - p), a, n)) ok = false; devs.push_back({a, n}); p = c + 1; }
          if (ok && !devs.empty() && devs.size() <= 9) { B.emplace_back(); makeLib(B.back(), mode, devs); } else ok = false;
        } else if (s.size() > 3 && s[0] == 'F' && s[2] == ':') {
          unsigned a; uint64_t n; if (!parsePair(s.substr(3), a, n)) { ok = false; break; }
          B.emplace_back(); B.back().f.name = n; B.back().f.pref = a; B.back().f.selfCfg = s[1] == '1';
        } else if (s.size() > 3 && s[0] == 'G' && s[2] == ':') {     // a foreign node that is already on the bus with its address
          unsigned a; uint64_t n; if (!parsePair(s.substr(3), a, n)) { ok = false; break; }
          B.emplace_back(); B.back().f.name = n; B.back().f.pref = a; B.back().f.selfCfg = s[1] == '1'; B.back().f.addr = a; B.back().f.started = true;
        } else ok = false;
      }
    } else ok = false;
    if (!ok) { B.clear(); C.out("bad-op"); return; }
    Slots.clear();
    for (auto &v : everHeld) v.assign(16 * B.size(), false);
    noteHeld();
    C.out("ok"); return;
  }
  C.op("%s", line.c_str()); C.count("op_" + w[0]); caseDesc += ';'; caseDesc += line; stepsThisCase++;
  if (B.empty()) { C.out("bad-op"); return; }
  auto nodeArg = [&](size_t k) -> long { if (w.size() <= k) return -1; long i = atol(w[k].c_str()); return (i >= 0 && (size_t)i < B.size()) ? i : -1; };
  if (w[0] == "t" && w.size() == 2) { g_now += strtoull(w[1].c_str(), 0, 10); C.out("ok"); return; }
  // ---------------------------------------------------------------- level 1
  if (w[0] == "poll" || w[0] == "claim" || w[0] == "rxc" || w[0] == "cmdaddr" || w[0] == "restart" || w[0] == "send") {
    BusNode &b = B[0]; if (!b.lib) { C.out("bad-op"); return; }
    std::vector<Frame> rx; Stim st; SlotBook after = Slots; tN2kMsg m;
    if (w[0] == "claim" && w.size() == 3) {
      st.k = OP_CLAIM; st.isClaim = true; st.a = (unsigned)strtoul(w[1].c_str(), 0, 10); st.nm = strtoull(w[2].c_str(), 0, 16);
      if (st.a > 255) { C.out("bad-op"); return; }
      rx.push_back(mkClaim(st.nm, st.a)); st.slotClass = after.need();
    } else if (w[0] == "rxc" && w.size() == 4) {
      st.k = OP_RAW; std::vector<unsigned char> d = unhex(w[3]); d.resize(8, 0);
      unsigned len = (unsigned)strtoul(w[2].c_str(), 0, 10); if (len > 8) { C.out("bad-op"); return; }
      Frame f = mkFrame(strtoul(w[1].c_str(), 0, 16), len, d.data());
      st.isClaim = decodeClaim(f, st.nm, st.a);
      unsigned long pgn = rxPGN(f.id); unsigned src = (unsigned)(f.id & 0xff);
      if (isFpPGN(pgn)) { if ((f.buf[0] & 0x1f) == 0) after.firstFrame(pgn, src, len >= 2 ? f.buf[1] : 0xAA, f.buf[0]); else after.contFrame(pgn, src, f.buf[0]); }
      else st.slotClass = after.need();
      rx.push_back(f);
    } else if (w[0] == "cmdaddr" && w.size() == 4) {
      st.k = OP_CMD; st.nm = strtoull(w[1].c_str(), 0, 16); st.a = (unsigned)strtoul(w[2].c_str(), 0, 10); st.dst = (unsigned)strtoul(w[3].c_str(), 0, 10);
      if (st.a > 255 || st.dst > 255) { C.out("bad-op"); return; }
      rx = mkCommanded(st.nm, st.a, st.dst); st.slotClass = after.need();
    } else if (w[0] == "send" && w.size() == 8) {
      // send <dev|-1> <prio> <pgn> <preset source> <dst> <len> <hexdata>: the application's SendMsg; the Source field is what the caller left in the message
      st.k = OP_SEND; st.sdev = atoi(w[1].c_str()); std::vector<unsigned char> d = unhex(w[7]); int len = atoi(w[6].c_str());
      if (len < 0 || len > 223 || (int)d.size() < len) { C.out("bad-op"); return; }
      memset(m.Data, 0x55, sizeof m.Data);
      m.Priority = (unsigned char)strtoul(w[2].c_str(), 0, 10); m.PGN = strtoul(w[3].c_str(), 0, 10); m.Source = (unsigned char)strtoul(w[4].c_str(), 0, 10);
      m.Destination = (unsigned char)strtoul(w[5].c_str(), 0, 10); m.DataLen = len; if (!d.empty()) memcpy(m.Data, d.data(), d.size() > 223 ? 223 : d.size());
      st.msg = &m;
    } else if (w[0] == "restart" && w.size() == 1) st.k = OP_RESTART;
    else if (w[0] == "poll" && w.size() == 1) st.k = OP_POLL;
    else { C.out("bad-op"); return; }
    std::vector<Frame> out = libAct(0, rx, st);
    if (b.n->isOpen() && !rx.empty()) Slots = after;      // the frames were read in this call
    b.inbox.clear();
    if (st.k == OP_SEND) { broadcast(0, out); C.outs(std::string(st.ret ? "1 " : "0 ") + framesStr(st.all) + " | " + addrsOf(b) + " | " + inboxLens()); }
    else actOut(0, out);
    noteHeld(); return;
  }
  // ---------------------------------------------------------------- level 2
  if (w[0] == "d" || w[0] == "p" || w[0] == "cmd" || w[0] == "rs") {
    long i = nodeArg(1); if (i < 0) { C.out("bad-op"); return; }
    BusNode &b = B[i]; std::vector<Frame> out;
    if (w[0] == "d" && w.size() == 2) {
      if (b.inbox.empty()) { C.out("idle"); return; }
      Frame f = b.inbox.front(); b.inbox.pop_front();
      uint64_t nm = 0; unsigned a = 0; bool isC = decodeClaim(f, nm, a);
      if (b.lib) { Stim st; st.k = OP_CLAIM; st.isClaim = isC; st.nm = nm; st.a = a; out = libAct(i, {f}, st); }
      else if (isC) { unsigned before = b.f.addr; out = b.f.onClaim(nm, a); if (b.f.addr != before) caseContest = true; }
    } else if (w[0] == "p" && w.size() == 2) {
      if (b.lib) { Stim st; out = libAct(i, {}, st); } else out = b.f.start();
    } else if (w[0] == "cmd" && w.size() == 5) {
      unsigned dst = (unsigned)strtoul(w[2].c_str(), 0, 10); uint64_t nm = strtoull(w[3].c_str(), 0, 16); unsigned a = (unsigned)strtoul(w[4].c_str(), 0, 10);
      if (a > 255 || dst > 255) { C.out("bad-op"); return; }
      if (b.lib) { Stim st; st.k = OP_CMD; st.nm = nm; st.a = a; st.dst = dst; out = libAct(i, mkCommanded(nm, a, dst), st); }
      else out = b.f.onCommanded(nm, a);
    } else if (w[0] == "rs" && w.size() == 2) {
      if (b.lib) { Stim st; st.k = OP_RESTART; out = libAct(i, {}, st); }
    } else { C.out("bad-op"); return; }
    actOut((size_t)i, out); noteHeld(); return;
  }
  // ---------------------------------------------------------------- observation
  if (w[0] == "get") {
    long i = w.size() > 1 ? nodeArg(1) : 0; if (i < 0) { C.out("bad-op"); return; }
    BusNode &b = B[i]; std::string names, ends; char t[32];
    if (b.lib) for (int d = 0; d < b.ndev; d++) { snprintf(t, sizeof t, "%s%llx", d ? "," : "", (unsigned long long)b.n->name(d)); names += t; snprintf(t, sizeof t, "%s%u", d ? "," : "", b.n->endSrc(d)); ends += t; }
    else { snprintf(t, sizeof t, "%llx", (unsigned long long)b.f.name); names = t; ends = "-"; }
    C.outs(addrsOf(b) + " " + names + " " + ends); return;
  }
  if (w[0] == "changed") {
    long i = w.size() > 1 ? nodeArg(1) : 0; if (i < 0) { C.out("bad-op"); return; }
    BusNode &b = B[i]; if (!b.lib) { C.out("-"); return; }
    bool r = b.n->ReadResetAddressChanged();
    if (b.pendingChange && !r) C.fail("C03:change-not-reported", "an own address of node %ld changed since the last read and the indication is not set (addresses %s)", i, addrsOf(b).c_str());
    if (b.pendingChange) C.count("changes_reported");
    b.pendingChange = false;
    C.out("%d", (int)r); return;
  }
  if (w[0] == "q" && w.size() == 1) {
    std::string s; for (size_t i = 0; i < B.size(); i++) { if (i) s += ' '; s += addrsOf(B[i]) + "/" + std::to_string(B[i].inbox.size()); }
    C.outs(s); quiescenceOracle(); return;
  }
  C.out("bad-op");
}

// ================================================================================================ generators
static uint64_t nextOrigin(Rng &R) {
  // origins whose low 32 bits sit near the wrap / half-wrap / small values; the 64-bit clock itself only moves forward
  // (tN2kSyncScheduler::SyncOffset and the t32 roll counter are process-wide)
  static const uint64_t offs[] = {1000, 0xFFFFFFFFULL - 100, 0xFFFFFFFFULL - 260, 0xFFFFFFFFULL, 0x7FFFFFFFULL - 120, 0xFFFFFF00ULL - 460, 5, 0x80000000ULL};
  uint64_t off = R.chance(1, 4) ? R.below(0xFFFFFFFFULL) : offs[R.below(sizeof offs / sizeof *offs)];
  uint64_t epoch = (g_now >> 32) + 1;
  return (epoch << 32) | off;
}
static std::string hx(uint64_t v) { char b[32]; snprintf(b, sizeof b, "%llx", (unsigned long long)v); return b; }

// NAMEs as the library would build them: top bit set (arbitrary address capable), ordering decided by the given rank
static uint64_t mkName(Rng &R, unsigned rank) {
  uint64_t base = 0xC000000000000000ULL | ((uint64_t)R.below(4) << 56);
  switch (R.below(4)) {
    case 0: return 0xC032820000000000ULL + ((uint64_t)rank << 21) + R.below(1 << 20);          // differ in the manufacturer code
    case 1: return 0xC0328200FA000000ULL + rank * 16 + R.below(16);                              // differ in the unique number only
    case 2: return (base & 0xC0FFFFFFFFFFFFFFULL) + ((uint64_t)rank << 40) + R.below(1ULL << 32); // differ in function/class
    default: return 0x8000000000000000ULL + ((uint64_t)rank << 48) + (R.below(1ULL << 40));
  }
}

static unsigned pickAddr(Rng &R, int window) {
  switch (window) {
    case 0: return (unsigned)R.range(20, 24);
    case 1: return (unsigned)((249 + R.below(6)) % 252);      // 249,250,251,0,1,2
    case 2: return (unsigned)R.range(0, 3);
    case 3: return (unsigned)R.range(12, 16);                   // around the restart address 14
    default: return (unsigned)R.below(252);
  }
}

// The property fixes no duration for the settle time between CANOpen() and the first claim: after the nominal start-up
// sequence the generators keep polling until the node reports that it is open (a later opener is a late joiner).
static void untilOpen1() { for (int k = 0; k < 40 && !B[0].n->isOpen(); k++) { exec("t 50"); exec("poll"); } }
static void untilOpen2(size_t i) { for (int k = 0; k < 40 && !B[i].n->isOpen(); k++) { exec("t 50"); exec("p " + std::to_string(i)); } }

// ------------------------------------------------------------------------------------------------ level 1
// an application send: the Source field of the message is NOT the device address (default-constructed tN2kMsg has 15)
static void genSend(Rng &R, int nd) {
  Node &N = *B[0].n;
  static const unsigned long pg[] = {127488UL, 127250UL, 130306UL, 127488UL, 129029UL, 126993UL, 59904UL, 127488UL};
  unsigned long pgn = pg[R.below(sizeof pg / sizeof *pg)];
  int d = R.chance(1, 20) ? nd : (int)R.below(nd);    // (device index -1 keeps the caller's source by documented design: not a claimant's frame, see C01)
  unsigned src; switch (R.below(5)) { case 0: src = 254; break; case 1: src = N.src((int)R.below(nd)); break; case 2: src = (unsigned)R.below(256); break; default: src = 15; }
  int len = pgn == 129029UL ? (int)R.range(9, 43) : (pgn == 59904UL ? 3 : 8);
  std::vector<unsigned char> data(len); for (auto &x : data) x = (unsigned char)R.below(256);
  char hd[96]; snprintf(hd, sizeof hd, "send %d %u %lu %u %u %d ", d, (unsigned)R.range(2, 6), pgn, src, pgn == 59904UL ? (unsigned)R.below(256) : 255u, len);
  exec(std::string(hd) + hex(data.data(), data.size()));
}

// first frame of a fast-packet message from `src` announcing `total` bytes (the rest may never arrive)
static void genFpFirst(Rng &R, unsigned src, unsigned long pgn, unsigned total, unsigned seq) {
  unsigned char d[8]; d[0] = (unsigned char)(seq << 5); d[1] = (unsigned char)total; for (int i = 2; i < 8; i++) d[i] = (unsigned char)R.below(256);
  unsigned long id = (3UL << 26) | (pgn << 8) | src;
  exec("rxc " + hx(id) + " 8 " + hex(d, 8));
}
static void genFpCont(Rng &R, unsigned src, unsigned long pgn, unsigned seq, unsigned k) {
  unsigned char d[8]; d[0] = (unsigned char)((seq << 5) | k); for (int i = 1; i < 8; i++) d[i] = (unsigned char)R.below(256);
  exec("rxc " + hx((3UL << 26) | (pgn << 8) | src) + " 8 " + hex(d, 8));
}

// claim contention while other talkers keep the receive slots busy with unfinished fast-packet messages;
// in half of the cases the 32-bit millisecond clock wraps between those messages and the claim
static void level1Pressure(Rng &R) {
  int nd = R.chance(2, 3) ? 1 : 2; unsigned a0 = pickAddr(R, (int)R.below(5));
  uint64_t origin = nextOrigin(R);
  bool wrapCase = R.chance(1, 2);
  if (wrapCase) origin = (origin & ~0xFFFFFFFFULL) | (0x100000000ULL - 470 - R.below(2600));
  std::string l = std::string("reset ") + FLAVOR + " " + std::to_string(R.chance(1, 2) ? 1 : 2) + " " + std::to_string(origin);
  std::vector<uint64_t> names; for (int i = 0; i < nd; i++) { names.push_back(mkName(R, 10 + i)); l += " " + std::to_string((a0 + 2 * i) % 252) + ":" + hx(names[i]); }
  exec(l); exec("t 1"); exec("poll"); exec("t 201"); exec("poll"); untilOpen1(); exec("t 251"); exec("poll"); exec("changed");
  Node &N = *B[0].n;
  static const unsigned long fps[] = {129029UL, 129540UL, 130577UL, 127489UL, 130816UL};
  static const int waits[] = {0, 1, 50, 98, 99, 100, 101, 150, 400, 2500, 2500, 5000};
  int rounds = (int)R.range(1, 3);
  for (int r = 0; r < rounds; r++) {
    int k = (int)R.range(3, 7); unsigned base = 40 + 10 * r;
    for (int i = 0; i < k; i++) {
      genFpFirst(R, base + i, fps[R.below(5)], (unsigned)R.range(20, 60), (unsigned)R.below(8));
      if (R.chance(1, 3)) exec("t " + std::to_string(R.range(1, 4)));
    }
    if (R.chance(1, 4)) { genFpFirst(R, base + 9, 129029UL, 10, 1); genFpCont(R, base + 9, 129029UL, 1, 1); }   // one that completes
    int w = waits[R.below(sizeof waits / sizeof *waits)];
    if (w >= 400 && R.chance(1, 2)) { for (int t = 0; t < w; t += 50) { exec("t 50"); exec("poll"); } } else if (w) exec("t " + std::to_string(w));
    int d = (int)R.below(nd);
    for (int rep = 0; rep < 2; rep++) {
      if (R.chance(1, 5)) exec("cmdaddr " + hx(N.name(d)) + " " + std::to_string((N.src(d) + 7) % 252) + " 255");
      else exec("claim " + std::to_string(N.src(d)) + " " + hx(R.chance(2, 3) ? N.name(d) - 1 - R.below(3) : N.name(d) + 1 + R.below(3)));
      exec("changed");
      if (rep == 0) { if (R.chance(1, 2)) { exec("t 1000"); exec("poll"); } else exec("t " + std::to_string(R.range(0, 120))); }
    }
    if (R.chance(1, 2)) genSend(R, nd);
    exec("get");
  }
  C.count("pressure_cases"); if (wrapCase) C.count("pressure_cases_across_wrap");
}

static void level1Case(Rng &R) {
  int nd = R.chance(1, 3) ? 1 : (int)R.range(1, 9);
  int mode = R.chance(1, 10) ? (int)R.below(5) : (R.chance(1, 2) ? 1 : 2);
  int window = (int)R.below(5);
  std::vector<unsigned> addr; std::vector<uint64_t> name;
  for (int i = 0; i < nd; i++) {
    unsigned a; int guard = 0; do { a = pickAddr(R, guard++ > 20 ? 4 : window); } while (std::find(addr.begin(), addr.end(), a) != addr.end());
    if (R.chance(1, 25)) a = 254;            // configured without an address: restart from 14 at open
    addr.push_back(a); name.push_back(mkName(R, 10 + (unsigned)R.below(20)));
  }
  std::string l = std::string("reset ") + FLAVOR + " " + std::to_string(mode) + " " + std::to_string(nextOrigin(R));
  for (int i = 0; i < nd; i++) l += " " + std::to_string(addr[i]) + ":" + hx(name[i]);
  exec(l);
  Node &N = *B[0].n;
  // usually open first
  if (R.chance(9, 10)) { exec("t " + std::to_string(R.range(1, 3))); exec("poll"); exec("t " + std::to_string(R.range(199, 203))); exec("poll"); if (R.chance(1, 2)) { exec("t 251"); exec("poll"); } }
  int nops = (int)R.range(10, 60);
  bool readEvery = R.chance(1, 2);     // the application reads the indication after every step: no stale latch can hide a missing report
  if (readEvery) exec("changed");
  for (int k = 0; k < nops; k++) {
    unsigned r = (unsigned)R.below(100);
    int d = (int)R.below(nd);
    if (readEvery && k > 0) exec("changed");
    if (r < 40) {          // a claim, mostly for an address we hold
      unsigned a = R.chance(4, 5) ? N.src(d) : (R.chance(1, 2) ? pickAddr(R, window) : (unsigned)R.range(250, 255));
      uint64_t mine = N.name(d), nm;
      switch (R.below(7)) { case 0: nm = mine - 1 - R.below(5); break; case 1: nm = mine + 1 + R.below(5); break; case 2: nm = mine; break;
        case 3: nm = mkName(R, (unsigned)R.below(10)); break; case 4: nm = mkName(R, 30 + (unsigned)R.below(10)); break; case 5: nm = R.chance(1, 2) ? 0 : 0xFFFFFFFFFFFFFFFFULL; break; default: nm = R.next(); }
      exec("claim " + std::to_string(a) + " " + hx(nm));
    } else if (r < 47) {   // odd but legal/illegal claim frames: other priority/destination, reserved bits, short DLC, other PGNs nearby
      unsigned long id = ((unsigned long)R.below(8) << 26) | (R.chance(1, 6) ? (1UL << 25) : 0) | (R.chance(1, 8) ? (1UL << 24) : 0) | (0xEEUL << 16) | ((unsigned long)(R.chance(1, 2) ? 255 : R.below(256)) << 8) | (R.chance(3, 4) ? N.src(d) : (unsigned)R.below(256));
      unsigned len = R.chance(1, 2) ? 8 : (unsigned)R.below(9);
      unsigned char dd[8]; uint64_t nm = R.chance(1, 2) ? N.name(d) - 3 + R.below(7) : R.next(); for (int i = 0; i < 8; i++) dd[i] = (unsigned char)(nm >> (8 * i));
      exec("rxc " + hx(id) + " " + std::to_string(len) + " " + hex(dd, 8));
    } else if (r < 60) {   // commanded address
      uint64_t nm = R.chance(5, 6) ? N.name(d) : R.next();
      unsigned a; switch (R.below(6)) { case 0: a = N.src((int)R.below(nd)); break; case 1: a = (unsigned)R.range(250, 255); break; default: a = pickAddr(R, R.chance(1, 2) ? window : 4); }
      unsigned dst = R.chance(1, 2) ? 255 : (R.chance(3, 4) ? N.src(R.chance(3, 4) ? d : (int)R.below(nd)) : (unsigned)R.below(256));
      exec("cmdaddr " + hx(nm) + " " + std::to_string(a) + " " + std::to_string(dst));
    } else if (r < 75) { static const int dts[] = {0, 1, 2, 50, 100, 249, 250, 251, 252, 300, 1000, 12000, 61000}; exec("t " + std::to_string(dts[R.below(R.chance(1, 8) ? 13 : 10)])); }
    else if (r < 83) exec("poll");
    else if (r < 87) genSend(R, nd);
    else if (r < 90) exec("restart");
    else if (r < 95) exec("get");
    else exec("changed");
  }
  exec("get"); exec("changed");
}

// one device loses every arbitration until the address space is exhausted, then Restart()
// variant: -1 random start; 0/1/2 search starts at preferred address 0 / 251 / 1; 3 settled on 0 after the 251->0 wrap; 4 commanded to 0
static void level1Exhaust(Rng &R, int variant = -1) {
  int nd = variant >= 0 ? (int)R.range(1, 2) : (int)R.range(1, 4);
  unsigned start = pickAddr(R, (int)R.below(5));
  if (variant == 0) start = 0; else if (variant == 1 || variant == 3) start = 251; else if (variant == 2) start = 1; else if (variant == 4) start = 100;
  std::string l = std::string("reset ") + FLAVOR + " " + std::to_string(R.chance(1, 2) ? 1 : 2) + " " + std::to_string(nextOrigin(R));
  std::vector<uint64_t> nm; for (int i = 0; i < nd; i++) nm.push_back(mkName(R, 20 + i));
  for (int i = 0; i < nd; i++) l += " " + std::to_string((start + 30 * i) % 252) + ":" + hx(nm[i]);
  exec(l); exec("t 1"); exec("poll"); exec("t 201"); exec("poll"); untilOpen1();
  if (variant == 3) { exec("claim 251 " + hx(0x900)); exec("changed"); exec("t 251"); exec("poll"); }          // loses 251, takes 0, holds it for 250 ms
  if (variant == 4) { exec("t 251"); exec("poll"); exec("cmdaddr " + hx(nm[0]) + " 0 255"); exec("changed"); if (R.chance(1, 2)) { exec("t 251"); exec("poll"); } }
  Node &N = *B[0].n; int d = variant >= 0 ? 0 : (int)R.below(nd); bool expire = variant < 0 && R.chance(1, 3);
  exec("changed");
  // a wall of lower NAMEs: every address the device tries is claimed back, 252 frames until the search is exhausted;
  // the indication is read after EVERY step, so each move (and the final one to 254) must be reported by itself
  for (int k = 0; k < (expire ? 600 : 300) && N.src(d) != 254; k++) {
    exec("claim " + std::to_string(N.src(d)) + " " + hx(0x1000 + k));
    exec("changed");
    if (k % 60 == 7) genSend(R, nd);
    if (expire && k == 100) { exec("t 251"); exec("poll"); exec("changed"); }     // a successful claim in between moves the end-of-search address
  }
  if (N.src(d) != 254) C.count("wall_not_exhausted");      // judged by the oracle: C03:search-not-exhausted / C03:address-claimed-twice-in-search
  exec("get"); exec("changed"); exec("claim 254 1"); exec("changed"); exec("t 300"); exec("poll"); exec("changed");
  // the device could not claim an address: the application keeps sending, heartbeats fall due - nothing but claims may leave from 254
  for (int k = 0; k < 6; k++) genSend(R, nd);
  exec("t 12000"); exec("poll"); genSend(R, nd); exec("t 61000"); exec("poll"); exec("poll"); genSend(R, nd); exec("changed");
  exec("restart"); exec("changed"); exec("get"); genSend(R, nd); exec("t 251"); exec("poll"); genSend(R, nd);
  C.count("exhaust_cases");
}

// ------------------------------------------------------------------------------------------------ level 2
struct NodeSpec { bool lib; int mode; std::vector<std::pair<unsigned, uint64_t>> devs; bool selfCfg; bool started = false; };
static std::string busLine(const std::vector<NodeSpec> &ns, uint64_t origin) {
  std::string l = std::string("bus ") + FLAVOR + " " + std::to_string(origin);
  for (auto &n : ns) {
    l += ' ';
    if (n.lib) { l += "L" + std::to_string(n.mode) + ":"; for (size_t i = 0; i < n.devs.size(); i++) { if (i) l += ','; l += std::to_string(n.devs[i].first) + ":" + hx(n.devs[i].second); } }
    else l += std::string(n.started ? "G" : "F") + (n.selfCfg ? "1" : "0") + ":" + std::to_string(n.devs[0].first) + ":" + hx(n.devs[0].second);
  }
  return l;
}

struct Chooser {   // stateless depth-first enumeration of schedules by re-execution
  std::vector<int> choice, width; size_t depth = 0; size_t maxDepth = 64; Rng *rnd = nullptr;
  int pick(int k) {
    if (k <= 1) return 0;
    if (rnd) return (int)rnd->below(k);
    if (depth < choice.size()) { width[depth] = k; int c = choice[depth++]; return c < k ? c : k - 1; }
    if (depth >= maxDepth) return 0;
    choice.push_back(0); width.push_back(k); depth++; return 0;
  }
  bool next() { depth = 0; while (!choice.empty()) { if (choice.back() + 1 < width.back()) { choice.back()++; return true; } choice.pop_back(); width.pop_back(); } return false; }
};

static bool anyTimer() { for (auto &b : B) if (b.lib && b.n->isOpen()) for (int d = 0; d < b.ndev; d++) if (b.n->claimTimer(d)) return true; return false; }
static bool allEmpty() { for (auto &b : B) if (!b.inbox.empty()) return false; return true; }

struct CmdPlan { bool use = false; uint64_t name; unsigned addr; unsigned dst; };

// run one schedule of configuration ns; returns false if the step budget ran out before quiescence
static bool g_readEvery = false;   // level 2: every library node's application reads the indication after each of its steps
static void readAll() { if (g_readEvery) for (size_t i = 0; i < B.size(); i++) if (B[i].lib) exec("changed " + std::to_string(i)); }
static bool runSchedule(const std::vector<NodeSpec> &ns, uint64_t origin, Chooser &ch, const CmdPlan &cmd, int maxSteps, bool randomTimes) {
  exec(busLine(ns, origin));
  bool cmdLeft = cmd.use; int steps = 0;
  static const int dts[] = {1, 10, 100, 249, 250, 251, 300};
  while (steps++ < maxSteps) {
    struct Act { int kind; size_t i; };   // 0 deliver, 1 start, 2 deadline, 3 cmd
    std::vector<Act> acts;
    for (size_t i = 0; i < B.size(); i++) if (!B[i].inbox.empty()) acts.push_back({0, i});
    for (size_t i = 0; i < B.size(); i++) if (!B[i].onBus() && !(B[i].lib && !(B[i].mode == 1 || B[i].mode == 2))) acts.push_back({1, i});
    if (anyTimer()) acts.push_back({2, 0});
    if (cmdLeft) acts.push_back({3, 0});
    if (acts.empty()) break;
    Act a = acts[ch.pick((int)acts.size())];
    if (a.kind == 0) exec("d " + std::to_string(a.i));
    else if (a.kind == 1) {
      if (B[a.i].lib) { exec("t 1"); exec("p " + std::to_string(a.i)); exec("t " + std::to_string(randomTimes ? ch.rnd->range(199, 202) : 201)); exec("p " + std::to_string(a.i));
        if (!B[a.i].n->isOpen()) { exec("t 2"); exec("p " + std::to_string(a.i)); } untilOpen2(a.i); }
      else exec("p " + std::to_string(a.i));
    } else if (a.kind == 2) {
      exec("t " + std::to_string(randomTimes ? dts[ch.rnd->below(7)] : 251));
      for (size_t i = 0; i < B.size(); i++) if (B[i].lib && B[i].n->isOpen()) exec("p " + std::to_string(i));
    } else {
      cmdLeft = false;
      for (size_t i = 0; i < B.size(); i++) if (B[i].onBus()) exec("cmd " + std::to_string(i) + " " + std::to_string(cmd.dst) + " " + hx(cmd.name) + " " + std::to_string(cmd.addr));
    }
    readAll();
  }
  bool done = allEmpty() && !anyTimer();
  exec("q");
  for (size_t i = 0; i < B.size(); i++) if (B[i].lib) exec("changed " + std::to_string(i));
  if (!done) C.count("schedules_cut_before_quiescence");
  return done;
}

static std::vector<NodeSpec> smallConfig(Rng &R, int nClaimants, int window) {
  std::vector<NodeSpec> ns; std::vector<unsigned> ranks; for (int i = 0; i < 8; i++) ranks.push_back(i + 1);
  for (size_t i = ranks.size(); i > 1; i--) std::swap(ranks[i - 1], ranks[R.below(i)]);     // every relative order of NAMEs comes up over the cases
  int left = nClaimants, k = 0;
  while (left > 0) {
    NodeSpec n; n.lib = ns.empty() || R.chance(2, 3); n.mode = R.chance(1, 2) ? 1 : 2; n.selfCfg = R.chance(2, 3);
    int nd = n.lib && left >= 2 && R.chance(1, 3) ? 2 : 1;
    for (int d = 0; d < nd; d++) {
      unsigned a; int guard = 0;
      do { a = pickAddr(R, window); guard++; bool clash = false; for (auto &p : n.devs) if (p.first == a) clash = true; if (!clash) break; } while (guard < 50);
      n.devs.push_back({a, mkName(R, ranks[k++ % 8] * 3)});
    }
    left -= nd; ns.push_back(n);
  }
  return ns;
}

static void level2Exhaustive(Rng &R, int nClaimants, int window, long maxSched) {
  std::vector<NodeSpec> ns = smallConfig(R, nClaimants, window);
  CmdPlan cmd; cmd.use = R.chance(1, 3);
  if (cmd.use) { auto &n = ns[R.below(ns.size())]; auto &d = n.devs[R.below(n.devs.size())]; cmd.name = d.second; cmd.addr = R.chance(1, 2) ? ns[R.below(ns.size())].devs[0].first : pickAddr(R, window); cmd.dst = 255; }
  g_readEvery = R.chance(1, 2);
  Chooser ch; ch.maxDepth = 40; long n = 0; bool complete = false;
  do { runSchedule(ns, nextOrigin(R), ch, cmd, 200, false); n++; if (!ch.next()) { complete = true; break; } } while (n < maxSched);
  C.count(complete ? "exhaustive_configs_complete" : "exhaustive_configs_truncated"); C.count("exhaustive_schedules", n);
  if (complete) C.sample("all " + std::to_string(n) + " schedules of: " + busLine(ns, 0));
}

static void level2Sampled(Rng &R) {
  int nClaimants = (int)R.range(4, 6); int window = (int)R.below(4);
  std::vector<NodeSpec> ns = smallConfig(R, nClaimants, window);
  CmdPlan cmd; cmd.use = R.chance(1, 2);
  if (cmd.use) { auto &n = ns[R.below(ns.size())]; auto &d = n.devs[R.below(n.devs.size())]; cmd.name = d.second; cmd.addr = R.chance(1, 2) ? ns[R.below(ns.size())].devs[0].first : pickAddr(R, window); cmd.dst = 255; }
  g_readEvery = R.chance(1, 2);
  Chooser ch; ch.rnd = &R;
  if (!runSchedule(ns, nextOrigin(R), ch, cmd, 400, true)) {
    // let it finish: deliver in FIFO order, let the timers run out
    for (int round = 0; round < 2000 && !(allEmpty() && !anyTimer()); round++) {
      bool any = false; for (size_t i = 0; i < B.size(); i++) if (!B[i].inbox.empty()) { exec("d " + std::to_string(i)); any = true; readAll(); }
      if (!any) { exec("t 251"); for (size_t i = 0; i < B.size(); i++) if (B[i].lib && B[i].n->isOpen()) exec("p " + std::to_string(i)); }
    }
    if (!(allEmpty() && !anyTimer())) C.fail("C03:no-convergence", "no quiescent state after 2000 further rounds");
    exec("q"); for (size_t i = 0; i < B.size(); i++) if (B[i].lib) exec("changed " + std::to_string(i));
  }
  C.count("sampled_schedules");
}

// the whole range 0..251 is occupied by non-configurable nodes with lower NAMEs: the library devices must end at 254
static void level2Wall(Rng &R, int nLibDevs) {
  std::vector<NodeSpec> ns;
  NodeSpec l; l.lib = true; l.mode = 1; l.selfCfg = false;
  for (int d = 0; d < nLibDevs; d++) l.devs.push_back({(unsigned)((250 + 5 * d) % 252), 0xC032820000000000ULL + 77 * (d + 1)});
  ns.push_back(l);
  for (unsigned a = 0; a <= 251; a++) { NodeSpec f; f.lib = false; f.mode = 0; f.selfCfg = false; f.started = true; f.devs.push_back({a, 0x1000 + a}); ns.push_back(f); }
  exec(busLine(ns, nextOrigin(R)));
  exec("t 1"); exec("p 0"); exec("t 201"); exec("p 0"); untilOpen2(0); exec("changed 0");
  for (int round = 0; round < 400000 && !allEmpty(); round++) {
    // the library node answers immediately, the others in a seeded order
    if (!B[0].inbox.empty() && R.chance(2, 3)) { exec("d 0"); exec("changed 0"); continue; }
    std::vector<size_t> ne; for (size_t i = 0; i < B.size(); i++) if (!B[i].inbox.empty()) ne.push_back(i);
    size_t pick = ne[R.below(ne.size())];
    exec("d " + std::to_string(pick)); if (pick == 0) exec("changed 0");
  }
  exec("q"); exec("changed 0");
  for (int d = 0; d < nLibDevs && B[0].n->isOpen(); d++) if (B[0].n->src(d) != 254) C.fail("C03:wall-not-null", "device %d ended at %u although every address is held by a lower NAME", d, B[0].n->src(d));
  C.count("wall_cases");
}

int main(int argc, char **argv) {
  C.init(argc, argv);
  C.rule = "case = one bus configuration (reset|bus) with one schedule of deliver/poll/time/commanded-address steps; non-trivial = some claimant was contested "
           "(a claim arrived for an address it held); distinct = hash of configuration + schedule";
  if (!C.replay.empty()) {
    for (auto &l : readLines(C.replay)) exec(l);
    endCase(); C.finish(); return 0;
  }
  Rng R(C.seed * 0x9E3779B97F4A7C15ULL + 0xC03);
  g_now = 0;
  // (1) single instance against the model
  int n1 = C.thorough ? 1200 : 150;
  for (int i = 0; i < n1; i++) level1Case(R);
  for (int i = 0; i < (C.thorough ? 12 : 2); i++) level1Exhaust(R);
  for (int rep = 0; rep < (C.thorough ? 3 : 1); rep++) for (int v = 0; v < 5; v++) level1Exhaust(R, v);
  for (int i = 0; i < (C.thorough ? 600 : 80); i++) level1Pressure(R);
  C.sample("level 1: reset + claim/rxc/cmdaddr/t/poll/restart on one real instance (1..9 devices), compared line by line with the model");
  // (2) whole bus, all schedules of small configurations
  long cap = C.thorough ? 4000 : 120;
  int nconf = C.thorough ? 60 : 10;
  for (int i = 0; i < nconf; i++) level2Exhaustive(R, i % 3 == 2 ? 3 : 2, i % 4, cap);
  // (3) sampled schedules of 4..6 claimants
  for (int i = 0; i < (C.thorough ? 600 : 60); i++) level2Sampled(R);
  // (4) the whole address range occupied
  if (C.thorough) { level2Wall(R, 1); level2Wall(R, 2); }
  endCase();
  C.finish();
  return 0;
}
