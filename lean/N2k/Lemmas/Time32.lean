import N2k.Basic.Time
/-!
# Modular time primitives: elapsed-only characterisations and origin shifts (C13)

Everything here is about `Basic/Time.lean` (`src/N2kTimer.h`). `omega` handles `%` by the literal moduli.
-/
namespace N2k.Time

/-! ## the primitives depend on differences modulo 2^32 only -/

theorem sub32_lt (a b : Nat) : sub32 a b < M32 := by unfold sub32 M32; omega

theorem sub32_shift (a b k : Nat) : sub32 (a + k) (b + k) = sub32 a b := by unfold sub32 M32; omega

theorem sub32_mod_left (a b : Nat) : sub32 (a % M32) b = sub32 a b := by unfold sub32 M32; omega
theorem sub32_mod_right (a b : Nat) : sub32 a (b % M32) = sub32 a b := by unfold sub32 M32; omega

/-- `N2kHasElapsed(Start,Elapsed,Now)` is a function of `(Now-Start) mod 2^32` and `Elapsed` -/
theorem hasElapsed_diff (s e now : Nat) :
    hasElapsed s e now = decide (sub32 (sub32 now s) e < INT32_MAX) := by
  unfold hasElapsed sub32 M32 INT32_MAX; simp only [decide_eq_decide]; omega

/-- exact window: for a timeout of at most 2^31+1 ms, "elapsed" holds from `e` ms up to `e + 2^31 - 2` ms after the start -/
theorem hasElapsed_window (s e now : Nat) (he : e ≤ INT32_MAX + 2) :
    hasElapsed s e now = decide (e ≤ sub32 now s ∧ sub32 now s < e + INT32_MAX) := by
  unfold hasElapsed sub32 M32 INT32_MAX at *; simp only [decide_eq_decide]; omega

theorem hasElapsed_shift (s e now k : Nat) : hasElapsed (s + k) e (now + k) = hasElapsed s e now := by
  unfold hasElapsed sub32 M32 INT32_MAX; simp only [decide_eq_decide]; omega

/-- the value stored in a 32-bit field after the shift -/
theorem hasElapsed_shift_mod (s e now k : Nat) :
    hasElapsed ((s + k) % M32) e ((now + k) % M32) = hasElapsed s e now := by
  unfold hasElapsed sub32 M32 INT32_MAX; simp only [decide_eq_decide]; omega

theorem isTimeBefore_diff (a b : Nat) : isTimeBefore a b = decide (sub32 b a < INT32_MAX) := rfl

theorem isTimeBefore_shift (a b k : Nat) : isTimeBefore (a + k) (b + k) = isTimeBefore a b := by
  unfold isTimeBefore sub32 M32 INT32_MAX; simp only [decide_eq_decide]; omega

theorem isTimeBefore_shift_mod (a b k : Nat) :
    isTimeBefore ((a + k) % M32) ((b + k) % M32) = isTimeBefore a b := by
  unfold isTimeBefore sub32 M32 INT32_MAX; simp only [decide_eq_decide]; omega

theorem disabledVal32 : disabledVal .t32 = M32 - 1 := rfl
theorem disabledVal64 : disabledVal .t64 = M64 - 1 := rfl

theorem isTime32_eq (s : Sched) (now : Nat) :
    Sched.isTime .t32 s now = decide (s.next ≠ M32 - 1 ∧ sub32 (millis32 now) s.next < INT32_MAX) := by
  unfold Sched.isTime disabledVal
  simp only [bne, Bool.decide_and]
  by_cases h : s.next = M32 - 1 <;> simp [h]

theorem isTime64_eq (s : Sched) (now : Nat) : Sched.isTime .t64 s now = decide (now > s.next) := rfl

theorem isEnabled_eq (f : Flavor) (s : Sched) : s.isEnabled f = decide (s.next ≠ disabledVal f) := by
  unfold Sched.isEnabled; simp only [bne]; by_cases h : s.next = disabledVal f <;> simp [h]

/-- the delay a 32-bit `FromNow(d)` really arms: `d`, or `d+1` when `now+d` lands on the "disabled" value -/
def armed32 (now d : Nat) : Nat := if (millis32 now + d) % M32 = M32 - 1 then d + 1 else d

theorem fromNow32_next (now d : Nat) :
    (Sched.fromNow .t32 now d).next = (millis32 now + armed32 now d) % M32 := by
  unfold Sched.fromNow armed32 millis32 M32; simp only; split <;> omega

theorem fromNow32_enabled (now d : Nat) : (Sched.fromNow .t32 now d).next ≠ disabledVal .t32 := by
  unfold Sched.fromNow disabledVal millis32 M32; simp only; split <;> omega

/-- 32-bit scheduler: `IsTime()` after `FromNow(d)` is a function of the elapsed time modulo 2^32 only:
due from `d` ms (`d+1` at the sentinel) up to `2^31-2` ms later -/
theorem isTime_fromNow32 (now d now' : Nat) (hd : d ≤ INT32_MAX + 1) :
    Sched.isTime .t32 (Sched.fromNow .t32 now d) now' =
      decide (armed32 now d ≤ sub32 now' now ∧ sub32 now' now < armed32 now d + INT32_MAX) := by
  have hen : (Sched.fromNow .t32 now d).next ≠ M32 - 1 := fromNow32_enabled now d
  have hnx := fromNow32_next now d
  rw [isTime32_eq]
  have ha : armed32 now d ≤ d + 1 := by unfold armed32; split <;> omega
  generalize armed32 now d = a at *
  generalize (Sched.fromNow .t32 now d).next = nx at *
  subst hnx
  unfold sub32 millis32 M32 INT32_MAX at *; simp only [decide_eq_decide]; omega

/-- 64-bit scheduler: due strictly after `now + d` -/
theorem isTime_fromNow64 (now d now' : Nat) (h : now + d < M64) :
    Sched.isTime .t64 (Sched.fromNow .t64 now d) now' = decide (now' > now + d) := by
  unfold Sched.isTime Sched.fromNow; simp only [Nat.mod_eq_of_lt h]

/-! ## shifting the clock origin by `k` -/

/-- the deadline as it is stored when the same scenario is run with the clock `k` ms ahead -/
def Sched.shift (f : Flavor) (k : Nat) (s : Sched) : Sched :=
  if s.next = disabledVal f then s
  else match f with
    | .t32 => ⟨(s.next + k) % M32⟩
    | .t64 => ⟨s.next + k⟩

/-- the shifted deadline does not collide with the "disabled" value -/
def Sched.ShiftOk (f : Flavor) (k : Nat) (s : Sched) : Prop :=
  s.next = disabledVal f ∨
  (match f with
    | .t32 => (s.next + k) % M32 ≠ M32 - 1
    | .t64 => s.next + k < M64 - 1)

/-- `FromNow(add)` at clock `now` does not land on the "disabled" value, neither in the original nor in the shifted run
(32-bit build); the shifted 64-bit clock stays below 2^64 (64-bit build) -/
def ArmOk (f : Flavor) (k now add : Nat) : Prop :=
  match f with
  | .t32 => (millis32 now + add) % M32 ≠ M32 - 1 ∧ (millis32 (now + k) + add) % M32 ≠ M32 - 1
  | .t64 => now + k + add < M64 - 1

/-- the library's own `FromNow` delays: 200 ms (CAN settle), 250 ms (address claim), 1000 ms (CAN open retry) -/
def ClockOk (f : Flavor) (k now : Nat) : Prop :=
  ArmOk f k now 200 ∧ ArmOk f k now 250 ∧ ArmOk f k now 1000

instance (f : Flavor) (k now add : Nat) : Decidable (ArmOk f k now add) := by
  cases f <;> unfold ArmOk <;> exact inferInstance

instance (f : Flavor) (k now : Nat) : Decidable (ClockOk f k now) := by
  unfold ClockOk; exact inferInstance

instance (f : Flavor) (k : Nat) (s : Sched) : Decidable (s.ShiftOk f k) := by
  cases f <;> unfold Sched.ShiftOk <;> exact inferInstance

theorem ClockOk.lt64 {k now : Nat} (h : ClockOk .t64 k now) : now + k + 1000 < M64 - 1 := h.2.2

theorem Sched.shift_disabled (f : Flavor) (k : Nat) : (Sched.disabled f).shift f k = Sched.disabled f := by
  simp [Sched.shift, Sched.disabled]

theorem Sched.shiftOk_disabled (f : Flavor) (k : Nat) : (Sched.disabled f).ShiftOk f k := Or.inl rfl

theorem Sched.isEnabled_shift {f : Flavor} {k : Nat} {s : Sched} (h : s.ShiftOk f k) :
    (s.shift f k).isEnabled f = s.isEnabled f := by
  rw [isEnabled_eq, isEnabled_eq]
  unfold Sched.shift
  by_cases hd : s.next = disabledVal f
  · simp [hd]
  · rcases h with h | h
    · exact absurd h hd
    · cases f
      · simp only [hd, ↓reduceIte, decide_eq_decide]
        have : (s.next + k) % M32 ≠ disabledVal .t32 := h
        simp [this, hd]
      · simp only [hd, ↓reduceIte, decide_eq_decide]
        have : s.next + k ≠ disabledVal .t64 := by rw [disabledVal64]; simp only at h; omega
        simp [this, hd]

/-- `IsTime()` gives the same answer in the shifted run -/
theorem Sched.isTime_shift {f : Flavor} {k now : Nat} {s : Sched} (h : s.ShiftOk f k)
    (hc : f = .t64 → now + k < M64) :
    (s.shift f k).isTime f (now + k) = s.isTime f now := by
  cases f
  · -- 32 bit
    rw [isTime32_eq, isTime32_eq]
    unfold Sched.shift
    by_cases hd : s.next = disabledVal .t32
    · simp only [hd, ↓reduceIte]; rw [disabledVal32]; simp
    · rcases h with h | h
      · exact absurd h hd
      · have h' : (s.next + k) % M32 ≠ M32 - 1 := h
        rw [disabledVal32] at hd
        simp only [disabledVal32, hd, ↓reduceIte, decide_eq_decide]
        unfold sub32 millis32 M32 INT32_MAX at *; omega
  · -- 64 bit
    have hlt := hc rfl
    rw [isTime64_eq, isTime64_eq]
    unfold Sched.shift
    by_cases hd : s.next = disabledVal .t64
    · simp only [hd, ↓reduceIte, decide_eq_decide]; rw [disabledVal64]; unfold M64 at *; omega
    · simp only [hd, ↓reduceIte, decide_eq_decide]; omega

/-- `FromNow(add)` in the shifted run arms the shifted deadline -/
theorem Sched.fromNow_shift {f : Flavor} {k now add : Nat} (h : ArmOk f k now add) :
    Sched.fromNow f (now + k) add = (Sched.fromNow f now add).shift f k ∧ (Sched.fromNow f now add).ShiftOk f k := by
  cases f
  · obtain ⟨h1, h2⟩ := h
    have e1 : (Sched.fromNow .t32 now add).next = (millis32 now + add) % M32 := by
      unfold Sched.fromNow; simp only [h1, ↓reduceIte]
    have e2 : Sched.fromNow .t32 (now + k) add = ⟨(millis32 (now + k) + add) % M32⟩ := by
      unfold Sched.fromNow; simp only [h2, ↓reduceIte]
    have hne : (Sched.fromNow .t32 now add).next ≠ disabledVal .t32 := fromNow32_enabled now add
    have e3 : ((millis32 now + add) % M32 + k) % M32 = (millis32 (now + k) + add) % M32 := by
      unfold millis32 M32; omega
    constructor
    · unfold Sched.shift; rw [if_neg hne, e1, e2, e3]
    · right; simp only [e1, e3]; exact h2
  · have h' : now + k + add < M64 - 1 := h
    have e1 : Sched.fromNow .t64 now add = ⟨now + add⟩ := by
      unfold Sched.fromNow; simp only; rw [Nat.mod_eq_of_lt (by omega)]
    have e2 : Sched.fromNow .t64 (now + k) add = ⟨now + k + add⟩ := by
      unfold Sched.fromNow; simp only; rw [Nat.mod_eq_of_lt (by omega)]
    have hne : now + add ≠ disabledVal .t64 := by rw [disabledVal64]; omega
    constructor
    · rw [e1, e2]; unfold Sched.shift; simp only [hne, ↓reduceIte]; congr 1; omega
    · right; rw [e1]; simp only; omega

end N2k.Time
