import N2k.Model.TP
import Driver.Util
-- engine: tp
/-! Engine `tp` (C10): runs `sendMsgTP` / `poll` / `rxFrame` / `moveTo` of `Model/TP.lean` on one or two nodes
that share the virtual clock. -/
namespace Driver.TP
open N2k.Send N2k.Time N2k.TP Driver

structure World where
  now : Nat
  nodes : Nat → Option Node
  cur : Nat
  lastReset : Nat := 0     -- the node the next `info` line belongs to

def frameStr (f : Frame) : String :=
  s!"{String.ofList (Nat.toDigits 16 f.id)}:{f.len}:{hexOfBytes (f.data.take (min f.len 8))}"
def framesStr (l : List Frame) : String := if l.isEmpty then "-" else " ".intercalate (l.map frameStr)
def delivStr (d : Delivery) : String := s!"{d.pgn}:{d.src}:{d.dst}:{d.prio}:{d.len}:{boolStr d.tp}:{hexOfBytes d.data}"
def delivsStr (l : List Delivery) : String := if l.isEmpty then "-" else " ".intercalate (l.map delivStr)

def hexNat? (s : String) : Option Nat :=
  s.toList.foldl (fun acc c => do let a ← acc; let d ← hexDigit c; some (a * 16 + d)) (some 0)

def parseDev (fl : Flavor) (s : String) : Option Dev :=
  match s.splitOn ":" with
  | [a, n] => do
    let src ← nat? a
    let name ← hexNat? n
    some { source := src, name := name, claimTimer := Sched.disabled fl, endSource := if src > 0 then src - 1 else 251 }
  | _ => none

/-- "prio:len:hex" → the information message the node answers with -/
def parseInfo (pgn : Nat) (s : String) : Option Msg :=
  match s.splitOn ":" with
  | [p, l, h] => do
    let prio ← nat? p
    let len ← nat? l
    let data ← hexBytes? h
    some { prio := prio, pgn := pgn, src := 0, dst := 255, len := len, data := data }
  | _ => none

def takeSent (n : Node) : Node × List Frame :=
  ({ n with s := { n.s with drv := { n.s.drv with sent := [] } } }, n.s.drv.sent)
def takeOut (n : Node) : Node × List Delivery := ({ n with out := [] }, n.out)

def stateStr (n : Node) : String :=
  let ds := (List.range n.s.devs.length).map fun i =>
    let t := n.tp i
    s!"d{i}:{t.pend.pgn}:{t.pend.dst}:{t.pend.len}:{t.nextSeq}:{boolStr (t.timer.isEnabled n.s.flavor)}:{boolStr t.hasPending}:{boolStr (n.info i).pendProd.isSome}:{boolStr (n.info i).pendConf.isSome}"
  let ss := (List.range n.slots.length).map fun i =>
    match n.slots[i]? with
    | none => ""
    | some a => if a.free then s!"s{i}:free"
      else s!"s{i}:{boolStr a.tp}:{a.pgn}:{a.src}:{a.dst}:{a.lastFrame}:{a.data.length}:{a.dataLen}:{a.reqCTS}:{a.maxPackets}:{sub32 (millis32 n.s.now) a.msgTime}"
  " ".intercalate (ds ++ ss)

def mkNode (f : Flavor) (q nslots mode now : Nat) (onlyKnown : Bool) (ds : List Dev) : Node :=
  { s := { flavor := f, now := now, listenOnly := mode == 0, claimMode := mode == 1 || mode == 2, lists := {}, devs := ds,
           ring := { n := q, buf := fun _ => ⟨0, 0, []⟩, read := 0, write := 0 },
           drv := { script := [], dflt := true, sent := [] } },
    tp := fun _ => TpDev.init f, slots := List.replicate nslots {}, onlyKnown := onlyKnown, rxq := [], out := [] }

/-- every delivery with the TP flag since the reset is kept for `expect` -/
structure Eng where
  w : World
  allTp : Nat → List Delivery

def withNode (e : Eng) (f : Node → Node × String) : Eng × String :=
  match e.w.nodes e.w.cur with
  | none => (e, "bad-op")
  | some n =>
    let n0 := { n with s := { n.s with now := e.w.now } }
    let r := f n0
    ({ e with w := { e.w with nodes := fun k => if k = e.w.cur then some r.1 else e.w.nodes k } }, r.2)

def pollOut (e : Eng) (n1 : Node) : Eng × String :=
  let (n2, fr) := takeSent n1
  let (n3, dl) := takeOut n2
  let c := e.w.cur
  ({ w := { e.w with nodes := fun k => if k = c then some n3 else e.w.nodes k },
     allTp := fun k => if k = c then e.allTp k ++ dl.filter (·.tp) else e.allTp k },
   s!"{framesStr fr} | {delivsStr dl}")

def step (e : Eng) (w : List String) : Eng × String :=
  match w with
  | op :: fl :: q :: ns :: mode :: now :: ok :: devs =>
    if op = "reset" ∨ op = "reset2" then
      match nat? q, nat? ns, nat? mode, nat? now with
      | some q, some ns, some mode, some now =>
        let f := if fl = "t32" then Flavor.t32 else Flavor.t64
        match devs.mapM (parseDev f) with
        | some ds =>
          let nd := mkNode f q ns mode now (ok == "1") ds
          if op = "reset" then ({ w := { now := now, nodes := fun k => if k = 0 then some nd else none, cur := 0 }, allTp := fun _ => [] }, "ok")
          else ({ w := { e.w with now := now, nodes := fun k => if k = 1 then some nd else e.w.nodes k, lastReset := 1 }, allTp := fun k => if k = 1 then [] else e.allTp k }, "ok")
        | none => (e, "bad-op")
      | _, _, _, _ => (e, "bad-op")
    else if op = "send" then
      match devs with
      | [tp] =>
        -- send <dev> <prio> <pgn> <dst> <len> <hex> <tp>  (fl=dev q=prio ns=pgn mode=dst now=len ok=hex)
        match nat? fl, nat? q, nat? ns, nat? mode, nat? now, hexBytes? ok with
        | some d, some prio, some pgn, some dst, some len, some data =>
          match e.w.nodes e.w.cur with
          | none => (e, "bad-op")
          | some n =>
            if d ≥ n.s.devs.length ∨ len > 223 then (e, "bad-op") else
            let n0 := { n with s := { n.s with now := e.w.now } }
            let data := data ++ List.replicate (223 - data.length) 0x55
            let r := sendMsgTP n0 { prio := prio, pgn := pgn, src := 0, dst := dst, len := len, data := data, tp := tp == "1" } (some d)
            let (n2, fr) := takeSent r.1
            ({ e with w := { e.w with nodes := fun k => if k = e.w.cur then some n2 else e.w.nodes k } }, s!"{boolStr r.2} {framesStr fr}")
        | _, _, _, _, _, _ => (e, "bad-op")
      | _ => (e, "bad-op")
    else (e, "bad-op")
  | ["info", p, c, g] =>
    match parseInfo 126996 p, parseInfo 126998 c, nat? g with
    | some pm, some cm, some gap =>
      match e.w.nodes e.w.lastReset with
      | some n => ({ e with w := { e.w with nodes := fun k => if k = e.w.lastReset then some { n with prod := pm, conf := some cm, bamGap := gap }
                                                              else e.w.nodes k } }, "ok")
      | none => (e, "bad-op")
    | _, _, _ => (e, "bad-op")
  | ["info", p, c] =>
    match parseInfo 126996 p, parseInfo 126998 c with
    | some pm, some cm => withNode e fun n => ({ n with prod := pm, conf := some cm }, "ok")
    | _, _ => (e, "bad-op")
  | ["node", k] => match nat? k with
    | some k => if k < 2 ∧ (e.w.nodes k).isSome then ({ e with w := { e.w with cur := k } }, "ok") else (e, "bad-op")
    | none => (e, "bad-op")
  | ["t", ms] => match nat? ms, e.w.nodes e.w.cur with
    | some k, some _ => ({ e with w := { e.w with now := e.w.now + k } }, "ok")
    | _, _ => (e, "bad-op")
  | ["acc", bits] => withNode e fun n => ({ n with s := { n.s with drv := { n.s.drv with script := n.s.drv.script ++ bits.toList.map (· == '1') } } }, "ok")
  | ["accdef", b] => withNode e fun n => ({ n with s := { n.s with drv := { n.s.drv with dflt := b == "1" } } }, "ok")
  | ["st"] => withNode e fun n => (n, stateStr n)
  | ["expect", pgn, hx] => match nat? pgn, hexBytes? hx with
    | some pgn, some pl =>
      let hits := ((e.allTp e.w.cur).filter fun d => d.pgn == pgn && d.len == pl.length && d.data == pl).length
      if (e.w.nodes e.w.cur).isSome then (e, s!"{hits}") else (e, "bad-op")
    | _, _ => (e, "bad-op")
  | ["addr", d, a] => match nat? d, nat? a, e.w.nodes e.w.cur with
    | some d, some a, some n =>
      if d ≥ n.s.devs.length ∨ a > 251 then (e, "bad-op") else
      let n0 := { n with s := { n.s with now := e.w.now } }
      let (n2, fr) := takeSent (moveTo n0 d a)
      ({ e with w := { e.w with nodes := fun k => if k = e.w.cur then some n2 else e.w.nodes k } }, s!"- {framesStr fr}")
    | _, _, _ => (e, "bad-op")
  | ["poll"] => match e.w.nodes e.w.cur with
    | none => (e, "bad-op")
    | some n => pollOut e (poll { n with s := { n.s with now := e.w.now } })
  | [op, id, len, hx] =>
    if op = "rx" ∨ op = "rxq" then
      match hexNat? id, nat? len, hexBytes? hx, e.w.nodes e.w.cur with
      | some id, some len, some data, some n =>
        if len > 8 ∨ data.length ≠ len then (e, "bad-op") else
        let n1 := { n with s := { n.s with now := e.w.now }, rxq := n.rxq ++ [⟨id, len, data⟩] }
        if op = "rxq" then ({ e with w := { e.w with nodes := fun k => if k = e.w.cur then some n1 else e.w.nodes k } }, "ok")
        else pollOut e (poll n1)
      | _, _, _, _ => (e, "bad-op")
    else (e, "bad-op")
  | _ => (e, "bad-op")

def main : IO Unit := loop step { w := { now := 0, nodes := fun _ => none, cur := 0 }, allTp := fun _ => [] }

end Driver.TP
