#!/usr/bin/env python3
"""Regenerate MANIFEST.json from tools/registry.py and tools/manifest_text.py (kept valid at all times)."""
import json, os, sys
VERIF = os.path.dirname(os.path.dirname(os.path.abspath(__file__)))
sys.path.insert(0, os.path.join(VERIF, 'tools'))
import registry, manifest_text as T
props = [json.loads(l)['id'] for l in open(os.path.join(VERIF, 'properties.jsonl'))]
claimed = set(open(os.path.join(VERIF, 'tools', 'claimed.txt')).read().split())
checks = []
for pid in props:
    if pid not in registry.PROPS or pid not in claimed:
        continue
    spec = registry.PROPS[pid]
    t = registry.MANIFEST_TEXT[pid]
    checks.append({
        'property_id': pid,
        'quick_cmd': 'python3 tools/check.py %s --tier quick' % pid,
        'thorough_cmd': 'python3 tools/check.py %s --tier thorough' % pid,
        'evidence_file': 'evidence/%s.json' % pid,
        'replay_cmd_template': 'python3 tools/check.py %s --replay {path}' % pid,
        'engine': 'lean4-N2k+' + spec['engine'],
        'level_claimed': {'category': 'proof', 'text': t['text'], 'design_ref': t['design_ref']},
        'level_note': t['note'],
        'technique': t.get('technique', 'Lean 4 theorems over a hand-written executable model + differential '
                                        'correspondence with the real code + model-independent oracle search'),
    })
na = [{'property_id': p, 'reason': T.NOT_CLAIMED.get(p, 'check not built yet (in progress); not claimed until its theorems and correspondence run clean')}
      for p in props if p not in registry.PROPS or p not in claimed]
man = {
    'version': 1,
    'setup_cmd': 'python3 tools/setup.py',
    'hooks': {'guard': 'N2K_VERIF_HOOKS',
              'enable': 'tools/check.py compiles every harness together with /repo/src/*.cpp with -DN2K_VERIF_HOOKS=1',
              'baseline_off_cmd': 'cmake --build /repo/_build && ctest --test-dir /repo/_build -j8 --timeout 900',
              'source_commits': T.HOOK_COMMITS, 'add_only': True},
    'engines': [{'name': 'lean4-N2k', 'path': 'lean', 'serves_properties': sorted(registry.PROPS.keys()),
                 'kind_free_text': 'Lean 4 library: models, specs, lemmas, property theorems; n2kdrv model driver'},
                {'name': 'harness', 'path': 'harness', 'serves_properties': sorted(registry.PROPS.keys()),
                 'kind_free_text': 'C++ correspondence harnesses linked against /repo/src (ASan+UBSan) with model-independent oracles'}],
    'checks': checks,
    'notes': T.NOTES,
    'not_applicable': na,
}
json.dump(man, open(os.path.join(VERIF, 'MANIFEST.json'), 'w'), indent=1)
print('MANIFEST.json: %d checks, %d not claimed' % (len(checks), len(na)))
