import N2k.Lemmas.TPRecvStep
import N2k.Lemmas.TPTime
/-! C10 helper lemmas for the end-to-end theorem: a node with one device in normal form `upd`, an idle poll,
and the phases of an RTS/CTS transfer between two library nodes. -/
namespace N2k.TP
open N2k.Send N2k.Time N2k.Spec

/-- normal form of the nodes in the exchange: base node with new transport state, slots, deliveries, frames at the
driver and receive queue -/
def Node.upd (n : Node) (tp : Nat → TpDev) (slots : List Slot) (out : List Delivery) (fs : List Frame) (rxq : List Frame) : Node :=
  { n with tp := tp, slots := slots, out := out, rxq := rxq, s := { n.s with drv := { n.s.drv with sent := fs } } }

section upd
variable (n : Node) (tp : Nat → TpDev) (sl : List Slot) (out : List Delivery) (fs rxq : List Frame)
@[simp] theorem upd_tp : (n.upd tp sl out fs rxq).tp = tp := rfl
@[simp] theorem upd_slots : (n.upd tp sl out fs rxq).slots = sl := rfl
@[simp] theorem upd_out : (n.upd tp sl out fs rxq).out = out := rfl
@[simp] theorem upd_rxq : (n.upd tp sl out fs rxq).rxq = rxq := rfl
@[simp] theorem upd_sent : (n.upd tp sl out fs rxq).s.drv.sent = fs := rfl
@[simp] theorem upd_devs : (n.upd tp sl out fs rxq).s.devs = n.s.devs := rfl
@[simp] theorem upd_now : (n.upd tp sl out fs rxq).s.now = n.s.now := rfl
@[simp] theorem upd_flavor : (n.upd tp sl out fs rxq).s.flavor = n.s.flavor := rfl
@[simp] theorem upd_claimMode : (n.upd tp sl out fs rxq).s.claimMode = n.s.claimMode := rfl
@[simp] theorem upd_onlyKnown : (n.upd tp sl out fs rxq).onlyKnown = n.onlyKnown := rfl
@[simp] theorem upd_info : (n.upd tp sl out fs rxq).info = n.info := rfl
@[simp] theorem upd_bamGap : (n.upd tp sl out fs rxq).bamGap = n.bamGap := rfl
@[simp] theorem upd_conf : (n.upd tp sl out fs rxq).conf = n.conf := rfl
@[simp] theorem upd_ring : (n.upd tp sl out fs rxq).s.ring = n.s.ring := rfl
@[simp] theorem upd_pushes (gs : List Frame) : (n.upd tp sl out fs rxq).pushes gs = n.upd tp sl out (fs ++ gs) rxq := rfl
@[simp] theorem upd_setTp (i : Nat) (t : TpDev) :
    (n.upd tp sl out fs rxq).setTp i t = n.upd (fun j => if j = i then t else tp j) sl out fs rxq := rfl
@[simp] theorem upd_setSlot (j : Nat) (a : Slot) : (n.upd tp sl out fs rxq).setSlot j a = n.upd tp (sl.set j a) out fs rxq := rfl
@[simp] theorem upd_upd (tp' : Nat → TpDev) (sl' : List Slot) (out' : List Delivery) (fs' rxq' : List Frame) :
    (n.upd tp sl out fs rxq).upd tp' sl' out' fs' rxq' = n.upd tp' sl' out' fs' rxq' := rfl
theorem upd_quiet {i : Nat} (h : Quiet n.s i) : Quiet (n.upd tp sl out fs rxq).s i :=
  ⟨h.dev, h.notListen, h.active, h.ringEmpty, h.script, h.dflt, h.notFpCM, h.notFpDT⟩
end upd

theorem upd_self (n : Node) : n.upd n.tp n.slots n.out n.s.drv.sent n.rxq = n := rfl

/-! ## parts of `poll` that do nothing on a quiet single-device node -/

theorem flush_quiet (n : Node) (i : Nat) (hq : Quiet n.s i) : flush n = n := by
  unfold flush sendFrames
  rw [sendFramesAux_empty _ _ _ hq.ringEmpty]

/-- device `i` is the one that acts; the node's other devices (if any) have nothing pending, no device is in the middle of an
address claim, and no device before `i` has the same address (so that `FindSourceDeviceIndex` finds `i`) -/
structure Lead (n : Node) (i : Nat) (d : Dev) : Prop where
  dev0 : n.s.devs[i]? = some d
  first : ∀ (k : Nat) (e : Dev), k < i → n.s.devs[k]? = some e → e.source ≠ d.source
  others : ∀ k, k ≠ i → (n.tp k).hasPending = false
  claims : ∀ e ∈ n.s.devs, e.claimTimer.isEnabled n.s.flavor = false

variable {i : Nat}

theorem map_id_of {α : Type} (f : α → α) : ∀ (l : List α), (∀ e ∈ l, f e = e) → l.map f = l
  | [], _ => rfl
  | a :: t, h => by rw [List.map_cons, h a (by simp), map_id_of f t (fun e he => h e (by simp [he]))]

theorem claimTick_lead (n : Node) (hc : ∀ e ∈ n.s.devs, e.claimTimer.isEnabled n.s.flavor = false) : claimTick n = n := by
  unfold claimTick
  have : n.s.devs.map (fun d => (isAddressClaimStarted n.s.flavor n.s.now d).1) = n.s.devs :=
    map_id_of _ _ (fun e he => by simp [isAddressClaimStarted, hc e he])
  rw [this]
  simp

theorem Lead.upd {n : Node} {d : Dev} (h : Lead n i d) (tp : Nat → TpDev) (sl : List Slot) (out : List Delivery) (fs rxq : List Frame)
    (htp : ∀ k, k ≠ i → (tp k).hasPending = false) : Lead (n.upd tp sl out fs rxq) i d := ⟨h.dev0, h.first, htp, h.claims⟩

theorem Lead.same {n : Node} {d : Dev} (h : Lead n i d) (sl : List Slot) (out : List Delivery) (fs rxq : List Frame) :
    Lead (n.upd n.tp sl out fs rxq) i d := h.upd _ _ _ _ _ h.others

theorem Lead.src {n : Node} {d : Dev} (h : Lead n i d) (hq : Quiet n.s i) : d.source ≤ 251 := by
  obtain ⟨d', hd', hs, _⟩ := hq.dev
  rw [h.dev0] at hd'; cases hd'; exact hs

/-- no product / configuration information answer is waiting for a retry -/
def InfoIdle (n : Node) (i : Nat) : Prop := (n.info i).pendProd = none ∧ (n.info i).pendConf = none

theorem pendingTP_info (n : Node) (i : Nat) : (pendingTP n i).info = n.info := by
  unfold pendingTP
  simp only []
  by_cases h1 : (n.tp i).pend.pgn ≠ 0 ∧ (n.tp i).timer.isTime n.s.flavor n.s.now = true
  · rw [if_pos h1]
    by_cases h2 : (n.tp i).pend.dst = 0xff
    · rw [if_pos h2]
      by_cases h3 : hasAllSent (setTimer (sendTPDT n i).1 i n.bamGap) i = true
      · rw [if_pos h3]; rfl
      · rw [if_neg h3]; rfl
    · rw [if_neg h2]; rfl
  · rw [if_neg h1]

/-- without a waiting retry only the transport part of `SendPendingInformation` acts -/
theorem pendingDev_idle (n : Node) (i : Nat) (h : InfoIdle n i) : pendingDev n i = pendingTP n i := by
  unfold pendingDev
  have hp : ((pendingTP n i).info i).pendProd = none := by rw [pendingTP_info]; exact h.1
  have hc : ((pendingTP n i).info i).pendConf = none := by rw [pendingTP_info]; exact h.2
  simp only [hp, due, Bool.false_eq_true, ↓reduceIte, hc]
  cases (pendingTP n i).conf <;> rfl

theorem pendingTP_tp_other (n : Node) (i k : Nat) (hk : k ≠ i) : (pendingTP n i).tp k = n.tp k := by
  unfold pendingTP
  simp only []
  by_cases h1 : (n.tp i).pend.pgn ≠ 0 ∧ (n.tp i).timer.isTime n.s.flavor n.s.now = true
  · rw [if_pos h1]
    by_cases h2 : (n.tp i).pend.dst = 0xff
    · rw [if_pos h2]
      by_cases h3 : hasAllSent (setTimer (sendTPDT n i).1 i n.bamGap) i = true
      · rw [if_pos h3]; simp [endSendTP, setTimer, sendTPDT, emit, Node.setTp, hk]
      · rw [if_neg h3]; simp [setTimer, sendTPDT, emit, Node.setTp, hk]
    · rw [if_neg h2]; simp [endSendTP, Node.setTp, hk]
  · rw [if_neg h1]

theorem foldl_skip (f : Node → Nat → Node) : ∀ (l : List Nat) (n : Node), (∀ k ∈ l, ∀ m : Node, m.tp k = n.tp k → f m k = m) →
    l.foldl f n = n
  | [], _, _ => rfl
  | k :: t, n, h => by
    rw [List.foldl_cons, h k (by simp) n rfl]
    exact foldl_skip f t n (fun j hj m hm => h j (by simp [hj]) m hm)

theorem pendingAll_solo (n : Node) (d : Dev) (hd : Lead n i d) (hi : InfoIdle n i) :
    pendingAll n = if (n.tp i).hasPending then pendingTP n i else n := by
  unfold pendingAll
  have hlen : i < n.s.devs.length := by
    rcases Nat.lt_or_ge i n.s.devs.length with h | h
    · exact h
    · have := hd.dev0; rw [List.getElem?_eq_none h] at this; cases this
  obtain ⟨r, hL⟩ : ∃ r, n.s.devs.length = i + (r + 1) := ⟨n.s.devs.length - i - 1, by omega⟩
  rw [hL, List.range_add, List.foldl_append]
  have hfront : (List.range i).foldl (fun n i => if (n.tp i).hasPending = true then pendingDev n i else n) n = n := by
    apply foldl_skip
    intro k hk m hm
    have hki : k ≠ i := by have := List.mem_range.1 hk; omega
    rw [hm, hd.others k hki]; simp
  rw [hfront, List.range_succ_eq_map, List.map_cons, List.foldl_cons, Nat.add_zero]
  rw [pendingDev_idle n i hi]
  generalize hn1 : (if (n.tp i).hasPending = true then pendingTP n i else n) = n1
  have hoth : ∀ k, k ≠ i → (n1.tp k).hasPending = false := by
    intro k hk
    rw [← hn1]
    split
    · rw [pendingTP_tp_other n i k hk]; exact hd.others k hk
    · exact hd.others k hk
  apply foldl_skip
  intro k hk m hm
  obtain ⟨k1, hk1, rfl⟩ := List.mem_map.1 hk
  obtain ⟨k', _, rfl⟩ := List.mem_map.1 hk1
  rw [hm, hoth (i + (k' + 1)) (by omega)]
  simp

theorem pendingTP_notdue (n : Node) (i : Nat) (h : (n.tp i).timer.isTime n.s.flavor n.s.now = false) : pendingTP n i = n := by
  unfold pendingTP; simp [h]

/-- a poll of a quiet single-device node whose transport timer is not due: only the received frames are handled -/
theorem poll_solo (n : Node) (d : Dev) (hd : Lead n i d) (hq : Quiet n.s i) (hi : InfoIdle n i)
    (ht : (n.tp i).hasPending = true → (n.tp i).timer.isTime n.s.flavor n.s.now = false) (hlen : n.rxq.length ≤ 20) :
    poll n = claimTick { (rxList n.rxq n) with rxq := [] } := by
  unfold poll
  rw [flush_quiet n i hq, pendingAll_solo n d hd hi]
  have h1 : (if (n.tp i).hasPending = true then pendingTP n i else n) = n := by
    by_cases hp : (n.tp i).hasPending = true
    · rw [if_pos hp, pendingTP_notdue n i (ht hp)]
    · rw [if_neg hp]
  rw [h1, List.take_of_length_le hlen, List.drop_of_length_le hlen]

/-- a poll with nothing to receive and no timer due changes nothing: extra polls in a schedule are harmless -/
theorem poll_idle (n : Node) (d : Dev) (hd : Lead n i d) (hq : Quiet n.s i) (hi : InfoIdle n i)
    (ht : (n.tp i).hasPending = true → (n.tp i).timer.isTime n.s.flavor n.s.now = false) (hrx : n.rxq = []) : poll n = n := by
  rw [poll_solo n d hd hq hi ht (by simp [hrx]), hrx]
  simp only [rxList, List.foldl_nil]
  have : ({ n with rxq := [] } : Node) = n := by rw [← hrx]
  rw [this]
  exact claimTick_lead n hd.claims

theorem findIdx_first {α : Type} (p : α → Bool) : ∀ (l : List α) (i : Nat) (x : α), l[i]? = some x → p x = true →
    (∀ (k : Nat) (e : α), k < i → l[k]? = some e → p e = false) → findIdx p l = some i
  | [], _, _, h, _, _ => by cases h
  | a :: t, 0, x, h, hp, _ => by
    simp only [List.getElem?_cons_zero, Option.some.injEq] at h; subst h; simp [findIdx, hp]
  | a :: t, i+1, x, h, hp, hf => by
    have ha : p a = false := hf 0 a (by omega) rfl
    simp only [findIdx, ha, Bool.false_eq_true, ↓reduceIte]
    rw [findIdx_first p t i x (by simpa using h) hp (fun k e hk he => hf (k + 1) e (by omega) (by simpa using he))]
    rfl

theorem findDev_lead {n : Node} {d : Dev} (hl : Lead n i d) (h : d.source ≤ 253) : findDev n.s.devs d.source = some i := by
  unfold findDev
  rw [if_pos h]
  apply findIdx_first _ _ _ _ hl.dev0 (by simp)
  intro k e hk he
  simpa using hl.first k e hk he


/-! ## the application hands a message to `SendMsg` on a quiet node -/

theorem gate_quiet (s : St) (i : Nat) (m : Msg) (d : Dev) (hq : Quiet s i) (hd : s.devs[i]? = some d)
    (hlow : m.pgn &&& 0xff = 0) (hp0 : m.pgn ≠ 0) (hid : n2kToCanId m.prio m.pgn d.source m.dst ≠ 0) :
    gate s m (some i) = .pass s d (n2kToCanId m.prio m.pgn d.source m.dst) := by
  obtain ⟨d', hd', hsrc, hct⟩ := hq.dev
  rw [hd] at hd'; cases hd'
  have hi : i < s.devs.length := by
    rcases Nat.lt_or_ge i s.devs.length with h | h
    · exact h
    · rw [List.getElem?_eq_none h] at hd; cases hd
  have hic : isAddressClaimStarted s.flavor s.now d = (d, false) := by simp [isAddressClaimStarted, hct]
  have hset : updDev s.devs i d = s.devs := set_self s.devs i d hd
  unfold gate
  have h1 : ¬ (i ≥ s.devs.length) := by omega
  have h2 : ¬ (d.source > Gen.maxCanBusAddress ∧ m.pgn ≠ 60928) := by
    intro h; have : d.source > 251 := h.1; omega
  have h3 : ¬ (s.listenOnly = true) := by rw [hq.notListen]; simp
  simp only [Option.getD_some, hd, srcOf, hlow, hic, hset, h1, h2, h3, hid, hp0, ↓reduceIte, ne_eq, not_true_eq_false,
    Bool.false_eq_true, false_and]
  have hl := hq.notListen
  congr 1
  cases s
  simp only at hl
  subst hl
  rfl

/-- the message as `StartSendTPMessage` stores it: source forced to the device's address -/
def pendMsg (m : Msg) (d : Dev) : Msg := { m with src := d.source }

/-- the transport state of device 0 during a transfer; the timeout `tmo` was armed at time `t0` -/
def txTp (i : Nat) (n : Node) (m : Msg) (seq t0 tmo : Nat) : Nat → TpDev :=
  fun j => if j = i then { pend := m, nextSeq := seq, timer := Sched.fromNow n.s.flavor t0 tmo, hasPending := true } else n.tp j

/-- **start**: `SendMsg` of a transport-flagged message of more than 8 bytes to another node: the RTS goes out -/
theorem sendMsgTP_start (a : Node) (m : Msg) (d : Dev) (hq : Quiet a.s i) (hd : a.s.devs[i]? = some d)
    (hlow : m.pgn &&& 0xff = 0) (hp0 : m.pgn ≠ 0) (hid : n2kToCanId m.prio m.pgn d.source m.dst ≠ 0)
    (htp : m.tp = true) (h9 : 9 ≤ m.len) (hdst : m.dst < 255) (hidle : (a.tp i).pend.pgn = 0) :
    sendMsgTP a m (some i) =
      (a.upd (txTp i a (pendMsg m d) 0 a.s.now 50) a.slots a.out
          (a.s.drv.sent ++ [cmFrame d.source m.dst (announceBytes 16 (pendMsg m d))]) a.rxq, true) := by
  unfold sendMsgTP
  rw [gate_quiet a.s i m d hq hd hlow hp0 hid]
  have hbig : m.tp = true ∧ ¬ (m.len ≤ 8 ∧ ¬ (m.prio < 0x80 ∧ isFastPacketPGN a.s.lists m.pgn = true)) := by
    refine ⟨htp, ?_⟩; intro h; omega
  simp only []
  rw [if_pos hbig]
  simp only [Option.getD_some, hlow, srcOf, ne_eq, not_true_eq_false, ↓reduceIte]
  unfold startSendTP
  have hlen : ¬ (i ≥ a.s.devs.length) := by
    intro h
    have : a.s.devs[i]? = none := List.getElem?_eq_none h
    rw [this] at hd; cases hd
  have hidle' : ¬ ((a.tp i).pend.pgn ≠ 0) := by simp [hidle]
  simp only [hlen, hidle', ↓reduceIte]
  have hne : ¬ (m.dst = 0xff) := by omega
  simp only [hne, ↓reduceIte]
  unfold sendRTS
  simp only [Node.setTp_s, hq.active, not_true_eq_false, ↓reduceIte]
  rw [announce_quiet 16 _ i d (by simpa using hq) (by simpa using hd) _ (by simp; omega)]
  simp only [Node.setTp_tp, ↓reduceIte]
  rfl


/-! ## the sender hears a CTS / an EndOfMsgACK -/

theorem cmFrame_eq (src dst : Nat) (b : List Nat) : cmFrame src dst b = cmIn src dst b := rfl
theorem dtFrame_eq (src : Nat) (m : Msg) (k : Nat) : dtFrame src m k = dtIn src m.dst (dtBytes m k) := rfl

theorem le3_sum (pgn : Nat) (h : pgn < 2^24) : pgn % 256 + pgn / 256 % 256 * 256 + pgn / 65536 % 256 * 65536 = pgn := by omega

/-- a CTS in sequence on a quiet node: the granted packets go out, the timeout is 100 ms -/
theorem handleCTS_grant (n : Node) (i src b1 b2 : Nat) (d : Dev) (hq : Quiet n.s i) (hd : n.s.devs[i]? = some d)
    (hdst : (n.tp i).pend.dst = src) (hne : src ≠ 255) (hsrc : src < 256) (hlen : (n.tp i).pend.len ≤ 223)
    (hb : b1 > 0) (hseq : b2 = (n.tp i).nextSeq + 1) :
    handleCTS n i src (n.tp i).pend.pgn b1 b2 =
      setTimer ((n.setTp i { n.tp i with
                    nextSeq := (n.tp i).nextSeq + min b1 (tpPacketCount (n.tp i).pend.len - (n.tp i).nextSeq) }).pushes
        ((List.range (min b1 (tpPacketCount (n.tp i).pend.len - (n.tp i).nextSeq))).map
            fun x => dtFrame d.source (n.tp i).pend ((n.tp i).nextSeq + x))) i 100 := by
  have hd255 : ¬ ((n.tp i).pend.dst = 0xff) := by rw [hdst]; exact hne
  have hmine : ¬ ((n.tp i).pend.pgn ≠ (n.tp i).pend.pgn ∨ (n.tp i).pend.dst ≠ src) := by
    intro h; rcases h with h | h
    · exact h rfl
    · exact h hdst
  unfold handleCTS
  have hpc : tpPacketCount (n.tp i).pend.len ≤ 255 := by have := tpPacketCount_le _ hlen; omega
  rw [if_neg hd255, if_neg hmine, if_pos hb, if_neg (by simp [hseq])]
  rw [ctsLoop_quiet i d b1 n hq hd (by rw [hdst]; exact hsrc) hpc]
  rfl

/-- **the sender polls with a CTS (window `c`, next packet `seq+1`) in its receive queue** -/
theorem poll_cts (a : Node) (d : Dev) (m : Msg) (peer seq t0 tmo np : Nat) (sl : List Slot) (out : List Delivery)
    (hd : Lead a i d) (hq : Quiet a.s i) (hi : InfoIdle a i) (hm : m.dst = peer) (hpeer : peer < 255) (hlen : m.len ≤ 223)
    (hpgn : m.pgn < 2^24) (htmo : tmo ≤ 100) (ht0 : t0 ≤ a.s.now ∧ a.s.now < t0 + tmo) (h64 : a.s.now + 100 < M64) (hseq : seq < 255) :
    poll (a.upd (txTp i a m seq t0 tmo) sl out [] [cmFrame peer d.source (ctsBytes m.pgn np (seq + 1))]) =
      a.upd (txTp i a m (seq + min (tpCtsPackets np) (tpPacketCount m.len - seq)) a.s.now 100) sl out
        ((List.range (min (tpCtsPackets np) (tpPacketCount m.len - seq))).map fun x => dtFrame d.source m (seq + x)) [] := by
  have hsrc : d.source ≤ 251 := by
    exact hd.src hq
  have hd0 : a.s.devs[i]? = some d := hd.dev0
  generalize hN : a.upd (txTp i a m seq t0 tmo) sl out [] [cmFrame peer d.source (ctsBytes m.pgn np (seq + 1))] = N
  have hNq : Quiet N.s i := by subst hN; exact upd_quiet _ _ _ _ _ _ hq
  have hNd : Lead N i d := by subst hN; exact hd.upd _ _ _ _ _ (fun k hk => by simp [txTp, hk, hd.others k hk])
  have hNt : (N.tp i).timer.isTime N.s.flavor N.s.now = false := by
    subst hN
    simp only [upd_tp, txTp, ↓reduceIte, upd_flavor, upd_now]
    exact isTime_fromNow_early _ _ _ _ ht0.1 ht0.2 (by omega) (by omega)
  rw [poll_solo N d hNd hNq (by subst hN; exact hi) (fun _ => hNt) (by subst hN; simp)]
  have hrx : N.rxq = [cmIn peer d.source (ctsBytes m.pgn np (seq + 1))] := by subst hN; rfl
  rw [hrx]
  simp only [rxList, List.foldl_cons, List.foldl_nil]
  rw [rxFrame_cm N peer d.source _ (by omega) (by omega) (by simp [ctsBytes, le3])]
  unfold handleCM
  have hfd : findDev N.s.devs d.source = some i := findDev_lead hNd (by omega)
  simp only [hfd, ctsBytes, le3, List.cons_append, List.nil_append, List.getD_cons_zero, List.getD_cons_succ, le3_sum m.pgn hpgn]
  simp only [Nat.reduceEqDiff, or_self, ↓reduceIte]
  have hmod : (seq + 1) % 256 = seq + 1 := Nat.mod_eq_of_lt (by omega)
  rw [hmod]
  have hpend : (N.tp i).pend = m := by subst hN; simp [txTp]
  have hns : (N.tp i).nextSeq = seq := by subst hN; simp [txTp]
  have hcts := handleCTS_grant N i peer (tpCtsPackets np) (seq + 1) d hNq hNd.dev0 (by rw [hpend]; exact hm)
    (by omega) (by omega) (by rw [hpend]; exact hlen) (by unfold tpCtsPackets; omega) (by rw [hns])
  rw [hpend] at hcts
  rw [hcts, hns]
  subst hN
  simp only [upd_setTp, upd_pushes, upd_tp, setTimer, List.nil_append, upd_flavor, upd_now]
  have hres : ∀ X : Node, X = a.upd (txTp i a m (seq + min (tpCtsPackets np) (tpPacketCount m.len - seq)) a.s.now 100) sl out
        ((List.range (min (tpCtsPackets np) (tpPacketCount m.len - seq))).map fun x => dtFrame d.source m (seq + x))
        [cmFrame peer d.source (ctsBytes m.pgn np (seq + 1))] →
      claimTick { X with rxq := [] } = a.upd (txTp i a m (seq + min (tpCtsPackets np) (tpPacketCount m.len - seq)) a.s.now 100) sl out
        ((List.range (min (tpCtsPackets np) (tpPacketCount m.len - seq))).map fun x => dtFrame d.source m (seq + x)) [] := by
    intro X hX
    subst hX
    exact claimTick_lead _ hd.claims
  apply hres
  unfold Node.upd
  congr 1
  funext j
  by_cases hj : j = i <;> simp [txTp, hj]

end N2k.TP
