import N2k.Lemmas.TPLinkBam
import N2k.Lemmas.TPLinkSched
/-! C10: the BAM transfer of two library nodes under an ARBITRARY poll order (`step` / `run` of `TPLinkSched`). The sender is
not paced by the listener, so frames pile up: between two polls of B any number of A's frames may be under way, B takes up to
20 of them per poll (the loop of `ParseMessages`), the rest stays queued. The proof is a simulation: the two nodes after ANY
legal schedule are the configuration `confB` of four counters computed from the schedule alone (`Cnt`, `cntRun`). -/
namespace N2k.TP
open N2k.Send N2k.Time N2k.Spec

theorem take_range'_one : ∀ (k s n : Nat), (List.range' s n).take k = List.range' s (min k n)
  | 0, s, n => by simp
  | k+1, s, 0 => by simp
  | k+1, s, n+1 => by
    rw [List.range'_succ, List.take_succ_cons, take_range'_one k (s + 1) n, show min (k + 1) (n + 1) = min k n + 1 by omega,
      List.range'_succ]

section
variable {i : Nat}

/-- `poll_solo` without the bound on the queue: the first 20 queued frames are handled, the others stay queued -/
theorem poll_solo_long (n : Node) (d : Dev) (hd : Lead n i d) (hq : Quiet n.s i) (hi : InfoIdle n i)
    (ht : (n.tp i).hasPending = true → (n.tp i).timer.isTime n.s.flavor n.s.now = false) :
    poll n = claimTick { (rxList (n.rxq.take 20) n) with rxq := n.rxq.drop 20 } := by
  unfold poll
  rw [flush_quiet n i hq, pendingAll_solo n d hd hi]
  have h1 : (if (n.tp i).hasPending = true then pendingTP n i else n) = n := by
    by_cases hp : (n.tp i).hasPending = true
    · rw [if_pos hp, pendingTP_notdue n i (ht hp)]
    · rw [if_neg hp]
  rw [h1]

/-- `poll_bam` with earlier frames `fs` still at the driver -/
theorem poll_bam_fs (a : Node) (d : Dev) (m : Msg) (seq t0 tmo : Nat) (sl : List Slot) (out : List Delivery) (fs : List Frame)
    (hd : Lead a i d) (hq : Quiet a.s i) (hi : InfoIdle a i) (hm : m.dst = 255) (hp0 : m.pgn ≠ 0) (hlen : m.len ≤ 223)
    (hdue : t0 + tmo + 1 ≤ a.s.now ∧ a.s.now < t0 + tmo + INT32_MAX) (h64 : a.s.now + 100 < M64)
    (hseq : seq < tpPacketCount m.len) :
    poll (a.upd (txTp i a m seq t0 tmo) sl out fs []) =
      a.upd (bamTp i a m seq a.s.now) sl out (fs ++ [dtFrame d.source m seq]) [] := by
  have hpc := tpPacketCount_le m.len hlen
  generalize hN : a.upd (txTp i a m seq t0 tmo) sl out fs [] = N
  have hNq : Quiet N.s i := by subst hN; exact upd_quiet _ _ _ _ _ _ hq
  have hNd : Lead N i d := by subst hN; exact hd.upd _ _ _ _ _ (fun k hk => by simp [txTp, hk, hd.others k hk])
  have hNd0 : N.s.devs[i]? = some d := hNd.dev0
  have hNt : (N.tp i).timer.isTime N.s.flavor N.s.now = true := by
    subst hN
    simp only [upd_tp, txTp, ↓reduceIte, upd_flavor, upd_now]
    exact isTime_fromNow_late _ _ _ _ hdue.1 hdue.2 (by omega)
  have hpend : (N.tp i).pend = m := by subst hN; simp [txTp]
  have hns : (N.tp i).nextSeq = seq := by subst hN; simp [txTp]
  have hhp : (N.tp i).hasPending = true := by subst hN; simp [txTp]
  have hrx : N.rxq = [] := by subst hN; rfl
  unfold poll
  rw [flush_quiet N i hNq, pendingAll_solo N d hNd (by subst hN; exact hi), hhp, hrx]
  simp only [↓reduceIte, List.take_nil, List.drop_nil, rxList, List.foldl_nil]
  have hpt : pendingTP N i =
      (if tpPacketCount m.len ≤ seq + 1
       then endSendTP (setTimer ((N.setTp i { N.tp i with nextSeq := ((N.tp i).nextSeq + 1) % 256 }).pushes
              [dtFrame d.source (N.tp i).pend (N.tp i).nextSeq]) i N.bamGap) i
       else setTimer ((N.setTp i { N.tp i with nextSeq := ((N.tp i).nextSeq + 1) % 256 }).pushes
              [dtFrame d.source (N.tp i).pend (N.tp i).nextSeq]) i N.bamGap) := by
    unfold pendingTP
    have hc : (N.tp i).pend.pgn ≠ 0 ∧ (N.tp i).timer.isTime N.s.flavor N.s.now = true := ⟨by rw [hpend]; exact hp0, hNt⟩
    have hb : (N.tp i).pend.dst = 0xff := by rw [hpend]; exact hm
    simp only []
    rw [if_pos hc, if_pos hb]
    rw [sendTPDT_quiet N i d hNq hNd0 (by rw [hb]; omega)]
    simp only []
    have hX : hasAllSent (setTimer ((N.setTp i { N.tp i with nextSeq := ((N.tp i).nextSeq + 1) % 256 }).pushes
          [dtFrame d.source (N.tp i).pend (N.tp i).nextSeq]) i N.bamGap) i = true ↔ tpPacketCount m.len ≤ seq + 1 := by
      rw [hasAllSent_iff]; simp [setTimer, Node.setTp, hpend, hns, Nat.mod_eq_of_lt (show seq + 1 < 256 by omega)]
    by_cases hall : tpPacketCount m.len ≤ seq + 1
    · rw [if_pos hall, if_pos (hX.2 hall)]
    · rw [if_neg hall, if_neg (fun h => hall (hX.1 h))]
  rw [hpt]
  subst hN
  have hres : ∀ X : Node, X = a.upd (bamTp i a m seq a.s.now) sl out (fs ++ [dtFrame d.source m seq]) [] →
      claimTick { X with rxq := [] } = a.upd (bamTp i a m seq a.s.now) sl out (fs ++ [dtFrame d.source m seq]) [] := by
    intro X hX; subst hX
    exact claimTick_lead _ hd.claims
  apply hres
  unfold bamTp
  by_cases hall : tpPacketCount m.len ≤ seq + 1
  · rw [if_pos hall, if_neg (by omega)]
    simp only [endSendTP, setTimer, upd_setTp, upd_pushes, upd_tp, upd_flavor, upd_now]
    unfold Node.upd
    congr 1
    all_goals first
      | (funext j; by_cases hj : j = i <;> simp [txTp, doneTp, hj, hi.1, hi.2, Nat.mod_eq_of_lt (show seq + 1 < 256 by omega)])
      | simp [txTp]
  · rw [if_neg hall, if_pos (by omega)]
    simp only [setTimer, upd_setTp, upd_pushes, upd_tp, upd_flavor, upd_now]
    unfold Node.upd
    congr 1
    all_goals first
      | (funext j; by_cases hj : j = i <;> simp [txTp, hj, Nat.mod_eq_of_lt (show seq + 1 < 256 by omega)])
      | simp [txTp]

/-- the listening node takes the BAM announce out of its queue (one frame of the loop of `ParseMessages`) -/
theorem rxB_announce (b : Node) (m : Msg) (srcA j : Nat) (S' : List Slot) (a0 : Slot) (fs rxq : List Frame)
    (hsrc : srcA < 256) (hlen : m.len ≤ 223) (hpgn : m.pgn < 2^24)
    (hknown : (checkKnown m.pgn).1 = true ∨ ¬ b.onlyKnown = true)
    (hS : S' = b.slots.map (freeSess srcA 255))
    (hj : findIdx (slotHit m.pgn srcA 255 true) S' = some j) (ha0 : S'[j]? = some a0) :
    rxFrame (b.upd b.tp b.slots [] fs rxq) (cmFrame srcA 255 (announceBytes 32 m)) =
      rcvB b m srcA j S' a0 (millis32 b.s.now) [] 0 fs rxq := by
  generalize hN : b.upd b.tp b.slots [] fs rxq = N
  rw [show cmFrame srcA 255 (announceBytes 32 m) = cmIn srcA 255 (announceBytes 32 m) from rfl]
  rw [rxFrame_cm N srcA 255 _ hsrc (by omega) (by simp [announceBytes, le3])]
  unfold handleCM
  have hpc : packetCount m.len % 256 = tpPacketCount m.len := by
    rw [packetCount_eq]; have := tpPacketCount_le m.len hlen; omega
  have hsz : m.len % 256 + m.len / 256 % 256 * 256 = m.len := by omega
  simp only [announceBytes, le3, List.cons_append, List.nil_append, List.getD_cons_zero, List.getD_cons_succ,
    le3_sum m.pgn hpgn, hpc, hsz]
  simp only [Nat.reduceEqDiff, true_or, ↓reduceIte]
  have hNs : N.slots = b.slots := by subst hN; rfl
  have hNn : N.s.now = b.s.now := by subst hN; rfl
  have hNo : N.onlyKnown = b.onlyKnown := by subst hN; rfl
  rw [handleStart_listen N srcA 255 m.pgn m.len (tpPacketCount m.len) j _ _ a0 (by simp) hlen
        (by rw [hNo]; exact hknown) (by rw [hNs, ← hS]; exact hj) (by rw [hNs, ← hS]; exact ha0)]
  rw [hNs, ← hS, hNn]
  subst hN
  rfl

end

section
variable (a b : Node) (ia ib : Nat) (da db : Dev) (m : Msg) (j : Nat) (S' : List Slot) (a0 : Slot)

/-- the frames of a BAM transfer in the order they are sent: the announce, then the data packets -/
def bamFrame (x : Nat) : Frame :=
  if x = 0 then cmFrame da.source 255 (announceBytes 32 m) else dtFrame da.source m (x - 1)

/-- frames number `s`, …, `s + c - 1` -/
def bamFrames (s c : Nat) : List Frame := (List.range' s c).map (bamFrame da m)

/-- the sender's transport state after `n ≥ 1` frames, timer armed at `t0` -/
def aTp (n t0 : Nat) : Nat → TpDev := if n = 1 then txTp ia a m 0 t0 50 else bamTp ia a m (n - 2) t0
/-- the sender's timeout after `n` frames: 50 ms after the announce, then the pacing interval -/
def aTmo (n : Nat) : Nat := if n = 1 then 50 else a.bamGap

/-- the listener's slots / handler log after it has taken `q` frames -/
def bSlots (q mt : Nat) (S2 : List Slot) : List Slot :=
  if q = 0 then b.slots else if q ≤ tpPacketCount m.len then S'.set j (sessB a0 m da.source mt (q - 1)) else S2
def bOut (q : Nat) : List Delivery := if q ≤ tpPacketCount m.len then [] else [delivered m da.source 255]

/-- the two nodes: A has sent `n` frames (timer armed at `t0`, clock `tA`), frames `p..n-1` are still at its driver, frames
`q..p-1` wait in B's queue, B has taken `q` frames (clock `tB`) -/
def confB (n p q t0 tA tB mt : Nat) (S2 : List Slot) : Node × Node :=
  ((atTime a tA).upd (aTp a ia m n t0) a.slots a.out (bamFrames da m p (n - p)) [],
   (atTime b tB).upd b.tp (bSlots b da m j S' a0 q mt S2) (bOut da m q) [] (bamFrames da m q (p - q)))

/-- what a schedule does, in counters: `n` frames sent, `p` of them wired to B, `q` taken by B, `el` ms since A armed its timer -/
structure Cnt where
  n : Nat
  p : Nat
  q : Nat
  el : Nat
deriving DecidableEq, Repr

/-- one poll in counters: a poll of A sends the next data packet iff packets are left and the timer (50 ms after the announce,
then `gap`) is due; a poll of B takes up to 20 of the frames under way -/
def cntStep (np gap : Nat) (w : Who) (d : Nat) (c : Cnt) : Cnt :=
  match w with
  | .A => if c.n ≤ np ∧ (if c.n = 1 then 50 else gap) < c.el + d then { c with n := c.n + 1, el := 0 } else { c with el := c.el + d }
  | .B => { c with p := c.n, q := c.q + min 20 (c.n - c.q) }

def cntRun (np gap : Nat) : List (Who × Nat) → Cnt → Cnt
  | [], c => c
  | x :: t, c => cntRun np gap t (cntStep np gap x.1 x.2 c)

/-- legal schedule: no poll of A at the very millisecond its timer runs out (the two scheduler flavours differ there) and none
2^31 ms or more after it; nothing is demanded of B -/
def bamLegal (np gap : Nat) : List (Who × Nat) → Cnt → Prop
  | [], _ => True
  | (.A, d) :: t, c => (c.n ≤ np → c.el + d ≠ (if c.n = 1 then 50 else gap) ∧ c.el + d < (if c.n = 1 then 50 else gap) + INT32_MAX) ∧
      bamLegal np gap t (cntStep np gap .A d c)
  | (.B, d) :: t, c => bamLegal np gap t (cntStep np gap .B d c)

variable {a b ia ib da db m j S' a0}

theorem bamFrames_append (s c c' : Nat) : bamFrames da m s c ++ bamFrames da m (s + c) c' = bamFrames da m s (c + c') := by
  unfold bamFrames
  rw [← List.map_append]
  have := @List.range'_append s c c' 1
  rw [Nat.one_mul] at this
  rw [this]

theorem bamFrames_zero (s : Nat) : bamFrames da m s 0 = [] := by simp [bamFrames]

/-- B takes `c` consecutive frames of the transfer, in one poll or several: announce → session, data → data appended, last
data packet → exactly one delivery; B hands nothing to its driver -/
theorem rxB_steps (h : BamHyp a b ia ib da db m j S' a0) (tB : Nat) (rxq : List Frame) : ∀ (c q mt : Nat) (S2 : List Slot),
    q + c ≤ tpPacketCount m.len + 1 →
    ∃ mt' S2', rxList (bamFrames da m q c) ((atTime b tB).upd b.tp (bSlots b da m j S' a0 q mt S2) (bOut da m q) [] rxq) =
      (atTime b tB).upd b.tp (bSlots b da m j S' a0 (q + c) mt' S2') (bOut da m (q + c)) [] rxq
  | 0, q, mt, S2, _ => ⟨mt, S2, by simp [bamFrames, rxList]⟩
  | c+1, q, mt, S2, hq => by
    have hsa := h.srcA
    have hnp : 2 ≤ tpPacketCount m.len := by have := h.len9; unfold tpPacketCount; omega
    have htight := tpPacketCount_tight m.len (by have := h.len9; omega)
    have hcov := tpPacketCount_cover m.len
    have hone : ∃ mt1 S21, rxFrame ((atTime b tB).upd b.tp (bSlots b da m j S' a0 q mt S2) (bOut da m q) [] rxq) (bamFrame da m q) =
        (atTime b tB).upd b.tp (bSlots b da m j S' a0 (q + 1) mt1 S21) (bOut da m (q + 1)) [] rxq := by
      by_cases h0 : q = 0
      · subst h0
        refine ⟨millis32 tB, S2, ?_⟩
        have hr := rxB_announce (atTime b tB) m da.source j S' a0 [] rxq (by omega) h.len223 h.pgn24 h.known h.hS h.hj h.ha0
        simp only [bSlots, bOut, bamFrame, ↓reduceIte, Nat.zero_le, Nat.zero_add, show (1 : Nat) ≤ tpPacketCount m.len by omega,
          show ¬ ((1 : Nat) = 0) by omega, Nat.sub_self]
        exact hr
      · obtain ⟨k, hk⟩ : ∃ k, q = k + 1 := ⟨q - 1, by omega⟩
        subst hk
        by_cases hlast : k + 1 = tpPacketCount m.len
        · obtain ⟨S3, hr⟩ := rxB_last (atTime b tB) m da.source j S' a0 mt k [] [] rxq (by omega) h.mdst h.none h.jlt h.hreq
            (by omega) (by omega) h.len223 h.hdata
          refine ⟨mt, S3, ?_⟩
          simp only [bSlots, bOut, bamFrame, h0, ↓reduceIte, show k + 1 ≤ tpPacketCount m.len by omega,
            show ¬ (k + 1 + 1 ≤ tpPacketCount m.len) by omega, show ¬ (k + 1 + 1 = 0) by omega, Nat.add_sub_cancel]
          exact hr
        · have hr := rxB_mid (atTime b tB) m da.source j S' a0 mt k [] [] rxq (by omega) h.mdst h.none h.jlt h.hreq (by omega) h.len223
          refine ⟨millis32 tB, S2, ?_⟩
          simp only [bSlots, bOut, bamFrame, h0, ↓reduceIte, show k + 1 ≤ tpPacketCount m.len by omega,
            show k + 1 + 1 ≤ tpPacketCount m.len by omega, show ¬ (k + 1 + 1 = 0) by omega, Nat.add_sub_cancel]
          exact hr
    obtain ⟨mt1, S21, h1⟩ := hone
    obtain ⟨mt', S2', hrest⟩ := rxB_steps h tB rxq c (q + 1) mt1 S21 (by omega)
    refine ⟨mt', S2', ?_⟩
    have hsplit : bamFrames da m q (c + 1) = bamFrame da m q :: bamFrames da m (q + 1) c := by
      simp [bamFrames, List.range'_succ]
    rw [hsplit]
    simp only [rxList, List.foldl_cons] at hrest ⊢
    rw [h1, hrest, show q + 1 + c = q + (c + 1) by omega]


theorem aTp_tx (n t0 : Nat) (h1 : 1 ≤ n) (hn : n ≤ tpPacketCount m.len) : aTp a ia m n t0 = txTp ia a m (n - 1) t0 (aTmo a n) := by
  unfold aTp aTmo
  by_cases h : n = 1
  · subst h; simp
  · rw [if_neg h, if_neg h]; unfold bamTp; rw [if_pos (by omega), show n - 2 + 1 = n - 1 by omega]

theorem aTp_done (t0 : Nat) (hnp : 2 ≤ tpPacketCount m.len) :
    aTp a ia m (tpPacketCount m.len + 1) t0 = doneTp ia a m (tpPacketCount m.len) := by
  unfold aTp
  rw [if_neg (by omega)]; unfold bamTp; rw [if_neg (by omega), show tpPacketCount m.len + 1 - 2 + 1 = tpPacketCount m.len by omega]

/-- a poll of A with all packets sent or the pacing timer not due changes only its clock -/
theorem stepB_A_idle (h : BamHyp a b ia ib da db m j S' a0) (hgap : a.bamGap ≤ 100000) (n p q t0 tA tB mt d : Nat) (S2 : List Slot)
    (h1 : 1 ≤ n) (hn : n ≤ tpPacketCount m.len + 1) (h0 : t0 ≤ tA)
    (hidle : n ≤ tpPacketCount m.len → tA + d < t0 + aTmo a n) (h64 : tA + d + 100100 < M64) :
    step .A d (confB a b ia da m j S' a0 n p q t0 tA tB mt S2) = confB a b ia da m j S' a0 n p q t0 (tA + d) tB mt S2 := by
  have hnp : 2 ≤ tpPacketCount m.len := by have := h.len9; unfold tpPacketCount; omega
  unfold step confB
  simp only [wire_upd, List.append_nil, advance_upd]
  by_cases hlast : n ≤ tpPacketCount m.len
  · have htm : aTmo a n ≤ 100000 := by unfold aTmo; split <;> omega
    rw [aTp_tx n t0 h1 hlast]
    rw [poll_idle _ da ((h.devA.atTime (tA + d)).upd _ _ _ _ _ (fun k hk => by simp [txTp, hk, h.devA.others k hk]))
      (upd_quiet _ _ _ _ _ _ (atTime_quiet (tA + d) h.qa)) h.aInfo (fun _ => by
        simp only [upd_tp, txTp, ↓reduceIte]
        exact isTime_fromNow_early _ _ _ _ (by show t0 ≤ tA + d; omega) (hidle hlast) htm (by omega)) rfl]
  · have e : n = tpPacketCount m.len + 1 := by omega
    subst e
    rw [aTp_done t0 hnp]
    rw [poll_idle _ da ((h.devA.atTime (tA + d)).upd _ _ _ _ _ (fun k hk => by simp [doneTp, hk, h.devA.others k hk]))
      (upd_quiet _ _ _ _ _ _ (atTime_quiet (tA + d) h.qa)) h.aInfo (fun hh => by simp [doneTp] at hh) rfl]

/-- a poll of A with packets left and the pacing timer due: exactly one more data packet goes to the driver, behind the others -/
theorem stepB_A_fire (h : BamHyp a b ia ib da db m j S' a0) (n p q t0 tA tB mt d : Nat) (S2 : List Slot)
    (h1 : 1 ≤ n) (hn : n ≤ tpPacketCount m.len) (hp : p ≤ n)
    (hdue : t0 + aTmo a n + 1 ≤ tA + d ∧ tA + d < t0 + aTmo a n + INT32_MAX) (h64 : tA + d + 100 < M64) :
    step .A d (confB a b ia da m j S' a0 n p q t0 tA tB mt S2) =
      confB a b ia da m j S' a0 (n + 1) p q (tA + d) (tA + d) tB mt S2 := by
  unfold step confB
  simp only [wire_upd, List.append_nil, advance_upd]
  rw [aTp_tx n t0 h1 hn]
  have hc := poll_bam_fs (atTime a (tA + d)) da m (n - 1) t0 (aTmo a n) a.slots a.out (bamFrames da m p (n - p))
    (h.devA.atTime _) (atTime_quiet _ h.qa) h.aInfo h.mdst h.pgn0 h.len223 ⟨hdue.1, hdue.2⟩ (by show tA + d + 100 < M64; exact h64) (by omega)
  rw [txTp_atTime, bamTp_atTime] at hc
  rw [hc]
  have e1 : aTp a ia m (n + 1) (tA + d) = bamTp ia a m (n - 1) (tA + d) := by
    unfold aTp; rw [if_neg (by omega), show n + 1 - 2 = n - 1 by omega]
  have e2 : bamFrames da m p (n + 1 - p) = bamFrames da m p (n - p) ++ [dtFrame da.source m (n - 1)] := by
    rw [show n + 1 - p = (n - p) + 1 by omega, ← bamFrames_append, show p + (n - p) = n by omega]
    simp [bamFrames, bamFrame, show n ≠ 0 by omega]
  rw [e1, e2]
  rfl

/-- a poll of B: everything A sent so far is in B's queue, B takes the first 20 (or all) of it, never answers -/
theorem stepB_B (h : BamHyp a b ia ib da db m j S' a0) (n p q t0 tA tB mt d : Nat) (S2 : List Slot)
    (hn : n ≤ tpPacketCount m.len + 1) (hqp : q ≤ p) (hp : p ≤ n) :
    ∃ mt' S2', step .B d (confB a b ia da m j S' a0 n p q t0 tA tB mt S2) =
      confB a b ia da m j S' a0 n n (q + min 20 (n - q)) t0 tA (tB + d) mt' S2' := by
  unfold step confB
  simp only [wire_upd, advance_upd]
  have eq1 : bamFrames da m q (p - q) ++ bamFrames da m p (n - p) = bamFrames da m q (n - q) := by
    have := bamFrames_append (da := da) (m := m) q (p - q) (n - p)
    rw [show q + (p - q) = p by omega, show p - q + (n - p) = n - q by omega] at this
    exact this
  rw [eq1]
  generalize hN : (atTime b (tB + d)).upd b.tp (bSlots b da m j S' a0 q mt S2) (bOut da m q) [] (bamFrames da m q (n - q)) = N
  have hNd : Lead N ib db := by subst hN; exact (h.devB.atTime (tB + d)).same _ _ _ _
  have hNq : Quiet N.s ib := by subst hN; exact upd_quiet _ _ _ _ _ _ (atTime_quiet _ h.qb)
  rw [poll_solo_long N db hNd hNq (by subst hN; exact h.bInfo) (fun hp' => by
    subst hN
    have hp'' : (b.tp ib).hasPending = true := hp'
    rw [h.bIdle] at hp''; cases hp'')]
  have hrx : N.rxq = bamFrames da m q (n - q) := by subst hN; rfl
  rw [hrx]
  have htake : (bamFrames da m q (n - q)).take 20 = bamFrames da m q (min 20 (n - q)) := by
    unfold bamFrames; rw [← List.map_take, take_range'_one]
  have hdrop : (bamFrames da m q (n - q)).drop 20 = bamFrames da m (q + min 20 (n - q)) (n - (q + min 20 (n - q))) := by
    unfold bamFrames; rw [← List.map_drop, List.drop_range']
    by_cases hc : n - q ≤ 20
    · rw [show n - q - 20 = 0 by omega, show n - (q + min 20 (n - q)) = 0 by omega]; simp
    · rw [show min 20 (n - q) = 20 by omega, show q + 20 * 1 = q + 20 by omega, show n - q - 20 = n - (q + 20) by omega]
  rw [htake, hdrop]
  obtain ⟨mt', S2', hr⟩ := rxB_steps h (tB + d) (bamFrames da m q (n - q)) (min 20 (n - q)) q mt S2 (by omega)
  subst hN
  rw [hr]
  refine ⟨mt', S2', ?_⟩
  rw [show n - n = 0 by omega, bamFrames_zero]
  refine congrArg (Prod.mk _) ?_
  exact claimTick_lead _ (h.devB.atTime (tB + d)).claims

theorem total_cons' (w : Who) (d : Nat) (t : List (Who × Nat)) : total ((w, d) :: t) = d + total t := by simp [total]

/-- **simulation**: after ANY legal schedule the two nodes are the configuration of the schedule's counters -/
theorem runB_sim (h : BamHyp a b ia ib da db m j S' a0) (hgap : a.bamGap ≤ 100000) : ∀ (sch : List (Who × Nat))
    (n p q t0 tA tB mt : Nat) (S2 : List Slot),
    1 ≤ n → n ≤ tpPacketCount m.len + 1 → q ≤ p → p ≤ n → t0 ≤ tA →
    bamLegal (tpPacketCount m.len) a.bamGap sch ⟨n, p, q, tA - t0⟩ → tA + total sch + 100100 < M64 →
    ∃ t0' tA' tB' mt' S2', run sch (confB a b ia da m j S' a0 n p q t0 tA tB mt S2) =
      confB a b ia da m j S' a0 (cntRun (tpPacketCount m.len) a.bamGap sch ⟨n, p, q, tA - t0⟩).n
        (cntRun (tpPacketCount m.len) a.bamGap sch ⟨n, p, q, tA - t0⟩).p
        (cntRun (tpPacketCount m.len) a.bamGap sch ⟨n, p, q, tA - t0⟩).q t0' tA' tB' mt' S2'
  | [], n, p, q, t0, tA, tB, mt, S2, _, _, _, _, _, _, _ => ⟨t0, tA, tB, mt, S2, rfl⟩
  | (.B, d) :: t, n, p, q, t0, tA, tB, mt, S2, h1, hn, hqp, hp, h0, hl, h64 => by
    rw [total_cons'] at h64
    obtain ⟨mt1, S21, hs⟩ := stepB_B h n p q t0 tA tB mt d S2 hn hqp hp
    have hl' : bamLegal (tpPacketCount m.len) a.bamGap t ⟨n, n, q + min 20 (n - q), tA - t0⟩ := hl
    obtain ⟨t0', tA', tB', mt', S2', hR⟩ := runB_sim h hgap t n n (q + min 20 (n - q)) t0 tA (tB + d) mt1 S21 h1 hn (by omega)
      (Nat.le_refl _) h0 hl' (by omega)
    refine ⟨t0', tA', tB', mt', S2', ?_⟩
    show run t (step .B d _) = _
    rw [hs]
    exact hR
  | (.A, d) :: t, n, p, q, t0, tA, tB, mt, S2, h1, hn, hqp, hp, h0, hl, h64 => by
    rw [total_cons'] at h64
    obtain ⟨hnow, hl'⟩ := hl
    have hnow : n ≤ tpPacketCount m.len → tA - t0 + d ≠ (if n = 1 then 50 else a.bamGap) ∧
        tA - t0 + d < (if n = 1 then 50 else a.bamGap) + INT32_MAX := hnow
    have htmo : (if n = 1 then 50 else a.bamGap) = aTmo a n := rfl
    by_cases hfire : n ≤ tpPacketCount m.len ∧ (if n = 1 then 50 else a.bamGap) < tA - t0 + d
    · have hc : cntStep (tpPacketCount m.len) a.bamGap .A d ⟨n, p, q, tA - t0⟩ = ⟨n + 1, p, q, 0⟩ := by
        simp only [cntStep]; rw [if_pos hfire]
      have hnow' := hnow hfire.1
      rw [htmo] at hnow' hfire
      rw [hc] at hl'
      obtain ⟨t0', tA', tB', mt', S2', hR⟩ := runB_sim h hgap t (n + 1) p q (tA + d) (tA + d) tB mt S2 (by omega) (by omega) hqp (by omega)
        (Nat.le_refl _) (by rw [Nat.sub_self]; exact hl') (by omega)
      refine ⟨t0', tA', tB', mt', S2', ?_⟩
      show run t (step .A d _) = _
      rw [stepB_A_fire h n p q t0 tA tB mt d S2 h1 hfire.1 hp ⟨by omega, by omega⟩ (by omega)]
      simp only [cntRun]
      rw [hc]
      rw [Nat.sub_self] at hR
      exact hR
    · have hc : cntStep (tpPacketCount m.len) a.bamGap .A d ⟨n, p, q, tA - t0⟩ = ⟨n, p, q, tA - t0 + d⟩ := by
        simp only [cntStep]; rw [if_neg hfire]
      rw [hc] at hl'
      obtain ⟨t0', tA', tB', mt', S2', hR⟩ := runB_sim h hgap t n p q t0 (tA + d) tB mt S2 h1 hn hqp hp (by omega)
        (by rw [show tA + d - t0 = tA - t0 + d by omega]; exact hl') (by omega)
      refine ⟨t0', tA', tB', mt', S2', ?_⟩
      show run t (step .A d _) = _
      rw [stepB_A_idle h hgap n p q t0 tA tB mt d S2 h1 hn h0 (fun hle => by
        have := hnow hle
        rw [htmo] at this hfire
        have : ¬ (aTmo a n < tA - t0 + d) := fun hh => hfire ⟨hle, hh⟩
        omega) (by omega)]
      simp only [cntRun]
      rw [hc]
      rw [show tA + d - t0 = tA - t0 + d by omega] at hR
      exact hR


theorem cntRun_inv (np gap : Nat) : ∀ (sch : List (Who × Nat)) (c : Cnt), c.q ≤ c.p → c.p ≤ c.n → c.n ≤ np + 1 →
    (cntRun np gap sch c).q ≤ (cntRun np gap sch c).p ∧ (cntRun np gap sch c).p ≤ (cntRun np gap sch c).n ∧
    (cntRun np gap sch c).n ≤ np + 1
  | [], c, h1, h2, h3 => ⟨h1, h2, h3⟩
  | (.A, d) :: t, c, h1, h2, h3 => by
    simp only [cntRun]
    by_cases hf : c.n ≤ np ∧ (if c.n = 1 then 50 else gap) < c.el + d
    · have e : cntStep np gap .A d c = { c with n := c.n + 1, el := 0 } := by simp only [cntStep]; rw [if_pos hf]
      rw [e]; exact cntRun_inv np gap t _ (by dsimp only; omega) (by dsimp only; omega) (by dsimp only; omega)
    · have e : cntStep np gap .A d c = { c with el := c.el + d } := by simp only [cntStep]; rw [if_neg hf]
      rw [e]; exact cntRun_inv np gap t _ (by dsimp only; omega) (by dsimp only; omega) (by dsimp only; omega)
  | (.B, d) :: t, c, h1, h2, h3 => by
    simp only [cntRun]
    apply cntRun_inv np gap t
    all_goals (simp only [cntStep]; (try dsimp only); omega)

end

end N2k.TP
