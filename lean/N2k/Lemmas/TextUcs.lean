import N2k.Lemmas.TextRound
/-! UCS-2 round trip of `N2k.Model.Text` (C16): well-formed UTF-8 text through `AddVarStr` (unicode) and
`GetVarStr`. Core Lean only. -/
namespace N2k.Text

/-- a well-formed UTF-8 character, given by the payload bits of its bytes:
`a b` = the byte `b`; `two x y` = `0xC0+x, 0x80+y`; `three x y z` = `0xE0+x, 0x80+y, 0x80+z`;
`four x y z w` = `0xF0+x, 0x80+y, 0x80+z, 0x80+w` -/
inductive Chr where
  | a (b : Nat)
  | two (x y : Nat)
  | three (x y z : Nat)
  | four (x y z w : Nat)

/-- well-formed: ASCII without NUL; 2- and 3-byte sequences not overlong; 4-byte lead 0xF0..0xF7 -/
def Chr.WF : Chr → Prop
  | .a b => 0 < b ∧ b < 0x80
  | .two x y => 2 ≤ x ∧ x < 32 ∧ y < 64
  | .three x y z => x < 16 ∧ y < 64 ∧ z < 64 ∧ (x = 0 → 32 ≤ y)
  | .four x y z w => x < 8 ∧ y < 64 ∧ z < 64 ∧ w < 64

def Chr.isAscii : Chr → Bool
  | .a _ => true
  | _ => false

/-- the UTF-8 bytes of the character -/
def Chr.bytes : Chr → List Nat
  | .a b => [b]
  | .two x y => [0xC0 + x, 0x80 + y]
  | .three x y z => [0xE0 + x, 0x80 + y, 0x80 + z]
  | .four x y z w => [0xF0 + x, 0x80 + y, 0x80 + z, 0x80 + w]

/-- the UCS-2 code unit stored for it: its code point, or '?' beyond the Basic Multilingual Plane -/
def Chr.unit : Chr → Nat
  | .a b => b
  | .two x y => x * 64 + y
  | .three x y z => x * 4096 + y * 64 + z
  | .four _ _ _ _ => 0x3F

/-- what is read back: the same bytes, or '?' for a 4-byte sequence -/
def Chr.back : Chr → List Nat
  | .four _ _ _ _ => [0x3F]
  | c => c.bytes

def unitBytes (c : Chr) : List Nat := [c.unit % 256, (c.unit >>> 8) % 256]

/-! ### bit facts -/

theorem lor3 (x y z : Nat) (hy : y < 64) (hz : z < 64) :
    (x <<< 12 ||| y <<< 6 ||| z) = x * 4096 + y * 64 + z := by
  have h1 : x <<< 12 ||| y <<< 6 = x <<< 12 + y <<< 6 :=
    (Nat.shiftLeft_add_eq_or_of_lt (by rw [Nat.shiftLeft_eq]; omega : y <<< 6 < 2 ^ 12) x).symm
  have h2 : x <<< 12 + y <<< 6 = (x * 64 + y) <<< 6 := by simp only [Nat.shiftLeft_eq]; omega
  rw [h1, h2, ← Nat.shiftLeft_add_eq_or_of_lt (by omega : z < 2 ^ 6)]
  simp only [Nat.shiftLeft_eq]; omega
theorem lor2 (x y : Nat) (hy : y < 64) : (x <<< 6 ||| y) = x * 64 + y := by
  rw [← Nat.shiftLeft_add_eq_or_of_lt (by omega : y < 2 ^ 6)]
  simp only [Nat.shiftLeft_eq]
theorem and63 (u : Nat) : u &&& 0x3F = u % 64 := Nat.and_two_pow_sub_one_eq_mod u 6
theorem shr6 (u : Nat) : u >>> 6 = u / 64 := Nat.shiftRight_eq_div_pow u 6
theorem or80 : ∀ z, z < 64 → 0x80 ||| z = 0x80 + z := by decide
theorem orC0 : ∀ z, z < 32 → 0xC0 ||| z = 0xC0 + z := by decide
theorem orE0 : ∀ z, z < 16 → 0xE0 ||| z = 0xE0 + z := by decide
theorem and3F : ∀ y, y < 64 → (0x80 + y) &&& 0x3F = y := by decide
theorem and1F : ∀ y, y < 32 → (0xC0 + y) &&& 0x1F = y := by decide
theorem and0F : ∀ y, y < 16 → (0xE0 + y) &&& 0x0F = y := by decide
theorem contC : ∀ y, y < 64 → (0x80 + y) &&& 0xC0 = 0x80 := by decide
theorem seqLen2 : ∀ x, x < 32 → seqLen (0xC0 + x) = 2 := by decide
theorem seqLen3 : ∀ x, x < 16 → seqLen (0xE0 + x) = 3 := by decide
theorem seqLen4 : ∀ x, x < 8 → seqLen (0xF0 + x) = 4 := by decide

theorem recomb (u : Nat) (h : u < 65536) : (u % 256 + ((u >>> 8) % 256) <<< 8) % 65536 = u := by
  simp only [Nat.shiftRight_eq_div_pow, Nat.shiftLeft_eq]; omega

/-! ### one conversion step on a well-formed character -/

theorem Chr.bytes_head_ne (c : Chr) (h : c.WF) : ∃ b t, c.bytes = b :: t ∧ b ≠ 0 := by
  cases c with
  | a b => exact ⟨b, [], rfl, by simp [Chr.WF] at h; omega⟩
  | two x y => exact ⟨_, _, rfl, by omega⟩
  | three x y z => exact ⟨_, _, rfl, by omega⟩
  | four x y z w => exact ⟨_, _, rfl, by omega⟩

theorem ucs2Step_chr (c : Chr) (h : c.WF) (rest : List Nat) :
    ∃ b t, c.bytes = b :: t ∧ b ≠ 0 ∧
      ucs2Step (.at (c.bytes ++ rest)) b = .ok (c.bytes.length, c.unit) ∧
      (Ptr.at (c.bytes ++ rest)).add c.bytes.length = .at rest := by
  cases c with
  | a b =>
    simp only [Chr.WF] at h
    have hb : b ≠ 0 := by omega
    refine ⟨b, [], rfl, hb, ?_, ?_⟩
    · simp [ucs2Step, Chr.bytes, Chr.unit, seqLen_ascii b h.2]
    · simp [Chr.bytes, add_one_at b rest hb]
  | two x y =>
    simp only [Chr.WF] at h
    have hb : 0xC0 + x ≠ 0 := by omega
    have hy : 0x80 + y ≠ 0 := by omega
    refine ⟨_, _, rfl, hb, ?_, ?_⟩
    · simp only [ucs2Step, Chr.bytes, seqLen2 x h.2.1, List.cons_append, List.nil_append, utf8SeqBytes,
        add_one_at _ _ hb, seqBytesLoop, Ptr.deref_at, List.headD_cons, bind_ok, contC y h.2.2, if_true,
        pure_eq, List.length_cons, List.length_nil, and1F x h.2.1, and3F y h.2.2, lor2 x y h.2.2, Chr.unit]
    · simp only [Chr.bytes, List.cons_append, List.nil_append, List.length_cons, List.length_nil]
      rw [Ptr.add_cons _ 1 hb, Ptr.add_cons _ 0 hy, Ptr.add_zero]
  | three x y z =>
    simp only [Chr.WF] at h
    have hb : 0xE0 + x ≠ 0 := by omega
    have hy : 0x80 + y ≠ 0 := by omega
    have hz : 0x80 + z ≠ 0 := by omega
    refine ⟨_, _, rfl, hb, ?_, ?_⟩
    · simp only [ucs2Step, Chr.bytes, seqLen3 x h.1, List.cons_append, List.nil_append, utf8SeqBytes,
        add_one_at _ _ hb, add_one_at _ _ hy, seqBytesLoop, Ptr.deref_at, List.headD_cons, bind_ok, contC y h.2.1,
        contC z h.2.2.1, if_true, pure_eq, List.length_cons, List.length_nil, and0F x h.1, and3F y h.2.1,
        Chr.unit]
      rw [Ptr.add_cons _ 1 hb, add_one_at _ _ hy]
      simp only [Ptr.deref_at, List.headD_cons, bind_ok, and3F z h.2.2.1, lor3 x y z h.2.1 h.2.2.1]
    · simp only [Chr.bytes, List.cons_append, List.nil_append, List.length_cons, List.length_nil]
      rw [Ptr.add_cons _ 2 hb, Ptr.add_cons _ 1 hy, Ptr.add_cons _ 0 hz, Ptr.add_zero]
  | four x y z w =>
    simp only [Chr.WF] at h
    have hb : 0xF0 + x ≠ 0 := by omega
    have hy : 0x80 + y ≠ 0 := by omega
    have hz : 0x80 + z ≠ 0 := by omega
    have hw : 0x80 + w ≠ 0 := by omega
    refine ⟨_, _, rfl, hb, ?_, ?_⟩
    · simp only [ucs2Step, Chr.bytes, seqLen4 x h.1, List.cons_append, List.nil_append, utf8SeqBytes,
        add_one_at _ _ hb, add_one_at _ _ hy, add_one_at _ _ hz, seqBytesLoop, Ptr.deref_at, List.headD_cons,
        bind_ok, contC y h.2.1, contC z h.2.2.1, contC w h.2.2.2, if_true, pure_eq, List.length_cons,
        List.length_nil, Chr.unit]
    · simp only [Chr.bytes, List.cons_append, List.nil_append, List.length_cons, List.length_nil]
      rw [Ptr.add_cons _ 3 hb, Ptr.add_cons _ 2 hy, Ptr.add_cons _ 1 hz, Ptr.add_cons _ 0 hw, Ptr.add_zero]

/-- the UTF-8 text of a character list -/
def utf8 (cs : List Chr) : List Nat := cs.flatMap Chr.bytes

theorem utf8_cons (c : Chr) (t : List Chr) : utf8 (c :: t) = c.bytes ++ utf8 t := by simp [utf8]

theorem bytes_length_pos (c : Chr) : 1 ≤ c.bytes.length := by cases c <;> simp [Chr.bytes]

/-- `N2kUTF8ToUCS2` on well-formed text: the code units of the first `min #chars (room/2)` characters -/
theorem u2uLoop_chars (cs : List Chr) (hwf : ∀ c ∈ cs, c.WF) (f bi len bufLen : Nat) (d : D)
    (hf : (utf8 cs).length < f) (hb : bi + bufLen ≤ MaxDataLen + len) :
    u2uLoop f (.at (utf8 cs)) bi len bufLen d
      = .ok (blit d bi ((cs.take (min cs.length ((bufLen - len) / 2))).flatMap unitBytes),
             len + 2 * min cs.length ((bufLen - len) / 2)) := by
  induction cs generalizing f bi len d with
  | nil =>
    obtain ⟨f, rfl⟩ : ∃ f', f = f' + 1 := ⟨f - 1, by omega⟩
    simp [utf8, u2uLoop]
  | cons c t ih =>
    obtain ⟨f, rfl⟩ : ∃ f', f = f' + 1 := ⟨f - 1, by omega⟩
    obtain ⟨b, tl, hbytes, hb0, hstep, hadd⟩ := ucs2Step_chr c (hwf c (by simp)) (utf8 t)
    rw [utf8_cons]
    have hderef : (Ptr.at (c.bytes ++ utf8 t)).deref = .ok b := by rw [hbytes]; rfl
    by_cases hc : b ≠ 0 ∧ len + 2 ≤ bufLen
    · have hw1 : bi < MaxDataLen := by omega
      have hw2 : bi + 1 < MaxDataLen := by omega
      have hlen := bytes_length_pos c
      simp only [u2uLoop, hderef, bind_ok, if_pos hc, hstep, wr_ok hw1, wr_ok hw2, hadd]
      rw [ih (fun x hx => hwf x (by simp [hx])) f (bi + 2) (len + 2) _
        (by rw [utf8_cons, List.length_append] at hf; omega) (by omega)]
      have hk : min (c :: t).length ((bufLen - len) / 2) = min t.length ((bufLen - (len + 2)) / 2) + 1 := by
        simp only [List.length_cons]; omega
      rw [hk, List.take_succ_cons, List.flatMap_cons]
      simp only [unitBytes, List.cons_append, List.nil_append]
      rw [← blit_cons, ← blit_cons]
      simp only [Except.ok.injEq, Prod.mk.injEq]
      exact ⟨trivial, by omega⟩
    · have hk : min (c :: t).length ((bufLen - len) / 2) = 0 := by
        have : ¬ len + 2 ≤ bufLen := fun h => hc ⟨hb0, h⟩
        omega
      rw [hk]
      simp [u2uLoop, hderef, if_neg hc]

/-! ### `N2kRequireUnicode` on well-formed text with a multi-byte character -/

theorem ruLoop_chars (cs : List Chr) (hwf : ∀ c ∈ cs, c.WF) (hmb : ∃ c ∈ cs, c.isAscii = false) (f : Nat)
    (hf : (utf8 cs).length < f) :
    ruLoop f (.at (utf8 cs)) ((utf8 cs).headD 0) = .ok true := by
  induction cs generalizing f with
  | nil => obtain ⟨c, hc, _⟩ := hmb; simp at hc
  | cons c t ih =>
    obtain ⟨f, rfl⟩ : ∃ f', f = f' + 1 := ⟨f - 1, by omega⟩
    have hc := hwf c (by simp)
    rw [utf8_cons]
    cases c with
    | a b =>
      simp only [Chr.WF] at hc
      have hb : b ≠ 0 := by omega
      have hmb' : ∃ c ∈ t, c.isAscii = false := by
        obtain ⟨x, hx, hx2⟩ := hmb
        simp only [List.mem_cons] at hx
        rcases hx with rfl | hx
        · simp [Chr.isAscii] at hx2
        · exact ⟨x, hx, hx2⟩
      show ruLoop (f + 1) (.at (b :: utf8 t)) b = .ok true
      simp only [ruLoop, if_neg hb, seqLen_ascii b hc.2, add_one_at b _ hb, Ptr.deref_at, bind_ok]
      simp only [Nat.sub_self, ruCont, bind_ok, pure_eq]
      exact ih (fun x hx => hwf x (by simp [hx])) hmb' f
        (by rw [utf8_cons] at hf; simp [Chr.bytes] at hf; omega)
    | two x y =>
      simp only [Chr.WF] at hc
      have hb : 0xC0 + x ≠ 0 := by omega
      have hy : 0x80 + y ≠ 0 := by omega
      have hny : ¬ ((0x80 + y) &&& 0xC0 ≠ 0x80) := by simp [contC y hc.2.2]
      show ruLoop (f + 1) (.at ((0xC0 + x) :: (0x80 + y) :: utf8 t)) (0xC0 + x) = .ok true
      simp only [ruLoop, if_neg hb, seqLen2 x hc.2.1, add_one_at _ _ hb, add_one_at _ _ hy, Ptr.deref_at, bind_ok,
        List.headD_cons, ruCont, if_neg hny]
      rfl
    | three x y z =>
      simp only [Chr.WF] at hc
      have hb : 0xE0 + x ≠ 0 := by omega
      have hy : 0x80 + y ≠ 0 := by omega
      have hz : 0x80 + z ≠ 0 := by omega
      have hny : ¬ ((0x80 + y) &&& 0xC0 ≠ 0x80) := by simp [contC y hc.2.1]
      have hnz : ¬ ((0x80 + z) &&& 0xC0 ≠ 0x80) := by simp [contC z hc.2.2.1]
      show ruLoop (f + 1) (.at ((0xE0 + x) :: (0x80 + y) :: (0x80 + z) :: utf8 t)) (0xE0 + x) = .ok true
      simp only [ruLoop, if_neg hb, seqLen3 x hc.1, add_one_at _ _ hb, add_one_at _ _ hy, add_one_at _ _ hz,
        Ptr.deref_at, bind_ok, List.headD_cons, ruCont, if_neg hny, if_neg hnz]
      rfl
    | four x y z w =>
      simp only [Chr.WF] at hc
      have hb : 0xF0 + x ≠ 0 := by omega
      have hy : 0x80 + y ≠ 0 := by omega
      have hz : 0x80 + z ≠ 0 := by omega
      have hw : 0x80 + w ≠ 0 := by omega
      have hny : ¬ ((0x80 + y) &&& 0xC0 ≠ 0x80) := by simp [contC y hc.2.1]
      have hnz : ¬ ((0x80 + z) &&& 0xC0 ≠ 0x80) := by simp [contC z hc.2.2.1]
      have hnw : ¬ ((0x80 + w) &&& 0xC0 ≠ 0x80) := by simp [contC w hc.2.2.2]
      show ruLoop (f + 1) (.at ((0xF0 + x) :: (0x80 + y) :: (0x80 + z) :: (0x80 + w) :: utf8 t)) (0xF0 + x) = .ok true
      simp only [ruLoop, if_neg hb, seqLen4 x hc.1, add_one_at _ _ hb, add_one_at _ _ hy, add_one_at _ _ hz,
        add_one_at _ _ hw, Ptr.deref_at, bind_ok, List.headD_cons, ruCont, if_neg hny, if_neg hnz, if_neg hnw]
      rfl

theorem requireUnicode_chars (cs : List Chr) (hwf : ∀ c ∈ cs, c.WF) (hmb : ∃ c ∈ cs, c.isAscii = false) :
    requireUnicode (.at (utf8 cs)) = .ok true := by
  simp only [requireUnicode, Ptr.deref_at, bind_ok]
  exact ruLoop_chars cs hwf hmb _ (by simp [Ptr.fuel])

/-- `AddVarStr` (unicode supported) once the conversion result is known -/
theorem addVarStr_unicode_eq (s : List Nat) (fill maxLen : Nat) (chars : Bool) (body : List Nat) (d : D)
    (hfree : 2 < MaxDataLen - fill) (hc0 : s.headD 0 ≠ 0) (hru : requireUnicode (.at s) = .ok true)
    (hconv : utf8ToUCS2 (.at s) (upd (upd d fill 2) (fill + 1) 1) (fill + 1 + 1)
        (if MaxDataLen - fill - 2 > (if chars then maxLen * 2 else maxLen)
          then (if chars then maxLen * 2 else maxLen) else MaxDataLen - fill - 2)
      = .ok (blit (upd (upd d fill 2) (fill + 1) 1) (fill + 1 + 1) body, body.length))
    (hbl : body.length ≤ MaxDataLen - fill - 2) :
    addVarStr ⟨d, fill⟩ (.at s) maxLen true chars
      = .ok ⟨blit d fill ((body.length + 2) :: 0 :: body), fill + (body.length + 2)⟩ := by
  have hlt : fill < MaxDataLen := by omega
  have hn2 : ¬ (MaxDataLen - fill ≤ 2) := by omega
  have h1 : fill + 1 < MaxDataLen := by omega
  have hb : (s.headD 0 == 0) = false := by simpa using hc0
  simp only [addVarStr, if_pos hlt, if_neg hn2, Ptr.deref_at, bind_ok, pure_eq, hb, addByte, wr_ok hlt,
    wr_ok h1, hru, if_true, hconv, Bool.false_eq_true, if_false]
  rw [var_data d fill body 0 (by omega)]
  simp only [Except.ok.injEq, Msg.mk.injEq, true_and]
  omega

/-! ### reading the code units back: `N2kUCS2ToUTF8` -/

/-- the longest prefix whose UTF-8 form fits `room` bytes (the conversion stops at the first character
that does not fit) -/
def fitPrefix : Nat → List Chr → List Chr
  | _, [] => []
  | room, c :: t => if c.back.length ≤ room then c :: fitPrefix (room - c.back.length) t else []

theorem unit_lt (c : Chr) (h : c.WF) : c.unit < 65536 := by
  cases c <;> simp only [Chr.WF] at h <;> simp only [Chr.unit] <;> omega

theorem c2uLoop_exit (m : Msg) (base strLen n bufLen nul f i ulen : Nat) (dst : D) (hf : 1 ≤ f)
    (hc : ¬ (i + 1 < strLen ∧ ulen < bufLen)) :
    c2uLoop m base strLen n bufLen nul f i ulen dst = .ok (dst, ulen) := by
  obtain ⟨f, rfl⟩ : ∃ f', f = f' + 1 := ⟨f - 1, by omega⟩
  simp [c2uLoop, if_neg hc]

theorem upd_pair (d : D) (i b0 b1 : Nat) : upd (upd d (i + 1) b1) i b0 = blit d i [b0, b1] := by
  funext j
  simp only [upd, blit, List.length_cons, List.length_nil]
  by_cases h0 : j = i
  · subst h0; simp
  · by_cases h1 : j = i + 1
    · subst h1; simp
    · have : ¬ (i ≤ j ∧ j < i + (0 + 1 + 1)) := by omega
      simp [h0, h1, this]

theorem upd_triple (d : D) (i b0 b1 b2 : Nat) :
    upd (upd (upd d (i + 2) b2) (i + 1) b1) i b0 = blit d i [b0, b1, b2] := by
  funext j
  simp only [upd, blit, List.length_cons, List.length_nil]
  by_cases h0 : j = i
  · subst h0; simp
  · by_cases h1 : j = i + 1
    · subst h1; simp
    · by_cases h2 : j = i + 2
      · subst h2; simp
      · have : ¬ (i ≤ j ∧ j < i + (0 + 1 + 1 + 1)) := by omega
        simp [h0, h1, h2, this]

theorem fit_cons (c : Chr) (t : List Chr) (room : Nat) (h : c.back.length ≤ room) :
    (fitPrefix room (c :: t)).flatMap Chr.back
      = c.back ++ (fitPrefix (room - c.back.length) t).flatMap Chr.back := by
  simp [fitPrefix, if_pos h]

theorem nofit_cons (c : Chr) (t : List Chr) (room : Nat) (h : ¬ c.back.length ≤ room) :
    (fitPrefix room (c :: t)).flatMap Chr.back = [] := by
  simp [fitPrefix, if_neg h]

theorem close_step (dst : D) (ulen : Nat) (B X : List Nat) (dst2 : D) (h : dst2 = blit dst ulen B) :
    (Except.ok (blit dst2 (ulen + B.length) X, ulen + B.length + X.length) : M (D × Nat))
      = .ok (blit dst ulen (B ++ X), ulen + (B ++ X).length) := by
  subst h
  rw [blit_append, List.length_append, Nat.add_assoc]

theorem c2uLoop_chars (m : Msg) (base strLen n bufLen : Nat) (hb : bufLen < n) (hr : base + strLen ≤ m.len)
    (cs : List Chr) (hwf : ∀ c ∈ cs, c.WF) (f i ulen : Nat) (dst : D)
    (hi : strLen = i + 2 * cs.length)
    (hdata : slice m.data (base + i) (2 * cs.length) = cs.flatMap unitBytes)
    (hu : ulen ≤ bufLen) (hf : 1 ≤ f) (hfuel : i + 1 < strLen → strLen + 3 ≤ i + 2 * f) :
    c2uLoop m base strLen n bufLen 0xff f i ulen dst
      = .ok (blit dst ulen ((fitPrefix (bufLen - ulen) cs).flatMap Chr.back),
             ulen + ((fitPrefix (bufLen - ulen) cs).flatMap Chr.back).length) := by
  induction cs generalizing f i ulen dst with
  | nil =>
    rw [c2uLoop_exit _ _ _ _ _ _ _ _ _ _ hf (by simp at hi; omega)]
    simp [fitPrefix]
  | cons c t ih =>
    have hcw := hwf c (by simp)
    have hul := unit_lt c hcw
    by_cases hroom : ulen < bufLen
    · obtain ⟨f, rfl⟩ : ∃ f', f = f' + 1 := ⟨f - 1, by omega⟩
      simp only [List.length_cons] at hi
      have hc : i + 1 < strLen ∧ ulen < bufLen := ⟨by omega, hroom⟩
      have hf2 : 1 ≤ f := by have := hfuel hc.1; omega
      -- the two payload bytes of this character and the rest
      have e2 : 2 * (c :: t).length = 2 * t.length + 1 + 1 := by simp only [List.length_cons]; omega
      rw [e2] at hdata
      simp only [slice, List.flatMap_cons, unitBytes, List.cons_append, List.nil_append, List.cons.injEq] at hdata
      obtain ⟨hlo, hhi, hrest⟩ := hdata
      have r1 : rd m (base + i) = .ok (c.unit % 256) := by simp [rd, hlo]; omega
      have r2 : rd m (base + i + 1) = .ok ((c.unit >>> 8) % 256) := by simp [rd, hhi]; omega
      have hrest' : slice m.data (base + (i + 2)) (2 * t.length) = t.flatMap unitBytes := by
        rw [← hrest]; congr 1
      have IH := fun (ulen' : Nat) (dst' : D) (hu' : ulen' ≤ bufLen) =>
        ih (fun x hx => hwf x (by simp [hx])) f (i + 2) ulen' dst' (by omega) hrest' hu' hf2
          (by intro h; have := hfuel hc.1; omega)
      have hexit : ∀ dst', c2uLoop m base strLen n bufLen 0xff f (strLen + 2) ulen dst' = .ok (dst', ulen) :=
        fun dst' => c2uLoop_exit _ _ _ _ _ _ _ _ _ _ hf2 (by omega)
      have w0 : ulen < n := by omega
      generalize hU : c.unit = u at hul r1 r2
      simp only [c2uLoop, if_pos hc, r1, r2, bind_ok, recomb u hul]
      cases c with
      | a b =>
        simp only [Chr.WF] at hcw
        have h1 : b < 0x80 := hcw.2
        have hne : b ≠ 0xff := by omega
        simp only [Chr.unit] at hU; subst hU
        simp only [if_pos h1, wd_ok w0, bind_ok, if_pos hne]
        have hfit : (Chr.a b).back.length ≤ bufLen - ulen := by show 1 ≤ bufLen - ulen; omega
        rw [show ulen + 1 = ulen + (Chr.a b).back.length from rfl,
          IH (ulen + (Chr.a b).back.length) _ (by show ulen + 1 ≤ bufLen; omega),
          fit_cons _ _ _ hfit, Nat.sub_sub]
        exact close_step dst ulen _ _ _ (upd_eq_blit dst ulen b)
      | four x y z w =>
        have h1 : (0x3F : Nat) < 0x80 := by omega
        have hne : (0x3F : Nat) ≠ 0xff := by omega
        simp only [Chr.unit] at hU; subst hU
        simp only [if_pos h1, wd_ok w0, bind_ok, if_pos hne]
        have hfit : (Chr.four x y z w).back.length ≤ bufLen - ulen := by show 1 ≤ bufLen - ulen; omega
        rw [show ulen + 1 = ulen + (Chr.four x y z w).back.length from rfl,
          IH (ulen + (Chr.four x y z w).back.length) _ (by show ulen + 1 ≤ bufLen; omega),
          fit_cons _ _ _ hfit, Nat.sub_sub]
        exact close_step dst ulen _ _ _ (upd_eq_blit dst ulen 0x3F)
      | two x y =>
        simp only [Chr.WF] at hcw
        have h1 : ¬ (x * 64 + y < 0x80) := by omega
        have h2 : x * 64 + y < 0x800 := by omega
        simp only [Chr.unit] at hU; subst hU
        simp only [if_neg h1, if_pos h2]
        have hb1 : 0x80 ||| ((x * 64 + y) &&& 0x3F) = 0x80 + y := by
          rw [and63, show (x * 64 + y) % 64 = y by omega, or80 y hcw.2.2]
        have hb0 : 0xC0 ||| ((x * 64 + y) >>> 6) = 0xC0 + x := by
          rw [shr6, show (x * 64 + y) / 64 = x by omega, orC0 x hcw.2.1]
        by_cases hr2 : ulen + 1 < bufLen
        · have w1 : ulen + 1 < n := by omega
          simp only [if_pos hr2, wd_ok w0, wd_ok w1, bind_ok, hb1, hb0]
          have hfit : (Chr.two x y).back.length ≤ bufLen - ulen := by show 2 ≤ bufLen - ulen; omega
          rw [show ulen + 2 = ulen + (Chr.two x y).back.length from rfl,
            IH (ulen + (Chr.two x y).back.length) _ (by show ulen + 2 ≤ bufLen; omega),
            fit_cons _ _ _ hfit, Nat.sub_sub]
          exact close_step dst ulen _ _ _ (upd_pair dst ulen _ _)
        · have hfit : ¬ ((Chr.two x y).back.length ≤ bufLen - ulen) := by show ¬ (2 ≤ bufLen - ulen); omega
          simp only [if_neg hr2, hexit, nofit_cons _ _ _ hfit, blit_nil, List.length_nil, Nat.add_zero]
      | three x y z =>
        simp only [Chr.WF] at hcw
        have h1 : ¬ (x * 4096 + y * 64 + z < 0x80) := by omega
        have h2 : ¬ (x * 4096 + y * 64 + z < 0x800) := by omega
        simp only [Chr.unit] at hU; subst hU
        simp only [if_neg h1, if_neg h2]
        have hb2 : 0x80 ||| ((x * 4096 + y * 64 + z) &&& 0x3F) = 0x80 + z := by
          rw [and63, show (x * 4096 + y * 64 + z) % 64 = z by omega, or80 z hcw.2.2.1]
        have hb1 : 0x80 ||| (((x * 4096 + y * 64 + z) >>> 6) &&& 0x3F) = 0x80 + y := by
          rw [shr6, and63, show (x * 4096 + y * 64 + z) / 64 % 64 = y by omega, or80 y hcw.2.1]
        have hb0 : 0xE0 ||| (((x * 4096 + y * 64 + z) >>> 6) >>> 6) = 0xE0 + x := by
          rw [shr6, shr6, show (x * 4096 + y * 64 + z) / 64 / 64 = x by omega, orE0 x hcw.1]
        by_cases hr3 : ulen + 2 < bufLen
        · have w1 : ulen + 1 < n := by omega
          have w2 : ulen + 2 < n := by omega
          simp only [if_pos hr3, wd_ok w0, wd_ok w1, wd_ok w2, bind_ok, hb2, hb1, hb0]
          have hfit : (Chr.three x y z).back.length ≤ bufLen - ulen := by show 3 ≤ bufLen - ulen; omega
          rw [show ulen + 3 = ulen + (Chr.three x y z).back.length from rfl,
            IH (ulen + (Chr.three x y z).back.length) _ (by show ulen + 3 ≤ bufLen; omega),
            fit_cons _ _ _ hfit, Nat.sub_sub]
          exact close_step dst ulen _ _ _ (upd_triple dst ulen _ _ _)
        · have hfit : ¬ ((Chr.three x y z).back.length ≤ bufLen - ulen) := by show ¬ (3 ≤ bufLen - ulen); omega
          simp only [if_neg hr3, hexit, nofit_cons _ _ _ hfit, blit_nil, List.length_nil, Nat.add_zero]
    · have hback : 1 ≤ c.back.length := by cases c <;> simp [Chr.back, Chr.bytes]
      have hfit : ¬ (c.back.length ≤ bufLen - ulen) := by omega
      rw [c2uLoop_exit _ _ _ _ _ _ _ _ _ _ hf (fun h => hroom h.2), nofit_cons _ _ _ hfit]
      simp

/-! ### the round trip -/

theorem unitBytes_flat_length (cs : List Chr) : (cs.flatMap unitBytes).length = 2 * cs.length := by
  induction cs with
  | nil => rfl
  | cons c t ih => simp [List.flatMap_cons, unitBytes, ih]; omega

theorem fit_length (room : Nat) (cs : List Chr) : ((fitPrefix room cs).flatMap Chr.back).length ≤ room := by
  induction cs generalizing room with
  | nil => simp [fitPrefix]
  | cons c t ih =>
    by_cases h : c.back.length ≤ room
    · rw [fit_cons c t room h, List.length_append]
      have := ih (room - c.back.length); omega
    · rw [nofit_cons c t room h]; simp

theorem fit_mem (room : Nat) (cs : List Chr) : ∀ c ∈ fitPrefix room cs, c ∈ cs := by
  induction cs generalizing room with
  | nil => simp [fitPrefix]
  | cons c t ih =>
    intro x hx
    simp only [fitPrefix] at hx
    split at hx
    · simp only [List.mem_cons] at hx
      rcases hx with rfl | hx
      · simp
      · exact List.mem_cons_of_mem _ (ih _ x hx)
    · simp at hx

theorem back_ne_zero (c : Chr) (h : c.WF) : ∀ b ∈ c.back, b ≠ 0 := by
  cases c <;> simp only [Chr.WF] at h <;> simp [Chr.back, Chr.bytes] <;> omega

theorem takeWhile_stop (A R : List Nat) (hA : ∀ b ∈ A, b ≠ 0) : (A ++ 0 :: R).takeWhile (· ≠ 0) = A := by
  induction A with
  | nil => simp
  | cons b t ih =>
    have hb := hA b (by simp)
    simp only [List.cons_append, List.takeWhile_cons, ne_eq, hb, not_false_eq_true, decide_true, if_true]
    rw [ih (fun x hx => hA x (by simp [hx]))]

/-- a destination holding `out`, a NUL, and anything behind it -/
theorem textOf_terminated (n : Nat) (dst : D) (out : List Nat) (hlen : out.length < n) (hnz : ∀ b ∈ out, b ≠ 0) :
    textOf n (upd (blit dst 0 out) out.length 0) = out := by
  have e1 : upd (blit dst 0 out) out.length 0 = blit dst 0 (out ++ [0]) := by
    rw [upd_eq_blit]
    have := blit_append dst 0 out [0]
    simpa using this
  obtain ⟨r, hr⟩ : ∃ r, n = (out ++ [0]).length + r := ⟨n - (out.length + 1), by simp; omega⟩
  rw [e1, textOf, hr, List.range_add, List.map_append, map_range_blit, List.append_assoc]
  exact takeWhile_stop out _ hnz

theorem utf8_head_ne (cs : List Chr) (hwf : ∀ c ∈ cs, c.WF) (hne : cs ≠ []) : (utf8 cs).headD 0 ≠ 0 := by
  cases cs with
  | nil => exact absurd rfl hne
  | cons c t =>
    obtain ⟨b, tl, hb, hb0⟩ := Chr.bytes_head_ne c (hwf c (by simp))
    rw [utf8_cons, hb]; simpa using hb0

/-- **variable-length field, unicode text**: well-formed UTF-8 with at least one multi-byte character goes
through UCS-2 and comes back unchanged, except that 4-byte sequences (beyond the BMP) come back as '?';
cut to whole characters by the maximum / the free payload (`k` characters) and by the destination. -/
theorem rt_var_unicode (cs : List Chr) (hwf : ∀ c ∈ cs, c.WF) (hmb : ∃ c ∈ cs, c.isAscii = false)
    (fill maxLen n : Nat) (chars : Bool) (d dst : D) (hfree : 2 < MaxDataLen - fill) (hn : 0 < n) :
    ∃ m' r sz idx' dst', addVarStr ⟨d, fill⟩ (.at (utf8 cs)) maxLen true chars = .ok m' ∧
      m'.data (fill + 1) = 0 ∧
      getVarStr m' n dst 0xff fill = .ok (r, sz, idx', dst') ∧
      textOf n dst' = (fitPrefix (n - 1) (cs.take (min cs.length
        ((min (MaxDataLen - fill - 2) (if chars then maxLen * 2 else maxLen)) / 2)))).flatMap Chr.back := by
  have hM : MaxDataLen = 223 := rfl
  generalize hMx : (if chars then maxLen * 2 else maxLen) = M
  have hBmin : min (MaxDataLen - fill - 2) M = (if MaxDataLen - fill - 2 > M then M else MaxDataLen - fill - 2) := by
    split <;> omega
  generalize hB : (if MaxDataLen - fill - 2 > M then M else MaxDataLen - fill - 2) = B at hBmin
  rw [hBmin]
  have hBle : B ≤ MaxDataLen - fill - 2 := by subst hB; split <;> omega
  generalize hk : min cs.length (B / 2) = k
  generalize hbody : (cs.take k).flatMap unitBytes = body
  have htk : (cs.take k).length = k := by rw [List.length_take]; omega
  have hbl : body.length = 2 * k := by subst hbody; rw [unitBytes_flat_length, htk]
  have hne : cs ≠ [] := by obtain ⟨c, hc, _⟩ := hmb; exact List.ne_nil_of_mem hc
  -- the add
  have hconv : ∀ d', utf8ToUCS2 (.at (utf8 cs)) d' (fill + 1 + 1) B = .ok (blit d' (fill + 1 + 1) body, body.length) := by
    intro d'
    have := u2uLoop_chars cs hwf (Ptr.at (utf8 cs)).fuel (fill + 1 + 1) 0 B d' (by simp [Ptr.fuel]) (by omega)
    simp only [Nat.sub_zero, hk, hbody, Nat.zero_add] at this
    rw [utf8ToUCS2, this, hbl]
  have hadd := addVarStr_unicode_eq (utf8 cs) fill maxLen chars body d hfree (utf8_head_ne cs hwf hne)
    (requireUnicode_chars cs hwf hmb) (by rw [hMx, hB]; exact hconv _) (by omega)
  generalize hL : (body.length + 2) :: 0 :: body = L at hadd
  have hLl : L.length = body.length + 2 := by subst hL; simp
  have g0 : blit d fill L fill = body.length + 2 := by
    have := blit_in d fill L 0 (by omega); subst hL; simpa using this
  have g1 : blit d fill L (fill + 1) = 0 := by
    have := blit_in d fill L 1 (by omega); subst hL; simpa using this
  suffices hget : ∃ r sz idx' dst',
      getVarStr ⟨blit d fill L, fill + (body.length + 2)⟩ n dst 0xff fill = .ok (r, sz, idx', dst') ∧
      textOf n dst' = (fitPrefix (n - 1) (cs.take k)).flatMap Chr.back by
    obtain ⟨r, sz, idx', dst', h1, h2⟩ := hget
    exact ⟨_, r, sz, idx', dst', hadd, g1, h1, h2⟩
  -- the get
  have b1 : getByte ⟨blit d fill L, fill + (body.length + 2)⟩ fill = .ok (body.length + 2, fill + 1) := by
    rw [getByte_ok _ _ (by show fill < fill + (body.length + 2); omega)]; simp only [g0]
  have b2 : getByte ⟨blit d fill L, fill + (body.length + 2)⟩ (fill + 1) = .ok (0, fill + 1 + 1) := by
    rw [getByte_ok _ _ (by show fill + 1 < fill + (body.length + 2); omega)]; simp only [g1]
  simp only [getVarStr, b1, b2, bind_ok]
  by_cases h0 : k = 0
  · have hc : body.length + 2 ≤ 2 ∨ body.length + 2 = 0xff ∨ 0 > 1 ∨ fill + 1 + 1 ≥ fill + (body.length + 2) :=
      Or.inl (by omega)
    have hc2 : body.length + 2 = 2 ∧ 0 ≤ 1 := ⟨by omega, by omega⟩
    simp only [if_pos hc, if_pos hn, wd_ok hn, bind_ok, if_pos hc2, pure_eq]
    refine ⟨_, _, _, _, rfl, ?_⟩
    rw [textOf_zero n dst hn, h0]; simp [fitPrefix]
  · have hc : ¬ (body.length + 2 ≤ 2 ∨ body.length + 2 = 0xff ∨ 0 > 1 ∨ fill + 1 + 1 ≥ fill + (body.length + 2)) := by
      omega
    have hl : (if body.length + 2 - 2 + (fill + 1 + 1) > fill + (body.length + 2)
        then fill + (body.length + 2) - (fill + 1 + 1) else body.length + 2 - 2) = 2 * k := by
      split <;> omega
    have ht : ¬ ((0 : Nat) = 0x01) := by omega
    have hn0 : ¬ n = 0 := by omega
    simp only [if_neg hc, hl, if_pos hn, if_neg ht, ucs2ToUTF8, if_neg hn0]
    have hsl : slice (blit d fill L) (fill + 1 + 1 + 0) (2 * (cs.take k).length) = (cs.take k).flatMap unitBytes := by
      have := slice_blit d fill L 2 body.length (by omega)
      rw [htk, ← hbl, show fill + 1 + 1 + 0 = fill + 2 from rfl, this, hbody]; subst hL; simp
    have hloop := c2uLoop_chars ⟨blit d fill L, fill + (body.length + 2)⟩ (fill + 1 + 1) (2 * k) n (n - 1)
      (by omega) (by show fill + 1 + 1 + 2 * k ≤ fill + (body.length + 2); omega)
      (cs.take k) (fun c hc => hwf c (List.mem_of_mem_take hc)) (2 * k + 1) 0 0 dst
      (by rw [htk]; omega) hsl (by omega) (by omega) (by omega)
    simp only [Nat.sub_zero, Nat.zero_add] at hloop
    generalize hout : (fitPrefix (n - 1) (cs.take k)).flatMap Chr.back = out at hloop
    have hol : out.length ≤ n - 1 := by subst hout; exact fit_length _ _
    have honz : ∀ b ∈ out, b ≠ 0 := by
      subst hout
      intro b hb
      obtain ⟨c, hc, hbc⟩ := List.mem_flatMap.mp hb
      exact back_ne_zero c (hwf c (List.mem_of_mem_take (fit_mem _ _ c hc))) b hbc
    rw [hloop]
    simp only [bind_ok, wd_ok (by omega : out.length < n), pure_eq]
    exact ⟨_, _, _, _, rfl, textOf_terminated n dst out (by omega) honz⟩

/-- a payload with at most two free bytes takes no text at all (any source bytes, any policy): the field is
empty / absent and reads back as the empty string -/
theorem rt_var_tiny (s : List Nat) (fill maxLen n : Nat) (uni chars : Bool) (d dst : D)
    (hfill : fill ≤ MaxDataLen) (hfree : MaxDataLen - fill ≤ 2) (hn : 0 < n) :
    ∃ m' r sz idx' dst', addVarStr ⟨d, fill⟩ (.at s) maxLen uni chars = .ok m' ∧
      getVarStr m' n dst 0xff fill = .ok (r, sz, idx', dst') ∧ textOf n dst' = [] := by
  have hM : MaxDataLen = 223 := rfl
  obtain ⟨L, hL1, hshape, hadd⟩ := addVarStr_spec s fill maxLen uni chars hfill
  rcases hshape with ⟨h0, rfl⟩ | ⟨h1, rfl⟩ | ⟨h2, type, body, rfl, hbl, htype, hty, _⟩
  · -- payload full: nothing written, GetVarStr sees no bytes
    have hf : fill = MaxDataLen := by omega
    have e : ∀ i, fill ≤ i → getByte ⟨blit d fill [], fill + ([] : List Nat).length⟩ i = .ok (0xff, i) :=
      fun i hi => getByte_end _ _ (by show ¬ i < fill + 0; omega)
    refine ⟨_, false, 0, MaxDataLen, upd dst 0 0, hadd d, ?_, textOf_zero n dst hn⟩
    have hc : (0xff : Nat) ≤ 2 ∨ (0xff : Nat) = 0xff ∨ (0xff : Nat) > 1 ∨ fill ≥ fill + ([] : List Nat).length :=
      Or.inr (Or.inl rfl)
    have hc2 : ¬ ((0xff : Nat) = 2 ∧ (0xff : Nat) ≤ 1) := by omega
    simp only [getVarStr, e fill (Nat.le_refl _), bind_ok, if_pos hn, wd_ok hn, if_neg hc2, pure_eq]
    simp
  · -- one free byte: the lone length byte 1 is an invalid field
    have g0 : blit d fill [1] fill = 1 := by
      have := blit_in d fill [1] 0 (by simp); simpa using this
    have e1 : getByte ⟨blit d fill [1], fill + ([1] : List Nat).length⟩ fill = .ok (1, fill + 1) := by
      rw [getByte_ok _ _ (by show fill < fill + 1; omega)]; simp only [g0]
    have e2 : getByte ⟨blit d fill [1], fill + ([1] : List Nat).length⟩ (fill + 1) = .ok (0xff, fill + 1) :=
      getByte_end _ _ (by show ¬ fill + 1 < fill + 1; omega)
    refine ⟨_, false, 0, MaxDataLen, upd dst 0 0, hadd d, ?_, textOf_zero n dst hn⟩
    have hc : (1 : Nat) ≤ 2 ∨ (1 : Nat) = 0xff ∨ (0xff : Nat) > 1 ∨ fill + 1 ≥ fill + ([1] : List Nat).length :=
      Or.inl (by omega)
    have hc2 : ¬ ((1 : Nat) = 2 ∧ (0xff : Nat) ≤ 1) := by omega
    simp only [getVarStr, e1, e2, bind_ok, if_pos hc, if_pos hn, wd_ok hn, if_neg hc2, pure_eq]
  · -- two free bytes: the empty field [2,1]
    have hb0 : body = [] := List.eq_nil_of_length_eq_zero (by omega)
    subst hb0
    have ht : type = 1 := by
      rcases hty with h | h
      · have := (htype.mp h).2.2; omega
      · exact h
    subst ht
    obtain ⟨r, sz, idx', dst', h1, h2⟩ := getVarStr_ascii_field d dst fill n [] hn (by simp) (by simp; omega)
    exact ⟨_, r, sz, idx', dst', hadd d, by simpa using h1, by simpa using h2⟩

/-! ### unicode text into an ASCII-only field (`vss_ForceASCII`) -/

/-- the byte stored for a character when only ASCII is supported -/
def Chr.asc : Chr → Nat
  | .a b => b
  | _ => 0x3F

theorem asciiStep_chr (c : Chr) (h : c.WF) (rest : List Nat) :
    ∃ b t, c.bytes = b :: t ∧ b ≠ 0 ∧
      asciiStep (.at (c.bytes ++ rest)) b = .ok (c.bytes.length, c.asc) ∧
      (Ptr.at (c.bytes ++ rest)).add c.bytes.length = .at rest := by
  obtain ⟨b, t, hb, hb0, _, hadd⟩ := ucs2Step_chr c h rest
  refine ⟨b, t, hb, hb0, ?_, hadd⟩
  cases c with
  | a b' =>
    simp only [Chr.WF] at h
    simp only [Chr.bytes, List.cons.injEq] at hb
    obtain ⟨rfl, _⟩ := hb
    simp [asciiStep, Chr.bytes, Chr.asc, seqLen_ascii b' h.2]
  | two x y =>
    simp only [Chr.WF] at h
    simp only [Chr.bytes, List.cons.injEq] at hb
    obtain ⟨rfl, _⟩ := hb
    have hy : 0x80 + y ≠ 0 := by omega
    simp only [asciiStep, Chr.bytes, seqLen2 x h.2.1, List.cons_append, List.nil_append, utf8SeqBytes,
      add_one_at _ _ hb0, seqBytesLoop, Ptr.deref_at, List.headD_cons, bind_ok, contC y h.2.2, if_true,
      pure_eq, List.length_cons, List.length_nil, Chr.asc]
  | three x y z =>
    simp only [Chr.WF] at h
    simp only [Chr.bytes, List.cons.injEq] at hb
    obtain ⟨rfl, _⟩ := hb
    have hy : 0x80 + y ≠ 0 := by omega
    simp only [asciiStep, Chr.bytes, seqLen3 x h.1, List.cons_append, List.nil_append, utf8SeqBytes,
      add_one_at _ _ hb0, add_one_at _ _ hy, seqBytesLoop, Ptr.deref_at, List.headD_cons, bind_ok, contC y h.2.1,
      contC z h.2.2.1, if_true, pure_eq, List.length_cons, List.length_nil, Chr.asc]
  | four x y z w =>
    simp only [Chr.WF] at h
    simp only [Chr.bytes, List.cons.injEq] at hb
    obtain ⟨rfl, _⟩ := hb
    have hy : 0x80 + y ≠ 0 := by omega
    have hz : 0x80 + z ≠ 0 := by omega
    simp only [asciiStep, Chr.bytes, seqLen4 x h.1, List.cons_append, List.nil_append, utf8SeqBytes,
      add_one_at _ _ hb0, add_one_at _ _ hy, add_one_at _ _ hz, seqBytesLoop, Ptr.deref_at, List.headD_cons,
      bind_ok, contC y h.2.1, contC z h.2.2.1, contC w h.2.2.2, if_true, pure_eq, List.length_cons,
      List.length_nil, Chr.asc]

theorem u2aLoop_chars (cs : List Chr) (hwf : ∀ c ∈ cs, c.WF) (f bi len bufLen : Nat) (d : D)
    (hf : (utf8 cs).length < f) (hb : bi + bufLen ≤ MaxDataLen + len) :
    u2aLoop f (.at (utf8 cs)) bi len bufLen d
      = .ok (blit d bi ((cs.take (min cs.length (bufLen - len))).map Chr.asc),
             len + min cs.length (bufLen - len)) := by
  induction cs generalizing f bi len d with
  | nil =>
    obtain ⟨f, rfl⟩ : ∃ f', f = f' + 1 := ⟨f - 1, by omega⟩
    simp [utf8, u2aLoop]
  | cons c t ih =>
    obtain ⟨f, rfl⟩ : ∃ f', f = f' + 1 := ⟨f - 1, by omega⟩
    obtain ⟨b, tl, hbytes, hb0, hstep, hadd⟩ := asciiStep_chr c (hwf c (by simp)) (utf8 t)
    rw [utf8_cons]
    have hderef : (Ptr.at (c.bytes ++ utf8 t)).deref = .ok b := by rw [hbytes]; rfl
    by_cases hc : b ≠ 0 ∧ len < bufLen
    · have hw1 : bi < MaxDataLen := by omega
      have hlen := bytes_length_pos c
      simp only [u2aLoop, hderef, bind_ok, if_pos hc, hstep, wr_ok hw1, hadd]
      rw [ih (fun x hx => hwf x (by simp [hx])) f (bi + 1) (len + 1) _
        (by rw [utf8_cons, List.length_append] at hf; omega) (by omega)]
      have hk : min (c :: t).length (bufLen - len) = min t.length (bufLen - (len + 1)) + 1 := by
        simp only [List.length_cons]; omega
      rw [hk, List.take_succ_cons, List.map_cons, ← blit_cons]
      simp only [Except.ok.injEq, Prod.mk.injEq]
      exact ⟨trivial, by omega⟩
    · have hk : min (c :: t).length (bufLen - len) = 0 := by
        have : ¬ len < bufLen := fun h => hc ⟨hb0, h⟩
        omega
      rw [hk]
      simp [u2aLoop, hderef, if_neg hc]

theorem addVarStr_forceascii_eq (s : List Nat) (fill maxLen : Nat) (chars : Bool) (body : List Nat) (d : D)
    (hfree : 2 < MaxDataLen - fill) (hc0 : s.headD 0 ≠ 0) (hru : requireUnicode (.at s) = .ok true)
    (hconv : utf8ToASCII (.at s) (upd (upd d fill 2) (fill + 1) 1) (fill + 1 + 1)
        (if MaxDataLen - fill - 2 > maxLen then maxLen else MaxDataLen - fill - 2)
      = .ok (blit (upd (upd d fill 2) (fill + 1) 1) (fill + 1 + 1) body, body.length))
    (hbl : body.length ≤ MaxDataLen - fill - 2) :
    addVarStr ⟨d, fill⟩ (.at s) maxLen false chars
      = .ok ⟨blit d fill ((body.length + 2) :: 1 :: body), fill + (body.length + 2)⟩ := by
  have hlt : fill < MaxDataLen := by omega
  have hn2 : ¬ (MaxDataLen - fill ≤ 2) := by omega
  have h1 : fill + 1 < MaxDataLen := by omega
  have hb : (s.headD 0 == 0) = false := by simpa using hc0
  simp only [addVarStr, if_pos hlt, if_neg hn2, Ptr.deref_at, bind_ok, pure_eq, hb, addByte, wr_ok hlt,
    wr_ok h1, hru, if_true, hconv, Bool.false_eq_true, if_false]
  rw [var_data d fill body 1 (by omega)]
  simp only [Except.ok.injEq, Msg.mk.injEq, true_and]
  omega

/-- **variable-length field, unicode text, ASCII-only policy**: every multi-byte character is stored as one
'?', ASCII characters unchanged; cut to the maximum / free payload and the destination -/
theorem rt_var_forceascii (cs : List Chr) (hwf : ∀ c ∈ cs, c.WF) (hmb : ∃ c ∈ cs, c.isAscii = false)
    (fill maxLen n : Nat) (chars : Bool) (d dst : D) (hfree : 2 < MaxDataLen - fill) (hn : 0 < n) :
    ∃ m' r sz idx' dst', addVarStr ⟨d, fill⟩ (.at (utf8 cs)) maxLen false chars = .ok m' ∧
      m'.data (fill + 1) = 1 ∧
      getVarStr m' n dst 0xff fill = .ok (r, sz, idx', dst') ∧
      textOf n dst' = ((cs.take (min maxLen (MaxDataLen - fill - 2))).map Chr.asc).take (n - 1) := by
  have hM : MaxDataLen = 223 := rfl
  generalize hB : (if MaxDataLen - fill - 2 > maxLen then maxLen else MaxDataLen - fill - 2) = B
  have hBmin : B = min maxLen (MaxDataLen - fill - 2) := by subst hB; split <;> omega
  generalize hk : min cs.length B = k
  generalize hbody : (cs.take k).map Chr.asc = body
  have hbl : body.length = k := by subst hbody; rw [List.length_map, List.length_take]; omega
  have hne : cs ≠ [] := by obtain ⟨c, hc, _⟩ := hmb; exact List.ne_nil_of_mem hc
  have hconv : ∀ d', utf8ToASCII (.at (utf8 cs)) d' (fill + 1 + 1) B = .ok (blit d' (fill + 1 + 1) body, body.length) := by
    intro d'
    have := u2aLoop_chars cs hwf (Ptr.at (utf8 cs)).fuel (fill + 1 + 1) 0 B d' (by simp [Ptr.fuel]) (by omega)
    simp only [Nat.sub_zero, hk, hbody, Nat.zero_add] at this
    rw [utf8ToASCII, this, hbl]
  have hadd := addVarStr_forceascii_eq (utf8 cs) fill maxLen chars body d hfree (utf8_head_ne cs hwf hne)
    (requireUnicode_chars cs hwf hmb) (by rw [hB]; exact hconv _) (by omega)
  have hbc : ∀ b ∈ body, b ≠ 0 ∧ b ≠ 0xff := by
    subst hbody
    intro b hb
    obtain ⟨c, hc, rfl⟩ := List.mem_map.mp hb
    have := hwf c (List.mem_of_mem_take hc)
    cases c <;> simp only [Chr.WF] at this <;> simp only [Chr.asc] <;> omega
  obtain ⟨r, sz, idx', dst', h1, h2⟩ := getVarStr_ascii_field d dst fill n body hn hbc (by omega)
  refine ⟨_, r, sz, idx', dst', hadd, ?_, h1, ?_⟩
  · have := blit_in d fill ((body.length + 2) :: 1 :: body) 1 (by simp)
    simpa using this
  · rw [h2, ← hbody, ← hk, hBmin]
    have e : min cs.length (min maxLen (MaxDataLen - fill - 2)) = min (min maxLen (MaxDataLen - fill - 2)) cs.length := by
      omega
    rw [e, List.take_eq_take_min.symm]

end N2k.Text
