// C14 harness: drives the REAL tNMEA2000::tMsgHandler / AttachMsgHandler / DetachMsgHandler / RunMessageHandlers
// through ParseMessages() on two bus objects behind mock CAN drivers.
// ops:  reset [p0 p1 ...]          case start: destroy every live handler, clear both plain callbacks; then = new 0 p0, new 1 p1, ...
//       new h pgn [bus]            construct handler h (optionally through the attaching constructor)
//       attach h bus               bus.AttachMsgHandler(h)
//       detach h [via]             via.DetachMsgHandler(h)   (via = bus object the call is made on, default 0)
//       destroy h                  delete h
//       cb bus 0|1                 SetMsgHandler(0 / callback)
//       msg bus pgn                one single-frame CAN message of that PGN + ParseMessages()
//       tp bus pgn                 broadcast transport-protocol transfer (TP.CM BAM + 2 TP.DT) carrying pgn + ParseMessages()
//       fp bus pgn src len b0,b1,.. flags   fast-packet frames with first bytes b0,b1,... (sequence id * 32 + frame counter) from
//                                  source src, first frames announce len bytes; ParseMessages() after every frame; flags = one
//                                  0/1 per frame: whether a strict in-order receiver has a complete message after that frame
//       probe p1 p2 ...            = msg 0 p1, msg 1 p1, msg 0 p2, ... reported on one line
// output of msg/tp:  "cb=<times the plain callback ran> h=<ids in call order|->"
#include "node.h"
using namespace vh;
static Ctx C;

static const int MAXH = 8, NBUS = 2;
static const unsigned long TP_CM_PGN = 60416UL, TP_DT_PGN = 60160UL;

// ---- the call log (what the real code did) ------------------------------------------------------
struct Call { int h; unsigned long pgn; unsigned src; };
static std::vector<Call> calls;
static int cbRuns[NBUS]; static unsigned long cbPgn[NBUS]; static unsigned cbSrc[NBUS];
static void cb0(const tN2kMsg &m) { cbRuns[0]++; cbPgn[0] = m.PGN; cbSrc[0] = m.Source; }
static void cb1(const tN2kMsg &m) { cbRuns[1]++; cbPgn[1] = m.PGN; cbSrc[1] = m.Source; }

// several unrelated subclasses of the library's handler class
struct HA : public tNMEA2000::tMsgHandler {
  int id;
  HA(int i, unsigned long p, tNMEA2000 *n) : tNMEA2000::tMsgHandler(p, n), id(i) {}
  void HandleMsg(const tN2kMsg &m) override { calls.push_back({id, m.PGN, m.Source}); }
};
struct HB : public tNMEA2000::tMsgHandler {
  char pad[24]; int id;
  HB(int i, unsigned long p, tNMEA2000 *n) : tNMEA2000::tMsgHandler(p, n), id(i) { memset(pad, 0x5a, sizeof pad); }
  void HandleMsg(const tN2kMsg &m) override { calls.push_back({id, m.PGN, m.Source}); }
};
struct HC : public HA {
  std::vector<int> seen;
  HC(int i, unsigned long p, tNMEA2000 *n) : HA(i, p, n) {}
  void HandleMsg(const tN2kMsg &m) override { seen.push_back((int)m.PGN); if (seen.size() > 4) seen.clear(); HA::HandleMsg(m); }
};

struct Bus : public MockN2k {
  bool listEmpty() const { return MsgHandlers == 0; }
  void forceEmpty() { MsgHandlers = 0; }
  void dropPartialMessages() { for (int i = 0; i < MaxN2kCANMsgs; i++) N2kCANMsgBuf[i].FreeMessage(); }   // cases are self-contained
};
static Bus *bus[NBUS];
static tNMEA2000::tMsgHandler *H[MAXH];

// ---- reference written from the property statement: which handler is attached where --------------
struct RefH { bool live = false; unsigned long pgn = 0; int bus = -1; };
static RefH ref[MAXH];
static bool refCb[NBUS];

static std::string caseDesc; static bool caseHit = false, caseMoved = false, caseDestroyedAttached = false;
static void endCase() {
  if (!caseDesc.empty()) {
    C.cases++;
    if (caseHit) C.nontrivial(caseDesc);
    if (caseMoved) C.count("cases_with_move_between_buses");
    if (caseDestroyedAttached) C.count("cases_with_destroy_while_attached");
  }
  caseDesc.clear(); caseHit = caseMoved = caseDestroyedAttached = false;
}

static unsigned long canId(unsigned prio, unsigned long pgn, unsigned src, unsigned dst) {
  unsigned long id = ((unsigned long)prio << 26) | (pgn << 8) | src;
  if (((pgn >> 8) & 0xff) < 240) id |= (unsigned long)dst << 8;
  return id;
}
static bool isFastPacketPgn(unsigned long pgn) {   // the PGNs used here that the library reassembles as fast packets
  return pgn == 129029UL || pgn == 126996UL || pgn == 126208UL || pgn == 129540UL || pgn == 126720UL || (pgn >= 130816UL && pgn <= 131071UL);
}

// queue one complete single-frame message (or a lone TP frame) of the given PGN
static unsigned inject(Bus &b, unsigned long pgn) {
  unsigned char d[8]; unsigned char len = 8; unsigned src = 0x23;
  memset(d, 0xff, 8);
  if (pgn == 59904UL) { d[0] = 0x00; d[1] = 0xEE; d[2] = 0x00; len = 3; }                       // ISO request for 60928
  else if (pgn == 60928UL) { unsigned char nm[8] = {0x11, 0x22, 0x33, 0x44, 0x00, 0x82, 0x32, 0xC0}; memcpy(d, nm, 8); src = 0x42; }
  else if (pgn == TP_CM_PGN) { d[0] = 255; d[5] = 0x00; d[6] = 0xF2; d[7] = 0x01; }                 // connection abort, not for us
  else if (pgn == TP_DT_PGN) { d[0] = 1; }                                                        // data packet of no transfer
  else if (isFastPacketPgn(pgn)) { d[0] = 0x40; d[1] = 4; d[2] = 1; d[3] = 2; d[4] = 3; d[5] = 4; } // whole fast packet in its first frame
  else { for (int i = 0; i < 8; i++) d[i] = (unsigned char)(i + 1); }
  b.rx(canId(6, pgn, src, 255), len, d);
  return src;
}
static void injectTp(Bus &b, unsigned long pgn) {
  unsigned char d[8] = {32, 9, 0, 2, 0xff, (unsigned char)(pgn & 0xff), (unsigned char)((pgn >> 8) & 0xff), (unsigned char)((pgn >> 16) & 0xff)};
  b.rx(canId(7, TP_CM_PGN, 0x31, 255), 8, d);
  unsigned char p1[8] = {1, 1, 2, 3, 4, 5, 6, 7}, p2[8] = {2, 8, 9, 0xff, 0xff, 0xff, 0xff, 0xff};
  b.rx(canId(7, TP_DT_PGN, 0x31, 255), 8, p1);
  b.rx(canId(7, TP_DT_PGN, 0x31, 255), 8, p2);
}

static const char *pgnClass(unsigned long h) { return h == 0 ? "all-pgn-handler" : "pgn-handler"; }

// run the receive path for what was queued on bus b and compare with the reference; `want` = PGN of the message that
// must be delivered (from source wantSrc), or -1 when no message was completed by the frames queued (lone
// transport-protocol frames, fast-packet fragments, frames of a damaged fast packet); `cls` names the frame class
struct Res { int cb = 0; std::vector<int> ids; };
static std::string fmt(const Res &r) {
  std::string out = "cb=" + std::to_string(r.cb) + " h=";
  if (r.ids.empty()) out += "-";
  for (size_t i = 0; i < r.ids.size(); i++) { if (i) out += ','; out += std::to_string(r.ids[i]); }
  return out;
}
static void deliverInto(Res &res, int b, long want, unsigned wantSrc, const char *cls) {
  calls.clear(); cbRuns[0] = cbRuns[1] = 0;
  g_now++;
  bus[b]->ParseMessages();
  bus[b]->sent.clear();
  res.cb += cbRuns[0] + cbRuns[1];
  for (auto &c : calls) res.ids.push_back(c.h);
  // ---- oracle
  std::string none = std::string("no-message-completed:") + cls;
  int n[MAXH]; memset(n, 0, sizeof n);
  for (auto &c : calls) {
    if (c.h < 0 || c.h >= MAXH) { C.fail("harness:bad-id", "id %d", c.h); continue; }
    n[c.h]++;
    if (want >= 0 && (c.pgn != (unsigned long)want || c.src != wantSrc))
      C.fail(std::string("C14:wrong-message:") + cls, "handler %d got PGN %lu from %u, the completed message was %ld from %u", c.h, c.pgn, c.src, want, wantSrc);
  }
  for (int h = 0; h < MAXH; h++) {
    bool match = want >= 0 && ref[h].live && ref[h].bus == b && (ref[h].pgn == 0 || ref[h].pgn == (unsigned long)want);
    if (match && n[h] == 0) C.fail(std::string("C14:missed:") + pgnClass(ref[h].pgn), "handler %d (PGN %lu) on bus %d not called for %ld", h, ref[h].pgn, b, want);
    if (match && n[h] > 1) C.fail(std::string("C14:duplicate:") + pgnClass(ref[h].pgn), "handler %d called %d times for %ld", h, n[h], want);
    if (!match && n[h] > 0) {
      std::string why = want < 0 ? none : !ref[h].live ? "destroyed" : ref[h].bus < 0 ? "detached" : ref[h].bus != b ? "other-bus" : "other-pgn";
      unsigned long gp = 0; unsigned gs = 0; for (auto &c : calls) if (c.h == h) { gp = c.pgn; gs = c.src; }
      C.fail("C14:extra:" + why, "handler %d (PGN %lu, bus %d) called %d times with PGN %lu from %u; completed message: %ld, bus %d", h, ref[h].pgn, ref[h].bus, n[h], gp, gs, want, b);
    }
    if (match) caseHit = true;
  }
  int wantCb = (want >= 0 && refCb[b]) ? 1 : 0;
  if (cbRuns[b] != wantCb) C.fail(want < 0 ? "C14:callback:" + none : cbRuns[b] < wantCb ? std::string("C14:callback:missed") : std::string("C14:callback:extra"),
                                 "plain callback of bus %d ran %d times (last PGN %lu from %u), expected %d", b, cbRuns[b], cbPgn[b], cbSrc[b], wantCb);
  else if (wantCb && (cbPgn[b] != (unsigned long)want || cbSrc[b] != wantSrc))
    C.fail(std::string("C14:wrong-message:") + cls, "callback got PGN %lu from %u, the completed message was %ld from %u", cbPgn[b], cbSrc[b], want, wantSrc);
  if (cbRuns[1 - b] != 0) C.fail("C14:callback:other-bus", "plain callback of bus %d ran for a message on bus %d", 1 - b, b);
}
static std::string deliver(int b, long want, unsigned wantSrc, const char *cls) { Res r; deliverInto(r, b, want, wantSrc, cls); return fmt(r); }

// ---- fast-packet reference receiver, from the format: a message is completely received when its first frame
// (counter 0, announcing the length) was followed, frame by frame, by the frames with the next first bytes until
// the announced number of bytes has arrived; any other continuation frame ends the reception without a message
struct FpRx { bool active = false; unsigned last = 0; unsigned got = 0, len = 0; };
static std::map<std::tuple<int, unsigned long, unsigned>, FpRx> fpState;
static bool fpRefFrame(FpRx &st, unsigned b0, unsigned len) {
  if ((b0 & 0x1f) == 0) { st.active = true; st.last = b0; st.len = len; st.got = 6; }
  else if (st.active && b0 == st.last + 1) { st.last = b0; st.got += 7; }
  else { st.active = false; return false; }
  if (st.got >= st.len) { st.active = false; return true; }
  return false;
}
static std::string fpFlags(int b, unsigned long pgn, unsigned src, unsigned len, const std::vector<unsigned> &fr) {
  FpRx st = fpState[std::make_tuple(b, pgn, src)];   // copy: the generator only predicts
  std::string f; for (unsigned b0 : fr) f += fpRefFrame(st, b0, len) ? '1' : '0';
  return f;
}

static tNMEA2000::tMsgHandler *mk(int h, unsigned long p, tNMEA2000 *n) {
  return h % 3 == 0 ? (tNMEA2000::tMsgHandler *)new HA(h, p, n) : h % 3 == 1 ? (tNMEA2000::tMsgHandler *)new HB(h, p, n) : (tNMEA2000::tMsgHandler *)new HC(h, p, n);
}

static void exec(const std::string &line) {
  std::vector<std::string> w = split(line);
  C.op("%s", line.c_str());
  if (w.empty()) { C.out("bad-op"); return; }
  C.count("op_" + w[0]);
  if (w[0] == "reset") endCase();
  caseDesc += line; caseDesc += ';';
  auto num = [&](size_t i) { return (unsigned long)strtoul(w[i].c_str(), nullptr, 10); };
  auto isNum = [&](size_t i) { return i < w.size() && !w[i].empty() && w[i].find_first_not_of("0123456789") == std::string::npos; };
  auto hid = [&](size_t i) { return isNum(i) && num(i) < (unsigned long)MAXH ? (int)num(i) : -1; };
  auto bid = [&](size_t i) { return isNum(i) && num(i) < (unsigned long)NBUS ? (int)num(i) : -1; };
  if (w[0] == "reset" && w.size() <= 1 + (size_t)MAXH) {
    for (size_t i = 1; i < w.size(); i++) if (!isNum(i)) { C.out("bad-op"); return; }
    for (int h = 0; h < MAXH; h++) { if (H[h]) { delete H[h]; H[h] = nullptr; } ref[h] = RefH(); }
    fpState.clear();
    for (int b = 0; b < NBUS; b++) {
      bus[b]->SetMsgHandler(0); refCb[b] = false; bus[b]->dropPartialMessages();
      if (!bus[b]->listEmpty()) { C.fail("C14:dangling-after-destroy-all", "bus %d still points to a handler after every handler was destroyed", b); bus[b]->forceEmpty(); }
    }
    for (size_t i = 1; i < w.size(); i++) { int h = (int)i - 1; H[h] = mk(h, num(i), nullptr); ref[h].live = true; ref[h].pgn = num(i); ref[h].bus = -1; }
    C.out("ok"); return;
  }
  if (w[0] == "new" && (w.size() == 3 || w.size() == 4)) {
    int h = hid(1); int b = w.size() == 4 ? bid(3) : -1;
    if (h < 0 || !isNum(2) || H[h] || (w.size() == 4 && b < 0)) { C.out("bad-op"); return; }
    unsigned long p = num(2); tNMEA2000 *n = b >= 0 ? bus[b] : nullptr;
    H[h] = mk(h, p, n);
    ref[h].live = true; ref[h].pgn = p; ref[h].bus = b;
    C.out("ok"); return;
  }
  if (w[0] == "attach" && w.size() == 3) {
    int h = hid(1), b = bid(2);
    if (h < 0 || b < 0 || !H[h]) { C.out("bad-op"); return; }
    if (ref[h].bus >= 0 && ref[h].bus != b) caseMoved = true;
    bus[b]->AttachMsgHandler(H[h]); ref[h].bus = b;
    C.out("ok"); return;
  }
  if (w[0] == "detach" && (w.size() == 2 || w.size() == 3)) {
    int h = hid(1), via = w.size() == 3 ? bid(2) : 0;
    if (h < 0 || via < 0 || !H[h]) { C.out("bad-op"); return; }
    bus[via]->DetachMsgHandler(H[h]); ref[h].bus = -1;
    C.out("ok"); return;
  }
  if (w[0] == "destroy" && w.size() == 2) {
    int h = hid(1);
    if (h < 0 || !H[h]) { C.out("bad-op"); return; }
    if (ref[h].bus >= 0) caseDestroyedAttached = true;
    delete H[h]; H[h] = nullptr; ref[h] = RefH();
    C.out("ok"); return;
  }
  if (w[0] == "cb" && w.size() == 3) {
    int b = bid(1);
    if (b < 0 || !isNum(2) || num(2) > 1) { C.out("bad-op"); return; }
    refCb[b] = num(2) == 1; bus[b]->SetMsgHandler(refCb[b] ? (b == 0 ? cb0 : cb1) : 0);
    C.out("ok"); return;
  }
  if ((w[0] == "msg" || w[0] == "tp") && w.size() == 3) {
    int b = bid(1);
    if (b < 0 || !isNum(2) || num(2) >= (1UL << 17)) { C.out("bad-op"); return; }
    unsigned long p = num(2);
    if (((p >> 8) & 0xff) < 240 && (p & 0xff) != 0) { C.out("bad-op"); return; }   // not a PGN a CAN id can carry
    if (w[0] == "tp") {
      if (p == TP_CM_PGN || p == TP_DT_PGN) { C.out("bad-op"); return; }
      injectTp(*bus[b], p); C.count("tp_transfers");
      C.outs(deliver(b, (long)p, 0x31, "tp-transfer")); return;
    }
    bool lone = p == TP_CM_PGN || p == TP_DT_PGN;
    if (lone) C.count("lone_tp_frames");
    else if (p == 59904UL || p == 60928UL || p == 59392UL || p == 126208UL) C.count("system_messages");
    unsigned src = inject(*bus[b], p);
    C.outs(deliver(b, lone ? -1 : (long)p, src, lone ? "lone-tp-frame" : "single-frame")); return;
  }
  if (w[0] == "fp" && w.size() == 7) {
    int b = bid(1);
    std::vector<unsigned> fr; bool okList = !w[5].empty();
    { size_t i = 0; while (okList && i <= w[5].size()) { size_t j = w[5].find(',', i); if (j == std::string::npos) j = w[5].size();
        std::string t = w[5].substr(i, j - i); if (t.empty() || t.size() > 3 || t.find_first_not_of("0123456789") != std::string::npos || atoi(t.c_str()) > 255) okList = false; else fr.push_back((unsigned)atoi(t.c_str())); i = j + 1; } }
    if (b < 0 || !isNum(2) || num(2) >= (1UL << 17) || !isFastPacketPgn(num(2)) || !isNum(3) || num(3) > 251 || !isNum(4) || num(4) > 223 ||
        !okList || fr.size() > 40 || w[6].size() != fr.size() || w[6].find_first_not_of("01") != std::string::npos) { C.out("bad-op"); return; }
    unsigned long p = num(2); unsigned src = (unsigned)num(3), len = (unsigned)num(4);
    FpRx &st = fpState[std::make_tuple(b, p, src)];
    Res res; int done = 0;
    for (size_t k = 0; k < fr.size(); k++) {
      unsigned char d[8]; d[0] = (unsigned char)fr[k];
      if ((fr[k] & 0x1f) == 0) { d[1] = (unsigned char)len; for (int j = 2; j < 8; j++) d[j] = (unsigned char)(j + k); }
      else for (int j = 1; j < 8; j++) d[j] = (unsigned char)(16 * k + j);
      bus[b]->rx(canId(6, p, src, 255), 8, d);
      bool complete = fpRefFrame(st, fr[k], len);
      if (complete) done++;
      deliverInto(res, b, complete ? (long)p : -1, src, (fr[k] & 0x1f) == 0 ? "fp-first-frame" : "fp-continuation");
    }
    C.count("fp_frames", (long)fr.size()); C.count("fp_messages_completed", done); if (w[6].find('1') == std::string::npos) C.count("fp_ops_without_complete_message");
    C.outs(fmt(res)); return;
  }
  if (w[0] == "probe" && w.size() >= 2) {
    for (size_t i = 1; i < w.size(); i++) {
      if (!isNum(i) || num(i) >= (1UL << 17) || num(i) == TP_CM_PGN || num(i) == TP_DT_PGN || (((num(i) >> 8) & 0xff) < 240 && (num(i) & 0xff) != 0)) { C.out("bad-op"); return; }
    }
    std::string out;
    for (size_t i = 1; i < w.size(); i++) for (int b = 0; b < NBUS; b++) {
      unsigned src = inject(*bus[b], num(i));
      if (!out.empty()) out += " | ";
      out += deliver(b, (long)num(i), src, "single-frame");
    }
    C.outs(out); return;
  }
  C.out("bad-op");
}

// ---- generators ------------------------------------------------------------------------------------
static std::string S(const char *fmt, ...) { char b[160]; va_list ap; va_start(ap, fmt); vsnprintf(b, sizeof b, fmt, ap); va_end(ap); return b; }

// every sequence of length exactly L over the alphabet (shorter ones occur as sequences with ineffective steps),
// each followed by a probe of all PGNs in play on both buses
static void exhaustive(const std::vector<unsigned long> &pgns, const std::vector<std::string> &alphabet, int L, const std::string &probe) {
  std::vector<int> idx(L, 0);
  while (true) {
    std::string r = "reset";
    for (size_t h = 0; h < pgns.size(); h++) r += S(" %lu", pgns[h]);
    exec(r);
    for (int i = 0; i < L; i++) exec(alphabet[idx[i]]);
    exec(probe);
    int k = L - 1; while (k >= 0 && ++idx[k] == (int)alphabet.size()) { idx[k] = 0; k--; }
    if (k < 0) break;
  }
  C.count("exhaustive_spaces");
}
static std::vector<std::string> alphabetFor(const std::vector<unsigned long> &pgns, bool withNew, bool withVia) {
  std::vector<std::string> a;
  for (size_t h = 0; h < pgns.size(); h++) {
    for (int b = 0; b < NBUS; b++) a.push_back(S("attach %zu %d", h, b));
    a.push_back(S("detach %zu", h));
    if (withVia) a.push_back(S("detach %zu 1", h));
    a.push_back(S("destroy %zu", h));
    if (withNew) a.push_back(S("new %zu %lu", h, pgns[h]));
  }
  return a;
}

// one fast-packet transfer of `len` bytes with sequence id `seq`, damaged in the way `dmg` says
static const char *DMG[] = {"intact", "missing-middle", "missing-last", "missing-first", "wrong-counter", "duplicate", "swapped", "wrong-seq", "restart", "truncated-then-intact"};
static const int NDMG = 10;
static std::string fpLine(Rng &R, int b, unsigned long pgn, unsigned src, unsigned len, unsigned seq, int dmg) {
  unsigned nfr = len <= 6 ? 1 : 1 + (len - 6 + 6) / 7;
  std::vector<unsigned> fr; for (unsigned k = 0; k < nfr; k++) fr.push_back((seq % 8) * 32 + k);
  size_t mid = nfr > 2 ? 1 + (size_t)R.below(nfr - 2) : (nfr > 1 ? 1 : 0);
  switch (dmg) {
    case 1: if (nfr > 2) fr.erase(fr.begin() + mid); break;
    case 2: if (nfr > 1) fr.pop_back(); break;
    case 3: if (nfr > 1) fr.erase(fr.begin()); break;
    case 4: if (nfr > 1) fr[mid] = (seq % 8) * 32 + ((fr[mid] & 31) + 1 + (unsigned)R.below(29)) % 32; break;
    case 5: if (nfr > 1) fr.insert(fr.begin() + mid, fr[mid]); break;
    case 6: if (nfr > 2) std::swap(fr[mid], fr[mid + 1 < nfr ? mid + 1 : mid - 1]); break;
    case 7: if (nfr > 1) fr[mid] = ((seq + 1 + (unsigned)R.below(7)) % 8) * 32 + (fr[mid] & 31); break;
    case 8: if (nfr > 1) { std::vector<unsigned> g(fr.begin(), fr.begin() + mid); for (unsigned k = 0; k < nfr; k++) g.push_back(((seq + 1) % 8) * 32 + k); fr = g; } break;
    case 9: if (nfr > 1) { std::vector<unsigned> g(fr.begin(), fr.begin() + mid); g.insert(g.end(), fr.begin(), fr.end()); fr = g; } break;
    default: break;
  }
  if (fr.size() > 40) fr.resize(40);
  std::string l; for (size_t i = 0; i < fr.size(); i++) { if (i) l += ','; l += std::to_string(fr[i]); }
  C.count(std::string("fp_") + DMG[dmg]);
  return S("fp %d %lu %u %u ", b, pgn, src, len) + l + " " + fpFlags(b, pgn, src, len, fr);
}

// damaged and intact fast packets observed by the callback, all-PGN handlers and PGN handlers on both buses
static void fpCase(Rng &R, int nops) {
  static const unsigned long fpp[] = {129029UL, 129540UL, 130816UL};
  exec(S("reset 0 %lu 0 %lu %lu", fpp[0], fpp[1], fpp[2]));
  for (int h = 0; h < 5; h++) exec(S("attach %d %d", h, h == 2 ? 1 : (int)R.below(NBUS)));
  exec("attach 0 0"); exec("cb 0 1"); exec("cb 1 1");
  unsigned seq = (unsigned)R.below(8);
  for (int i = 0; i < nops; i++) {
    int b = (int)R.below(NBUS); unsigned long p = fpp[R.below(3)];
    unsigned len = R.chance(1, 6) ? (unsigned)R.range(0, 13) : R.chance(1, 8) ? (unsigned)R.range(200, 223) : (unsigned)R.range(7, 60);
    int dmg = R.chance(2, 5) ? 0 : (int)R.range(1, NDMG - 1);
    // at most 4 (PGN, source) pairs per bus, so unfinished messages never exhaust the 5 receive slots (that is C02's subject)
    unsigned src = p == fpp[0] ? 0x51 + (unsigned)R.below(2) : p == fpp[1] ? 0x51 : 0x52;
    exec(fpLine(R, b, p, src, len, seq++, dmg));
    if (R.chance(1, 5)) exec(S("msg %d %lu", b, R.chance(1, 2) ? 127488UL : p == 129029UL ? 129029UL : 130306UL));
    if (R.chance(1, 12)) exec(S("tp %d %lu", b, p));
    if (R.chance(1, 15)) exec(S("%s %d %d", R.chance(1, 2) ? "attach" : "detach", (int)R.below(5), (int)R.below(NBUS)));
  }
}

static void randomCase(Rng &R, int len) {
  static const unsigned long pool[] = {0, 0, 127488UL, 127488UL, 130306UL, 59904UL, 60928UL, TP_CM_PGN, TP_DT_PGN, 129029UL, 65280UL, 126992UL, 126208UL, 59392UL, 1UL << 16};
  static const unsigned long msgPool[] = {127488UL, 130306UL, 59904UL, 60928UL, TP_CM_PGN, TP_DT_PGN, 129029UL, 65280UL, 126992UL, 59392UL, 0UL, 126996UL, 61184UL, 130816UL, 1UL << 16};
  const size_t NP = sizeof pool / sizeof pool[0], NM = sizeof msgPool / sizeof msgPool[0];
  exec("reset");
  int nh = (int)R.range(1, MAXH);
  size_t np = (size_t)R.range(2, (int64_t)NP);      // small pools give many equal PGNs
  for (int i = 0; i < len; i++) {
    int h = (int)R.below(nh), b = (int)R.below(NBUS);
    unsigned r = (unsigned)R.below(100);
    if (r < 14) { if (R.chance(1, 3)) exec(S("new %d %lu %d", h, pool[R.below(np)], b)); else exec(S("new %d %lu", h, pool[R.below(np)])); }
    else if (r < 42) exec(S("attach %d %d", h, b));
    else if (r < 54) { if (R.chance(1, 2)) exec(S("detach %d", h)); else exec(S("detach %d %d", h, b)); }
    else if (r < 62) exec(S("destroy %d", h));
    else if (r < 66) exec(S("cb %d %d", b, (int)R.below(2)));
    else if (r < 70) { unsigned long p = pool[R.below(np)]; if (p == TP_CM_PGN || p == TP_DT_PGN) p = 129029UL; exec(S("tp %d %lu", b, p)); }
    else if (r < 73) exec(fpLine(R, b, R.chance(1, 2) ? 129029UL : 126996UL, 0x51, (unsigned)R.range(0, 40), (unsigned)i, R.chance(1, 2) ? 0 : (int)R.range(1, NDMG - 1)));
    else if (r < 85) exec(S("msg %d %lu", b, pool[R.below(np)]));
    else exec(S("msg %d %lu", b, msgPool[R.below(NM)]));
  }
}

int main(int argc, char **argv) {
  C.init(argc, argv);
  C.rule = "case = op sequence between two resets; non-trivial = at least one message reached a matching handler; distinct = hash of the whole op sequence";
  for (int b = 0; b < NBUS; b++) {
    bus[b] = new Bus();
    if (b == 1) {   // bus 1 is an active node, so requests / claims are really consumed by the library before dispatch
      bus[b]->SetDeviceInformation(4711, 130, 25, 2046);
      bus[b]->SetMode(tNMEA2000::N2km_ListenAndNode, 25);
    }               // bus 0 stays in the default listen-only mode
    openAndSettle(*bus[b], 700);
    bus[b]->sent.clear();
    if (!bus[b]->isOpen()) C.fail("harness:not-open", "bus %d", b);
  }
  if (!C.replay.empty()) { for (auto &l : readLines(C.replay)) exec(l); endCase(); C.finish(); return 0; }
  Rng R(C.seed * 0x2545F4914F6CDD1DULL + 0x14);
  const unsigned long a = 127488UL, bb = 130306UL, other = 129025UL;
  // fixed scenarios named in the property
  for (const char *s : {"reset", "new 0 0", "new 1 127488", "attach 0 0", "attach 1 0", "attach 1 0", "msg 0 127488", "attach 1 1", "msg 0 127488", "msg 1 127488",
                        "destroy 1", "msg 1 127488", "new 1 127488 0", "cb 0 1", "msg 0 59904", "msg 0 60928", "msg 1 59904", "msg 1 60928", "msg 0 60416", "msg 0 60160",
                        "tp 0 127488", "tp 1 129029", "detach 0 1", "msg 0 127488", "msg 0 0", "attach 0 0",
                        "fp 0 129029 81 20 64,65,66 001", "fp 0 129029 81 20 96,98 00", "fp 0 129029 81 20 97,98 00", "fp 0 129029 81 20 128,129,129,130 0000",
                        "fp 0 129029 81 5 160 1", "fp 1 129029 81 20 0,1,2 001"}) exec(s);
  for (int i = 0; i < (C.thorough ? 40 : 8); i++) fpCase(R, C.thorough ? 120 : 60);
  C.sample("fast packets: intact, missing first/middle/last frame, wrong counter, duplicate, swapped, wrong sequence id, restart mid-way, truncated then intact; ParseMessages after every frame; callback + all-PGN + PGN handlers on both buses");
  // exhaustive small scopes
  {
    std::string probe = S("probe %lu %lu %lu", a, bb, other);
    int L4 = C.thorough ? 4 : 3;
    exhaustive({0, 0, a, bb}, alphabetFor({0, 0, a, bb}, true, false), L4, probe);
    exhaustive({0, a, a, bb}, alphabetFor({0, a, a, bb}, false, false), L4, probe);
    exhaustive({a, a, a, a}, alphabetFor({a, a, a, a}, false, false), L4, probe);
    if (C.thorough) exhaustive({0, 0, a, bb}, alphabetFor({0, 0, a, bb}, false, false), 5, probe);
    int L3 = C.thorough ? 5 : 4;
    exhaustive({0, a, a}, alphabetFor({0, a, a}, false, false), L3, probe);
    exhaustive({bb, a, 0}, alphabetFor({bb, a, 0}, false, true), L3 - 1, probe);
    int L2 = C.thorough ? 5 : 4;
    exhaustive({a, a}, alphabetFor({a, a}, true, false), L2, probe);
    exhaustive({0, a}, alphabetFor({0, a}, true, false), L2, probe);
    C.sample(S("exhaustive: every sequence of attach(h,bus)/detach/destroy/new of length %d (thorough: 5 without new) over 4 handlers {0,0,a,b},{0,a,a,b},{a,a,a,a}, length %d over 3, length %d over 2 handlers; 2 buses; then probe of 3 PGNs on both buses", L4, L3, L2));
  }
  // long random histories over up to 8 handlers with every PGN class of message
  int ncases = C.thorough ? 4000 : 400;
  for (int i = 0; i < ncases; i++) randomCase(R, (int)R.range(10, C.thorough ? 400 : 150));
  C.sample("random: new/attach/detach(via)/destroy/cb mixed with msg of data, ISO request, address claim, ISO ack, fast-packet, PGN 0, lone TP.CM / TP.DT frames and BAM transfers on a listen-only bus and an active node");
  endCase();
  C.finish();
  return 0;
}
