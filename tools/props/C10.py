"""C10 - ISO transport protocol (J1939-21 TP.CM / TP.DT), sending and receiving side."""
SPEC = {
    'engine': 'tp', 'harness': 'tp.cpp',
    'repo_srcs': ['N2kMsg.cpp', 'N2kStream.cpp', 'N2kMessages.cpp', 'N2kTimer.cpp', 'N2kGroupFunction.cpp', 'N2kGroupFunctionDefaultHandlers.cpp', 'NMEA2000.cpp'],
    'variants': ['', 't32'],
    'lean_modules': ['N2k.Props.Consts.C10', 'N2k.Props.C10'], 'props_files': ['N2k/Props/Consts/C10.lean', 'N2k/Props/C10.lean'],
    'translators': ['constants', 'pgn_tables'],
    'case_start': ['reset'],
    'oracle_prefixes': ['C10:', 'C07:tp-'],
    'trusted_base': ["frozen specification lean/N2k/Spec/IsoTp.lean (J1939-21 TP.CM/TP.DT wire format, reference reassembly) and "
                     "Spec/J1939.lean (identifier)",
                     "model N2k/Model/TP.lean transcribes StartSendTPMessage, SendTPCM_*, SendTPDT, HasAllTPDTSent, SendPendingTPMessage, "
                     "EndSendTPMessage, TPCtsPackets, TestHandleTPMessage, FindFreeCANMsgIndex, CopyBufToCANMsg, SetN2kCANBufMsg and the "
                     "loop of ParseMessages by hand on top of Model/Send.lean (every frame leaves through Send.sendMsg)",
                     "reference peer / bus monitor of harness/tp.cpp written from J1939-21 and the statement; documented library "
                     "timeouts (50 ms after RTS, 100 ms after CTS) are taken as the reference for 'abandoned too early'",
                     "PGN tables regenerated from src/NMEA2000.cpp (known-message filter)"],
    'assumptions': ["node open and address claim settled; heartbeat switched off (C12)",
                    "transported PGNs are not the ones the library consumes itself (59392, 59904, 60928, 65240, 126208)",
                    "of the received system messages only the single-frame ISO request (59904) for 60928 / 126996 / 126998 (and the NAK "
                    "for other PGNs) is modelled, without an application ISORqstHandler; a request for 126464 is not; the content of "
                    "the product / configuration information answers is an input of the model (captured from the node, C08's subject); "
                    "PendingIsoAddressClaim is never armed",
                    "no application-declared PGN lists; message forwarding off",
                    "CAN frames have at most 8 data bytes; a shorter TP frame is processed on the driver's 8-byte buffer as the library does",
                    "the BAM re-arm interval is a parameter of the model (Node.bamGap, measured on the node at start-up; the statement only bounds it from below); "
                    "pacing is measured where frames are produced; under driver back-pressure frames leave later through the send queue (C11)",
                    "theorems about emitted frames assume a 'quiet' node (device may transmit, queue empty, driver accepts); the "
                    "back-pressure paths are covered by the correspondence run only",
                    "end-to-end theorems (RTS/CTS and BAM): any number of devices per node, any acting device index on either side, the other "
                    "devices idle (Lead); RTS/CTS (C10_end_to_end_any_order): ANY order of polls of the two nodes, every poll of the sender "
                    "before its own timeout is due (< 50 ms after arming at the RTS, < 100 ms after arming at a CTS; idle polls add up), no "
                    "condition on the receiver's delays, at least 2*packets+2 effective polls; BAM (C10_end_to_end_bam_any_order): ANY order "
                    "of polls, no poll of the sender at the very millisecond its pacing timer runs out or 2^31 ms late, bamGap <= 100000, "
                    "the listener takes up to 20 queued frames per poll, completion once it has taken all packets+1 frames; the _partial "
                    "theorems: the two nodes poll alternately; an untimely RTS/CTS schedule (sender aborts) is not composed end to end",
                    "free receive slots carry TPRequireCTS = 0 (constructor / FreeMessage invariant; hypothesis of the BAM end-to-end theorem)"],
}
MANIFEST = {
    'text': "Theorems over a hand model of both protocol roles: packetisation for every length 9..223 equals the J1939-21 closed "
            "form and reassembles to the payload; for every CTS (n, next) the sender emits exactly min(n, remaining) packets from "
            "next, ends the session on a sequence error, only re-arms the timeout for n = 0 and ignores controls of other sessions; "
            "BAM data packets are >= 50 ms apart for both scheduler flavours (exact bound per flavour); the receiver answers an "
            "admissible RTS with CTS, the final packet with an end-of-message ACK with the right counts and exactly one delivery "
            "carrying the embedded PGN and the payload, a wrong sequence number frees the slot, sends Abort and delivers nothing; "
            "sessions time out and later transfers start; library sender and library receiver composed over a loss-free in-order "
            "channel complete the transfer with exactly one intact delivery, for RTS/CTS and for BAM, under every poll schedule "
            "within the timeouts (any acting device of nodes with any number of otherwise idle devices; RTS/CTS under ANY order of polls "
            "of the two nodes with the sender's timeouts respected - C10_end_to_end_any_order, bound 2*packets+2 effective polls; "
            "BAM under ANY order of polls as a simulation by counters of the schedule - C10_end_to_end_bam_any_order: the listener never "
            "transmits, no handler call before all frames are taken, then exactly one intact delivery; the round-counting forms for "
            "strictly alternating polls: theorems named _partial). Receiver safety over EVERY history (C10_receiver_safe_all_histories, an inductive invariant against the reference "
            "bookkeeping Spec.tpTrack): every handler call caused by a transfer has len <= 223, exactly len bytes, all from the in-order "
            "packets of one session of its source/destination/PGN. Correspondence: the real tNMEA2000 (both timer builds) against a scripted reference peer in both "
            "roles (every length, grants 1..255, holds, late answers, aborts, silence, every single dropped/duplicated/reordered "
            "frame, concurrent sources, fast-packet cross traffic, malformed frames) and two real nodes back to back, compared line "
            "by line with the model; an independent bus monitor checks the statement.",
    'design_ref': 'DESIGN.md section 4, C10',
    'note': "Trusted: Lean kernel; hand model tied by differential runs; the monitor's reading of J1939-21. Four defects of the "
            "pinned tree are fixed in the worktree (rx-223, tp-cts-idev, foreign controls end the transfer, stale receive session "
            "swallows the next transfer); the model is the fixed behaviour.",
}
