import N2k.Lemmas.ClaimFrame
/-! What the claim-sending primitives do when the driver accepts every frame (bus hypothesis "claim sends are
not refused"): `SendIsoAddressClaim` and `StartAddressClaim(iDev)` put exactly one claim frame for the device's
current (NAME, address) on the bus. -/
namespace N2k.Bus
open N2k.Send N2k.Time N2k.Claim

/-- the send path of a claimant whose driver accepts everything and whose queue is empty -/
structure SendOK (s : St) : Prop where
  cm : s.claimMode = true
  lo : s.listenOnly = false
  ring : s.ring.read = s.ring.write
  script : s.drv.script = []
  dflt : s.drv.dflt = true
  nofp : isFastPacketPGN s.lists 60928 = false

theorem sendFrames_empty (r : Ring) (d : Drv) (h : r.read = r.write) : sendFrames r d = (r, d, true) := by
  unfold sendFrames
  have : r.cnt = 0 := by unfold Ring.cnt; rw [h, Nat.add_sub_cancel_left, Nat.mod_self]
  rw [this]; rfl

theorem sendFrame_ok (r : Ring) (d : Drv) (f : Frame) (h : r.read = r.write) (hs : d.script = []) (hd : d.dflt = true) :
    sendFrame r d f = (r, { d with sent := d.sent ++ [f] }, true) := by
  unfold sendFrame
  rw [sendFrames_empty r d h]
  simp [Drv.send, hs, hd]

theorem isEnabled_disabled (f : Flavor) : (Sched.disabled f).isEnabled f = false := by
  cases f <;> simp [Sched.disabled, Sched.isEnabled]

theorem gate_claim (s : St) (ok : SendOK s) (i : Nat) (d : Dev) (hd : s.devs[i]? = some d) (hs : d.source < 256) :
    gate s (claimMsg d) (some i) =
      .pass { s with devs := updDev s.devs i (isAddressClaimStarted s.flavor s.now d).1 }
        (isAddressClaimStarted s.flavor s.now d).1 (n2kToCanId 6 60928 d.source 0xff) := by
  obtain ⟨hlen, _⟩ := List.getElem?_eq_some_iff.mp hd
  have hlen' : ¬ i ≥ s.devs.length := by omega
  have hid := claimId_ne_zero d.source hs
  unfold gate
  simp only [Option.getD_some, hlen', ↓reduceIte, hd, claimMsg, srcOf]
  have e0 : (60928 : Nat) &&& 255 = 0 := by decide
  simp [e0, hid, ok.lo]

/-- `SendIsoAddressClaim`: one claim frame for the device's current NAME and address reaches the driver; the only
other effect is the evaluation of `IsAddressClaimStarted` in the gate -/
theorem sendMsg_claim (s : St) (ok : SendOK s) (i : Nat) (d : Dev) (hd : s.devs[i]? = some d) (hs : d.source < 256) :
    sendMsg s (claimMsg d) (some i) =
      ({ s with devs := updDev s.devs i (isAddressClaimStarted s.flavor s.now d).1,
                drv := { s.drv with sent := s.drv.sent ++ [claimFrameL d] } }, true) := by
  unfold sendMsg
  rw [gate_claim s ok i d hd hs]
  simp only [produce, claimMsg, ok.nofp, Nat.le_refl, Bool.false_eq_true, and_false, not_false_eq_true, and_self, ↓reduceIte]
  rw [sendFrame_ok _ _ _ ok.ring ok.script ok.dflt]
  rfl

theorem sendClaim_spec (s : St) (ok : SendOK s) (i : Nat) (d : Dev) (hd : s.devs[i]? = some d) (hs : d.source < 256) :
    sendClaim s i = { s with devs := s.devs.set i (isAddressClaimStarted s.flavor s.now d).1,
                             drv := { s.drv with sent := s.drv.sent ++ [claimFrameL d] } } := by
  unfold sendClaim
  rw [hd]
  simp only [sendMsg_claim s ok i d hd hs, updDev]

theorem startAddressClaim_spec (s : St) (ok : SendOK s) (ho : s.openState = 3) (i : Nat) (d : Dev)
    (hd : s.devs[i]? = some d) (hs : d.source < 256) :
    startAddressClaim s i =
      { s with devs := s.devs.set i { d with claimTimer := Sched.fromNow s.flavor s.now 250 },
               drv := { s.drv with sent := s.drv.sent ++ [claimFrameL d] } } := by
  obtain ⟨hlen, _⟩ := List.getElem?_eq_some_iff.mp hd
  unfold startAddressClaim
  have hc : s.canClaim = true := by simp [St.canClaim, ok.cm, ho]
  simp only [hc, not_true_eq_false, ↓reduceIte, hd]
  have ok1 : SendOK { s with devs := updDev s.devs i { d with claimTimer := Sched.disabled s.flavor } } :=
    ⟨ok.cm, ok.lo, ok.ring, ok.script, ok.dflt, ok.nofp⟩
  have hd1 : ({ s with devs := updDev s.devs i { d with claimTimer := Sched.disabled s.flavor } } : St).devs[i]? =
      some { d with claimTimer := Sched.disabled s.flavor } := by simp [updDev, hlen]
  rw [sendMsg_claim _ ok1 i _ hd1 hs]
  simp only [isAddressClaimStarted, isEnabled_disabled, Bool.false_eq_true, ↓reduceIte, updDev, List.set_set,
    List.getElem?_set_self hlen, List.length_set]
  rfl

end N2k.Bus
