// C05 harness: calls the REAL SetN2kPGNxxx on generated tuples and the REAL ParseN2kPGNxxx on its output
// (src/N2kMessages.cpp, src/N2kMaretron.cpp, src/NMEA2000.cpp through the generated call glue build/gen/layout_glue.h).
// ops:
//   set <id> c0 c1 ...        one integer CODE per field of the pair (order of the glue table): the integer itself for
//                             integer/enum/flag/status fields (two's complement in the C type), the w-byte code of a
//                             scaled field (the setter is called with code*resolution, NA code -> N2kDoubleNA), `x<hex>`
//                             = the bytes of a text field            -> payload hex (`??` = byte the model does not
//                             translate, trailing `+` = only a prefix is modelled) | untranslated
//   parse <id> <pgn> <hex>    real parser on a message with that PGN and payload; the rest of the 223-byte buffer is
//                             filled with junk derived from the line       -> refuse | one code per parsed field
// No floating-point text crosses the protocol.
// Oracle (independent of the Lean model, from the property statement): after `set` + `parse` with the setter's own PGN
// the parser must accept and return every field that was set - exactly for integer, enumeration, flag, status and
// text fields (text truncated to the field width), within half a resolution step for scaled fields, NA as NA; a
// foreign PGN must be refused; the result must not depend on the junk behind the payload.
// Repeated-record PGNs (sat / wp / pgns / bank ops, see the section further down) are checked by the direct oracle only.
// Keys: C05:<pair>:<field>:<class of the value the field had>  (zero|one|min|max|neg|big|NA|bit|enum|pattern|flag|rand|
// empty|full|long), C05:<pair>:guard:<accept|foreign>, C05:<pair>:<field>:junk, C05:<pair>:ub (sanitizer report).
#include "common.h"
#include "layout_glue.h"
#include <cmath>
#include <unistd.h>

using namespace vh;
static Ctx C;
static volatile int g_ub = 0;
// UBSan calls this for every report it prints (float-cast-overflow is compiled as recoverable for this harness, so a
// conversion of an out-of-range double - e.g. N2kDoubleNA into a uint32_t - is reported per input instead of ending
// the run; every other check still aborts)
extern "C" void __ubsan_on_report(void) { g_ub++; }

typedef unsigned long long u64;
static u64 maskBits(int b) { return b >= 64 ? ~0ULL : ((1ULL << b) - 1); }

// ---- documented exceptions (hand-written from the header documentation, not from the code under test)
struct Exception_ { const char *id, *field; int kind; };
// flag 1: PGN 129029 supports one reference station: documented values of nReferenceStations are 0, 1 and NA
// flag 2: fields that are only transmitted when nReferenceStations == 1
// flag 4: the reference station id is a 12-bit field (0..4095)
// flag 8: Peukert exponent is transmitted as (value - 1) in steps of 0.002, documented range 1 .. 1.504
static const Exception_ EXC[] = {{"129029", "nReferenceStations", 1}, {"129029", "ReferenceStationType", 2},
                                 {"129029", "ReferenceSationID", 2 | 4}, {"129029", "AgeOfCorrection", 2},
                                 {"127513", "PeukertExponent", 8}};
static int excOf(const lg::Pair &p, const lg::Field &f) {
  for (auto &e : EXC) if (!strcmp(e.id, p.id) && !strcmp(e.field, f.name)) return e.kind;
  return 0;
}

// width of a plain integer field as the harness draws values from it: normally the bits the setter stores (glue W);
// the C15 harness overrides it with the PUBLISHED field length, so that a setter masking too narrowly is exercised
// with the values it loses
static std::map<const lg::Field *, int> g_widthOverride;
static int intWidth(const lg::Field &f) {
  auto it = g_widthOverride.find(&f);
  if (it != g_widthOverride.end()) return it->second;
  return f.W > 0 ? f.W : f.typeBits;
}

// ---- scaled codes, from the property statement / the NMEA 2000 field format
static long long naCode(int w, bool s) { return s ? (long long)(maskBits(8 * w) >> 1) : (long long)maskBits(8 * w); }   // as signed value for signed fields
static long long minCode(int w, bool s) { return s ? (w == 8 ? -(1LL << 50) : -(1LL << (8 * w - 1))) : 0; }
static long long maxCode(int w, bool s) { return w == 8 ? (1LL << 50) : naCode(w, s) - 2; }
static const double NA_D = -1e9;   // N2kDoubleNA

struct Cell { lg::Val v; long long code; std::string text; const char *cls; };   // one field of a tuple

// the double handed to the setter for an 8-byte field must make the library store exactly `code` (the 8-byte field
// truncates; C06 owns that conversion) - search the neighbouring doubles with the library's own Add8ByteDouble
static double dbl8(long long code, double res) {
  double d = (double)code * res;
  for (int k = 0; k < 8; k++) {
    tN2kMsg t; t.Add8ByteDouble(d, res);
    long long got = 0; memcpy(&got, t.Data, 8);
    if (got == code) return d;
    d = nextafter(d, got < code ? INFINITY : -INFINITY);
  }
  C.fail("harness:8byte", "no double stores code %lld at resolution %g", code, res);
  return (double)code * res;
}

static void setScaled(const lg::Pair &p, const lg::Field &f, Cell &c, long long code, bool na, const char *cls) {
  int w = f.sW ? f.sW : f.pW; bool s = f.sW ? f.sSigned : f.pSigned; double res = f.sW ? f.sRes : f.pRes;
  c.cls = cls;
  if (na) { c.code = naCode(w, s); c.v.d = NA_D; return; }
  c.code = code;
  if (excOf(p, f) & 8) { c.v.d = 1.0 + (double)code * res; return; }
  c.v.d = (w == 8) ? dbl8(code, res) : (double)code * res;
}

static std::string randText(Rng &r, int n) {
  static const char *al = "ABCDEFGHIJKLMNOPQRSTUVWXYZ0123456789 -./";
  std::string s; for (int i = 0; i < n; i++) s += al[r.below(40)];
  while (!s.empty() && s.back() == ' ') s.back() = 'X';
  return s;
}
static int textWidth(const lg::Field &f) { return f.textLen > 0 ? f.textLen : 16; }

// all "interesting" values of a field (class label = last component of the oracle key)
static std::vector<Cell> specials(const lg::Pair &p, const lg::Field &f, Rng &r) {
  std::vector<Cell> out; Cell c; c.code = 0; c.cls = "zero";
  auto addI = [&](long long v, const char *cls) { Cell x; x.code = v; x.v.i = v; x.cls = cls; out.push_back(x); };
  int ex = excOf(p, f);
  switch (f.kind) {
    case lg::K_SCALED: {
      int w = f.sW ? f.sW : f.pW; bool s = f.sW ? f.sSigned : f.pSigned;
      if (w == 0) break;
      auto addS = [&](long long code, bool na, const char *cls) { Cell x; setScaled(p, f, x, code, na, cls); out.push_back(x); };
      if (ex & 8) { addS(0, false, "zero"); addS(1, false, "one"); addS(252, false, "max"); addS(r.range(2, 251), false, "rand"); addS(0, true, "NA"); break; }
      addS(0, false, "zero"); addS(1, false, "one"); addS(maxCode(w, s), false, "max");
      if (w < 8) addS(maxCode(w, s) + 1, false, "big");
      if (s) { addS(minCode(w, s), false, "min"); addS(-1, false, "neg"); addS(-r.range(2, w == 8 ? (1LL << 40) : -(minCode(w, s) + 1)), false, "neg"); }
      addS(0, true, "NA");
      addS(r.range(2, maxCode(w, s) - 1), false, "rand");
      break; }
    case lg::K_UINT: {
      if (ex & 1) { addI(0, "zero"); addI(1, "one"); addI(255, "NA"); break; }
      int W = intWidth(f); if (ex & 4) W = 12;
      u64 m = maskBits(W);
      addI(0, "zero"); addI(1, "one"); addI((long long)m, W == f.typeBits ? "NA" : "max");
      if (W > 1) addI((long long)(m - 1), "big");
      for (int b = 1; b < W; b += (W > 16 ? 7 : 1)) addI((long long)(1ULL << b), "bit");
      if (W > 2) addI((long long)(r.next() & m), "rand");
      break; }
    case lg::K_SINT: {
      int W = intWidth(f);
      if (W < f.typeBits) { u64 m = maskBits(W); addI(0, "zero"); addI((long long)m, "max"); addI((long long)(r.next() & m), "rand"); break; }
      long long hi = (long long)(maskBits(W) >> 1), lo = -hi - 1;
      addI(0, "zero"); addI(1, "one"); addI(hi, "NA"); addI(hi - 1, "big"); addI(lo, "min"); addI(-1, "neg");
      addI(r.range(lo + 1, -2), "neg"); addI(r.range(2, hi - 2), "rand");
      break; }
    case lg::K_ENUM: {
      std::set<long long> en(f.enumerators, f.enumerators + f.nEnum);
      for (long long e : en) addI(e, "enum");
      // packed fields: every bit pattern of the field, also the ones without a name
      // (the all-ones pattern of a field whose NA the parser hands back as the enumeration's own NA value IS that NA
      // value on the wire, not a value of its own)
      if (f.W <= 6) for (long long v = 0; v < (1LL << f.W); v++) if (!en.count(v) && !(f.naAlias >= 0 && v == (1LL << f.W) - 1)) addI(v, "pattern");
      break; }
    case lg::K_BOOL: addI(0, "flag"); addI(1, "flag"); break;
    case lg::K_UNION: {
      u64 m = maskBits(f.W);
      addI(0, "zero"); addI((long long)m, "max");
      for (int b = 0; b < f.W; b++) addI((long long)(1ULL << b), "bit");
      addI((long long)(r.next() & m), "rand");
      break; }
    case lg::K_TEXT: {
      int n = textWidth(f);
      auto addT = [&](const std::string &s, const char *cls) { Cell x; x.code = 0; x.v.s = s; x.cls = cls; out.push_back(x); };
      addT("", "empty"); addT("A", "one"); addT(randText(r, n), "full"); addT(randText(r, n + 3), "long");
      addT(randText(r, 1 + (int)r.below(n)), "rand");
      if (f.textKind == 4) {
        // variable strings that may carry UCS-2: UTF-8 text with 2-byte sequences over the WHOLE range U+0080..U+07FF (lead
        // bytes C2..DF, e.g. Cyrillic U+0400.., NKo U+07C0..) and 3-byte sequences, alone and mixed with ASCII; short, so
        // that neither the field width nor a caller's buffer cuts a character
        static const char *uni[] = {"\xc3\xa9", "\xd0\x96", "\xdf\xba", "\xd0\x80", "\xcf\xbf", "\xe2\x82\xac", "A\xd0\x96" "B", "\xd1\x8f\xd0\xb6", "X\xe2\x82\xac\xdf\xbf"};
        for (const char *u : uni) addT(u, "unicode");
        std::string m; for (int k = 0; k < 3; k++) { unsigned cp = 0x80 + (unsigned)r.below(0x780); m += (char)(0xC0 | (cp >> 6)); m += (char)(0x80 | (cp & 0x3F)); }
        addT(m, "unicode");
      }
      break; }
  }
  return out;
}
static Cell randomCell(const lg::Pair &p, const lg::Field &f, Rng &r, bool allowNA) {
  std::vector<Cell> sp = specials(p, f, r);
  if (sp.empty()) { Cell c; c.code = 0; c.cls = "zero"; return c; }
  // prefer the random in-range value; sometimes a special one
  for (int tries = 0; tries < 4; tries++) {
    Cell &c = sp[r.below(sp.size())];
    if (!allowNA && !strcmp(c.cls, "NA")) continue;
    if (r.chance(1, 2) && strcmp(c.cls, "rand") && strcmp(c.cls, "enum") && strcmp(c.cls, "flag") && strcmp(c.cls, "full")) continue;
    return c;
  }
  for (auto &c : sp) if (strcmp(c.cls, "NA")) return c;
  return sp[0];
}

// ---- codes on the line protocol
static std::string textCode(const lg::Field &f, const std::string &s) {
  // the bytes the field holds: fixed strings are padded (0xff for AddStr, '@' for AddAISStr) and cut at the width
  std::string b = s;
  if (f.textKind == 1 || f.textKind == 2) {
    int n = f.textLen; if ((int)b.size() > n) b.resize(n);
    while ((int)b.size() < n) b += (char)(f.textKind == 1 ? 0xff : '@');
  }
  return "x" + hex((const unsigned char *)b.data(), b.size());
}
static std::string inCode(const lg::Pair &p, const lg::Field &f, const Cell &c) {
  char b[64];
  switch (f.kind) {
    case lg::K_SCALED: { int w = f.sW ? f.sW : f.pW; snprintf(b, sizeof b, "%llu", (u64)c.code & maskBits(8 * w)); return b; }
    case lg::K_TEXT: return textCode(f, c.v.s);
    default: snprintf(b, sizeof b, "%llu", (u64)c.v.i & maskBits(f.typeBits ? f.typeBits : 64)); return b;
  }
}
// inverse of inCode (replay): code text -> cell
static Cell cellOf(const lg::Pair &p, const lg::Field &f, const std::string &t, const char *cls) {
  Cell c; c.code = 0; c.cls = cls;
  if (f.kind == lg::K_TEXT) {
    std::vector<unsigned char> b = unhex(t.size() > 1 ? t.substr(1) : std::string("-"));
    std::string s(b.begin(), b.end());
    size_t cut = s.find_first_of(std::string("@\xff", 2)); if (cut != std::string::npos) s.resize(cut);
    c.v.s = s; return c;
  }
  u64 u = strtoull(t.c_str(), nullptr, 10);
  if (f.kind == lg::K_SCALED) {
    int w = f.sW ? f.sW : f.pW; bool s = f.sW ? f.sSigned : f.pSigned;
    long long code = (long long)u;
    if (s && w < 8 && (u >> (8 * w - 1)) & 1) code = (long long)(u | ~maskBits(8 * w));
    setScaled(p, f, c, code, code == naCode(w, s), cls);
    return c;
  }
  long long v = (long long)u;
  if (f.kind == lg::K_SINT && f.typeBits < 64 && ((u >> (f.typeBits - 1)) & 1)) v = (long long)(u | ~maskBits(f.typeBits));
  c.v.i = v; c.code = v; return c;
}
static bool isNA(double d) { return d == NA_D; }
static std::string outCode(const lg::Pair &p, const lg::Field &f, const lg::Val &v) {
  char b[64];
  if (f.kind == lg::K_SCALED) {
    int w = f.pW; bool s = f.pSigned; double res = f.pRes;
    if (w == 0) return "?";
    long long code;
    if (isNA(v.d)) code = naCode(w, s);
    else code = llround(((excOf(p, f) & 8) ? v.d - 1.0 : v.d) / res);
    snprintf(b, sizeof b, "%llu", (u64)code & maskBits(8 * w)); return b;
  }
  snprintf(b, sizeof b, "%llu", (u64)v.i & maskBits(f.pTypeBits ? f.pTypeBits : 64)); return b;
}

// class of a value, from the value alone (so that a replayed line reports under the same key)
static const char *classOf(const lg::Pair &p, const lg::Field &f, const Cell &c) {
  int ex = excOf(p, f);
  switch (f.kind) {
    case lg::K_SCALED: {
      int w = f.sW ? f.sW : f.pW; bool s = f.sW ? f.sSigned : f.pSigned;
      if (w == 0) return "rand";
      if (c.v.d == NA_D) return "NA";
      if (c.code == 0) return "zero";
      if (c.code == 1) return "one";
      if (ex & 8) return c.code == 252 ? "max" : "rand";
      if (c.code == maxCode(w, s)) return "max";
      if (w < 8 && c.code == maxCode(w, s) + 1) return "big";
      if (s && c.code == minCode(w, s)) return "min";
      return c.code < 0 ? "neg" : "rand"; }
    case lg::K_UINT: {
      int W = intWidth(f); if (ex & 4) W = 12;
      u64 m = maskBits(W), v = (u64)c.v.i;
      if (v == 0) return "zero";
      if (v == 1) return "one";
      if (v == m) return (W == f.typeBits || (ex & 1)) ? "NA" : "max";
      if (v == m - 1) return "big";
      if ((v & (v - 1)) == 0) return "bit";
      return "rand"; }
    case lg::K_SINT: {
      int W = intWidth(f);
      if (W < f.typeBits) return c.v.i == 0 ? "zero" : ((u64)c.v.i == maskBits(W) ? "max" : "rand");
      long long hi = (long long)(maskBits(W) >> 1), lo = -hi - 1;
      if (c.v.i == 0) return "zero";
      if (c.v.i == 1) return "one";
      if (c.v.i == hi) return "NA";
      if (c.v.i == hi - 1) return "big";
      if (c.v.i == lo) return "min";
      return c.v.i < 0 ? "neg" : "rand"; }
    case lg::K_ENUM:
      for (int i = 0; i < f.nEnum; i++) if (f.enumerators[i] == c.v.i) return "enum";
      return "pattern";
    case lg::K_BOOL: return "flag";
    case lg::K_UNION: {
      u64 m = maskBits(f.W), v = (u64)c.v.i;
      if (v == 0) return "zero";
      if (v == m) return "max";
      if ((v & (v - 1)) == 0) return "bit";
      return "rand"; }
    case lg::K_TEXT: {
      int n = textWidth(f); size_t l = c.v.s.size();
      for (unsigned char ch : c.v.s) if (ch >= 0x80) return "unicode";
      return l == 0 ? "empty" : l == 1 ? "one" : (int)l == n ? "full" : (int)l > n ? "long" : "rand"; }
  }
  return "rand";
}

// ---- state between the `set` and the `parse` of a case
struct Last { std::vector<Cell> in; std::string payloadHex; bool valid = false; };
static std::map<std::string, Last> g_last;
static const lg::Pair *pairOf(const std::string &id) { for (int i = 0; i < lg::nPairs; i++) if (id == lg::pairs[i].id) return &lg::pairs[i]; return nullptr; }
static std::string key(const lg::Pair &p, const char *field, const char *cls) { return std::string("C05:") + p.id + ":" + field + ":" + cls; }

static void checkUb(const lg::Pair &p, int before, const char *where) {
  if (g_ub != before) C.fail(std::string("C05:") + p.id + ":ub", "undefined conversion reported by the sanitizer in %s", where);
}

// which layout the Lean driver uses for this tuple / this message (formatting of the correspondence line only):
// the path variant whose parameter condition holds, resp. whose payload constants are present; last = the pair itself
static const lg::Variant &variantForSet(const lg::Pair &p, const lg::Val *v) {
  for (int k = 0; k + 1 < p.nv; k++) if (p.v[k].cond && p.v[k].cond(v)) return p.v[k];
  return p.v[p.nv - 1];
}
static const lg::Variant &variantForParse(const lg::Pair &p, const std::vector<unsigned char> &b) {
  for (int k = 0; k + 1 < p.nv; k++) {
    bool ok = true;
    for (const int *g = p.v[k].guard; *g >= 0; g += 2) {
      int bit = ((size_t)(g[0] / 8) < b.size()) ? ((b[g[0] / 8] >> (g[0] % 8)) & 1) : 0;
      if (bit != g[1]) ok = false;
    }
    if (ok) return p.v[k];
  }
  return p.v[p.nv - 1];
}

static void execSet(const lg::Pair &p, const std::vector<std::string> &w, const std::vector<const char *> *classes) {
  Last &L = g_last[p.id]; L.in.clear(); L.valid = false;
  std::vector<lg::Val> v(p.nf);
  for (int i = 0; i < p.nf; i++) {
    std::string t = (size_t)(i + 2) < w.size() ? w[i + 2] : "0";
    Cell c = cellOf(p, p.f[i], t, "rand");
    c.cls = classOf(p, p.f[i], c);
    v[i] = c.v; L.in.push_back(c);
  }
  tN2kMsg m; int ub0 = g_ub;
  p.set(m, v.data());
  checkUb(p, ub0, "the setter");
  // the setter's output must not depend on the history of the message object: the same call on an object that
  // already holds (1) a message of the SAME PGN with other values, (2) a message of ANOTHER PGN, (3) arbitrary
  // content with the same PGN already stored - always the bytes of the fresh object (self-contained: replays)
  {
    std::vector<lg::Val> z(p.nf);                       // all-zero tuple, empty strings
    const lg::Pair *other = nullptr;
    for (int k = 0; k < lg::nPairs && !other; k++) if (lg::pairs[k].pgn != p.pgn) other = &lg::pairs[k];
    for (int h = 0; h < 3; h++) {
      tN2kMsg r;
      if (h == 0) { p.set(r, z.data()); }
      else if (h == 1 && other) { std::vector<lg::Val> zo(other->nf); other->set(r, zo.data()); }
      else { r.PGN = p.pgn; r.DataLen = 40; memset(r.Data, 0xa5, 40); r.Priority = 1; }
      p.set(r, v.data());
      C.count("history_checks");
      if (r.PGN != m.PGN || r.DataLen != m.DataLen || memcmp(r.Data, m.Data, m.DataLen) || r.Priority != m.Priority)
        C.fail(key(p, "history", h == 0 ? "same-pgn" : h == 1 ? "other-pgn" : "stale"),
               "setter on a used message object gives PGN %lu, %d bytes %s; on a fresh one PGN %lu, %d bytes %s", r.PGN, r.DataLen,
               hex(r.Data, std::min(r.DataLen, 223)).c_str(), m.PGN, m.DataLen, hex(m.Data, m.DataLen).c_str());
    }
  }
  L.payloadHex = hex(m.Data, m.DataLen); L.valid = true;
  if (m.PGN != p.pgn) C.fail(key(p, "guard", "setpgn"), "setter produced PGN %lu", m.PGN);
  // what the model prints
  const lg::Variant &V = variantForSet(p, v.data());
  if (V.id != p.id) C.count(std::string("variant_") + V.id);
  if (!V.modelSetter) { C.out("untranslated"); return; }
  int n = V.modelPrefixBytes >= 0 ? std::min(V.modelPrefixBytes, m.DataLen) : m.DataLen;
  std::string o;
  static const char *d = "0123456789abcdef";
  for (int i = 0; i < n; i++) {
    bool unk = false; for (int k = 0; k < V.nUnk; k++) if (V.unkBytes[k] == i) unk = true;
    if (unk) o += "??"; else { o += d[m.Data[i] >> 4]; o += d[m.Data[i] & 15]; }
  }
  if (o.empty()) o = "-";
  if (V.modelPrefixBytes >= 0) o += "+";
  C.outs(o);
}

static void fillMsg(tN2kMsg &m, unsigned long pgn, const std::vector<unsigned char> &b, u64 junkSeed) {
  m.SetPGN(pgn); m.PGN = pgn;
  Rng j(junkSeed);
  for (int i = 0; i < tN2kMsg::MaxDataLen; i++) m.Data[i] = (unsigned char)j.next();
  m.DataLen = (int)std::min<size_t>(b.size(), tN2kMsg::MaxDataLen);
  for (int i = 0; i < m.DataLen; i++) m.Data[i] = b[i];
}

static bool sameVal(const lg::Field &f, const lg::Val &a, const lg::Val &b) {
  if (f.kind == lg::K_SCALED) return memcmp(&a.d, &b.d, sizeof(double)) == 0;
  if (f.kind == lg::K_TEXT) return a.s == b.s;
  return a.i == b.i;
}

static void execParse(const lg::Pair &p, const std::vector<std::string> &w, const std::string &line) {
  unsigned long pgn = strtoul(w[2].c_str(), nullptr, 10);
  std::vector<unsigned char> bytes = unhex(w.size() > 3 ? w[3] : std::string("-"));
  u64 js = Ctx::hash(line);
  tN2kMsg m; fillMsg(m, pgn, bytes, js);
  std::vector<lg::Val> v(p.nf), v2(p.nf);
  // `cap=a,b,…`: the size the caller passes for each caller-sized text buffer (in field order); default 300
  std::vector<int> caps(p.nf, 300); bool capsGiven = false;
  if (w.size() > 4 && w[4].compare(0, 4, "cap=") == 0) {
    capsGiven = true; size_t pos = 4;
    for (int i = 0; i < p.nf && pos <= w[4].size(); i++) if (p.f[i].sizedBuf) {
      caps[i] = atoi(w[4].c_str() + pos); size_t c = w[4].find(',', pos); pos = c == std::string::npos ? w[4].size() + 1 : c + 1;
    }
  }
  for (int i = 0; i < p.nf; i++) { v[i].cap = caps[i]; v2[i].cap = caps[i]; }
  int ub0 = g_ub;
  bool ok = p.parse(m, v.data());
  checkUb(p, ub0, "the parser");
  // model line
  const lg::Variant &V = variantForParse(p, bytes);
  if (!V.modelParser) C.out("untranslated");
  else if (!ok) C.out("refuse");
  else {
    std::string o;
    for (int i = 0; i < p.nf; i++) {
      if (V.modelOut[i] == 0) continue;
      if (!o.empty()) o += " ";
      o += V.modelOut[i] == 2 ? std::string("?") : outCode(p, p.f[i], v[i]);
    }
    C.outs(o.empty() ? "ok" : o);
  }
  // ---- oracle
  if (pgn != p.pgn) {
    C.count("foreign_pgn_parses");
    if (ok) C.fail(key(p, "guard", "foreign"), "parser accepted PGN %lu", pgn);
    return;
  }
  Last &L = g_last[p.id];
  if (!L.valid || L.payloadHex != (w.size() > 3 ? w[3] : std::string("-"))) { C.count("parse_without_matching_set"); return; }
  if (!ok) { C.fail(key(p, "guard", "accept"), "parser refused the message its own setter produced"); return; }
  // junk independence: same message, different junk behind the payload
  tN2kMsg m2; fillMsg(m2, pgn, bytes, js ^ 0x5bd1e995ULL);
  bool ok2 = p.parse(m2, v2.data());
  for (int i = 0; i < p.nf; i++) if (v[i].overrun || v2[i].overrun) { /* reported per field below */ }
  for (int i = 0; i < p.nf; i++)
    if (p.f[i].inParser && (!ok2 || !sameVal(p.f[i], v[i], v2[i]))) C.fail(key(p, p.f[i].name, "junk"), "result depends on bytes behind the payload length");
  // truncation: the same message cut to EVERY shorter length, parsed twice with different garbage behind DataLen -
  // return value and every output must be identical (a getter whose bound check is off by one reads the garbage)
  {
    std::vector<lg::Val> a(p.nf), b(p.nf);
    for (size_t L = 0; L < bytes.size(); L++) {
      std::vector<unsigned char> cut(bytes.begin(), bytes.begin() + L);
      tN2kMsg ma, mb; fillMsg(ma, pgn, cut, js + 1); fillMsg(mb, pgn, cut, js + 1);
      for (int i = (int)L; i < tN2kMsg::MaxDataLen; i++) mb.Data[i] = (unsigned char)~ma.Data[i];
      for (int i = 0; i < p.nf; i++) { a[i] = lg::Val(); b[i] = lg::Val(); }
      bool ra = p.parse(ma, a.data()), rb = p.parse(mb, b.data());
      bool same = ra == rb;
      const char *which = "return value";
      for (int i = 0; same && i < p.nf; i++) if (p.f[i].inParser && !sameVal(p.f[i], a[i], b[i])) { same = false; which = p.f[i].name; }
      C.count("truncated_parses");
      if (!same) { C.fail(std::string("C05:") + p.id + ":junk-dependent", "payload cut to %zu of %zu bytes: %s depends on the bytes behind DataLen", L, bytes.size(), which); break; }
    }
  }
  // dependency: fields of PGN 129029 only transmitted with exactly one reference station
  bool oneStation = true;
  for (int i = 0; i < p.nf; i++) if (excOf(p, p.f[i]) & 1) oneStation = (L.in[i].v.i == 1);
  for (int i = 0; i < p.nf; i++) {
    const lg::Field &f = p.f[i];
    if (!f.inSetter || !f.inParser) continue;
    if ((excOf(p, f) & 2) && !oneStation) continue;
    const Cell &in = L.in[i];
    C.nontrivial(std::string(p.id) + "/" + f.name + "/" + in.cls);
    C.count(std::string("field_checks_") + in.cls);
    if (f.kind == lg::K_SCALED) {
      double res = f.sRes;
      if (isNA(in.v.d)) { if (!isNA(v[i].d)) C.fail(key(p, f.name, in.cls), "NA set, %.17g parsed", v[i].d); continue; }
      if (isNA(v[i].d)) { C.fail(key(p, f.name, in.cls), "%.17g (code %lld) set, NA parsed", in.v.d, in.code); continue; }
      double tol = res / 2 + 4 * (nextafter(fabs(in.v.d), INFINITY) - fabs(in.v.d));
      if (!(fabs(v[i].d - in.v.d) <= tol)) C.fail(key(p, f.name, in.cls), "%.17g (code %lld) set, %.17g parsed, resolution %g", in.v.d, in.code, v[i].d, res);
    } else if (f.kind == lg::K_TEXT) {
      std::string want = in.v.s;
      if (f.textLen > 0 && (int)want.size() > f.textLen) want.resize(f.textLen);
      bool nonAscii = false; for (unsigned char ch : want) if (ch >= 0x80) nonAscii = true;
      if (nonAscii && capsGiven) continue;       // (a small buffer may cut inside a multi-byte character: judged with large buffers only)
      if (f.sizedBuf) {
        // each string against ITS OWN buffer size: cut to size-1 characters and terminated; nothing behind the buffer
        // may be written; a buffer of size 0 is not touched at all
        if (v[i].overrun) { C.fail(key(p, f.name, "overrun"), "text '%s' into a buffer of %d bytes: bytes behind the buffer were written", want.c_str(), caps[i]); continue; }
        if (v[i].unterminated) { C.fail(key(p, f.name, "unterminated"), "text '%s' into a buffer of %d bytes is not terminated", want.c_str(), caps[i]); continue; }
        if (caps[i] == 0) continue;
        if ((int)want.size() > caps[i] - 1) want.resize(caps[i] - 1);
        C.count(capsGiven ? "sized_buffer_checks" : "default_buffer_checks");
      }
      if (v[i].s != want) C.fail(key(p, f.name, capsGiven ? "bufsize" : in.cls), "text '%s' expected (buffer %d bytes), '%s' parsed", want.c_str(), caps[i], v[i].s.c_str());
    } else {
      if (v[i].i != in.v.i) C.fail(key(p, f.name, in.cls), "%lld set, %lld parsed", in.v.i, v[i].i);
    }
  }
}


// =====================================================================================================================
// Repeated-record PGNs (outside the layout language: Append... builders, loops) - DIRECT oracle only.
// ops (all answer `no-layout` on both sides; everything is derived from <seed>, so a line replays exactly):
//   sat <n> <seed>    PGN 129540: SetN2kPGN129540 + n x AppendN2kPGN129540 (n = 0..19), header parser + per-record parser
//   wp <kind> <n> <seed>  kind 129285 | 130074: Set + n x Append, decoded by an independent reader of the published format
//   pgns <n> <seed>   PGN 126464 with n PGNs (n = 0..74), decoded independently
//   bank <seed>       N2kSetStatusBinaryOnStatus / N2kGetStatusOnBinaryStatus over items 0..29, and through PGN 127501
// Keys C05:<pgn>:records:<kind>: count (number of records reported), refused (a record that was appended is not
// returned), value (a field of a record differs), beyond (an index behind the last record is accepted), overflow (the
// record after the last one that fits is accepted, or its refusal changes the message), append (Append refuses a
// record although the documented maximum is not reached).
static std::string rkey(const char *pgn, const char *kind) { return std::string("C05:") + pgn + ":records:" + kind; }
static long long scode(double v, double res) { return v == NA_D ? (long long)0x7fffffffffffffffLL : llround(v / res); }

static void execSat(const std::vector<std::string> &w) {
  int n = atoi(w[1].c_str()); Rng r(strtoull(w[2].c_str(), nullptr, 10) * 0x9E3779B97F4A7C15ULL + 7);
  const int MAXSV = 18;                                   // documented: a fast packet holds at most 18 satellites
  unsigned char sid = (unsigned char)r.below(253); int mode = (int)r.below(4);
  tN2kMsg m; SetN2kPGN129540(m, sid, (tN2kRangeResidualMode)mode);
  std::vector<tSatelliteInfo> sv;
  for (int i = 0; i < n; i++) {
    tSatelliteInfo s;
    s.PRN = (unsigned char)r.below(253);
    s.Elevation = r.chance(1, 8) ? NA_D : (double)r.range(-15707, 15707) * 1e-4;
    s.Azimuth = r.chance(1, 8) ? NA_D : (double)r.range(0, 62831) * 1e-4;
    s.SNR = r.chance(1, 8) ? NA_D : (double)r.range(0, 9900) * 1e-2;
    s.RangeResiduals = r.chance(1, 8) ? NA_D : (double)r.range(-2000000000LL, 2000000000LL) * 1e-5;
    s.UsageStatus = (tN2kPRNUsageStatus)r.below(16);
    tN2kMsg before = m;
    bool ok = AppendN2kPGN129540(m, s);
    if (i < MAXSV) {
      if (!ok) C.fail(rkey("129540", "append"), "satellite %d of %d refused", i + 1, n);
      else sv.push_back(s);
    } else {
      if (ok) C.fail(rkey("129540", "overflow"), "satellite %d accepted (maximum %d)", i + 1, MAXSV);
      else if (m.DataLen != before.DataLen || memcmp(m.Data, before.Data, before.DataLen))
        C.fail(rkey("129540", "overflow"), "refusing satellite %d changed the message", i + 1);
    }
  }
  // junk behind the payload
  for (int i = m.DataLen; i < tN2kMsg::MaxDataLen; i++) m.Data[i] = (unsigned char)r.next();
  unsigned char psid = 0; tN2kRangeResidualMode pmode = (tN2kRangeResidualMode)0; uint8_t cnt = 0;
  if (!ParseN2kPGN129540(m, psid, pmode, cnt)) C.fail(rkey("129540", "refused"), "header refused");
  else {
    if (psid != sid || (int)pmode != mode) C.fail(rkey("129540", "value"), "header SID %d/%d mode %d/%d", sid, psid, mode, (int)pmode);
    if (cnt != sv.size()) C.fail(rkey("129540", "count"), "%zu satellites appended, %d reported", sv.size(), cnt);
  }
  for (size_t i = 0; i < sv.size(); i++) {
    tSatelliteInfo g; memset(&g, 0, sizeof g);
    if (!ParseN2kPGN129540(m, (uint8_t)i, g)) { C.fail(rkey("129540", "refused"), "record %zu of %zu refused", i, sv.size()); continue; }
    const tSatelliteInfo &s = sv[i];
    if (g.PRN != s.PRN || g.UsageStatus != s.UsageStatus || scode(g.Elevation, 1e-4) != scode(s.Elevation, 1e-4) ||
        scode(g.Azimuth, 1e-4) != scode(s.Azimuth, 1e-4) || scode(g.SNR, 1e-2) != scode(s.SNR, 1e-2) ||
        scode(g.RangeResiduals, 1e-5) != scode(s.RangeResiduals, 1e-5))
      C.fail(rkey("129540", "value"), "record %zu of %zu: PRN %d/%d usage %d/%d elev %.5f/%.5f az %.5f/%.5f snr %.3f/%.3f rr %.6f/%.6f", i, sv.size(),
             s.PRN, g.PRN, (int)s.UsageStatus, (int)g.UsageStatus, s.Elevation, g.Elevation, s.Azimuth, g.Azimuth, s.SNR, g.SNR, s.RangeResiduals, g.RangeResiduals);
    C.count("record_checks");
  }
  for (int k : {0, 1, 200}) {
    size_t i = sv.size() + k; if (i > 255) continue;
    tSatelliteInfo g; memset(&g, 0, sizeof g);
    if (ParseN2kPGN129540(m, (uint8_t)i, g)) C.fail(rkey("129540", "beyond"), "record %zu accepted, message holds %zu", i, sv.size());
    else if (g.PRN != 0xff || g.Elevation != NA_D || g.Azimuth != NA_D || g.SNR != NA_D || g.RangeResiduals != NA_D)
      C.fail(rkey("129540", "beyond"), "refused record %zu is not reported as not available", i);
  }
  tN2kMsg f = m; f.PGN = 129539UL;
  { tSatelliteInfo g; if (ParseN2kPGN129540(f, 0, g) || ParseN2kPGN129540(f, psid, pmode, cnt)) C.fail("C05:129540:guard:foreign", "parser accepted PGN 129539"); }
  C.nontrivial("sat/" + std::to_string(n));
}

// independent reader of the published waypoint-list formats
struct Rd { const unsigned char *d; int len, i; bool bad;
  unsigned u(int n) { unsigned v = 0; for (int k = 0; k < n; k++) { if (i >= len) { bad = true; return 0; } v |= (unsigned)d[i++] << (8 * k); } return v; }
  std::string var(bool nulForEmpty) { unsigned L = u(1), T = u(1); std::string s; if (L < 2 || T != 1) { bad = true; return s; }
    for (unsigned k = 2; k < L; k++) s += (char)u(1);
    if (nulForEmpty && s.size() == 1 && s[0] == 0) s.clear();
    return s; } };

static void execWp(const std::vector<std::string> &w) {
  bool route = w[1] == "129285"; const char *pg = route ? "129285" : "130074";
  int n = atoi(w[2].c_str()); Rng r(strtoull(w[3].c_str(), nullptr, 10) * 0x9E3779B97F4A7C15ULL + 11);
  unsigned start = (unsigned)r.below(65533), db = (unsigned)r.below(65533), rt = (unsigned)r.below(65533);
  std::string rname = randText(r, (int)r.below(9));
  tN2kMsg m;
  if (route) SetN2kPGN129285(m, start, db, rt, (tN2kNavigationDirection)r.below(4), rname.c_str(), (tN2kGenericStatusPair)r.below(4));
  else SetN2kPGN130074(m, start, rt, db);
  struct Wp { unsigned id; std::string name; long long lat, lon; };
  std::vector<Wp> ok;
  for (int i = 0; i < n; i++) {
    Wp x; x.id = (unsigned)r.below(65533); x.name = randText(r, (int)r.below(7));
    x.lat = r.range(-900000000LL, 900000000LL); x.lon = r.range(-1800000000LL, 1800000000LL);
    tN2kMsg before = m; std::vector<char> nm(x.name.begin(), x.name.end()); nm.push_back(0);
    bool a = route ? AppendN2kPGN129285(m, x.id, nm.data(), x.lat * 1e-7, x.lon * 1e-7) : AppendN2kPGN130074(m, x.id, nm.data(), x.lat * 1e-7, x.lon * 1e-7);
    int need = 2 + 2 + (int)std::max<size_t>(x.name.size(), route ? 0 : 1) + 8;
    if (a) ok.push_back(x);          // (a shorter record may still fit after a longer one was refused)
    else {
      if (before.DataLen + need + 24 < tN2kMsg::MaxDataLen) C.fail(rkey(pg, "append"), "record %d refused with %d bytes used", i + 1, before.DataLen);
      if (m.DataLen != before.DataLen || memcmp(m.Data, before.Data, before.DataLen)) C.fail(rkey(pg, "overflow"), "refusing record %d changed the message", i + 1);
    }
  }
  if (m.DataLen > tN2kMsg::MaxDataLen) { C.fail(rkey(pg, "overflow"), "DataLen %d", m.DataLen); return; }
  Rd rd = {m.Data, m.DataLen, 0, false};
  unsigned s0 = rd.u(2), cnt = rd.u(2);
  if (route) { rd.u(2); rd.u(2); rd.u(1); rd.var(false); rd.u(1); } else { rd.u(2); rd.u(2); rd.u(2); }
  if (s0 != start) C.fail(rkey(pg, "value"), "start %u/%u", start, s0);
  if (cnt != ok.size()) C.fail(rkey(pg, "count"), "%zu records appended, count field %u", ok.size(), cnt);
  for (size_t i = 0; i < ok.size() && !rd.bad; i++) {
    unsigned id = rd.u(2); std::string nm = rd.var(!route); long long la = (int)rd.u(4), lo = (int)rd.u(4);
    if (rd.bad) break;
    if (id != ok[i].id || nm != ok[i].name || la != ok[i].lat || lo != ok[i].lon)
      C.fail(rkey(pg, "value"), "record %zu: id %u/%u name '%s'/'%s' lat %lld/%lld lon %lld/%lld", i, ok[i].id, id, ok[i].name.c_str(), nm.c_str(), ok[i].lat, la, ok[i].lon, lo);
    C.count("record_checks");
  }
  if (rd.bad) C.fail(rkey(pg, "refused"), "message with %zu records cannot be read back (%d bytes)", ok.size(), m.DataLen);
  else if (rd.i != m.DataLen) C.fail(rkey(pg, "count"), "%d bytes left behind the last record", m.DataLen - rd.i);
  C.nontrivial(std::string(pg) + "/" + std::to_string(ok.size()));
}

static void execPgns(const std::vector<std::string> &w) {
  int n = std::min(atoi(w[1].c_str()), 74); Rng r(strtoull(w[2].c_str(), nullptr, 10) * 0x9E3779B97F4A7C15ULL + 13);
  std::vector<unsigned long> l; for (int i = 0; i < n; i++) l.push_back(1 + r.below((1UL << 24) - 1)); l.push_back(0);
  int tr = (int)r.below(2);
  tN2kMsg m; SetN2kPGN126464(m, 255, (tN2kPGNList)tr, l.data());
  if (m.PGN != 126464UL || m.DataLen != 1 + 3 * n) { C.fail(rkey("126464", "count"), "%d PGNs, %d bytes", n, m.DataLen); return; }
  if (m.Data[0] != tr) C.fail(rkey("126464", "value"), "function code %d/%d", tr, m.Data[0]);
  for (int i = 0; i < n; i++) {
    unsigned long v = m.Data[1 + 3 * i] | (m.Data[2 + 3 * i] << 8) | ((unsigned long)m.Data[3 + 3 * i] << 16);
    if (v != l[i]) C.fail(rkey("126464", "value"), "entry %d: %lu/%lu", i, l[i], v);
    C.count("record_checks");
  }
  C.nontrivial("pgns/" + std::to_string(n));
}

static void execBank(const std::vector<std::string> &w) {
  Rng r(strtoull(w[1].c_str(), nullptr, 10) * 0x9E3779B97F4A7C15ULL + 17);
  tN2kBinaryStatus b; N2kResetBinaryStatus(b);
  int want[29]; for (int i = 1; i <= 28; i++) want[i] = 3;
  for (int k = 0; k < 60; k++) {
    int item = (int)r.below(31), st = (int)r.below(4);          // items 0, 29, 30 do not exist
    tN2kBinaryStatus before = b;
    N2kSetStatusBinaryOnStatus(b, (tN2kOnOff)st, (uint8_t)item);
    if (item >= 1 && item <= 28) want[item] = st;
    else if (b != before) C.fail(rkey("127501", "overflow"), "setting item %d changed the bank", item);
  }
  unsigned char inst = (unsigned char)r.below(253);
  tN2kMsg m; SetN2kPGN127501(m, inst, b);
  unsigned char pinst = 0; tN2kBinaryStatus pb = 0;
  if (!ParseN2kPGN127501(m, pinst, pb)) { C.fail(rkey("127501", "refused"), "parser refused"); return; }
  if (pinst != inst) C.fail(rkey("127501", "value"), "instance %d/%d", inst, pinst);
  for (int i = 1; i <= 28; i++) {
    int g = (int)N2kGetStatusOnBinaryStatus(pb, (uint8_t)i);
    if (g != want[i]) C.fail(rkey("127501", "value"), "item %d: %d set, %d read", i, want[i], g);
    C.count("record_checks");
  }
  for (int i : {0, 29, 30, 255}) if (N2kGetStatusOnBinaryStatus(pb, (uint8_t)i) != N2kOnOff_Unavailable) C.fail(rkey("127501", "beyond"), "item %d exists", i);
  C.nontrivial("bank");
}

static bool execRecords(const std::string &line) {
  std::vector<std::string> w = split(line);
  if (w.empty()) return false;
  bool sat = w[0] == "sat" && w.size() == 3, wp = w[0] == "wp" && w.size() == 4, pg = w[0] == "pgns" && w.size() == 3, bk = w[0] == "bank" && w.size() == 2;
  if (!(sat || wp || pg || bk)) return false;
  C.op("%s", line.c_str()); C.cases++;
  int ub0 = g_ub;
  if (sat) execSat(w); else if (wp) execWp(w); else if (pg) execPgns(w); else execBank(w);
  if (g_ub != ub0) C.fail(std::string("C05:") + w[0] + ":ub", "undefined conversion reported by the sanitizer");
  C.out("no-layout");
  return true;
}

static void exec(const std::string &line, const std::vector<const char *> *classes = nullptr) {
  if (execRecords(line)) return;
  C.op("%s", line.c_str());
  std::vector<std::string> w = split(line);
  const lg::Pair *p = w.size() >= 2 ? pairOf(w[1]) : nullptr;
  if (!p) { C.out("unknown-pair"); return; }
  if (w[0] == "set") { C.cases++; execSet(*p, w, classes); }
  else if (w[0] == "parse" && w.size() >= 3 && p->parse) execParse(*p, w, line);
  else C.out("bad-op");
}

// one case: set, parse, (sometimes) parse under a foreign PGN
static void runCase(const lg::Pair &p, const std::vector<Cell> &cells, Rng &r, bool foreign) {
  std::string s = std::string("set ") + p.id;
  std::vector<const char *> cls;
  for (int i = 0; i < p.nf; i++) { s += " " + inCode(p, p.f[i], cells[i]); cls.push_back(cells[i].cls); }
  exec(s, &cls);
  const std::string hexp = g_last[p.id].payloadHex;
  exec(std::string("parse ") + p.id + " " + std::to_string(p.pgn) + " " + hexp);
  {
    // caller-sized text buffers: an independent size per buffer (0, 1, 2, around the text, around the field width, large)
    std::string caps; int n = 0;
    for (int i = 0; i < p.nf; i++) if (p.f[i].sizedBuf) {
      int wdt = textWidth(p.f[i]), len = (int)cells[i].v.s.size();
      int choices[] = {0, 1, 2, len, len + 1, len + 2, wdt, wdt + 1, wdt + 7, 300, (int)r.below(40), (int)r.below(300)};
      caps += (n++ ? "," : "") + std::to_string(std::max(0, choices[r.below(12)]));
    }
    if (n) for (int k = 0; k < 2; k++) {
      exec(std::string("parse ") + p.id + " " + std::to_string(p.pgn) + " " + hexp + " cap=" + caps);
      // second round: a different size for every buffer
      std::string c2; int m_ = 0;
      for (int i = 0; i < p.nf; i++) if (p.f[i].sizedBuf) c2 += (m_++ ? "," : "") + std::to_string((int)r.below(2) ? (int)r.below(48) : 1 + (int)r.below(4));
      caps = c2;
    }
  }
  if (foreign) {
    static const unsigned long others[] = {0, 59904, 60928, 126996, 127250, 129029, 130306, 65286, 130823};
    unsigned long o = r.chance(1, 2) ? others[r.below(9)] : (r.chance(1, 2) ? p.pgn + 1 : p.pgn - 1);
    if (r.chance(1, 4)) o = (unsigned long)r.below(1UL << 18);
    if (o == p.pgn) o ^= 1;
    exec(std::string("parse ") + p.id + " " + std::to_string(o) + " " + hexp);
  }
}

#ifndef LAYOUT_NO_MAIN
int main(int argc, char **argv) {
  // UBSAN_OPTIONS of the caller asks for halt_on_error; this harness wants the recoverable float-cast report to be
  // counted per input (see __ubsan_on_report above). Runtime options are read at start-up, hence the re-exec.
  if (!getenv("N2K_LAYOUT_REEXEC")) {
    setenv("N2K_LAYOUT_REEXEC", "1", 1);
    setenv("UBSAN_OPTIONS", "print_stacktrace=0:halt_on_error=0", 1);
    execv("/proc/self/exe", argv);
  }
  C.init(argc, argv);
  C.rule = "per pair: base tuple, every special value of every field one at a time (zero, one, min, max, negative, "
           "largest representable, NA, every enumerator and bit pattern of packed fields, single bits), all-NA / "
           "all-zero / all-max tuples, random tuples; every case parsed with junk behind the payload, a third also "
           "under a foreign PGN";
  if (!C.replay.empty()) {
    for (auto &l : readLines(C.replay)) exec(l);
    C.finish(); return 0;
  }
  Rng r(C.seed * 0x9E3779B97F4A7C15ULL ^ 0xC05C05ULL);
  int nRandom = C.thorough ? 400 : 40;
  for (int pi = 0; pi < lg::nPairs; pi++) {
    const lg::Pair &p = lg::pairs[pi];
    if (!p.parse) continue;            // setter without a parser: nothing to round-trip (C15 uses these entries)
    std::vector<Cell> base(p.nf);
    for (int i = 0; i < p.nf; i++) base[i] = randomCell(p, p.f[i], r, false);
    long n = 0;
    runCase(p, base, r, true);
    for (int rep = 0; rep < (C.thorough ? 3 : 1); rep++) {
      if (rep) for (int i = 0; i < p.nf; i++) base[i] = randomCell(p, p.f[i], r, false);
      for (int i = 0; i < p.nf; i++) {
        if (!p.f[i].inSetter) continue;
        for (Cell &c : specials(p, p.f[i], r)) {
          std::vector<Cell> t = base; t[i] = c;
          runCase(p, t, r, (n++ % 3) == 0);
        }
      }
    }
    // all fields at the same class
    for (const char *cls : {"NA", "zero", "max", "min", "neg", "big"}) {
      std::vector<Cell> t = base; bool any = false;
      for (int i = 0; i < p.nf; i++) for (Cell &c : specials(p, p.f[i], r)) if (!strcmp(c.cls, cls)) { t[i] = c; any = true; break; }
      if (any) runCase(p, t, r, false);
    }
    for (int k = 0; k < nRandom; k++) {
      std::vector<Cell> t(p.nf);
      for (int i = 0; i < p.nf; i++) t[i] = randomCell(p, p.f[i], r, r.chance(1, 6));
      runCase(p, t, r, (k % 3) == 0);
    }
    C.count("pairs_exercised");
    if (pi < 3) C.sample(std::string("pair ") + p.id + ": " + std::to_string(p.nf) + " fields");
  }
  // repeated-record PGNs: EVERY record count 0..max and max+1, in every tier
  for (int rep = 0; rep < (C.thorough ? 12 : 2); rep++) {
    for (int n = 0; n <= 19; n++) exec("sat " + std::to_string(n) + " " + std::to_string(r.below(1000000)));
    for (const char *k : {"129285", "130074"}) for (int n = 0; n <= 24; n++) exec(std::string("wp ") + k + " " + std::to_string(n) + " " + std::to_string(r.below(1000000)));
    for (int n = 0; n <= 74; n += (rep ? 1 : 1)) exec("pgns " + std::to_string(n) + " " + std::to_string(r.below(1000000)));
    for (int k = 0; k < 10; k++) exec("bank " + std::to_string(r.below(1000000)));
  }
  C.finish();
  return 0;
}
#endif
