#include "NMEA2000.h"
#include <stdio.h>
#include <vector>
static uint32_t now=0xFFFFFF00u;
extern "C" uint32_t millis(){ return now; }
struct Bus: public tNMEA2000 { std::vector<unsigned long> ids;
 bool CANSendFrame(unsigned long id, unsigned char len, const unsigned char *buf, bool) override { ids.push_back(id); printf("t=%u id=%08lx len=%d b0=%02x\n",now,id,len,buf[0]); return true;}
 bool CANOpen() override {return true;} bool CANGetFrame(unsigned long&,unsigned char&,unsigned char*) override {return false;} };
int main(){ Bus b; b.SetMode(tNMEA2000::N2km_NodeOnly,22); b.EnableForward(false); 
 for(int i=0;i<700;i++){ b.ParseMessages(); now++; }
 tN2kMsg m; m.SetPGN(126208UL); m.Priority=3; m.AddByte(1); m.AddByte(2); m.AddByte(3); printf("send=%d sizeof sched=%zu\n", b.SendMsg(m), sizeof(tN2kScheduler)); return 0; }
