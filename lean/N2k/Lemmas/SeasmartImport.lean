import N2k.Lemmas.SeasmartExport
/-!
# C19 helper lemmas, import side

`importS_eq_parse`: for EVERY string `s`, the memory-level model of `SeasmartToN2k` on the exact-size
object `s ++ [0]` never faults and returns exactly `parse s` (the list-level description in
`Spec/Seasmart.lean`). Each libc call / loop gets its own specification lemma on `d ++ [0]`.
-/
namespace N2k.Seasmart

/-! ## libc-level and loop-level facts on a NUL-terminated object `d ++ [0]` -/

theorem drop_app0 (d : List Nat) (k : Nat) (h : k ≤ d.length) : (d ++ [0]).drop k = d.drop k ++ [0] := by
  rw [List.drop_append_of_le_length h]

theorem rd_app0 (d : List Nat) (i : Nat) (h : i ≤ d.length) : rd (d ++ [0]) i = .ok (d.getD i 0) := by
  unfold rd
  rcases Nat.lt_or_eq_of_le h with h | h
  · simp [List.getElem?_append_left h, pure_eq_ok, List.getD_eq_getElem?_getD, List.getElem?_eq_getElem h]
  · subst h; simp [pure_eq_ok, List.getD_eq_getElem?_getD]

theorem strlenL_app0 (d : List Nat) : strlenL (d ++ [0]) = .ok (d.takeWhile (· ≠ 0)).length := by
  induction d with
  | nil => simp [strlenL, pure_eq_ok]
  | cons c t ih =>
    by_cases hc : c = 0
    · simp [strlenL, hc, pure_eq_ok]
    · simp [strlenL, hc, ih, ok_bind, pure_eq_ok]

theorem strncmpEq_spec (n : Nat) : ∀ (lit s : List Nat), n ≤ lit.length → (∀ c ∈ lit, c ≠ 0) →
    strncmpEq (lit ++ [0]) (s ++ [0]) n = .ok (decide (s.take n = lit.take n)) := by
  induction n with
  | zero => intro lit s _ _; simp [strncmpEq, pure_eq_ok]
  | succ n ih =>
    intro lit s hn hz
    cases lit with
    | nil => simp at hn
    | cons ca ta =>
      have hca : ca ≠ 0 := hz ca (by simp)
      cases s with
      | nil => simp [strncmpEq, hca, pure_eq_ok]
      | cons cb tb =>
        by_cases hab : ca = cb
        · subst hab
          simp only [List.cons_append, strncmpEq, ne_eq, not_true_eq_false, if_false, if_neg hca]
          rw [ih ta tb (by simpa using hn) (fun c hc => hz c (by simp [hc]))]
          simp
        · simp only [List.cons_append, strncmpEq, ne_eq, hab, not_false_eq_true, if_true, pure_eq_ok]
          simp [List.take_succ_cons, hab, eq_comm]

theorem scanLoop_app0 (d : List Nat) :
    scanLoop (d ++ [0]) = .ok (d.takeWhile fun c => decide (c ≠ 0 ∧ c ≠ 42)).length := by
  induction d with
  | nil => simp [scanLoop, pure_eq_ok]
  | cons c t ih =>
    by_cases hc : c ≠ 0 ∧ c ≠ 42
    · simp only [List.cons_append, scanLoop, if_pos hc, ih, ok_bind, pure_eq_ok]
      simp [hc]
    · simp only [List.cons_append, scanLoop, if_neg hc, pure_eq_ok]
      simp [hc]

theorem hexLoop_spec (s : List Nat) (k : Nat) : ∀ i, i + k ≤ s.length →
    hexLoop s k i = .ok (((s.drop i).take k).all isxdigit) := by
  induction k with
  | zero => intro i _; simp [hexLoop, pure_eq_ok]
  | succ k ih =>
    intro i h
    have hi : i < s.length := by omega
    have hd : s.drop i = s[i] :: s.drop (i + 1) := List.drop_eq_getElem_cons hi
    simp only [hexLoop, rd, List.getElem?_eq_getElem hi, pure_eq_ok, ok_bind]
    rw [hd, List.take_succ_cons, List.all_cons]
    by_cases hx : isxdigit s[i] = true
    · simp only [hx, Bool.not_true, Bool.false_eq_true, if_false, Bool.true_and]
      exact ih (i + 1) (by omega)
    · simp only [Bool.not_eq_true] at hx
      simp [hx]

theorem strncpy_spec (k : Nat) : ∀ (d : List Nat), k ≤ d.length → (∀ c ∈ d.take k, c ≠ 0) →
    ∃ cp, strncpy (d ++ [0]) (k + 1) = .ok cp ∧ cp.take k = d.take k := by
  induction k with
  | zero =>
    intro d _ _
    cases d with
    | nil => exact ⟨[0], by simp [strncpy, pure_eq_ok], rfl⟩
    | cons c t =>
      by_cases hc : c = 0
      · exact ⟨List.replicate 1 0, by simp only [List.cons_append, strncpy, if_pos hc, pure_eq_ok], by simp⟩
      · exact ⟨[c], by simp [strncpy, hc, pure_eq_ok, ok_bind], by simp⟩
  | succ k ih =>
    intro d hk hz
    cases d with
    | nil => simp at hk
    | cons c t =>
      have hc : c ≠ 0 := hz c (by simp)
      obtain ⟨cp, e, ht⟩ := ih t (by simpa using hk) (fun x hx => hz x (by simp [List.take_succ_cons, hx]))
      refine ⟨c :: cp, ?_, by simp [List.take_succ_cons, ht]⟩
      simp only [List.cons_append, strncpy, if_neg hc, e, ok_bind, pure_eq_ok]


theorem isxdigit_ne_zero {c : Nat} (h : isxdigit c = true) : c ≠ 0 := by
  intro h0; subst h0; simp [isxdigit] at h

theorem isxdigit_ne_42 {c : Nat} (h : isxdigit c = true) : c ≠ 42 := by
  intro h0; subst h0; simp [isxdigit] at h

theorem le_takeWhile_length (p : Nat → Bool) (k : Nat) : ∀ (d : List Nat), k ≤ d.length →
    (∀ c ∈ d.take k, p c = true) → k ≤ (d.takeWhile p).length := by
  induction k with
  | zero => intro d _ _; exact Nat.zero_le _
  | succ k ih =>
    intro d hk hp
    cases d with
    | nil => simp at hk
    | cons c t =>
      have hc : p c = true := hp c (by simp)
      simp only [List.takeWhile_cons, hc, if_true, List.length_cons, Nat.add_le_add_iff_right]
      exact ih t (by simpa using hk) (fun x hx => hp x (by simp [List.take_succ_cons, hx]))

theorem readNHexByte_spec (d : List Nat) (n : Nat) :
    readNHexByte (d ++ [0]) n = .ok (hexField d (2 * n)) := by
  unfold readNHexByte hexField
  rw [strlenL_app0, ok_bind]
  by_cases hL : (d.takeWhile (· ≠ 0)).length < 2 * n
  · rw [if_pos hL, pure_eq_ok]
    congr 1
    rw [if_neg]
    rintro ⟨h1, h2⟩
    have := le_takeWhile_length (· ≠ 0) (2 * n) d h1 (fun c hc => by
      simpa using isxdigit_ne_zero (List.all_eq_true.mp h2 c hc))
    omega
  · rw [if_neg hL]
    have hlen : 2 * n ≤ d.length := by
      have := (List.takeWhile_sublist (fun c : Nat => decide (c ≠ 0)) (l := d)).length_le
      omega
    rw [hexLoop_spec _ _ 0 (by simp; omega), ok_bind]
    have ht : ((d ++ [0]).drop 0).take (2 * n) = d.take (2 * n) := by
      simp [List.take_append_of_le_length hlen]
    rw [ht]
    by_cases hx : (d.take (2 * n)).all isxdigit = true
    · obtain ⟨cp, e, hc⟩ := strncpy_spec (2 * n) d hlen (fun c hc => isxdigit_ne_zero (List.all_eq_true.mp hx c hc))
      simp only [hx, Bool.not_true, Bool.false_eq_true, if_false, e, ok_bind, pure_eq_ok, hc, hlen, and_self, if_true]
    · simp only [Bool.not_eq_true] at hx
      simp [hx, pure_eq_ok]

theorem hexField_some {d : List Nat} {k v : Nat} (h : hexField d k = some v) :
    k ≤ d.length ∧ (d.take k).all isxdigit = true ∧ v = strtol16 (d.take k) % 4294967296 := by
  unfold hexField at h
  split at h
  · rename_i hc; exact ⟨hc.1, hc.2, by injection h with h; exact h.symm⟩
  · cases h

theorem dataLoop_spec (k : Nat) : ∀ (d : List Nat),
    dataLoop k (d ++ [0]) = .ok (match dataSpec k d with
      | none => none
      | some data => some (data, d.drop (2 * k) ++ [0])) := by
  induction k with
  | zero => intro d; simp [dataLoop, dataSpec, pure_eq_ok]
  | succ k ih =>
    intro d
    simp only [dataLoop, dataSpec, readNHexByte_spec, ok_bind]
    cases h : hexField d 2 with
    | none => rfl
    | some b =>
      have h2 := (hexField_some h).1
      simp only [drop_app0 d 2 h2, ih, ok_bind]
      cases dataSpec k (d.drop 2) with
      | none => rfl
      | some data =>
        simp only [pure_eq_ok, List.drop_drop]
        rw [show 2 + 2 * k = 2 * (k + 1) by omega]

theorem cksLoop_mem (l : List Nat) : ∀ (acc : Nat) (t : List Nat), 42 ∈ l →
    cksLoop (l ++ t) acc = .ok ((l.takeWhile (· ≠ 42)).foldl (· ^^^ ·) acc % 256) := by
  induction l with
  | nil => intro _ _ h; simp at h
  | cons c r ih =>
    intro acc t h
    by_cases hc : c = 42
    · subst hc; simp [cksLoop, pure_eq_ok]
    · have hr : 42 ∈ r := by
        rcases List.mem_cons.mp h with h | h
        · exact absurd h.symm hc
        · exact h
      simp only [List.cons_append, cksLoop, if_neg hc, ih _ _ hr]
      simp [hc]


theorem lt_of_getD_ne_zero {d : List Nat} {i : Nat} (h : d.getD i 0 ≠ 0) : i < d.length := by
  apply Decidable.byContradiction
  intro hn
  apply h
  simp only [List.getD_eq_getElem?_getD]
  rw [List.getElem?_eq_none (by omega)]; rfl

theorem mem_of_getD_zero {d : List Nat} {v : Nat} (h : d.getD 0 0 = v) (hv : v ≠ 0) : v ∈ d := by
  cases d with
  | nil => exact absurd h.symm hv
  | cons c t => simp at h; simp [h]

theorem importS_eq_parse (s : List Nat) : importS s = .ok (parse s) := by
  unfold importS importM parse
  simp only []
  rw [strncmpEq_spec 7 pre7 s (by decide) (by decide), ok_bind]
  have hp7 : pre7.take 7 = pre7 := by decide
  rw [hp7]
  by_cases h0 : s.take 7 = pre7
  · have l7 : 7 ≤ s.length := by
      have := congrArg List.length h0
      simp [pre7] at this; omega
    simp only [h0, decide_true, Bool.not_true, Bool.false_eq_true, if_false, ne_eq, not_true_eq_false]
    rw [drop_app0 s 7 l7, readNHexByte_spec]
    simp only [Nat.reduceMul, ok_bind]
    cases h1 : hexField (s.drop 7) 2 with
    | none => rfl
    | some hi =>
      simp only []
      have l1 := (hexField_some h1).1
      rw [drop_app0 _ 2 l1, readNHexByte_spec]
      simp only [Nat.reduceMul, ok_bind]
      cases h2 : hexField ((s.drop 7).drop 2) 4 with
      | none => rfl
      | some lo =>
        simp only []
        have l2 := (hexField_some h2).1
        rw [rd_app0 _ 4 l2, ok_bind]
        by_cases c2 : ((s.drop 7).drop 2).getD 4 0 = 44
        · simp only [c2, not_true_eq_false, if_false]
          have l2' : 5 ≤ ((s.drop 7).drop 2).length := lt_of_getD_ne_zero (by rw [c2]; decide)
          rw [drop_app0 _ 5 l2', readNHexByte_spec]
          simp only [Nat.reduceMul, ok_bind]
          cases h3 : hexField (((s.drop 7).drop 2).drop 5) 8 with
          | none => rfl
          | some tsv =>
            simp only []
            have l3 := (hexField_some h3).1
            rw [rd_app0 _ 8 l3, ok_bind]
            by_cases c3 : (((s.drop 7).drop 2).drop 5).getD 8 0 = 44
            · simp only [c3, not_true_eq_false, if_false]
              have l3' : 9 ≤ (((s.drop 7).drop 2).drop 5).length := lt_of_getD_ne_zero (by rw [c3]; decide)
              rw [drop_app0 _ 9 l3', readNHexByte_spec]
              simp only [Nat.reduceMul, ok_bind]
              cases h4 : hexField ((((s.drop 7).drop 2).drop 5).drop 9) 2 with
              | none => rfl
              | some srcv =>
                simp only []
                have l4 := (hexField_some h4).1
                rw [rd_app0 _ 2 l4, ok_bind]
                by_cases c4 : ((((s.drop 7).drop 2).drop 5).drop 9).getD 2 0 = 44
                · simp only [c4, not_true_eq_false, if_false]
                  have l4' : 3 ≤ ((((s.drop 7).drop 2).drop 5).drop 9).length := lt_of_getD_ne_zero (by rw [c4]; decide)
                  rw [drop_app0 _ 3 l4', scanLoop_app0, ok_bind]
                  generalize hd5 : (((((s.drop 7).drop 2).drop 5).drop 9).drop 3) = d5
                  generalize hk : (List.takeWhile (fun c => decide (¬c = 0 ∧ ¬c = 42)) d5).length = k
                  by_cases e1 : k % 2 = 0
                  · simp only [e1, not_true_eq_false, if_false]
                    by_cases e2 : k / 2 > 223
                    · simp only [e2, if_true]; rfl
                    · simp only [e2, if_false]
                      rw [dataLoop_spec, ok_bind]
                      cases h5 : dataSpec (k / 2) d5 with
                      | none => rfl
                      | some data =>
                        simp only []
                        generalize hd6 : List.drop (2 * (k / 2)) d5 = d6
                        rw [rd_app0 _ 0 (Nat.zero_le _), ok_bind]
                        by_cases c6 : d6.getD 0 0 = 42
                        · simp only [c6, not_true_eq_false, if_false]
                          have l6 : 1 ≤ d6.length := lt_of_getD_ne_zero (by rw [c6]; decide)
                          rw [drop_app0 _ 1 l6, readNHexByte_spec]
                          simp only [Nat.reduceMul, ok_bind]
                          cases h7 : hexField (d6.drop 1) 2 with
                          | none => rfl
                          | some ck =>
                            simp only []
                            have m6 : 42 ∈ d6 := mem_of_getD_zero c6 (by decide)
                            have m1 : 42 ∈ s.drop 1 := by
                              rw [← hd6, ← hd5] at m6
                              have m7 : 42 ∈ s.drop 7 := List.mem_of_mem_drop (List.mem_of_mem_drop
                                (List.mem_of_mem_drop (List.mem_of_mem_drop (List.mem_of_mem_drop m6))))
                              rw [show s.drop 7 = (s.drop 1).drop 6 by simp] at m7
                              exact List.mem_of_mem_drop m7
                            have hck : nmeaChecksum (s ++ [0]) =
                                .ok (xorAll ((s.drop 1).takeWhile (fun x => decide ¬x = 42)) % 256) := by
                              rw [nmeaChecksum, drop_app0 s 1 (by omega), cksLoop_mem _ _ _ m1]
                              rfl
                            rw [hck, ok_bind]
                            generalize xorAll ((s.drop 1).takeWhile (fun x => decide ¬x = 42)) % 256 = X
                            by_cases e3 : ck = X
                            · simp only [e3, not_true_eq_false, if_false, pure_eq_ok]
                            · simp only [e3, not_false_eq_true, if_true, pure_eq_ok]
                        · simp only [c6, not_false_eq_true, if_true]; rfl
                  · simp only [e1, not_false_eq_true, if_true]; rfl
                · simp only [c4, not_false_eq_true, if_true]; rfl
            · simp only [c3, not_false_eq_true, if_true]; rfl
        · simp only [c2, not_false_eq_true, if_true]; rfl
  · simp [h0, pure_eq_ok]

end N2k.Seasmart
