// C10 harness: ISO transport protocol (J1939-21 TP.CM / TP.DT) of the REAL tNMEA2000, both roles.
// One or two real nodes (vh::MockN2k, opened and settled, virtual clock) and a scripted reference peer.
// ops (node k = 0|1 selected by `node k`; `reset` starts a case and creates node 0, `reset2` adds node 1):
//   reset|reset2 <fl> <qsize> <nslots> <mode> <now> <onlyKnown> <src:namehex>...   (settled state, filled in by the harness)
//   node <k> | t <ms> | acc <bits> | accdef <0|1>
//   send <dev> <prio> <pgn> <dst> <len> <hexdata> <tp>     -> "<ret> <frames>"
//   poll                                                    -> "<frames> | <deliveries>"
//   rx <idhex> <len> <hex>      (frame into the receive queue, then one ParseMessages)   -> "<frames> | <deliveries>"
//   rxq <idhex> <len> <hex>     (frame into the receive queue only)                      -> "ok"
//   addr <dev> <newaddr>        (the device moves to another address and re-claims, as HandleCommandedAddress does) -> "- <frames>"
//   st                          (TP state of every device and every receive slot)
//   expect <pgn> <hex>          (the selected node has delivered exactly one TP message with this PGN and payload)
// frame = idhex:len:hex ; delivery = pgn:src:dst:prio:len:tp:hex
// The oracle is a passive bus monitor written from J1939-21 and the property statement (see `struct Mon`).
#include "node.h"
#include <memory>
#include <unistd.h>
#include <sys/wait.h>
using namespace vh;
static Ctx C;

struct Deliv { unsigned long pgn; unsigned src, dst, prio; int len; bool tp; std::vector<unsigned char> data; };
static std::string delivStr(const Deliv &d) {
  char b[96]; snprintf(b, sizeof b, "%lu:%u:%u:%u:%d:%d:", d.pgn, d.src, d.dst, d.prio, d.len, d.tp ? 1 : 0);
  return std::string(b) + hex(d.data.data(), d.data.size());
}

struct Node : public MockN2k {
  std::vector<Deliv> delivered;       // handler calls during the current op
  std::vector<Deliv> allTp;           // all TP deliveries since reset
  int nDev = 1, mode = 1; bool onlyKnown = false;
  unsigned char src(int i) { return Devices[i].N2kSource; }
  uint64_t name(int i) { return Devices[i].DeviceInformation.GetName(); }
  uint16_t maxq() { return MaxCANSendFrames; }
  int nslots() { return MaxN2kCANMsgs; }
  unsigned queued() { return MaxCANSendFrames ? (CANSendFrameBufferWrite + MaxCANSendFrames - CANSendFrameBufferRead) % MaxCANSendFrames : 0; }
  Frame queuedFrame(unsigned k) { tCANSendFrame &q = CANSendFrameBuf[(CANSendFrameBufferRead + 1 + k) % MaxCANSendFrames]; Frame f; f.id = q.id; f.len = q.len; memcpy(f.buf, q.buf, 8); f.t = g_now; return f; }
  std::vector<Frame> queue() { std::vector<Frame> r; for (unsigned k = 0; k < queued(); k++) r.push_back(queuedFrame(k)); return r; }
  void moveTo(int d, unsigned char a) { Devices[d].N2kSource = a; Devices[d].UpdateAddressClaimEndSource(); StartAddressClaim(d); AddressChanged = true; }
  std::string state() {
    std::string r; char b[160];
    for (int i = 0; i < nDev; i++) {
      auto &D = Devices[i];
      snprintf(b, sizeof b, "d%d:%lu:%u:%d:%u:%d:%d:%d:%d ", i, D.PendingTPMsg.PGN, D.PendingTPMsg.Destination, D.PendingTPMsg.DataLen, D.NextDTSequence, D.NextDTSendTime.IsEnabled() ? 1 : 0, D.HasPendingInformation ? 1 : 0,
               D.PendingProductInformation.IsEnabled() ? 1 : 0, D.PendingConfigurationInformation.IsEnabled() ? 1 : 0);
      r += b;
    }
    for (int i = 0; i < MaxN2kCANMsgs; i++) {
      auto &S = N2kCANMsgBuf[i];
      if (S.FreeMsg) snprintf(b, sizeof b, "s%d:free ", i);
      else snprintf(b, sizeof b, "s%d:%d:%lu:%u:%u:%u:%u:%d:%u:%u:%u ", i, S.N2kMsg.IsTPMessage() ? 1 : 0, S.N2kMsg.PGN, S.N2kMsg.Source, S.N2kMsg.Destination, S.LastFrame, S.CopiedLen, S.N2kMsg.DataLen, S.TPRequireCTS, S.TPMaxPackets, (unsigned)((uint32_t)g_now - (uint32_t)S.N2kMsg.MsgTime));   // last field: age of the slot in ms
      r += b;
    }
    if (!r.empty()) r.pop_back();
    return r;
  }
};

static const char *CFG_MANUF = "verif manufacturer info", *CFG_INST1 = "installation one", *CFG_INST2 = "inst 2";
// the product / configuration information messages the library answers with (their content is C08's subject, not C10's):
// captured once from a scratch node configured like every node of this harness, handed to the model by the `info` op
static std::string g_infoLine;
static std::string reassembleFP(const std::vector<Frame> &fr) {
  std::vector<unsigned char> d; unsigned len = fr.empty() ? 0 : fr[0].buf[1];
  for (size_t k = 0; k < fr.size(); k++) for (int j = k == 0 ? 2 : 1; j < 8; j++) d.push_back(fr[k].buf[j]);
  if (d.size() > len) d.resize(len);
  char b[32]; snprintf(b, sizeof b, "%u:%u:", fr.empty() ? 6u : (unsigned)((fr[0].id >> 26) & 7), len); return std::string(b) + hex(d.data(), d.size());
}
static void captureInfo() {
  uint64_t keep = g_now; g_now = 1000;
  Node *S = new Node(); S->SetDeviceCount(1); S->SetDeviceInformation(1, 130, 25, 2000, 4, 0); S->SetMode(tNMEA2000::N2km_NodeOnly, 20);
  S->SetConfigurationInformation(CFG_MANUF, CFG_INST1, CFG_INST2); S->EnableForward(false); S->SetN2kCANSendFrameBufSize(60);
  for (int i = 0; i < 700; i++) { S->ParseMessages(); g_now++; }
  S->sent.clear(); S->SendProductInformation(0); std::string p = reassembleFP(S->sent);
  S->sent.clear(); S->SendConfigurationInformation(0); std::string c = reassembleFP(S->sent);
  // the interval the BAM data-packet timer is re-armed with (the statement only bounds it from below): measured on the scratch node
  S->sent.clear(); { tN2kMsg m; m.Priority = 6; m.PGN = 130816UL; m.Destination = 255; m.DataLen = 30; memset(m.Data, 1, 30); m.SetIsTPMessage(true); S->SendMsg(m, 0); }
  std::vector<uint64_t> dtAt; for (int i = 0; i < 2000 && dtAt.size() < 3; i++) { g_now++; size_t k = S->sent.size(); S->ParseMessages(); for (size_t q = k; q < S->sent.size(); q++) if (((S->sent[q].id >> 8) & 0x1ffff) >> 8 == 0xEB) dtAt.push_back(g_now); }
  unsigned gap = 50;
  if (dtAt.size() == 3) { gap = (unsigned)(dtAt[2] - dtAt[1]);
#ifndef N2K_VERIF_T32
    gap -= 1;            // 64-bit scheduler: IsTime() is `now > NextTime`
#endif
  }
  g_infoLine = "info " + p + " " + c + " " + std::to_string(gap); delete S; g_now = keep;
}
static Node *NN[2] = {nullptr, nullptr};
static int cur = 0;
static Node *handlerNode = nullptr;
static void onMsg(const tN2kMsg &m) {
  Deliv d; d.pgn = m.PGN; d.src = m.Source; d.dst = m.Destination; d.prio = m.Priority; d.len = m.DataLen; d.tp = m.IsTPMessage();
  int n = m.DataLen < 0 ? 0 : (m.DataLen > 223 ? 223 : m.DataLen); d.data.assign(m.Data, m.Data + n);
  handlerNode->delivered.push_back(d); if (d.tp) handlerNode->allTp.push_back(d);
}
static void parse(Node *n) { handlerNode = n; n->ParseMessages(); }

static std::string framesStr(const std::vector<Frame> &v) { if (v.empty()) return "-"; std::string r; for (auto &f : v) { if (!r.empty()) r += ' '; r += frameStr(f); } return r; }
static std::string delivsStr(const std::vector<Deliv> &v) { if (v.empty()) return "-"; std::string r; for (auto &d : v) { if (!r.empty()) r += ' '; r += delivStr(d); } return r; }
static bool sameFrame(const Frame &a, const Frame &b) { return (a.id & 0x1fffffffUL) == (b.id & 0x1fffffffUL) && a.len == b.len && !memcmp(a.buf, b.buf, a.len > 8 ? 8 : a.len); }

static std::string caseDesc; static bool caseInteresting = false, caseHasAddr = false, caseDead = false;
static std::vector<Frame> lastFrames; static std::vector<Deliv> lastDeliv; static bool lastRet = false;   // what the scripted peer sees of the last op

// ------------------------------------------------------------------------------------------------------------------
// Passive bus monitor = the reference peer's bookkeeping (J1939-21 + the property statement; independent of the model).
// It sees: frames handed to the node (in processing order), frames the node produced per op, handler deliveries, time.
// Documented library timeouts used as the reference: sender gives up 50 ms after RTS / 100 ms after a CTS.
struct BamHyp { int sent; uint64_t lastAct; };   // one consistent reading of a BAM session: packets out so far, time of the last one
struct TxSess { int st = 0;   // 0 none (free), 1 alive, 2 maybe (deadline hit exactly / cause unknown)
  bool bam = false; unsigned dst = 0; unsigned long pgn = 0; std::vector<unsigned char> pl; int npk = 0; int sent = 0; uint64_t lastAct = 0; unsigned tmo = 50;
  std::vector<BamHyp> hyp; };   // BAM only: all readings consistent with what was seen (a packet due at the very boundary instant, or
                                // due while the driver refuses frames, may or may not have been consumed without reaching the bus)
struct RxSess { bool rts, ours; int dev; unsigned src, dst; unsigned long pgn; unsigned size; int npk; int got; int winEnd; std::vector<unsigned char> data;
  int admitted;   // 1 yes, 2 unknown
  uint64_t lastAct; };
// a receive slot that may be occupied: every unfinished message the node was handed (superset of the real slots), with the time the
// library stamps it with (first frame of a fast packet; announce / last in-sequence data packet of a transport session)
struct BusySlot { bool tp; unsigned src, dst; unsigned long pgn; uint64_t t; };
struct Mon {
  Node *N = nullptr; int nDev = 0, mode = 1, nslots = 5; unsigned addr[16]; uint64_t claimUntil[16]; TxSess tx[16];
  std::vector<RxSess> rxs; std::deque<Frame> q; std::vector<struct BusySlot> busy; bool pressureSeen = false; bool lenient = false;
  std::vector<Frame> P; size_t pi = 0; std::vector<Deliv> D; size_t di = 0; bool refused = false;
};
static Mon M[2];

static void monReset(int k, Node *N) {
  M[k] = Mon(); M[k].N = N; M[k].nDev = N->nDev; M[k].mode = N->mode; M[k].nslots = N->nslots();
  for (int i = 0; i < N->nDev && i < 16; i++) { M[k].addr[i] = N->src(i); M[k].claimUntil[i] = 0; }
}
struct Dec { unsigned prio; unsigned long pgn; unsigned src, dst; };
static Dec decodeId(unsigned long id) {   // J1939-21 identifier
  Dec d; d.prio = (id >> 26) & 7; unsigned dp = (id >> 24) & 1, pf = (id >> 16) & 0xff, ps = (id >> 8) & 0xff; d.src = id & 0xff;
  if (pf < 240) { d.pgn = ((unsigned long)dp << 16) | (pf << 8); d.dst = ps; } else { d.pgn = ((unsigned long)dp << 16) | (pf << 8) | ps; d.dst = 255; }
  return d;
}
static unsigned long pgn3(const unsigned char *b) { return b[0] | (b[1] << 8) | ((unsigned long)b[2] << 16); }
static bool isTpPgn(unsigned long pgn) { return pgn == 60416UL || pgn == 60160UL; }
static int devOf(Mon &m, unsigned a) { if (a > 253) return -1; for (int i = 0; i < m.nDev; i++) if (m.addr[i] == a) return i; return -1; }
// 1 = the device can transmit, 0 = it cannot (mode / address-claim hold-off), 2 = boundary instant
static int canSend(Mon &m, int dev) {
  if (!(m.mode == 1 || m.mode == 2)) return 0;
  if (m.addr[dev] > 251) return 0;
  if (g_now < m.claimUntil[dev]) return 0;
  if (g_now == m.claimUntil[dev] && m.claimUntil[dev] != 0) return 2;
  return 1;
}
static bool produced(const std::vector<Frame> &q0, const std::vector<Frame> &got, const std::vector<Frame> &q1, std::vector<Frame> &P) {
  std::vector<Frame> all = got; all.insert(all.end(), q1.begin(), q1.end());
  if (all.size() < q0.size()) return false;
  for (size_t i = 0; i < q0.size(); i++) if (!sameFrame(q0[i], all[i])) return false;
  P.assign(all.begin() + q0.size(), all.end()); return true;
}
static void skipNonTp(Mon &m) { while (m.pi < m.P.size() && !isTpPgn(decodeId(m.P[m.pi].id).pgn)) m.pi++; }
static const Frame *peek(Mon &m) { skipNonTp(m); return m.pi < m.P.size() ? &m.P[m.pi] : nullptr; }
// next produced frame is TP.CM with control byte `ctrl` from `from` to `to` for `pgn`
static const Frame *peekCM(Mon &m, unsigned ctrl, unsigned from, unsigned to, unsigned long pgn) {
  const Frame *f = peek(m); if (!f) return nullptr; Dec d = decodeId(f->id);
  if (d.pgn != 60416UL || d.src != from || d.dst != to || f->len != 8 || f->buf[0] != ctrl || pgn3(f->buf + 5) != pgn) return nullptr;
  return f;
}
static const Frame *peekDT(Mon &m, unsigned from, unsigned to) {
  const Frame *f = peek(m); if (!f) return nullptr; Dec d = decodeId(f->id);
  if (d.pgn != 60160UL || d.src != from || d.dst != to) return nullptr; return f;
}
static bool dtContentOk(const Frame &f, const std::vector<unsigned char> &pl, int seq) {
  if (f.len != 8 || f.buf[0] != seq) return false;
  for (int j = 0; j < 7; j++) { size_t idx = (size_t)(seq - 1) * 7 + j; unsigned char want = idx < pl.size() ? pl[idx] : 0xff; if (f.buf[1 + j] != want) return false; }
  return true;
}
static std::string lenKey(size_t n) { return n == 223 ? "223" : (n % 7 == 0 ? "mult7" : "gen"); }

// ---- library as originator ---------------------------------------------------------------------------------------
static void monSend(int k, int dev, unsigned prio, unsigned long pgn, unsigned dst, const std::vector<unsigned char> &pl, int len, bool tp, bool ret,
                    const std::vector<Frame> &q0, const std::vector<Frame> &got, const std::vector<Frame> &q1, bool refused) {
  Mon &m = M[k]; m.P.clear(); m.pi = 0; m.refused = refused;
  if (!produced(q0, got, q1, m.P)) { C.fail("harness:fifo", "send: queue is not FIFO"); return; }
  unsigned long pf = (pgn >> 8) & 0xff; bool pdu1 = pf < 240;
  if (!tp || len <= 8 || (int)pl.size() != len) return;                 // not a transport transfer (C01's subject)
  bool encodable = pgn != 0 && pgn < (1UL << 18) && !(pdu1 && (pgn & 0xff));
  unsigned edst = dst;
  if (!pdu1 && ret) {   // a PDU2 PGN has no destination of its own: both "to everybody" (BAM) and "to the given node" (RTS) are transfers of it
    m.pi = 0; const Frame *f0 = peek(m); if (f0 && f0->len == 8 && f0->buf[0] == 32) edst = 255;
  }
  TxSess &s = m.tx[dev];
  int cs = canSend(m, dev);
  if (!ret) {
    if (const Frame *f = peek(m)) { (void)f; C.fail("C10:refused-send-emits", "SendMsg returned false but produced TP frame %s", frameStr(*f).c_str()); }
    if (s.st == 0 && encodable && cs == 1 && !refused && prio < 8)
      C.fail("C10:stuck-session", "dev %d: no transfer is pending (earlier one finished, was aborted or timed out) but a new %d-byte transfer is refused", dev, len);
    return;
  }
  if (!encodable || cs == 0) { C.fail("C10:send-accepted", "unencodable/forbidden transfer accepted"); return; }
  if (s.st == 1) C.fail("C10:second-session", "dev %d: a transfer was accepted while another one is in progress", dev);
  s = TxSess(); s.st = 1; s.bam = edst == 255; s.dst = edst; s.pgn = pgn; s.pl = pl; s.npk = (len + 6) / 7; s.sent = 0; s.lastAct = g_now; s.tmo = 50;
  caseInteresting = true; C.count(s.bam ? "tx_bam" : "tx_rts");
  const Frame *f = peekCM(m, s.bam ? 32 : 16, m.addr[dev], edst, pgn);
  if (!f) { C.fail(s.bam ? "C10:bam-announce" : "C10:rts-announce", "no %s for PGN %lu from %u to %u as first produced frame", s.bam ? "BAM" : "RTS", pgn, m.addr[dev], edst); return; }
  m.pi++;
  if (f->buf[1] != (len & 0xff) || f->buf[2] != (len >> 8) || f->buf[3] != s.npk)
    C.fail(std::string("C10:announce-counts:") + lenKey(len), "announce says %u bytes / %u packets for a %d-byte message (%d packets)", f->buf[1] | (f->buf[2] << 8), f->buf[3], len, s.npk);
  if (peek(m)) C.fail("C10:unexpected-frame:after-announce", "%s", frameStr(*peek(m)).c_str());
}

// timers of the originator role, evaluated at the start of every poll (device order)
static void txTimers(Mon &m, int dev) {
  TxSess &s = m.tx[dev]; if (s.st == 0) return;
  if (s.bam) {
    if (s.hyp.empty()) s.hyp.push_back({s.sent, s.lastAct});
    const Frame *f = peekDT(m, m.addr[dev], 255);
    bool lossy = canSend(m, dev) != 1 || m.refused;          // a packet the library consumed need not have reached the bus
    std::vector<BamHyp> next; bool consumed = false;
    // The statement bounds the distance of BAM data packets from below only ("at least 50 ms apart"): a packet may come at any poll
    // from 50 ms on. For "transferred completely" the next packet has to come while a receiver still waits for it: J1939-21 T1 = 750 ms.
    for (auto &h : s.hyp) {
      bool done = h.sent >= s.npk, may = !done && g_now >= h.lastAct + 50, must = !done && g_now > h.lastAct + 750;
      if (f) { if (may && dtContentOk(*f, s.pl, h.sent + 1)) { next.push_back({h.sent + 1, g_now}); consumed = true; } }
      else {
        if (!must) next.push_back(h);                          // nothing had to come yet
        if (may && lossy) next.push_back({h.sent + 1, g_now}); // consumed by the library, lost on the way to the bus
      }
    }
    if (next.empty()) {                                        // no reading explains what the library did: report against the first one
      BamHyp h = s.hyp[0]; bool may = g_now >= h.lastAct + 50;
      if (!f) C.fail("C10:bam-stall", "dev %d: BAM data packet %d not sent %llu ms after the previous one", dev, h.sent + 1, (unsigned long long)(g_now - h.lastAct));
      else if (!may) C.fail("C10:unexpected-frame:bam-dt-pacing", "poll: %s %llu ms after the previous BAM packet", frameStr(*f).c_str(), (unsigned long long)(g_now - h.lastAct));
      else C.fail(std::string("C10:bam-dt-content:") + lenKey(s.pl.size()), "BAM packet %d is %s", h.sent + 1, frameStr(*f).c_str());
      if (f) m.pi++;
      s.st = 0; s.hyp.clear(); return;
    }
    if (f && consumed) { m.pi++; C.count("bam_dt"); }
    // drop duplicates
    std::vector<BamHyp> uniq; for (auto &h : next) { bool dup = false; for (auto &u : uniq) if (u.sent == h.sent && u.lastAct == h.lastAct) dup = true; if (!dup) uniq.push_back(h); }
    s.hyp = uniq; s.sent = s.hyp[0].sent; s.lastAct = s.hyp[0].lastAct;
    bool allDone = true, anyDone = false; for (auto &h : s.hyp) { if (h.sent >= s.npk) anyDone = true; else allDone = false; }
    if (allDone) { s.st = 0; s.hyp.clear(); C.count("bam_complete"); }
    else s.st = (anyDone || s.hyp.size() > 1) ? 2 : 1;
    if (s.hyp.size() > 1) C.count("bam_ambiguous_instant");
    return;
  }
  if (g_now > s.lastAct + s.tmo) { s.st = 0; C.count("tx_timeout"); }
  else if (g_now == s.lastAct + s.tmo && s.st == 1) s.st = 2;
}

// a TP.CM CTS / EndOfMsgACK / Abort addressed to device `dev` of the node is processed
static void txControl(Mon &m, int dev, const Frame &f, const Dec &d) {
  TxSess &s = m.tx[dev]; unsigned ctrl = f.buf[0]; unsigned long pgn = pgn3(f.buf + 5);
  bool mine = s.st != 0 && !s.bam && d.src == s.dst && pgn == s.pgn;
  if (!mine) { C.count("tx_foreign_control"); return; }                // not of this session: the session is unaffected, nothing may be sent
  if (ctrl == 19 || ctrl == 255) { s.st = 0; C.count(ctrl == 19 ? "tx_endack" : "tx_peer_abort"); return; }
  unsigned n = f.buf[1], next = f.buf[2];
  if (n == 0) { s.lastAct = g_now; s.tmo = 100; C.count("tx_cts_hold"); return; }
  if ((int)next != s.sent + 1) {                                       // out of sequence: the session ends, nothing is sent
    s.st = 0; C.count("tx_cts_out_of_sequence"); return; }
  int want = (int)n < s.npk - s.sent ? (int)n : s.npk - s.sent;
  int cs = canSend(m, dev);
  int have = 0;
  while (have < want) {
    const Frame *g = peekDT(m, m.addr[dev], s.dst); if (!g) break;
    if (!dtContentOk(*g, s.pl, s.sent + 1)) { C.fail(std::string("C10:dt-content:") + lenKey(s.pl.size()), "packet %d of %d is %s", s.sent + 1, s.npk, frameStr(*g).c_str()); }
    m.pi++; have++; s.sent++;
  }
  C.count("tx_cts"); if (n >= 200) C.count("tx_cts_ge200");
  if (have == want) { s.st = 1; s.lastAct = g_now; s.tmo = 100; if (s.sent >= s.npk) C.count("tx_all_sent"); return; }
  // fewer packets than granted
  if (have == 0 && s.st == 2) { s.st = 0; return; }                     // had timed out at the boundary instant
  if (cs != 1 || m.refused) { s.st = 0; C.count("tx_ended_by_backpressure"); return; }
  if (have == 0) C.fail("C10:early-abandon", "dev %d: CTS(%u,%u) %llu ms after the last activity (timeout %u ms) got no data packet", dev, n, next, (unsigned long long)(g_now - s.lastAct), s.tmo);
  else C.fail("C10:cts-short", "CTS(%u,%u) answered by %d packets, %d expected", n, next, have, want);
  s.st = 0;
}

// ---- library as responder / listener ------------------------------------------------------------------------------
static void busyAdd(Mon &m, bool tp, unsigned src, unsigned dst, unsigned long pgn) { m.busy.push_back({tp, src, dst, pgn, g_now}); }
static void busyDropTp(Mon &m, unsigned src, unsigned dst) { for (size_t i = 0; i < m.busy.size();) if (m.busy[i].tp && m.busy[i].src == src && m.busy[i].dst == dst) m.busy.erase(m.busy.begin() + i); else i++; }
static void busyTouchTp(Mon &m, unsigned src, unsigned dst) { for (auto &b : m.busy) if (b.tp && b.src == src && b.dst == dst) b.t = g_now; }
static void busyDropFp(Mon &m, unsigned long pgn, unsigned src) { for (size_t i = 0; i < m.busy.size(); i++) if (!m.busy[i].tp && m.busy[i].pgn == pgn && m.busy[i].src == src) { m.busy.erase(m.busy.begin() + i); return; } }
// a slot is certainly available for a new message: fewer candidates than slots, or (as long as the library has not had to recycle
// anything yet in this case) every candidate is more than 100 ms old - Max_N2kMsgBuf_Time - with 1 ms margin and far from the 2^31 horizon
static bool slotAvailable(Mon &m) {
  if (m.N->onlyKnown || m.nslots <= 0) return false;
  if ((long)m.busy.size() < m.nslots) return true;
  if (m.pressureSeen) return false;
  for (auto &b : m.busy) { uint64_t age = g_now - b.t; if (age < 102 || age > 0x7fffffffULL - 1000) return false; }
  C.count("rx_slot_must_be_recycled");
  return true;
}
static void slotRequested(Mon &m) { if ((long)m.busy.size() >= m.nslots) m.pressureSeen = true; }
static RxSess *findRx(Mon &m, unsigned src, unsigned dst) { for (auto &r : m.rxs) if (r.src == src && r.dst == dst) return &r; return nullptr; }
static void dropRx(Mon &m, unsigned src, unsigned dst) { for (size_t i = 0; i < m.rxs.size(); i++) if (m.rxs[i].src == src && m.rxs[i].dst == dst) { m.rxs.erase(m.rxs.begin() + i); return; } }

static void rxStart(Mon &m, const Frame &f, const Dec &d) {
  bool rts = f.buf[0] == 16; unsigned size = f.buf[1] | (f.buf[2] << 8); int npk = f.buf[3]; unsigned long pgn = pgn3(f.buf + 5);
  int dev = devOf(m, d.dst); bool ours = rts && dev >= 0;
  RxSess *old = findRx(m, d.src, d.dst);
  bool stale = old && old->pgn != pgn;        // an unfinished session of the same pair for another PGN
  uint64_t staleAge = old ? g_now - old->lastAct : 0;
  if (old) dropRx(m, d.src, d.dst);           // J1939-21: one session per source/destination pair; a new announce replaces it
  busyDropTp(m, d.src, d.dst);
  bool wellFormed = size >= 9 && npk == (int)((size + 6) / 7) && (rts ? d.dst != 255 : d.dst == 255);
  bool room = slotAvailable(m);               // with the known-message filter on, an unlisted PGN is something the node "cannot hold"
  slotRequested(m); busyAdd(m, true, d.src, d.dst, pgn);
  caseInteresting = true; C.count(rts ? (ours ? "rx_rts_ours" : "rx_rts_foreign") : "rx_bam");
  RxSess r; r.rts = rts; r.ours = ours; r.dev = dev; r.src = d.src; r.dst = d.dst; r.pgn = pgn; r.size = size; r.npk = npk; r.got = 0; r.winEnd = 0; r.admitted = 2; r.lastAct = g_now;
  if (!wellFormed) { m.lenient = true; C.count("rx_malformed_announce"); }
  if (ours) {
    int cs = canSend(m, dev);
    const Frame *c = peekCM(m, 17, d.dst, d.src, pgn), *a = c ? nullptr : peekCM(m, 255, d.dst, d.src, pgn);
    if (c) {
      m.pi++;
      if (size > 223) C.fail("C10:oversize-accepted", "RTS for %u bytes answered by CTS", size);
      if (c->buf[1] == 0 || c->buf[2] != 1) C.fail("C10:first-cts", "first CTS grants %u packets from %u", c->buf[1], c->buf[2]);
      r.admitted = 1; r.winEnd = c->buf[1]; if (r.winEnd > npk) r.winEnd = npk;
      m.rxs.push_back(r); C.count("rx_cts_first");
    } else if (a) {
      m.pi++; busyDropTp(m, d.src, d.dst); C.count("rx_abort_on_rts");
      if (size <= 223 && wellFormed && room && !m.lenient)
        C.fail(size == 223 ? "C10:rx-223" : "C10:rts-refused", "RTS for %u bytes (PGN %lu) aborted (reason %u) although the library can hold it and a slot is free", size, pgn, a->buf[1]);
    } else {
      if (cs == 1 && !m.refused && !m.lenient && wellFormed) C.fail(size > 223 ? "C10:oversize-unanswered" : "C10:rts-unanswered", "RTS for %u bytes (PGN %lu) from %u got neither CTS nor Abort", size, pgn, d.src);
      r.admitted = 2; m.rxs.push_back(r);
    }
    (void)stale; (void)staleAge;
    return;
  }
  // BAM, or RTS between other nodes: the node only listens
  r.admitted = (size <= 223 && room && wellFormed && m.N->nslots() > 0) ? 1 : 2;
  if (size > 223) { busyDropTp(m, d.src, d.dst); r.admitted = 0; }
  m.rxs.push_back(r);
}

static void rxData(Mon &m, const Frame &f, const Dec &d) {
  RxSess *r = findRx(m, d.src, d.dst); if (!r) { C.count("rx_dt_orphan"); return; }
  if (r->admitted == 0) return;
  unsigned seq = f.len ? f.buf[0] : 0;
  bool respond = r->ours && r->admitted == 1;
  int dev = devOf(m, d.dst);                 // the node may have lost the address meanwhile
  if (f.len != 8) m.lenient = true;
  if ((int)seq != r->got + 1) {              // lost / duplicated / reordered packet: the session ends, nothing may be delivered
    C.count("rx_sequence_fault");
    if (respond && peekCM(m, 255, d.dst, d.src, r->pgn)) { m.pi++; C.count("rx_abort_on_fault"); }
    busyDropTp(m, d.src, d.dst); dropRx(m, d.src, d.dst); return;
  }
  for (int j = 1; j < f.len && j < 8; j++) r->data.push_back(f.buf[j]);
  r->got++; r->lastAct = g_now; busyTouchTp(m, d.src, d.dst);
  if ((unsigned)r->got * 7 >= r->size) {     // final packet
    std::vector<unsigned char> pl(r->data.begin(), r->data.begin() + (r->size < r->data.size() ? r->size : r->data.size()));
    if (respond && dev >= 0) {
      const Frame *a = peekCM(m, 19, d.dst, d.src, r->pgn);
      if (a) { m.pi++; if ((unsigned)(a->buf[1] | (a->buf[2] << 8)) != r->size || a->buf[3] != r->got) C.fail("C10:endack-counts", "EndOfMsgACK says %u bytes / %u packets, transfer had %u / %d", a->buf[1] | (a->buf[2] << 8), a->buf[3], r->size, r->got); C.count("rx_endack"); }
      else if (canSend(m, dev) == 1 && !m.refused && !m.lenient) C.fail("C10:endack-missing", "final packet %d of PGN %lu from %u not acknowledged", r->got, r->pgn, d.src);
    }
    bool have = m.di < m.D.size() && m.D[m.di].tp && m.D[m.di].pgn == r->pgn && m.D[m.di].src == d.src;
    if (have) {
      const Deliv &dl = m.D[m.di];
      if (dl.dst != d.dst || dl.len != (int)r->size || dl.data != pl) C.fail(std::string("C10:delivery-content:") + lenKey(r->size), "delivered %s, sent %u bytes %s", delivStr(dl).c_str(), r->size, hex(pl.data(), pl.size()).c_str());
      m.di++; C.count("rx_delivered");
    } else if (r->admitted == 1 && !m.lenient) C.fail(r->size == 223 ? std::string("C10:rx-223") : std::string("C10:delivery-missing:") + (r->rts ? "rts" : "bam"), "complete %u-byte transfer of PGN %lu from %u to %u not delivered", r->size, r->pgn, d.src, d.dst);
    busyDropTp(m, d.src, d.dst); dropRx(m, d.src, d.dst); return;
  }
  if (respond && r->got == r->winEnd) {      // the granted window is used up: the responder has to grant the next one
    const Frame *c = dev >= 0 ? peekCM(m, 17, d.dst, d.src, r->pgn) : nullptr;
    if (c) {
      m.pi++; if (c->buf[1] == 0 || c->buf[2] != r->got + 1) C.fail("C10:next-cts", "after packet %d CTS grants %u packets from %u", r->got, c->buf[1], c->buf[2]);
      r->winEnd = r->got + c->buf[1]; if (r->winEnd > r->npk) r->winEnd = r->npk; C.count("rx_cts_next");
    } else if (dev >= 0 && canSend(m, dev) == 1 && !m.refused && !m.lenient) { C.fail("C10:cts-missing", "window used up after packet %d of %d, no CTS", r->got, r->npk); r->admitted = 2; }
    else r->admitted = 2;
  }
}

static void onPeerFrame(Mon &m, const Frame &f) {
  Dec d = decodeId(f.id);
  if (d.pgn == 60416UL) {
    if (f.len != 8) { m.lenient = true; C.count("rx_short_cm"); return; }
    unsigned ctrl = f.buf[0];
    if (ctrl == 16 || ctrl == 32) { rxStart(m, f, d); return; }
    if (ctrl == 17 || ctrl == 19 || ctrl == 255) {
      int dev = devOf(m, d.dst);
      if (dev >= 0) txControl(m, dev, f, d);
      if (ctrl == 255) {        // the originator gives up its session towards the node
        RxSess *r = findRx(m, d.src, d.dst); if (r && r->pgn == pgn3(f.buf + 5)) { C.count("rx_peer_abort"); r->admitted = 2; }
      }
      return;
    }
    C.count("rx_cm_other"); return;
  }
  if (d.pgn == 60160UL) { rxData(m, f, d); return; }
  // other traffic: may occupy a reassembly slot until it is complete
  if (f.len >= 1 && (f.buf[0] & 0x1f) == 0) { slotRequested(m); busyAdd(m, false, d.src, d.dst, d.pgn); }
  C.count("rx_other_traffic");
}

static void monFinish(Mon &m, const char *what) {
  while (const Frame *f = peek(m)) {
    Dec d = decodeId(f->id); std::string key = "C10:unexpected-frame:";
    if (d.pgn == 60160UL) key += d.dst == 255 ? "bam-dt-pacing" : "dt"; else { char b[16]; snprintf(b, sizeof b, "cm%u", f->buf[0]); key += b; }
    if (!m.lenient || d.pgn == 60160UL) C.fail(key, "%s: %s at t=%llu", what, frameStr(*f).c_str(), (unsigned long long)g_now);
    m.pi++;
  }
  for (; m.di < m.D.size(); m.di++) {
    if (m.D[m.di].tp) { if (!m.lenient) C.fail("C10:spurious-delivery", "%s", delivStr(m.D[m.di]).c_str()); }
    else busyDropFp(m, m.D[m.di].pgn, m.D[m.di].src);
  }
}

static void monEnqueue(int k, const Frame &f) { M[k].q.push_back(f); }
static void monPoll(int k, const std::vector<Frame> &q0, const std::vector<Frame> &got, const std::vector<Frame> &q1, const std::vector<Deliv> &dl, bool refused) {
  Mon &m = M[k]; m.P.clear(); m.pi = 0; m.D = dl; m.di = 0; m.refused = refused;
  if (!produced(q0, got, q1, m.P)) { C.fail("harness:fifo", "poll: queue is not FIFO"); return; }
  for (int dev = 0; dev < m.nDev; dev++) txTimers(m, dev);
  for (int i = 0; i < 20 && !m.q.empty(); i++) { Frame f = m.q.front(); m.q.pop_front(); onPeerFrame(m, f); }
  monFinish(m, "poll");
}
static void monAddr(int k, int dev, unsigned a, const std::vector<Frame> &q0, const std::vector<Frame> &got, const std::vector<Frame> &q1) {
  Mon &m = M[k]; m.addr[dev] = a; if (m.mode == 1 || m.mode == 2) m.claimUntil[dev] = g_now + 250;
  (void)q0; (void)got; (void)q1;
}

// ---------------------------------------------------------------------------------------------- executing one op
static void endCase() {
  if (NN[0]) { C.cases++; if (caseInteresting) C.nontrivial(caseDesc); }
  caseDesc.clear(); caseInteresting = caseHasAddr = caseDead = false;
}

// run `f` in a forked child first; true if the child died (sanitizer abort / signal). Used only in cases that contain an
// `addr` op, so that the known crash C07:tp-cts-idev is reported under its own key and the run goes on.
template <class F> static bool diesInChild(F f) {
  fflush(nullptr);
  pid_t p = fork();
  if (p == 0) { f(); _exit(0); }
  int st = 0; waitpid(p, &st, 0);
  return !(WIFEXITED(st) && WEXITSTATUS(st) == 0);
}

static void doReset(const std::vector<std::string> &w, int k) {
  // input form: reset <fl> <qsize> <nslots> <mode> <ndev> <origin> <onlyKnown>
  unsigned qsize = strtoul(w[2].c_str(), 0, 10); unsigned nslots = strtoul(w[3].c_str(), 0, 10); int mode = atoi(w[4].c_str());
  int nDev = atoi(w[5].c_str()); uint64_t origin = strtoull(w[6].c_str(), 0, 10); bool onlyKnown = w.size() > 7 && w[7] == "1";
  if (k == 0) { endCase(); delete NN[0]; delete NN[1]; NN[0] = NN[1] = nullptr; g_now = origin; cur = 0; }
  delete NN[k]; Node *N = NN[k] = new Node(); N->nDev = nDev; N->mode = mode; N->onlyKnown = onlyKnown;
  N->SetDeviceCount(nDev);
  for (int i = 0; i < nDev; i++) N->SetDeviceInformation(1000 + 7 * i + 100 * k, 130 + i, 25, 2000 + i, 4, i);
  N->SetMode((tNMEA2000::tN2kMode)mode, 20 + 30 * k);
  for (int i = 1; i < nDev; i++) N->SetN2kSource(20 + 30 * k + i, i);
  N->EnableForward(false);
  N->SetN2kCANSendFrameBufSize(qsize);
  N->SetN2kCANMsgBufSize(nslots);
  N->SetHandleOnlyKnownMessages(onlyKnown);
  N->SetConfigurationInformation(CFG_MANUF, CFG_INST1, CFG_INST2);
  N->SetHeartbeatIntervalAndOffset(0);           // heartbeats off (C12's subject)
  N->SetMsgHandler(onMsg);
  handlerNode = N;
  for (int i = 0; i < 700; i++) { parse(N); g_now++; }
  N->SetHeartbeatIntervalAndOffset(0);           // Open() re-arms the heartbeat: switch it off again
  N->sent.clear(); N->delivered.clear(); N->allTp.clear();
  char b[128]; std::string l = k == 0 ? "reset " : "reset2 "; l += w[1];
  snprintf(b, sizeof b, " %u %d %d %llu %d", (unsigned)N->maxq(), N->nslots(), mode, (unsigned long long)g_now, onlyKnown ? 1 : 0); l += b;
  for (int i = 0; i < nDev; i++) { snprintf(b, sizeof b, " %u:%llx", N->src(i), (unsigned long long)N->name(i)); l += b; }
  C.op("%s", l.c_str()); caseDesc += l; caseDesc += ';';
  if (!N->isOpen()) C.fail("harness:not-open", "node did not open");
  monReset(k, N);
  C.out("ok");
  C.op("%s", g_infoLine.c_str()); C.out("ok");      // tells the model what the node's 126996 / 126998 answers contain
}

static void exec(const std::string &line) {
  std::vector<std::string> w = split(line);
  if (w.empty()) return;
  if ((w[0] == "reset" || w[0] == "reset2") && w.size() >= 7) { doReset(w, w[0] == "reset" ? 0 : 1); return; }
  if (w[0] == "info") { if (line != g_infoLine && g_infoLine.compare(0, line.size(), line) != 0) C.fail("harness:info", "recorded product/configuration information differs from this build's"); return; }   // doReset writes the line itself
  C.op("%s", line.c_str()); C.count("op_" + w[0]); caseDesc += line; caseDesc += ';';
  if (w[0] == "node" && w.size() == 2) { int k = atoi(w[1].c_str()); if (k < 0 || k > 1 || !NN[k]) { C.out("bad-op"); return; } cur = k; C.out("ok"); return; }
  Node *N = NN[cur];
  if (!N) { C.out("bad-op"); return; }
  if (caseDead) { C.out("skipped"); return; }
  if (w[0] == "t" && w.size() == 2) { g_now += strtoull(w[1].c_str(), 0, 10); C.out("ok"); return; }
  if (w[0] == "acc" && w.size() == 2) { for (char c : w[1]) N->acceptScript.push_back(c == '1'); C.out("ok"); return; }
  if (w[0] == "accdef" && w.size() == 2) { N->acceptDefault = w[1] == "1"; C.out("ok"); return; }
  if (w[0] == "st") { C.outs(N->state()); return; }
  if (w[0] == "expect" && w.size() == 3) {
    unsigned long pgn = strtoul(w[1].c_str(), 0, 10); std::vector<unsigned char> pl = unhex(w[2]); int hits = 0;
    for (auto &d : N->allTp) if (d.pgn == pgn && d.len == (int)pl.size() && d.data == pl) hits++;
    if (hits != 1) C.fail(pl.size() == 223 && hits == 0 ? "C10:rx-223" : "C10:e2e-delivery", "node %d delivered the %zu-byte TP message of PGN %lu %d times (expected once)", cur, pl.size(), pgn, hits);
    C.out("%d", hits); return;
  }
  if (w[0] == "addr" && w.size() == 3) {
    int d = atoi(w[1].c_str()); unsigned a = strtoul(w[2].c_str(), 0, 10);
    if (d < 0 || d >= N->nDev || a > 251) { C.out("bad-op"); return; }
    caseHasAddr = true;
    std::vector<Frame> q0 = N->queue();
    N->moveTo(d, (unsigned char)a);
    std::vector<Frame> got = N->sent, q1 = N->queue(); N->sent.clear();
    monAddr(cur, d, a, q0, got, q1); lastFrames = got;
    C.outs("- " + framesStr(got)); return;
  }
  if (w[0] == "send" && w.size() == 8) {
    int d = atoi(w[1].c_str()); unsigned prio = strtoul(w[2].c_str(), 0, 10); unsigned long pgn = strtoul(w[3].c_str(), 0, 10);
    unsigned dst = strtoul(w[4].c_str(), 0, 10); int len = atoi(w[5].c_str()); std::vector<unsigned char> data = unhex(w[6]); bool tp = w[7] == "1";
    if (d < 0 || d >= N->nDev || len < 0 || len > 223) { C.out("bad-op"); return; }
    tN2kMsg m; memset(m.Data, 0x55, sizeof m.Data);
    m.Priority = (unsigned char)prio; m.PGN = pgn; m.Source = 0; m.Destination = (unsigned char)dst; m.DataLen = len; m.SetIsTPMessage(tp);
    if (!data.empty()) memcpy(m.Data, data.data(), data.size() > 223 ? 223 : data.size());
    std::vector<Frame> q0 = N->queue(); long r0 = N->refused;
    handlerNode = N;
    bool ret = N->SendMsg(m, d);
    std::vector<Frame> got = N->sent, q1 = N->queue(); N->sent.clear();
    std::vector<unsigned char> pl(data.begin(), data.begin() + (len < (int)data.size() ? len : (int)data.size()));
    monSend(cur, d, prio, pgn, dst, pl, len, tp, ret, q0, got, q1, N->refused != r0);
    lastFrames = got; lastRet = ret;
    C.outs(std::string(ret ? "1 " : "0 ") + framesStr(got)); return;
  }
  bool isRx = (w[0] == "rx" || w[0] == "rxq") && w.size() == 4;
  if (isRx) {
    unsigned long id = strtoul(w[1].c_str(), 0, 16); unsigned len = strtoul(w[2].c_str(), 0, 10); std::vector<unsigned char> b = unhex(w[3]);
    if (len > 8 || b.size() != len) { C.out("bad-op"); return; }
    unsigned char buf[8]; memset(buf, 0, 8); if (len) memcpy(buf, b.data(), len);
    N->rx(id, (unsigned char)len, buf);
    monEnqueue(cur, N->rxq.back());
    if (w[0] == "rxq") { C.out("ok"); return; }
  }
  if (w[0] == "poll" || w[0] == "rx") {
    if (caseHasAddr && diesInChild([&] { parse(N); })) {
      C.fail("C07:tp-cts-idev", "ParseMessages aborts (sanitizer/signal) after the node has moved to another address: %s", line.c_str());
      caseDead = true; C.out("crash"); return;
    }
    std::vector<Frame> q0 = N->queue(); long r0 = N->refused; N->delivered.clear();
    parse(N);
    std::vector<Frame> got = N->sent, q1 = N->queue(); N->sent.clear();
    monPoll(cur, q0, got, q1, N->delivered, N->refused != r0);
    lastFrames = got; lastDeliv = N->delivered;
    C.outs(framesStr(got) + " | " + delivsStr(N->delivered)); N->delivered.clear(); return;
  }
  C.out("bad-op");
}

// ------------------------------------------------------------------------------------------------------------------
// Scripted reference peer (J1939-21) and the case generators. Everything the peer does becomes an op line.
static const unsigned long TP_PGNS[] = {126996UL, 126998UL, 126464UL, 129029UL, 129540UL, 130816UL, 61184UL, 59648UL, 65300UL, 127489UL, 130074UL};
static const unsigned long RTS_PGNS[] = {126464UL, 61184UL, 59648UL, 130816UL, 126720UL, 65280UL, 60928UL + 256UL};   // PGNs whose messages keep their destination
static unsigned long refId(unsigned prio, unsigned long pgn, unsigned src, unsigned dst) {
  unsigned long pf = (pgn >> 8) & 0xff; unsigned long id = ((unsigned long)(prio & 7) << 26) | (pgn << 8) | src; if (pf < 240) id |= (unsigned long)dst << 8; return id;
}
static void X(const std::string &s) { exec(s); }
static void T(uint64_t ms) { X("t " + std::to_string(ms)); }
static std::string rxLine(const char *op, unsigned long id, const unsigned char *b, unsigned len) { char h[32]; snprintf(h, sizeof h, "%s %lx %u ", op, id, len); return std::string(h) + hex(b, len); }
static void rxCM(const char *op, unsigned from, unsigned to, unsigned c0, unsigned b1, unsigned b2, unsigned b3, unsigned b4, unsigned long pgn) {
  unsigned char b[8] = {(unsigned char)c0, (unsigned char)b1, (unsigned char)b2, (unsigned char)b3, (unsigned char)b4, (unsigned char)pgn, (unsigned char)(pgn >> 8), (unsigned char)(pgn >> 16)};
  X(rxLine(op, refId(7, 60416UL, from, to), b, 8));
}
static void rxRTS(const char *op, unsigned from, unsigned to, unsigned size, unsigned npk, unsigned long pgn) { rxCM(op, from, to, 16, size & 0xff, size >> 8, npk, 0xff, pgn); }
static void rxBAM(const char *op, unsigned from, unsigned size, unsigned npk, unsigned long pgn) { rxCM(op, from, 255, 32, size & 0xff, size >> 8, npk, 0xff, pgn); }
static void rxCTS(const char *op, unsigned from, unsigned to, unsigned n, unsigned next, unsigned long pgn) { rxCM(op, from, to, 17, n, next, 0xff, 0xff, pgn); }
static void rxACK(const char *op, unsigned from, unsigned to, unsigned size, unsigned npk, unsigned long pgn) { rxCM(op, from, to, 19, size & 0xff, size >> 8, npk, 0xff, pgn); }
static void rxABORT(const char *op, unsigned from, unsigned to, unsigned reason, unsigned long pgn) { rxCM(op, from, to, 255, reason, 0xff, 0xff, 0xff, pgn); }
static void rxDT(const char *op, unsigned from, unsigned to, unsigned seq, const std::vector<unsigned char> &pl) {
  unsigned char b[8]; b[0] = (unsigned char)seq; for (int j = 0; j < 7; j++) { size_t i = (size_t)(seq - 1) * 7 + j; b[1 + j] = i < pl.size() ? pl[i] : 0xff; }
  X(rxLine(op, refId(7, 60160UL, from, to), b, 8));
}
static std::vector<unsigned char> payload(Rng &R, int len) { std::vector<unsigned char> p(len); int k = (int)R.below(4); for (int i = 0; i < len; i++) p[i] = k == 0 ? (unsigned char)(i + 1) : (k == 1 ? 0xff : (unsigned char)R.below(256)); return p; }
static unsigned long pickRtsPgn(Rng &R) { return RTS_PGNS[R.below(sizeof RTS_PGNS / sizeof *RTS_PGNS)]; }
static unsigned long pickPgn(Rng &R) { return TP_PGNS[R.below(sizeof TP_PGNS / sizeof *TP_PGNS)]; }
static void resetNode(Rng &R, const char *fl, const char *op, int devs, int nslots, int mode, unsigned qsize, bool onlyKnown = false, long long fixedOrigin = -1) {
  uint64_t origin = R.chance(1, 3) ? 0xFFFFFFFFULL - R.below(1500) : (R.chance(1, 2) ? R.below(100000) : 0x7FFFFFFFULL - R.below(1500));
  if (fixedOrigin >= 0) origin = (uint64_t)fixedOrigin;
  char b[200]; snprintf(b, sizeof b, "%s %s %u %d %d %d %llu %d", op, fl, qsize, nslots, mode, devs, (unsigned long long)(strcmp(op, "reset") ? 0 : origin), onlyKnown ? 1 : 0); X(b);
}
static void sendTP(int dev, unsigned long pgn, unsigned dst, const std::vector<unsigned char> &pl, int extra = 0, bool tp = true) {
  std::vector<unsigned char> d = pl; for (int i = 0; i < extra && d.size() < 223; i++) d.push_back(0x55);
  char h[96]; snprintf(h, sizeof h, "send %d 6 %lu %u %d ", dev, pgn, dst, (int)pl.size()); X(std::string(h) + hex(d.data(), d.size()) + (tp ? " 1" : " 0"));
}
// data packets of a transfer among the frames the peer saw
static std::vector<Frame> seenDT(unsigned from, unsigned to) { std::vector<Frame> r; for (auto &f : lastFrames) { Dec d = decodeId(f.id); if (d.pgn == 60160UL && d.src == from && d.dst == to) r.push_back(f); } return r; }
static const Frame *seenCM(unsigned from, unsigned to, unsigned ctrl) { for (auto &f : lastFrames) { Dec d = decodeId(f.id); if (d.pgn == 60416UL && d.src == from && d.dst == to && f.buf[0] == ctrl) return &f; } return nullptr; }
static unsigned nodeAddr(int k, int dev) { return M[k].addr[dev]; }

// ---- library sends to the peer (RTS/CTS). fault: 0 none, else see below. returns true if the peer received everything
enum { F_NONE, F_DROP_RTS, F_DROP_CTS, F_DUP_CTS, F_DROP_DT, F_DUP_DT, F_SWAP_DT, F_DROP_ACK, F_PEER_ABORT, F_NEVER, F_LATE, F_HOLD, F_FOREIGN, F_REORDER_CTS, F_COUNT };
static bool txRtsTransfer(Rng &R, int dev, unsigned peer, unsigned long pgn, const std::vector<unsigned char> &pl, int fault, int grant /*0 = random per CTS*/, int at = 0, int thirdKind = 0, unsigned thirdAddr = 0) {
  int k = cur; unsigned me = nodeAddr(k, dev); int npk = ((int)pl.size() + 6) / 7;
  sendTP(dev, pgn, peer, pl, (int)R.below(3));
  if (!lastRet || !seenCM(me, peer, 16)) return false;
  if (fault == F_DROP_RTS || fault == F_NEVER) { C.count("gen_never_answered"); return false; }
  std::vector<unsigned char> got; int have = 0; int faultAt = at ? at : (int)R.range(1, npk); bool faultDone = false; int rounds = 0;
  uint64_t limit = 50;
  while (have < npk && rounds++ < 300) {
    // answer delay
    uint64_t d = R.chance(2, 3) ? R.below(5) : R.below(limit - 1);
    if (fault == F_LATE && !faultDone && have + 1 >= faultAt / 2) { d = limit - 1 + R.below(4); faultDone = true; C.count("gen_late_answer"); }
    if (d) { if (R.chance(1, 2)) { T(d / 2); X("poll"); T(d - d / 2); } else T(d); }
    if (fault == F_HOLD && !faultDone && R.chance(1, 2)) { int holds = (int)R.range(1, 4); for (int i = 0; i < holds; i++) { rxCTS("rx", peer, me, 0, 0xff, pgn); T(R.range(10, 99)); } faultDone = true; C.count("gen_hold"); }
    if (fault == F_FOREIGN && !faultDone && have + 1 >= faultAt / 2) {
      int kind = (int)R.below(5); faultDone = true; C.count("gen_foreign_control");
      if (kind == 0) rxCTS("rx", peer, me, 3, 1, pgn == 126996UL ? 126998UL : 126996UL);            // late CTS of an abandoned earlier session (other PGN)
      else if (kind == 1) rxABORT("rx", (peer + 7) % 250, me, 3, pgn == 126996UL ? 126998UL : 126996UL);   // another node aborts something else
      else if (kind == 2) rxACK("rx", (peer + 7) % 250, me, 30, 5, pgn == 126996UL ? 126998UL : 126996UL);
      else if (kind == 3) rxCTS("rx", (peer + 7) % 250, me, 2, (unsigned)have + 1, pgn);           // CTS for our PGN from a node we are not talking to
      else rxABORT("rx", peer, me, 1, pgn == 126996UL ? 126998UL : 126996UL);
    }
    if (thirdKind && have + 1 >= faultAt / 2) {   // a control frame for OUR PGN from a node we are not (or no longer) talking to: the transfer in progress is unaffected
      C.count("gen_third_party_control");
      if (thirdKind == 1) rxABORT("rx", thirdAddr, me, 1 + (unsigned)(have % 3), pgn);
      else if (thirdKind == 2) rxACK("rx", thirdAddr, me, (unsigned)pl.size(), (unsigned)npk, pgn);
      else rxCTS("rx", thirdAddr, me, 0, 0xff, pgn);
      thirdKind = 0;
    }
    if (fault == F_PEER_ABORT && !faultDone && have + 1 >= faultAt) { rxABORT("rx", peer, me, (unsigned)R.range(1, 3), pgn); C.count("gen_peer_abort"); return false; }
    int n = grant ? grant : (R.chance(1, 6) ? 255 : (int)R.range(1, R.chance(1, 2) ? 5 : 40));
    if (fault == F_DROP_CTS && !faultDone && have + 1 >= faultAt / 2) { C.count("gen_drop_cts"); return false; }   // the CTS is lost: the library hears nothing
    if (fault == F_REORDER_CTS && !faultDone && have + n < npk) {   // two grants arrive in the wrong order
      rxCTS("rx", peer, me, 1, (unsigned)(have + n + 1), pgn); faultDone = true; C.count("gen_reorder_cts");
    }
    rxCTS("rx", peer, me, (unsigned)n, (unsigned)have + 1, pgn);
    if (fault == F_DUP_CTS && !faultDone && have + 1 >= faultAt / 2) { rxCTS("rx", peer, me, (unsigned)n, (unsigned)have + 1, pgn); faultDone = true; C.count("gen_dup_cts"); }
    std::vector<Frame> dts = seenDT(me, peer);
    if (dts.empty()) return false;                       // the library has given up
    if (fault == F_SWAP_DT && !faultDone && dts.size() >= 2) { std::swap(dts[0], dts[1]); faultDone = true; C.count("gen_swap_dt"); }
    if (fault == F_DUP_DT && !faultDone) { dts.insert(dts.begin(), dts[0]); faultDone = true; C.count("gen_dup_dt"); }
    if (fault == F_DROP_DT && !faultDone && have + (int)dts.size() >= faultAt) { dts.erase(dts.begin() + (faultAt - have - 1 < (int)dts.size() ? faultAt - have - 1 : 0)); faultDone = true; C.count("gen_drop_dt"); }
    for (auto &f : dts) {
      if (f.buf[0] != have + 1) {                          // the peer's own receiver: sequence fault -> abort, or ask again from the missing packet
        if (R.chance(1, 2)) { rxABORT("rx", peer, me, 3, pgn); return false; }
        rxCTS("rx", peer, me, 2, (unsigned)have + 1, pgn); return !seenDT(me, peer).empty() && false;
      }
      for (int j = 1; j < 8; j++) got.push_back(f.buf[j]); have++;
    }
    limit = 100;
  }
  if (have < npk) return false;
  got.resize(pl.size());
  if (got != pl) C.fail("C10:peer-received-other-payload", "peer reassembled %s, library sent %s", hex(got.data(), got.size()).c_str(), hex(pl.data(), pl.size()).c_str());
  if (fault == F_DROP_ACK) { C.count("gen_drop_ack"); return true; }
  T(R.below(5)); rxACK("rx", peer, me, (unsigned)pl.size(), (unsigned)npk, pgn);
  C.count("gen_tx_rts_complete");
  return true;
}

// ---- the peer sends to the node (RTS/CTS when `to` is the node's address, BAM when to = 255)
enum { G_NONE, G_DROP_DT, G_DUP_DT, G_SWAP_DT, G_DROP_RTS, G_DUP_RTS, G_STOP, G_ABORT, G_BATCH, G_COUNT };
static bool rxTransfer(Rng &R, unsigned peer, unsigned to, unsigned long pgn, const std::vector<unsigned char> &pl, int fault, int at = 0) {
  unsigned size = (unsigned)pl.size(); int npk = ((int)size + 6) / 7; bool bam = to == 255;
  int faultAt = at ? at : (int)R.range(1, npk); bool faultDone = false;
  if (fault == G_DROP_RTS) C.count("gen_rx_drop_announce");
  else if (bam) rxBAM("rx", peer, size, (unsigned)npk, pgn); else rxRTS("rx", peer, to, size, (unsigned)npk, pgn);
  int window = npk; int next = 1;
  if (!bam && fault != G_DROP_RTS) { const Frame *c = seenCM(to, peer, 17); if (!c) return false; window = c->buf[1]; next = c->buf[2]; }
  const char *op = fault == G_BATCH ? "rxq" : "rx";
  int seq = next; int inWindow = 0;
  while (seq <= npk) {
    if (bam) T(R.chance(1, 2) ? 50 : R.range(0, 120)); else if (R.chance(1, 4)) T(R.below(30));
    int s = seq;
    if (seq == faultAt && !faultDone) {
      faultDone = true;
      if (fault == G_DROP_DT) { C.count("gen_rx_drop_dt"); seq++; inWindow++; continue; }
      if (fault == G_DUP_DT) { C.count("gen_rx_dup_dt"); rxDT(op, peer, to, (unsigned)s, pl); }
      if (fault == G_SWAP_DT && seq < npk) { C.count("gen_rx_swap_dt"); rxDT(op, peer, to, (unsigned)s + 1, pl); }
      if (fault == G_DUP_RTS) { C.count("gen_rx_dup_announce"); if (bam) rxBAM(op, peer, size, (unsigned)npk, pgn); else rxRTS(op, peer, to, size, (unsigned)npk, pgn); }
      if (fault == G_STOP) { C.count("gen_rx_peer_stops"); return false; }
      if (fault == G_ABORT) { C.count("gen_rx_peer_aborts"); rxABORT("rx", peer, to, 3, pgn); return false; }
    }
    rxDT(op, peer, to, (unsigned)s, pl); seq++; inWindow++;
    if (fault == G_BATCH) { if (inWindow >= window || seq > npk || R.chance(1, 5)) X("poll"); else continue; }
    if (!bam) {
      if (seenCM(to, peer, 255)) return false;
      if (seq <= npk && inWindow >= window) { const Frame *c = seenCM(to, peer, 17); if (!c) return false; window = c->buf[1]; inWindow = 0; if (c->buf[2] != seq) seq = c->buf[2]; if (window == 0) return false; }
    }
  }
  return fault == G_NONE || fault == G_BATCH;
}

static void fpTraffic(Rng &R, unsigned from, unsigned long pgn, int len, int seqId) {   // a complete fast-packet message from another node
  std::vector<unsigned char> p = payload(R, len); int frames = len <= 6 ? 1 : 1 + (len - 6 + 6) / 7; unsigned long id = refId(6, pgn, from, 255);
  for (int k = 0; k < frames; k++) {
    unsigned char b[8]; memset(b, 0xff, 8); b[0] = (unsigned char)(seqId * 32 + k);
    if (k == 0) { b[1] = (unsigned char)len; for (int j = 0; j < 6 && j < len; j++) b[2 + j] = p[j]; } else { int off = 6 + 7 * (k - 1); for (int j = 0; j < 7 && off + j < len; j++) b[1 + j] = p[off + j]; }
    X(rxLine("rx", id, b, 8));
  }
}

static int tierN(int quick, int thorough) { return C.thorough ? thorough : quick; }

static void generate(Rng &R, const char *fl) {
  const unsigned PEER = 100;
  // (0) targeted replays of the defects known on the pinned tree come first (a sanitizer abort ends a run)
  {
    resetNode(R, fl, "reset", 1, 5, 1, 40);
    std::vector<unsigned char> pl = payload(R, 60); unsigned me = nodeAddr(0, 0);
    rxRTS("rx", PEER, me, 60, 9, 126996UL); rxDT("rx", PEER, me, 1, pl); X("st");
    X("addr 0 " + std::to_string(me + 1));
    for (int s = 2; s <= 9; s++) rxDT("rx", PEER, me, (unsigned)s, pl);
    X("st"); T(300); X("poll");
    resetNode(R, fl, "reset", 1, 5, 2, 40);
    for (int len : {222, 223, 224}) { std::vector<unsigned char> p = payload(R, len > 223 ? 223 : len); me = nodeAddr(0, 0);
      if (len <= 223) rxTransfer(R, PEER, me, 126996UL, p, G_NONE); else rxRTS("rx", PEER, me, (unsigned)len, 32, 126996UL); T(10); }
  }
  C.sample("targeted: address loss during an RTS/CTS reception (C07:tp-cts-idev); 222/223/224-byte RTS (C10:rx-223)");
  C.sample("sweep: library->peer RTS/CTS for every length 9..223 (grants 1,2,5,32,255,random); BAM for lengths 9..223 with poll cadences 1/10/50/51/random ms; peer->library for every length");
  C.sample("two real nodes back to back over a loss-free channel, RTS/CTS and BAM, `expect` checks the delivery at the far end");
  // (1) library -> peer, RTS/CTS: every length, several grant sizes, no faults
  for (int len = 9; len <= 223; len += tierN(1, 1)) {
    if ((len - 9) % 24 == 0) resetNode(R, fl, "reset", (int)R.range(1, 3), 5, R.chance(1, 2) ? 1 : 2, 40);
    int grants[] = {0, 1, 2, 5, 32, 255}; int g = C.thorough ? -1 : grants[R.below(6)];
    for (int gi = 0; gi < (C.thorough ? 6 : 1); gi++) {
      int dev = (int)R.below(M[0].nDev);
      txRtsTransfer(R, dev, PEER, pickRtsPgn(R), payload(R, len), F_NONE, g < 0 ? grants[gi] : g); T(R.below(20)); if (R.chance(1, 3)) X("poll");
    }
    if (len % 16 == 0) X("st");
  }
  // (2) library -> all (BAM): every length, poll cadences
  for (int len = 9; len <= 223; len += tierN(3, 1)) {
    resetNode(R, fl, "reset", R.chance(1, 4) ? 2 : 1, 5, R.chance(1, 2) ? 1 : 2, 40);
    int dev = (int)R.below(M[0].nDev); std::vector<unsigned char> pl = payload(R, len);
    sendTP(dev, R.chance(1, 3) ? 130816UL : pickPgn(R), 255, pl, 1);
    int npk = (len + 6) / 7; int cad = (int)R.below(5); uint64_t tEnd = g_now + 52ULL * npk + 1000;
    while (g_now < tEnd) { T(cad == 0 ? 1 : (cad == 1 ? 10 : (cad == 2 ? 50 : (cad == 3 ? 51 : R.range(0, 120))))); X("poll"); if (cad == 0 && R.chance(1, 40)) sendTP(dev, 126996UL, 255, pl); }
    X("st");
    sendTP(dev, 126998UL, PEER, payload(R, 20));      // a later transfer proceeds
  }
  // (3) peer -> library: every length, RTS/CTS and BAM, no faults; then 1..N sources concurrently with fast-packet cross traffic
  for (int len = 9; len <= 223; len += tierN(2, 1)) {
    if ((len - 9) % 20 == 0) resetNode(R, fl, "reset", (int)R.range(1, 2), (int)R.range(2, 6), R.chance(1, 2) ? 1 : 2, 40);
    unsigned me = nodeAddr(0, (int)R.below(M[0].nDev));
    rxTransfer(R, PEER + (unsigned)R.below(3), R.chance(1, 3) ? 255 : me, pickPgn(R), payload(R, len), R.chance(1, 6) ? G_BATCH : G_NONE);
    if (R.chance(1, 5)) fpTraffic(R, 77, 129029UL, (int)R.range(9, 60), (int)R.below(8));
    T(R.below(15));
  }
  // (4) single faults, both roles; after every faulty transfer the clock passes the timeouts and a clean transfer must work
  int nf = tierN(250, 5000);
  for (int i = 0; i < nf; i++) {
    resetNode(R, fl, "reset", (int)R.range(1, 2), (int)R.range(1, 5), R.chance(1, 2) ? 1 : 2, R.chance(1, 8) ? 4 : 40);
    int dev = (int)R.below(M[0].nDev); unsigned me = nodeAddr(0, dev);
    int len = R.chance(1, 5) ? (int)R.range(215, 223) : (int)R.range(9, 223);
    unsigned long pgn = pickPgn(R), pgn2 = R.chance(1, 2) ? pgn : pickPgn(R);
    if (R.chance(1, 2)) {
      pgn = pickRtsPgn(R); pgn2 = R.chance(1, 2) ? pgn : pickRtsPgn(R);
      int fault = (int)R.range(1, F_COUNT - 1);
      txRtsTransfer(R, dev, PEER, pgn, payload(R, len), fault, 0);
      int gap = R.chance(1, 2) ? (int)R.range(1300, 1500) : (int)R.range(0, 160);
      for (int g = 0; g < gap; g += 40) { T(40); X("poll"); }
      if (R.chance(1, 4)) X("st");
      txRtsTransfer(R, dev, R.chance(1, 2) ? PEER : PEER + 1, pgn2, payload(R, (int)R.range(9, 100)), F_NONE, 0);
    } else {
      int fault = (int)R.range(1, G_COUNT - 1); unsigned to = R.chance(1, 4) ? 255 : me;
      rxTransfer(R, PEER, to, pgn, payload(R, len), fault);
      if (fault == G_STOP || fault == G_ABORT || fault == G_DROP_RTS || R.chance(1, 2)) { int gap = (int)R.range(1300, 1500); for (int g = 0; g < gap; g += 100) { T(100); X("poll"); } }
      else T(R.below(50));
      if (R.chance(1, 4)) X("st");
      rxTransfer(R, PEER, to, pgn2, payload(R, (int)R.range(9, 100)), G_NONE);
    }
  }
  // (4b) exhaustive small scope: every fault kind at every packet position of short transfers, both roles
  for (int len : {16, 30, 50}) {
    int npk = (len + 6) / 7;
    for (int at = 1; at <= npk; at++) {
      for (int fault = 1; fault < F_COUNT; fault++) {
        resetNode(R, fl, "reset", 1, 3, 1, 40);
        std::vector<unsigned char> pl = payload(R, len);
        txRtsTransfer(R, 0, PEER, 126464UL, pl, fault, (int)R.range(1, 3), at);
        for (int g = 0; g < 1300; g += 100) { T(100); X("poll"); }
        txRtsTransfer(R, 0, PEER, R.chance(1, 2) ? 126464UL : 61184UL, payload(R, 20), F_NONE, 0);
      }
      for (int fault = 1; fault < G_COUNT; fault++) for (int bam = 0; bam < 2; bam++) {
        resetNode(R, fl, "reset", 1, 3, 2, 40);
        unsigned to = bam ? 255 : nodeAddr(0, 0);
        rxTransfer(R, PEER, to, 126996UL, payload(R, len), fault, at);
        if (R.chance(1, 2)) fpTraffic(R, 77, 129029UL, 20, 3);
        for (int g = 0; g < 1300; g += 100) { T(100); X("poll"); }
        rxTransfer(R, PEER, to, R.chance(1, 2) ? 126996UL : 126998UL, payload(R, 20), G_NONE);
      }
    }
  }
  C.count("exhaustive_fault_positions", 1);
  C.sample("exhaustive: every fault kind (drop/dup/reorder of RTS, CTS, DT, ACK; abort; silence; late; hold; foreign control) at every packet position of 16/30/50-byte transfers, both roles, each followed by a clean transfer after 1.3 s");
  // (4c) slot pressure: every slot but one holds an unfinished fast packet of another source, a transport reception that lasts
  //      longer than the 100 ms slot timeout (every packet gap below it) runs in the remaining slot, and in the middle a further
  //      source starts a fast packet: the oldest idle slot may be recycled, never the live transfer
  int np = tierN(60, 600);
  for (int i = 0; i < np; i++) {
    int nslots = (int)R.range(2, 6); resetNode(R, fl, "reset", 1, nslots, R.chance(1, 2) ? 1 : 2, 40);
    unsigned me = nodeAddr(0, 0); bool bam = R.chance(1, 2); unsigned to = bam ? 255 : me;
    int len = R.chance(1, 3) ? 223 : (R.chance(1, 2) ? 70 : (int)R.range(30, 223)); std::vector<unsigned char> pl = payload(R, len); int npk = (len + 6) / 7;
    unsigned long pgn = pickPgn(R); bool tpFirst = R.chance(2, 3);
    auto fillers = [&](int n, unsigned base) { for (int f = 0; f < n; f++) { unsigned char b[8] = {(unsigned char)(32 * (f % 8)), 43, 1, 2, 3, 4, 5, 6}; X(rxLine("rx", refId(6, 129029UL, base + f, 255), b, 8)); if (R.chance(1, 2)) T(R.below(4)); } };
    if (!tpFirst) { fillers(nslots - 1, 70); T(R.below(10)); }
    if (bam) rxBAM("rx", PEER, (unsigned)len, (unsigned)npk, pgn); else rxRTS("rx", PEER, me, (unsigned)len, (unsigned)npk, pgn);
    int window = npk;
    if (!bam) { const Frame *c = seenCM(me, PEER, 17); if (!c) continue; window = c->buf[1]; }
    if (tpFirst) { T(R.below(5)); fillers(nslots - 1, 70); }
    int inWin = 0; uint64_t t0 = g_now; int intruders = 0; bool ok = true;
    for (int seq = 1; seq <= npk && ok; seq++) {
      T(R.chance(1, 2) ? R.range(20, 60) : R.range(5, 99));
      if (g_now - t0 > 100 && intruders < 2 && R.chance(1, 2)) { unsigned char b[8] = {0, 30, 9, 9, 9, 9, 9, 9}; X(rxLine("rx", refId(6, 129540UL, 90 + intruders, 255), b, 8)); intruders++; if (R.chance(1, 3)) X("st"); }
      rxDT("rx", PEER, to, (unsigned)seq, pl); inWin++;
      if (!bam) {
        if (seenCM(me, PEER, 255)) ok = false;
        else if (seq < npk && inWin >= window) { const Frame *c = seenCM(me, PEER, 17); if (!c) ok = false; else { window = c->buf[1]; inWin = 0; } }
      }
    }
    X("st"); C.count("gen_slot_pressure");
  }
  C.sample("slot pressure: all slots but one hold unfinished fast packets of other sources, a BAM / RTS-CTS reception lasting > 100 ms (gaps < 100 ms) must survive further sources starting fast packets (MsgTime refresh per data packet)");
  // (4e) slot recycling by age, directed at the clock values 0, 2^31 and 2^32: every slot is filled with an unfinished fast packet
  //      shortly before the boundary, the transfer starts after it - more than 100 ms later it must get a recycled slot
  //      (CTS, EndOfMsgACK, delivery); less than 100 ms later the refusal is legitimate
  {
    const uint64_t BOUND[] = {0ULL, 0x80000000ULL, 0x100000000ULL};
    int reps = tierN(4, 30);
    for (uint64_t B : BOUND) for (int rep = 0; rep < reps; rep++) for (int bam = 0; bam < 2; bam++) {
      int nslots = (int)R.range(1, 5); uint64_t before = B == 0 ? 0 : R.range(1, 90);
      long long origin = B == 0 ? 0 : (long long)(B - before - 700 - 2 * nslots);
      resetNode(R, fl, "reset", 1, nslots, R.chance(1, 2) ? 1 : 2, 40, false, origin);
      unsigned me = nodeAddr(0, 0);
      for (int f = 0; f < nslots; f++) { unsigned char b[8] = {(unsigned char)(32 * (f % 8)), 43, 1, 2, 3, 4, 5, 6}; X(rxLine("rx", refId(6, 129029UL, 70 + f, 255), b, 8)); T(R.below(3)); }
      bool late = rep % 4 != 3;                         // 3 of 4: clearly older than 100 ms; 1 of 4: younger
      T(before + (late ? R.range(103, 400) : R.range(0, 5)));
      if (R.chance(1, 3)) X("st");
      rxTransfer(R, PEER, bam ? 255 : me, pickPgn(R), payload(R, (int)R.range(9, 60)), G_NONE);
      T(R.range(110, 300));
      rxTransfer(R, PEER + 1, bam ? 255 : me, pickPgn(R), payload(R, (int)R.range(9, 60)), G_NONE);   // a second recycling (bookkeeping no longer exact: count only)
      X("st"); C.count("gen_recycle_at_boundary");
    }
    C.sample("slot recycling by age at clock values 0, 2^31, 2^32: all slots hold unfinished fast packets stamped before the boundary, an RTS / BAM more than 100 ms later must be admitted and complete");
  }
  // (4d) other pending information of the sending device while a transfer is open: an ISO request for product / configuration
  //      information (or the address claim) addressed to the sending device is answered at once, or its answer is refused by
  //      the driver and retried 187+ ms later; the transfer must go on being polled (pacing, timeout, later transfers)
  int nq = tierN(80, 800);
  for (int i = 0; i < nq; i++) {
    bool retry = R.chance(1, 2);
    resetNode(R, fl, "reset", (int)R.range(1, 2), 5, R.chance(1, 2) ? 1 : 2, retry ? (unsigned)R.range(3, 6) : 40);
    int dev = (int)R.below(M[0].nDev); unsigned me = nodeAddr(0, dev);
    int mode3 = (int)R.below(3);        // 0 BAM, 1 RTS never answered, 2 RTS answered slowly
    int len = (int)R.range(60, 223); std::vector<unsigned char> pl = payload(R, len); int npk = (len + 6) / 7;
    unsigned long pgn = mode3 == 0 ? pickPgn(R) : pickRtsPgn(R);
    sendTP(dev, pgn, mode3 == 0 ? 255 : PEER, pl);
    if (!lastRet) continue;
    bool bam = seenCM(me, 255, 32) != nullptr;
    auto request = [&](unsigned long what) { unsigned char b[3] = {(unsigned char)what, (unsigned char)(what >> 8), (unsigned char)(what >> 16)};
      if (retry) X("accdef 0"); X(rxLine("rx", refId(6, 59904UL, PEER + 3, me), b, 3)); if (retry) X("accdef 1"); C.count(retry ? "gen_info_request_refused" : "gen_info_request"); };
    static const unsigned long WHAT[] = {126996UL, 126998UL, 126996UL, 60928UL};
    T(R.range(5, 40)); request(WHAT[R.below(4)]);
    if (R.chance(1, 2)) { T(R.range(1, 30)); request(WHAT[R.below(3)]); }
    if (bam) {
      uint64_t tEnd = g_now + 52ULL * npk + 1000;
      while (g_now < tEnd) { T(R.chance(1, 2) ? 51 : R.range(10, 60)); X("poll"); if (R.chance(1, 60)) request(126996UL); }
    } else if (mode3 == 1) {
      for (int g = 0; g < 600; g += 30) { T(30); X("poll"); }
    } else {
      int have = 0;
      for (int round = 0; round < 80 && have < npk; round++) {
        T(R.range(5, 45)); if (R.chance(1, 3)) X("poll");
        rxCTS("rx", PEER, me, (unsigned)R.range(1, 4), (unsigned)have + 1, pgn); size_t k = seenDT(me, PEER).size(); if (!k) break; have += (int)k;
        if (R.chance(1, 6)) request(WHAT[R.below(3)]);
      }
      if (have >= npk) rxACK("rx", PEER, me, (unsigned)len, (unsigned)npk, pgn);
      for (int g = 0; g < 500; g += 50) { T(50); X("poll"); }
    }
    X("st");
    txRtsTransfer(R, dev, PEER, pickRtsPgn(R), payload(R, (int)R.range(9, 60)), F_NONE, 0);   // a later transfer proceeds
  }
  C.sample("pending information: ISO requests for 126996/126998/60928 addressed to the sending device during BAM / RTS-CTS transfers, answered at once or refused by the driver and retried; pacing, timeout and later transfers must be unaffected");
  // (5) concurrent sessions: several sources towards the node, the node's own transfers, fast-packet traffic, small slot counts
  int nc = tierN(40, 1500);
  for (int i = 0; i < nc; i++) {
    int nslots = (int)R.range(2, 6); resetNode(R, fl, "reset", (int)R.range(1, 3), nslots, R.chance(1, 2) ? 1 : 2, 40);
    struct S { unsigned from, to; unsigned long pgn; std::vector<unsigned char> pl; int next; int window, inWin; bool dead; };
    std::vector<S> ss; int ns = (int)R.range(2, nslots < 4 ? nslots : 4);
    for (int j = 0; j < ns; j++) { S s; s.from = 60 + 10 * j; s.to = R.chance(1, 3) ? 255 : nodeAddr(0, (int)R.below(M[0].nDev)); s.pgn = TP_PGNS[j]; s.pl = payload(R, (int)R.range(9, 120)); s.next = 0; s.window = 0; s.inWin = 0; s.dead = false; ss.push_back(s); }
    bool own = R.chance(1, 2); int ownDev = (int)R.below(M[0].nDev); std::vector<unsigned char> ownPl = payload(R, (int)R.range(30, 223)); int ownHave = 0; bool ownDead = !own;
    if (own) { sendTP(ownDev, 126464UL, PEER, ownPl); ownDead = !lastRet; }
    for (int step = 0; step < 400; step++) {
      bool any = !ownDead; for (auto &s : ss) if (!s.dead) any = true; if (!any) break;
      int pick = (int)R.below(ss.size() + 2);
      if (pick == (int)ss.size()) { if (R.chance(1, 3)) fpTraffic(R, 90, R.chance(1, 2) ? 129029UL : 127489UL, (int)R.range(1, 40), (int)R.below(8)); else T(R.below(8)); continue; }
      if (pick == (int)ss.size() + 1) {
        if (ownDead) continue; unsigned me = nodeAddr(0, ownDev); int npk = ((int)ownPl.size() + 6) / 7;
        if (ownHave >= npk) { rxACK("rx", PEER, me, (unsigned)ownPl.size(), (unsigned)npk, 126464UL); ownDead = true; continue; }
        rxCTS("rx", PEER, me, (unsigned)R.range(1, 6), (unsigned)ownHave + 1, 126464UL); size_t k = seenDT(me, PEER).size(); if (!k) ownDead = true; ownHave += (int)k; continue;
      }
      S &s = ss[pick]; if (s.dead) continue; int npk = ((int)s.pl.size() + 6) / 7; bool bam = s.to == 255;
      if (s.next == 0) { if (bam) { rxBAM("rx", s.from, (unsigned)s.pl.size(), (unsigned)npk, s.pgn); s.window = npk; } else { rxRTS("rx", s.from, s.to, (unsigned)s.pl.size(), (unsigned)npk, s.pgn); const Frame *c = seenCM(s.to, s.from, 17); if (!c) { s.dead = true; continue; } s.window = c->buf[1]; } s.next = 1; s.inWin = 0; continue; }
      rxDT("rx", s.from, s.to, (unsigned)s.next, s.pl); s.next++; s.inWin++;
      if (s.next > npk) { s.dead = true; continue; }
      if (!bam && s.inWin >= s.window) { const Frame *c = seenCM(s.to, s.from, 17); if (!c) { s.dead = true; continue; } s.window = c->buf[1]; s.inWin = 0; }
    }
    X("st");
  }
  // (6) two real nodes back to back over a loss-free in-order channel
  int n2 = tierN(40, 1200);
  for (int i = 0; i < n2; i++) {
    resetNode(R, fl, "reset", 1, 5, R.chance(1, 2) ? 1 : 2, 40); resetNode(R, fl, "reset2", 1, (int)R.range(1, 5), R.chance(1, 2) ? 1 : 2, 40);
    int ntr = (int)R.range(1, 3);
    for (int tr = 0; tr < ntr; tr++) {
      int from = (int)R.below(2), to = 1 - from; bool bam = R.chance(1, 3);
      int len = R.chance(1, 6) ? 223 : (int)R.range(9, 223); std::vector<unsigned char> pl = payload(R, len); pl[0] = (unsigned char)tr; pl[1] = (unsigned char)(0xA0 + tr); unsigned long pgn = R.chance(1, 2) ? TP_PGNS[(i + tr) % 5] : pickRtsPgn(R);
      X("node " + std::to_string(from)); sendTP(0, pgn, bam ? 255 : nodeAddr(to, 0), pl);
      if (!lastRet) continue;
      bam = seenCM(nodeAddr(from, 0), 255, 32) != nullptr;   // a PGN without destination goes out as BAM
      std::vector<Frame> wire[2]; wire[from] = lastFrames; int idle = 0; int side = to;
      for (int step = 0; step < 4000 && idle < 6; step++) {
        X("node " + std::to_string(side));
        for (auto &f : wire[1 - side]) X(rxLine("rxq", f.id & 0x1fffffffUL, f.buf, f.len)); bool had = !wire[1 - side].empty(); wire[1 - side].clear();
        if (bam) T(side == from ? (R.chance(1, 2) ? 51 : R.range(20, 80)) : 0); else if (R.chance(1, 3)) T(R.below(6));
        do { X("poll"); wire[side].insert(wire[side].end(), lastFrames.begin(), lastFrames.end()); } while (M[side].q.size() > 0);
        idle = (had || !wire[side].empty() || (bam && M[from].tx[0].st != 0)) ? 0 : idle + 1; side = 1 - side;
      }
      X("node " + std::to_string(to)); X("expect " + std::to_string(pgn) + " " + hex(pl.data(), pl.size())); C.count(bam ? "gen_e2e_bam" : "gen_e2e_rts");
      T(R.range(100, 300)); X("poll"); X("node " + std::to_string(from)); X("poll");
    }
  }
  // (7) malformed / hostile transport frames (correspondence + sanitizers; the monitor is lenient here)
  int nm = tierN(30, 1500);
  for (int i = 0; i < nm; i++) {
    resetNode(R, fl, "reset", (int)R.range(1, 2), (int)R.range(1, 4), (int)R.below(5), R.chance(1, 3) ? 3 : 40, R.chance(1, 4));
    unsigned me = nodeAddr(0, 0);
    if (R.chance(1, 2)) sendTP(0, pickPgn(R), R.chance(1, 2) ? 255 : PEER, payload(R, (int)R.range(9, 223)));
    for (int j = 0; j < 60; j++) {
      unsigned k = (unsigned)R.below(100);
      if (k < 45) { unsigned char b[8]; for (auto &x : b) x = (unsigned char)R.below(256); static const unsigned char ctl[] = {16, 32, 17, 19, 255, 0, 18}; b[0] = ctl[R.below(7)];
        if (R.chance(2, 3)) { b[1] = (unsigned char)R.range(0, 240); b[2] = R.chance(1, 8) ? 1 : 0; b[3] = (unsigned char)((b[1] + 6) / 7); }
        if (R.chance(1, 2)) { unsigned long p = pickPgn(R); b[5] = (unsigned char)p; b[6] = (unsigned char)(p >> 8); b[7] = (unsigned char)(p >> 16); }
        X(rxLine(R.chance(1, 4) ? "rxq" : "rx", refId((unsigned)R.below(8), 60416UL, R.chance(1, 2) ? PEER : (unsigned)R.below(256), R.chance(1, 2) ? me : (R.chance(1, 2) ? 255 : (unsigned)R.below(256))), b, R.chance(1, 8) ? (unsigned)R.below(8) : 8)); }
      else if (k < 80) { unsigned char b[8]; for (auto &x : b) x = (unsigned char)R.below(256); b[0] = (unsigned char)(R.chance(3, 4) ? R.range(0, 6) : R.below(256));
        X(rxLine(R.chance(1, 4) ? "rxq" : "rx", refId(7, 60160UL, R.chance(2, 3) ? PEER : (unsigned)R.below(256), R.chance(1, 2) ? me : 255), b, R.chance(1, 8) ? (unsigned)R.below(9) : 8)); }
      else if (k < 88) T(R.chance(1, 2) ? R.below(10) : R.range(40, 130));
      else if (k < 94) X("poll");
      else if (k < 97) X("st");
      else if (k < 99) { X("acc " + std::string(R.chance(1, 2) ? "0010" : "000000")); }
      else sendTP(0, pickPgn(R), R.chance(1, 2) ? 255 : PEER, payload(R, (int)R.range(9, 223)));
    }
    X("accdef 1"); X("st");
  }
  // (8) late control frames of third nodes for the PGN being sent: an earlier transfer of PGN X to a silent peer C was abandoned
  //     (or never existed), PGN X now goes to peer B; C's late Abort / EndOfMsgACK / hold for PGN X must not touch the transfer to B
  int n8 = tierN(40, 600);
  for (int i = 0; i < n8; i++) {
    resetNode(R, fl, "reset", (int)R.range(1, 2), 5, R.chance(1, 2) ? 1 : 2, 40);
    int dev = (int)R.below(M[0].nDev); unsigned long pgn = pickRtsPgn(R); unsigned third = PEER + 1 + (unsigned)R.below(20);
    if (R.chance(1, 2)) { txRtsTransfer(R, dev, third, pgn, payload(R, (int)R.range(9, 60)), F_NEVER, 0); int gap = (int)R.range(60, 300); for (int g = 0; g < gap; g += 40) { T(40); X("poll"); } }
    txRtsTransfer(R, dev, PEER, pgn, payload(R, (int)R.range(16, 120)), F_NONE, (int)R.range(1, 3), 0, 1 + (int)R.below(3), third);
    X("st");
  }
  C.sample("third-party control: an Abort / EndOfMsgACK / CTS-hold for the PGN in transfer from a node that is not the transfer's peer (e.g. the silent peer of an abandoned earlier transfer of that PGN) arrives mid-transfer; the transfer must complete");
  // (9) a sending peer with SOURCE ADDRESS 0 next to another source towards the same destination: the other source's transfer
  //     occupies a lower slot and finishes (slot freed) while the session of address 0 is open
  int n9 = tierN(40, 600);
  for (int i = 0; i < n9; i++) {
    int nslots = (int)R.range(2, 6); resetNode(R, fl, "reset", 1, nslots, R.chance(1, 2) ? 1 : 2, 40);
    unsigned me = nodeAddr(0, 0); unsigned to = R.chance(1, 4) ? 255 : me; bool bam = to == 255;
    struct Z { unsigned from; unsigned long pgn; std::vector<unsigned char> pl; int next, window, inWin; bool dead; };
    Z zs[2]; unsigned other = (unsigned)R.range(1, 250); if (other == me) other = me + 1;
    for (int k = 0; k < 2; k++) { zs[k].from = k == 0 ? other : 0; zs[k].pgn = TP_PGNS[(i + k) % 6]; zs[k].pl = payload(R, (int)R.range(16, 80)); zs[k].pl[0] = (unsigned char)(0xC0 + k); zs[k].next = 0; zs[k].window = 0; zs[k].inWin = 0; zs[k].dead = false; }
    auto stepZ = [&](Z &z) {
      if (z.dead) return; int npk = ((int)z.pl.size() + 6) / 7;
      if (z.next == 0) { if (bam) { rxBAM("rx", z.from, (unsigned)z.pl.size(), (unsigned)npk, z.pgn); z.window = npk; } else { rxRTS("rx", z.from, to, (unsigned)z.pl.size(), (unsigned)npk, z.pgn); const Frame *c = seenCM(to, z.from, 17); if (!c) { z.dead = true; return; } z.window = c->buf[1]; } z.next = 1; z.inWin = 0; return; }
      rxDT("rx", z.from, to, (unsigned)z.next, z.pl); z.next++; z.inWin++;
      if (z.next > npk) { z.dead = true; return; }
      if (!bam && z.inWin >= z.window) { const Frame *c = seenCM(to, z.from, 17); if (!c) { z.dead = true; return; } z.window = c->buf[1]; z.inWin = 0; }
    };
    int first = R.chance(3, 4) ? 0 : 1;                 // mostly the other source takes the lower slot
    stepZ(zs[first]); T(R.below(5)); stepZ(zs[1 - first]);
    bool mixed = R.chance(1, 3);
    for (int step = 0; step < 200 && !(zs[0].dead && zs[1].dead); step++) {
      int k = mixed ? (int)R.below(2) : (zs[first].dead ? 1 - first : first);
      if (zs[k].dead) k = 1 - k;
      stepZ(zs[k]); if (R.chance(1, 3)) T(R.below(bam ? 40 : 8));
    }
    X("st"); C.count("gen_peer_address_0");
  }
  C.sample("peer at source address 0: its RTS/CTS or BAM transfer runs while another source's transfer to the same destination finishes in a lower receive slot; every packet of address 0 must go to its own session (one delivery each, acknowledged)");
}

int main(int argc, char **argv) {
  C.init(argc, argv);
  captureInfo();
  C.rule = "case = one or two nodes (reset[/reset2]) with the op sequence of a scripted peer; non-trivial = a TP session ran (RTS/BAM seen in either role); distinct = hash of the op sequence";
#ifdef N2K_VERIF_T32
  const char *flavor = "t32";
#else
  const char *flavor = "t64";
#endif
  if (!C.replay.empty()) {
    for (auto &l : readLines(C.replay)) {
      std::vector<std::string> w = split(l);
      if ((w[0] == "reset" || w[0] == "reset2") && w.size() >= 8 && w[7].find(':') != std::string::npos) {
        // recorded form "reset fl qsize nslots mode now onlyKnown src:name..." -> regenerate (origin = now-700)
        int devs = (int)w.size() - 7; unsigned long long now = strtoull(w[5].c_str(), 0, 10);
        char b[200]; snprintf(b, sizeof b, "%s %s %s %s %s %d %llu %s", w[0].c_str(), flavor, w[2].c_str(), w[3].c_str(), w[4].c_str(), devs, now >= 700 ? now - 700 : 0, w[6].c_str());
        exec(b);
      } else exec(l);
    }
    endCase(); C.finish(); return 0;
  }
  uint64_t z = C.seed * 0x9E3779B97F4A7C15ULL; z ^= z >> 29; z *= 0xBF58476D1CE4E5B9ULL; z ^= z >> 32;
  Rng R(z ^ 0xC10);
  generate(R, flavor);
  endCase();
  C.finish();
  return 0;
}
