import N2k.Model.Handlers
import N2k.Model.Rx
/-!
# Node-level receive path for C14: CAN driver queue → `ParseMessages` → receive model of C02 → handler list

`ParseMessages` reads at most `MaxReadFramesOnParse` (20 in the pinned tree; here a parameter `k` of every poll) frames from the driver per call
(`while (FramesRead<MaxReadFramesOnParse && CANGetFrame(...))`: a frame is taken out of the driver only when it is going
to be handled) and for each: `MsgIndex=SetN2kCANBufMsg(...)`; if a message is complete `HandleReceivedSystemMessage /
ForwardMessage`, `RunMessageHandlers(N2kCANMsgBuf[MsgIndex].N2kMsg)`, `FreeMessage()`.
`N2k.Rx.rx` (C02, imported unchanged) is "`SetN2kCANBufMsg` + deliver + `FreeMessage`" and returns the completed message,
if any; here it is handed to `dispatch` of `Model/Handlers.lean`.  Whether the library also consumed the message itself
(`HandleReceivedSystemMessage`) has no influence on the call of `RunMessageHandlers`.

`ForwardMode` is a bit set written by `SetForwardSystemMessages` (bit 1), `SetForwardOnlyKnownMessages` (2),
`SetForwardOwnMessages` (3), `SetHandleOnlyKnownMessages` (4) (`mode`, one Bool per bit; `|= bit` / `&= ~bit` of a
one-bit mask = update of that bit); `HandleOnlyKnownMessages()` reads bit 4.

The receive model `N2k.Rx` covers single frames, fast packets and the slot a TP.CM RTS/BAM takes (incl. the length and
known-message gates).  The payload reassembly from TP.DT packets is the receiver of C10 (`N2k.TP`, a different state
space, not composed).  Its verdict is an INPUT: a queued TP.DT frame may carry the annotation `some m` = "this is the last
in-sequence packet of a transfer carrying message `m`".  The model then delivers `m` iff the session's slot is (still) open
in the receive model, and frees it (`FreeMessage()`).
-/
namespace N2k.Handlers

/-- one call of `RunMessageHandlers` as the application sees it -/
structure Call where
  bus : BusId
  msg : Rx.Msg              -- the message object passed to the callback and to every `HandleMsg`
  cb : Nat                  -- times the plain callback ran
  hs : List Id              -- handler objects whose `HandleMsg` ran, in call order
deriving DecidableEq, Repr

/-- a frame in the driver with the TP-receiver input (only read for TP.DT frames) -/
abbrev QFrame := Rx.Frame × Option Rx.Msg

/-- receive side of all bus objects -/
structure RxSide where
  mode : BusId → Nat → Bool          -- bits of `ForwardMode`
  st : BusId → Rx.St                 -- receive slots
  drv : BusId → List QFrame          -- frames waiting in the CAN driver, oldest first

structure Node where
  w : World
  r : RxSide

inductive Ev where
  | op (o : Op)                                           -- client operation on handlers
  | setMode (bus : BusId) (bit : Nat) (v : Bool)          -- one of the `Set...Messages(v)` calls
  | arrive (bus : BusId) (f : Rx.Frame) (tp : Option Rx.Msg)   -- the CAN controller received a frame
  | poll (bus : BusId) (now : Nat) (k : Nat)              -- `ParseMessages()` of that bus at time `now`, reading at most `k` frames

/-- `MaxReadFramesOnParse` of the pinned tree; the property leaves the batch size open, so it is a parameter of every poll -/
def maxRead : Nat := 20

def upd {α : Type} (g : BusId → α) (b : BusId) (a : α) : BusId → α := fun x => if x = b then a else g x

/-- `HandleOnlyKnownMessages()` = bit 4 of `ForwardMode`; the PGN lists come from the parameter `c` -/
def effCfg (c : BusId → Rx.Cfg) (mode : BusId → Nat → Bool) (b : BusId) : Rx.Cfg :=
  { c b with knownOnly := mode b 4 }

/-- open TP session that carries `m` -/
def tpSession (st : Rx.St) (m : Rx.Msg) : Option Nat :=
  if Rx.findFirst st (Rx.tpMatchP m.pgn m.src m.dst) st.N 0 < st.N
      ∧ (st.slot (Rx.findFirst st (Rx.tpMatchP m.pgn m.src m.dst) st.N 0)).free = false
  then some (Rx.findFirst st (Rx.tpMatchP m.pgn m.src m.dst) st.N 0) else none

/-- one frame read by `ParseMessages`: new slots and the message it completes -/
def rxFrame (cfg : Rx.Cfg) (st : Rx.St) (now : Nat) (q : QFrame) : Rx.St × Option Rx.Msg :=
  match (if q.1.pgn = 60160 then q.2 else none) with
  | some m =>
    match tpSession st m with
    | some i => (Rx.setSlot st i (Rx.freeSlot (st.slot i)), some m)
    | none => (st, none)
  | none => Rx.rx cfg st now q.1

/-- the frames of one `ParseMessages` call, in order -/
def rxBatch (cfg : Rx.Cfg) (now : Nat) : Rx.St → List QFrame → Rx.St × List Rx.Msg
  | st, [] => (st, [])
  | st, q :: qs =>
    ((rxBatch cfg now (rxFrame cfg st now q).1 qs).1,
     (rxFrame cfg st now q).2.toList ++ (rxBatch cfg now (rxFrame cfg st now q).1 qs).2)

/-- receive side only (no handlers): new state and the messages completed by this event, in order -/
def rxTrack (c : BusId → Rx.Cfg) (r : RxSide) : Ev → RxSide × List (BusId × Rx.Msg)
  | .op _ => (r, [])
  | .setMode b bit v => ({ r with mode := upd r.mode b (fun k => if k = bit then v else r.mode b k) }, [])
  | .arrive b f tp => ({ r with drv := upd r.drv b (r.drv b ++ [(f, tp)]) }, [])
  | .poll b now k =>
    ({ r with st := upd r.st b (rxBatch (effCfg c r.mode b) now (r.st b) ((r.drv b).take k)).1,
              drv := upd r.drv b ((r.drv b).drop k) },
     (rxBatch (effCfg c r.mode b) now (r.st b) ((r.drv b).take k)).2.map fun m => (b, m))

/-- `RunMessageHandlers` for each completed message, in order (the handlers do not change in between) -/
def dispatchAll (w : World) : List (BusId × Rx.Msg) → Option (List Call)
  | [] => some []
  | bm :: rest =>
    match dispatch w bm.1 bm.2.pgn with
    | none => none
    | some r =>
      match dispatchAll w rest with
      | none => none
      | some cs => some (⟨bm.1, bm.2, r.1, r.2⟩ :: cs)

/-- one event: client operation, or receive step followed by `RunMessageHandlers` for every completed message -/
def nodeStep (c : BusId → Rx.Cfg) (n : Node) (e : Ev) : Option (Node × List Call) :=
  match e with
  | .op o =>
    match step n.w o with
    | none => none
    | some w' => some (⟨w', n.r⟩, [])
  | e =>
    match dispatchAll n.w (rxTrack c n.r e).2 with
    | none => none
    | some cs => some (⟨n.w, (rxTrack c n.r e).1⟩, cs)

/-- a whole history; for every event the calls of `RunMessageHandlers` it caused (aligned with the history) -/
def nodeRun (c : BusId → Rx.Cfg) : Node → List Ev → Option (Node × List (List Call))
  | n, [] => some (n, [])
  | n, e :: evs =>
    match nodeStep c n e with
    | none => none
    | some r =>
      match nodeRun c r.1 evs with
      | none => none
      | some r2 => some (r2.1, r.2 :: r2.2)

end N2k.Handlers
