import N2k.Model.Heartbeat
/-!
# The heartbeat grid (C12): `UpdateNextTime` always lands on the least grid point after "now"
-/
namespace N2k.Heartbeat
open N2k.Time

/-- the grid of a scheduler: `base + j·p` -/
def OnGrid (base p x : Nat) : Prop := ∃ j, x = base + j * p

/-- least grid point strictly after `t` -/
def gridNext (base p t : Nat) : Nat := if base > t then base else base + ((t - base) / p + 1) * p

theorem gridNext_onGrid (base p t : Nat) : OnGrid base p (gridNext base p t) := by
  unfold gridNext OnGrid
  by_cases h : base > t
  · exact ⟨0, by simp [h]⟩
  · exact ⟨(t - base) / p + 1, by simp [h]⟩

theorem gridNext_gt {base p t : Nat} (hp : 0 < p) : t < gridNext base p t := by
  unfold gridNext
  by_cases h : base > t
  · simp only [if_pos h]; exact h
  · simp only [if_neg h]
    have h1 : t - base < ((t - base) / p + 1) * p := by
      have := Nat.lt_mul_div_succ (t - base) hp
      rw [Nat.mul_comm]; exact this
    omega

theorem gridNext_least {base p t x : Nat} (hp : 0 < p) (hx : OnGrid base p x) (ht : t < x) :
    gridNext base p t ≤ x := by
  obtain ⟨j, rfl⟩ := hx
  unfold gridNext
  by_cases h : base > t
  · simp only [if_pos h]; omega
  · simp only [if_neg h]
    -- j*p > t - base ≥ q*p, hence j ≥ q+1
    have hq : (t - base) / p * p ≤ t - base := Nat.div_mul_le_self _ _
    have hj : (t - base) / p < j := by
      apply Decidable.byContradiction
      intro hn
      have : j * p ≤ (t - base) / p * p := Nat.mul_le_mul_right p (Nat.le_of_not_lt hn)
      omega
    have : ((t - base) / p + 1) * p ≤ j * p := Nat.mul_le_mul_right p hj
    omega

/-- `gridNext` does not exceed `t + p` and is at most `max base (t+p)` -/
theorem gridNext_le {base p t : Nat} : gridNext base p t ≤ max base (t + p) := by
  unfold gridNext
  by_cases h : base > t
  · simp only [if_pos h]; omega
  · simp only [if_neg h]
    have hq : (t - base) / p * p ≤ t - base := Nat.div_mul_le_self _ _
    have : ((t - base) / p + 1) * p = (t - base) / p * p + p := by rw [Nat.add_mul, Nat.one_mul]
    omega

/-- `UpdateNextTime()` of an enabled scheduler: period, offset kept; `NextTime` = least grid point after now -/
theorem updateNextTime_enabled {so now : Nat} {s : SyncSched} (hp : s.period ≠ 0) :
    s.updateNextTime so now = { s with next := gridNext (so + s.offset) s.period now } := by
  unfold SyncSched.updateNextTime gridNext
  simp only [if_neg hp]
  have e : s.offset + so = so + s.offset := Nat.add_comm _ _
  rw [e]
  by_cases h : so + s.offset > now
  · simp only [if_pos h]
  · simp only [if_neg h]

theorem updateNextTime_zero {so now : Nat} {s : SyncSched} (hp : s.period = 0) :
    s.updateNextTime so now = s.disable := by
  unfold SyncSched.updateNextTime; simp only [if_pos hp]

theorem updateNextTime_period (so now : Nat) (s : SyncSched) : (s.updateNextTime so now).period = s.period := by
  unfold SyncSched.updateNextTime SyncSched.disable; split
  · rfl
  · split <;> rfl

theorem updateNextTime_offset (so now : Nat) (s : SyncSched) : (s.updateNextTime so now).offset = s.offset := by
  unfold SyncSched.updateNextTime SyncSched.disable; split
  · rfl
  · split <;> rfl

/-! ## a device's scheduler under an arbitrary history of polls -/

/-- what `SendHeartbeat(false)` does with the scheduler of one (not claiming) device at a poll at time `t`:
new scheduler, and the deadline that fired (if it did) -/
def pollSched (so : Nat) (s : SyncSched) (t : Nat) : SyncSched × Option Nat :=
  if s.isTime t then (s.updateNextTime so t, some s.next) else (s, none)

/-- polls at the times `ts` (any times, any spacing): final scheduler and the list of
(poll time at which a heartbeat was sent, grid point it was sent for) -/
def runPolls (so : Nat) : SyncSched → List Nat → SyncSched × List (Nat × Nat)
  | s, [] => (s, [])
  | s, t :: ts =>
    let r := pollSched so s t
    let rest := runPolls so r.1 ts
    (rest.1, (match r.2 with | some g => [(t, g)] | none => []) ++ rest.2)

/-- time of the last update of the scheduler: the last heartbeat, or the initial update time -/
def lastUpdate (t0 : Nat) (fires : List (Nat × Nat)) : Nat := (fires.getLast?.map (·.1)).getD t0

theorem lastUpdate_cons_ne (t0 : Nat) (a : Nat × Nat) (l : List (Nat × Nat)) :
    lastUpdate t0 (a :: l) = lastUpdate a.1 l := by
  unfold lastUpdate
  cases l with
  | nil => rfl
  | cons b t =>
    rw [List.getLast?_cons_cons]
    cases hh : (b :: t).getLast? with
    | none => simp at hh
    | some x => rfl

/-- the history theorem behind `C12_grid` -/
theorem runPolls_grid (so : Nat) (ts : List Nat) :
    ∀ (s : SyncSched) (t0 : Nat), s.period ≠ 0 → s.next = gridNext (so + s.offset) s.period t0 →
      let r := runPolls so s ts
      r.1.period = s.period ∧ r.1.offset = s.offset ∧
      r.1.next = gridNext (so + s.offset) s.period (lastUpdate t0 r.2) ∧
      (r.2.map (·.1)).Sublist ts ∧
      (∀ e ∈ r.2, OnGrid (so + s.offset) s.period e.2 ∧ e.2 < e.1) ∧
      r.2.Pairwise (fun a b => a.2 < b.2) ∧
      (∀ e ∈ r.2, s.next ≤ e.2) := by
  induction ts with
  | nil => intro s t0 _ hn; exact ⟨rfl, rfl, hn, List.Sublist.refl _, by simp [runPolls], by simp [runPolls], by simp [runPolls]⟩
  | cons t ts ih =>
    intro s t0 hp hn
    by_cases ht : s.isTime t = true
    · -- the heartbeat is due: it fires for the grid point `s.next`, and the scheduler moves to the next grid point after t
      have hlt : s.next < t := by unfold SyncSched.isTime at ht; exact of_decide_eq_true ht
      have hu := updateNextTime_enabled (so := so) (now := t) hp
      have hr : pollSched so s t = ({ s with next := gridNext (so + s.offset) s.period t }, some s.next) := by
        unfold pollSched; simp only [if_pos ht, hu]
      obtain ⟨i1, i2, i3, i4, i5, i6, i7⟩ := ih { s with next := gridNext (so + s.offset) s.period t } t hp rfl
      simp only [runPolls, hr, List.singleton_append]
      refine ⟨i1, i2, ?_, ?_, ?_, ?_, ?_⟩
      · rw [lastUpdate_cons_ne]; exact i3
      · simpa using i4.cons₂ t
      · intro e he
        rcases List.mem_cons.mp (by simpa using he) with rfl | he
        · exact ⟨by rw [hn]; exact gridNext_onGrid _ _ _, hlt⟩
        · exact i5 e he
      · simp only [List.pairwise_cons]
        refine ⟨?_, i6⟩
        intro e he
        have := i7 e he
        have hg : t < gridNext (so + s.offset) s.period t := gridNext_gt (Nat.pos_of_ne_zero hp)
        simp only at this; omega
      · intro e he
        rcases List.mem_cons.mp (by simpa using he) with rfl | he
        · exact Nat.le_refl _
        · have := i7 e he
          have hg : t < gridNext (so + s.offset) s.period t := gridNext_gt (Nat.pos_of_ne_zero hp)
          simp only at this; omega
    · have hr : pollSched so s t = (s, none) := by unfold pollSched; simp only [if_neg ht]
      obtain ⟨i1, i2, i3, i4, i5, i6, i7⟩ := ih s t0 hp hn
      simp only [runPolls, hr, List.nil_append]
      exact ⟨i1, i2, i3, i4.cons t, i5, i6, i7⟩

end N2k.Heartbeat
