import N2k.Lemmas.TPSafeSame
import N2k.Lemmas.TPRecvStep
/-! C10 / C07 receiver safety, part 3: one received frame keeps the invariant. -/
namespace N2k.TP
open N2k.Send N2k.Time N2k.Spec

/-- the node's receive slots and handler log satisfy the invariant against the history of transport events -/
def NodeInv (n : Node) (evs : List TpEv) : Prop := RxInv n.slots n.out evs

theorem NodeInv.same {n n' : Node} {evs : List TpEv} (h : NodeInv n evs) (hs : SameRx n n') : NodeInv n' evs := by
  unfold NodeInv; rw [hs.1, hs.2]; exact h

theorem tpStep_other (src dst : Nat) (st : Option TpSess) : tpStep src dst st .other = st := rfl

/-- the slot is freed and (for a transfer that did not come by TP) logged: the invariant survives -/
theorem deliver_inv (n : Node) (j : Nat) (evs : List TpEv) (h : NodeInv n evs)
    (hg : ∀ a, n.slots[j]? = some a → a.tp = true → Good evs (deliveryOf a)) : NodeInv (deliver n j) evs := by
  unfold deliver
  cases ha : n.slots[j]? with
  | none => exact h
  | some a =>
    simp only []
    have hs := same_systemMessage n a
    unfold NodeInv
    simp only [hs.1, hs.2]
    have hw : Weaken n.slots (n.slots.set j (freeMessage a)) := Weaken.set _ _ _ (not_live_free a)
    refine ⟨?_, ?_, ?_⟩
    · intro b hb hl
      obtain ⟨k, hk⟩ := List.getElem?_of_mem hb
      exact h.expl b (List.mem_of_getElem? (hw k b hk hl)) hl
    · intro k k' b b' hb hb' hl hl' e1 e2
      exact h.uniq k k' b b' (hw k b hb hl) (hw k' b' hb' hl') hl hl' e1 e2
    · intro d hd ht
      rcases List.mem_append.1 hd with hd | hd
      · exact h.good d hd ht
      · simp only [List.mem_singleton] at hd; subst hd
        exact hg a ha (by simpa [deliveryOf] using ht)

/-! ## frames that are not transport-protocol frames -/

theorem handleOther_rx (n : Node) (prio pgn src dst len : Nat) (buf : List Nat) :
    Weaken n.slots (handleOther n prio pgn src dst len buf).1.slots ∧ (handleOther n prio pgn src dst len buf).1.out = n.out ∧
    ∀ j a, (handleOther n prio pgn src dst len buf).2 = some j → (handleOther n prio pgn src dst len buf).1.slots[j]? = some a → a.tp = false := by
  unfold handleOther
  simp only []
  by_cases h1 : ¬ ((checkKnown pgn).1 = true ∨ ¬ n.onlyKnown = true)
  · rw [if_pos h1]; exact ⟨Weaken.refl _, rfl, fun j a hj => by cases hj⟩
  rw [if_neg h1]
  by_cases h2 : (checkKnown pgn).2 = true ∧ buf.getD 0 0 &&& 0x1f ≠ 0
  · rw [if_pos h2]
    cases hf : findIdx (fun a => a.pgn == pgn && a.src == src && !a.tp) n.slots with
    | none => exact ⟨Weaken.refl _, rfl, fun j a hj => by cases hj⟩
    | some j =>
      simp only []
      cases ha : n.slots[j]? with
      | none => exact ⟨Weaken.refl _, rfl, fun j a hj => by cases hj⟩
      | some a =>
        simp only []
        obtain ⟨a', ha', hp⟩ := findIdx_get _ _ _ hf
        rw [ha] at ha'; cases ha'
        have htp : a.tp = false := by
          simp only [Bool.and_eq_true, Bool.not_eq_true'] at hp; exact hp.2
        by_cases hs : a.lastFrame + 1 = buf.getD 0 0
        · rw [if_pos hs]
          refine ⟨Weaken.set _ _ _ (by simp [Live, htp]), rfl, ?_⟩
          intro k b hk hb
          by_cases hkj : j = k
          · subst hkj
            have hjl : j < n.slots.length := by
              rcases Nat.lt_or_ge j n.slots.length with h | h
              · exact h
              · rw [List.getElem?_eq_none h] at ha; cases ha
            simp only [Node.setSlot, List.getElem?_set_self hjl, Option.some.injEq] at hb
            rw [← hb]; exact htp
          · split at hk
            · cases hk; exact absurd rfl hkj
            · cases hk
        · rw [if_neg hs]
          exact ⟨Weaken.set _ _ _ (not_live_free a), rfl, fun j a hj => by cases hj⟩
  · rw [if_neg h2]
    have hw := Weaken.findFree n.slots (millis32 n.s.now) pgn src dst false
    cases hff : (findFree n.slots (millis32 n.s.now) pgn src dst false).2 with
    | none => exact ⟨hw, rfl, fun j a hj => by cases hj⟩
    | some j =>
      simp only []
      generalize hb0 : firstSlot ((findFree n.slots (millis32 n.s.now) pgn src dst false).1[j]?) (checkKnown pgn).2 prio pgn src dst
        (millis32 n.s.now) len buf = b
      have hbt : b.tp = false := by rw [← hb0]; rfl
      refine ⟨hw.trans (Weaken.set _ _ _ (by simp [Live, hbt])), rfl, ?_⟩
      intro k c hk hc
      by_cases hd : b.data.length ≥ b.dataLen
      · rw [if_pos hd] at hk; cases hk
        by_cases hjl : j < (findFree n.slots (millis32 n.s.now) pgn src dst false).1.length
        · simp only [Node.setSlot, List.getElem?_set_self hjl, Option.some.injEq] at hc
          rw [← hc]; exact hbt
        · simp only [Node.setSlot] at hc
          rw [List.getElem?_eq_none (by simpa using hjl)] at hc; cases hc
      · rw [if_neg hd] at hk; cases hk

/-! ## TP.CM announce -/

theorem live_not_pair {src dst : Nat} {b : Slot} (hl : Live b) (hs : sessOf src dst b = false) : ¬ (src = b.src ∧ dst = b.dst) := by
  intro h
  simp [sessOf, hl.1, hl.2, h.1, h.2] at hs

theorem live_pair {src dst : Nat} {b : Slot} (hs : sessOf src dst b = true) : Live b ∧ b.src = src ∧ b.dst = dst := by
  simp only [sessOf, Bool.and_eq_true, Bool.not_eq_true', beq_iff_eq] at hs
  exact ⟨⟨hs.1.1.1, hs.1.1.2⟩, hs.2, hs.1.2⟩

theorem tpStep_announce_ne (src dst s d pgn size : Nat) (st : Option TpSess) (h : ¬ (s = src ∧ d = dst)) :
    tpStep src dst st (.announce s d pgn size) = st := by simp [tpStep, h]

theorem tpStep_data_ne (src dst s d seq : Nat) (bytes : List Nat) (st : Option TpSess) (h : ¬ (s = src ∧ d = dst)) :
    tpStep src dst st (.data s d seq bytes) = st := by simp [tpStep, h]

/-- a new live slot for a pair that has none: the invariant goes on if the slot is explained -/
theorem RxInv.addSession {S : List Slot} {out : List Delivery} {evs : List TpEv} (h : RxInv S out evs) (j : Nat) (b : Slot)
    (hnp : ∀ c ∈ S, Live c → ¬ (c.src = b.src ∧ c.dst = b.dst)) (he : Expl evs b) : RxInv (S.set j b) out evs := by
  refine ⟨?_, ?_, h.good⟩
  · intro c hc hl
    rcases List.mem_or_eq_of_mem_set hc with hc | hc
    · exact h.expl c hc hl
    · subst hc; exact he
  · intro k k' c c' hc hc' hl hl' e1 e2
    by_cases hk : j = k <;> by_cases hk' : j = k'
    · omega
    · subst hk
      have hjl : j < S.length := by
        rcases Nat.lt_or_ge j S.length with h | h
        · exact h
        · rw [List.getElem?_eq_none (by simpa using h)] at hc; cases hc
      rw [List.getElem?_set_self hjl] at hc; cases hc
      rw [List.getElem?_set_ne hk'] at hc'
      exact absurd ⟨e1.symm, e2.symm⟩ (hnp c' (List.mem_of_getElem? hc') hl')
    · subst hk'
      have hjl : j < S.length := by
        rcases Nat.lt_or_ge j S.length with h | h
        · exact h
        · rw [List.getElem?_eq_none (by simpa using h)] at hc'; cases hc'
      rw [List.getElem?_set_self hjl] at hc'; cases hc'
      rw [List.getElem?_set_ne hk] at hc
      exact absurd ⟨e1, e2⟩ (hnp c (List.mem_of_getElem? hc) hl)
    · rw [List.getElem?_set_ne hk] at hc; rw [List.getElem?_set_ne hk'] at hc'
      exact h.uniq k k' c c' hc hc' hl hl' e1 e2

theorem handleStart_inv (n : Node) (evs : List TpEv) (h : NodeInv n evs) (src dst : Nat) (isRts : Bool) (iDev : Option Nat)
    (tpgn nBytes maxPk : Nat) :
    NodeInv (handleStart n src dst isRts iDev tpgn nBytes maxPk) (evs ++ [.announce src dst tpgn nBytes]) := by
  have hw1 := Weaken.mapFree n.slots src dst
  have hw2 := Weaken.findFree (n.slots.map (freeSess src dst)) (millis32 n.s.now) tpgn src dst true
  generalize hS : (findFree (n.slots.map (freeSess src dst)) (millis32 n.s.now) tpgn src dst true).1 = S at hw2
  have hnp : ∀ c ∈ S, Live c → ¬ (src = c.src ∧ dst = c.dst) := by
    intro c hc hl
    obtain ⟨k, hk⟩ := List.getElem?_of_mem hc
    have h1 := hw2 k c hk hl
    rw [List.getElem?_map] at h1
    cases hx : n.slots[k]? with
    | none => rw [hx] at h1; cases h1
    | some x =>
      rw [hx] at h1; simp only [Option.map_some, Option.some.injEq] at h1
      exact live_not_pair hl (by rw [← h1]; exact sessOf_freeSess src dst x)
  have hbase : RxInv S n.out (evs ++ [.announce src dst tpgn nBytes]) :=
    RxInv.weaken h (hw1.trans hw2) _ (fun b hb hl => tpStep_announce_ne _ _ _ _ _ _ _ (hnp b hb hl))
  have hN1 : ∀ m : Node, SameRx { n with slots := S } m → NodeInv m (evs ++ [.announce src dst tpgn nBytes]) :=
    fun m hm => NodeInv.same (n := { n with slots := S }) hbase hm
  unfold handleStart
  simp only [hS]
  cases hj : (findFree (n.slots.map (freeSess src dst)) (millis32 n.s.now) tpgn src dst true).2 with
  | none =>
    simp only []
    split
    · exact hN1 _ (same_sendAbort _ _ _ _ _)
    · exact hN1 _ (SameRx.refl _)
  | some j =>
    simp only []
    by_cases hadm : nBytes ≤ 223 ∧ ((checkKnown tpgn).1 = true ∨ ¬ n.onlyKnown = true)
    · rw [if_pos hadm]
      have hexp : ∀ b : Slot, b.free = false → b.tp = true → b.src = src → b.dst = dst → b.pgn = tpgn → b.dataLen = nBytes →
          b.lastFrame = 0 → b.data = [] → RxInv (S.set j b) n.out (evs ++ [.announce src dst tpgn nBytes]) := by
        intro b h1 h2 h3 h4 h5 h6 h7 h8
        apply hbase.addSession j b
        · intro c hc hl; rw [h3, h4]; intro hh; exact hnp c hc hl ⟨hh.1.symm, hh.2.symm⟩
        · refine ⟨by rw [h6]; exact hadm.1, ⟨tpgn, nBytes, []⟩, ?_, h5.symm, h6.symm, by rw [h7]; rfl, by rw [h8]; rfl⟩
          rw [tpTrack_snoc, h3, h4]; simp [tpStep]
      split
      · have := hexp { startSlot (S[j]?.getD {}) tpgn src dst (millis32 n.s.now) nBytes maxPk with reqCTS := tpCtsPackets maxPk }
          rfl rfl rfl rfl rfl rfl rfl rfl
        unfold NodeInv
        simp only [Node.setSlot]
        rw [(same_sendCTS _ tpgn src (iDev.getD 0) maxPk 1).1, (same_sendCTS _ tpgn src (iDev.getD 0) maxPk 1).2]
        simp only [List.set_set]
        exact this
      · have := hexp { startSlot (S[j]?.getD {}) tpgn src dst (millis32 n.s.now) nBytes maxPk with maxPackets := 0xff }
          rfl rfl rfl rfl rfl rfl rfl rfl
        exact this
    · rw [if_neg hadm]
      split
      · exact hN1 _ (same_sendAbort _ _ _ _ _)
      · exact hN1 _ (SameRx.refl _)

/-! ## TP.DT -/

theorem take_copy (flat bytes : List Nat) :
    flat.take 223 ++ bytes.take (223 - (flat.take 223).length) = (flat ++ bytes).take 223 := by
  rw [List.take_append, List.length_take]
  by_cases h : flat.length ≤ 223
  · rw [Nat.min_eq_right h]
  · have h1 : 223 - flat.length = 0 := by omega
    have h2 : 223 - min 223 flat.length = 0 := by omega
    rw [h1, h2]

theorem copyBuf_flat (pk : List (List Nat)) (len : Nat) (buf : List Nat) :
    copyBuf (pk.flatten.take 223) 1 len buf = (pk ++ [(buf.take len).drop 1]).flatten.take 223 := by
  unfold copyBuf
  rw [take_copy, List.flatten_append]
  simp

theorem handleData_inv (n : Node) (evs : List TpEv) (h : NodeInv n evs) (src dst len : Nat) (buf : List Nat) :
    NodeInv (finish (handleData n src dst len buf)) (evs ++ [.data src dst (buf.getD 0 0) ((buf.take len).drop 1)]) := by
  unfold handleData
  simp only []
  cases hf : findIdx (sessOf src dst) n.slots with
  | none =>
    simp only [finish]
    refine RxInv.weaken h (Weaken.refl _) _ ?_
    intro b hb hl
    apply tpStep_data_ne
    intro hp
    have : sessOf src dst b = true := by simp [sessOf, hl.1, hl.2, hp.1, hp.2]
    obtain ⟨k, hk⟩ := findIdx_exists (sessOf src dst) n.slots ⟨b, hb, this⟩
    rw [hf] at hk; cases hk
  | some j =>
    simp only []
    obtain ⟨a, ha, hsa⟩ := findIdx_get _ _ _ hf
    obtain ⟨hla, hasrc, hadst⟩ := live_pair hsa
    have hjl : j < n.slots.length := findIdx_lt _ _ _ hf
    rw [ha]
    simp only []
    -- any other live slot belongs to another pair
    have hother : ∀ (k : Nat) (b : Slot), k ≠ j → n.slots[k]? = some b → Live b → ¬ (src = b.src ∧ dst = b.dst) := by
      intro k b hk hb hl hp
      exact hk (h.uniq k j b a hb ha hl hla (by rw [hasrc]; exact hp.1.symm) (by rw [hadst]; exact hp.2.symm))
    obtain ⟨h223, x, hx, hxp, hxs, hxl, hxd⟩ := h.expl a (List.mem_of_getElem? ha) hla
    by_cases hseq : a.lastFrame + 1 = buf.getD 0 0
    · rw [if_pos hseq]
      -- the tracker advances with this packet
      have htr : tpTrack src dst (evs ++ [.data src dst (buf.getD 0 0) ((buf.take len).drop 1)])
          = some { x with pk := x.pk ++ [(buf.take len).drop 1] } := by
        rw [tpTrack_snoc, ← hasrc, ← hadst, hx]
        simp only [tpStep, hasrc, hadst, and_self, ↓reduceIte]
        rw [if_pos (by omega)]
      have hdata : copyBuf a.data 1 len buf = (x.pk ++ [(buf.take len).drop 1]).flatten.take 223 := by
        rw [hxd]; exact copyBuf_flat x.pk len buf
      obtain ⟨a1, ha1⟩ : ∃ a1 : Slot, a1 = { a with data := copyBuf a.data 1 len buf, lastFrame := buf.getD 0 0, msgTime := millis32 n.s.now } :=
        ⟨_, rfl⟩
      have ha1l : Live a1 := by subst ha1; exact hla
      have ha1s : a1.src = src ∧ a1.dst = dst := by subst ha1; exact ⟨hasrc, hadst⟩
      have ha1e : Expl (evs ++ [.data src dst (buf.getD 0 0) ((buf.take len).drop 1)]) a1 := by
        subst ha1
        refine ⟨h223, { x with pk := x.pk ++ [(buf.take len).drop 1] }, ?_, hxp, hxs, ?_, hdata⟩
        · rw [hasrc, hadst]; exact htr
        · show buf.getD 0 0 = (x.pk ++ [(buf.take len).drop 1]).length
          rw [List.length_append, List.length_singleton, ← hxl]; exact hseq.symm
      -- the invariant with the updated slot
      have hinv : RxInv (n.slots.set j a1) n.out (evs ++ [.data src dst (buf.getD 0 0) ((buf.take len).drop 1)]) := by
        refine ⟨?_, ?_, fun d hd ht => (h.good d hd ht).mono _⟩
        · intro b hb hl
          obtain ⟨k, hk⟩ := List.getElem?_of_mem hb
          by_cases hkj : j = k
          · subst hkj; rw [List.getElem?_set_self hjl] at hk; cases hk; exact ha1e
          · rw [List.getElem?_set_ne hkj] at hk
            obtain ⟨g1, y, hy, rest⟩ := h.expl b (List.mem_of_getElem? hk) hl
            refine ⟨g1, y, ?_, rest⟩
            rw [tpTrack_snoc, tpStep_data_ne _ _ _ _ _ _ _ (hother k b (Ne.symm hkj) hk hl)]; exact hy
        · intro k k' b b' hb hb' hl hl' e1 e2
          have key : ∀ (k : Nat) (b : Slot), (n.slots.set j a1)[k]? = some b → Live b →
              ∃ c, n.slots[k]? = some c ∧ Live c ∧ c.src = b.src ∧ c.dst = b.dst := by
            intro k b hb hl
            by_cases hkj : j = k
            · subst hkj; rw [List.getElem?_set_self hjl] at hb; cases hb
              exact ⟨a, ha, hla, by rw [hasrc, ha1s.1], by rw [hadst, ha1s.2]⟩
            · rw [List.getElem?_set_ne hkj] at hb; exact ⟨b, hb, hl, rfl, rfl⟩
          obtain ⟨c, hc, hcl, hc1, hc2⟩ := key k b hb hl
          obtain ⟨c', hc', hcl', hc1', hc2'⟩ := key k' b' hb' hl'
          exact h.uniq k k' c c' hc hc' hcl hcl' (by rw [hc1, hc1', e1]) (by rw [hc2, hc2', e2])
      by_cases hdone : a1.data.length ≥ a.dataLen
      · have hdone' : (copyBuf a.data 1 len buf).length ≥ a.dataLen := by subst ha1; exact hdone
        simp only [hdone', ↓reduceIte, finish]
        have hN : NodeInv (n.setSlot j a1) (evs ++ [.data src dst (buf.getD 0 0) ((buf.take len).drop 1)]) := hinv
        have hN2 : ∀ m : Node, SameRx (n.setSlot j a1) m → NodeInv (deliver m j) (evs ++ [.data src dst (buf.getD 0 0) ((buf.take len).drop 1)]) := by
          intro m hm
          apply deliver_inv m j _ (hN.same hm)
          intro c hc _
          rw [hm.1] at hc
          simp only [Node.setSlot, List.getElem?_set_self hjl, Option.some.injEq] at hc
          subst hc
          have hlen : a1.dataLen = a.dataLen := by subst ha1; rfl
          have hd1 : a1.data = (x.pk ++ [(buf.take len).drop 1]).flatten.take 223 := by subst ha1; exact hdata
          have hge : a1.dataLen ≤ (x.pk ++ [(buf.take len).drop 1]).flatten.length := by
            rw [hlen]; have := hdone; rw [hd1, List.length_take] at this; omega
          refine ⟨by show a1.dataLen ≤ 223; rw [hlen]; exact h223, ?_, _, { x with pk := x.pk ++ [(buf.take len).drop 1] }, List.prefix_refl _, ?_, ?_, ?_, hge, ?_⟩
          · simp only [deliveryOf, List.length_take]; rw [hlen]; omega
          · simp only [deliveryOf]; rw [ha1s.1, ha1s.2]; exact htr
          · simp only [deliveryOf]; subst ha1; exact hxp
          · simp only [deliveryOf]; subst ha1; exact hxs
          · simp only [deliveryOf]; rw [hd1, List.take_take, hlen]
            congr 1; omega
        subst ha1
        split
        · exact hN2 _ (same_sendEndAck _ _ _ _ _ _)
        · exact hN2 _ (SameRx.refl _)
      · have hdone' : ¬ ((copyBuf a.data 1 len buf).length ≥ a.dataLen) := by subst ha1; exact hdone
        simp only [hdone', ↓reduceIte, finish]
        have hN : NodeInv (n.setSlot j a1) (evs ++ [.data src dst (buf.getD 0 0) ((buf.take len).drop 1)]) := hinv
        subst ha1
        split
        · exact hN.same (same_sendCTS _ _ _ _ _ _)
        · exact hN
    · rw [if_neg hseq]
      simp only [finish]
      have hw : Weaken n.slots (n.slots.set j (freeMessage a)) := Weaken.set _ _ _ (not_live_free a)
      have hbase : RxInv (n.slots.set j (freeMessage a)) n.out (evs ++ [.data src dst (buf.getD 0 0) ((buf.take len).drop 1)]) := by
        refine RxInv.weaken h hw _ ?_
        intro b hb hl
        obtain ⟨k, hk⟩ := List.getElem?_of_mem hb
        by_cases hkj : j = k
        · subst hkj; rw [List.getElem?_set_self hjl] at hk; cases hk; exact absurd hl (not_live_free a)
        · rw [List.getElem?_set_ne hkj] at hk
          exact tpStep_data_ne _ _ _ _ _ _ _ (hother k b (Ne.symm hkj) hk hl)
      split
      · unfold NodeInv
        simp only [Node.setSlot, (same_sendAbort n a.pgn src ((findDev n.s.devs dst).getD 0) 3).1, (same_sendAbort n a.pgn src ((findDev n.s.devs dst).getD 0) 3).2]
        exact hbase
      · exact hbase

/-! ## any frame -/

/-- **one received frame keeps the invariant**, whatever the frame -/
theorem rxFrame_inv (n : Node) (evs : List TpEv) (h : NodeInv n evs) (f : Frame) : NodeInv (rxFrame n f) (evs ++ [tpEvent f]) := by
  unfold rxFrame tpEvent
  simp only []
  by_cases h1 : (canIdToN2k f.id).2.1 = TP_CM
  · rw [if_pos h1, if_pos h1]
    simp only [finish]
    unfold handleCM
    simp only []
    by_cases hc : (buf8 f).getD 0 0 = 32 ∨ (buf8 f).getD 0 0 = 16
    · rw [if_pos hc, if_pos hc]
      exact handleStart_inv n evs h _ _ _ _ _ _ _
    · rw [if_neg hc, if_neg hc]
      have hother : ∀ m : Node, SameRx n m → NodeInv m (evs ++ [TpEv.other]) := by
        intro m hm
        exact NodeInv.same (n := n) (RxInv.weaken h (Weaken.refl _) .other (fun _ _ _ => rfl)) hm
      cases findDev n.s.devs (canIdToN2k f.id).2.2.2 with
      | none => exact hother _ (SameRx.refl _)
      | some i =>
        simp only []
        split
        · exact hother _ (same_handleCTS _ _ _ _ _ _)
        · split
          · exact hother _ (same_handleEnd _ _ _ _)
          · exact hother _ (SameRx.refl _)
  · rw [if_neg h1, if_neg h1]
    by_cases h2 : (canIdToN2k f.id).2.1 = TP_DT
    · rw [if_pos h2, if_pos h2]
      exact handleData_inv n evs h _ _ _ _
    · rw [if_neg h2, if_neg h2]
      obtain ⟨hw, ho, htp⟩ := handleOther_rx n (canIdToN2k f.id).1 (canIdToN2k f.id).2.1 (canIdToN2k f.id).2.2.1 (canIdToN2k f.id).2.2.2 f.len (buf8 f)
      generalize handleOther n (canIdToN2k f.id).1 (canIdToN2k f.id).2.1 (canIdToN2k f.id).2.2.1 (canIdToN2k f.id).2.2.2 f.len (buf8 f) = r at *
      have hr : NodeInv r.1 (evs ++ [TpEv.other]) := by
        unfold NodeInv; rw [ho]
        exact RxInv.weaken h hw .other (fun _ _ _ => rfl)
      unfold finish
      cases hj : r.2 with
      | none => exact hr
      | some j =>
        simp only []
        apply deliver_inv r.1 j _ hr
        intro a ha hat
        rw [htp j a hj ha] at hat; cases hat

/-! ## whole histories -/

theorem rxList_inv : ∀ (fs : List Frame) (n : Node) (evs : List TpEv), NodeInv n evs → NodeInv (rxList fs n) (evs ++ fs.map tpEvent)
  | [], n, evs, h => by simpa [rxList] using h
  | f :: t, n, evs, h => by
    have := rxList_inv t (rxFrame n f) (evs ++ [tpEvent f]) (rxFrame_inv n evs h f)
    simpa [rxList, List.append_assoc] using this

/-- what can happen to a node, as far as the receiver is concerned -/
inductive RxStep where
  | frame (f : Frame)                    -- one received frame is handled (`SetN2kCANBufMsg` + handlers)
  | enqueue (f : Frame)                  -- a frame arrives in the CAN driver's queue
  | poll                                 -- `ParseMessages()`: pending information, up to 20 queued frames
  | time (t : Nat)                       -- the clock shows any value (forwards, backwards, wrapped)
  | send (m : Msg) (dev : Option Nat)    -- the application calls `SendMsg` (transport-flagged or not)
  | move (d a : Nat)                     -- a device moves to another address

/-- the node and the (ghost) history of transport events of the frames handled so far -/
def rxStep (st : Node × List TpEv) : RxStep → Node × List TpEv
  | .frame f => (rxFrame st.1 f, st.2 ++ [tpEvent f])
  | .enqueue f => ({ st.1 with rxq := st.1.rxq ++ [f] }, st.2)
  | .poll => (poll st.1, st.2 ++ (st.1.rxq.take 20).map tpEvent)
  | .time t => ({ st.1 with s := { st.1.s with now := t } }, st.2)
  | .send m dev => ((sendMsgTP st.1 m dev).1, st.2)
  | .move d a => (moveTo st.1 d a, st.2)

theorem rxStep_inv (st : Node × List TpEv) (h : NodeInv st.1 st.2) (e : RxStep) : NodeInv (rxStep st e).1 (rxStep st e).2 := by
  cases e with
  | frame f => exact rxFrame_inv _ _ h f
  | enqueue f => exact h
  | poll =>
    unfold rxStep poll
    simp only []
    have h1 : NodeInv (pendingAll (flush st.1)) st.2 := h.same ((same_flush _).trans (same_pendingAll _))
    have h2 := rxList_inv (st.1.rxq.take 20) _ _ h1
    exact NodeInv.same (n := rxList (st.1.rxq.take 20) (pendingAll (flush st.1))) h2
      (SameRx.trans (b := { rxList (st.1.rxq.take 20) (pendingAll (flush st.1)) with rxq := st.1.rxq.drop 20 }) ⟨rfl, rfl⟩ (same_claimTick _))
  | time t => exact h
  | send m dev => exact h.same (same_sendMsgTP _ _ _)
  | move d a => exact h.same (same_moveTo _ _ _)

theorem rxRun_inv : ∀ (steps : List RxStep) (st : Node × List TpEv), NodeInv st.1 st.2 →
    NodeInv (steps.foldl rxStep st).1 (steps.foldl rxStep st).2
  | [], _, h => h
  | e :: t, st, h => rxRun_inv t (rxStep st e) (rxStep_inv st h e)

/-- a node with nothing in its receive slots and an empty handler log satisfies the invariant with the empty history -/
theorem NodeInv.init (n : Node) (hs : ∀ a ∈ n.slots, a.free = true) (ho : n.out = []) : NodeInv n [] := by
  refine ⟨?_, ?_, ?_⟩
  · intro a ha hl; have := hl.1; rw [hs a ha] at this; cases this
  · intro j j' a a' ha _ hl; have := hl.1; rw [hs a (List.mem_of_getElem? ha)] at this; cases this
  · intro d hd; rw [ho] at hd; cases hd

end N2k.TP
