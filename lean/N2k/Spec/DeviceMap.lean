/-!
# Specification of the device list (C18): two finite maps updated by address claims

`byName : NAME ↦ source` and `bySrc : source ↦ NAME`, updated by **"latest claim wins, displaced NAME forgotten"**:
a claim `(src, name)`
* that repeats the stored binding changes nothing;
* otherwise the NAME stored for `src` (displaced by the new claimant) is forgotten, the old address of `name`
  is released, and `name ↦ src`, `src ↦ name` are recorded;
* a claim carrying NAME 0 identifies nobody: it displaces the NAME stored for `src` and records nothing.

`latest_claim` ties the maps to the wording of the property: if the last claim of a non-zero NAME `n` was for
address `src` and no later claim was made for `src`, then `byName n = some src` and `bySrc src = some n`.
Core Lean only.
-/
namespace N2k.Spec.DeviceMap

structure DMap where
  byName : Nat → Option Nat
  bySrc : Nat → Option Nat

def DMap.empty : DMap := ⟨fun _ => none, fun _ => none⟩

def upd (f : Nat → Option Nat) (k : Nat) (v : Option Nat) : Nat → Option Nat := fun j => if j = k then v else f j

/-- forget the NAME stored for address `src` -/
def DMap.dropSrc (m : DMap) (src : Nat) : DMap :=
  match m.bySrc src with
  | none => m
  | some old => ⟨upd m.byName old none, upd m.bySrc src none⟩

/-- release the address stored for `name` -/
def DMap.dropName (m : DMap) (name : Nat) : DMap :=
  match m.byName name with
  | none => m
  | some s => ⟨upd m.byName name none, upd m.bySrc s none⟩

/-- an address claim `(src, name)` seen on the bus -/
def DMap.claim (m : DMap) (src name : Nat) : DMap :=
  if m.bySrc src = some name then m
  else if name = 0 then m.dropSrc src
  else ⟨upd ((m.dropSrc src).dropName name).byName name (some src),
        upd ((m.dropSrc src).dropName name).bySrc src (some name)⟩

/-- a history of claims `(src, name)`, oldest first -/
def runClaims (m : DMap) : List (Nat × Nat) → DMap
  | [] => m
  | c :: t => runClaims (m.claim c.1 c.2) t

/-- the two maps are inverse to each other and never mention NAME 0 -/
structure Cons (m : DMap) : Prop where
  fwd : ∀ n s, m.byName n = some s → m.bySrc s = some n
  bwd : ∀ s n, m.bySrc s = some n → m.byName n = some s
  nz : ∀ n s, m.byName n = some s → n ≠ 0

theorem Cons.empty : Cons DMap.empty :=
  ⟨(by intro n s h; cases h), (by intro s n h; cases h), (by intro n s h; cases h)⟩

theorem Cons.dropSrc {m : DMap} (h : Cons m) (src : Nat) :
    Cons (m.dropSrc src) ∧ (m.dropSrc src).bySrc src = none ∧
    (∀ n s, (m.dropSrc src).byName n = some s → s ≠ src ∧ m.byName n = some s) ∧
    (∀ n s, m.byName n = some s → s ≠ src → (m.dropSrc src).byName n = some s) := by
  unfold DMap.dropSrc
  cases hs : m.bySrc src with
  | none =>
    refine ⟨h, hs, ?_, fun n s hn _ => hn⟩
    intro n s hn
    refine ⟨?_, hn⟩
    intro he; subst he
    rw [h.fwd n s hn] at hs; cases hs
  | some old =>
    have hold := h.bwd src old hs
    refine ⟨⟨?_, ?_, ?_⟩, by simp [upd], ?_, ?_⟩
    · intro n s hn
      simp only [upd] at hn ⊢
      by_cases h1 : n = old
      · simp [h1] at hn
      · simp only [h1, if_false] at hn
        have hb := h.fwd n s hn
        by_cases h2 : s = src
        · subst h2; rw [hs] at hb; cases hb; exact absurd rfl h1
        · simp [h2, hb]
    · intro s n hn
      simp only [upd] at hn ⊢
      by_cases h2 : s = src
      · simp [h2] at hn
      · simp only [h2, if_false] at hn
        have hb := h.bwd s n hn
        by_cases h1 : n = old
        · subst h1; rw [hold] at hb; cases hb; exact absurd rfl h2
        · simp [h1, hb]
    · intro n s hn
      simp only [upd] at hn
      by_cases h1 : n = old
      · simp [h1] at hn
      · simp only [h1, if_false] at hn
        exact h.nz n s hn
    · intro n s hn
      simp only [upd] at hn
      by_cases h1 : n = old
      · simp [h1] at hn
      · simp only [h1, if_false] at hn
        refine ⟨?_, hn⟩
        intro he; subst he
        rw [h.fwd n s hn] at hs; cases hs; exact h1 rfl
    · intro n s hn hne
      simp only [upd]
      by_cases h1 : n = old
      · subst h1; rw [hold] at hn; cases hn; exact absurd rfl hne
      · simp [h1, hn]

theorem Cons.dropName {m : DMap} (h : Cons m) (name : Nat) :
    Cons (m.dropName name) ∧ (m.dropName name).byName name = none ∧
    (∀ s, m.bySrc s = none → (m.dropName name).bySrc s = none) ∧
    (∀ n s, (m.dropName name).byName n = some s → n ≠ name ∧ m.byName n = some s) ∧
    (∀ n s, m.byName n = some s → n ≠ name → (m.dropName name).byName n = some s) := by
  unfold DMap.dropName
  cases hs : m.byName name with
  | none =>
    refine ⟨h, hs, fun s hn => hn, ?_, fun n s hn _ => hn⟩
    intro n s hn
    refine ⟨?_, hn⟩
    intro he; subst he
    rw [hs] at hn; cases hn
  | some a =>
    have ha := h.fwd name a hs
    refine ⟨⟨?_, ?_, ?_⟩, by simp [upd], ?_, ?_, ?_⟩
    · intro n s hn
      simp only [upd] at hn ⊢
      by_cases h1 : n = name
      · simp [h1] at hn
      · simp only [h1, if_false] at hn
        have hb := h.fwd n s hn
        by_cases h2 : s = a
        · subst h2; rw [ha] at hb; cases hb; exact absurd rfl h1
        · simp [h2, hb]
    · intro s n hn
      simp only [upd] at hn ⊢
      by_cases h2 : s = a
      · simp [h2] at hn
      · simp only [h2, if_false] at hn
        have hb := h.bwd s n hn
        by_cases h1 : n = name
        · subst h1; rw [hs] at hb; cases hb; exact absurd rfl h2
        · simp [h1, hb]
    · intro n s hn
      simp only [upd] at hn
      by_cases h1 : n = name
      · simp [h1] at hn
      · simp only [h1, if_false] at hn
        exact h.nz n s hn
    · intro s hn
      simp only [upd]
      by_cases h2 : s = a <;> simp [h2, hn]
    · intro n s hn
      simp only [upd] at hn
      by_cases h1 : n = name
      · simp [h1] at hn
      · simp only [h1, if_false] at hn
        exact ⟨h1, hn⟩
    · intro n s hn hne
      simp [upd, hne, hn]

/-- what a claim does to the NAME map -/
theorem Cons.claim {m : DMap} (h : Cons m) (src name : Nat) :
    Cons (m.claim src name) ∧
    (name ≠ 0 → (m.claim src name).byName name = some src) ∧
    (∀ n x, (m.claim src name).byName n = some x → (n = name ∧ x = src) ∨ (n ≠ name ∧ x ≠ src ∧ m.byName n = some x)) ∧
    (∀ n x, m.byName n = some x → n ≠ name → x ≠ src → (m.claim src name).byName n = some x) := by
  unfold DMap.claim
  by_cases hre : m.bySrc src = some name
  · -- re-claim
    simp only [hre, if_true]
    have hn := h.bwd src name hre
    refine ⟨h, fun _ => hn, ?_, fun n x hx _ _ => hx⟩
    intro n x hx
    by_cases h1 : n = name
    · subst h1; rw [hn] at hx; cases hx; exact Or.inl ⟨rfl, rfl⟩
    · refine Or.inr ⟨h1, ?_, hx⟩
      intro he; subst he
      rw [h.fwd n x hx] at hre; cases hre; exact h1 rfl
  · simp only [hre, if_false]
    obtain ⟨c1, hfree, hsub, hkeep⟩ := h.dropSrc src
    by_cases h0 : name = 0
    · simp only [h0, if_true]
      refine ⟨c1, fun hh => absurd rfl hh, ?_, ?_⟩
      · intro n x hx
        obtain ⟨a, b⟩ := hsub n x hx
        exact Or.inr ⟨(by intro he; rw [he] at hx; exact c1.nz _ x hx (by omega)), a, b⟩
      · intro n x hx _ hne
        exact hkeep n x hx hne
    · simp only [h0, if_false]
      obtain ⟨c2, hgone, hfree2, hsub2, hkeep2⟩ := c1.dropName name
      have hfree' := hfree2 src hfree
      refine ⟨⟨?_, ?_, ?_⟩, fun _ => by simp [upd], ?_, ?_⟩
      · intro n s hn
        simp only [upd] at hn ⊢
        by_cases h1 : n = name
        · simp only [h1, if_true] at hn; cases hn; simp [h1]
        · simp only [h1, if_false] at hn
          have hb := c2.fwd n s hn
          by_cases h2 : s = src
          · subst h2; rw [hfree'] at hb; cases hb
          · simp [h2, hb]
      · intro s n hn
        simp only [upd] at hn ⊢
        by_cases h2 : s = src
        · simp only [h2, if_true] at hn; cases hn; simp [h2]
        · simp only [h2, if_false] at hn
          have hb := c2.bwd s n hn
          by_cases h1 : n = name
          · subst h1; rw [hgone] at hb; cases hb
          · simp [h1, hb]
      · intro n s hn
        simp only [upd] at hn
        by_cases h1 : n = name
        · subst h1; exact h0
        · simp only [h1, if_false] at hn
          exact c2.nz n s hn
      · intro n x hx
        simp only [upd] at hx
        by_cases h1 : n = name
        · simp only [h1, if_true] at hx; cases hx; exact Or.inl ⟨h1, rfl⟩
        · simp only [h1, if_false] at hx
          obtain ⟨_, hx1⟩ := hsub2 n x hx
          obtain ⟨a, b⟩ := hsub n x hx1
          exact Or.inr ⟨h1, a, b⟩
      · intro n x hx hne hxs
        simp only [upd, hne, if_false]
        exact hkeep2 n x (hkeep n x hx hxs) hne

theorem Cons.run {m : DMap} (h : Cons m) : ∀ l, Cons (runClaims m l)
  | [] => h
  | c :: t => Cons.run (h.claim c.1 c.2).1 t

/-- **the wording of the property**: the last claim of the non-zero NAME `n` was for `src`, and nobody claimed
    `src` afterwards ⇒ both maps hold the binding -/
theorem latest_claim (m : DMap) (hm : Cons m) (pre post : List (Nat × Nat)) (src n : Nat) (hn : n ≠ 0)
    (hname : ∀ c ∈ post, c.2 ≠ n) (hsrc : ∀ c ∈ post, c.1 ≠ src) :
    (runClaims m (pre ++ (src, n) :: post)).byName n = some src ∧
    (runClaims m (pre ++ (src, n) :: post)).bySrc src = some n := by
  have hrun : ∀ (l : List (Nat × Nat)) (m : DMap), runClaims m (l ++ (src, n) :: post) =
      runClaims ((runClaims m l).claim src n) post := by
    intro l
    induction l with
    | nil => intro m; rfl
    | cons c t ih => intro m; simp [runClaims, ih]
  rw [hrun]
  have hc := ((hm.run pre).claim src n)
  have key : ∀ (post : List (Nat × Nat)) (m : DMap), Cons m → m.byName n = some src →
      (∀ c ∈ post, c.2 ≠ n) → (∀ c ∈ post, c.1 ≠ src) → (runClaims m post).byName n = some src := by
    intro post
    induction post with
    | nil => intro m _ h _ _; exact h
    | cons c t ih =>
      intro m hcm h h1 h2
      have hcc := hcm.claim c.1 c.2
      exact ih _ hcc.1 (hcc.2.2.2 n src h (Ne.symm (h1 c (by simp))) (Ne.symm (h2 c (by simp))))
        (fun c' hc' => h1 c' (by simp [hc'])) (fun c' hc' => h2 c' (by simp [hc']))
  have hres := key post _ hc.1 (hc.2.1 hn) hname hsrc
  exact ⟨hres, (hc.1.run post).fwd n src hres⟩

end N2k.Spec.DeviceMap
