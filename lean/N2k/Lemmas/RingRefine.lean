import N2k.Lemmas.PriorityRing
import N2k.Spec.Queues
/-! One-step refinement of both ring buffers to the abstract queues of `Spec/Queues.lean`. -/
namespace N2k.Ring
open Win N2k.Spec

/-! ## generic run of a step function -/

def run {σ ω ο : Type} (step : σ → ω → σ × ο) : σ → List ω → List ο
  | _, [] => []
  | s, o :: t => (step s o).2 :: run step (step s o).1 t

theorem run_refines {σ τ ω ο : Type} (stepI : σ → ω → σ × ο) (stepS : τ → ω → τ × ο)
    (R : σ → τ → Prop)
    (hstep : ∀ s q o, R s q → (stepI s o).2 = (stepS q o).2 ∧ R (stepI s o).1 (stepS q o).1) :
    ∀ (ops : List ω) (s : σ) (q : τ), R s q → run stepI s ops = run stepS q ops := by
  intro ops
  induction ops with
  | nil => intros; rfl
  | cons o t ih =>
    intro s q h
    obtain ⟨h1, h2⟩ := hstep s q o h
    simp only [run, h1, ih _ _ h2]

/-! ## plain ring -/

structure RB.Inv (r : RB) : Prop where
  n3 : 3 ≤ r.n
  hh : r.head < r.n
  ht : r.tail < r.n

def RB.abs (r : RB) : Fifo := { cap := r.n - 1, items := (idxs r.n r.tail r.head).map r.buf }

theorem full_iff {n tail head : Nat} (hn : 2 ≤ n) (ht : tail < n) (hh : head < n) :
    (head + 1) % n = tail ↔ cnt n tail head = n - 1 := by
  have hs := succ_mod hh
  rcases cnt_spec (by omega) ht hh with ⟨a, b⟩ | ⟨a, b⟩ <;>
    rcases hs with ⟨e, f⟩ | ⟨e, f⟩ <;> rw [f, b] <;> omega

theorem idxs_length {n tail head : Nat} : (idxs n tail head).length = cnt n tail head := by
  simp [idxs]

theorem count_eq {n tail head : Nat} (hn : 0 < n) (ht : tail < n) (hh : head < n) :
    (if head < tail then head + n - tail else head - tail) = cnt n tail head := by
  rcases cnt_spec hn ht hh with ⟨a, b⟩ | ⟨a, b⟩ <;> rw [b] <;> split <;> omega

theorem RB.inv_new (size : Nat) (b : Nat → Nat) :
    (RB.new size b).Inv ∧ (RB.new size b).abs = Fifo.new size := by
  refine ⟨⟨?_, ?_, ?_⟩, ?_⟩
  · simp only [RB.new]; split <;> omega
  · simp only [RB.new]; split <;> omega
  · simp only [RB.new]; split <;> omega
  · have hn : 0 < (RB.new size b).n := by simp only [RB.new]; split <;> omega
    simp only [RB.abs, Fifo.new]
    show Fifo.mk _ ((idxs (RB.new size b).n 0 0).map _) = _
    rw [idxs_nil hn]; rfl

theorem RB.add_refines (r : RB) (h : r.Inv) (v : Nat) :
    (r.add v).2 = (r.abs.add v).2 ∧ (r.add v).1.Inv ∧ (r.add v).1.abs = (r.abs.add v).1 := by
  have hn0 : 0 < r.n := by have := h.n3; omega
  have hfull := full_iff (by have := h.n3; omega) h.ht h.hh
  unfold RB.add Fifo.add
  simp only [RB.abs, List.length_map, idxs_length]
  by_cases hf : (r.head + 1) % r.n = r.tail
  · have := hfull.mp hf
    simp [hf, this, h, RB.abs]
  · have hc : cnt r.n r.tail r.head ≠ r.n - 1 := fun hc => hf (hfull.mpr hc)
    simp only [hf, hc, ↓reduceIte, true_and]
    refine ⟨⟨h.n3, Nat.mod_lt _ hn0, h.ht⟩, ?_⟩
    rw [idxs_push hn0 h.ht h.hh hf, List.map_append]
    have hnm := head_not_mem hn0 h.ht h.hh
    congr 2
    · apply List.map_congr_left
      intro j hj
      have : j ≠ r.head := fun he => hnm (he ▸ hj)
      simp [this]
    · simp

theorem RB.read_refines (r : RB) (h : r.Inv) :
    r.read.2 = r.abs.read.2 ∧ r.read.1.Inv ∧ r.read.1.abs = r.abs.read.1 := by
  have hn0 : 0 < r.n := by have := h.n3; omega
  unfold RB.read Fifo.read
  by_cases he : r.head = r.tail
  · simp only [he, ↓reduceIte, RB.abs, idxs_nil hn0, List.map_nil]
    exact ⟨trivial, ⟨h.n3, he ▸ h.hh, h.ht⟩, trivial⟩
  · have hne : r.tail ≠ r.head := fun e => he e.symm
    simp only [he, ↓reduceIte, RB.abs, idxs_pop hn0 h.ht h.hh hne, List.map_cons]
    exact ⟨trivial, ⟨h.n3, h.hh, Nat.mod_lt _ hn0⟩, trivial⟩

theorem RB.peek_refines (r : RB) (h : r.Inv) : r.peek = r.abs.peek := by
  have hn0 : 0 < r.n := by have := h.n3; omega
  unfold RB.peek Fifo.peek
  by_cases he : r.head = r.tail
  · simp [he, RB.abs, idxs_nil hn0]
  · have hne : r.tail ≠ r.head := fun e => he e.symm
    simp [he, RB.abs, idxs_pop hn0 h.ht h.hh hne]

theorem RB.clear_refines (r : RB) (h : r.Inv) : r.clear.Inv ∧ r.clear.abs = r.abs.clear := by
  have hn0 : 0 < r.n := by have := h.n3; omega
  exact ⟨⟨h.n3, hn0, hn0⟩, by simp [RB.clear, RB.abs, Fifo.clear, idxs_nil hn0]⟩

theorem RB.count_refines (r : RB) (h : r.Inv) : r.count = r.abs.count := by
  have hn0 : 0 < r.n := by have := h.n3; omega
  simp only [RB.count, Fifo.count, RB.abs, List.length_map, idxs_length]
  exact count_eq hn0 h.ht h.hh

theorem RB.isEmpty_refines (r : RB) (h : r.Inv) : r.isEmpty = r.abs.isEmpty := by
  have hn0 : 0 < r.n := by have := h.n3; omega
  have hz := cnt_zero_iff hn0 h.ht h.hh
  simp only [RB.isEmpty, Fifo.isEmpty, RB.abs, List.isEmpty_iff, List.map_eq_nil_iff]
  by_cases he : r.head = r.tail
  · simp [he, idxs_nil hn0]
  · have : cnt r.n r.tail r.head ≠ 0 := fun hc => he (hz.mp hc).symm
    have hl : (idxs r.n r.tail r.head) ≠ [] := by
      intro hnil; apply this; rw [← idxs_length, hnil]; rfl
    cases hi : idxs r.n r.tail r.head with
    | nil => exact absurd hi hl
    | cons a t => simp [he]

/-! ## priority ring -/

def PRB.abs (r : PRB) : PLog := { cap := r.n - 1, P := r.P, log := log r }

theorem log_length (r : PRB) : (log r).length = cnt r.n r.tail r.head := by
  simp [log, win, idxs_length]

theorem clamp_eq (r : PRB) (p : Nat) : r.abs.clamp p = clampP r p := rfl

theorem PRB.inv_new (size prios : Nat) (s : Nat → Slot) :
    Inv (PRB.new size prios s) ∧ (PRB.new size prios s).abs = PLog.new size prios := by
  have hn : 3 ≤ (PRB.new size prios s).n := by simp only [PRB.new]; split <;> omega
  have hw : win (PRB.new size prios s) = [] := by
    unfold win; exact idxs_nil (by omega)
  have hc : ∀ p, chain (PRB.new size prios s) p = [] := by intro p; simp [chain, hw]
  refine ⟨⟨hn, ?_, by show 0 < _; omega, by show 0 < _; omega, ?_, ?_, ?_, ?_, ?_⟩, ?_⟩
  · simp only [PRB.new]; split
    · omega
    · split <;> omega
  · intro h; exact absurd rfl h
  · intro j hj; rw [hw] at hj; cases hj
  · intro p _; rw [hc]; rfl
  · intro p _; rw [hc]; rfl
  · intro p _; rw [hc]; trivial
  · simp only [PRB.abs, PLog.new, log, hw, List.map_nil]; rfl

theorem PRB.clear_refines (r : PRB) (h : Inv r) : Inv r.clear ∧ r.clear.abs = r.abs.clear := by
  have hn0 : 0 < r.n := by have := h.n3; omega
  have hw : win r.clear = [] := by unfold win; exact idxs_nil hn0
  have hc : ∀ p, chain r.clear p = [] := by intro p; simp [chain, hw]
  refine ⟨⟨h.n3, h.P1, hn0, hn0, ?_, ?_, ?_, ?_, ?_⟩, ?_⟩
  · intro hne; exact absurd rfl hne
  · intro j hj; rw [hw] at hj; cases hj
  · intro p _; rw [hc]; rfl
  · intro p _; rw [hc]; rfl
  · intro p _; rw [hc]; trivial
  · simp only [PRB.abs, PLog.clear, log, hw, List.map_nil]; rfl

theorem add_refines (r : PRB) (h : Inv r) (v p : Nat) :
    (add r v p).2 = (r.abs.add v p).2 ∧ Inv (add r v p).1 ∧ (add r v p).1.abs = (r.abs.add v p).1 := by
  have hfull := full_iff (by have := h.n3; omega) h.ht h.hh
  by_cases hf : (r.head + 1) % r.n = r.tail
  · have hc := hfull.mp hf
    rw [add_full r v p hf]
    simp only [PLog.add, PRB.abs, log_length, hc, ↓reduceIte]
    exact ⟨trivial, h, trivial⟩
  · have hc : cnt r.n r.tail r.head ≠ r.n - 1 := fun hc => hf (hfull.mpr hc)
    obtain ⟨h1, h2, h3⟩ := add_inv r h v p hf
    simp only [PLog.add, PRB.abs, log_length, hc, ↓reduceIte]
    refine ⟨h1, h2, ?_⟩
    have hn : (add r v p).1.n = r.n := by unfold add; simp only [hf, ↓reduceIte]; try (split <;> rfl)
    have hP : (add r v p).1.P = r.P := by unfold add; simp only [hf, ↓reduceIte]; try (split <;> rfl)
    rw [hn, hP, h3]; rfl

/-! ### reading: chain vs. log -/

section chainlog
variable (val : Nat → Nat) (prio : Nat → Option Nat)

theorem firstOf_map (p : Nat) : ∀ (w : List Nat),
    firstOf p (w.map fun j => (val j, prio j)) = ((w.filter fun j => prio j == some p).head?).map val
  | [] => rfl
  | a :: t => by
    simp only [List.map_cons, firstOf, List.filter_cons]
    by_cases hp : prio a = some p
    · simp [hp]
    · have : (prio a == some p) = false := by simp [hp]
      simp only [hp, ↓reduceIte, this, Bool.false_eq_true]
      exact firstOf_map p t

theorem markFirst_map (p ref : Nat) : ∀ (w : List Nat) (c' : List Nat), w.Nodup →
    (w.filter fun j => prio j == some p) = ref :: c' →
    markFirst p (w.map fun j => (val j, prio j))
      = w.map fun j => if j = ref then (val j, none) else (val j, prio j)
  | [], _, _, h => by cases h
  | a :: t, c', hnd, h => by
    simp only [List.map_cons, markFirst]
    have hnd' := List.nodup_cons.mp hnd
    by_cases hp : prio a = some p
    · have hb : (prio a == some p) = true := by simp [hp]
      rw [List.filter_cons, if_pos hb] at h
      injection h with h1 h2
      subst h1
      simp only [hp, ↓reduceIte]
      congr 1
      apply List.map_congr_left
      intro j hj
      have : j ≠ a := fun he => hnd'.1 (he ▸ hj)
      simp [this]
    · have hb : (prio a == some p) = false := by simp [hp]
      rw [List.filter_cons, hb] at h
      simp only [Bool.false_eq_true, ↓reduceIte] at h
      have hmem : ref ∈ t.filter fun j => prio j == some p := by rw [h]; simp
      have hpr : prio ref = some p := by simpa using (List.mem_filter.mp hmem).2
      have har : a ≠ ref := fun he => hp (he ▸ hpr)
      simp only [hp, ↓reduceIte, har]
      congr 1
      exact markFirst_map p ref t c' hnd'.2 h

end chainlog

theorem log_eq (r : PRB) : log r = (win r).map fun j => ((r.slot j).val, (r.slot j).prio) := rfl

theorem firstOf_log (r : PRB) (p : Nat) :
    firstOf p (log r) = ((chain r p).head?).map fun j => (r.slot j).val := by
  rw [log_eq]
  exact firstOf_map (fun j => (r.slot j).val) (fun j => (r.slot j).prio) p (win r)

theorem readP_refines (r : PRB) (h : Inv r) (p : Nat) :
    (readP r p).2 = (r.abs.readP p).2 ∧ Inv (readP r p).1 ∧ (readP r p).1.abs = (r.abs.readP p).1 := by
  have hn0 : 0 < r.n := by have := h.n3; omega
  have hfo := firstOf_log r (clampP r p)
  have hrd : r.abs.readP p = (match firstOf (clampP r p) (log r) with
      | none => (r.abs, none)
      | some v => ({ r.abs with log := (markFirst (clampP r p) (log r)).dropWhile isDead }, some v)) := rfl
  rw [hrd]
  cases hc : chain r (clampP r p) with
  | nil =>
    rw [readP_none r h p hc]
    rw [hc] at hfo
    simp only [List.head?_nil, Option.map_none] at hfo
    rw [hfo]
    exact ⟨rfl, h, rfl⟩
  | cons ref c' =>
    obtain ⟨h1, h2, h3⟩ := readP_some r h p ref c' hc
    rw [hc] at hfo
    simp only [List.head?_cons, Option.map_some] at hfo
    rw [hfo]
    refine ⟨h1, h2, ?_⟩
    have hn : (readP r p).1.n = r.n := by
      unfold readP; simp only; split <;> rfl
    have hP : (readP r p).1.P = r.P := by
      unfold readP; simp only; split <;> rfl
    have hm := markFirst_map (fun j => (r.slot j).val) (fun j => (r.slot j).prio) (clampP r p) ref
      (win r) c' (idxs_nodup hn0 h.ht h.hh) hc
    show PLog.mk _ _ _ = PLog.mk _ _ _
    rw [hn, hP, h3, log_eq, hm]
    rfl

theorem hasPrio_iff (r : PRB) (h : Inv r) (p : Nat) (hp : p < r.P) :
    (r.refNext p).isSome = hasPrio (log r) p := by
  rw [hasPrio, firstOf_log, h.refN p hp]
  cases (chain r p).head? <;> rfl

theorem firstNonEmpty_eq (r : PRB) (h : Inv r) : ∀ (k p0 : Nat), p0 + k ≤ r.P →
    firstNonEmpty r k p0 = lowest (log r) k p0
  | 0, _, _ => rfl
  | k+1, p0, hk => by
    simp only [firstNonEmpty, lowest, hasPrio_iff r h p0 (by omega)]
    split
    · rfl
    · exact firstNonEmpty_eq r h k (p0 + 1) (by omega)

theorem lowest_lt (l : List Entry) : ∀ (k p0 p : Nat), lowest l k p0 = some p → p0 ≤ p ∧ p < p0 + k
  | 0, _, _, h => by cases h
  | k+1, p0, p, h => by
    simp only [lowest] at h
    split at h
    · injection h with h; omega
    · have := lowest_lt l k (p0 + 1) p h; omega

theorem readAny_refines (r : PRB) (h : Inv r) :
    (readAny r).2 = r.abs.readAny.2 ∧ Inv (readAny r).1 ∧ (readAny r).1.abs = r.abs.readAny.1 := by
  have e1 : r.abs.log = log r := rfl
  have e2 : r.abs.P = r.P := rfl
  unfold readAny PLog.readAny
  rw [firstNonEmpty_eq r h r.P 0 (by omega), e1, e2]
  cases hl : lowest (log r) r.P 0 with
  | none => exact ⟨rfl, h, rfl⟩
  | some p =>
    obtain ⟨h1, h2, h3⟩ := readP_refines r h p
    simp only
    generalize readP r p = ri at h1 h2 h3 ⊢
    generalize r.abs.readP p = rs at h1 h3 ⊢
    obtain ⟨r', o⟩ := ri
    obtain ⟨q', o'⟩ := rs
    simp only at h1 h2 h3
    subst h1
    cases o <;> exact ⟨rfl, h2, h3⟩

theorem PRB.count_refines (r : PRB) (h : Inv r) : r.count = r.abs.count := by
  have hn0 : 0 < r.n := by have := h.n3; omega
  simp only [PRB.count, PLog.count, PRB.abs, log_length]
  exact count_eq hn0 h.ht h.hh

theorem PRB.isEmpty_refines (r : PRB) (h : Inv r) (p : Nat) : r.isEmpty p = r.abs.isEmpty p := by
  have hn0 : 0 < r.n := by have := h.n3; omega
  have hz := cnt_zero_iff hn0 h.ht h.hh
  have e1 : r.abs.log = log r := rfl
  have e2 : r.abs.P = r.P := rfl
  unfold PRB.isEmpty PLog.isEmpty
  rw [e1, e2]
  by_cases hp : p ≥ r.P
  · simp only [hp, ↓reduceIte]
    have hlen := log_length r
    by_cases he : r.head = r.tail
    · have hc : cnt r.n r.tail r.head = 0 := hz.mpr he.symm
      rw [hc] at hlen
      have : log r = [] := List.eq_nil_of_length_eq_zero hlen
      simp [he, this]
    · have : cnt r.n r.tail r.head ≠ 0 := fun hc => he (hz.mp hc).symm
      cases hl : log r with
      | nil => rw [hl] at hlen; exact absurd hlen.symm this
      | cons a t => simp [he]
  · simp only [hp, ↓reduceIte]
    rw [← hasPrio_iff r h p (by omega)]
    cases r.refNext p <;> rfl

end N2k.Ring
