import N2k.Lemmas.HeartbeatShift
import N2k.Lemmas.HeartbeatRoll
import N2k.Lemmas.Time32DevList
import N2k.Lemmas.Time32Rx
import N2k.Lemmas.Time32PendingInfo
import N2k.Lemmas.Time32TP
import N2k.Lemmas.Time32Claim
/-!
# C13 — Timed behaviour is independent of the clock origin, including the 32-bit wrap

Primitives: `Basic/Time.lean` (`N2kIsTimeBefore`, `N2kHasElapsed`, `tN2kScheduler` in the 32-bit and the 64-bit
flavour). Machines: the send path / open machine / address-claim timer of `Model/Send.lean` and the heartbeat machine of
`Model/Heartbeat.lean`, the reassembly slots (`Model/Rx.lean`), the ISO-TP node (`Model/TP.lean`), the pending-information
timers (`Model/IsoRequest.lean`), the address-claim instance (`Model/Claim.lean`, `Model/ClaimRx.lean`) and the request pacing of the
device list (`Model/DeviceList.lean`). The shift of a state (`St.shift`, `HSt.shift`) moves the clock and every stored deadline by `k`
(modulo 2^32 on the 32-bit build; "disabled" stays "disabled").

The scheduler's documented 1 ms slack: a 32-bit `FromNow(d)` whose result would be the all-ones "disabled" value is
stored as 0, i.e. arms `d+1` ms (`armed32`). The exact commutation theorems therefore carry the hypothesis that no
deadline lands on that value in either run (`ClockOk`, `ShiftOk`); `C13_primitives_elapsed_only` says exactly what
happens otherwise (the deadline is one millisecond later, nothing else).
-/
namespace N2k.C13
open N2k.Time N2k.Send N2k.Heartbeat

/-- **The primitives are functions of elapsed time only** (all arithmetic modulo 2^32):
* `N2kHasElapsed(Start,Elapsed,Now)` depends on `(Now-Start) mod 2^32` only, holds exactly from `Elapsed` ms until
  `Elapsed + 2^31 - 2` ms after `Start`, and is unchanged when both stamps are moved by any `k` (also when the moved
  stamps are stored in 32-bit fields);
* `N2kIsTimeBefore(T1,T2)` is `(T2-T1) mod 2^32 < 2^31-1` and is unchanged by moving both;
* 32-bit `tN2kScheduler`: after `FromNow(d)` at `now`, `IsTime()` at `now'` holds exactly when the elapsed time
  `(now'-now) mod 2^32` is at least the armed delay and less than `2^31-1` ms more; the armed delay is `d`, except `d+1`
  when `now+d` is the all-ones value (the 1 ms sentinel slack) — so a timeout armed before the wrap expires on time after it;
* 64-bit `tN2kScheduler`: `IsTime()` holds exactly when `now' > now + d`. -/
theorem C13_primitives_elapsed_only :
    (∀ s e now, hasElapsed s e now = decide (sub32 (sub32 now s) e < INT32_MAX)) ∧
    (∀ s e now, e ≤ INT32_MAX + 2 →
      hasElapsed s e now = decide (e ≤ sub32 now s ∧ sub32 now s < e + INT32_MAX)) ∧
    (∀ s e now k, hasElapsed (s + k) e (now + k) = hasElapsed s e now ∧
                  hasElapsed ((s + k) % M32) e ((now + k) % M32) = hasElapsed s e now) ∧
    (∀ a b, isTimeBefore a b = decide (sub32 b a < INT32_MAX)) ∧
    (∀ a b k, isTimeBefore (a + k) (b + k) = isTimeBefore a b ∧
              isTimeBefore ((a + k) % M32) ((b + k) % M32) = isTimeBefore a b) ∧
    (∀ now d now', d ≤ INT32_MAX + 1 →
      Sched.isTime .t32 (Sched.fromNow .t32 now d) now' =
        decide (armed32 now d ≤ sub32 now' now ∧ sub32 now' now < armed32 now d + INT32_MAX)) ∧
    (∀ now d, armed32 now d = if (millis32 now + d) % M32 = M32 - 1 then d + 1 else d) ∧
    (∀ now d k, sub32 (now + k) now = k % M32 ∧ armed32 now d ≤ d + 1) ∧
    (∀ now d now', now + d < M64 →
      Sched.isTime .t64 (Sched.fromNow .t64 now d) now' = decide (now' > now + d)) := by
  refine ⟨hasElapsed_diff, hasElapsed_window, fun s e now k => ⟨hasElapsed_shift s e now k, hasElapsed_shift_mod s e now k⟩,
    isTimeBefore_diff, fun a b k => ⟨isTimeBefore_shift a b k, isTimeBefore_shift_mod a b k⟩,
    isTime_fromNow32, fun _ _ => rfl, ?_, isTime_fromNow64⟩
  intro now d k
  constructor
  · unfold sub32 M32; omega
  · unfold armed32; split <;> omega

/-- a timeout armed shortly before the 32-bit wrap expires on time after it: 250 ms armed 100 ms before the wrap is not
due 249 ms later and is due 250 ms later (clock values 2^32-100, then 149 / 150 after the wrap) -/
theorem C13_wrap_example :
    Sched.isTime .t32 (Sched.fromNow .t32 (M32 - 100) 250) (M32 + 149) = false ∧
    Sched.isTime .t32 (Sched.fromNow .t32 (M32 - 100) 250) (M32 + 150) = true := by decide

/-- **Shift invariance of the send-path machines** (`Open()`, `SendMsg` as the application calls it, `ParseMessages`
without traffic, `IsAddressClaimStarted`), for both timer builds, every shift `k` and every wrap position:
running the step on the shifted state at the shifted clock gives the shifted result state and the SAME outputs (return
value; frames accepted by the driver and queued frames are part of the state and are not touched by the shift).
Hypotheses = the sentinel slack only: `ClockOk` (no `FromNow` of this step lands on the all-ones value in either run;
for the 64-bit build: the shifted clock stays below 2^64) and `ShiftOk` (no stored deadline does). `ShiftOk` is
preserved, so the statement iterates. -/
theorem C13_shift_invariance_send (k : Nat) (s : St) (hc : ClockOk s.flavor k s.now) (ho : s.ShiftOk k) :
    (openStep (s.shift k) = (openStep s).shift k ∧ (openStep s).ShiftOk k) ∧
    (pollTop (s.shift k) = (pollTop s).shift k ∧ (pollTop s).ShiftOk k) ∧
    (∀ m dev, sendMsgTop (s.shift k) m dev = ((sendMsgTop s m dev).1.shift k, (sendMsgTop s m dev).2) ∧
              (sendMsgTop s m dev).1.ShiftOk k) ∧
    (∀ d ∈ s.devs, isAddressClaimStarted s.flavor (s.now + k) (d.shift s.flavor k) =
        ((isAddressClaimStarted s.flavor s.now d).1.shift s.flavor k, (isAddressClaimStarted s.flavor s.now d).2)) ∧
    ((s.shift k).ring = s.ring ∧ (s.shift k).drv = s.drv) := by
  refine ⟨⟨(openStep_shift hc ho).1, (openStep_shift hc ho).2.1⟩, ⟨(pollTop_shift hc ho).1, (pollTop_shift hc ho).2.1⟩,
    fun m dev => ⟨(sendMsgTop_shift m dev hc ho).1, (sendMsgTop_shift m dev hc ho).2.1⟩,
    fun d hd => (isAddressClaimStarted_shift hc (ho.2 d hd)).1, rfl, rfl⟩

/-- **Shift invariance of whole runs of the node (send path + open + address claim + heartbeat).** For every list of
operations (clock advances, polls, forced heartbeats, interval changes, claims, driver back-pressure, CAN-open
failures), both timer builds, every shift `k`: the run from the shifted state produces the SAME heartbeat log and the
shifted final state — in particular the same frames at the driver and in the send queue. Since the statement holds for
every prefix of the operation list and the clock advances are part of the list, the frames appear at the same relative
times. Hypotheses: the initial stored deadlines do not collide with the sentinel when shifted (`ShiftOk`) and at every
step the clock is not at one of the (three per 49.7 days) instants where a 32-bit `FromNow` lands on the sentinel, and
the shifted 64-bit clock stays clear of 2^64 (`ClocksOk`).

`_partial`: this run-level theorem covers the node machines composed in `Model/Heartbeat.lean` (send path, open
machine, address-claim timer, heartbeat and synchronised scheduler). The other timed machines named by the property
have their own step-level theorems over their own models: `C13_shift_invariance_rx` (reassembly-slot ageing; run level,
unconditional), `C13_shift_invariance_tp` (ISO-TP sender/receiver timers, BAM pacing, with the pending information of the
same node), `C13_shift_invariance_pending_info` (pending product/configuration information retries) and
`C13_shift_invariance_devlist` (device-list request pacing, unconditional) and `C13_shift_invariance_claim` /
`C13_shift_invariance_claim_node` (address-claim contention, commanded address, restart; run level over event
histories). What remains: the machines are separate models, not one composed node state, so there is no single run
theorem over all of them (their composition is exercised on the real node by the harness probes);
`IsoRequest.pollClaim` (the ISO-request node's poll with a received claim; its claim part is `Claim.handleClaim`, covered
above, but the composed step is not restated) and the rest of `tN2kDeviceList::HandleMsg` have no shift theorem; the
structural obligation `time_sites` pins every clock read of the library to the primitives of
`C13_primitives_elapsed_only`. -/
theorem C13_shift_invariance_partial (k : Nat) (h : HSt) (ops : List Op) (ho : h.ShiftOk k) (hc : ClocksOk k h ops) :
    run (h.shift k) ops = ((run h ops).1.shift k, (run h ops).2) ∧
    (run (h.shift k) ops).1.st.drv = (run h ops).1.st.drv ∧
    (run (h.shift k) ops).1.st.ring = (run h ops).1.st.ring ∧
    (run h ops).1.ShiftOk k := by
  obtain ⟨e, o⟩ := run_shift ops h ho hc
  refine ⟨e, ?_, ?_, o⟩ <;> rw [e] <;> rfl

/-- **Shift invariance of the reassembly slots** (`Model/Rx.lean`: `FindFreeCANMsgIndex` with its ageing scan —
a slot is recycled when the oldest unfinished message is older than 100 ms —, `SetN2kCANBufMsg`, the slot take-over by
TP.CM RTS/BAM, delivery and `FreeMessage`), for EVERY history of (arrival time, frame) pairs, every configuration, every
slot state and every shift `k`, WITHOUT any hypothesis: the stamps are 32-bit and are compared with `N2kIsTimeBefore` /
`N2kHasElapsed` only, so not even a bound on the age of a slot is needed for the commutation (an age above 2^31 ms changes
what both runs do, in the same way). `Rx.St.shift` moves the stamp of every slot in use by `k` modulo 2^32 (a free slot
keeps the 0 written by `FreeMessage`, which is never read: the scan runs only when no slot is free). The run with every
arrival time moved by `k` delivers the same messages at the same frames and ends in the shifted state. -/
theorem C13_shift_invariance_rx (k : Nat) (c : Rx.Cfg) (st : Rx.St) (evs : List (Nat × Rx.Frame)) :
    Rx.run c (st.shift k) (Rx.shiftEvs k evs) = (Rx.run c st evs).shift k ∧
    Rx.outputs c (st.shift k) (Rx.shiftEvs k evs) = Rx.outputs c st evs ∧
    Rx.delivered c (st.shift k) (Rx.shiftEvs k evs) = Rx.delivered c st evs ∧
    (∀ now f, Rx.rx c (st.shift k) (now + k) f = ((Rx.rx c st now f).1.shift k, (Rx.rx c st now f).2)) := by
  obtain ⟨h1, h2⟩ := Rx.run_shift k c evs st
  exact ⟨h1, h2, by unfold Rx.delivered; rw [h2], fun now f => Rx.rx_shift k c st now f⟩

/-- **Shift invariance of the address-claim instance** (`Model/Claim.lean`, C03: `Open()` with `StartAddressClaim()`,
`HandleISOAddressClaim` — defend, or lose the address, `GetNextAddress`, claim again —, `HandleCommandedAddress`,
`Restart()`, the claim timer's lazy expiry in `SendHeartbeat`, `ReadResetAddressChanged`), for EVERY history of events
(`ParseMessages` with any list of received claim frames / commanded-address messages, restarts, clock advances, reads of
the address-changed latch), both timer builds, every shift `k`: the run from the shifted instance answers
`ReadResetAddressChanged` identically, puts the same frames on the bus (driver and send queue), ends with the same
addresses and latches, and in the shifted state. Hypotheses = the sentinel slack of the send model only: `ShiftOk` (no stored
`OpenScheduler` / `AddressClaimTimer` deadline lands on the all-ones value when shifted) and, at every step, `ClockOk`
(no `FromNow` of the three delays this machine arms — 200 ms CAN settle, 1000 ms open retry, 250 ms address claim — lands
on it in either run; 64-bit build: clock + k + 1000 < 2^64 - 1). -/
theorem C13_shift_invariance_claim (k : Nat) (x : Claim.Inst) (es : List Claim.Ev) (ho : x.s.ShiftOk k)
    (hc : Claim.ClocksOk k x es) :
    Claim.run (x.shift k) es = ((Claim.run x es).1.shift k, (Claim.run x es).2) ∧
    (Claim.run x es).1.s.ShiftOk k ∧
    (Claim.run (x.shift k) es).1.s.drv = (Claim.run x es).1.s.drv ∧
    (Claim.run (x.shift k) es).1.s.ring = (Claim.run x es).1.s.ring ∧
    (Claim.run (x.shift k) es).1.s.devs.map (·.source) = (Claim.run x es).1.s.devs.map (·.source) ∧
    (Claim.run (x.shift k) es).1.addressChanged = (Claim.run x es).1.addressChanged := by
  obtain ⟨e, o⟩ := Claim.run_shift es x ho hc
  refine ⟨e, o, ?_, ?_, ?_, ?_⟩ <;> rw [e]
  · rfl
  · rfl
  · show ((Claim.run x es).1.s.devs.map (Send.Dev.shift _ k)).map (·.source) = _
    rw [List.map_map]; rfl
  · rfl

/-- the same instance behind its receive slots (`Model/ClaimRx.lean`: a frame reaches the claim handler only if
`SetN2kCANBufMsg` finds a slot; the commanded address arrives as a TP transfer that needs one), and the application's
`SendMsg`: each step commutes with the shift under the same hypotheses (the slots need none) -/
theorem C13_shift_invariance_claim_node (k : Nat) (n : ClaimRx.Node) (hc : ClockOk n.inst.s.flavor k n.inst.s.now)
    (ho : n.inst.s.ShiftOk k) :
    (∀ f, ClaimRx.parseFrame (n.shift k) f = (ClaimRx.parseFrame n f).shift k ∧ (ClaimRx.parseFrame n f).inst.s.ShiftOk k) ∧
    (∀ dst nm a, ClaimRx.parseCmd (n.shift k) dst nm a = (ClaimRx.parseCmd n dst nm a).shift k ∧
      (ClaimRx.parseCmd n dst nm a).inst.s.ShiftOk k) ∧
    (∀ m dev, ClaimRx.appSend (n.inst.shift k) m dev = ((ClaimRx.appSend n.inst m dev).1.shift k, (ClaimRx.appSend n.inst m dev).2) ∧
      (ClaimRx.appSend n.inst m dev).1.s.ShiftOk k) :=
  ⟨fun f => ⟨(ClaimRx.parseFrame_shift f ⟨hc, ho⟩).1, (ClaimRx.parseFrame_shift f ⟨hc, ho⟩).2.1⟩,
   fun dst nm a => ⟨(ClaimRx.parseCmd_shift dst nm a ⟨hc, ho⟩).1, (ClaimRx.parseCmd_shift dst nm a ⟨hc, ho⟩).2.1⟩,
   fun m dev => ClaimRx.appSend_shift m dev ⟨hc, ho⟩⟩

/-- **Shift invariance of the ISO-TP node** (`Model/TP.lean`: sender — RTS/BAM announce, the 50 ms wait for the first
CTS / BAM packet pacing, the 100 ms wait after a CTS, EndOfMsgAck / Abort —, receiver — RTS → CTS / EndOfMsgAck, BAM,
packet-number check, the receive slots with their ageing —, the pending product / configuration information of the same
node, the address-claim timer; steps `poll` = one `ParseMessages` with up to 20 received frames, `sendMsgTP` = `SendMsg`
including the TP branch, `moveTo` = commanded address), both timer builds, every shift `k`, every node state and every
frame content: the step from the shifted state gives the shifted state, the same handler calls (`out`), the same frames at
the driver and in the queue, the same return value. Hypotheses = the sentinel slack only: `TPClockOk` (at this clock no
`FromNow` with one of the delays the step can arm — 50, 100, 250 ms, the BAM pacing `bamGap` and `187 + 8a`, `187 + 10a` for
the node's own addresses `a` — lands on the all-ones value in either run; 64-bit: shifted clock + delay below 2^64-1) and `ShiftOk` (no
stored timer does). The receive-slot stamps need no hypothesis at all. `ShiftOk` is re-established and the addresses
are kept, so the statement iterates. -/
theorem C13_shift_invariance_tp (k : Nat) (n : TP.Node) (hc : TP.TPClockOk k n) (ho : n.ShiftOk k) :
    (TP.poll (n.shift k) = (TP.poll n).shift k ∧ (TP.poll n).ShiftOk k ∧
      (TP.poll (n.shift k)).out = (TP.poll n).out ∧ (TP.poll (n.shift k)).s.drv = (TP.poll n).s.drv ∧
      (TP.poll (n.shift k)).s.ring = (TP.poll n).s.ring) ∧
    (∀ m dev, TP.sendMsgTP (n.shift k) m dev = ((TP.sendMsgTP n m dev).1.shift k, (TP.sendMsgTP n m dev).2) ∧
      (TP.sendMsgTP n m dev).1.ShiftOk k) ∧
    (∀ d a, TP.moveTo (n.shift k) d a = (TP.moveTo n d a).shift k ∧ (TP.moveTo n d a).ShiftOk k) := by
  obtain ⟨p1, p2, _, _⟩ := TP.poll_shift hc ho
  obtain ⟨q1, q2, q3⟩ := TP.poll_observable hc ho
  refine ⟨⟨p1, p2, q1, q2, q3⟩, fun m dev => ?_, fun d a => ?_⟩
  · obtain ⟨s1, s2, _, _⟩ := TP.sendMsgTP_shift m dev hc ho
    exact ⟨s1, s2⟩
  · obtain ⟨m1, m2, _, _⟩ := TP.moveTo_shift d a hc.a250 ho
    exact ⟨m1, m2⟩

/-- **Shift invariance of the pending-information timers** (`Model/IsoRequest.lean`: answers to ISO requests for
product / configuration information, `SetPending…Information` after a failed `SendMsg` — retry after `187 + 8·address` /
`187 + 10·address` ms —, `SendPendingInformation`, and a whole `ParseMessages` poll with at most one received ISO
request), both timer builds, every shift `k`, every request, every application handler: the poll from the shifted state
hands the SAME messages to `SendMsg` and yields the shifted state. Hypotheses = the sentinel slack only
(`PendClockOk`: at this clock no `FromNow` with one of the delays the step can arm — the library's 200/250/1000 ms and
`187 + 8a`, `187 + 10a` for the node's own addresses `a` — lands on the all-ones value in either run; 64-bit build: the
shifted clock plus the delay stays below 2^64-1) and `ShiftOk` (no stored deadline does). Both are re-established
(`Kept`), so the statement iterates over polls; `IsoRequest.shift_advance` moves the clock between polls. -/
theorem C13_shift_invariance_pending_info (k : Nat) (n : IsoRequest.Node) (rq : Option Send.Msg)
    (h : Option IsoRequest.Handler) (hc : IsoRequest.PendClockOk k n) (ho : n.ShiftOk k) :
    IsoRequest.pollRq (n.shift k) rq h = ((IsoRequest.pollRq n rq h).1.shift k, (IsoRequest.pollRq n rq h).2) ∧
    (IsoRequest.pollRq n rq h).1.ShiftOk k ∧ IsoRequest.Kept k n (IsoRequest.pollRq n rq h).1 ∧
    (IsoRequest.sendPendingInformation (n.shift k) =
      ((IsoRequest.sendPendingInformation n).1.shift k, (IsoRequest.sendPendingInformation n).2)) ∧
    (∀ m, IsoRequest.handleReceived (n.shift k) m h =
      ((IsoRequest.handleReceived n m h).1.shift k, (IsoRequest.handleReceived n m h).2)) := by
  obtain ⟨e, o, _, _, kp⟩ := IsoRequest.pollRq_shift rq h hc ho
  exact ⟨e, o, kp, (IsoRequest.sendPendingInformation_shift hc ho).1, fun m => (IsoRequest.handleReceived_shift m h hc ho).1⟩

/-- one operation (the heartbeat step included) commutes with the shift -/
theorem C13_shift_invariance_step (k : Nat) (op : Op) (h : HSt) (hw : op.Wf) (hc : HClockOk k h) (ho : h.ShiftOk k) :
    op.apply (h.shift k) = ((op.apply h).1.shift k, (op.apply h).2) ∧ (op.apply h).1.ShiftOk k :=
  op.apply_shift hw hc ho

/-- **Roll counter.** `N2kMillis64()` of the 32-bit build, sampled at true times `ts` that never go backwards and are
less than 2^32 ms apart (the library samples it on every poll of an active node), returns the true time plus a constant
(`e·2^32`, `e` = rolls counted before; 0 for a process that starts below 2^32 ms): exact differences, monotone.
The bound `x / 2^32 + e < 2^32` only excludes overflow of the 32-bit roll counter itself (2^64 ms). -/
theorem C13_roll_counter (r : Roll) (t e : Nat) (ts : List Nat) (hr : r.Tracks t e) (hs : Sampled t ts)
    (hb : ∀ x ∈ ts, x / M32 + e < M32) :
    r.readAll ts = ts.map (· + e * M32) :=
  Roll.readAll_exact ts r t e hr hs hb

/-- the initial static state (`RollCount=0`, `LastRead=0`) tracks time 0 with no extra epochs: exact from process start -/
theorem C13_roll_counter_init : ({} : Roll).Tracks 0 0 := ⟨rfl, rfl⟩

/-- **Shift invariance of the device list's request pacing** (`tN2kDeviceList`: `ReadyForRequest…`,
`Set…Requested`, the three request loops and `HandleOther` as a whole — ISO requests for product information,
configuration information and PGN lists, and the NAME request), for EVERY shift `k`, every list state, every
environment, without any side condition (the device list uses `N2kHasElapsed` only, there is no sentinel):
the step from the shifted state (`DeviceList.State.shift`: creation / last-message stamps and every request stamp whose
counter is non-zero moved by `k` modulo 2^32; a never-used stamp keeps its constant 0, exactly as in a real run from
another origin) at the shifted clock yields the shifted state, the same `return` flag, the same faults and the same
requests on the bus (`out`). This is the code as repaired in /repo f104fb3 (finding `C13:devlist-zero-sentinel`, now
fixed): before, the constant stamp 0 was compared with the clock. -/
theorem C13_shift_invariance_devlist (k : Nat) (e : DeviceList.Env) (s : DeviceList.State) :
    (∀ kd d, DeviceList.ready (e.shift k) kd (d.shift k) = DeviceList.ready e kd d) ∧
    (∀ kd d, DeviceList.markRequested (e.shift k) kd (d.shift k) = (DeviceList.markRequested e kd d).shift k) ∧
    (∀ kd n i, DeviceList.reqLoop (e.shift k) kd n i (s.shift k) =
        (DeviceList.reqLoop e kd n i s).map fun r => (r.1.shift k, r.2)) ∧
    (∀ m, DeviceList.handleOther (e.shift k) (s.shift k) m = (DeviceList.handleOther e s m).map (DeviceList.State.shift k)) ∧
    (s.shift k).out = s.out :=
  ⟨fun kd d => DeviceList.ready_shift k e kd d, fun kd d => DeviceList.markRequested_shift k e kd d,
   fun kd n i => DeviceList.reqLoop_shift k e kd n i s, fun m => DeviceList.handleOther_shift k e s m, rfl⟩

/-! ## non-vacuity of the hypotheses -/

/-- 32-bit build, a shift across the wrap: clock 2^32-5000 shifted by 10000; an armed claim timer -/
example : ClockOk .t32 10000 (M32 - 5000) ∧ (Sched.fromNow .t32 (M32 - 5000) 250).ShiftOk .t32 10000 ∧
    (Sched.disabled .t32).ShiftOk .t32 10000 := by
  refine ⟨by decide, by decide, Or.inl rfl⟩

/-- 64-bit build -/
example : ClockOk .t64 (2 ^ 40) 123456 := by decide

def exampleSt (f : Flavor) (now : Nat) : St :=
  { flavor := f, now := now, listenOnly := false, claimMode := true, openState := 0, openSched := Sched.fromNow f now 0,
    lists := {}, devs := [{ source := 30, name := 1, claimTimer := Sched.disabled f, endSource := 29 }],
    ring := { n := 4, buf := fun _ => ⟨0, 0, []⟩, read := 0, write := 0 },
    drv := { script := [], dflt := true, sent := [] } }

def exampleNode (f : Flavor) (now : Nat) : HSt := { st := exampleSt f now, hb := [{}] }

/-- a new 32-bit node 1000 ms before the wrap, shifted by 2^31, satisfies `ShiftOk`, and the clock condition holds
along a run that crosses the wrap -/
example : (exampleNode .t32 (M32 - 1000)).ShiftOk 2147483648 ∧
    ClocksOk 2147483648 (exampleNode .t32 (M32 - 1000)) [.poll, .tick 300, .poll, .tick 900, .poll] := by
  refine ⟨⟨⟨by decide, ?_⟩, ?_, by decide⟩, ?_⟩
  · intro d hd; simp [exampleNode, exampleSt] at hd; subst hd; exact Or.inl rfl
  · intro b hb; simp [exampleNode] at hb; subst hb; exact ⟨Or.inl rfl, by decide, by decide⟩
  · refine ⟨⟨by decide, by decide⟩, trivial, ⟨by decide, by decide⟩, trivial, ⟨by decide, by decide⟩, trivial,
      ⟨by decide, by decide⟩, trivial, ⟨by decide, by decide⟩, trivial, trivial⟩

/-- address-claim contention across the 32-bit wrap: an open node at address 30 (NAME 1), 100 ms before the wrap, receives
a claim for address 30 from a NAME that wins (0): it moves to 31 and claims again; the 250 ms claim timer armed at
2^32-100 expires after the wrap. History: the frame, +200 ms, poll, +100 ms, poll, read the latch. The hypotheses of
`C13_shift_invariance_claim` hold for the shift 2^31, and the contention really happens in this run. -/
def exampleClaimInst : Claim.Inst := { s := { exampleSt .t32 (M32 - 100) with openState := 3 } }
def exampleClaimEvs : List Claim.Ev :=
  [.parse [.frame ⟨418316062, 8, [0, 0, 0, 0, 0, 0, 0, 0]⟩], .advance 200, .parse [], .advance 100, .parse [], .readChanged]

example : exampleClaimInst.s.ShiftOk 2147483648 ∧ Claim.ClocksOk 2147483648 exampleClaimInst exampleClaimEvs ∧
    (Claim.run exampleClaimInst exampleClaimEvs).1.s.devs.map (·.source) = [31] ∧
    (Claim.run exampleClaimInst exampleClaimEvs).2 = [true] := by
  refine ⟨⟨by decide, ?_⟩, ⟨by decide, by decide, by decide, by decide, by decide, by decide, trivial⟩, by decide, by decide⟩
  intro d hd; simp [exampleClaimInst, exampleSt] at hd; subst hd; exact Or.inl rfl

def exampleTpNode (f : Flavor) (now : Nat) : TP.Node :=
  { s := { exampleSt f now with openState := 3 }, tp := fun _ => TP.TpDev.init f, slots := [{}, {}], onlyKnown := false,
    rxq := [], out := [] }

/-- ISO-TP, 32-bit build: a node 40 ms before the wrap (a transfer started now has its 50 ms timer expire after the wrap),
shifted by 2^31, satisfies the hypotheses of `C13_shift_invariance_tp` -/
example : TP.TPClockOk 2147483648 (exampleTpNode .t32 (M32 - 40)) ∧ (exampleTpNode .t32 (M32 - 40)).ShiftOk 2147483648 ∧
    TP.TPClockOk (2 ^ 40) (exampleTpNode .t64 (M32 - 40)) := by
  refine ⟨⟨by decide, by decide, by decide, fun i => ?_, fun i => ?_, by decide⟩, ⟨⟨by decide, ?_⟩, fun i => Or.inl rfl, ?_⟩,
    ⟨by decide, by decide, by decide, fun i => ?_, fun i => ?_, by decide⟩⟩
  · cases i with
    | zero => decide
    | succ j => show ArmOk .t32 _ _ (187 + 0 * 8); decide
  · cases i with
    | zero => decide
    | succ j => show ArmOk .t32 _ _ (187 + 0 * 10); decide
  · intro d hd; simp [exampleTpNode, exampleSt] at hd; subst hd; exact Or.inl rfl
  · intro i t ht; simp [exampleTpNode] at ht
  · cases i with
    | zero => decide
    | succ j => show ArmOk .t64 _ _ (187 + 0 * 8); decide
  · cases i with
    | zero => decide
    | succ j => show ArmOk .t64 _ _ (187 + 0 * 10); decide

/-- device list, origin in the upper half of the 32-bit range: an entry created at clock 1000 that has never been asked
is ready for its first product-information request exactly 1000 ms later, and so is the same entry in the run whose
clock is 2^31+5000 ms ahead (`Device.shift` leaves the never-used stamp at 0); one millisecond earlier neither is -/
example :
    let e0 : DeviceList.Env := { now := 1000, canSend := true, junkMem := fun _ => 0 }
    let d := DeviceList.Device.new e0 7
    let k := 2147483648 + 5000
    (d.shift k).createTime = 2147483648 + 6000 ∧ (d.shift k).prodIRequested = 0 ∧
    DeviceList.ready { e0 with now := 2000 } .prod d = true ∧
    DeviceList.ready (DeviceList.Env.shift k { e0 with now := 2000 }) .prod (d.shift k) = true ∧
    DeviceList.ready { e0 with now := 1999 } .prod d = false ∧
    DeviceList.ready (DeviceList.Env.shift k { e0 with now := 1999 }) .prod (d.shift k) = false := by
  refine ⟨by decide, by decide, by decide, by decide, by decide, by decide⟩

/-- reassembly slots, the 32-bit counter wraps inside the history: two slots, senders 40 and 41 start a fast packet
50 ms and 30 ms before the wrap and stall; sender 42 arrives 80 ms after the wrap, i.e. 130 ms after sender 40, whose
slot is recycled (it is the oldest; the stamp comparison and the 100 ms test both straddle the wrap). The same history
started at clock 1000 (shift back by 2^32 - 1050) recycles the same slot, by `C13_shift_invariance_rx`. -/
example :
    let fr (src : Nat) : Rx.Frame := ⟨3, 129029, src, 255, 8, [0x20, 43, 1, 2, 3, 4, 5, 6]⟩
    let evs : List (Nat × Rx.Frame) := [(4294967246, fr 40), (4294967266, fr 41), (4294967376, fr 42)]
    ((Rx.run {} (Rx.init 2) evs).slot 0).src = 42 ∧ ((Rx.run {} (Rx.init 2) evs).slot 1).src = 41 ∧
    ((Rx.run {} (Rx.init 2) evs).slot 0).msgTime = 80 := by
  decide

/-- pending information: the hypotheses of `C13_shift_invariance_pending_info` are satisfiable on both builds with a
product-information retry armed 1000 ms before a clock value that the shift carries across the 32-bit wrap -/
example : IsoRequest.PendClockOk 1000 (IsoRequest.exNode .t32) ∧ (IsoRequest.exNode .t32).ShiftOk 1000 ∧
    IsoRequest.PendClockOk 1000 (IsoRequest.exNode .t64) ∧ (IsoRequest.exNode .t64).ShiftOk 1000 := by
  refine ⟨by decide, by decide, by decide, by decide⟩

/-- the sampling hypothesis of the roll counter: start at 2^32-10, samples across the wrap -/
example : Sampled 0 [4294967286, 4294967290, 4294967300, 5000000000] ∧
    (∀ x ∈ [4294967286, 4294967290, 4294967300, 5000000000], x / M32 + 0 < M32) := by
  refine ⟨⟨by decide, by decide, by decide, by decide, by decide, by decide, by decide, by decide, trivial⟩, by decide⟩

end N2k.C13
