import N2k.Spec.Actisense
/-!
# Lemmas for C17 (Actisense encoder and reader)

* list facts (`getD`/`set`/`take`), the encoder writes `frame (bodyOf m)` (`encode_valid`);
* the reader invariant `RInv` (buffer size, write position, `byteSum ≡` sum of the buffered bytes
  except the one at index `len+2`), `CheckMessage` = the specification's `decodeBody` (`checkPure_eq`);
* `step_total`: every loop iteration is fault free and keeps the invariant;
* feeding a frame (`frame_fed`), `GetMessageFromStream`/`ParseMessages` against `feed`.
-/
set_option linter.unusedSimpArgs false
namespace N2k.Acti

theorem getD_set (l : List Nat) (i j v d : Nat) :
    (l.set i v).getD j d = if i = j ∧ i < l.length then v else l.getD j d := by
  simp only [List.getD_eq_getElem?_getD, List.getElem?_set]
  by_cases h : i = j
  · subst h; by_cases h2 : i < l.length <;> simp [h2]
  · simp [h]

theorem take_set_succ (l : List Nat) (i v : Nat) (h : i < l.length) :
    (l.set i v).take (i + 1) = l.take i ++ [v] := by
  induction l generalizing i with
  | nil => simp at h
  | cons a t ih =>
    cases i with
    | zero => simp
    | succ k => simp at h; simp [ih k h]

theorem take_set_of_le (l : List Nat) (i k v : Nat) (h : k ≤ i) :
    (l.set i v).take k = l.take k := by
  induction l generalizing i k with
  | nil => simp
  | cons a t ih =>
    cases k with
    | zero => simp
    | succ k' =>
      cases i with
      | zero => omega
      | succ i' => simp [ih i' k' (by omega)]

theorem sum_take_succ (l : List Nat) (n : Nat) (h : n < l.length) :
    (l.take (n + 1)).sum = (l.take n).sum + l.getD n 0 := by
  induction l generalizing n with
  | nil => simp at h
  | cons a t ih =>
    cases n with
    | zero => simp
    | succ k => simp at h; simp [ih k h]; omega


/-! ## encoder -/

/-- the encoder state holds `acc` in `buf[0 .. idx)` -/
structure EncHolds (N : Nat) (e : Enc) (acc : List Byte) (sum : Nat) : Prop where
  len : e.buf.length = N
  idx : e.idx = acc.length
  take : e.buf.take e.idx = acc
  sum : e.sum = sum

theorem put_holds {p : EncParams} {N : Nat} {e : Enc} {acc : List Byte} {sum : Nat} (b : Byte)
    (h : EncHolds N e acc sum) (hN : N < p.idxMod) (hroom : acc.length < N) :
    ∃ e', e.put p b = .ok e' ∧ EncHolds N e' (acc ++ [b]) sum := by
  obtain ⟨hl, hi, ht, hs⟩ := h
  have h1 : e.idx < e.buf.length := by omega
  have h2 : (e.idx + 1) % p.idxMod = e.idx + 1 := Nat.mod_eq_of_lt (by omega)
  refine ⟨{ e with buf := e.buf.set e.idx b, idx := (e.idx + 1) % p.idxMod }, by simp [Enc.put, h1], ?_⟩
  refine ⟨by simp [hl], by show (e.idx + 1) % p.idxMod = (acc ++ [b]).length; rw [h2, hi]; simp, ?_, hs⟩
  simp only [h2]
  rw [take_set_succ _ _ _ h1, ht]

theorem esc1_length_le (b : Byte) : (esc1 b).length ≤ 2 := by unfold esc1; split <;> simp

theorem escAll_length_le (l : List Byte) : (escAll l).length ≤ 2 * l.length := by
  induction l with
  | nil => simp [escAll]
  | cons a t ih => have := esc1_length_le a; simp [escAll]; omega

theorem addEscaped_holds {p : EncParams} {N : Nat} {e : Enc} {acc : List Byte} {sum : Nat} (b : Byte)
    (h : EncHolds N e acc sum) (hN : N < p.idxMod) (hroom : acc.length + 2 ≤ N) :
    ∃ e', e.addEscaped p b = .ok e' ∧ EncHolds N e' (acc ++ esc1 b) (sum + b) := by
  obtain ⟨e1, he1, h1⟩ := put_holds (p := p) b h hN (by omega)
  have h1' : EncHolds N { e1 with sum := e1.sum + b } (acc ++ [b]) (sum + b) :=
    ⟨h1.len, h1.idx, h1.take, by simp [h1.sum]⟩
  unfold Enc.addEscaped
  rw [he1]
  by_cases hb : b = 0x10
  · obtain ⟨e2, he2, h2⟩ := put_holds (p := p) 0x10 h1' hN (by simp; omega)
    refine ⟨e2, by simp [hb] at he2 ⊢; exact he2, ?_⟩
    simpa [esc1, hb] using h2
  · exact ⟨{ e1 with sum := e1.sum + b }, by simp [hb], by simpa [esc1, hb] using h1'⟩

theorem addAll_holds {p : EncParams} {N : Nat} (l : List Byte) {e : Enc} {acc : List Byte} {sum : Nat}
    (h : EncHolds N e acc sum) (hN : N < p.idxMod) (hroom : acc.length + 2 * l.length ≤ N) :
    ∃ e', Enc.addAll p e l = .ok e' ∧ EncHolds N e' (acc ++ escAll l) (sum + l.sum) := by
  induction l generalizing e acc sum with
  | nil => exact ⟨e, rfl, by simpa [escAll] using h⟩
  | cons a t ih =>
    simp only [List.length_cons] at hroom
    obtain ⟨e1, he1, h1⟩ := addEscaped_holds (p := p) a h hN (by omega)
    have := esc1_length_le a
    obtain ⟨e2, he2, h2⟩ := ih h1 (by simp; omega)
    refine ⟨e2, by simp [Enc.addAll, he1, he2], ?_⟩
    simpa [escAll, Nat.add_assoc] using h2

theorem encChecksum_eq (l : List Byte) : encChecksum l.sum = checksum l := by
  unfold encChecksum checksum
  by_cases h : l.sum % 256 = 0
  · simp [h]
  · simp only [h, if_false]; omega

theorem dataBytes_eq {m : Msg} (h : m.data.length = m.len) : dataBytes m = m.data := by
  unfold dataBytes
  apply List.ext_getElem
  · simp [h]
  · intro i h1 h2
    simp at h1
    simp [List.getD_eq_getElem?_getD, h ▸ h1]


theorem putAll_holds {p : EncParams} {N : Nat} (l : List Byte) {e : Enc} {acc : List Byte} {sum : Nat}
    (h : EncHolds N e acc sum) (hN : N < p.idxMod) (hroom : acc.length + l.length ≤ N) :
    ∃ e', Enc.putAll p e l = .ok e' ∧ EncHolds N e' (acc ++ l) sum := by
  induction l generalizing e acc with
  | nil => exact ⟨e, rfl, by simpa using h⟩
  | cons a t ih =>
    simp only [List.length_cons] at hroom
    obtain ⟨e1, he1, h1⟩ := put_holds (p := p) a h hN (by omega)
    obtain ⟨e2, he2, h2⟩ := ih h1 (by simp; omega)
    exact ⟨e2, by simp [Enc.putAll, he1, he2], by simpa using h2⟩

theorem header_length (m : Msg) : (header m).length = 13 := rfl

/-- for a valid message the encoder writes exactly the frame of its body, without index fault -/
theorem encode_valid {m : Msg} (hv : Valid m) : sendInActisense m = .ok (frame (bodyOf m)) := by
  have hd := dataBytes_eq hv.data_len
  have hle := hv.len_le
  have hN : 478 < fixedParams.idxMod := by decide
  have h0 : EncHolds 478 ⟨List.replicate fixedParams.bufSize 0, 0, 0⟩ [] 0 :=
    ⟨by show (List.replicate _ _).length = _; rw [List.length_replicate]; rfl, rfl, List.take_zero, rfl⟩
  obtain ⟨e2, he2, h2⟩ := putAll_holds (p := fixedParams) [0x10, 0x02] h0 hN (by simp)
  have hlen : (header m ++ m.data).length = 13 + m.len := by simp [header_length, hv.data_len]
  obtain ⟨e3, he3, h3⟩ := addAll_holds (p := fixedParams) (header m ++ m.data) h2 hN
    (by rw [hlen]; simp; omega)
  have hesc := escAll_length_le (header m ++ m.data)
  rw [hlen] at hesc
  have hcs : encChecksum e3.sum = checksum (bodyOf m) := by
    rw [h3.sum]; simp only [Nat.zero_add]; exact encChecksum_eq _
  obtain ⟨e7, he7, h7⟩ := putAll_holds (p := fixedParams)
    ((if encChecksum e3.sum = 0x10 then [encChecksum e3.sum, encChecksum e3.sum] else [encChecksum e3.sum]) ++ [0x10, 0x03])
    h3 hN (by
      have h4 : ∀ c : Nat, ((if c = 0x10 then [c, c] else [c]) ++ [0x10, 0x03]).length ≤ 4 := by
        intro c; split <;> simp
      have := h4 (encChecksum e3.sum)
      simp only [List.length_append, List.length_nil, List.length_cons] at this ⊢
      omega)
  unfold sendInActisense encode
  have hne : ¬(m.pgn = 0 ∨ m.len = 0) := by have := hv.pgn_pos; have := hv.len_pos; omega
  have hnl : ¬(maxDataLen < m.len) := by unfold maxDataLen; omega
  simp only [hne, hnl, if_false, he2, hd, he3, he7]
  rw [h7.take, hcs]
  unfold frame esc1 bodyOf
  split <;> simp_all


/-! ## reader: buffer and running sum -/

theorem getD_take (l : List Nat) (n i d : Nat) : (l.take n).getD i d = if i < n then l.getD i d else d := by
  simp only [List.getD_eq_getElem?_getD, List.getElem?_take]
  split <;> simp

theorem bufGet_ok {l : List Nat} {i : Nat} (h : i < l.length) : bufGet l i = .ok (l.getD i 0) := by
  simp [bufGet, h]

/-- the sum `byteSum` tracks: all bytes of `buf[0 .. n)` except the one at index `x` -/
def sumTo (buf : List Nat) (x : Nat) : Nat → Nat
  | 0 => 0
  | n + 1 => sumTo buf x n + (if n = x then 0 else buf.getD n 0)

theorem sumTo_congr {buf buf' : List Nat} {x x' : Nat} (n : Nat)
    (h1 : ∀ i, i < n → buf.getD i 0 = buf'.getD i 0) (h2 : ∀ i, i < n → (i = x ↔ i = x')) :
    sumTo buf x n = sumTo buf' x' n := by
  induction n with
  | zero => rfl
  | succ k ih =>
    simp only [sumTo]
    rw [ih (fun i hi => h1 i (by omega)) (fun i hi => h2 i (by omega)), h1 k (by omega)]
    by_cases hk : k = x
    · simp [hk, (h2 k (by omega)).mp hk ▸ hk]
    · have : ¬ k = x' := fun h => hk ((h2 k (by omega)).mpr h)
      simp [hk, this]

theorem sumTo_eq_take_sum {buf : List Nat} {x : Nat} (n : Nat) (hx : n ≤ x) (hn : n ≤ buf.length) :
    sumTo buf x n = (buf.take n).sum := by
  induction n with
  | zero => simp [sumTo]
  | succ k ih =>
    simp only [sumTo]
    rw [ih (by omega) (by omega), sum_take_succ _ _ (by omega)]
    have : ¬ k = x := by omega
    simp [this]

/-- the invariant of every reachable reader state -/
structure RInv (s : RState) : Prop where
  len : s.buf.length = 300
  pos : s.pos ≤ 300
  sum : s.sum % 256 = ((sumTo s.buf (s.buf.getD 1 0 + 2) s.pos : Nat) : Int) % 256

theorem RInv.clear {s : RState} (h : RInv s) : RInv (clearBuffer s) :=
  ⟨h.len, by simp [clearBuffer], by simp [clearBuffer, sumTo]⟩

theorem charVal_mod (c : Cfg) (b : Nat) : charVal c b % 256 = (b : Int) % 256 := by
  unfold charVal; split <;> omega

/-- `AddByteToBuffer` with room: the byte is stored, the invariant kept, the flags untouched -/
theorem addByte_room (c : Cfg) {s : RState} (b : Nat) (h : RInv s) (hp : s.pos < 300) :
    ∃ s', addByteToBuffer c s b = .ok (s', true) ∧ s'.buf = s.buf.set s.pos b ∧ s'.pos = s.pos + 1 ∧
      s'.sot = s.sot ∧ s'.coming = s.coming ∧ s'.esc = s.esc ∧ RInv s' := by
  have hl := h.len
  have h1 : ¬ maxBuf ≤ s.pos := by unfold maxBuf; omega
  have h2 : s.pos < s.buf.length := by omega
  have h3 : 1 < (s.buf.set s.pos b).length := by simp [hl]
  unfold addByteToBuffer
  simp only [h1, h2, if_false, if_true, bufGet_ok h3]
  refine ⟨_, rfl, rfl, rfl, rfl, rfl, rfl, ⟨by simp [hl], by simp; omega, ?_⟩⟩
  simp only [sumTo]
  have hcong : sumTo (s.buf.set s.pos b) ((s.buf.set s.pos b).getD 1 0 + 2) s.pos
      = sumTo s.buf (s.buf.getD 1 0 + 2) s.pos := by
    apply sumTo_congr
    · intro i hi; rw [getD_set]; have : ¬ (s.pos = i ∧ s.pos < s.buf.length) := by omega
      simp [this]
    · intro i hi
      by_cases hp1 : s.pos ≤ 1
      · constructor <;> intro <;> omega
      · rw [getD_set]; have : ¬ (s.pos = 1 ∧ s.pos < s.buf.length) := by omega
        simp [this]
  rw [hcong]
  have hb : (s.buf.set s.pos b).getD s.pos 0 = b := by rw [getD_set]; simp [h2]
  rw [hb]
  have hs := h.sum
  have hcv := charVal_mod c b
  generalize (s.buf.set s.pos b).getD 1 0 = b1 at *
  generalize sumTo s.buf (s.buf.getD 1 0 + 2) s.pos = S at *
  by_cases hx : s.pos = b1 + 2
  · have : ¬ (b1 + 3 ≠ s.pos + 1) := by omega
    simp only [hx, if_true]; simp only [← hx]; omega
  · have : b1 + 3 ≠ s.pos + 1 := by omega
    simp only [hx, if_false]; omega

theorem addByte_full (c : Cfg) {s : RState} (b : Nat) (hp : 300 ≤ s.pos) :
    addByteToBuffer c s b = .ok (s, false) := by
  unfold addByteToBuffer maxBuf; simp [hp]

/-- `if (!AddByteToBuffer(b)) ClearBuffer();` never faults and keeps the invariant -/
theorem addOrClear_ok (c : Cfg) {s : RState} (b : Nat) (h : RInv s) :
    ∃ s', addOrClear c s b = .ok s' ∧ RInv s' := by
  unfold addOrClear
  by_cases hp : s.pos < 300
  · obtain ⟨s', he, _, _, _, _, _, hi⟩ := addByte_room c b h hp
    exact ⟨s', by simp [he], hi⟩
  · rw [addByte_full c b (by omega)]
    exact ⟨clearBuffer s, by simp, h.clear⟩

theorem copyOut_eq (buf : List Nat) (n i j : Nat) (acc : List Nat) (hi : i + n ≤ buf.length)
    (hj : j + n ≤ 223) : copyOut buf n i j acc = .ok (acc ++ (buf.drop i).take n) := by
  induction n generalizing i j acc with
  | zero => simp [copyOut]
  | succ k ih =>
    have h1 : j < maxDataLen := by unfold maxDataLen; omega
    have h2 : i < buf.length := by omega
    simp only [copyOut, h1, if_true, bufGet_ok h2]
    rw [ih (i + 1) (j + 1) _ (by omega) (by omega)]
    congr 1
    rw [List.append_assoc]; congr 1
    rw [List.getD_eq_getElem?_getD, List.getElem?_eq_getElem h2]
    simp only [Option.getD_some]
    conv => rhs; rw [List.drop_eq_getElem_cons h2, List.take_succ_cons]
    rfl


/-! ## `CheckMessage` -/

/-- `checkMessage` without the index checks -/
def checkPure (c : Cfg) (s : RState) : Option Msg :=
  let B := fun i => s.buf.getD i 0
  let hdr := if B 0 = 0x93 then 13 else 8
  if s.pos ≠ B 1 + 3 then none else
  if rdChecksum s.sum ≠ B (s.pos - 1) then none else
  if 223 < B (hdr - 1) then none else
  if hdr + B (hdr - 1) ≠ s.pos - 1 then none else
  some ⟨B 2, B 3 + 256 * B 4 + 65536 * B 5, B 6,
        if B 0 = 0x93 then B 7 else c.defaultSource,
        if B 0 = 0x93 then (if c.stampLocal = false then B 8 + 256 * B 9 + 65536 * B 10 + 16777216 * B 11 else c.now) else c.now,
        B (hdr - 1), (s.buf.drop hdr).take (B (hdr - 1))⟩

theorem checkMessage_ok (c : Cfg) {s : RState} (hl : s.buf.length = 300) (hp : s.pos ≤ 300) :
    checkMessage c s = .ok (checkPure c s) := by
  have g : ∀ i, i < 300 → bufGet s.buf i = .ok (s.buf.getD i 0) := fun i hi => bufGet_ok (by omega)
  unfold checkMessage checkPure
  simp only [g 1 (by omega)]
  by_cases h1 : s.pos ≠ s.buf.getD 1 0 + 3
  · rw [if_pos h1, if_pos h1]
  have h1' : s.pos = s.buf.getD 1 0 + 3 := by omega
  have h0 : ¬ s.pos = 0 := by omega
  simp only [h1, h0, if_false, g (s.pos - 1) (by omega)]
  by_cases h2 : rdChecksum s.sum ≠ s.buf.getD (s.pos - 1) 0
  · rw [if_pos h2, if_pos h2]
  simp only [h2, if_false, g 2 (by omega), g 3 (by omega), g 4 (by omega), g 5 (by omega), g 6 (by omega)]
  unfold readSrcTime
  simp only [g 0 (by omega)]
  by_cases ht : s.buf.getD 0 0 = 0x93
  · simp only [ht, if_true, g 7 (by omega), g 8 (by omega), g 9 (by omega), g 10 (by omega),
      g 11 (by omega), g 12 (by omega)]
    by_cases h3 : maxDataLen < s.buf.getD 12 0
    · have : 223 < s.buf.getD 12 0 := h3
      rw [if_pos h3, if_pos this]
    have h3' : ¬ 223 < s.buf.getD 12 0 := h3
    simp only [h3, h3', if_false]
    by_cases h4 : 12 + 1 + s.buf.getD 12 0 ≠ s.pos - 1
    · have : 13 + s.buf.getD 12 0 ≠ s.pos - 1 := by omega
      rw [if_pos h4, if_pos this]
    have h4' : ¬ 13 + s.buf.getD 12 0 ≠ s.pos - 1 := by omega
    simp only [h4, h4', if_false]
    unfold maxDataLen at h3
    rw [copyOut_eq _ _ _ _ _ (by omega) (by omega)]
    have : s.pos - 1 - (12 + 1) = s.buf.getD 12 0 := by omega
    rw [this, List.nil_append]
  · simp only [ht, if_false, g 7 (by omega)]
    by_cases h3 : maxDataLen < s.buf.getD 7 0
    · have : 223 < s.buf.getD 7 0 := h3
      rw [if_pos h3, if_pos this]
    have h3' : ¬ 223 < s.buf.getD 7 0 := h3
    simp only [h3, h3', if_false]
    by_cases h4 : 7 + 1 + s.buf.getD 7 0 ≠ s.pos - 1
    · have : 8 + s.buf.getD 7 0 ≠ s.pos - 1 := by omega
      rw [if_pos h4, if_pos this]
    have h4' : ¬ 8 + s.buf.getD 7 0 ≠ s.pos - 1 := by omega
    simp only [h4, h4', if_false]
    unfold maxDataLen at h3
    rw [copyOut_eq _ _ _ _ _ (by omega) (by omega)]
    have : s.pos - 1 - (7 + 1) = s.buf.getD 7 0 := by omega
    rw [this, List.nil_append]


theorem rdChecksum_eq {sum : Int} {T : Nat} (h : sum % 256 = (T : Int) % 256) :
    rdChecksum sum = (256 - T % 256) % 256 := by
  unfold rdChecksum; omega

/-- under the invariant `CheckMessage` computes exactly the specification's decoding of the
unescaped bytes received since the start sequence -/
theorem checkPure_eq (c : Cfg) {s : RState} (h : RInv s)
    (ht : s.buf.getD 0 0 = 0x93 ∨ s.buf.getD 0 0 = 0x94) :
    checkPure c s = decodeBody c.defaultSource c.now c.stampLocal (s.buf.take s.pos) := by
  have hl := h.len
  have hp := h.pos
  have hlen : (s.buf.take s.pos).length = s.pos := by rw [List.length_take]; omega
  unfold checkPure decodeBody
  simp only [hlen]
  have e1 : (s.buf.take s.pos).getD 1 0 = if 1 < s.pos then s.buf.getD 1 0 else 0 := getD_take _ _ _ _
  by_cases h1 : s.pos ≠ s.buf.getD 1 0 + 3
  · rw [if_pos h1, if_neg]
    rintro ⟨_, h2, _⟩
    rw [e1] at h2; split at h2 <;> omega
  have h1' : s.pos = s.buf.getD 1 0 + 3 := by omega
  rw [if_neg h1]
  have e0 : (s.buf.take s.pos).getD 0 0 = s.buf.getD 0 0 := by rw [getD_take, if_pos (by omega)]
  have e1' : (s.buf.take s.pos).getD 1 0 = s.buf.getD 1 0 := by rw [getD_take, if_pos (by omega)]
  have eL : (s.buf.take s.pos).getD (s.pos - 1) 0 = s.buf.getD (s.pos - 1) 0 := by
    rw [getD_take, if_pos (by omega)]
  have eT : (s.buf.take s.pos).take (s.pos - 1) = s.buf.take (s.pos - 1) := by
    rw [List.take_take]; congr 1; omega
  have hsum : s.sum % 256 = (((s.buf.take (s.pos - 1)).sum : Nat) : Int) % 256 := by
    have := h.sum
    have hx : s.buf.getD 1 0 + 2 = s.pos - 1 := by omega
    rw [hx] at this
    have hs : sumTo s.buf (s.pos - 1) s.pos = (s.buf.take (s.pos - 1)).sum := by
      have : s.pos = (s.pos - 1) + 1 := by omega
      rw [this]; simp only [sumTo, Nat.add_sub_cancel, if_true, Nat.add_zero]
      exact sumTo_eq_take_sum _ (Nat.le_refl _) (by omega)
    rw [hs] at this; exact this
  have hck : rdChecksum s.sum = checksum (s.buf.take (s.pos - 1)) := rdChecksum_eq hsum
  simp only [e0, e1', eL, eT, hck]
  by_cases h2 : checksum (s.buf.take (s.pos - 1)) ≠ s.buf.getD (s.pos - 1) 0
  · rw [if_pos h2, if_neg]
    rintro ⟨_, _, h3, _⟩
    exact h2 h3.symm
  rw [if_neg h2]
  have h2' : s.buf.getD (s.pos - 1) 0 = checksum (s.buf.take (s.pos - 1)) := by
    have := Classical.not_not.mp h2; exact this.symm
  by_cases h93 : s.buf.getD 0 0 = 0x93
  · have hD : (s.buf.take s.pos).getD 12 0 = if 12 < s.pos then s.buf.getD 12 0 else 0 := getD_take _ _ _ _
    simp only [h93, if_true, show (13 : Nat) - 1 = 12 from rfl, hD]
    by_cases h3 : 223 < s.buf.getD 12 0
    · rw [if_pos h3, if_neg]
      rintro ⟨_, _, _, h4, h5⟩
      split at h4 <;> split at h5 <;> omega
    rw [if_neg h3]
    by_cases h4 : 13 + s.buf.getD 12 0 ≠ s.pos - 1
    · rw [if_pos h4, if_neg]
      rintro ⟨_, _, _, h5, h6⟩
      split at h5 <;> split at h6 <;> omega
    rw [if_neg h4]
    have hpos : s.pos = 13 + s.buf.getD 12 0 + 1 := by omega
    have hlt : 12 < s.pos := by omega
    simp only [hlt, if_true]
    rw [if_pos (c := (_ ∨ _) ∧ _ ∧ _ ∧ _ ∧ _) ⟨Or.inl trivial, h1', h2', by omega, hpos⟩]
    have e : ∀ i, i < 13 → (s.buf.take s.pos).getD i 0 = s.buf.getD i 0 := by
      intro i hi; rw [getD_take, if_pos (by omega)]
    simp only [e 2 (by omega), e 3 (by omega), e 4 (by omega), e 5 (by omega), e 6 (by omega), e 7 (by omega), e 8 (by omega), e 9 (by omega), e 10 (by omega), e 11 (by omega), e 12 (by omega)]
    congr 2
    rw [List.drop_take, List.take_take]
    congr 1
    omega

  · have h94 : s.buf.getD 0 0 = 0x94 := by cases ht with
      | inl h => exact absurd h h93
      | inr h => exact h
    have hne : ¬ ((0x94 : Nat) = 0x93) := by decide

    have hD : (s.buf.take s.pos).getD 7 0 = if 7 < s.pos then s.buf.getD 7 0 else 0 := getD_take _ _ _ _
    simp only [h94, hne, if_false, show (8 : Nat) - 1 = 7 from rfl, hD]
    by_cases h3 : 223 < s.buf.getD 7 0
    · rw [if_pos h3, if_neg]
      rintro ⟨_, _, _, h4, h5⟩
      split at h4 <;> split at h5 <;> omega
    rw [if_neg h3]
    by_cases h4 : 8 + s.buf.getD 7 0 ≠ s.pos - 1
    · rw [if_pos h4, if_neg]
      rintro ⟨_, _, _, h5, h6⟩
      split at h5 <;> split at h6 <;> omega
    rw [if_neg h4]
    have hpos : s.pos = 8 + s.buf.getD 7 0 + 1 := by omega
    have hlt : 7 < s.pos := by omega
    simp only [hlt, if_true]
    rw [if_pos (c := (_ ∨ _) ∧ _ ∧ _ ∧ _ ∧ _) ⟨Or.inr trivial, h1', h2', by omega, hpos⟩]
    have e : ∀ i, i < 8 → (s.buf.take s.pos).getD i 0 = s.buf.getD i 0 := by
      intro i hi; rw [getD_take, if_pos (by omega)]
    simp only [e 2 (by omega), e 3 (by omega), e 4 (by omega), e 5 (by omega), e 6 (by omega), e 7 (by omega)]
    congr 2
    rw [List.drop_take, List.take_take]
    congr 1
    omega


/-! ## one loop iteration -/

theorem RInv.flags {s : RState} (h : RInv s) (a b c : Bool) :
    RInv { s with sot := a, coming := b, esc := c } := ⟨h.len, h.pos, h.sum⟩

theorem bool_not_true {x : Bool} (h : ¬ x = true) : x = false := by cases x <;> simp_all

/-- Every iteration from a state satisfying the invariant: no fault, invariant kept, a reported
message is the specification's decoding of the buffered body, an unread byte ends the loop. -/
theorem step_total (c : Cfg) (ro : Bool) {s : RState} (b : Nat) (h : RInv s) :
    ∃ s' k r, readerStep c ro s b = .ok (s', k, r) ∧ RInv s' ∧
      (∀ m, r = some m → s.coming = true ∧ s.esc = true ∧ b = 0x03 ∧
        decodeBody c.defaultSource c.now c.stampLocal (s.buf.take s.pos) = some m) ∧
      (k = false → handling s' = false ∧ ro = false) ∧ (b ≠ 0x10 → s'.esc = false) := by
  unfold readerStep
  by_cases hc : s.coming = true
  · rw [if_pos hc]
    by_cases he : s.esc = true
    · rw [if_pos he]
      by_cases h10 : b = 0x10
      · rw [if_pos h10]
        obtain ⟨s', hs', hi⟩ := addOrClear_ok c (s := { s with esc := false }) b (h.flags _ _ _)
        rw [hs']
        exact ⟨_, _, _, rfl, hi, by simp, by simp, by simp [h10]⟩
      · rw [if_neg h10]
        by_cases h3 : b = 0x03
        · rw [if_pos h3, bufGet_ok (by rw [h.len]; omega)]
          simp only []
          by_cases ht : s.buf.getD 0 0 = 0x93 ∨ s.buf.getD 0 0 = 0x94
          · rw [if_pos ht, checkMessage_ok c h.len h.pos, checkPure_eq c h ht]
            refine ⟨_, _, _, rfl, h.clear, ?_, by simp, by simp [clearBuffer]⟩
            intro m hm; exact ⟨hc, he, h3, hm⟩
          · rw [if_neg ht]
            exact ⟨_, _, _, rfl, h.clear, by simp, by simp, by simp [clearBuffer]⟩
        · rw [if_neg h3]
          by_cases h2 : b = 0x02
          · rw [if_pos h2]
            exact ⟨_, _, _, rfl, h.clear.flags _ _ _, by simp, by simp, by simp [clearBuffer]⟩
          · rw [if_neg h2]
            exact ⟨_, _, _, rfl, h.clear, by simp, by simp, by simp [clearBuffer]⟩
    · rw [if_neg he]
      by_cases h10 : b = 0x10
      · rw [if_pos h10]
        exact ⟨_, _, _, rfl, h.flags _ _ _, by simp, by simp, by simp [h10]⟩
      · rw [if_neg h10]
        unfold addOrClear
        by_cases hp : s.pos < 300
        · obtain ⟨s', hadd, _, _, _, _, hesc, hi⟩ := addByte_room c b h hp
          rw [hadd]
          exact ⟨_, _, _, rfl, hi, by simp, by simp, by intro _; simp [hesc, bool_not_true he]⟩
        · rw [addByte_full c b (by omega)]
          exact ⟨_, _, _, rfl, h.clear, by simp, by simp, by simp [clearBuffer]⟩
  · -- not inside a message
    rw [if_neg hc]
    by_cases h2 : b = 0x02
    · rw [if_pos h2]
      by_cases he : s.esc = true
      · rw [if_pos he]
        exact ⟨_, _, _, rfl, h.clear.flags _ _ _, by simp, by simp, by simp [clearBuffer]⟩
      · rw [if_neg he]
        refine ⟨_, _, _, rfl, h.flags _ _ _, by simp, ?_, by simp [bool_not_true he]⟩
        intro hk; simp [handling, bool_not_true hc, bool_not_true he, hk]
    · rw [if_neg h2]
      by_cases hs : s.sot = true
      · rw [if_pos hs]
        by_cases hp : s.pos < 300
        · obtain ⟨s', he, _, _, _, _, hesc, hi⟩ :=
            addByte_room c (s := { s with esc := decide (b = 0x10), sot := false, coming := true }) b
              (h.flags _ _ _) hp
          rw [he]
          exact ⟨_, _, _, rfl, hi, by simp, by simp, by intro hb; rw [hesc]; simp [hb]⟩
        · rw [addByte_full c b (by simpa using hp)]
          exact ⟨_, _, _, rfl, h.flags _ _ _, by simp, by simp, by intro hb; simp [hb]⟩
      · rw [if_neg hs]
        refine ⟨_, _, _, rfl, h.flags _ _ _, by simp, ?_, by intro hb; simp [hb]⟩
        intro hk
        simp only [Bool.or_eq_false_iff, decide_eq_false_iff_not] at hk
        simp [handling, bool_not_true hc, bool_not_true hs, hk.1, hk.2]

theorem Reachable.inv {s : RState} (h : Reachable s) : RInv s := by
  induction h with
  | init buf0 hb => exact ⟨hb, by simp [RState.init], by simp [RState.init, sumTo]⟩
  | step c ro b k r _ hstep ih =>
    obtain ⟨s1, k1, r1, h1, hi, _⟩ := step_total c ro b ih
    rw [hstep] at h1
    simp only [Except.ok.injEq, Prod.mk.injEq] at h1
    rw [h1.1]; exact hi

/-! ## byte streams -/

theorem feed_append (c : Cfg) (s : RState) (a b : List Nat) :
    feed c s (a ++ b) = match feed c s a with
      | .error f => .error f
      | .ok (s1, m1) => match feed c s1 b with
        | .error f => .error f
        | .ok (s2, m2) => .ok (s2, m1 ++ m2) := by
  induction a generalizing s with
  | nil =>
    simp only [List.nil_append, feed]
    cases feed c s b with
    | error f => rfl
    | ok r => simp
  | cons x t ih =>
    simp only [List.cons_append, feed]
    cases readerStep c true s x with
    | error f => rfl
    | ok r =>
      obtain ⟨s', k, r⟩ := r
      simp only [ih]
      cases feed c s' t with
      | error f => rfl
      | ok r1 =>
        obtain ⟨s1, m1⟩ := r1
        simp only []
        cases feed c s1 b with
        | error f => rfl
        | ok r2 => simp [List.append_assoc]

/-- no byte stream makes the reader fault; after a byte other than 0x10 no escape is pending -/
theorem feed_total (c : Cfg) (bytes : List Nat) {s : RState} (h : RInv s) :
    ∃ s' ms, feed c s bytes = .ok (s', ms) ∧ RInv s' ∧
      (∀ b, bytes.getLast? = some b → b ≠ 0x10 → s'.esc = false) := by
  induction bytes generalizing s with
  | nil => exact ⟨s, [], rfl, h, by simp⟩
  | cons x t ih =>
    obtain ⟨s1, k, r, hstep, hi, _, _, hesc⟩ := step_total c true x h
    obtain ⟨s2, ms, hf, hi2, hlast⟩ := ih hi
    refine ⟨s2, r.toList ++ ms, by simp [feed, hstep, hf], hi2, ?_⟩
    intro b hb hne
    cases t with
    | nil =>
      simp only [List.getLast?_singleton, Option.some.injEq] at hb
      simp only [feed, Except.ok.injEq, Prod.mk.injEq] at hf
      rw [← hf.1]; exact hesc (hb ▸ hne)
    | cons y t' => exact hlast b (by simpa using hb) hne

/-- the reader is inside a frame and has collected `body` -/
structure InFrame (s : RState) (body : List Nat) : Prop where
  inv : RInv s
  coming : s.coming = true
  esc : s.esc = false
  pos : s.pos = body.length
  take : s.buf.take s.pos = body

theorem inFrame_plain (c : Cfg) {s : RState} {body : List Nat} (b : Nat) (h : InFrame s body)
    (hr : body.length < 300) (hb : b ≠ 0x10) :
    ∃ s', readerStep c true s b = .ok (s', true, none) ∧ InFrame s' (body ++ [b]) := by
  unfold readerStep
  have he : ¬ s.esc = true := by simp [h.esc]
  rw [if_pos h.coming, if_neg he, if_neg hb]
  unfold addOrClear
  obtain ⟨s', hadd, hbuf, hpos, _, hcom, hesc, hi⟩ := addByte_room c b h.inv (by rw [h.pos]; exact hr)
  rw [hadd]
  refine ⟨s', rfl, hi, by rw [hcom, h.coming], by rw [hesc, h.esc], by simp [hpos, h.pos], ?_⟩
  rw [hpos, hbuf, take_set_succ _ _ _ (by rw [h.inv.len, h.pos]; omega), h.take]

theorem inFrame_esc1 (c : Cfg) {s : RState} {body : List Nat} (b : Nat) (h : InFrame s body)
    (hr : body.length < 300) :
    ∃ s', feed c s (esc1 b) = .ok (s', []) ∧ InFrame s' (body ++ [b]) := by
  unfold esc1
  by_cases hb : b = 0x10
  · rw [if_pos hb]
    have he : ¬ s.esc = true := by simp [h.esc]
    have hstep1 : readerStep c true s 0x10 = .ok ({ s with esc := true }, true, none) := by
      unfold readerStep; rw [if_pos h.coming, if_neg he, if_pos rfl]
    have hstep2 : ∃ s', readerStep c true { s with esc := true } 0x10 = .ok (s', true, none) ∧
        InFrame s' (body ++ [0x10]) := by
      unfold readerStep
      rw [if_pos h.coming, if_pos rfl, if_pos rfl]
      unfold addOrClear
      obtain ⟨s', hadd, hbuf, hpos, _, hcom, hesc, hi⟩ :=
        addByte_room c (s := { s with esc := false }) 0x10 (h.inv.flags _ _ _) (by show s.pos < 300; rw [h.pos]; exact hr)
      simp only [] at hadd ⊢
      rw [hadd]
      refine ⟨s', rfl, hi, by rw [hcom]; exact h.coming, by rw [hesc], by simp [hpos, h.pos], ?_⟩
      rw [hpos, hbuf]
      show List.take (s.pos + 1) (s.buf.set s.pos 0x10) = _
      rw [take_set_succ _ _ _ (by rw [h.inv.len, h.pos]; omega), h.take]
    obtain ⟨s', hs2, hin⟩ := hstep2
    exact ⟨s', by simp [feed, hstep1, hs2], hb ▸ hin⟩
  · rw [if_neg hb]
    obtain ⟨s', hs, hin⟩ := inFrame_plain c b h hr hb
    exact ⟨s', by simp [feed, hs], hin⟩

theorem inFrame_escAll (c : Cfg) (l : List Nat) {s : RState} {body : List Nat} (h : InFrame s body)
    (hr : body.length + l.length ≤ 300) :
    ∃ s', feed c s (escAll l) = .ok (s', []) ∧ InFrame s' (body ++ l) := by
  induction l generalizing s body with
  | nil => exact ⟨s, rfl, by simpa using h⟩
  | cons a t ih =>
    simp only [List.length_cons] at hr
    obtain ⟨s1, hf1, h1⟩ := inFrame_esc1 c a h (by omega)
    obtain ⟨s2, hf2, h2⟩ := ih h1 (by simp; omega)
    refine ⟨s2, ?_, by simpa using h2⟩
    simp only [escAll, feed_append, hf1, hf2, List.append_nil]

/-- nothing is pending -/
structure Idle (s : RState) : Prop where
  inv : RInv s
  coming : s.coming = false
  esc : s.esc = false
  sot : s.sot = false
  pos : s.pos = 0

theorem Idle.handling {s : RState} (h : Idle s) : handling s = false := by
  simp [N2k.Acti.handling, h.coming, h.esc, h.sot]

/-- `<02>` with an escape pending starts a message, whatever else the state is -/
theorem step_start (c : Cfg) (ro : Bool) {s : RState} (he : s.esc = true) :
    readerStep c ro s 0x02 = .ok ({ clearBuffer s with sot := true }, true, none) := by
  unfold readerStep
  by_cases hc : s.coming = true
  · rw [if_pos hc, if_pos he, if_neg (by decide), if_neg (by decide), if_pos rfl]
  · rw [if_neg hc, if_pos rfl, if_pos he]

/-- `<10>` unless an escape is pending inside a message: an escape is pending afterwards, nothing is
reported -/
theorem step_escape (c : Cfg) {s : RState} (h : RInv s) (he : s.coming = false ∨ s.esc = false) :
    ∃ s', readerStep c true s 0x10 = .ok (s', true, none) ∧ RInv s' ∧ s'.esc = true := by
  unfold readerStep
  by_cases hc : s.coming = true
  · have hne : ¬ s.esc = true := by
      rcases he with h1 | h1
      · rw [hc] at h1; cases h1
      · simp [h1]
    rw [if_pos hc, if_neg hne, if_pos rfl]
    exact ⟨_, rfl, h.flags _ _ _, rfl⟩
  · rw [if_neg hc, if_neg (by decide)]
    by_cases hs : s.sot = true
    · rw [if_pos hs]
      by_cases hp : s.pos < 300
      · obtain ⟨s', hadd, _, _, _, _, hesc, hi⟩ :=
          addByte_room c (s := { s with esc := decide ((0x10 : Nat) = 0x10), sot := false, coming := true }) 0x10
            (h.flags _ _ _) hp
        rw [hadd]
        exact ⟨s', rfl, hi, by rw [hesc]; rfl⟩
      · rw [addByte_full c _ (by show 300 ≤ s.pos; omega)]
        exact ⟨_, rfl, h.flags _ _ _, rfl⟩
    · rw [if_neg hs]
      exact ⟨_, rfl, h.flags _ _ _, rfl⟩

/-- the first byte after the start sequence (not `<02>`, not `<10>`) opens the buffer -/
theorem step_first (c : Cfg) {s : RState} (b : Nat) (h : RInv s) (hc : s.coming = false) (hs : s.sot = true)
    (hp : s.pos = 0) (h2 : b ≠ 0x02) (h10 : b ≠ 0x10) :
    ∃ s', readerStep c true s b = .ok (s', true, none) ∧ InFrame s' [b] := by
  unfold readerStep
  rw [if_neg (by rw [hc]; decide), if_neg h2, if_pos hs]
  obtain ⟨s', hadd, hbuf, hpos, _, hcom, hesc, hi⟩ :=
    addByte_room c (s := { s with esc := decide (b = 0x10), sot := false, coming := true }) b
      (h.flags _ _ _) (by show s.pos < 300; omega)
  rw [hadd]
  refine ⟨s', rfl, hi, by rw [hcom], by rw [hesc]; simp [h10], by rw [hpos]; show s.pos + 1 = 1; omega, ?_⟩
  rw [hpos, hbuf]
  show List.take (s.pos + 1) (s.buf.set s.pos b) = _
  rw [take_set_succ _ _ _ (by rw [h.len]; omega), hp]; rfl

/-- the start sequence followed by a first byte, from any state without a pending escape -/
theorem feed_start (c : Cfg) {s : RState} (b : Nat) (h : RInv s) (he : s.coming = false ∨ s.esc = false) (h2 : b ≠ 0x02)
    (h10 : b ≠ 0x10) : ∃ s', feed c s [0x10, 0x02, b] = .ok (s', []) ∧ InFrame s' [b] := by
  obtain ⟨s1, hs1, hi1, he1⟩ := step_escape c h he
  have hs2 := step_start c true he1
  obtain ⟨s3, hs3, hin⟩ := step_first c (s := { clearBuffer s1 with sot := true }) b (hi1.clear.flags _ _ _)
    rfl rfl rfl h2 h10
  exact ⟨s3, by simp [feed, hs1, hs2, hs3], hin⟩

/-- the end sequence: the buffered body is decoded, the reader becomes idle -/
theorem feed_end (c : Cfg) {s : RState} {body : List Nat} (h : InFrame s body)
    (ht : body.getD 0 0 = 0x93 ∨ body.getD 0 0 = 0x94) (hb : 0 < body.length) :
    ∃ s', feed c s [0x10, 0x03] = .ok (s', (decodeBody c.defaultSource c.now c.stampLocal body).toList) ∧ Idle s' := by
  have hne : ¬ s.esc = true := by simp [h.esc]
  have s1 : readerStep c true s 0x10 = .ok ({ s with esc := true }, true, none) := by
    unfold readerStep; rw [if_pos h.coming, if_neg hne, if_pos rfl]
  have h0 : s.buf.getD 0 0 = body.getD 0 0 := by
    rw [← h.take, getD_take, if_pos (by rw [h.pos]; exact hb)]
  have hi1 : RInv { s with esc := true } := h.inv.flags _ _ _
  have s2 : readerStep c true { s with esc := true } 0x03 =
      .ok (clearBuffer { s with esc := true }, true, decodeBody c.defaultSource c.now c.stampLocal body) := by
    unfold readerStep
    rw [if_pos h.coming, if_pos rfl, if_neg (by decide), if_pos rfl, bufGet_ok (by show 0 < s.buf.length; rw [h.inv.len]; omega)]
    simp only []
    rw [if_pos (by show s.buf.getD 0 0 = 0x93 ∨ s.buf.getD 0 0 = 0x94; rw [h0]; exact ht),
      checkMessage_ok c hi1.len hi1.pos, checkPure_eq c hi1 (by show s.buf.getD 0 0 = 0x93 ∨ s.buf.getD 0 0 = 0x94; rw [h0]; exact ht)]
    show _ = Except.ok (_, true, decodeBody c.defaultSource c.now c.stampLocal body)
    rw [← h.take]
  exact ⟨_, by simp [feed, s1, s2], ⟨hi1.clear, rfl, rfl, rfl, rfl⟩⟩


/-! ## the frame of a valid message -/

theorem getD_append_length (l : List Nat) (x d : Nat) : (l ++ [x]).getD l.length d = x := by
  induction l with
  | nil => rfl
  | cons a t ih => simp [ih]

theorem decode_bodyOf (c : Cfg) {m : Msg} (hv : Valid m) :
    decodeBody c.defaultSource c.now c.stampLocal (bodyOf m ++ [checksum (bodyOf m)]) = some (received c m) := by
  obtain ⟨prio, pgn, dst, src, time, len, data⟩ := m
  obtain ⟨h1, h2, h3, h4, h5, h6, h7, h8, h9⟩ := hv
  simp only at h1 h2 h3 h4 h5 h6 h7 h8 h9
  have hb : bodyOf ⟨prio, pgn, dst, src, time, len, data⟩ =
      0x93 :: ((len + 11) % 256) :: (prio % 256) :: (pgn % 256) :: (pgn / 256 % 256) :: (pgn / 65536 % 256) ::
      (dst % 256) :: (src % 256) :: (time % 256) :: (time / 256 % 256) :: (time / 65536 % 256) ::
      (time / 16777216 % 256) :: (len % 256) :: data := rfl
  generalize hcs : checksum (bodyOf ⟨prio, pgn, dst, src, time, len, data⟩) = crc
  have hlen : (bodyOf ⟨prio, pgn, dst, src, time, len, data⟩ ++ [crc]).length = 14 + len := by
    rw [hb]; simp; omega
  have hlast : (bodyOf ⟨prio, pgn, dst, src, time, len, data⟩ ++ [crc]).getD (14 + len - 1) 0 = crc := by
    have : 14 + len - 1 = (bodyOf ⟨prio, pgn, dst, src, time, len, data⟩).length := by rw [hb]; simp; omega
    rw [this]; exact getD_append_length _ _ _
  have htake : (bodyOf ⟨prio, pgn, dst, src, time, len, data⟩ ++ [crc]).take (14 + len - 1) =
      bodyOf ⟨prio, pgn, dst, src, time, len, data⟩ := by
    have : 14 + len - 1 = (bodyOf ⟨prio, pgn, dst, src, time, len, data⟩).length := by rw [hb]; simp; omega
    rw [this]; simp
  unfold decodeBody
  simp only [hlen, hlast, htake, hcs]
  rw [hb]
  simp only [List.cons_append, List.getD_cons_zero, List.getD_cons_succ, if_true,
    show (13 : Nat) - 1 = 12 from rfl]
  have e1 : (len + 11) % 256 = len + 11 := by omega
  have e2 : len % 256 = len := by omega
  rw [if_pos (c := (_ ∨ _) ∧ _ ∧ _ ∧ _ ∧ _) ⟨Or.inl trivial, by omega, trivial, by omega, by omega⟩]
  simp only [received, Option.some.injEq, Msg.mk.injEq]
  refine ⟨by omega, by omega, by omega, by omega, ?_, e2, ?_⟩
  · by_cases hl : c.stampLocal = false
    · simp only [hl, if_true]; omega
    · rw [if_neg hl, if_neg hl]
  show List.take (len % 256) (List.drop 13 (_ :: _)) = data
  rw [e2]; simp only [List.drop_succ_cons, List.drop_zero]
  rw [← h5]; simp


/-- **the frame of a valid message**, fed to a reader that is not inside a message with an escape pending (any other flags, any buffer
content, any write position): exactly that message is reported and the reader is idle afterwards -/
theorem frame_fed (c : Cfg) {s : RState} {m : Msg} (h : RInv s) (he : s.coming = false ∨ s.esc = false)
    (hv : Valid m) :
    ∃ s', feed c s (frame (bodyOf m)) = .ok (s', [received c m]) ∧ Idle s' := by
  obtain ⟨rest, hrest, hrl⟩ : ∃ rest, bodyOf m = 0x93 :: rest ∧ rest.length = 12 + m.len :=
    ⟨_, rfl, by simp [hv.data_len]; omega⟩
  have hle := hv.len_le
  have hframe : frame (bodyOf m) =
      [0x10, 0x02, 0x93] ++ (escAll rest ++ (esc1 (checksum (bodyOf m)) ++ [0x10, 0x03])) := by
    rw [frame, hrest]; simp [escAll, esc1]
  obtain ⟨s1, hf1, h1⟩ := feed_start c 0x93 h he (by decide) (by decide)
  obtain ⟨s2, hf2, h2⟩ := inFrame_escAll c rest h1 (by simp; omega)
  obtain ⟨s3, hf3, h3⟩ := inFrame_esc1 c (checksum (bodyOf m)) h2 (by simp; omega)
  obtain ⟨s4, hf4, h4⟩ := feed_end c h3 (Or.inl rfl) (by simp)
  refine ⟨s4, ?_, h4⟩
  rw [hframe, feed_append, hf1]
  simp only []
  rw [feed_append, hf2]
  simp only []
  rw [feed_append, hf3]
  simp only []
  rw [hf4]
  have : [0x93] ++ rest ++ [checksum (bodyOf m)] = bodyOf m ++ [checksum (bodyOf m)] := by rw [hrest]; rfl
  rw [this, decode_bodyOf c hv]
  rfl

/-- no adjacent `<10><02>` -/
def noStart : List Nat → Bool
  | a :: b :: t => !(a == 0x10 && b == 0x02) && noStart (b :: t)
  | _ => true

/-- outside a message, bytes without a start sequence leave the reader outside a message and
nothing is reported -/
theorem feed_outside (c : Cfg) (g : List Nat) : ∀ {s : RState}, RInv s → s.coming = false → s.sot = false →
    (s.esc = true → g.head? ≠ some 0x02) → noStart g = true →
    ∃ s', feed c s g = .ok (s', []) ∧ RInv s' ∧ s'.coming = false ∧ s'.sot = false ∧
      (s'.esc = true → g.getLast? = some 0x10 ∨ (g = [] ∧ s.esc = true)) := by
  induction g with
  | nil => intro s h hc hs _ _; exact ⟨s, rfl, h, hc, hs, fun he => Or.inr ⟨rfl, he⟩⟩
  | cons b t ih =>
    intro s h hc hs hesc hns
    have hc' : ¬ s.coming = true := by simp [hc]
    have hs' : ¬ s.sot = true := by simp [hs]
    have hns' : noStart t = true := by
      cases t with
      | nil => rfl
      | cons x t' => simp only [noStart, Bool.and_eq_true] at hns; exact hns.2
    by_cases h2 : b = 0x02
    · have he : ¬ s.esc = true := fun he => hesc he (by simp [h2])
      have hstep : readerStep c true s b = .ok ({ s with sot := false }, true, none) := by
        unfold readerStep; rw [if_neg hc', if_pos h2, if_neg he]
      obtain ⟨s', hf, hi, hc2, hs2, hl⟩ := ih (s := { s with sot := false }) (h.flags _ _ _) hc rfl
        (fun h' => absurd h' he) hns'
      refine ⟨s', by simp [feed, hstep, hf], hi, hc2, hs2, ?_⟩
      intro he'
      rcases hl he' with h1 | ⟨_, h1⟩
      · left; cases t with
        | nil => simp at h1
        | cons x t' => simpa using h1
      · exact absurd h1 he
    · have hstep : readerStep c true s b = .ok ({ s with esc := decide (b = 0x10) }, true, none) := by
        unfold readerStep; rw [if_neg hc', if_neg h2, if_neg hs']; simp
      obtain ⟨s', hf, hi, hc2, hs2, hl⟩ := ih (s := { s with esc := decide (b = 0x10) }) (h.flags _ _ _) hc hs
        (by
          intro hb
          have hb' : b = 0x10 := by simpa using hb
          cases t with
          | nil => simp
          | cons x t' =>
            simp only [noStart, Bool.and_eq_true, Bool.not_eq_true', Bool.and_eq_false_iff, beq_eq_false_iff_ne] at hns
            intro hx
            simp only [List.head?_cons, Option.some.injEq] at hx
            rcases hns.1 with h' | h'
            · exact h' hb'
            · exact h' hx) hns'
      refine ⟨s', by simp [feed, hstep, hf], hi, hc2, hs2, ?_⟩
      intro he'
      rcases hl he' with h1 | ⟨ht, h1⟩
      · left; cases t with
        | nil => simp at h1
        | cons x t' => simpa using h1
      · left; subst ht; have : b = 0x10 := by simpa using h1
        simp [this]

/-- from an idle reader (nothing pending) any bytes without a start sequence followed by the frame of
a valid message yield exactly that message -/
theorem frame_fed_idle (c : Cfg) {s : RState} {m : Msg} (g : List Nat) (h : RInv s) (hh : handling s = false)
    (hns : noStart g = true) (hv : Valid m) :
    ∃ s', feed c s (g ++ frame (bodyOf m)) = .ok (s', [received c m]) ∧ Idle s' := by
  simp only [handling, Bool.or_eq_false_iff] at hh
  obtain ⟨s1, hf1, hi1, hc1, _, _⟩ := feed_outside c g h hh.1.1 hh.2 (by rw [hh.1.2]; simp) hns
  obtain ⟨s2, hf2, hidle⟩ := frame_fed c hi1 (Or.inl hc1) hv
  exact ⟨s2, by simp only [feed_append, hf1, hf2, List.nil_append], hidle⟩

/-! ## `GetMessageFromStream` and `ParseMessages` -/

theorem getMessage_total (c : Cfg) (ro : Bool) (bytes : List Nat) {s : RState} (h : RInv s) :
    ∃ s' rest r, getMessage c ro s bytes = .ok (s', rest, r) ∧ RInv s' := by
  induction bytes generalizing s with
  | nil => exact ⟨s, [], none, rfl, h⟩
  | cons b t ih =>
    obtain ⟨s1, k, r, hstep, hi, _, hk, _⟩ := step_total c ro b h
    unfold getMessage
    rw [hstep]
    simp only []
    by_cases hr : r.isSome = true
    · rw [if_pos hr]; exact ⟨_, _, _, rfl, hi⟩
    · rw [if_neg hr]
      by_cases hcont : (!(ro || handling s1)) = true
      · rw [if_pos hcont]; exact ⟨_, _, _, rfl, hi⟩
      · rw [if_neg hcont]
        cases k with
        | true => simpa using ih hi
        | false =>
          obtain ⟨hh, hro⟩ := hk rfl
          simp [hh, hro] at hcont

theorem parseAll_feed (c : Cfg) (bytes : List Nat) : ∀ (fuel : Nat) {s : RState}, RInv s → bytes.length < fuel →
    ∃ s' ms, feed c s bytes = .ok (s', ms) ∧ parseAll c fuel s bytes = .ok (s', [], ms) := by
  induction bytes with
  | nil =>
    intro fuel s h hf
    cases fuel with
    | zero => omega
    | succ f => exact ⟨s, [], rfl, by simp [parseAll, getMessage]⟩
  | cons b t ih =>
    intro fuel s h hf
    cases fuel with
    | zero => omega
    | succ f =>
      simp only [List.length_cons] at hf
      obtain ⟨s1, k, r, hstep, hi, _, hk, _⟩ := step_total c true b h
      have hk' : k = true := by
        cases k with
        | true => rfl
        | false => have := (hk rfl).2; simp at this
      subst hk'
      cases r with
      | some m =>
        obtain ⟨s2, ms, hfeed, hpar⟩ := ih f hi (by omega)
        exact ⟨s2, m :: ms, by simp [feed, hstep, hfeed], by simp [parseAll, getMessage, hstep, hpar]⟩
      | none =>
        obtain ⟨s2, ms, hfeed, hpar⟩ := ih (f + 1) hi (by omega)
        refine ⟨s2, ms, by simp [feed, hstep, hfeed], ?_⟩
        unfold parseAll at hpar ⊢
        unfold getMessage
        rw [hstep]
        simpa using hpar

/-- whether unread bytes are left in the stream (`readOut`) does not change the state machine -/
theorem readOut_irrelevant (c : Cfg) (s : RState) (b : Nat) :
    (match readerStep c false s b with | .ok (s', _, r) => Except.ok (s', r) | .error f => .error f) =
    (match readerStep c true s b with | .ok (s', _, r) => Except.ok (s', r) | .error f => .error f) := by
  unfold readerStep
  by_cases hc : s.coming = true
  · rw [if_pos hc, if_pos hc]
  · rw [if_neg hc, if_neg hc]
    by_cases h2 : b = 0x02
    · rw [if_pos h2, if_pos h2]
      by_cases he : s.esc = true
      · rw [if_pos he, if_pos he]
      · rw [if_neg he, if_neg he]
    · rw [if_neg h2, if_neg h2]
      by_cases hs : s.sot = true
      · rw [if_pos hs, if_pos hs]
      · rw [if_neg hs, if_neg hs]

end N2k.Acti
