"""Human-written texts for MANIFEST.json (levels, notes)."""
HOOK_COMMITS = []
NOTES = ("Technique family: machine-checked proof in Lean 4. Every claimed property has theorems over an executable "
         "model (lean/N2k/Props/Cxx.lean), re-checked and axiom-audited on every run, and a correspondence run that "
         "executes the model and the real /repo/src code on the same generated operation lines. See DESIGN.md.")
NOT_CLAIMED = {}
CHECKS = {
 'C20': {
  'text': "Refinement theorems for EVERY operation sequence, size, priority count and initial memory content: the "
          "plain ring equals a bounded list, the priority ring equals the log specification (oldest alive value of a "
          "priority; lowest non-empty priority; refusal exactly at size-1 log entries); plus no-loss/no-duplication "
          "corollaries over the alive values. The model is tied to RingBuffer.tpp by a correspondence run (random "
          "long sequences, sizes 0..1000, 0..255 priorities, exhaustive small scopes) and an independent reference queue.",
  'design_ref': 'DESIGN.md section 4, C20',
  'note': "Trusted: Lean kernel; hand transcription of RingBuffer.tpp validated only by differential runs; uint16_t "
          "arithmetic modelled on Nat; T=uint32_t; single thread.",
 },
}
