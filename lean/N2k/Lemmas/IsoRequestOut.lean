import N2k.Lemmas.IsoRequestFrame
import N2k.Spec.IsoRequest
/-! The messages the responder hands to `SendMsg` (as a function of the configured data only), and the node-level
invariant that makes the devices' answers to a broadcast request independent of each other. -/
namespace N2k.IsoRequest
open N2k.Send N2k.Time

/-! ## node-level invariant -/

def Same (a b : Node) : Prop := SameSt a.st b.st ∧ b.conf = a.conf ∧ b.ext.map xkey = a.ext.map xkey

theorem Same.refl (a : Node) : Same a a := ⟨SameSt.refl _, rfl, rfl⟩

theorem Same.trans {a b c : Node} (h1 : Same a b) (h2 : Same b c) : Same a c :=
  ⟨SameSt.trans h1.1 h2.1, by rw [h2.2.1, h1.2.1], by rw [h2.2.2, h1.2.2]⟩

theorem same_st (n : Node) (s : St) (h : SameSt n.st s) : Same n { n with st := s } := ⟨h, rfl, rfl⟩

theorem updExt_same (n : Node) (i : Nat) (g : DevX → DevX) (hg : ∀ x, xkey (g x) = xkey x) : Same n (updExt n i g) := by
  unfold updExt
  cases hx : n.ext[i]? with
  | none => exact Same.refl n
  | some x => exact ⟨SameSt.refl _, rfl, map_set_same xkey _ _ x _ hx (hg x)⟩

theorem xkey_afterProd (s : St) (ok : Bool) (src : Nat) (x : DevX) : xkey (afterProd s ok src x) = xkey x := by
  unfold afterProd; cases ok <;> rfl

theorem xkey_afterConf (s : St) (ok : Bool) (src : Nat) (x : DevX) : xkey (afterConf s ok src x) = xkey x := by
  unfold afterConf; cases ok <;> rfl

theorem sendPlain_same (n : Node) (i : Nat) (m : Msg) : Same n (sendPlain n i m).1 :=
  same_st n _ (sendMsg_same _ _ _)

theorem sendAll_same (i : Nat) : ∀ (ms : List Msg) (n : Node), Same n (sendAll n i ms).1
  | [], n => Same.refl n
  | m :: t, n => Same.trans (sendPlain_same n i m) (sendAll_same i t _)

theorem finishProd_same (n : Node) (i src : Nat) (m : Msg) : Same n (finishProd n i src m) :=
  Same.trans (same_st n _ (sendMsg_same _ _ _)) (updExt_same _ _ _ (xkey_afterProd _ _ _))

theorem finishConf_same (n : Node) (i src : Nat) (m : Msg) : Same n (finishConf n i src m) :=
  Same.trans (same_st n _ (sendMsg_same _ _ _)) (updExt_same _ _ _ (xkey_afterConf _ _ _))

theorem sendProductInformation_same (n : Node) (i : Nat) : Same n (sendProductInformation n i).1 := by
  unfold sendProductInformation
  cases n.st.devs[i]? with
  | none => exact Same.refl n
  | some d =>
    cases resolveProd n.ext i with
    | none => exact Same.refl n
    | some p => exact finishProd_same _ _ _ _

theorem sendConfigurationInformation_same (n : Node) (i : Nat) : Same n (sendConfigurationInformation n i).1 := by
  unfold sendConfigurationInformation
  cases n.st.devs[i]? with
  | none => exact Same.refl n
  | some d => exact finishConf_same _ _ _ _

theorem andThen_same (n : Node) (a : Node × List OutMsg) (f : Node → Node × List OutMsg) (ha : Same n a.1)
    (hf : ∀ n1, Same n1 (f n1).1) : Same n (andThen a f).1 := Same.trans ha (hf a.1)

theorem dflt_same (n : Node) (h : Option Handler) (r : Nat) (a : Bool) (p i : Nat) : Same n (dflt n h r a p i).1 := by
  unfold dflt
  cases h with
  | none => by_cases ha : a = true <;> simp only [ha] <;> first | exact sendPlain_same _ _ _ | exact Same.refl n
  | some hd =>
    simp only
    by_cases hig : (!a && Gen.ignoreBroadcastISORequest.contains p) = true
    · rw [if_pos hig]; exact Same.refl n
    · rw [if_neg hig]
      apply andThen_same _ _ _ (sendAll_same _ _ _)
      intro n1
      by_cases hacc : hd.accept p r i = true
      · rw [if_pos hacc]; exact Same.refl n1
      · rw [if_neg hacc]
        by_cases ha : a = true
        · rw [if_pos ha]; exact sendPlain_same _ _ _
        · rw [if_neg ha]; exact Same.refl n1

theorem answer_same (n : Node) (h : Option Handler) (r : Nat) (a : Bool) (p i : Nat) (d : Dev) (x : DevX) :
    Same n (answer n h r a p i d x).1 := by
  unfold answer
  by_cases h1 : p = 60928
  · rw [if_pos h1]; exact sendPlain_same _ _ _
  · rw [if_neg h1]
    by_cases h2 : p = 126464
    · rw [if_pos h2]; exact andThen_same _ _ _ (sendPlain_same _ _ _) (fun n1 => sendPlain_same _ _ _)
    · rw [if_neg h2]
      by_cases h3 : p = 126996
      · rw [if_pos h3]; exact sendProductInformation_same _ _
      · rw [if_neg h3]
        by_cases h4 : p = 126998 ∧ n.conf.any = true
        · rw [if_pos h4]; exact sendConfigurationInformation_same _ _
        · rw [if_neg h4]; exact dflt_same _ _ _ _ _ _

theorem respond_same (n : Node) (h : Option Handler) (r : Nat) (a : Bool) (p i : Nat) : Same n (respond n h r a p i).1 := by
  unfold respond
  cases hd : n.st.devs[i]? with
  | none => exact Same.refl n
  | some d0 =>
    cases hx : n.ext[i]? with
    | none => exact Same.refl n
    | some x =>
      simp only
      have h1 : Same n { n with st := { n.st with devs := updDev n.st.devs i (isAddressClaimStarted n.st.flavor n.st.now d0).1 } } :=
        same_st n _ (sameSt_setDev n.st i d0 _ hd (key_ics _ _ _))
      by_cases hc : (isAddressClaimStarted n.st.flavor n.st.now d0).2 = true
      · rw [if_pos hc]; exact h1
      · rw [if_neg hc]; exact Same.trans h1 (answer_same _ _ _ _ _ _ _ _)

/-! ## outputs -/

theorem sendAll_out (i : Nat) : ∀ (ms : List Msg) (n : Node), (sendAll n i ms).2 = ms.map (OutMsg.mk i)
  | [], _ => rfl
  | m :: t, n => by
    show OutMsg.mk i m :: (sendAll (sendPlain n i m).1 i t).2 = _
    rw [sendAll_out i t]; rfl

theorem dflt_out (n : Node) (h : Option Handler) (r : Nat) (a : Bool) (p i : Nat) :
    (dflt n h r a p i).2 = dfltAnswers h r a p i := by
  unfold dflt dfltAnswers
  cases h with
  | none => by_cases ha : a = true <;> simp [ha, sendPlain]
  | some hd =>
    simp only
    by_cases hig : (!a && Gen.ignoreBroadcastISORequest.contains p) = true
    · rw [if_pos hig, if_pos hig]
    · rw [if_neg hig, if_neg hig]
      simp only [andThen, sendAll_out]
      by_cases hacc : hd.accept p r i = true
      · rw [if_pos hacc, if_pos hacc]
      · rw [if_neg hacc, if_neg hacc]
        by_cases ha : a = true
        · rw [if_pos ha, if_pos ha]; rfl
        · rw [if_neg ha, if_neg ha]

theorem sendProductInformation_out (n : Node) (i : Nat) (d : Dev) (hd : n.st.devs[i]? = some d) :
    (sendProductInformation n i).2 =
      (match resolveProd n.ext i with | some p => [⟨i, productMsg d p⟩] | none => []) := by
  unfold sendProductInformation
  rw [hd]
  cases resolveProd n.ext i <;> rfl

theorem sendConfigurationInformation_out (n : Node) (i : Nat) (d : Dev) (hd : n.st.devs[i]? = some d) :
    (sendConfigurationInformation n i).2 = [⟨i, confOrNak d n.conf⟩] := by
  unfold sendConfigurationInformation
  rw [hd]

theorem answer_out (n : Node) (h : Option Handler) (r : Nat) (a : Bool) (p i : Nat) (d : Dev) (x : DevX)
    (hd : n.st.devs[i]? = some d) :
    (answer n h r a p i d x).2 = answers h n.conf (resolveProd n.ext i) r a p i d x := by
  unfold answer answers
  by_cases h1 : p = 60928
  · rw [if_pos h1, if_pos h1]; rfl
  · rw [if_neg h1, if_neg h1]
    by_cases h2 : p = 126464
    · rw [if_pos h2, if_pos h2]; rfl
    · rw [if_neg h2, if_neg h2]
      by_cases h3 : p = 126996
      · rw [if_pos h3, if_pos h3]; exact sendProductInformation_out n i d hd
      · rw [if_neg h3, if_neg h3]
        by_cases h4 : p = 126998 ∧ n.conf.any = true
        · rw [if_pos h4, if_pos h4, sendConfigurationInformation_out n i d hd]
          simp [confOrNak, h4.2]
        · rw [if_neg h4, if_neg h4]; exact dflt_out _ _ _ _ _ _

/-- the answers depend on the device entry only through address, NAME and declared lists -/
theorem answers_congr (h : Option Handler) (conf : Config) (prod : Option Product) (r : Nat) (a : Bool) (p i : Nat)
    (d d' : Dev) (x x' : DevX) (h1 : d'.source = d.source) (h2 : d'.name = d.name) (h3 : d'.txList = d.txList)
    (h4 : x'.rxList = x.rxList) :
    answers h conf prod r a p i d' x' = answers h conf prod r a p i d x := by
  simp only [answers, claimMsg, txListMsg, rxListMsg, pgnListMsg, productMsg, configMsg, h1, h2, h3, h4]

/-- **`RespondISORequest`: nothing while the claim is pending, otherwise the specified answers.** -/
theorem respond_out (n : Node) (h : Option Handler) (r : Nat) (a : Bool) (p i : Nat) :
    (respond n h r a p i).2 = deviceAnswers n h r a p i := by
  unfold respond deviceAnswers
  cases hd : n.st.devs[i]? with
  | none => rfl
  | some d0 =>
    cases hx : n.ext[i]? with
    | none => rfl
    | some x =>
      simp only
      by_cases hc : (isAddressClaimStarted n.st.flavor n.st.now d0).2 = true
      · rw [if_pos hc, if_pos hc]
      · rw [if_neg hc, if_neg hc]
        rw [answer_out _ _ _ _ _ _ _ _ (getElem?_updDev_self _ _ _ _ hd)]
        exact answers_congr _ _ _ _ _ _ _ _ _ _ _ (ics_source _ _ _) (ics_name _ _ _) (ics_txList _ _ _) rfl

/-! ## the answers of a device are the same in every later state of the node -/

theorem getElem?_of_map_eq {α β : Type} (k : α → β) (l l' : List α) (h : l'.map k = l.map k) (i : Nat) :
    (l'[i]?).map k = (l[i]?).map k := by
  rw [← List.getElem?_map, ← List.getElem?_map, h]

theorem resolveProd_same (e e' : List DevX) (h : e'.map xkey = e.map xkey) (i : Nat) :
    resolveProd e' i = resolveProd e i := by
  have hp : ∀ j : Nat, (e'[j]?).bind (fun x : DevX => x.prod) = (e[j]?).bind (fun x : DevX => x.prod) := by
    intro j
    have := getElem?_of_map_eq xkey e e' h j
    cases h1 : e'[j]? <;> cases h2 : e[j]? <;> simp [h1, h2, xkey] at this ⊢
    exact this.2
  unfold resolveProd
  rw [hp i, hp 0]

theorem deviceAnswers_same (n n' : Node) (hs : Same n n') (h : Option Handler) (r : Nat) (a : Bool) (p i : Nat) :
    deviceAnswers n' h r a p i = deviceAnswers n h r a p i := by
  obtain ⟨⟨hf, hn, _, hk⟩, hc, hx⟩ := hs
  have hki := getElem?_of_map_eq _ _ _ hk i
  have hxi := getElem?_of_map_eq _ _ _ hx i
  unfold deviceAnswers
  rw [resolveProd_same _ _ hx, hc, hf, hn]
  cases h1 : n'.st.devs[i]? with
  | none =>
    cases h2 : n.st.devs[i]? with
    | none => rfl
    | some d => rw [h1, h2] at hki; simp at hki
  | some d' =>
    cases h2 : n.st.devs[i]? with
    | none => rw [h1, h2] at hki; simp at hki
    | some d =>
      rw [h1, h2] at hki
      simp only [Option.map_some, Option.some.injEq, key, Prod.mk.injEq] at hki
      cases h3 : n'.ext[i]? with
      | none =>
        cases h4 : n.ext[i]? with
        | none => rfl
        | some x => rw [h3, h4] at hxi; simp at hxi
      | some x' =>
        cases h4 : n.ext[i]? with
        | none => rw [h3, h4] at hxi; simp at hxi
        | some x =>
          rw [h3, h4] at hxi
          simp only [Option.map_some, Option.some.injEq, xkey, Prod.mk.injEq] at hxi
          simp only
          rw [hki.2.2.2, answers_congr _ _ _ _ _ _ _ d d' x x' hki.1 hki.2.1 hki.2.2.1 hxi.1]

/-- **the broadcast loop: every device answers as if it were asked alone** -/
theorem respondAll_out (h : Option Handler) (r p : Nat) : ∀ (l : List Nat) (n0 n : Node), Same n0 n →
    (respondAll h r p l n).2 = l.flatMap (deviceAnswers n0 h r false p) ∧ Same n0 (respondAll h r p l n).1
  | [], _, n, hs => ⟨rfl, hs⟩
  | i :: t, n0, n, hs => by
    have hr := respond_same n h r false p i
    have ih := respondAll_out h r p t n0 (respond n h r false p i).1 (Same.trans hs hr)
    refine ⟨?_, ih.2⟩
    show (respond n h r false p i).2 ++ (respondAll h r p t (respond n h r false p i).1).2 = _
    rw [ih.1, respond_out, deviceAnswers_same n0 n hs]
    rfl

end N2k.IsoRequest
