import N2k.Lemmas.HeartbeatRun
import N2k.Model.GroupFunction
/-!
# C12 — Heartbeats are sent on schedule with a correct interval field and sequence

Model: `Model/Heartbeat.lean` (`tN2kSyncScheduler`, `SetHeartbeatIntervalAndOffset`, `SendHeartbeat`,
`SetN2kPGN126993`, the heartbeat defaults of `Open()`), composed with the send path of `Model/Send.lean`.
The model transcribes the tree with the four `fix:` commits recorded in `known_findings.d/C12.json`.
Operations on the node (`Op`) and runs (`run`) are defined in `Lemmas/HeartbeatRun.lean`; they are the operations the
`hb` engine executes.
-/
namespace N2k.C12
open N2k.Time N2k.Send N2k.Heartbeat

/-! ## the grid -/

/-- **Grid, scheduler level.** Take a heartbeat scheduler with a non-zero period that was updated at any time `t0`,
and poll it at ANY list of times `ts` (any jitter, any gaps, not even required to be increasing). Then
1. `NextTime` is a point of the grid `syncOffset + offset + j·period`, lies strictly after the time of the last update
   (the last heartbeat, or `t0`) and is the LEAST such grid point: late polling delays a heartbeat, it never shifts the grid;
2. heartbeats are sent only at polls, at most one per poll;
3. every heartbeat is sent for a grid point that has already passed (none before its grid point), and
4. no grid point gets two heartbeats. -/
theorem C12_grid (so t0 : Nat) (s : SyncSched) (ts : List Nat) (hp : s.period ≠ 0) :
    let r := runPolls so (s.updateNextTime so t0) ts
    let base := so + s.offset
    let last := lastUpdate t0 r.2
    (OnGrid base s.period r.1.next ∧ last < r.1.next ∧ ∀ x, OnGrid base s.period x → last < x → r.1.next ≤ x) ∧
    (r.2.map (·.1)).Sublist ts ∧
    (∀ e ∈ r.2, OnGrid base s.period e.2 ∧ e.2 < e.1) ∧
    r.2.Pairwise (fun a b => a.2 < b.2) := by
  have hu := updateNextTime_enabled (so := so) (now := t0) hp
  have hpos : 0 < s.period := Nat.pos_of_ne_zero hp
  obtain ⟨_, _, i3, i4, i5, i6, _⟩ := runPolls_grid so ts (s.updateNextTime so t0) t0
    (by rw [updateNextTime_period]; exact hp)
    (by rw [updateNextTime_period, updateNextTime_offset, hu])
  simp only [updateNextTime_period, updateNextTime_offset] at i3 i5
  refine ⟨⟨?_, ?_, ?_⟩, i4, i5, i6⟩
  · rw [i3]; exact gridNext_onGrid _ _ _
  · rw [i3]; exact gridNext_gt hpos
  · intro x hx hl; rw [i3]; exact gridNext_least hpos hx hl

/-- a heartbeat that is due is sent at the very next poll (the model's `IsTime()` is `now > NextTime`) -/
theorem C12_grid_due (so : Nat) (s : SyncSched) (t : Nat) (h : s.next < t) :
    (pollSched so s t).2 = some s.next := by
  unfold pollSched SyncSched.isTime; simp [h]

/-- **Grid, one `SendHeartbeat(false)` of the node** (the heartbeat part of `ParseMessages()`): the log contains at
most one heartbeat per device (device indices strictly increasing), and for every device the step is a `DevStep`:
either nothing happens to its heartbeat state, or exactly one message is produced, `now > NextTime` held, and
the scheduler moved by `UpdateNextTime` (hence, by `C12_grid`, to the least grid point after now). -/
theorem C12_grid_poll (h : HSt) :
    ((pollH h).2.map (·.1)).Pairwise (· < ·) ∧
    ∀ d b, h.hb[d]? = some b → ∃ b', (pollH h).1.hb[d]? = some b' ∧
      ((msgsOf d (pollH h).2 = [] ∧ b' = b) ∨
       (msgsOf d (pollH h).2 = [setN2kPGN126993 b.sched.period b.seq] ∧ h.st.now > b.sched.next ∧
        b'.sched = b.sched.updateNextTime h.syncOffset h.st.now ∧ b'.seq = nextSeq b.seq)) := by
  obtain ⟨_, a2, a3, _⟩ := pollH_spec h
  refine ⟨a2, fun d b hb => ?_⟩
  obtain ⟨b', hb', hs⟩ := a3 d b hb
  refine ⟨b', hb', ?_⟩
  rcases hs with ⟨h1, h2⟩ | ⟨h1, h2, h3⟩
  · exact Or.inl ⟨h1, h2⟩
  · right
    refine ⟨by simpa using h1, ?_, by rw [h2], by rw [h2]; rfl⟩
    rcases h3 with h3 | h3
    · simp at h3
    · exact h3

/-- **Grid, node level, any history.** On a node whose heartbeat is configured after it has opened (`RunOk`: the
library's own defaults are applied by `Open()`; applications configure from `OnOpen` or later), after ANY history of
operations (clock advances, polls, forced heartbeats, interval/offset changes, address claims, driver back-pressure) every
device's heartbeat scheduler is either off (period 0) or its `NextTime` is the least point of its grid
`syncOffset + offset + j·period` strictly after some past instant `u ≤ now` — the time of its last update. -/
theorem C12_grid_node (h : HSt) (ops : List Op) (hi : NodeInv h) (hok : RunOk h ops)
    (hopen : (run h ops).1.st.openState = 3) :
    ∀ b ∈ (run h ops).1.hb,
      (b.sched.period = 0 ∧ b.sched.next = disabled64) ∨
      (b.sched.period ≠ 0 ∧ ∃ u, u ≤ (run h ops).1.st.now ∧
        OnGrid ((run h ops).1.syncOffset + b.sched.offset) b.sched.period b.sched.next ∧ u < b.sched.next ∧
        ∀ x, OnGrid ((run h ops).1.syncOffset + b.sched.offset) b.sched.period x → u < x → b.sched.next ≤ x) := by
  intro b hb
  rcases (run_inv ops h hi hok).1 hopen b hb with hz | ⟨hp, u, hu, hn⟩
  · exact Or.inl hz
  · right
    have hpos : 0 < b.sched.period := Nat.pos_of_ne_zero hp
    refine ⟨hp, u, hu, ?_, ?_, ?_⟩
    · rw [hn]; exact gridNext_onGrid _ _ _
    · rw [hn]; exact gridNext_gt hpos
    · intro x hx hl; rw [hn]; exact gridNext_least hpos hx hl

/-- a node that has just been constructed (all heartbeat schedulers off, not open) satisfies the invariant -/
theorem C12_grid_node_fresh (h : HSt) (h0 : h.st.openState ≠ 3)
    (hf : ∀ b ∈ h.hb, b.sched.period = 0 ∧ b.sched.next = disabled64) : NodeInv h :=
  ⟨fun h3 => absurd h3 h0, fun _ => hf⟩

/-! ## sequence -/

/-- **Sequence.** From any state in which device `d`'s counter is `c ≤ 252` (0 on a new node), after ANY history of
operations the sequence bytes of the scheduled heartbeats of `d`, in order, are `c, c+1, …, 252, 0, 1, …`
(`countFrom`), the stored counter is `c + n mod 253`, and every forced heartbeat (`SendHeartbeat(true)`,
`SendHeartbeat(iDev)`) of any device carries 0xFF and is not counted. -/
theorem C12_sequence (h : HSt) (ops : List Op) (d c : Nat) (hc : seqOf h d = some c) (hlt : c < 253) :
    let log := (run h ops).2
    seqsOf d log = (List.range (seqsOf d log).length).map (fun j => (c + j) % 253) ∧
    seqOf (run h ops).1 d = some ((c + (seqsOf d log).length) % 253) ∧
    ∀ e ∈ log, e.forced = true → seqByte e.msg = 0xff := by
  obtain ⟨c', h1, _, r1, r2, r3⟩ := run_seq ops h d c hc hlt
  exact ⟨r1, by rw [h1, r2], r3⟩

/-! ## interval field -/

/-- **Interval field.** For every interval up to 655 320 ms (in particular for every settable value 1000 … 655 320 ms,
and above 65 535 ms) the message built by `SetN2kPGN126993` has the published layout (PGN 126993, priority 7,
8 bytes, sequence in byte 2, bytes 3-7 reserved = 0xFF) and its two interval bytes, read little-endian at the field's
10 ms resolution, give the interval to within 10 ms (exactly, when the interval is a multiple of 10 ms). -/
theorem C12_interval_field (p s : Nat) (h2 : p ≤ 655320) :
    let m := setN2kPGN126993 p s
    m.pgn = 126993 ∧ m.prio = 7 ∧ m.len = 8 ∧ m.data.length = 8 ∧ seqByte m = s % 256 ∧
    m.data.drop 3 = [0xff, 0xff, 0xff, 0xff, 0xff] ∧
    decodeInterval10 m ≤ p ∧ p < decodeInterval10 m + 10 ∧ (p % 10 = 0 → decodeInterval10 m = p) := by
  obtain ⟨a1, a2, a3, a4, a5, a6⟩ := setN2kPGN126993_layout p s
  obtain ⟨b1, b2⟩ := setN2kPGN126993_interval s h2
  refine ⟨a1, a2, a3, a4, a5, a6, b1, b2, ?_⟩
  intro hm
  have : decodeInterval10 (setN2kPGN126993 p s) % 10 = 0 := by unfold decodeInterval10; omega
  omega

/-- every heartbeat a poll produces for a device carries that device's stored period (and, by `C12_clip`, the stored
period is the configured interval) -/
theorem C12_interval_field_sent (h : HSt) (d : Nat) (b : HbDev) (hb : h.hb[d]? = some b)
    (hr : b.sched.period ≤ 655320) :
    ∀ m ∈ msgsOf d (pollH h).2,
      decodeInterval10 m ≤ b.sched.period ∧ b.sched.period < decodeInterval10 m + 10 ∧ seqByte m = b.seq % 256 := by
  obtain ⟨b', _, hs⟩ := (C12_grid_poll h).2 d b hb
  intro m hm
  rcases hs with ⟨h1, _⟩ | ⟨h1, _, _, _⟩
  · rw [h1] at hm; simp at hm
  · rw [h1] at hm
    have : m = setN2kPGN126993 b.sched.period b.seq := by simpa using hm
    subst this
    obtain ⟨b1, b2⟩ := setN2kPGN126993_interval b.seq hr
    exact ⟨b1, b2, (setN2kPGN126993_layout _ _).2.2.2.2.1⟩

/-! ## clipping -/

/-- **Clip.** `SetHeartbeatIntervalAndOffset(interval, offset, iDev)` for EVERY argument. A device entry is *touched*
when the call is not the "do not change" pair (0xffffffff, 0xffff) and the device is inside the loop (`iDev < 0`: all,
otherwise only `iDev`). An untouched entry is unchanged. For a touched entry: the sequence is kept; the stored period
is `clipInterval (resolveInterval current interval)` — 0xffffffff keeps the device's OWN current period, 0xfffffffe
restores 60000, 0 disables, anything else is clipped into 1000 … 655320; the offset is the argument (0xffffffff keeps the
device's own); `NextTime` is "disabled" for period 0, the least grid point after now when period or offset changed, and
is left alone otherwise. -/
theorem C12_clip (h : HSt) (iv off : Nat) (dev : Option Nat) (i : Nat) (b : HbDev) (hb : h.hb[i]? = some b) :
    ∃ b', (setHeartbeatIntervalAndOffset h iv off dev).hb[i]? = some b' ∧
      ((iv = 0xffffffff ∧ off = 0xffff) ∨ inLoop dev i = false → b' = b) ∧
      (¬(iv = 0xffffffff ∧ off = 0xffff) → inLoop dev i = true →
        b'.seq = b.seq ∧
        b'.sched.period = clipInterval (resolveInterval b.sched.period iv) ∧
        b'.sched.offset = resolveOffset b.sched.offset off ∧
        b'.sched.next =
          (if clipInterval (resolveInterval b.sched.period iv) = 0 then disabled64
           else if b.sched.period ≠ clipInterval (resolveInterval b.sched.period iv) ∨
                   b.sched.offset ≠ resolveOffset b.sched.offset off then
             gridNext (h.syncOffset + resolveOffset b.sched.offset off)
               (clipInterval (resolveInterval b.sched.period iv)) h.st.now
           else b.sched.next)) := by
  rw [set_getElem?, hb]
  simp only [Option.map_some]
  refine ⟨_, rfl, ?_, ?_⟩
  · intro hc
    rcases hc with hc | hc
    · simp only [if_pos hc]
    · by_cases h0 : iv = 0xffffffff ∧ off = 0xffff
      · simp only [if_pos h0]
      · simp only [if_neg h0, hc]; rfl
  · intro h0 hl
    simp only [if_neg h0, if_pos hl]
    obtain ⟨s1, s2, s3, s4, _⟩ := setOne_spec h.syncOffset h.st.now iv off b
    exact ⟨s1, s2, s3, s4⟩

/-- the documented values of the stored period, case by case -/
theorem C12_clip_values (cur : Nat) :
    clipInterval (resolveInterval cur 0) = 0 ∧
    clipInterval (resolveInterval cur 0xfffffffe) = 60000 ∧
    (∀ x, 1000 ≤ x → x ≤ 655320 → clipInterval (resolveInterval cur x) = x) ∧
    (∀ x, 0 < x → x < 1000 → clipInterval (resolveInterval cur x) = 1000) ∧
    (∀ x, 655320 < x → x < 0xfffffffe → clipInterval (resolveInterval cur x) = 655320) ∧
    (cur = 0 ∨ (1000 ≤ cur ∧ cur ≤ 655320) → clipInterval (resolveInterval cur 0xffffffff) = cur) ∧
    (∀ x, clipInterval x = 0 ∨ (1000 ≤ clipInterval x ∧ clipInterval x ≤ 655320)) := by
  refine ⟨by simp [resolveInterval, clipInterval], ?_, ?_, ?_, ?_, ?_, clipInterval_range⟩
  · simp [resolveInterval, clipInterval, defaultInterval, maxInterval]
  · intro x h1 h2
    have : resolveInterval cur x = x := by unfold resolveInterval; rw [if_neg (by omega), if_neg (by omega)]
    rw [this]; exact clipInterval_id h1 h2
  · intro x h1 h2
    have : resolveInterval cur x = x := by unfold resolveInterval; rw [if_neg (by omega), if_neg (by omega)]
    rw [this]; unfold clipInterval maxInterval; rw [if_neg (by omega), if_neg (by omega), if_pos h2]
  · intro x h1 h2
    have : resolveInterval cur x = x := by unfold resolveInterval; rw [if_neg (by omega), if_neg (by omega)]
    rw [this]; unfold clipInterval maxInterval; rw [if_neg (by omega), if_pos h1]
  · intro hc
    have : resolveInterval cur 0xffffffff = cur := by unfold resolveInterval; rw [if_pos rfl]
    rw [this]
    rcases hc with hc | ⟨h1, h2⟩
    · rw [hc]; rfl
    · exact clipInterval_id h1 h2

/-- the range a group-function request may set (1000 … 60000 ms) is stored unchanged -/
theorem C12_clip_group_function (cur x : Nat) (h1 : 1000 ≤ x) (h2 : x ≤ 60000) :
    clipInterval (resolveInterval cur x) = x :=
  (C12_clip_values cur).2.2.1 x h1 (by omega)

/-- **Group-function request (PGN 126208 for 126993), every message.** Whatever bytes arrive, the handler of
`Model/GroupFunction.lean` (`req126993`, transcribing `tN2kGroupFunctionHandlerForPGN126993::HandleRequest`) calls
`SetHeartbeatIntervalAndOffset(interval, offset, iDev)` only with an interval that is "no change", "restore default"
or within 1000 … 60000 ms — never 0 ("turn off" is refused), never below 1 s or above 60 s — and with an offset that is
"keep" or at most 60000 ms. Hence (`C12_clip`) a request can never switch the heartbeat off: a device whose stored
period is non-zero keeps a non-zero period, and a period that was within 1000 … 60000 ms stays within it. -/
theorem C12_clip_group_function_request (d : Dev) (m : Msg) (iv off : Nat)
    (h : GF.req126993 d m = .serveHeartbeat iv off) :
    (iv = 0xffffffff ∨ iv = 0xfffffffe ∨ (1000 ≤ iv ∧ iv ≤ 60000)) ∧ (off = 0xffffffff ∨ off ≤ 60000) ∧
    (∀ cur, cur ≠ 0 → clipInterval (resolveInterval cur iv) ≠ 0) ∧
    (∀ cur, 1000 ≤ cur → cur ≤ 60000 →
      1000 ≤ clipInterval (resolveInterval cur iv) ∧ clipInterval (resolveInterval cur iv) ≤ 60000) := by
  have hiv : (iv = 0xffffffff ∨ iv = 0xfffffffe ∨ (1000 ≤ iv ∧ iv ≤ 60000)) ∧ (off = 0xffffffff ∨ off ≤ 60000) := by
    unfold GF.req126993 at h
    generalize GF.reqParams m = rp at h
    by_cases hp : rp.2.2 = 0
    · simp only [if_pos hp] at h
      by_cases hk : rp.1 = 0xffffffff ∧ rp.2.1 = 0xffff
      · simp only [if_pos hk] at h
        unfold GF.baseRequest at h
        simp only at h
        split at h <;> simp at h
      · simp only [if_neg hk] at h
        by_cases h0 : rp.1 = 0
        · simp only [if_pos h0] at h
          simp at h
          split at h <;> simp at h
        · simp only [if_neg h0] at h
          by_cases hpec : GF.tpErr rp.1 rp.2.1 true 60000 1000 true 6000 = 0
          · simp only [if_pos hpec] at h
            simp only [GF.Act.serveHeartbeat.injEq] at h
            obtain ⟨h1, h2⟩ := h
            unfold GF.tpErr at hpec
            split at hpec
            · rename_i hc
              obtain ⟨hc1, hc2⟩ := hc
              constructor
              · rw [← h1]
                rcases hc1 with hc1 | hc1 | hc1 | hc1
                · exact Or.inl hc1
                · exact Or.inr (Or.inl hc1)
                · exact absurd hc1 h0
                · exact Or.inr (Or.inr ⟨hc1.2.1, hc1.2.2⟩)
              · rw [← h2]
                by_cases hko : rp.2.1 = 0xffff ∨ rp.2.1 = 0
                · simp only [if_pos hko]; exact Or.inl trivial
                · simp only [if_neg hko]; right
                  rcases hc2 with hc2 | hc2 | hc2
                  · exact absurd (Or.inl hc2) hko
                  · exact absurd (Or.inr hc2) hko
                  · omega
            · simp at hpec
          · simp only [if_neg hpec] at h
            split at h <;> simp at h
    · simp only [if_neg hp] at h
      split at h <;> simp at h
  refine ⟨hiv.1, hiv.2, ?_, ?_⟩
  · intro cur hc
    rw [Ne, clipInterval_zero_iff]
    unfold resolveInterval defaultInterval
    rcases hiv.1 with h1 | h1 | h1
    · rw [if_pos h1]; exact hc
    · rw [if_neg (by omega), if_pos h1]; omega
    · rw [if_neg (by omega), if_neg (by omega)]; omega
  · intro cur hc1 hc2
    unfold resolveInterval defaultInterval
    rcases hiv.1 with h1 | h1 | h1
    · rw [if_pos h1, clipInterval_id hc1 (by omega)]; exact ⟨hc1, hc2⟩
    · rw [if_neg (by omega), if_pos h1, clipInterval_id (by omega) (by omega)]; omega
    · rw [if_neg (by omega), if_neg (by omega), clipInterval_id h1.1 (by omega)]; exact h1

/-- the hypothesis is satisfiable: a request for 5 s with offset 1 s (100 × 10 ms), no parameter pairs, is served;
and a request for interval 0 is not served -/
example :
    GF.req126993 { source := 30, name := 1, claimTimer := ⟨0⟩, endSource := 29 }
      { prio := 3, pgn := 126208, src := 50, dst := 30, len := 11,
        data := [0, 0x11, 0xf0, 0x01, 0x88, 0x13, 0, 0, 100, 0, 0] } = .serveHeartbeat 5000 1000 ∧
    (match GF.req126993 { source := 30, name := 1, claimTimer := ⟨0⟩, endSource := 29 }
        { prio := 3, pgn := 126208, src := 50, dst := 30, len := 11,
          data := [0, 0x11, 0xf0, 0x01, 0, 0, 0, 0, 0, 0, 0] } with
      | .serveHeartbeat _ _ => false
      | _ => true) = true := by
  refine ⟨by decide, by decide⟩

/-! ## inactive nodes -/

/-- **Inactive nodes are silent.** In every mode other than NodeOnly / ListenAndNode (`IsActiveNode()` false) all
three entry points — `SendHeartbeat(force)` scheduled or forced, `SendHeartbeat(iDev)`, and a whole `ParseMessages()`
poll — leave the state alone and hand no heartbeat to `SendMsg`, whatever the schedulers contain. -/
theorem C12_inactive_silent (h : HSt) (hm : h.st.claimMode = false) :
    (∀ force, sendHeartbeat force h = (h, [])) ∧ (∀ i, sendHeartbeatOne h i = (h, none)) ∧
    (pollH h).2 = [] ∧ (pollH h).1.hb = h.hb ∧ (pollTopH h).2 = [] := by
  have hp : ∀ h : HSt, h.st.claimMode = false → (pollH h).2 = [] ∧ (pollH h).1.hb = h.hb := by
    intro h hm
    unfold pollH
    rw [sendHeartbeat_inactive false _ (by exact hm)]
    exact ⟨rfl, rfl⟩
  refine ⟨fun force => sendHeartbeat_inactive force h hm, fun i => (sendHeartbeatOne_spec h i).2.2.2.2 hm,
    (hp h hm).1, (hp h hm).2, ?_⟩
  unfold pollTopH
  by_cases h3 : h.st.openState = 3
  · simp only [if_pos h3]; exact (hp h hm).1
  · simp only [if_neg h3]
    have hm' : (openStepH h).st.claimMode = false := by
      unfold openStepH
      by_cases ht : h.st.openState ≠ 3 ∧ (openStep h.st).openState = 3
      · simp only [if_pos ht]; rw [(set_st _ _ _ _).1]; exact openStep_inactive h.st hm
      · simp only [if_neg ht]; exact openStep_inactive h.st hm
    by_cases h4 : (openStepH h).st.openState = 3
    · simp only [if_pos h4]; exact (hp _ hm').1
    · simp only [if_neg h4]

/-! ## non-vacuity -/

def exampleSt : St :=
  { flavor := .t64, now := 1000, listenOnly := false, claimMode := true, openState := 0, openSched := ⟨1000⟩,
    lists := {}, devs := [{ source := 30, name := 1, claimTimer := Sched.disabled .t64, endSource := 29 }],
    ring := { n := 4, buf := fun _ => ⟨0, 0, []⟩, read := 0, write := 0 },
    drv := { script := [], dflt := true, sent := [] } }

def exampleNode : HSt := { st := exampleSt, hb := [{}] }

/-- the hypotheses of `C12_grid_node` / `C12_sequence` are satisfiable: a new node, and a history in which it opens,
is configured to 1 s and polled -/
example : NodeInv exampleNode ∧ seqOf exampleNode 0 = some 0 ∧
    RunOk exampleNode [.tick 1, .poll, .tick 201, .poll, .set 1000 0 none, .tick 1500, .poll] ∧
    (run exampleNode [.tick 1, .poll, .tick 201, .poll, .set 1000 0 none, .tick 1500, .poll]).1.st.openState = 3 := by
  refine ⟨C12_grid_node_fresh _ (by decide) (by intro b hb; simp [exampleNode] at hb; subst hb; exact ⟨rfl, rfl⟩), rfl, ?_, ?_⟩
  · exact ⟨trivial, trivial, trivial, trivial, by show _ = 3; decide, trivial, trivial, trivial⟩
  · decide

example : (60000 : Nat) ≤ 655320 ∧ (100000 : Nat) ≤ 655320 := by omega

end N2k.C12
